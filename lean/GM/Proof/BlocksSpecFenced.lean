/-
  GM.Proof.BlocksSpecFenced — fcode_block.go (fencedCodeBlockParser.Open / Continue / Close) against the contracts
  of GM.Proof.BlocksInv: no Go panic, the reader invariant, the store invariant.
-/
import GM.Proof.BlocksInv
namespace GM.Blocks
open GM GM.Text GM.Spec GM.Proof.Reader
set_option linter.unusedSimpArgs false

/-! ### Open -/

theorem fencedOpen_spec (src : Bytes) : OpenSpec src .fenced := by
  intro parent s c h
  show OKL _ (fencedOpen parent s)
  unfold fencedOpen
  refine OKL.bind (peekLine_okl h.ri) (fun x s1 hx => ?_)
  obtain ⟨hx, r1, hs1, h1⟩ := hx
  subst hx hs1
  simp only
  refine OKL.bind (m := getPc) (P := fun v s' => v = s.pc ∧ s' = { s with r := r1 }) (OKL.ok ⟨rfl, rfl⟩) (fun pc s2 hv => ?_)
  obtain ⟨hv, hs2⟩ := hv
  subst hv hs2
  -- the two ways out
  have finNone : OKL (fun a s' => OpenPost src .fenced parent s c a s')
      (.ok ((none, stNoChildren), { r := r1, nodes := s.nodes, pc := s.pc })) :=
    OKL.ok
      { ri := ⟨c, h1, h.pad, Nat.le_refl _, fun _ => rfl, (by intro hh; cases hh)⟩
        opened := rfl, boff := rfl, noNode := (fun _ => rfl), newNode := (by intro id hh; cases hh)
        tmp := .inr ⟨.inr rfl, rfl⟩, fence := .inr ⟨.inr rfl, rfl⟩
        req := (by intro hh; cases hh), kids := (by intro hh; cases hh) }
  have finSome : ∀ (info : Option Segment) (ch : UInt8) (len : Int), 3 ≤ len → 0 ≤ s.pc.blockOffset →
      OKL (fun a s' => OpenPost src .fenced parent s c a s')
        (.ok ((some s.nodes.length, stNoChildren),
          { r := r1, nodes := s.nodes ++ [({ kind := .fencedCodeBlock, info := info } : Node)],
            pc := { s.pc with fence := some { char := ch, indent := s.pc.blockOffset, length := len, node := s.nodes.length } } })) := by
    intro info ch len hlen hpos
    exact OKL.ok
      { ri := ⟨c, h1, h.pad, Nat.le_refl _, (by intro hh; cases hh), (by intro hh; cases hh)⟩
        opened := rfl, boff := rfl, noNode := (by intro hh; cases hh)
        newNode := fun id hh => by
          cases hh
          exact ⟨rfl, _, rfl, rfl, ⟨(by intro t ht; cases ht), fun _ => rfl⟩, rfl, (by intro hh; cases hh), (by intro hh; cases hh)⟩
        tmp := .inr ⟨.inl (by decide), rfl⟩
        fence := .inl ⟨rfl, s.nodes.length, _, rfl, rfl, rfl, hlen, hpos⟩
        req := (by intro hh; cases hh), kids := (by intro hh; cases hh) }
  by_cases hc0 : s.pc.blockOffset < 0
  · rw [if_pos hc0]; exact finNone
  · rw [if_neg hc0]
    have hpos0 : 0 ≤ s.pc.blockOffset := by omega
    generalize hline : (RCur.view src c).getD [] = line
    have hoff := h.off
    rw [hline] at hoff
    obtain ⟨fc, hfc, _⟩ := idx_ok line s.pc.blockOffset hpos0 hoff
    refine OKL.bind (liftE_okl (P := fun a s' => a = fc ∧ s' = { s with r := r1 }) hfc ⟨rfl, rfl⟩) (fun a s3 ha => ?_)
    obtain ⟨ha, hs3⟩ := ha
    subst ha hs3
    by_cases hc1 : (a != 96 && a != 126) = true
    · rw [if_pos hc1]; exact finNone
    · rw [if_neg hc1]
      obtain ⟨hsb1, hsb2⟩ := scanWhileEq_bounds line a s.pc.blockOffset hpos0
      generalize hi : scanWhileEq line a s.pc.blockOffset = i at hsb1 hsb2 ⊢
      by_cases hc2 : i - s.pc.blockOffset < 3
      · rw [if_pos hc2]; exact finNone
      · rw [if_neg hc2]
        have hne : i ≠ s.pc.blockOffset := by omega
        obtain ⟨_, hile⟩ := hsb2 hne
        have hlen3 : 3 ≤ i - s.pc.blockOffset := by omega
        by_cases hc3 : i < (line.length : Int) - 1
        · rw [if_pos hc3]
          have hsf := sliceFrom_ok line i (by omega) hile
          simp only [bind, StateT.bind, liftE, hsf, Except.map, Except.bind]
          generalize List.drop i.toNat line = rest
          have htr := trimRightSpaceLength_le rest
          by_cases hc4 : (trimLeftSpaceLength rest : Int) < (rest.length : Int) - (trimRightSpaceLength rest : Int)
          · rw [if_pos hc4]
            obtain ⟨v, hv⟩ := slice_ok' rest (trimLeftSpaceLength rest) ((rest.length : Int) - (trimRightSpaceLength rest : Int))
              (by omega) (by omega) (by omega)
            simp only [hv, bind, StateT.bind, liftE, Except.map, Except.bind]
            by_cases hc5 : (a == 96 && v.contains 96) = true
            · rw [if_pos hc5]; exact finNone
            · rw [if_neg hc5]
              split
              · simp only [newNode, modPc, pure, StateT.pure, Except.pure]
                exact finSome _ _ _ hlen3 hpos0
              · simp only [newNode, modPc, pure, StateT.pure, Except.pure]
                exact finSome _ _ _ hlen3 hpos0
          · rw [if_neg hc4]
            simp only [newNode, modPc, pure, StateT.pure, Except.pure]
            exact finSome _ _ _ hlen3 hpos0
        · rw [if_neg hc3]
          simp only [bind, StateT.bind, newNode, modPc, pure, StateT.pure, Except.pure, Except.bind]
          exact finSome _ _ _ hlen3 hpos0

/-! ### arithmetic of `IndentPositionPadding` / `FirstNonSpacePosition` -/

theorem ippLoop_bounds (cur width : Int) : ∀ (bs : Bytes) (i p w : Int), 0 ≤ p →
    i ≤ (ippLoop cur width bs i p w).1 ∧ (ippLoop cur width bs i p w).1 ≤ i + bs.length ∧
    ((ippLoop cur width bs i p w).1 = i → (ippLoop cur width bs i p w).2 = w) ∧
    (p ≤ bs.length → i + p ≤ (ippLoop cur width bs i p w).1) := by
  intro bs
  induction bs with
  | nil => intro i p w hp; simp [ippLoop]; omega
  | cons b bs ih =>
    intro i p w hp
    unfold ippLoop
    simp only [List.length_cons]
    split
    · have := ih (i + 1) (p - 1) (w + 1) (by omega); omega
    · split
      · have := ih (i + 1) p (w + tabWidthI (cur + w)) hp; omega
      · split
        · have := ih (i + 1) p (w + 1) hp; omega
        · refine ⟨Int.le_refl _, by simp only; omega, fun _ => rfl, fun h => by simp only; omega⟩

theorem firstNonSpacePosition_bounds : ∀ (bs : Bytes) (i j : Nat), firstNonSpacePosition bs i = some j →
    i ≤ j ∧ j < i + bs.length := by
  intro bs
  induction bs with
  | nil => intro i j h; simp [firstNonSpacePosition] at h
  | cons b bs ih =>
    intro i j h
    unfold firstNonSpacePosition at h
    simp only [List.length_cons]
    split at h
    · have := ih _ _ h; omega
    · split at h
      · cases h
      · cases h; omega

theorem firstNonSpacePos_lt (bs : Bytes) : firstNonSpacePos bs ≤ bs.length := by
  unfold firstNonSpacePos
  split
  · rename_i j hj
    have := firstNonSpacePosition_bounds bs 0 j hj
    omega
  · omega

def fencedPP (line : Bytes) (segment : Segment) (lo : Int) (indent : Int) : Int × Int :=
  let (pos, padding) := indentPositionPadding line lo segment.padding indent
  if pos < 0 then
    let p := firstNonSpacePos line - segment.padding
    ((if p < 0 then 0 else p), (0 : Int))
  else (pos, padding)

/-- the position and padding fcode_block.go:88-99 computes: inside the line, and virtual padding only behind a byte -/
theorem fencedPP_bounds (line : Bytes) (lo : Int) (pad : Nat) (rest : Nat) (indent start stop : Int) (hi : 0 ≤ indent)
    (hlen : line.length = pad + rest) :
    0 ≤ (fencedPP line { start := start, stop := stop, padding := pad } lo indent).1 ∧
    (fencedPP line { start := start, stop := stop, padding := pad } lo indent).1 ≤ rest ∧
    0 ≤ (fencedPP line { start := start, stop := stop, padding := pad } lo indent).2 ∧
    ((fencedPP line { start := start, stop := stop, padding := pad } lo indent).2 ≠ 0 → pad = 0 →
      1 ≤ (fencedPP line { start := start, stop := stop, padding := pad } lo indent).1) := by
  unfold fencedPP indentPositionPadding
  simp only
  by_cases hw : (indent == 0) = true
  · rw [if_pos hw]
    simp only
    rw [if_neg (by omega)]
    simp only
    omega
  · rw [if_neg hw]
    have hne : indent ≠ 0 := by intro e; apply hw; simp [e]
    obtain ⟨b1, b2, b3, b4⟩ := ippLoop_bounds lo indent line 0 pad 0 (by omega)
    generalize ippLoop lo indent line 0 pad 0 = r at b1 b2 b3 b4 ⊢
    by_cases hr : r.2 ≥ indent
    · rw [if_pos hr]
      simp only
      have := b4 (by omega)
      rw [if_neg (by omega)]
      simp only
      refine ⟨by omega, by omega, by omega, fun hp hz => ?_⟩
      rcases Int.lt_or_le 0 r.1 with h1 | h1
      · omega
      · have : r.2 = 0 := b3 (by omega)
        omega
    · rw [if_neg hr]
      simp only
      rw [if_pos (by decide)]
      have := firstNonSpacePos_lt line
      simp only
      split <;> omega

/-! ### preserveLeadingTabInCodeBlock -/

/-- `LineOffset()` one byte in front of an `RI` position (or at -1) does not panic -/
theorem colLoop_back (src : Bytes) (p : Nat) (hp : p ≤ src.length) :
    ∃ v, colLoop src (if 0 < (p : Int) - 1 ∧ (p : Int) - 1 ≤ (src.length : Int) then (lineStart src ((p : Int) - 1).toNat : Int) else (p : Int) - 1)
      ((p : Int) - 1) = .ok v := by
  unfold colLoop
  by_cases h1 : 0 < (p : Int) - 1 ∧ (p : Int) - 1 ≤ (src.length : Int)
  · rw [if_pos h1]
    have := lineStart_le src ((p : Int) - 1).toNat
    by_cases h2 : (lineStart src ((p : Int) - 1).toNat : Int) ≥ (p : Int) - 1
    · rw [if_pos h2]; exact ⟨_, rfl⟩
    · rw [if_neg h2, if_neg (by omega)]; exact ⟨_, rfl⟩
  · rw [if_neg h1, if_pos (by omega)]; exact ⟨_, rfl⟩

/-- `SetPosition(l, pos)` with the `Position()` of an `RI` reader, on any reader over the same source -/
theorem ri_setPosition_back {src : Bytes} {r r2 : Reader} {c : RCur} (h : RI src r c) (hs : r2.source = src) :
    RI src (r2.setPosition r.line r.pos) c := by
  have hpos := h.pos
  have hin := h.inRange
  unfold Reader.setPosition Reader.sourceLength
  rw [hs, hpos]
  simp only
  refine ⟨{ source := rfl, line := h.abs.line, pos := rfl, inRange := hin, head := ?_, peeked := .inl rfl, lo := .inl (by simp [clearLo]) }, ?_, .inl (by simp)⟩
  · intro _
    simp only [clearLo]
    by_cases hz : 0 < (c.p : Int)
    · rw [if_pos ⟨hz, by omega⟩]; simp
    · rw [if_neg (by omega)]
      have : c.p = 0 := by omega
      simp [this, lineStart]
  · simp only
    split <;> omega

theorem fc_preserveLeadingTab_okl {src} {s : St} {c : RCur} (h : RI src s.r c) (seg : Segment) (indent : Int) :
    OKL (fun sg s' => (sg = seg ∨ sg = { seg with padding := 0, start := seg.start - 1 }) ∧
        ∃ r', s' = { s with r := r' } ∧ RI src r' c) (preserveLeadingTab seg indent s) := by
  unfold preserveLeadingTab
  refine OKL.bind (lineOffset_okl h) (fun lo s1 hlo => ?_)
  obtain ⟨_, r1, hs1, h1⟩ := hlo
  subst hs1
  simp only [bind, StateT.bind, position, setPosition, Reader.position, pure, StateT.pure, Except.bind, Except.pure]
  have hpos := h1.pos
  have hsrc := h1.source
  obtain ⟨v, hv⟩ := colLoop_back src c.p h1.inRange
  have hlo : lineOffset { r := r1.setPosition r1.line { start := r1.pos.start - 1, stop := r1.pos.stop }, nodes := s.nodes, pc := s.pc }
      = .ok ((v : Int) - 0, { r := { r1.setPosition r1.line { start := r1.pos.start - 1, stop := r1.pos.stop } with lineOffset := (v : Int) - 0 }, nodes := s.nodes, pc := s.pc }) := by
    unfold lineOffset Reader.lineOffsetOp Reader.setPosition Reader.sourceLength
    simp only
    rw [if_pos (by decide)]
    rw [hsrc, hpos]
    simp only
    rw [hv]
    rfl
  rw [hlo]
  simp only
  refine OKL.ok ⟨?_, _, rfl, ri_setPosition_back h1 ?_⟩
  · split
    · exact .inr rfl
    · exact .inl rfl
  · simp only [Reader.setPosition]; exact hsrc

/-! ### `AdvanceAndSetPadding(n ≥ -1)`, `Lines().Append` -/

theorem advanceLine_congr {r r' : Reader} (h0 : 0 ≤ r.pos.stop) (hs : r'.source = r.source)
    (hstop : r'.pos.stop = r.pos.stop) (hf : r'.pos.forceNewline = r.pos.forceNewline) (hl : r'.line = r.line) :
    r'.advanceLine = r.advanceLine := by
  unfold Reader.advanceLine
  have h1 : ¬ r.pos.stop < 0 := by omega
  simp only [if_neg h1, hs, hstop, hf, hl]

theorem advance_neg_one (r : Reader) : ∃ r', r.advance (-1) = .ok r' ∧ r'.source = r.source ∧
    r'.pos.stop = r.pos.stop ∧ r'.pos.forceNewline = r.pos.forceNewline ∧ r'.line = r.line := by
  unfold Reader.advance
  simp only
  split <;> split <;> exact ⟨_, rfl, rfl, rfl, rfl, rfl⟩

theorem ri_stop_nonneg {src r c} (h : RI src r c) : 0 ≤ r.pos.stop := by rw [h.pos]; simp

/-- `AdvanceAndSetPadding(n, p)` for `n ≥ -1` (fcode_block.go:104 may pass -1): no panic, and the `AdvanceLine` that follows
    a leaf's `Continue` sees a good reader -/
theorem advanceAndSetPadding_ria {src} {s : St} {c : RCur} (h : RI src s.r c) (hpad : PadOK c) {n : Int} (hn : -1 ≤ n)
    (p : Int) :
    OKL (fun _ s' => ∃ r' c', s' = { s with r := r' } ∧ RIa src r' c' ∧ PadOK c' ∧ c.p ≤ c'.p ∧ c'.p ≤ src.length)
      (advanceAndSetPadding n p s) := by
  unfold advanceAndSetPadding Reader.advanceAndSetPadding
  by_cases h0 : 0 ≤ n
  · obtain ⟨r1, e1, hr1⟩ := ri_advance h h0
    rw [e1]
    simp only [bind, Except.bind, pure, Except.pure]
    have hpc : PadOK (RCur.advN src n.toNat c) := hpad.advN h.inRange _
    have hm := (advN_mono src n.toNat c h.inRange).1
    by_cases hc : p > r1.pos.padding
    · simp only [if_pos hc]
      exact OKL.ok ⟨_, _, rfl, ⟨r1, hr1, advanceLine_congr (ri_stop_nonneg hr1) rfl rfl rfl rfl⟩, hpc, hm, hr1.inRange⟩
    · simp only [if_neg hc]
      exact OKL.ok ⟨_, _, rfl, hr1.toRIa, hpc, hm, hr1.inRange⟩
  · have e : n = -1 := by omega
    subst e
    have hst := ri_stop_nonneg h
    have fin : ∀ r' : Reader, r'.source = s.r.source → r'.pos.stop = s.r.pos.stop →
        r'.pos.forceNewline = s.r.pos.forceNewline → r'.line = s.r.line →
        OKL (fun _ s' => ∃ r' c', s' = { s with r := r' } ∧ RIa src r' c' ∧ PadOK c' ∧ c.p ≤ c'.p ∧ c'.p ≤ src.length)
          ((do let r ← (do let r ← (Except.ok r' : Except Panic Reader)
                           if p > r.pos.padding then pure (Reader.setPadding p r) else pure r)
               pure ((), { s with r := r })) : Except Panic (Unit × St)) := by
      intro r' e1 e2 e3 e4
      simp only [bind, Except.bind, pure, Except.pure]
      by_cases hc : p > r'.pos.padding
      · simp only [if_pos hc]
        exact OKL.ok ⟨_, c, rfl, ⟨s.r, h, advanceLine_congr hst e1 e2 e3 e4⟩, hpad, Nat.le_refl _, h.inRange⟩
      · simp only [if_neg hc]
        exact OKL.ok ⟨_, c, rfl, ⟨s.r, h, advanceLine_congr hst e1 e2 e3 e4⟩, hpad, Nat.le_refl _, h.inRange⟩
    obtain ⟨r', e0, e1, e2, e3, e4⟩ := advance_neg_one s.r
    rw [e0]
    exact fin r' e1 e2 e3 e4

theorem getD_mem {α} (l : List α) (i : Nat) (d : α) (h : i < l.length) : l.getD i d ∈ l := by
  simp [List.getD, List.getElem?_eq_getElem h]

/-- `node.Lines().Append(seg)` with a segment inside the source -/
theorem appendLine_facts {src} (s : St) (node : Nat) (seg : Segment) (r' : Reader) (hlt : node < s.nodes.length)
    (hn : NodesOK src s) (hseg : SegOK src seg) :
    Ext s { r := r', nodes := s.nodes.set node { (s.nodes.getD node default) with
        lines := (s.nodes.getD node default).lines ++ [seg], linesNil := false }, pc := s.pc } ∧
    NodesOK src { r := r', nodes := s.nodes.set node { (s.nodes.getD node default) with
        lines := (s.nodes.getD node default).lines ++ [seg], linesNil := false }, pc := s.pc } := by
  constructor
  · refine ⟨by simp, fun i hi => ?_, fun i hi _ hl => ?_⟩
    · simp only [nd, List.getD, List.getElem?_set]
      by_cases e : node = i
      · subst e; simp [hi]
      · simp [e]
    · simp only [nd, List.getD, List.getElem?_set] at hl ⊢
      by_cases e : node = i
      · subst e; simp [hi]
      · simpa [e] using hl
  · intro n hmem
    rcases List.mem_or_eq_of_mem_set hmem with h1 | h1
    · exact hn n h1
    · subst h1
      have hold := hn _ (getD_mem s.nodes node default hlt)
      refine ⟨fun t ht => ?_, fun hh => by cases hh⟩
      simp only [List.mem_append, List.mem_singleton] at ht
      rcases ht with ht | ht
      · exact hold.lines t ht
      · subst ht; exact hseg

/-! ### Continue -/

/-- fcode_block.go:100-105: the line's segment from `pos` on goes into the block, the reader moves to the end of the line -/
def fencedStore (node : Nat) (segment : Segment) (indent pos padding : Int) : M PState := do
  let seg : Segment := { start := segment.start + pos, stop := segment.stop, padding := padding }
  let seg ← if padding != 0 then preserveLeadingTab seg indent else pure seg
  let seg := { seg with forceNewline := true }
  appendLine node seg
  advanceAndSetPadding (segment.stop - segment.start - pos - 1) padding
  return stContinueNoChildren

/-- fcode_block.go:88-105 -/
def fencedTail (node : Nat) (line : Bytes) (segment : Segment) (lo : Int) (fdata : FenceData) : M PState :=
  fencedStore node segment fdata.indent (fencedPP line segment lo fdata.indent).1 (fencedPP line segment lo fdata.indent).2

/-- `fencedContinue` with its content branch named -/
def fencedContinue' (node : Nat) : M PState := do
  let (line, segment) ← peekLine
  let line := line.getD []
  let len : Int := line.length
  let fdata ← match (← getPc).fence with
    | some f => pure f
    | none => throw .assert
  let lo ← lineOffset
  let (w, pos) := indentWidthI line lo
  if w < 4 then
    let i := scanWhileEq line fdata.char pos
    let length := i - pos
    if length ≥ fdata.length then
      if isBlank (← liftE (sliceFrom line i)) then
        let last ← liftE (idx line (len - 1))
        let newline : Int := if last != 10 then 0 else 1
        advance (segment.stop - segment.start - newline + segment.padding)
        return stClose
  fencedTail node line segment lo fdata

theorem fencedContinue_eq (node : Nat) : fencedContinue node = fencedContinue' node := rfl

theorem ContPost.of_state {src bp} {s s2 : St} {c st s'} (hnodes : s2.nodes = s.nodes) (hpc : s2.pc = s.pc)
    (h : ContPost src bp s2 c st s') : ContPost src bp s c st s' :=
  { ria := h.ria, pc := by rw [h.pc, hpc], ext := Ext.trans (Ext.of_nodes_eq hnodes) h.ext, nodes := h.nodes,
    leaf := h.leaf, cont := h.cont }

theorem fencedStore_okl {src} {s : St} {c : RCur} (h : RI src s.r c) (hpad : PadOK c) (hp : c.p < src.length)
    (hn : NodesOK src s) (node : Nat) (hlt : node < s.nodes.length) (indent pos padding : Int)
    (h0 : 0 ≤ pos) (h1 : pos ≤ ((lineEnd src c.p - c.p : Nat) : Int)) (h2 : 0 ≤ padding)
    (h3 : padding ≠ 0 → 1 ≤ (c.p : Int) + pos) :
    OKL (fun st s' => ContPost src .fenced s c st s') (fencedStore node (RCur.seg src c) indent pos padding s) := by
  have hle := lineEnd_le src c.p
  have hlt' := lt_lineEnd src hp
  unfold fencedStore
  simp only [RCur.seg]
  -- what happens once the segment is fixed
  have rest : ∀ (sg : Segment) (r1 : Reader), SegOK src sg → RI src r1 c →
      OKL (fun st s' => ContPost src .fenced s c st s')
        ((appendLine node { sg with forceNewline := true } >>= fun _ =>
          advanceAndSetPadding ((lineEnd src c.p : Int) - (c.p : Int) - pos - 1) padding >>= fun _ =>
          pure stContinueNoChildren) { s with r := r1 }) := by
    intro sg r1 hsg hr1
    have hsg' : SegOK src { sg with forceNewline := true } := hsg
    obtain ⟨hext, hnodes⟩ := appendLine_facts s node { sg with forceNewline := true } r1 hlt hn hsg'
    refine OKL.bind (m := appendLine node _)
      (P := fun _ s' => s' = St.mk r1 (s.nodes.set node { (s.nodes.getD node default) with lines := (s.nodes.getD node default).lines ++ [{ sg with forceNewline := true }], linesNil := false }) s.pc)
      (OKL.ok rfl) (fun _ s2 hs2 => ?_)
    subst hs2
    refine OKL.bind (advanceAndSetPadding_ria (src := src) (c := c) hr1 hpad (by omega) padding) (fun _ s3 hs3 => ?_)
    obtain ⟨r3, c3, hs3, hria, hpad3, hle3, hin3⟩ := hs3
    subst hs3
    exact OKL.ok
      { ria := ⟨c3, hria, hpad3, hle3, hin3, .inl ⟨rfl, rfl⟩⟩
        pc := rfl
        ext := ⟨hext.len, hext.kind, hext.linesNE⟩
        nodes := hnodes
        leaf := fun _ => rfl
        cont := (by intro hh; cases hh) }
  by_cases hc : (padding != 0) = true
  · rw [if_pos hc]
    have hne : padding ≠ 0 := by simpa using hc
    have := h3 hne
    refine OKL.bind (fc_preserveLeadingTab_okl h _ indent) (fun sg s1 hh => ?_)
    obtain ⟨hsg, r1, hs1, hr1⟩ := hh
    subst hs1
    refine rest sg r1 ?_ hr1
    rcases hsg with e | e <;> subst e <;> (unfold SegOK; simp only; omega)
  · rw [if_neg hc]
    refine OKL.bind (m := Pure.pure _) (P := fun sg s' => sg = ({ start := (c.p : Int) + pos, stop := (lineEnd src c.p : Int), padding := padding } : Segment) ∧ s' = s)
      (OKL.ok ⟨rfl, rfl⟩) (fun sg s1 hh => ?_)
    obtain ⟨e1, e2⟩ := hh
    rw [e1, e2]
    refine rest _ s.r ?_ h
    unfold SegOK; simp only; omega

theorem fencedTail_okl {src} {s : St} {c : RCur} (h : RI src s.r c) (hpad : PadOK c) (hp : c.p < src.length)
    (hn : NodesOK src s) (node : Nat) (hlt : node < s.nodes.length) (lo : Int) (fdata : FenceData) (hi : 0 ≤ fdata.indent) :
    OKL (fun st s' => ContPost src .fenced s c st s')
      (fencedTail node ((RCur.view src c).getD []) (RCur.seg src c) lo fdata s) := by
  unfold fencedTail
  have hlen := view_getD_length_nat src c hp
  obtain ⟨b0, b1, b2, b3⟩ := fencedPP_bounds ((RCur.view src c).getD []) lo c.pad (lineEnd src c.p - c.p) fdata.indent
    c.p (lineEnd src c.p) hi hlen
  refine fencedStore_okl h hpad hp hn node hlt _ _ _ b0 b1 b2 (fun hne => ?_)
  by_cases hz : c.pad = 0
  · have := b3 hne hz
    show 1 ≤ (c.p : Int) + (fencedPP ((RCur.view src c).getD []) { start := c.p, stop := lineEnd src c.p, padding := c.pad } lo fdata.indent).1
    omega
  · have := hpad hz
    show 1 ≤ (c.p : Int) + (fencedPP ((RCur.view src c).getD []) { start := c.p, stop := lineEnd src c.p, padding := c.pad } lo fdata.indent).1
    omega

theorem fencedContinue_spec (src : Bytes) : ContSpec src .fenced := by
  intro node s c h hpad hp hn hk hb
  show OKL _ (fencedContinue node s)
  rw [fencedContinue_eq]
  unfold fencedContinue'
  refine OKL.bind (peekLine_okl h) (fun x s1 hx => ?_)
  obtain ⟨hx, r1, hs1, h1⟩ := hx
  subst hx hs1
  simp only
  refine OKL.bind (m := getPc) (P := fun v s' => v = s.pc ∧ s' = { s with r := r1 }) (OKL.ok ⟨rfl, rfl⟩) (fun pc s2 hv => ?_)
  obtain ⟨hv, hs2⟩ := hv
  subst hv hs2
  have hfs := hb.fenced rfl
  cases hfe : s.pc.fence with
  | none => rw [hfe] at hfs; cases hfs
  | some f =>
    obtain ⟨hf3, hf0, _⟩ := hk.fence f hfe
    simp only
    refine OKL.bind (m := Pure.pure f) (P := fun v s' => v = f ∧ s' = { s with r := r1 }) (OKL.ok ⟨rfl, rfl⟩) (fun fd s3 hv => ?_)
    obtain ⟨hv, hs3⟩ := hv
    subst hv hs3
    refine OKL.bind (lineOffset_okl (s := { s with r := r1 }) h1) (fun lo s4 hlo => ?_)
    obtain ⟨_, r2, hs4, h2⟩ := hlo
    subst hs4
    -- the content branch
    have tail : OKL (fun st s' => ContPost src .fenced s c st s')
        (fencedTail node ((RCur.view src c).getD []) (RCur.seg src c) lo fd { s with r := r2 }) :=
      (fencedTail_okl (s := { s with r := r2 }) h2 hpad hp hn node hb.lt lo fd hf0).mono
        (fun st s' hh => ContPost.of_state (s2 := { s with r := r2 }) rfl rfl hh)
    have hlen := view_getD_length_nat src c hp
    have hlt' := lt_lineEnd src hp
    have hle := lineEnd_le src c.p
    generalize hline : (RCur.view src c).getD [] = line at tail hlen ⊢
    have hb' := indentWidthI_bounds line lo
    generalize hpos : (indentWidthI line lo).2 = pos at hb' ⊢
    generalize hw : (indentWidthI line lo).1 = w
    by_cases hc1 : w < 4
    · rw [if_pos hc1]
      obtain ⟨hsb1, hsb2⟩ := scanWhileEq_bounds line fd.char pos hb'.1
      generalize hi : scanWhileEq line fd.char pos = i at hsb1 hsb2 ⊢
      by_cases hc2 : i - pos ≥ fd.length
      · rw [if_pos hc2]
        have hile : i ≤ line.length := by
          by_cases e : i = pos
          · omega
          · exact (hsb2 e).2
        have hsf := sliceFrom_ok line i (by omega) hile
        refine OKL.bind (liftE_okl (P := fun a s' => a = line.drop i.toNat ∧ s' = { s with r := r2 }) hsf ⟨rfl, rfl⟩)
          (fun a s5 ha => ?_)
        obtain ⟨ha, hs5⟩ := ha
        subst ha hs5
        by_cases hc3 : isBlank (line.drop i.toNat) = true
        · rw [if_pos hc3]
          obtain ⟨b, hb1, _⟩ := idx_ok line ((line.length : Int) - 1) (by omega) (by omega)
          refine OKL.bind (liftE_okl (P := fun a s' => a = b ∧ s' = { s with r := r2 }) hb1 ⟨rfl, rfl⟩) (fun a s6 ha => ?_)
          obtain ⟨ha, hs6⟩ := ha
          subst ha hs6
          have hadv : 0 ≤ (RCur.seg src c).stop - (RCur.seg src c).start - (if (a != 10) = true then (0 : Int) else 1) +
              (RCur.seg src c).padding := by
            simp only [RCur.seg]
            split <;> omega
          refine OKL.bind (advance_okl (s := { s with r := r2 }) h2 hadv) (fun _ s7 h7 => ?_)
          obtain ⟨r7, hs7, h7⟩ := h7
          subst hs7
          exact OKL.ok
            { ria := ⟨_, h7.toRIa, hpad.advN h.inRange _, (advN_mono src _ c h.inRange).1, h7.inRange, .inr h7⟩
              pc := rfl
              ext := Ext.of_nodes_eq rfl
              nodes := hn
              leaf := fun _ => rfl
              cont := (by intro hh; cases hh) }
        · rw [if_neg hc3]; exact tail
      · rw [if_neg hc2]; exact tail
    · rw [if_neg hc1]; exact tail

/-! ### Close -/

theorem fencedClose_spec (src : Bytes) : CloseSpec src .fenced := by
  intro node s hsrc hn hk hb
  show OKL _ (fencedClose node s)
  have hf := hb.fenced rfl
  unfold fencedClose
  simp only [bind, StateT.bind, getPc, pure, StateT.pure, Except.bind, Except.pure]
  cases hfe : s.pc.fence with
  | none => rw [hfe] at hf; cases hf
  | some f =>
    simp only
    by_cases hc : (f.node == node) = true
    · rw [if_pos hc]
      simp only [modPc]
      have hnode : f.node = node := by simpa using hc
      exact OKL.ok
        { r := rfl, opened := rfl, ext := Ext.of_nodes_eq rfl, nodes := hn, tmp := .inl rfl,
          fence := .inr ⟨rfl, rfl, f, hfe, hnode⟩, para := by intro h; cases h }
    · rw [if_neg hc]
      exact OKL.ok
        { r := rfl, opened := rfl, ext := Ext.refl s, nodes := hn, tmp := .inl rfl,
          fence := .inl rfl, para := by intro h; cases h }

end GM.Blocks
