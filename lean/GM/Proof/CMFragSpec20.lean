/-
  GM.Proof.CMFragSpec20 — the stage-20 fragment (paragraphs whose lines contain underscore emphasis `_x_` / `__x__`) of
  GM.Spec.CMFrag inside the spec model GM.Spec.CommonMark:
  * `expectedUn_eq_expected`: the prescribed HTML of a stage-20 document is `expected` of the embedded document;
  * `spellUn_eq_spell`: for a NON-EMPTY stage-20 document without extra blank lines the source is `spell` of the
    embedded document, byte for byte: the spec model writes `_` exactly when the source bytes next to the emphasis are
    not letters or digits (`pa` / `na` of `spellI`), which is the neighbour condition `unneighOK` (`ctx_unembedLines20`).
-/
import GM.Proof.CMFragSpec11
namespace GM.Proof.CMFrag
open GM GM.Spec.CM GM.Spec.CMFrag

/-! ### S1: prescribed HTML -/

theorem expIs_append20 (a b : List Inline) : expIs (a ++ b) = expIs a ++ expIs b := by
  induction a with
  | nil => simp [expIs]
  | cons x rest ih => simp [expIs, ih]

theorem render_expIs_elits20 (c : Bytes) : render (expIs [.text (elits c)]) = escHtml c := by
  have : plain (elits c) = c := by
    induction c with
    | nil => rfl
    | cons x rest ih =>
      simp only [plain, elits, List.map_cons] at ih ⊢
      rw [ih]
  simp [expIs, expI, render, renderPiece, this]

theorem render_wrap20 (tag : Bytes) (inner : List Piece) :
    render (wrap tag [] inner) = [60] ++ tag ++ [62] ++ render inner ++ [60, 47] ++ tag ++ [62] := by
  simp [wrap, render, renderPiece]

theorem render_expI_atom20 (a : UnAtomS) : render (expI (unembedAtom a)) = expUnAtom a := by
  cases a with
  | txt cs => simp [unembedAtom, expI, render, renderPiece, expUnAtom]
  | em c =>
    have h1 : strBytes "<em>" = [60] ++ strBytes "em" ++ [62] := by decide +kernel
    have h2 : strBytes "</em>" = [60, 47] ++ strBytes "em" ++ [62] := by decide +kernel
    rw [unembedAtom, expI, render_wrap20, render_expIs_elits20, expUnAtom, h1, h2]
    simp
  | strong c =>
    have h1 : strBytes "<strong>" = [60] ++ strBytes "strong" ++ [62] := by decide +kernel
    have h2 : strBytes "</strong>" = [60, 47] ++ strBytes "strong" ++ [62] := by decide +kernel
    rw [unembedAtom, expI, render_wrap20, render_expIs_elits20, expUnAtom, h1, h2]
    simp

theorem render_expIs_line20 (l : UnLine) : render (expIs (l.map unembedAtom)) = expUnLine l := by
  induction l with
  | nil => simp [expIs, render, expUnLine]
  | cons a rest ih =>
    rw [List.map_cons, expIs, render_append, ih, render_expI_atom20]
    simp [expUnLine]

theorem render_expIs_rembedLines20 (ls : List UnLine) :
    render (expIs (unembedLines ls)) = GM.Spec.CMFrag.joinNl (ls.map expUnLine) := by
  induction ls with
  | nil => simp [unembedLines, expIs, render, GM.Spec.CMFrag.joinNl]
  | cons l rest ih =>
    cases rest with
    | nil => simp [unembedLines, GM.Spec.CMFrag.joinNl, render_expIs_line20]
    | cons l' rest =>
      have e : unembedLines (l :: l' :: rest) = l.map unembedAtom ++ .softBreak :: unembedLines (l' :: rest) := rfl
      rw [e, expIs_append20, render_append, render_expIs_line20, expIs, render_append, ih]
      simp [expI, render, renderPiece, nl, GM.Spec.CMFrag.joinNl]

theorem render_expB_rpara20 (ls : List UnLine) (g : Nat) :
    render (expB false false (.para {} (unembedLines ls) 0)) = expUnItem ⟨g, ls⟩ := by
  rw [expB]
  simp only [wrap, Bool.false_eq_true, if_false, List.cons_append]
  have h1 : strBytes "<p>" = [60] ++ strBytes "p" ++ [62] := by decide +kernel
  have h2 : strBytes "</p>\n" = [60, 47] ++ strBytes "p" ++ [62] ++ [10] := by decide +kernel
  rw [expUnItem, h1, h2, ← render_expIs_rembedLines20]
  simp [render, renderPiece, nl]

theorem render_expBs_rembed20 (its : List UnItem) :
    render (expBs false false (its.map fun it => .para {} (unembedLines it.lines) 0)) = its.flatMap expUnItem := by
  induction its with
  | nil => simp [expBs, render]
  | cons it rest ih =>
    obtain ⟨g, ls⟩ := it
    rw [List.map_cons, expBs, render_append, ih]
    simp [render_expB_rpara20 ls g]

theorem expectedUn_eq_expected_any20 (d : UnDoc) : expectedUn d = expected (unembed d) := by
  rw [expected, expectedPieces, unembed, expectedUn, render_expBs_rembed20]

/-- S1 -/
theorem expectedUn_eq_expected (d : UnDoc) (_h : UnFrag d) : expectedUn d = expected (unembed d) :=
  expectedUn_eq_expected_any20 d

/-! ### S2: source -/

/-! #### `spellIs` on text, underscore emphasis and soft breaks -/

def isEm20 : Inline → Bool
  | .emph .. => true
  | .strong .. => true
  | _ => false

/-- the kinds of inlines of an embedded stage-20 document -/
def kind20 : Inline → Bool
  | .text _ => true
  | .softBreak => true
  | .emph .. => true
  | .strong .. => true
  | _ => false

def nextAl20 : List Inline → Bool
  | y :: _ => startsAlnum y
  | [] => false

/-- no emphasis has a letter or digit as neighbouring source byte (`pa`: the byte in front of the list is one) -/
def ctxOK20 : Bool → List Inline → Bool
  | _, [] => true
  | pa, x :: rest => (!isEm20 x || (!pa && !nextAl20 rest)) && ctxOK20 (endsAlnum x) rest

/-- … then every emphasis is written as asked for (`spellI false false`) -/
theorem spellIs_ctx20 (ks : List Inline) (hk : ∀ x ∈ ks, kind20 x = true) (pa : Bool) (h : ctxOK20 pa ks = true) :
    spellIs pa ks = ks.flatMap (spellI false false) := by
  induction ks generalizing pa with
  | nil => simp [spellIs]
  | cons x rest ih =>
    simp only [ctxOK20, Bool.and_eq_true] at h
    simp only [spellIs, List.flatMap_cons]
    rw [ih (fun y hy => hk y (by simp [hy])) _ h.2]
    congr 1
    have hx := hk x (by simp)
    have key : ∀ na, na = nextAl20 rest → spellI pa na x = spellI false false x := by
      intro na hna
      subst hna
      cases x with
      | text _ => simp only [spellI]
      | softBreak => simp only [spellI]
      | emph us kids =>
        have h1 := h.1
        simp only [isEm20, Bool.not_true, Bool.false_or, Bool.and_eq_true, Bool.not_eq_true'] at h1
        rw [h1.1, h1.2]
      | strong us kids =>
        have h1 := h.1
        simp only [isEm20, Bool.not_true, Bool.false_or, Bool.and_eq_true, Bool.not_eq_true'] at h1
        rw [h1.1, h1.2]
      | _ => cases hx
    exact key _ (by cases rest <;> rfl)

theorem kind_unembedAtom20 (a : UnAtomS) : kind20 (unembedAtom a) = true := by cases a <;> rfl

theorem kind_unembedLines20 (ls : List UnLine) : ∀ x ∈ unembedLines ls, kind20 x = true := by
  induction ls with
  | nil => simp [unembedLines]
  | cons l rest ih =>
    cases rest with
    | nil =>
      intro x hx
      simp only [unembedLines, List.mem_map] at hx
      obtain ⟨a, _, rfl⟩ := hx
      exact kind_unembedAtom20 a
    | cons l' rest =>
      have e : unembedLines (l :: l' :: rest) = l.map unembedAtom ++ .softBreak :: unembedLines (l' :: rest) := rfl
      intro x hx
      rw [e] at hx
      rcases List.mem_append.mp hx with hx | hx
      · obtain ⟨a, _, rfl⟩ := List.mem_map.mp hx
        exact kind_unembedAtom20 a
      · rcases List.mem_cons.mp hx with rfl | hx
        · rfl
        · exact ih x hx

/-- the text in front of an emphasis atom does not end with a letter or digit (as source byte) -/
theorem endsAl_before20 (p x : UnAtomS) (hx : x.isTxt = false) (h : unpairOK p x = true) :
    endsAlnum (unembedAtom p) = false := by
  cases p with
  | txt cs =>
    simp only [unembedAtom, endsAlnum]
    cases hg : cs.getLast? with
    | none => rfl
    | some t =>
      cases x with
      | txt _ => cases hx
      | em _ =>
        simp only [unpairOK, hg] at h
        simpa [unbeforeOK] using h
      | strong _ =>
        simp only [unpairOK, hg] at h
        simpa [unbeforeOK] using h
  | em _ => rfl
  | strong _ => rfl

/-- the text behind an emphasis atom does not begin with a letter or digit (as source byte) -/
theorem nextAl_after20 (x : UnAtomS) (hx : x.isTxt = false) (rest : UnLine) (tail : List Inline)
    (ht : nextAl20 tail = false) (h : unneighOK (x :: rest) = true) :
    nextAl20 (rest.map unembedAtom ++ tail) = false := by
  cases rest with
  | nil => simpa using ht
  | cons y r =>
    simp only [unneighOK, Bool.and_eq_true] at h
    have h1 := h.1
    simp only [List.map_cons, List.cons_append, nextAl20]
    cases y with
    | txt cs =>
      cases cs with
      | nil => rfl
      | cons t ts =>
        cases x with
        | txt _ => cases hx
        | em _ =>
          simp only [unpairOK, List.head?_cons] at h1
          simpa [unembedAtom, startsAlnum, unafterOK] using h1
        | strong _ =>
          simp only [unpairOK, List.head?_cons] at h1
          simpa [unembedAtom, startsAlnum, unafterOK] using h1
    | em _ => rfl
    | strong _ => rfl

theorem ctx_tail20 (tail : List Inline) (ht : nextAl20 tail = false) (hc : ∀ pa, ctxOK20 pa tail = true)
    (l : UnLine) (p : UnAtomS) (h : unneighOK (p :: l) = true) :
    ctxOK20 (endsAlnum (unembedAtom p)) (l.map unembedAtom ++ tail) = true := by
  induction l generalizing p with
  | nil => simpa using hc _
  | cons x rest ih =>
    have h' := h
    simp only [unneighOK, Bool.and_eq_true] at h'
    simp only [List.map_cons, List.cons_append, ctxOK20, Bool.and_eq_true]
    refine ⟨?_, ih x h'.2⟩
    cases x with
    | txt cs => simp [unembedAtom, isEm20]
    | em c =>
      rw [endsAl_before20 p (.em c) rfl h'.1, nextAl_after20 (.em c) rfl rest tail ht h'.2]
      rfl
    | strong c =>
      rw [endsAl_before20 p (.strong c) rfl h'.1, nextAl_after20 (.strong c) rfl rest tail ht h'.2]
      rfl

theorem unlineOKS_parts20 (l : UnLine) (h : unlineOKS l = true) :
    (∃ cs rest, l = .txt cs :: rest) ∧ unneighOK l = true ∧ ∀ a ∈ l, unatomOKS a = true := by
  simp only [unlineOKS, Bool.and_eq_true, List.all_eq_true] at h
  obtain ⟨⟨⟨⟨_, hfirst⟩, _⟩, hok⟩, hnb⟩ := h
  refine ⟨?_, hnb, hok⟩
  unfold unfirstOKS at hfirst
  split at hfirst
  · exact ⟨_, _, rfl⟩
  · cases hfirst

theorem ctx_line20 (tail : List Inline) (ht : nextAl20 tail = false) (hc : ∀ pa, ctxOK20 pa tail = true)
    (l : UnLine) (h : unlineOKS l = true) (pa : Bool) : ctxOK20 pa (l.map unembedAtom ++ tail) = true := by
  obtain ⟨⟨cs, rest, rfl⟩, hnb, _⟩ := unlineOKS_parts20 l h
  simp only [List.map_cons, List.cons_append, ctxOK20, Bool.and_eq_true]
  exact ⟨by simp [unembedAtom, isEm20], ctx_tail20 tail ht hc rest (.txt cs) hnb⟩

theorem ctx_unembedLines20 (ls : List UnLine) (h : ∀ l ∈ ls, unlineOKS l = true) (pa : Bool) :
    ctxOK20 pa (unembedLines ls) = true := by
  induction ls generalizing pa with
  | nil => rfl
  | cons l rest ih =>
    cases rest with
    | nil =>
      have := ctx_line20 [] rfl (fun _ => rfl) l (h l (by simp)) pa
      simpa [unembedLines] using this
    | cons l' rest =>
      have e : unembedLines (l :: l' :: rest) = l.map unembedAtom ++ .softBreak :: unembedLines (l' :: rest) := rfl
      rw [e]
      apply ctx_line20 _ rfl _ l (h l (by simp)) pa
      intro pa'
      simp only [ctxOK20, isEm20, Bool.not_false, Bool.true_or, Bool.true_and]
      exact ih (fun x hx => h x (by simp [hx])) _

theorem spell_alnum_lit_s20 : ∀ c : UInt8, isAlnumC c = true → spellChar ⟨c, .lit⟩ = [c] := by
  apply forall_uint8; decide +kernel

theorem escSpell_elits_s20 (c : Bytes) (h : ∀ x ∈ c, isAlnumC x = true) : escSpell (elits c) = c := by
  induction c with
  | nil => rfl
  | cons x rest ih =>
    have := ih (fun y hy => h y (by simp [hy]))
    simp only [escSpell, elits, List.map_cons, List.flatMap_cons] at this ⊢
    rw [this, spell_alnum_lit_s20 x (h x (by simp))]
    rfl

theorem spellI_rembedAtom20 (a : UnAtomS) (h : unatomOKS a = true) : spellI false false (unembedAtom a) = spellUnAtom a := by
  cases a with
  | txt cs => simp only [unembedAtom, spellI, spellUnAtom]
  | em c =>
    simp only [unatomOKS, Bool.and_eq_true, List.all_eq_true] at h
    simp [unembedAtom, spellI, spellIs, spellUnAtom, escSpell_elits_s20 c h.2]
  | strong c =>
    simp only [unatomOKS, Bool.and_eq_true, List.all_eq_true] at h
    simp [unembedAtom, spellI, spellIs, spellUnAtom, escSpell_elits_s20 c h.2]

theorem flat_line20 (l : UnLine) (h : ∀ a ∈ l, unatomOKS a = true) :
    (l.map unembedAtom).flatMap (spellI false false) = spellUnLine l := by
  induction l with
  | nil => rfl
  | cons a rest ih =>
    simp only [List.map_cons, List.flatMap_cons, spellUnLine] at ih ⊢
    rw [spellI_rembedAtom20 a (h a (by simp)), ih (fun x hx => h x (by simp [hx]))]

theorem flat_rembedLines20 (ls : List UnLine) (h : ∀ l ∈ ls, ∀ a ∈ l, unatomOKS a = true) :
    (unembedLines ls).flatMap (spellI false false) = GM.Spec.CMFrag.joinNl (ls.map spellUnLine) := by
  induction ls with
  | nil => simp [unembedLines, GM.Spec.CMFrag.joinNl]
  | cons l rest ih =>
    cases rest with
    | nil => simp [unembedLines, GM.Spec.CMFrag.joinNl, flat_line20 l (h l (by simp))]
    | cons l' rest =>
      have e : unembedLines (l :: l' :: rest) = l.map unembedAtom ++ .softBreak :: unembedLines (l' :: rest) := rfl
      rw [e, List.flatMap_append, List.flatMap_cons, flat_line20 l (h l (by simp)),
        ih (fun x hx => h x (by simp [hx]))]
      simp [spellI, GM.Spec.CMFrag.joinNl]

theorem spellIs_rembedLines20 (ls : List UnLine) (h : ∀ l ∈ ls, unlineOKS l = true) (pa : Bool) :
    spellIs pa (unembedLines ls) = GM.Spec.CMFrag.joinNl (ls.map spellUnLine) := by
  rw [spellIs_ctx20 _ (kind_unembedLines20 ls) pa (ctx_unembedLines20 ls h pa),
    flat_rembedLines20 ls (fun l hl => (unlineOKS_parts20 l (h l hl)).2.2)]

/-! #### the lines of a document -/

theorem rlineOK_atoms_s20 (l : UnLine) (h : unlineOKS l = true) : ∀ a ∈ l, unatomOKS a = true :=
  (unlineOKS_parts20 l h).2.2

theorem spellRAtom_printable20 (a : UnAtomS) (h : unatomOKS a = true) : (spellUnAtom a).all printable = true := by
  cases a with
  | txt cs =>
    simp only [unatomOKS, Bool.and_eq_true, List.all_eq_true] at h
    exact escSpell_printable cs (fun t ht => charOK_printable t (h.2 t ht))
  | em c =>
    simp only [unatomOKS, Bool.and_eq_true, List.all_eq_true] at h
    simp only [spellUnAtom, List.all_append, Bool.and_eq_true, List.all_eq_true]
    refine ⟨⟨by decide, fun x hx => (alnum_facts8 x (h.2 x hx)).2.2⟩, by decide⟩
  | strong c =>
    simp only [unatomOKS, Bool.and_eq_true, List.all_eq_true] at h
    simp only [spellUnAtom, List.all_append, Bool.and_eq_true, List.all_eq_true]
    refine ⟨⟨by decide, fun x hx => (alnum_facts8 x (h.2 x hx)).2.2⟩, by decide⟩

theorem spellRLine_printable20 (l : UnLine) (h : unlineOKS l = true) : ∀ c ∈ spellUnLine l, printable c = true := by
  intro c hc
  simp only [spellUnLine, List.mem_flatMap] at hc
  obtain ⟨a, ha, hca⟩ := hc
  exact List.all_eq_true.mp (spellRAtom_printable20 a (rlineOK_atoms_s20 l h a ha)) c hca

theorem paraLines_rembed20 (ls : List UnLine) (hne : ls ≠ []) (hok : ∀ l ∈ ls, unlineOKS l = true) :
    (paraLines 0 0 (spellIs false (unembedLines ls))).map (renderLine 0 0 0 0) = ls.map spellUnLine := by
  have hpr : ∀ b ∈ ls.map spellUnLine, ∀ c ∈ b, printable c = true := by
    intro b hb c hc
    obtain ⟨l, hl, rfl⟩ := List.mem_map.mp hb
    exact spellRLine_printable20 l (hok l hl) c hc
  have hsplit := splitLines_joinNl (ls.map spellUnLine) (by simpa using hne)
    (fun b hb c hc => (printable_facts c (hpr b hb c hc)).1)
  rw [paraLines, spellIs_rembedLines20 ls hok, hsplit]
  cases hls : ls.map spellUnLine with
  | nil => simp at hls; exact absurd hls hne
  | cons f rest =>
    rw [hls] at hpr
    simp only [List.map_cons, List.map_map]
    congr 1
    · exact renderLine_plain f (fun c hc => (printable_facts c (hpr f (by simp) c hc)).2)
    · conv => rhs; rw [← List.map_id rest]
      apply List.map_congr_left
      intro b hb
      exact renderLine_plain b (fun c hc => (printable_facts c (hpr b (by simp [hb]) c hc)).2)

/-- the source lines of the items (a blank line in front of every item but the first) -/
def docLinesUn20 (first : Bool) : List UnItem → List Bytes
  | [] => []
  | it :: rest => (if first then [] else [[]]) ++ it.lines.map spellUnLine ++ docLinesUn20 false rest

theorem ritemOK_parts20 (it : UnItem) (h : unitemOKS it = true) : it.lines ≠ [] ∧ ∀ l ∈ it.lines, unlineOKS l = true := by
  simp only [unitemOKS, Bool.and_eq_true, Bool.not_eq_true', List.isEmpty_eq_false_iff, List.all_eq_true] at h
  exact h

theorem spellBs_rembed20 (its : List UnItem) (hok : ∀ it ∈ its, unitemOKS it = true) (prev pm : Nat) :
    (spellBs false false prev pm (its.map fun it => .para {} (unembedLines it.lines) 0)).map (renderLine 0 0 0 0) =
      docLinesUn20 (prev == 0) its := by
  induction its generalizing prev pm with
  | nil => simp [spellBs, docLinesUn20]
  | cons it rest ih =>
    obtain ⟨hne, hls⟩ := ritemOK_parts20 it (hok it (by simp))
    have hp := paraLines_rembed20 it.lines hne hls
    have ih' := ih (fun x hx => hok x (by simp [hx])) 1 0
    rw [List.map_cons, spellBs_para, List.map_append, List.map_append, hp, ih', docLinesUn20]
    by_cases h0 : prev = 0
    · subst h0; simp
    · have : (prev == 0) = false := by simpa using h0
      simp [this, renderLine_blank]

theorem docLinesR_flatMap20 (its : List UnItem) (hg : ∀ it ∈ its, it.gap = 0) (first : Bool) :
    (docLinesUn20 first its).flatMap (· ++ [10]) = spellUnItems first its := by
  induction its generalizing first with
  | nil => simp [docLinesUn20, spellUnItems]
  | cons it rest ih =>
    obtain ⟨g, ls⟩ := it
    have hg0 : g = 0 := hg ⟨g, ls⟩ (by simp)
    subst hg0
    rw [docLinesUn20, spellUnItems, List.flatMap_append, List.flatMap_append, ih (fun x hx => hg x (by simp [hx]))]
    cases first
    · simp [blanks, List.flatMap_map]
    · simp [blanks, List.flatMap_map]

theorem docLinesR_ne20 (it : UnItem) (rest : List UnItem) (h : unitemOKS it = true) :
    docLinesUn20 true (it :: rest) ≠ [] := by
  obtain ⟨hne, _⟩ := ritemOK_parts20 it h
  obtain ⟨g, ls⟩ := it
  cases ls with
  | nil => exact absurd rfl hne
  | cons l ls => simp [docLinesUn20]

/-- S2: a non-empty stage-20 document without extra blank lines is spelled byte for byte like the embedded one -/
theorem spellUn_eq_spell (d : UnDoc) (h : UnFrag d) (hb : unnoExtraBlanks d = true) (hne : d.items ≠ []) :
    spellUn d = spell (unembed d) := by
  obtain ⟨items, trail⟩ := d
  simp only [unnoExtraBlanks, Bool.and_eq_true, beq_iff_eq, List.all_eq_true] at hb
  obtain ⟨ht, hg⟩ := hb
  simp only at ht hne; subst ht
  have hok : ∀ it ∈ items, unitemOKS it = true := by
    have := h; simp only [UnFrag, unfragB, List.all_eq_true] at this; exact this
  have hl := spellBs_rembed20 items hok 0 0
  cases items with
  | nil => exact absurd rfl hne
  | cons it rest =>
    have hdn := docLinesR_ne20 it rest (hok it (by simp))
    simp only [spell, unembed, spellUn, blanks, List.replicate_zero, List.append_nil, if_true]
    rw [hl]
    simp only [beq_self_eq_true]
    rw [joinLines_flatMap _ hdn, docLinesR_flatMap20 _ hg]

end GM.Proof.CMFrag
