/-
  GM.Proof.AstHeap — refinement proof: the pointer heap of GM.Model.AstHeap represents the plain
  list-of-children forest of GM.Spec.Forest, and every mutator preserves that (property C13).
-/
import GM.Model.AstHeap
import GM.Spec.Forest
import GM.Proof.ForestLists

namespace GM.Proof.AstHeap
open GM.Spec GM.Spec.Forest GM.AstHeap GM.Proof.ForestLists

/-! ## field-wise description of `removeChildN` when `v` is a child of `self` -/
section removeFields
variable {h : Heap} {p c : Nat} (hp : h.parent c = some p)
include hp

theorem rc_parent (x : Nat) : (removeChildN h p c).parent x = if x = c then none else h.parent x := by
  simp only [removeChildN, hp, ne_eq, not_true_eq_false, ↓reduceIte]
  cases h.prev c <;> cases h.next c <;> simp

theorem rc_count (q : Nat) : (removeChildN h p c).count q = if q = p then h.count p - 1 else h.count q := by
  simp only [removeChildN, hp, ne_eq, not_true_eq_false, ↓reduceIte]
  cases h.prev c <;> cases h.next c <;> simp

theorem rc_first (q : Nat) : (removeChildN h p c).first q =
    if q = p ∧ h.prev c = none then h.next c else h.first q := by
  simp only [removeChildN, hp, ne_eq, not_true_eq_false, ↓reduceIte]
  cases h.prev c <;> cases h.next c <;> simp

theorem rc_last (q : Nat) : (removeChildN h p c).last q =
    if q = p ∧ h.next c = none then h.prev c else h.last q := by
  simp only [removeChildN, hp, ne_eq, not_true_eq_false, ↓reduceIte]
  cases h.prev c <;> cases h.next c <;> simp

theorem rc_next (x : Nat) : (removeChildN h p c).next x =
    if x = c then none else if h.prev c = some x then h.next c else h.next x := by
  simp only [removeChildN, hp, ne_eq, not_true_eq_false, ↓reduceIte]
  cases h.prev c <;> cases h.next c <;> simp <;> grind

theorem rc_prev (x : Nat) : (removeChildN h p c).prev x =
    if x = c then none else if h.next c = some x then h.prev c else h.prev x := by
  simp only [removeChildN, hp, ne_eq, not_true_eq_false, ↓reduceIte]
  cases h.prev c <;> cases h.next c <;> simp <;> grind

end removeFields


/-! ## the abstraction relation -/

/-- every pointer field of `h` agrees with the forest `f` -/
structure Abs (h : Heap) (f : Forest) : Prop where
  nodup : ∀ p, (f p).Nodup
  first : ∀ p, h.first p = (f p).head?
  last : ∀ p, h.last p = (f p).getLast?
  count : ∀ p, h.count p = (f p).length
  parent : ∀ c p, h.parent c = some p ↔ c ∈ f p
  next : ∀ c p, c ∈ f p → h.next c = nextIn (f p) c
  prev : ∀ c p, c ∈ f p → h.prev c = prevIn (f p) c
  orphan : ∀ c, h.parent c = none → h.next c = none ∧ h.prev c = none

theorem abs_empty : Abs Heap.empty Forest.empty := by
  constructor <;> simp [Heap.empty, Forest.empty]

namespace Abs
variable {h : Heap} {f : Forest} (A : Abs h f)
include A

theorem disjoint {c p q : Nat} (hp : c ∈ f p) (hq : c ∈ f q) : p = q := by
  have h1 := (A.parent c p).2 hp
  have h2 := (A.parent c q).2 hq
  rw [h1] at h2; exact Option.some.inj h2

theorem not_mem_of_orphan {c : Nat} (hc : h.parent c = none) (q : Nat) : c ∉ f q := by
  intro hm
  have := (A.parent c q).2 hm
  rw [hc] at this; cases this

end Abs

/-! ## RemoveChild on an actual child -/

theorem removeChild_abs {h : Heap} {f : Forest} (A : Abs h f) {p c : Nat} (hc : c ∈ f p) :
    Abs (removeChildN h p c) (upd f p ((f p).erase c)) := by
  have hp : h.parent c = some p := (A.parent c p).2 hc
  have nd := A.nodup p
  have hn := A.next c p hc
  have hv := A.prev c p hc
  constructor
  · intro q
    by_cases hq : q = p
    · subst hq; simpa [upd] using nd.erase c
    · simpa [upd, hq] using A.nodup q
  · intro q
    rw [rc_first hp]
    by_cases hq : q = p
    · subst hq
      simp only [upd, ↓reduceIte, true_and]
      rw [head?_erase nd hc, hv, hn, A.first]; simp only [prevIn_none_iff nd hc]
    · simp [upd, hq, A.first]
  · intro q
    rw [rc_last hp]
    by_cases hq : q = p
    · subst hq
      simp only [upd, ↓reduceIte, true_and]
      rw [getLast?_erase nd hc, hv, hn, A.last]; simp only [nextIn_none_iff nd hc]
    · simp [upd, hq, A.last]
  · intro q
    rw [rc_count hp]
    by_cases hq : q = p
    · subst hq
      have := List.length_pos_of_mem hc
      simp only [upd, ↓reduceIte, A.count, List.length_erase_of_mem hc]
      omega
    · simp [upd, hq, A.count]
  · intro x q
    rw [rc_parent hp]
    by_cases hx : x = c
    · subst hx
      simp only [↓reduceIte, upd, false_iff, reduceCtorEq]
      by_cases hq : q = p
      · subst hq; simpa using nd.not_mem_erase
      · simp only [hq, ↓reduceIte]; intro hm; exact hq (A.disjoint hm hc)
    · simp only [hx, ↓reduceIte, upd]
      by_cases hq : q = p
      · subst hq; simp [List.mem_erase_of_ne hx, A.parent]
      · simp [hq, A.parent]
  · intro x q hxq
    rw [rc_next hp]
    by_cases hq : q = p
    · subst hq
      simp only [upd, ↓reduceIte] at hxq ⊢
      have hxc : x ≠ c := fun e => by subst e; exact nd.not_mem_erase hxq
      have hxl : x ∈ f q := List.mem_of_mem_erase hxq
      rw [nextIn_erase nd hxc, if_neg hxc, hv, hn, A.next x q hxl]; simp only [next_prev nd]
    · simp only [upd, hq, ↓reduceIte] at hxq ⊢
      have hxc : x ≠ c := fun e => by subst e; exact hq (A.disjoint hxq hc)
      rw [if_neg hxc, hv]
      have : prevIn (f p) c ≠ some x := fun e => hq (A.disjoint hxq (prevIn_mem e).2)
      rw [if_neg this]; exact A.next x q hxq
  · intro x q hxq
    rw [rc_prev hp]
    by_cases hq : q = p
    · subst hq
      simp only [upd, ↓reduceIte] at hxq ⊢
      have hxc : x ≠ c := fun e => by subst e; exact nd.not_mem_erase hxq
      have hxl : x ∈ f q := List.mem_of_mem_erase hxq
      rw [prevIn_erase nd hxc, if_neg hxc, hv, hn, A.prev x q hxl]; simp only [next_prev nd]
    · simp only [upd, hq, ↓reduceIte] at hxq ⊢
      have hxc : x ≠ c := fun e => by subst e; exact hq (A.disjoint hxq hc)
      rw [if_neg hxc, hn]
      have : nextIn (f p) c ≠ some x := fun e => hq (A.disjoint hxq (nextIn_mem e).2)
      rw [if_neg this]; exact A.prev x q hxq
  · intro x hx
    rw [rc_parent hp] at hx
    rw [rc_next hp, rc_prev hp]
    by_cases hxc : x = c
    · simp [hxc]
    · simp only [hxc, ↓reduceIte] at hx ⊢
      have h1 : h.prev c ≠ some x := fun e => by
        rw [hv] at e; exact A.not_mem_of_orphan hx p (prevIn_mem e).2
      have h2 : h.next c ≠ some x := fun e => by
        rw [hn] at e; exact A.not_mem_of_orphan hx p (nextIn_mem e).2
      simp only [h1, h2, ↓reduceIte]
      exact A.orphan x hx


/-! ## ensureIsolated = "a moved node leaves its old parent" -/

theorem detach_eq_upd {h : Heap} {f : Forest} (A : Abs h f) {p c : Nat} (hc : c ∈ f p) :
    detach f c = upd f p ((f p).erase c) := by
  funext q
  by_cases hq : q = p
  · subst hq; simp [detach, upd]
  · simp only [detach, upd, hq, ↓reduceIte]
    exact List.erase_of_not_mem (fun hm => hq (A.disjoint hm hc))

theorem detach_eq_self {h : Heap} {f : Forest} (A : Abs h f) {c : Nat} (hc : h.parent c = none) :
    detach f c = f := by
  funext q
  exact List.erase_of_not_mem (A.not_mem_of_orphan hc q)

theorem ensureIsolated_abs {h : Heap} {f : Forest} (A : Abs h f) (c : Nat) :
    Abs (ensureIsolatedN h c) (detach f c) ∧ (ensureIsolatedN h c).parent c = none := by
  unfold ensureIsolatedN
  cases hp : h.parent c with
  | none => simp only [detach_eq_self A hp]; exact ⟨A, hp⟩
  | some p =>
    have hc : c ∈ f p := (A.parent c p).1 hp
    simp only [detach_eq_upd A hc]
    exact ⟨removeChild_abs A hc, by rw [rc_parent hp]; simp⟩

theorem mem_detach {f : Forest} (nd : ∀ p, (f p).Nodup) {c x q : Nat} :
    x ∈ detach f c q ↔ x ≠ c ∧ x ∈ f q := by
  simp only [detach]
  rw [(nd q).mem_erase_iff]

/-! ## AppendChild of a parentless node -/

/-- AppendChild after its `ensureIsolated` call -/
def appendOrphan (h : Heap) (self v : Nat) : Except Fault Heap :=
  let h? : Except Fault Heap :=
    match h.first self with
    | none =>
      let h := { h with first := set h.first self (some v) }
      let h := { h with next := set h.next v none }
      .ok { h with prev := set h.prev v none }
    | some _ =>
      match h.last self with
      | none => .error .nilDeref
      | some last =>
        let h := { h with next := set h.next last (some v) }
        .ok { h with prev := set h.prev v (some last) }
  match h? with
  | .error e => .error e
  | .ok h =>
    let h := { h with parent := set h.parent v (some self) }
    let h := { h with last := set h.last self (some v) }
    .ok { h with count := set h.count self (h.count self + 1) }

theorem appendChildN_eq (h : Heap) (p c : Nat) : appendChildN h p c = appendOrphan (ensureIsolatedN h c) p c := rfl

theorem appendOrphan_fields {h : Heap} {p c : Nat} (hfl : h.first p = none ↔ h.last p = none)
    (hnc : h.next c = none) :
    ∃ h', appendOrphan h p c = .ok h' ∧
      (∀ x, h'.parent x = if x = c then some p else h.parent x) ∧
      (∀ q, h'.count q = if q = p then h.count p + 1 else h.count q) ∧
      (∀ q, h'.first q = if q = p ∧ h.first p = none then some c else h.first q) ∧
      (∀ q, h'.last q = if q = p then some c else h.last q) ∧
      (∀ x, h'.next x = if h.last p = some x then some c else h.next x) ∧
      (∀ x, h'.prev x = if x = c then h.last p else h.prev x) := by
  unfold appendOrphan
  cases hf : h.first p with
  | none =>
    have hl := hfl.1 hf
    refine ⟨_, rfl, ?_, ?_, ?_, ?_, ?_, ?_⟩ <;> intro x <;> simp [hl] <;> grind
  | some a =>
    cases hl : h.last p with
    | none => rw [hfl.2 hl] at hf; cases hf
    | some lst =>
      refine ⟨_, rfl, ?_, ?_, ?_, ?_, ?_, ?_⟩ <;> intro x <;> simp <;> grind

theorem appendOrphan_abs {h : Heap} {f : Forest} (A : Abs h f) {c : Nat} (hc : h.parent c = none) (p : Nat) :
    ∃ h', appendOrphan h p c = .ok h' ∧ Abs h' (upd f p (f p ++ [c])) := by
  have hcn : ∀ q, c ∉ f q := A.not_mem_of_orphan hc
  have nd := A.nodup p
  have hfl : h.first p = none ↔ h.last p = none := by
    rw [A.first, A.last]; simp
  obtain ⟨h', he, fpar, fcnt, ffst, flst, fnxt, fprv⟩ := appendOrphan_fields hfl (A.orphan c hc).1
  refine ⟨h', he, ?_⟩
  constructor
  · intro q
    by_cases hq : q = p
    · subst hq
      simp only [upd, ↓reduceIte]
      have := hcn q
      simp [List.nodup_append, nd]; grind
    · simpa [upd, hq] using A.nodup q
  · intro q
    rw [ffst]
    by_cases hq : q = p
    · subst hq
      simp only [upd, ↓reduceIte, true_and, A.first, List.head?_append]
      cases f q <;> simp
    · simp [upd, hq, A.first]
  · intro q
    rw [flst]
    by_cases hq : q = p
    · subst hq; simp [upd]
    · simp [upd, hq, A.last]
  · intro q
    rw [fcnt]
    by_cases hq : q = p
    · subst hq; simp [upd, A.count]
    · simp [upd, hq, A.count]
  · intro x q
    rw [fpar]
    by_cases hx : x = c
    · subst hx
      by_cases hq : q = p
      · subst hq; simp [upd]
      · simp only [↓reduceIte, upd, hq]
        constructor
        · intro e; exact absurd (Option.some.inj e).symm hq
        · intro hm; exact absurd hm (hcn q)
    · by_cases hq : q = p
      · subst hq; simp [upd, hx, A.parent]
      · simp [upd, hx, hq, A.parent]
  · intro x q hxq
    rw [fnxt]
    by_cases hq : q = p
    · subst hq
      simp only [upd, ↓reduceIte] at hxq ⊢
      rw [nextIn_append_single nd (hcn q), A.last]
      by_cases hl : (f q).getLast? = some x
      · simp [hl]
      · simp only [hl, ↓reduceIte]
        rcases List.mem_append.1 hxq with hm | hm
        · exact A.next x q hm
        · have : x = c := by simpa using hm
          subst this
          rw [(A.orphan x hc).1, nextIn_not_mem (hcn q)]
    · simp only [upd, hq, ↓reduceIte] at hxq ⊢
      have : h.last p ≠ some x := by
        rw [A.last]; intro e; exact hq (A.disjoint hxq (List.mem_of_getLast? e))
      simp only [this, ↓reduceIte]; exact A.next x q hxq
  · intro x q hxq
    rw [fprv]
    by_cases hq : q = p
    · subst hq
      simp only [upd, ↓reduceIte] at hxq ⊢
      rw [prevIn_append_single (hcn q), A.last]
      by_cases hx : x = c
      · simp [hx]
      · simp only [hx, ↓reduceIte]
        rcases List.mem_append.1 hxq with hm | hm
        · exact A.prev x q hm
        · exact absurd (by simpa using hm) hx
    · simp only [upd, hq, ↓reduceIte] at hxq ⊢
      have hx : x ≠ c := fun e => hcn q (e ▸ hxq)
      simp only [hx, ↓reduceIte]; exact A.prev x q hxq
  · intro x hx
    rw [fpar] at hx
    by_cases hxc : x = c
    · simp [hxc] at hx
    · simp only [hxc, ↓reduceIte] at hx
      rw [fnxt, fprv]
      have : h.last p ≠ some x := by
        rw [A.last]; intro e; exact A.not_mem_of_orphan hx p (List.mem_of_getLast? e)
      simp only [this, hxc, ↓reduceIte]
      exact A.orphan x hx

theorem appendChild_abs {h : Heap} {f : Forest} (A : Abs h f) (p c : Nat) :
    ∃ h', appendChildN h p c = .ok h' ∧ Abs h' (upd (detach f c) p (detach f c p ++ [c])) := by
  rw [appendChildN_eq]
  obtain ⟨A1, hc⟩ := ensureIsolated_abs A c
  exact appendOrphan_abs A1 hc p


/-! ## InsertBefore an actual child, of a parentless node -/

/-- InsertBefore after its guard and its `ensureIsolated` call -/
def insertOrphan (h : Heap) (self v1 ins : Nat) : Heap :=
  let h := { h with count := set h.count self (h.count self + 1) }
  let prev := h.prev v1
  let h := match prev with
    | some a =>
      let h := { h with next := set h.next a (some ins) }
      { h with prev := set h.prev ins (some a) }
    | none =>
      let h := { h with first := set h.first self (some ins) }
      { h with prev := set h.prev ins none }
  let h := { h with next := set h.next ins (some v1) }
  let h := { h with prev := set h.prev v1 (some ins) }
  { h with parent := set h.parent ins (some self) }

theorem insertBeforeN_child {h : Heap} {p v c : Nat} (hv : h.parent v = some p) :
    insertBeforeN h p (some v) c = .ok (insertOrphan (ensureIsolatedN h c) p v c) := by
  simp only [insertBeforeN, hv, ne_eq, not_true_eq_false, ↓reduceIte]; rfl

theorem insertBeforeN_foreign {h : Heap} {p v c : Nat} (hv : h.parent v ≠ some p) :
    insertBeforeN h p (some v) c = appendChildN h p c := by
  simp [insertBeforeN, hv]

section insertFields
variable {h : Heap} {p v c : Nat}

theorem io_parent (x : Nat) : (insertOrphan h p v c).parent x = if x = c then some p else h.parent x := by
  simp only [insertOrphan]; cases h.prev v <;> simp
theorem io_count (q : Nat) : (insertOrphan h p v c).count q = if q = p then h.count p + 1 else h.count q := by
  simp only [insertOrphan]; cases h.prev v <;> simp
theorem io_last (q : Nat) : (insertOrphan h p v c).last q = h.last q := by
  simp only [insertOrphan]; cases h.prev v <;> simp
theorem io_first (q : Nat) : (insertOrphan h p v c).first q =
    if q = p ∧ h.prev v = none then some c else h.first q := by
  simp only [insertOrphan]; cases h.prev v <;> simp
theorem io_next (x : Nat) : (insertOrphan h p v c).next x =
    if x = c then some v else if h.prev v = some x then some c else h.next x := by
  simp only [insertOrphan]; cases hh : h.prev v <;> simp <;> grind
theorem io_prev (x : Nat) : (insertOrphan h p v c).prev x =
    if x = v then some c else if x = c then h.prev v else h.prev x := by
  simp only [insertOrphan]; cases hh : h.prev v <;> simp <;> grind
end insertFields

theorem insertOrphan_abs {h : Heap} {f : Forest} (A : Abs h f) {c : Nat} (hc : h.parent c = none)
    {p v : Nat} (hv : v ∈ f p) :
    Abs (insertOrphan h p v c) (upd f p (insBefore c v (f p))) := by
  have hcn : ∀ q, c ∉ f q := A.not_mem_of_orphan hc
  have nd := A.nodup p
  have hvc : v ≠ c := fun e => hcn p (e ▸ hv)
  have hpv := A.prev v p hv
  have hpc : h.prev v ≠ some c := by rw [hpv]; intro e; exact hcn p (prevIn_mem e).2
  constructor
  · intro q
    by_cases hq : q = p
    · subst hq; simpa [upd] using nodup_insBefore nd (hcn q) v
    · simpa [upd, hq] using A.nodup q
  · intro q
    rw [io_first]
    by_cases hq : q = p
    · subst hq
      simp only [upd, ↓reduceIte, true_and]
      rw [head?_insBefore hv, hpv, A.first]; simp only [prevIn_none_iff nd hv]
    · simp [upd, hq, A.first]
  · intro q
    rw [io_last]
    by_cases hq : q = p
    · subst hq; simp [upd, getLast?_insBefore hv, A.last]
    · simp [upd, hq, A.last]
  · intro q
    rw [io_count]
    by_cases hq : q = p
    · subst hq; simp [upd, A.count, length_insBefore]
    · simp [upd, hq, A.count]
  · intro x q
    rw [io_parent]
    by_cases hx : x = c
    · subst hx
      by_cases hq : q = p
      · subst hq; simp [upd, mem_insBefore]
      · simp only [↓reduceIte, upd, hq]
        constructor
        · intro e; exact absurd (Option.some.inj e).symm hq
        · intro hm; exact absurd hm (hcn q)
    · by_cases hq : q = p
      · subst hq; simp [upd, hx, A.parent, mem_insBefore]
      · simp [upd, hx, hq, A.parent]
  · intro x q hxq
    rw [io_next]
    by_cases hq : q = p
    · subst hq
      simp only [upd, ↓reduceIte] at hxq ⊢
      rw [nextIn_insBefore nd hv (hcn q), hpv]
      by_cases hx : x = c
      · simp [hx]
      · simp only [hx, ↓reduceIte]
        have hxl : x ∈ f q := by
          rcases mem_insBefore.1 hxq with e | e
          · exact absurd e hx
          · exact e
        rw [A.next x q hxl]; simp only [next_prev nd]
    · simp only [upd, hq, ↓reduceIte] at hxq ⊢
      have hx : x ≠ c := fun e => hcn q (e ▸ hxq)
      have : h.prev v ≠ some x := by
        rw [hpv]; intro e; exact hq (A.disjoint hxq (prevIn_mem e).2)
      simp only [hx, this, ↓reduceIte]; exact A.next x q hxq
  · intro x q hxq
    rw [io_prev]
    by_cases hq : q = p
    · subst hq
      simp only [upd, ↓reduceIte] at hxq ⊢
      rw [prevIn_insBefore nd hv (hcn q), hpv]
      by_cases hxv : x = v
      · simp [hxv]
      · by_cases hx : x = c
        · simp [hx]
        · simp only [hxv, hx, ↓reduceIte]
          have hxl : x ∈ f q := by
            rcases mem_insBefore.1 hxq with e | e
            · exact absurd e hx
            · exact e
          exact A.prev x q hxl
    · simp only [upd, hq, ↓reduceIte] at hxq ⊢
      have hx : x ≠ c := fun e => hcn q (e ▸ hxq)
      have hxv : x ≠ v := fun e => hq (A.disjoint hxq (e ▸ hv))
      simp only [hx, hxv, ↓reduceIte]; exact A.prev x q hxq
  · intro x hx
    rw [io_parent] at hx
    by_cases hxc : x = c
    · simp [hxc] at hx
    · simp only [hxc, ↓reduceIte] at hx
      rw [io_next, io_prev]
      have h1 : h.prev v ≠ some x := by
        rw [hpv]; intro e; exact A.not_mem_of_orphan hx p (prevIn_mem e).2
      have h2 : x ≠ v := fun e => A.not_mem_of_orphan hx p (e ▸ hv)
      simp only [h1, h2, hxc, ↓reduceIte]
      exact A.orphan x hx

/-- spec of the place an insertion relative to `v` goes to -/
def insBeforeOpt (c : Nat) (v : Option Nat) (l : List Nat) : List Nat :=
  match v with
  | some v => insBefore c v l
  | none => l ++ [c]

theorem insertBefore_abs {h : Heap} {f : Forest} (A : Abs h f) (p : Nat) (v : Option Nat) (c : Nat)
    (hvc : v ≠ some c) :
    ∃ h', insertBeforeN h p v c = .ok h' ∧
      Abs h' (upd (detach f c) p (insBeforeOpt c v (detach f c p))) := by
  cases v with
  | none => exact appendChild_abs A p c
  | some v =>
    have hne : v ≠ c := fun e => hvc (e ▸ rfl)
    by_cases hv : h.parent v = some p
    · rw [insertBeforeN_child hv]
      obtain ⟨A1, hc⟩ := ensureIsolated_abs A c
      have hm : v ∈ detach f c p := (mem_detach A.nodup).2 ⟨hne, (A.parent v p).1 hv⟩
      exact ⟨_, rfl, insertOrphan_abs A1 hc hm⟩
    · rw [insertBeforeN_foreign hv]
      have hm : v ∉ detach f c p := fun hm => hv ((A.parent v p).2 ((mem_detach A.nodup).1 hm).2)
      simp only [insBeforeOpt, insBefore_not_mem hm]
      exact appendChild_abs A p c


/-! ## small facts under `Abs` -/

theorem upd_upd (f : Forest) (p : Nat) (a b : List Nat) : upd (upd f p a) p b = upd f p b := by
  funext q; by_cases hq : q = p <;> simp [upd, hq]

theorem upd_self (f : Forest) (p : Nat) : upd f p (f p) = f := by
  funext q; by_cases hq : q = p <;> simp [upd, hq]

theorem Abs.next_mem {h : Heap} {f : Forest} (A : Abs h f) {x y : Nat} (hxy : h.next x = some y) :
    ∃ q, x ∈ f q ∧ y ∈ f q := by
  cases hp : h.parent x with
  | none => rw [(A.orphan x hp).1] at hxy; cases hxy
  | some q =>
    have hx := (A.parent x q).1 hp
    rw [A.next x q hx] at hxy
    exact ⟨q, hx, (nextIn_mem hxy).2⟩

theorem Abs.next_ne_self {h : Heap} {f : Forest} (A : Abs h f) (x : Nat) : h.next x ≠ some x := by
  intro e
  obtain ⟨q, hx, _⟩ := A.next_mem e
  rw [A.next x q hx] at e
  exact nextIn_ne_self (A.nodup q) x e

/-! ## RemoveChild in general -/

theorem removeChildN_abs {h : Heap} {f : Forest} (A : Abs h f) (p c : Nat) :
    Abs (removeChildN h p c) (upd f p ((f p).erase c)) := by
  by_cases hc : c ∈ f p
  · exact removeChild_abs A hc
  · have hp : h.parent c ≠ some p := fun e => hc ((A.parent c p).1 e)
    rw [List.erase_of_not_mem hc, upd_self]
    simpa [removeChildN, hp] using A

/-! ## InsertAfter -/

def insAfterOpt (c : Nat) (v : Option Nat) (l : List Nat) : List Nat :=
  match v with
  | some v => insAfter c v l
  | none => l ++ [c]

theorem insertAfter_abs {h : Heap} {f : Forest} (A : Abs h f) (p : Nat) (v : Option Nat) (c : Nat)
    (hvc : v ≠ some c) :
    ∃ h', insertAfter h p v (some c) = .ok h' ∧
      Abs h' (upd (detach f c) p (insAfterOpt c v (detach f c p))) := by
  cases v with
  | none => exact appendChild_abs A p c
  | some v =>
    have hne : v ≠ c := fun e => hvc (e ▸ rfl)
    -- the reference node handed to InsertBefore
    have key : ∃ nx, insertAfter h p (some v) (some c) = insertBeforeN h p nx c ∧ nx ≠ some c ∧
        insBeforeOpt c nx (detach f c p) = insAfter c v (detach f c p) := by
      refine ⟨if h.next v = some c then h.next c else h.next v, ?_, ?_, ?_⟩
      · simp only [insertAfter, insertBefore]; split <;> rfl
      · split
        · exact A.next_ne_self c
        · assumption
      · have ndg : (detach f c p).Nodup := (A.nodup p).erase c
        by_cases hv : v ∈ f p
        · have hvg : v ∈ detach f c p := (mem_detach A.nodup).2 ⟨hne, hv⟩
          have e1 : (if h.next v = some c then h.next c else h.next v) = nextIn (detach f c p) v := by
            simp only [detach]
            rw [nextIn_erase (A.nodup p) hne, A.next v p hv]
            split
            · rename_i e; rw [A.next c p (nextIn_mem e).2]
            · rfl
          rw [e1, insAfter_eq ndg hvg]
          cases nextIn (detach f c p) v <;> rfl
        · have hvg : v ∉ detach f c p := fun hm => hv ((mem_detach A.nodup).1 hm).2
          rw [insAfter_not_mem hvg]
          have foreign : ∀ w, (if h.next v = some c then h.next c else h.next v) = some w → w ∉ detach f c p := by
            intro w hw hm
            have hwp : w ∈ f p := ((mem_detach A.nodup).1 hm).2
            split at hw
            · rename_i e
              obtain ⟨q, hvq, hcq⟩ := A.next_mem e
              obtain ⟨q', hcq', hwq'⟩ := A.next_mem hw
              have : q' = q := A.disjoint hcq' hcq
              subst this
              have : q' = p := A.disjoint hwq' hwp
              subst this
              exact hv hvq
            · obtain ⟨q, hvq, hwq⟩ := A.next_mem hw
              have : q = p := A.disjoint hwq hwp
              subst this
              exact hv hvq
          cases hnx : (if h.next v = some c then h.next c else h.next v) with
          | none => rfl
          | some w => simp only [insBeforeOpt, insBefore_not_mem (foreign w hnx)]
    obtain ⟨nx, e1, hnx, e2⟩ := key
    have := insertBefore_abs A p nx c hnx
    rw [e2] at this
    rw [e1]; exact this

/-! ## ReplaceChild -/

theorem replaceChild_abs {h : Heap} {f : Forest} (A : Abs h f) (p v c : Nat) (hne : v ≠ c) :
    ∃ h', replaceChild h p (some v) (some c) = .ok h' ∧
      Abs h' (upd (detach f c) p (replaceIn c v (detach f c p))) := by
  obtain ⟨h1, e1, A1⟩ := insertBefore_abs A p (some v) c (fun e => hne (Option.some.inj e))
  have ndg : (detach f c p).Nodup := (A.nodup p).erase c
  have hcg : c ∉ detach f c p := fun hm => ((mem_detach A.nodup).1 hm).1 rfl
  refine ⟨removeChildN h1 p v, ?_, ?_⟩
  · simp only [replaceChild, insertBefore, e1, removeChild]
  · have A2 := removeChildN_abs A1 p v
    simp only [insBeforeOpt, upd_upd] at A2
    have e : (upd (detach f c) p (insBefore c v (detach f c p)) p).erase v = replaceIn c v (detach f c p) := by
      simp only [upd, ↓reduceIte]
      by_cases hv : v ∈ detach f c p
      · exact insBefore_erase ndg hv hcg hne
      · rw [insBefore_not_mem hv, replaceIn_not_mem hv]
        apply List.erase_of_not_mem
        simp only [List.mem_append, List.mem_singleton, not_or]
        exact ⟨hv, hne⟩
    rw [e] at A2
    exact A2

/-! ## RemoveChildren -/

theorem removeChildrenLoop_spec : ∀ (rest : List Nat) (fuel : Nat) (h0 : Heap), rest.Nodup →
    (∀ x ∈ rest, h0.next x = nextIn rest x) → rest.length < fuel →
    ∃ h', removeChildrenLoop fuel h0 rest.head? = .ok h' ∧
      h'.first = h0.first ∧ h'.last = h0.last ∧ h'.count = h0.count ∧
      (∀ x, h'.parent x = if x ∈ rest then none else h0.parent x) ∧
      (∀ x, h'.prev x = if x ∈ rest then none else h0.prev x) ∧
      (∀ x, h'.next x = if x ∈ rest then none else h0.next x) := by
  intro rest
  induction rest with
  | nil => intro fuel h0 _ _ _; exact ⟨h0, by simp [removeChildrenLoop]⟩
  | cons a t ih =>
    intro fuel h0 nd hn hf
    cases fuel with
    | zero => simp at hf
    | succ k =>
      have nda := List.nodup_cons.1 nd
      have hna : h0.next a = t.head? := by
        rw [hn a (by simp)]; simp [nextIn]
      simp only [List.head?_cons, removeChildrenLoop, hna]
      obtain ⟨h', e, f1, f2, f3, f4, f5, f6⟩ := ih k
        { parent := set h0.parent a none, first := h0.first, last := h0.last,
          next := set h0.next a none, prev := set h0.prev a none, count := h0.count } nda.2
        (by
          intro x hx
          have hxa : x ≠ a := fun e => nda.1 (e ▸ hx)
          have hax : a ≠ x := fun e => hxa e.symm
          simp only [set_apply, hxa, ↓reduceIte]
          rw [hn x (by simp [hx])]; simp [nextIn, hax])
        (by simpa using hf)
      refine ⟨h', e, f1, f2, f3, ?_, ?_, ?_⟩
      · intro x; rw [f4]; simp only [set_apply, List.mem_cons]; grind
      · intro x; rw [f5]; simp only [set_apply, List.mem_cons]; grind
      · intro x; rw [f6]; simp only [set_apply, List.mem_cons]; grind

theorem removeChildren_abs {h : Heap} {f : Forest} (A : Abs h f) (p : Nat) {fuel : Nat}
    (hf : (f p).length < fuel) :
    ∃ h', removeChildren fuel h p = .ok h' ∧ Abs h' (upd f p []) := by
  obtain ⟨h1, e, f1, f2, f3, f4, f5, f6⟩ :=
    removeChildrenLoop_spec (f p) fuel h (A.nodup p) (fun x hx => A.next x p hx) hf
  rw [← A.first] at e
  refine ⟨{ h1 with first := set h1.first p none, last := set h1.last p none, count := set h1.count p 0 },
    by simp only [removeChildren, e], ?_⟩
  constructor
  · intro q
    by_cases hq : q = p
    · subst hq; simp [upd]
    · simpa [upd, hq] using A.nodup q
  · intro q
    by_cases hq : q = p
    · subst hq; simp [upd]
    · simp [upd, hq, f1, A.first]
  · intro q
    by_cases hq : q = p
    · subst hq; simp [upd]
    · simp [upd, hq, f2, A.last]
  · intro q
    by_cases hq : q = p
    · subst hq; simp [upd]
    · simp [upd, hq, f3, A.count]
  · intro x q
    simp only [f4]
    by_cases hq : q = p
    · subst hq
      simp only [upd, ↓reduceIte, List.not_mem_nil, iff_false]
      by_cases hx : x ∈ f q
      · simp [hx]
      · simp only [hx, ↓reduceIte]; intro e; exact hx ((A.parent x q).1 e)
    · simp only [upd, hq, ↓reduceIte]
      by_cases hx : x ∈ f p
      · simp only [hx, ↓reduceIte, reduceCtorEq, false_iff]
        intro hm; exact hq (A.disjoint hm hx)
      · simp only [hx, ↓reduceIte]; exact A.parent x q
  · intro x q hxq
    by_cases hq : q = p
    · subst hq; simp [upd] at hxq
    · simp only [upd, hq, ↓reduceIte] at hxq ⊢
      have hx : x ∉ f p := fun hm => hq (A.disjoint hxq hm)
      simp only [f6, hx, ↓reduceIte]; exact A.next x q hxq
  · intro x q hxq
    by_cases hq : q = p
    · subst hq; simp [upd] at hxq
    · simp only [upd, hq, ↓reduceIte] at hxq ⊢
      have hx : x ∉ f p := fun hm => hq (A.disjoint hxq hm)
      simp only [f5, hx, ↓reduceIte]; exact A.prev x q hxq
  · intro x hx
    simp only [f4] at hx
    simp only [f5, f6]
    by_cases hm : x ∈ f p
    · simp [hm]
    · simp only [hm, ↓reduceIte] at hx ⊢
      exact A.orphan x hx


/-! ## one step, all steps -/

def IsSort : Op → Prop
  | .sort _ _ => True
  | _ => False

theorem step_refines_nosort {h : Heap} {f : Forest} (A : Abs h f) {op : Op} (hpre : Pre f op)
    (hns : ¬ IsSort op) {fuel : Nat} (hfuel : ∀ p, (f p).length < fuel) :
    ∃ h', step fuel h op = .ok h' ∧ Abs h' (specStep f op) := by
  cases op with
  | append p c =>
    cases c with
    | none => exact absurd hpre (by simp [Pre])
    | some c => exact appendChild_abs A p c
  | insertBefore p v c =>
    cases c with
    | none => exact absurd hpre (by simp [Pre])
    | some c =>
      have := insertBefore_abs A p v c hpre.2
      cases v <;> exact this
  | insertAfter p v c =>
    cases c with
    | none => exact absurd hpre (by simp [Pre])
    | some c =>
      have := insertAfter_abs A p v c hpre.2
      cases v <;> exact this
  | replace p v c =>
    cases c with
    | none => cases v <;> exact absurd hpre (by simp [Pre])
    | some c =>
      cases v with
      | none => exact absurd hpre (by simp [Pre])
      | some v => exact replaceChild_abs A p v c hpre.2
  | remove p c =>
    cases c with
    | none => exact absurd hpre (by simp [Pre])
    | some c => exact ⟨_, rfl, removeChildN_abs A p c⟩
  | removeChildren p => exact removeChildren_abs A p (hfuel p)
  | sort p cmp => exact absurd trivial hns

end GM.Proof.AstHeap
