/-
  GM.Proof.CMFragDefs — shared vocabulary of the conformance proof for the fragment GM.Spec.CMFrag:
  what a paragraph's lines look like as source bytes, as line segments of the block phase, as inline children
  and as renderer nodes. (Definitions only.)
-/
import GM.Model.Convert
import GM.Spec.CMFrag

namespace GM.Proof.CMFrag
open GM GM.Text

/-- the byte loop of the inline phase (`GM.Inl.scan`) never consults an inline parser on these bytes, started at
    index `i` of its line with the flag `escaped = esc`; and none of them is a line feed -/
def quiet : Bytes → Nat → Bool → Bool
  | [], _, _ => true
  | c :: cs, i, esc =>
    c != 10 &&
    !(GM.Inl.isTrigger {} c i esc && !(GM.Inl.parsersFor (GM.Inl.parserChar c i)).isEmpty) &&
    quiet cs (i + 1) (!esc && c == 92)

/-- the source bytes of one paragraph line as the three phases need it: not empty, first byte an ASCII letter,
    never consulting an inline parser, last byte neither white space nor a backslash -/
structure GoodLine (l : Bytes) : Prop where
  ne : l ≠ []
  first : ∀ c, l.head? = some c → GM.Spec.CM.isLetter c = true
  quiet : quiet l 0 false = true
  lastNoSpace : ∀ c, l.getLast? = some c → isSpace c = false
  lastNoBs : ∀ c, l.getLast? = some c → c ≠ 92

/-- the source text of a paragraph: every line with its line feed -/
def paraBytes (ls : List Bytes) : Bytes := ls.flatMap (· ++ [10])

/-- the paragraph's `Lines()` after `paragraphParser.Close`, for a paragraph that starts at byte `p`: every line
    with its line feed, the last one without (its right white space is trimmed) -/
def paraSegs : Nat → List Bytes → List Segment
  | _, [] => []
  | p, [l] => [{ start := p, stop := p + l.length }]
  | p, l :: l' :: rest => { start := p, stop := p + l.length + 1 } :: paraSegs (p + l.length + 1) (l' :: rest)

/-- the inline children `parseBlock` gives that paragraph: one Text per line, soft line break on all but the last -/
def paraKids : Nat → List Bytes → List GM.Inl.Node
  | _, [] => []
  | p, [l] => [.text { start := p, stop := p + l.length } false false false]
  | p, l :: l' :: rest =>
    .text { start := p, stop := p + l.length } true false false :: paraKids (p + l.length + 1) (l' :: rest)

/-- the same children as the renderer reads them -/
def textNodes : List Bytes → List GM.Node
  | [] => []
  | [l] => [.mk (.text l false false false false) none []]
  | l :: l' :: rest => .mk (.text l true false false false) none [] :: textNodes (l' :: rest)

/-- a paragraph as the renderer reads it -/
def paraNode (ls : List Bytes) : GM.Node := .mk .paragraph none (textNodes ls)

/-- a document of paragraphs as the renderer reads it -/
def docNode (ps : List (List Bytes)) : GM.Node := .mk .document none (ps.map paraNode)

/-- lines joined by a line feed -/
def joinNl : List Bytes → Bytes
  | [] => []
  | [l] => l
  | l :: l' :: rest => l ++ [10] ++ joinNl (l' :: rest)

/-- the HTML of a document of paragraphs, each line written by the text writer -/
def parasHtml (ps : List (List Bytes)) : Bytes :=
  ps.flatMap fun ls => strBytes "<p>" ++ joinNl (ls.map (GM.write false)) ++ strBytes "</p>\n"

/-! ### stage 4: headings and thematic breaks -/

/-- a block of a stage-4 document as source bytes: paragraph lines, ATX heading (level, text), thematic break (its
    characters) -/
inductive RawBlock where
  | para (ls : List Bytes)
  | atx (level : Nat) (l : Bytes)
  | hr (l : Bytes)

/-- a block as the renderer reads it -/
def rawNode : RawBlock → GM.Node
  | .para ls => paraNode ls
  | .atx level l => .mk (.heading level) none [.mk (.text l false false false false) none []]
  | .hr _ => .mk .thematicBreak none []

def gdocNode (bs : List RawBlock) : GM.Node := .mk .document none (bs.map rawNode)

/-- the HTML of one block, text written by the text writer -/
def rawHtml : RawBlock → Bytes
  | .para ls => strBytes "<p>" ++ joinNl (ls.map (GM.write false)) ++ strBytes "</p>\n"
  | .atx level l =>
    strBytes "<h" ++ [UInt8.ofNat (48 + level)] ++ [62] ++ GM.write false l ++ strBytes "</h" ++
      [UInt8.ofNat (48 + level)] ++ strBytes ">\n"
  | .hr _ => strBytes "<hr />\n"

def gdocHtml (bs : List RawBlock) : Bytes := bs.flatMap rawHtml

/-! ### stage 5: fenced code blocks -/

inductive Raw5 where
  | old (b : RawBlock)
  | fence (fc : UInt8) (n : Nat) (info : Bytes) (lines : List Bytes)
  /-- stage 12: an indented code block; `lines` = its lines behind the four spaces of indentation -/
  | icode (lines : List Bytes)

/-- is the block an indented code block? -/
def isIcB : Raw5 → Bool
  | .icode _ => true
  | _ => false

/-- a stage-5 block as the renderer reads it: the code lines with their line feeds, the info string if not empty -/
def rawNode5 : Raw5 → GM.Node
  | .old b => rawNode b
  | .fence _ _ info lines =>
    .mk (.fencedCodeBlock (if info.isEmpty then none else some info) (lines.map (· ++ [10]))) none []
  | .icode lines => .mk (.codeBlock (lines.map (· ++ [10]))) none []

def hdocNode (bs : List Raw5) : GM.Node := .mk .document none (bs.map rawNode5)

def rawHtml5 : Raw5 → Bytes
  | .old b => rawHtml b
  | .fence _ _ info lines =>
    strBytes "<pre><code" ++
      (if info.isEmpty then [] else strBytes " class=\"language-" ++ GM.write false (info.takeWhile (· != 32)) ++ [34]) ++
      [62] ++ lines.flatMap (fun l => GM.rawWrite (l ++ [10])) ++ strBytes "</code></pre>\n"
  | .icode lines =>
    strBytes "<pre><code>" ++ lines.flatMap (fun l => GM.rawWrite (l ++ [10])) ++ strBytes "</code></pre>\n"

def hdocHtml (bs : List Raw5) : Bytes := bs.flatMap rawHtml5

/-- the renderer options component `cmspec` configures goldmark with: `html.WithUnsafe()`, `html.WithXHTML()` -/
def cmOpts : GM.Convert.ROpts := { unsafe_ := true, xhtml := true, hardWraps := false }

end GM.Proof.CMFrag
