/-
  GM.Proof.CMFragSpecQ — the stage-10 fragment of GM.Spec.CMFrag (a stage-6 document inside one block quote) agrees
  with the spec model GM.Spec.CommonMark through `qembed`: `expectedQ_eq_expected` (prescribed HTML).
  (`quoteLines_eq`, the link to the model-side `quotePrefix`, is in GM.Proof.CMFragRenderQ.)
-/
import GM.Proof.CMFragSpec6
namespace GM.Proof.CMFrag
open GM GM.Spec.CM GM.Spec.CMFrag

theorem quoteOpenQ : strBytes "<blockquote>\n" = [60] ++ strBytes "blockquote" ++ [] ++ [62] ++ [10] := by
  decide +kernel

theorem quoteCloseQ : strBytes "</blockquote>\n" = [60, 47] ++ strBytes "blockquote" ++ [62] ++ [10] := by
  decide +kernel

/-- Q1: the prescribed HTML -/
theorem expectedQ_eq_expected (d : KDoc) (h : KFrag d) : expectedQ d = expected (qembed d) := by
  have hk := expectedK_eq_expected d h
  rw [expected, expectedPieces] at hk
  rw [expected, expectedPieces, qembed, expectedQ, hk]
  simp only [expBs, expB, wrap, nl, List.append_nil]
  rw [List.cons_append, List.cons_append]
  simp only [render, List.flatMap_cons, List.flatMap_append, List.flatMap_nil, renderPiece, quoteOpenQ, quoteCloseQ,
    List.append_assoc, List.append_nil]

end GM.Proof.CMFrag
