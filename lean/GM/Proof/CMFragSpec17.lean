/-
  GM.Proof.CMFragSpec17 — the stage-17 fragment (paragraphs whose lines contain images `![t](d)`) of GM.Spec.CMFrag
  inside the spec model GM.Spec.CommonMark:
  * `expectedImg_eq_expected`: the prescribed HTML of a stage-17 document is `expected` of the embedded document (the
    reference renderer writes `<img src="…" alt="…" />` with the plain text of the description as `alt`);
  * `spellImg_eq_spell`: for a NON-EMPTY stage-17 document without extra blank lines the source is `spell` of the
    embedded document, byte for byte.
-/
import GM.Proof.CMFragSpec16
namespace GM.Proof.CMFrag
open GM GM.Spec.CM GM.Spec.CMFrag

/-- what `imgatomOKS` says about an image -/
theorem imgatomOKS_img_s17 (t d : Bytes) (h : imgatomOKS (.img t d) = true) :
    (t ≠ [] ∧ ∀ c ∈ t, isAlnumC c = true) ∧ (d ≠ [] ∧ ∀ c ∈ d, isDestC c = true) := by
  simp only [imgatomOKS, Bool.and_eq_true, Bool.not_eq_true', List.isEmpty_eq_false_iff, List.all_eq_true] at h
  exact ⟨⟨h.1.1.1, h.1.1.2⟩, ⟨h.1.2, h.2⟩⟩

theorem plain_elits_s17 (c : Bytes) : plain (elits c) = c := by
  induction c with
  | nil => rfl
  | cons x rest ih =>
    simp only [plain, elits, List.map_cons] at ih ⊢
    rw [ih]

/-! ### S1: prescribed HTML -/

theorem render_expI_atom17 (a : ImgAtomS) (h : imgatomOKS a = true) : render (expI (imgembedAtom a)) = expImgAtom a := by
  cases a with
  | txt cs => simp [imgembedAtom, expI, render, renderPiece, expImgAtom]
  | img t d =>
    obtain ⟨⟨_, ht⟩, ⟨_, hd⟩⟩ := imgatomOKS_img_s17 t d h
    have hp : plainIs [.text (elits t)] = t := by simp [plainIs, plainI, plain_elits_s17]
    have h1 : strBytes "<img src=\"" = [60] ++ strBytes "img" ++ ([32] ++ strBytes "src" ++ strBytes "=\"") := by
      decide +kernel
    have h2 : strBytes "\" alt=\"" = [34] ++ ([32] ++ strBytes "alt" ++ strBytes "=\"") := by decide +kernel
    have h3 : strBytes "\" />" = [34] ++ strBytes " />" := by decide +kernel
    rw [imgembedAtom, expI, urlEnc_dest_s16 d hd, escHtml_dest_s16 d hd, hp, escHtml_alnum_s16 t ht]
    simp only [titleAttr, List.append_nil]
    rw [expImgAtom, h1, h2, h3]
    simp [render, renderPiece, attr]

theorem render_expIs_line17 (l : ImgLine) (h : ∀ a ∈ l, imgatomOKS a = true) :
    render (expIs (l.map imgembedAtom)) = expImgLine l := by
  induction l with
  | nil => simp [expIs, render, expImgLine]
  | cons a rest ih =>
    rw [List.map_cons, expIs, render_append, ih (fun x hx => h x (by simp [hx])),
      render_expI_atom17 a (h a (by simp))]
    simp [expImgLine]

theorem render_expIs_imgembedLines17 (ls : List ImgLine) (h : ∀ l ∈ ls, ∀ a ∈ l, imgatomOKS a = true) :
    render (expIs (imgembedLines ls)) = GM.Spec.CMFrag.joinNl (ls.map expImgLine) := by
  induction ls with
  | nil => simp [imgembedLines, expIs, render, GM.Spec.CMFrag.joinNl]
  | cons l rest ih =>
    cases rest with
    | nil => simp [imgembedLines, GM.Spec.CMFrag.joinNl, render_expIs_line17 l (h l (by simp))]
    | cons l' rest =>
      have e : imgembedLines (l :: l' :: rest) = l.map imgembedAtom ++ .softBreak :: imgembedLines (l' :: rest) := rfl
      rw [e, expIs_append11, render_append, render_expIs_line17 l (h l (by simp)), expIs, render_append,
        ih (fun x hx => h x (by simp [hx]))]
      simp [expI, render, renderPiece, nl, GM.Spec.CMFrag.joinNl]

theorem render_expB_imgpara17 (ls : List ImgLine) (g : Nat) (h : ∀ l ∈ ls, ∀ a ∈ l, imgatomOKS a = true) :
    render (expB false false (.para {} (imgembedLines ls) 0)) = expImgItem ⟨g, ls⟩ := by
  rw [expB]
  simp only [wrap, Bool.false_eq_true, if_false, List.cons_append]
  have h1 : strBytes "<p>" = [60] ++ strBytes "p" ++ [62] := by decide +kernel
  have h2 : strBytes "</p>\n" = [60, 47] ++ strBytes "p" ++ [62] ++ [10] := by decide +kernel
  rw [expImgItem, h1, h2, ← render_expIs_imgembedLines17 ls h]
  simp [render, renderPiece, nl]

theorem imglineOKS_atoms_s17 (l : ImgLine) (h : imglineOKS l = true) : ∀ a ∈ l, imgatomOKS a = true := by
  simp only [imglineOKS, Bool.and_eq_true, List.all_eq_true] at h
  exact h.2

theorem imgitemOKS_parts17 (it : ImgItem) (h : imgitemOKS it = true) : it.lines ≠ [] ∧ ∀ l ∈ it.lines, imglineOKS l = true := by
  simp only [imgitemOKS, Bool.and_eq_true, Bool.not_eq_true', List.isEmpty_eq_false_iff, List.all_eq_true] at h
  exact h

theorem render_expBs_imgembed17 (its : List ImgItem) (hok : ∀ it ∈ its, imgitemOKS it = true) :
    render (expBs false false (its.map fun it => .para {} (imgembedLines it.lines) 0)) = its.flatMap expImgItem := by
  induction its with
  | nil => simp [expBs, render]
  | cons it rest ih =>
    have hit := (imgitemOKS_parts17 it (hok it (by simp))).2
    obtain ⟨g, ls⟩ := it
    rw [List.map_cons, expBs, render_append, ih (fun x hx => hok x (by simp [hx]))]
    simp [render_expB_imgpara17 ls g (fun l hl => imglineOKS_atoms_s17 l (hit l hl))]

/-- S1 -/
theorem expectedImg_eq_expected (d : ImgDoc) (h : ImgFrag d) : expectedImg d = expected (imgembed d) := by
  have hok : ∀ it ∈ d.items, imgitemOKS it = true := by
    have := h; simp only [ImgFrag, imgfragB, List.all_eq_true] at this; exact this
  rw [expected, expectedPieces, imgembed, expectedImg, render_expBs_imgembed17 _ hok]

/-! ### S2: source -/

/-! #### `spellIs` on text, images and soft breaks: no dependence on the neighbours -/

def simple17 : Inline → Bool
  | .text _ => true
  | .image .. => true
  | .softBreak => true
  | _ => false

theorem spellI_simple17 (x : Inline) (h : simple17 x = true) (pa na : Bool) : spellI pa na x = spellI false false x := by
  cases x with
  | text _ => simp only [spellI]
  | image _ _ _ _ _ => simp only [spellI]
  | softBreak => simp only [spellI]
  | _ => cases h

theorem spellIs_simple17 (ks : List Inline) (h : ∀ x ∈ ks, simple17 x = true) (pa : Bool) :
    spellIs pa ks = ks.flatMap (spellI false false) := by
  induction ks generalizing pa with
  | nil => simp [spellIs]
  | cons x rest ih =>
    simp only [spellIs]
    rw [spellI_simple17 x (h x (by simp)), ih (fun y hy => h y (by simp [hy]))]
    simp

theorem simple_imgembedAtom17 (a : ImgAtomS) : simple17 (imgembedAtom a) = true := by cases a <;> rfl

theorem simple_imgembedLines17 (ls : List ImgLine) : ∀ x ∈ imgembedLines ls, simple17 x = true := by
  induction ls with
  | nil => simp [imgembedLines]
  | cons l rest ih =>
    cases rest with
    | nil =>
      intro x hx
      simp only [imgembedLines, List.mem_map] at hx
      obtain ⟨a, _, rfl⟩ := hx
      exact simple_imgembedAtom17 a
    | cons l' rest =>
      have e : imgembedLines (l :: l' :: rest) = l.map imgembedAtom ++ .softBreak :: imgembedLines (l' :: rest) := rfl
      intro x hx
      rw [e] at hx
      rcases List.mem_append.mp hx with hx | hx
      · obtain ⟨a, _, rfl⟩ := List.mem_map.mp hx
        exact simple_imgembedAtom17 a
      · rcases List.mem_cons.mp hx with rfl | hx
        · rfl
        · exact ih x hx

theorem spellI_imgembedAtom17 (a : ImgAtomS) (h : imgatomOKS a = true) : spellI false false (imgembedAtom a) = spellImgAtom a := by
  cases a with
  | txt cs => simp only [imgembedAtom, spellI, spellImgAtom]
  | img t d =>
    obtain ⟨⟨_, ht⟩, ⟨hdne, hd⟩⟩ := imgatomOKS_img_s17 t d h
    simp [imgembedAtom, spellI, spellIs, spellImgAtom, spellLinkTail, escSpell_elits_s11 t ht,
      spellDest_dest_s16 d hdne hd]

theorem flat_line17 (l : ImgLine) (h : ∀ a ∈ l, imgatomOKS a = true) :
    (l.map imgembedAtom).flatMap (spellI false false) = spellImgLine l := by
  induction l with
  | nil => rfl
  | cons a rest ih =>
    simp only [List.map_cons, List.flatMap_cons, spellImgLine] at ih ⊢
    rw [spellI_imgembedAtom17 a (h a (by simp)), ih (fun x hx => h x (by simp [hx]))]

theorem flat_imgembedLines17 (ls : List ImgLine) (h : ∀ l ∈ ls, ∀ a ∈ l, imgatomOKS a = true) :
    (imgembedLines ls).flatMap (spellI false false) = GM.Spec.CMFrag.joinNl (ls.map spellImgLine) := by
  induction ls with
  | nil => simp [imgembedLines, GM.Spec.CMFrag.joinNl]
  | cons l rest ih =>
    cases rest with
    | nil => simp [imgembedLines, GM.Spec.CMFrag.joinNl, flat_line17 l (h l (by simp))]
    | cons l' rest =>
      have e : imgembedLines (l :: l' :: rest) = l.map imgembedAtom ++ .softBreak :: imgembedLines (l' :: rest) := rfl
      rw [e, List.flatMap_append, List.flatMap_cons, flat_line17 l (h l (by simp)),
        ih (fun x hx => h x (by simp [hx]))]
      simp [spellI, GM.Spec.CMFrag.joinNl]

theorem spellIs_imgembedLines17 (ls : List ImgLine) (h : ∀ l ∈ ls, ∀ a ∈ l, imgatomOKS a = true) (pa : Bool) :
    spellIs pa (imgembedLines ls) = GM.Spec.CMFrag.joinNl (ls.map spellImgLine) := by
  rw [spellIs_simple17 _ (simple_imgembedLines17 ls), flat_imgembedLines17 ls h]

/-! #### the lines of a document -/

theorem spellImgAtom_printable17 (a : ImgAtomS) (h : imgatomOKS a = true) : (spellImgAtom a).all printable = true := by
  cases a with
  | txt cs =>
    simp only [imgatomOKS, Bool.and_eq_true, List.all_eq_true] at h
    exact escSpell_printable cs (fun t ht => charOK_printable t (h.2 t ht))
  | img t d =>
    obtain ⟨⟨_, ht⟩, ⟨_, hd⟩⟩ := imgatomOKS_img_s17 t d h
    simp only [spellImgAtom, List.all_append, Bool.and_eq_true, List.all_eq_true]
    refine ⟨⟨⟨⟨by decide, fun x hx => (alnum_facts8 x (ht x hx)).2.2⟩, by decide⟩,
      fun x hx => (destC_facts_s16 x (hd x hx)).2.2.2.2.1⟩, by decide⟩

theorem spellImgLine_printable17 (l : ImgLine) (h : imglineOKS l = true) : ∀ c ∈ spellImgLine l, printable c = true := by
  intro c hc
  simp only [spellImgLine, List.mem_flatMap] at hc
  obtain ⟨a, ha, hca⟩ := hc
  exact List.all_eq_true.mp (spellImgAtom_printable17 a (imglineOKS_atoms_s17 l h a ha)) c hca

theorem paraLines_imgembed17 (ls : List ImgLine) (hne : ls ≠ []) (hok : ∀ l ∈ ls, imglineOKS l = true) :
    (paraLines 0 0 (spellIs false (imgembedLines ls))).map (renderLine 0 0 0 0) = ls.map spellImgLine := by
  have hpr : ∀ b ∈ ls.map spellImgLine, ∀ c ∈ b, printable c = true := by
    intro b hb c hc
    obtain ⟨l, hl, rfl⟩ := List.mem_map.mp hb
    exact spellImgLine_printable17 l (hok l hl) c hc
  have hsplit := splitLines_joinNl (ls.map spellImgLine) (by simpa using hne)
    (fun b hb c hc => (printable_facts c (hpr b hb c hc)).1)
  rw [paraLines, spellIs_imgembedLines17 ls (fun l hl => imglineOKS_atoms_s17 l (hok l hl)), hsplit]
  cases hls : ls.map spellImgLine with
  | nil => simp at hls; exact absurd hls hne
  | cons f rest =>
    rw [hls] at hpr
    simp only [List.map_cons, List.map_map]
    congr 1
    · exact renderLine_plain f (fun c hc => (printable_facts c (hpr f (by simp) c hc)).2)
    · conv => rhs; rw [← List.map_id rest]
      apply List.map_congr_left
      intro b hb
      exact renderLine_plain b (fun c hc => (printable_facts c (hpr b (by simp [hb]) c hc)).2)

/-- the source lines of the items (a blank line in front of every item but the first) -/
def docLinesImg17 (first : Bool) : List ImgItem → List Bytes
  | [] => []
  | it :: rest => (if first then [] else [[]]) ++ it.lines.map spellImgLine ++ docLinesImg17 false rest

theorem spellBs_imgembed17 (its : List ImgItem) (hok : ∀ it ∈ its, imgitemOKS it = true) (prev pm : Nat) :
    (spellBs false false prev pm (its.map fun it => .para {} (imgembedLines it.lines) 0)).map (renderLine 0 0 0 0) =
      docLinesImg17 (prev == 0) its := by
  induction its generalizing prev pm with
  | nil => simp [spellBs, docLinesImg17]
  | cons it rest ih =>
    obtain ⟨hne, hls⟩ := imgitemOKS_parts17 it (hok it (by simp))
    have hp := paraLines_imgembed17 it.lines hne hls
    have ih' := ih (fun x hx => hok x (by simp [hx])) 1 0
    rw [List.map_cons, spellBs_para, List.map_append, List.map_append, hp, ih', docLinesImg17]
    by_cases h0 : prev = 0
    · subst h0; simp
    · have : (prev == 0) = false := by simpa using h0
      simp [this, renderLine_blank]

theorem docLinesImg_flatMap17 (its : List ImgItem) (hg : ∀ it ∈ its, it.gap = 0) (first : Bool) :
    (docLinesImg17 first its).flatMap (· ++ [10]) = spellImgItems first its := by
  induction its generalizing first with
  | nil => simp [docLinesImg17, spellImgItems]
  | cons it rest ih =>
    obtain ⟨g, ls⟩ := it
    have hg0 : g = 0 := hg ⟨g, ls⟩ (by simp)
    subst hg0
    rw [docLinesImg17, spellImgItems, List.flatMap_append, List.flatMap_append, ih (fun x hx => hg x (by simp [hx]))]
    cases first
    · simp [blanks, List.flatMap_map]
    · simp [blanks, List.flatMap_map]

theorem docLinesImg_ne17 (it : ImgItem) (rest : List ImgItem) (h : imgitemOKS it = true) :
    docLinesImg17 true (it :: rest) ≠ [] := by
  obtain ⟨hne, _⟩ := imgitemOKS_parts17 it h
  obtain ⟨g, ls⟩ := it
  cases ls with
  | nil => exact absurd rfl hne
  | cons l ls => simp [docLinesImg17]

/-- S2: a non-empty stage-17 document without extra blank lines is spelled byte for byte like the embedded one -/
theorem spellImg_eq_spell (d : ImgDoc) (h : ImgFrag d) (hb : imgnoExtraBlanks d = true) (hne : d.items ≠ []) :
    spellImg d = spell (imgembed d) := by
  obtain ⟨items, trail⟩ := d
  simp only [imgnoExtraBlanks, Bool.and_eq_true, beq_iff_eq, List.all_eq_true] at hb
  obtain ⟨ht, hg⟩ := hb
  simp only at ht hne; subst ht
  have hok : ∀ it ∈ items, imgitemOKS it = true := by
    have := h; simp only [ImgFrag, imgfragB, List.all_eq_true] at this; exact this
  have hl := spellBs_imgembed17 items hok 0 0
  cases items with
  | nil => exact absurd rfl hne
  | cons it rest =>
    have hdn := docLinesImg_ne17 it rest (hok it (by simp))
    simp only [spell, imgembed, spellImg, blanks, List.replicate_zero, List.append_nil, if_true]
    rw [hl]
    simp only [beq_self_eq_true]
    rw [joinLines_flatMap _ hdn, docLinesImg_flatMap17 _ hg]

end GM.Proof.CMFrag
