import GM.Model.Util
import GM.Spec.Html

namespace GM.Proof
open GM GM.Spec

theorem escByte_cases (c : UInt8) :
    (c = 34 ∧ escByte c = [38, 113, 117, 111, 116, 59]) ∨ (c = 38 ∧ escByte c = [38, 97, 109, 112, 59]) ∨
    (c = 60 ∧ escByte c = [38, 108, 116, 59]) ∨ (c = 62 ∧ escByte c = [38, 103, 116, 59]) ∨
    (c ≠ 34 ∧ c ≠ 38 ∧ c ≠ 60 ∧ c ≠ 62 ∧ escByte c = [c]) := by
  revert c; apply forall_uint8; decide +kernel

theorem escapeHTML_cons (c : UInt8) (v : Bytes) : escapeHTML (c :: v) = escByte c ++ escapeHTML v := by
  simp [escapeHTML]

theorem escapeHTML_noRaw (v : Bytes) : noRawSpecial (escapeHTML v) = true := by
  induction v with
  | nil => rfl
  | cons c v ih =>
    rw [escapeHTML_cons]
    unfold noRawSpecial at *
    rw [List.all_append, ih]
    rcases escByte_cases c with ⟨_, h⟩ | ⟨_, h⟩ | ⟨_, h⟩ | ⟨_, h⟩ | ⟨h1, h2, h3, h4, h⟩ <;> rw [h]
    all_goals try decide
    simp [h1, h3, h4]

theorem decode_escapeHTML (v : Bytes) : htmlDecode4 (escapeHTML v) = v := by
  induction v with
  | nil => rfl
  | cons c v ih =>
    rw [escapeHTML_cons]
    rcases escByte_cases c with ⟨hc, h⟩ | ⟨hc, h⟩ | ⟨hc, h⟩ | ⟨hc, h⟩ | ⟨h1, h2, h3, h4, h⟩ <;> rw [h]
    · simp [htmlDecode4, ih, hc]
    · simp [htmlDecode4, ih, hc]
    · simp [htmlDecode4, ih, hc]
    · simp [htmlDecode4, ih, hc]
    · show htmlDecode4 (c :: escapeHTML v) = c :: v
      rw [htmlDecode4.eq_def]
      split <;> simp_all

theorem escapeHTML_amps (v : Bytes) : ampsOK4 (escapeHTML v) = true := by
  induction v with
  | nil => rfl
  | cons c v ih =>
    rw [escapeHTML_cons]
    rcases escByte_cases c with ⟨hc, h⟩ | ⟨hc, h⟩ | ⟨hc, h⟩ | ⟨hc, h⟩ | ⟨h1, h2, h3, h4, h⟩ <;> rw [h]
    · simp [ampsOK4, startsWith, ih]
    · simp [ampsOK4, startsWith, ih]
    · simp [ampsOK4, startsWith, ih]
    · simp [ampsOK4, startsWith, ih]
    · simp [ampsOK4, ih, h2]

end GM.Proof
