/-
  GM.Proof.CMFragSpec19 — the stage-19 fragment (paragraphs whose lines contain raw HTML tags `<n>` / `</n>`) of
  GM.Spec.CMFrag inside the spec model GM.Spec.CommonMark:
  * `expectedH19_eq_expected`: the prescribed HTML of a stage-19 document is `expected` of the embedded document (raw
    inline HTML is rendered as it is);
  * `spellH19_eq_spell`: for a NON-EMPTY stage-19 document without extra blank lines the source is `spell` of the
    embedded document, byte for byte.
-/
import GM.Proof.CMFragSpec16
namespace GM.Proof.CMFrag
open GM GM.Spec.CM GM.Spec.CMFrag

/-- the bytes of a tag name are letters and digits -/
theorem tagName_alnum_s19 (n : Bytes) (h : tagNameOK19 n = true) : ∀ c ∈ n, isAlnumC c = true := by
  cases n with
  | nil => cases h
  | cons c rest =>
    simp only [tagNameOK19, Bool.and_eq_true, List.all_eq_true] at h
    intro x hx
    rcases List.mem_cons.mp hx with rfl | hx
    · simp [isAlnumC, h.1]
    · exact h.2 x hx

/-! ### S1: prescribed HTML -/

theorem render_expI_atom19 (a : H19AtomS) (_h : h19atomOKS a = true) : render (expI (h19embedAtom a)) = expH19Atom a := by
  cases a with
  | txt cs => simp [h19embedAtom, expI, render, renderPiece, expH19Atom]
  | «open» n => simp [h19embedAtom, expI, render, renderPiece, expH19Atom]
  | close n => simp [h19embedAtom, expI, render, renderPiece, expH19Atom]

theorem render_expIs_line19 (l : H19Line) (h : ∀ a ∈ l, h19atomOKS a = true) :
    render (expIs (l.map h19embedAtom)) = expH19Line l := by
  induction l with
  | nil => simp [expIs, render, expH19Line]
  | cons a rest ih =>
    rw [List.map_cons, expIs, render_append, ih (fun x hx => h x (by simp [hx])),
      render_expI_atom19 a (h a (by simp))]
    simp [expH19Line]

theorem render_expIs_h19embedLines19 (ls : List H19Line) (h : ∀ l ∈ ls, ∀ a ∈ l, h19atomOKS a = true) :
    render (expIs (h19embedLines ls)) = GM.Spec.CMFrag.joinNl (ls.map expH19Line) := by
  induction ls with
  | nil => simp [h19embedLines, expIs, render, GM.Spec.CMFrag.joinNl]
  | cons l rest ih =>
    cases rest with
    | nil => simp [h19embedLines, GM.Spec.CMFrag.joinNl, render_expIs_line19 l (h l (by simp))]
    | cons l' rest =>
      have e : h19embedLines (l :: l' :: rest) = l.map h19embedAtom ++ .softBreak :: h19embedLines (l' :: rest) := rfl
      rw [e, expIs_append11, render_append, render_expIs_line19 l (h l (by simp)), expIs, render_append,
        ih (fun x hx => h x (by simp [hx]))]
      simp [expI, render, renderPiece, nl, GM.Spec.CMFrag.joinNl]

theorem render_expB_hpara19 (ls : List H19Line) (g : Nat) (h : ∀ l ∈ ls, ∀ a ∈ l, h19atomOKS a = true) :
    render (expB false false (.para {} (h19embedLines ls) 0)) = expH19Item ⟨g, ls⟩ := by
  rw [expB]
  simp only [wrap, Bool.false_eq_true, if_false, List.cons_append]
  have h1 : strBytes "<p>" = [60] ++ strBytes "p" ++ [62] := by decide +kernel
  have h2 : strBytes "</p>\n" = [60, 47] ++ strBytes "p" ++ [62] ++ [10] := by decide +kernel
  rw [expH19Item, h1, h2, ← render_expIs_h19embedLines19 ls h]
  simp [render, renderPiece, nl]

theorem h19lineOKS_atoms_s19 (l : H19Line) (h : h19lineOKS l = true) : ∀ a ∈ l, h19atomOKS a = true := by
  simp only [h19lineOKS, Bool.and_eq_true, List.all_eq_true] at h
  exact h.2

theorem h19itemOKS_parts19 (it : H19Item) (h : h19itemOKS it = true) : it.lines ≠ [] ∧ ∀ l ∈ it.lines, h19lineOKS l = true := by
  simp only [h19itemOKS, Bool.and_eq_true, Bool.not_eq_true', List.isEmpty_eq_false_iff, List.all_eq_true] at h
  exact h

theorem render_expBs_h19embed19 (its : List H19Item) (hok : ∀ it ∈ its, h19itemOKS it = true) :
    render (expBs false false (its.map fun it => .para {} (h19embedLines it.lines) 0)) = its.flatMap expH19Item := by
  induction its with
  | nil => simp [expBs, render]
  | cons it rest ih =>
    have hit := (h19itemOKS_parts19 it (hok it (by simp))).2
    obtain ⟨g, ls⟩ := it
    rw [List.map_cons, expBs, render_append, ih (fun x hx => hok x (by simp [hx]))]
    simp [render_expB_hpara19 ls g (fun l hl => h19lineOKS_atoms_s19 l (hit l hl))]

/-- S1 -/
theorem expectedH19_eq_expected (d : H19Doc) (h : H19Frag d) : expectedH19 d = expected (h19embed d) := by
  have hok : ∀ it ∈ d.items, h19itemOKS it = true := by
    have := h; simp only [H19Frag, h19fragB, List.all_eq_true] at this; exact this
  rw [expected, expectedPieces, h19embed, expectedH19, render_expBs_h19embed19 _ hok]

/-! ### S2: source -/

/-! #### `spellIs` on text, raw HTML tags and soft breaks: no dependence on the neighbours -/

def simple19 : Inline → Bool
  | .text _ => true
  | .rawHtml _ => true
  | .softBreak => true
  | _ => false

theorem spellI_simple19 (x : Inline) (h : simple19 x = true) (pa na : Bool) : spellI pa na x = spellI false false x := by
  cases x with
  | text _ => simp only [spellI]
  | rawHtml _ => simp only [spellI]
  | softBreak => simp only [spellI]
  | _ => cases h

theorem spellIs_simple19 (ks : List Inline) (h : ∀ x ∈ ks, simple19 x = true) (pa : Bool) :
    spellIs pa ks = ks.flatMap (spellI false false) := by
  induction ks generalizing pa with
  | nil => simp [spellIs]
  | cons x rest ih =>
    simp only [spellIs]
    rw [spellI_simple19 x (h x (by simp)), ih (fun y hy => h y (by simp [hy]))]
    simp

theorem simple_h19embedAtom19 (a : H19AtomS) : simple19 (h19embedAtom a) = true := by cases a <;> rfl

theorem simple_h19embedLines19 (ls : List H19Line) : ∀ x ∈ h19embedLines ls, simple19 x = true := by
  induction ls with
  | nil => simp [h19embedLines]
  | cons l rest ih =>
    cases rest with
    | nil =>
      intro x hx
      simp only [h19embedLines, List.mem_map] at hx
      obtain ⟨a, _, rfl⟩ := hx
      exact simple_h19embedAtom19 a
    | cons l' rest =>
      have e : h19embedLines (l :: l' :: rest) = l.map h19embedAtom ++ .softBreak :: h19embedLines (l' :: rest) := rfl
      intro x hx
      rw [e] at hx
      rcases List.mem_append.mp hx with hx | hx
      · obtain ⟨a, _, rfl⟩ := List.mem_map.mp hx
        exact simple_h19embedAtom19 a
      · rcases List.mem_cons.mp hx with rfl | hx
        · rfl
        · exact ih x hx

theorem spellI_h19embedAtom19 (a : H19AtomS) (_h : h19atomOKS a = true) :
    spellI false false (h19embedAtom a) = spellH19Atom a := by
  cases a with
  | txt cs => simp only [h19embedAtom, spellI, spellH19Atom]
  | «open» n => simp only [h19embedAtom, spellI, spellH19Atom]
  | close n => simp only [h19embedAtom, spellI, spellH19Atom]

theorem flat_line19 (l : H19Line) (h : ∀ a ∈ l, h19atomOKS a = true) :
    (l.map h19embedAtom).flatMap (spellI false false) = spellH19Line l := by
  induction l with
  | nil => rfl
  | cons a rest ih =>
    simp only [List.map_cons, List.flatMap_cons, spellH19Line] at ih ⊢
    rw [spellI_h19embedAtom19 a (h a (by simp)), ih (fun x hx => h x (by simp [hx]))]

theorem flat_h19embedLines19 (ls : List H19Line) (h : ∀ l ∈ ls, ∀ a ∈ l, h19atomOKS a = true) :
    (h19embedLines ls).flatMap (spellI false false) = GM.Spec.CMFrag.joinNl (ls.map spellH19Line) := by
  induction ls with
  | nil => simp [h19embedLines, GM.Spec.CMFrag.joinNl]
  | cons l rest ih =>
    cases rest with
    | nil => simp [h19embedLines, GM.Spec.CMFrag.joinNl, flat_line19 l (h l (by simp))]
    | cons l' rest =>
      have e : h19embedLines (l :: l' :: rest) = l.map h19embedAtom ++ .softBreak :: h19embedLines (l' :: rest) := rfl
      rw [e, List.flatMap_append, List.flatMap_cons, flat_line19 l (h l (by simp)),
        ih (fun x hx => h x (by simp [hx]))]
      simp [spellI, GM.Spec.CMFrag.joinNl]

theorem spellIs_h19embedLines19 (ls : List H19Line) (h : ∀ l ∈ ls, ∀ a ∈ l, h19atomOKS a = true) (pa : Bool) :
    spellIs pa (h19embedLines ls) = GM.Spec.CMFrag.joinNl (ls.map spellH19Line) := by
  rw [spellIs_simple19 _ (simple_h19embedLines19 ls), flat_h19embedLines19 ls h]

/-! #### the lines of a document -/

theorem spellH19Atom_printable19 (a : H19AtomS) (h : h19atomOKS a = true) : (spellH19Atom a).all printable = true := by
  cases a with
  | txt cs =>
    simp only [h19atomOKS, Bool.and_eq_true, List.all_eq_true] at h
    exact escSpell_printable cs (fun t ht => charOK_printable t (h.2 t ht))
  | «open» n =>
    have hn := tagName_alnum_s19 n h
    simp only [spellH19Atom, tagBytes19, List.all_append, Bool.and_eq_true, List.all_eq_true]
    exact ⟨⟨by decide, fun x hx => (alnum_facts8 x (hn x hx)).2.2⟩, by decide⟩
  | close n =>
    have hn := tagName_alnum_s19 n h
    simp only [spellH19Atom, tagBytes19, List.all_append, Bool.and_eq_true, List.all_eq_true]
    exact ⟨⟨by decide, fun x hx => (alnum_facts8 x (hn x hx)).2.2⟩, by decide⟩

theorem spellH19Line_printable19 (l : H19Line) (h : h19lineOKS l = true) : ∀ c ∈ spellH19Line l, printable c = true := by
  intro c hc
  simp only [spellH19Line, List.mem_flatMap] at hc
  obtain ⟨a, ha, hca⟩ := hc
  exact List.all_eq_true.mp (spellH19Atom_printable19 a (h19lineOKS_atoms_s19 l h a ha)) c hca

theorem paraLines_h19embed19 (ls : List H19Line) (hne : ls ≠ []) (hok : ∀ l ∈ ls, h19lineOKS l = true) :
    (paraLines 0 0 (spellIs false (h19embedLines ls))).map (renderLine 0 0 0 0) = ls.map spellH19Line := by
  have hpr : ∀ b ∈ ls.map spellH19Line, ∀ c ∈ b, printable c = true := by
    intro b hb c hc
    obtain ⟨l, hl, rfl⟩ := List.mem_map.mp hb
    exact spellH19Line_printable19 l (hok l hl) c hc
  have hsplit := splitLines_joinNl (ls.map spellH19Line) (by simpa using hne)
    (fun b hb c hc => (printable_facts c (hpr b hb c hc)).1)
  rw [paraLines, spellIs_h19embedLines19 ls (fun l hl => h19lineOKS_atoms_s19 l (hok l hl)), hsplit]
  cases hls : ls.map spellH19Line with
  | nil => simp at hls; exact absurd hls hne
  | cons f rest =>
    rw [hls] at hpr
    simp only [List.map_cons, List.map_map]
    congr 1
    · exact renderLine_plain f (fun c hc => (printable_facts c (hpr f (by simp) c hc)).2)
    · conv => rhs; rw [← List.map_id rest]
      apply List.map_congr_left
      intro b hb
      exact renderLine_plain b (fun c hc => (printable_facts c (hpr b (by simp [hb]) c hc)).2)

/-- the source lines of the items (a blank line in front of every item but the first) -/
def docLinesH19 (first : Bool) : List H19Item → List Bytes
  | [] => []
  | it :: rest => (if first then [] else [[]]) ++ it.lines.map spellH19Line ++ docLinesH19 false rest

theorem spellBs_h19embed19 (its : List H19Item) (hok : ∀ it ∈ its, h19itemOKS it = true) (prev pm : Nat) :
    (spellBs false false prev pm (its.map fun it => .para {} (h19embedLines it.lines) 0)).map (renderLine 0 0 0 0) =
      docLinesH19 (prev == 0) its := by
  induction its generalizing prev pm with
  | nil => simp [spellBs, docLinesH19]
  | cons it rest ih =>
    obtain ⟨hne, hls⟩ := h19itemOKS_parts19 it (hok it (by simp))
    have hp := paraLines_h19embed19 it.lines hne hls
    have ih' := ih (fun x hx => hok x (by simp [hx])) 1 0
    rw [List.map_cons, spellBs_para, List.map_append, List.map_append, hp, ih', docLinesH19]
    by_cases h0 : prev = 0
    · subst h0; simp
    · have : (prev == 0) = false := by simpa using h0
      simp [this, renderLine_blank]

theorem docLinesH_flatMap19 (its : List H19Item) (hg : ∀ it ∈ its, it.gap = 0) (first : Bool) :
    (docLinesH19 first its).flatMap (· ++ [10]) = spellH19Items first its := by
  induction its generalizing first with
  | nil => simp [docLinesH19, spellH19Items]
  | cons it rest ih =>
    obtain ⟨g, ls⟩ := it
    have hg0 : g = 0 := hg ⟨g, ls⟩ (by simp)
    subst hg0
    rw [docLinesH19, spellH19Items, List.flatMap_append, List.flatMap_append, ih (fun x hx => hg x (by simp [hx]))]
    cases first
    · simp [blanks, List.flatMap_map]
    · simp [blanks, List.flatMap_map]

theorem docLinesH_ne19 (it : H19Item) (rest : List H19Item) (h : h19itemOKS it = true) :
    docLinesH19 true (it :: rest) ≠ [] := by
  obtain ⟨hne, _⟩ := h19itemOKS_parts19 it h
  obtain ⟨g, ls⟩ := it
  cases ls with
  | nil => exact absurd rfl hne
  | cons l ls => simp [docLinesH19]

/-- S2: a non-empty stage-19 document without extra blank lines is spelled byte for byte like the embedded one -/
theorem spellH19_eq_spell (d : H19Doc) (h : H19Frag d) (hb : h19noExtraBlanks d = true) (hne : d.items ≠ []) :
    spellH19 d = spell (h19embed d) := by
  obtain ⟨items, trail⟩ := d
  simp only [h19noExtraBlanks, Bool.and_eq_true, beq_iff_eq, List.all_eq_true] at hb
  obtain ⟨ht, hg⟩ := hb
  simp only at ht hne; subst ht
  have hok : ∀ it ∈ items, h19itemOKS it = true := by
    have := h; simp only [H19Frag, h19fragB, List.all_eq_true] at this; exact this
  have hl := spellBs_h19embed19 items hok 0 0
  cases items with
  | nil => exact absurd rfl hne
  | cons it rest =>
    have hdn := docLinesH_ne19 it rest (hok it (by simp))
    simp only [spell, h19embed, spellH19, blanks, List.replicate_zero, List.append_nil, if_true]
    rw [hl]
    simp only [beq_self_eq_true]
    rw [joinLines_flatMap _ hdn, docLinesH_flatMap19 _ hg]

end GM.Proof.CMFrag
