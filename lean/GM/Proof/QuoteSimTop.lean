/-
  GM.Proof.QuoteSimTop — assembling the simulation: the parser lemmas (all parsers except list / list item), the
  unary facts about run A, the line-by-line induction and the conclusion on the two final block trees.
-/
import GM.Proof.QuoteSimMain
import GM.Proof.QuoteSimFirst
import GM.Proof.QuoteSimShape
import GM.Proof.QuoteSimCode
import GM.Proof.QuoteSimFenced
import GM.Proof.QuoteSimSetext
import GM.Proof.QuoteSimHtml
import GM.Proof.QuoteSimList
import GM.Proof.QuoteSimNonePos
import GM.Proof.QuoteSimFinal
import GM.Proof.QuoteSimOpens
import GM.Proof.QuoteSimInvP
import GM.Proof.BlocksOrdRun

namespace GM.Blocks
open GM GM.Text GM.Spec GM.Proof.Reader

/-- the block parsers covered by the whole-run argument: all but the two list parsers (`listParser.Close` reads
    the `HasBlankPreviousLines` flags, which the relation does not cover) -/
def alC08 : BP → Bool
  | .list => false
  | .listItem => false
  | _ => true

theorem frames_all (al : BP → Bool) (hnl : ∀ bp, al bp = true → bp.notList = true) (hl : al .list = false) : Frames al where
  open_ := fun bp parent s a s' h hal ha =>
    ⟨by rw [bpOpen_opened bp parent s s' a h]; exact ha.opened,
     bpOpen_tmp bp parent s s' a h (fun b hb => (ha.opened b hb).2) ha.tmp,
     bpOpen_fence bp parent s s' a h ha.fence,
     ustoreL_bpOpen bp parent s a s' ha.u h,
     (fun _ n hn => ((us_bpOpen bp (hnl bp hal) parent s a s' (ha.us hl) h).node n hn).kind),
     by rw [bpOpen_opened bp parent s s' a h]; exact ha.pk.kg (kgn_of_keeps (fun n0 => kg_bpOpen n0 bp (hnl bp hal) parent) h),
     rstore_bpOpen bp parent ha.rg h⟩
  cont := fun bp node s a s' h hal hn0 ha =>
    ⟨by rw [bpContinue_opened bp node s s' a h]; exact ha.opened,
     bpContinue_tmp bp node s s' a h ha.tmp,
     bpContinue_fence bp node s s' a h ha.fence,
     ustoreL_bpContinue bp node hn0 s a s' ha.u h,
     (fun _ n hn => ((us_bpContinue bp (hnl bp hal) node hn0 s a s' (ha.us hl) h).node n hn).kind),
     by rw [bpContinue_opened bp node s s' a h]; exact ha.pk.kg (kgn_of_keeps (fun n0 => kg_bpContinue n0 bp (hnl bp hal) node) h),
     rstore_bpContinue bp node ha.rg h⟩
  close := fun bp node s a s' h hal hn0 ha =>
    ⟨by rw [bpClose_opened bp node s s' a h]; exact ha.opened,
     bpClose_tmp bp node s s' a h ha.tmp,
     bpClose_fence bp node s s' a h ha.fence,
     ustoreL_bpClose bp node hn0 s a s' ha.u h,
     (fun _ n hn => ((us_bpClose bp (hnl bp hal) node hn0 s a s' (ha.us hl) h).node n hn).kind),
     by rw [bpClose_opened bp node s s' a h]; exact ha.pk.kg (kgn_of_keeps (fun n0 => kg_bpClose n0 bp (hnl bp hal) node) h),
     rstore_bpClose bp node ha.rg h⟩
  openKG := fun bp parent s a s' h hal => kgn_of_keeps (fun n0 => kg_bpOpen n0 bp (hnl bp hal) parent) h
  contKG := fun bp node s a s' h hal => kgn_of_keeps (fun n0 => kg_bpContinue n0 bp (hnl bp hal) node) h
  closeKG := fun bp node s a s' h hal => kgn_of_keeps (fun n0 => kg_bpClose n0 bp (hnl bp hal) node) h
  openNR := fun bp parent s a s' id h hid hal => bpOpen_kind bp (hnl bp hal) parent h id hid
  req := fun bp parent s a s' h hr => (requirePara_setext bp parent s s' a h hr).2
  nonePos := fun bp parent s a s' h hn => bpOpen_none_pos bp parent s s' a h hn
  contOpened := fun bp node s a s' h => bpContinue_opened bp node s s' a h

/-- the unary facts for the set of ALL ten block parsers (the two list parsers included): the store invariant is the
    one without the kind clause (`UStoreL`), `NK` is vacuous -/
theorem frames_any (al : BP → Bool) (hlt : al .list = true) : Frames al where
  open_ := fun bp parent s a s' h _ ha =>
    ⟨by rw [bpOpen_opened bp parent s s' a h]; exact ha.opened,
     bpOpen_tmp bp parent s s' a h (fun b hb => (ha.opened b hb).2) ha.tmp,
     bpOpen_fence bp parent s s' a h ha.fence,
     ustoreL_bpOpen bp parent s a s' ha.u h,
     (fun hl => by rw [hlt] at hl; cases hl),
     by rw [bpOpen_opened bp parent s s' a h]; exact ha.pk.kg (kgn_bpOpen bp parent h),
     rstore_bpOpen bp parent ha.rg h⟩
  cont := fun bp node s a s' h _ hn0 ha =>
    ⟨by rw [bpContinue_opened bp node s s' a h]; exact ha.opened,
     bpContinue_tmp bp node s s' a h ha.tmp,
     bpContinue_fence bp node s s' a h ha.fence,
     ustoreL_bpContinue bp node hn0 s a s' ha.u h,
     (fun hl => by rw [hlt] at hl; cases hl),
     by rw [bpContinue_opened bp node s s' a h]; exact ha.pk.kg (kgn_bpContinue bp node h),
     rstore_bpContinue bp node ha.rg h⟩
  close := fun bp node s a s' h _ hn0 ha =>
    ⟨by rw [bpClose_opened bp node s s' a h]; exact ha.opened,
     bpClose_tmp bp node s s' a h ha.tmp,
     bpClose_fence bp node s s' a h ha.fence,
     ustoreL_bpClose bp node hn0 s a s' ha.u h,
     (fun hl => by rw [hlt] at hl; cases hl),
     by rw [bpClose_opened bp node s s' a h]; exact ha.pk.kg (kgn_bpClose bp node h),
     rstore_bpClose bp node ha.rg h⟩
  openKG := fun bp parent s a s' h _ => kgn_bpOpen bp parent h
  contKG := fun bp node s a s' h _ => kgn_bpContinue bp node h
  closeKG := fun bp node s a s' h _ => kgn_bpClose bp node h
  openNR := fun bp parent s a s' id h hid _ => bpOpen_kind' bp parent h id hid
  req := fun bp parent s a s' h hr => (requirePara_setext bp parent s s' a h hr).2
  nonePos := fun bp parent s a s' h hn => bpOpen_none_pos bp parent s s' a h hn
  contOpened := fun bp node s a s' h => bpContinue_opened bp node s s' a h

theorem frames_lists : Frames (fun _ => true) := frames_any _ rfl

theorem alC08_notList : ∀ bp, alC08 bp = true → bp.notList = true := by
  intro bp h; cases bp <;> first | rfl | cases h

theorem ustore_init : UStore [({ kind := .document } : Node)] := by
  refine ⟨by decide, rfl, ?_⟩
  intro n hn
  simp only [List.mem_singleton] at hn
  subst hn
  exact ⟨⟨by decide, by decide⟩, by intro h; cases h⟩

theorem ustoreL_init : UStoreL [({ kind := .document } : Node)] := ustore_init.toL

theorem nk_init (al : BP → Bool) : NK al [({ kind := .document } : Node)] :=
  fun _ => fun n hn => (ustore_init.node n hn).kind

theorem contW {src bp} (h : ContinueSim src bp) : ∀ k ls p node sA sB, SR src k ls p sA sB →
    S2 (fun a b sA' sB' => b = a ∧ ∃ p', SR src k ls p' sA' sB') (bpContinue bp node sA) (bpContinue bp (node + 1) sB) :=
  fun k ls p node sA sB hs => S2.mono (h k ls p node sA sB hs) (fun _ _ _ _ hh => ⟨hh.1, hh.2.choose, hh.2.choose_spec.2⟩)

theorem ps_all (src : Bytes) : PS src alC08 where
  open_ := by
    intro bp hal
    cases bp with
    | setext => exact setextOpen_sim src
    | thematic => exact thematicOpen_sim src
    | list => cases hal
    | listItem => cases hal
    | code => exact codeOpen_sim src
    | atx => exact atxOpen_sim src
    | fenced => exact fencedOpen_sim src
    | blockquote => exact blockquoteOpen_sim src
    | html => exact htmlOpen_sim src
    | paragraph => exact paragraphOpen_sim src
  cont := by
    intro bp hal k ls p node sA sB hs hn0 ha hp hns _
    cases bp with
    | setext => exact contW (setextContinue_sim src) k ls p node sA sB hs
    | thematic => exact contW (thematicContinue_sim src) k ls p node sA sB hs
    | list => cases hal
    | listItem => cases hal
    | code =>
      exact S2.mono (codeContinue_sim' src k ls p node sA sB hs hp)
        (fun _ _ _ _ hh => ⟨hh.1, hh.2.choose, hh.2.choose_spec.2⟩)
    | atx => exact contW (atxContinue_sim src) k ls p node sA sB hs
    | fenced =>
      exact S2.mono (fencedContinue_sim' src k ls p node sA sB hs ha.fence hns)
        (fun _ _ _ _ hh => ⟨hh.1, hh.2.choose, hh.2.choose_spec.2⟩)
    | blockquote => exact contW (blockquoteContinue_sim src) k ls p node sA sB hs
    | html =>
      exact S2.mono (htmlContinue_sim' src k ls p node sA sB hs hp)
        (fun _ _ _ _ hh => ⟨hh.1, hh.2.choose, hh.2.choose_spec.2⟩)
    | paragraph => exact contW (paragraphContinue_sim src) k ls p node sA sB hs
  close := by
    intro bp hal k ls p node sA sB hs hn0 ha hnr _
    cases bp with
    | setext => exact setextClose_sim' src k ls p node sA sB hs hn0 ha.tmp (hnr (.inr rfl))
    | thematic => exact thematicClose_sim src k ls p node sA sB hs
    | list => cases hal
    | listItem => cases hal
    | code => exact codeClose_sim src k ls p node sA sB hs
    | atx => exact atxClose_sim src k ls p node sA sB hs
    | fenced => exact fencedClose_sim src k ls p node sA sB hs
    | blockquote => exact blockquoteClose_sim src k ls p node sA sB hs
    | html => exact htmlClose_sim src k ls p node sA sB hs
    | paragraph => exact paragraphClose_sim' src k ls p node sA sB hs (hnr (.inl rfl))

/-- no byte of the source can start a list item: no `-`, `*`, `+`, no digit -/
def NoListTrigger (src : Bytes) : Prop := ∀ c ∈ src, c ≠ 45 ∧ c ≠ 42 ∧ c ≠ 43 ∧ isNumeric c = false

/-- every parser that can be tried on a line is covered (`alC08`) or is a list parser (handled by `OT.lsim / ldecl`) -/
theorem trig_all (src : Bytes) (hno : NoItem src) : TrigOK src alC08 where
  free := by intro bp hb; simp [freeParsers] at hb; rcases hb with rfl | rfl <;> exact .inl rfl
  trig := by
    intro c _ bp hb
    cases bp <;> first | exact .inl rfl | exact .inr (.inl ⟨rfl, rfl, hno⟩)

theorem matchesListItem_notList_of_parse {v : Bytes} {b : Bool} (h : (parseListItem v).2 = ListTyp.notList) :
    (matchesListItem v b).2 = ListTyp.notList := by
  unfold matchesListItem
  simp only
  split
  · next hc => rw [h] at hc; simp at hc
  · rfl

/-- a source without the bytes `- * +` and without digits has no position that starts a list item -/
theorem noItem_of_noTrigger {src : Bytes} (h : NoListTrigger src) : NoItem src := by
  intro p _
  apply matchesListItem_notList_of_parse
  have hv : ∀ c ∈ sub src p (lineEnd src p), c ∈ src := by
    intro c hc
    unfold sub at hc
    exact List.mem_of_mem_drop (List.mem_of_mem_take hc)
  generalize sub src p (lineEnd src p) = v at hv
  unfold parseListItem
  simp only
  split
  · rfl
  · split
    · rfl
    · next c cs hd =>
      have hc : c ∈ v := List.mem_of_mem_drop (by rw [hd]; exact List.mem_cons_self ..)
      obtain ⟨h1, h2, h3, h4⟩ := h c (hv c hc)
      have e1 : (c == 45) = false := beq_eq_false_iff_ne.mpr h1
      have e2 : (c == 42) = false := beq_eq_false_iff_ne.mpr h2
      have e3 : (c == 43) = false := beq_eq_false_iff_ne.mpr h3
      simp only [e1, e2, e3, Bool.or_self, Bool.false_eq_true, if_false, List.takeWhile, h4, List.length_nil,
        beq_self_eq_true, Bool.true_or, if_true]

/-! ### the class of sources, and the start of the two runs -/

/-- the sources the whole-run theorem covers: no tab, no carriage return, ending with a line feed, and without any
    byte that could start a list item -/
structure C08Class (src : Bytes) : Prop where
  tf : ∀ c ∈ src, c ≠ 9
  cr : ∀ c ∈ src, c ≠ 13
  nl : src.getLast? = some 10
  nolist : NoListTrigger src

theorem C08Class.ne {src} (h : C08Class src) : src ≠ [] := by
  intro e; have := h.nl; rw [e] at this; cases this

/-- the wider class: the source need not end with a line feed; it is not empty and does not end with a space (a last
    line without `\n` that ends with spaces is where `fencedCodeBlockParser.Continue` calls `Advance(-1)`) -/
structure C08ClassW (src : Bytes) : Prop where
  tf : ∀ c ∈ src, c ≠ 9
  cr : ∀ c ∈ src, c ≠ 13
  ne : src ≠ []
  last : ∀ c, src.getLast? = some c → c ≠ 32
  nolist : NoListTrigger src

/-- the widest class: no position of the source starts a list item (`NoItem`: bullets and numbers are allowed where no
    space, tab or line end follows the marker) -/
structure C08ClassL (src : Bytes) : Prop where
  tf : ∀ c ∈ src, c ≠ 9
  cr : ∀ c ∈ src, c ≠ 13
  ne : src ≠ []
  last : ∀ c, src.getLast? = some c → c ≠ 32
  noitem : NoItem src

theorem C08ClassW.wider {src} (h : C08ClassW src) : C08ClassL src :=
  ⟨h.tf, h.cr, h.ne, h.last, noItem_of_noTrigger h.nolist⟩

theorem C08Class.wide {src} (h : C08Class src) : C08ClassW src :=
  ⟨h.tf, h.cr, h.ne, fun c hc => by rw [h.nl] at hc; cases hc; decide, h.nolist⟩

theorem qpg_length_ge (l : Bytes) (b : Bool) : l.length ≤ (quotePrefixGo l b).length := by
  induction l generalizing b with
  | nil => simp [quotePrefixGo]
  | cons c cs ih =>
    have := ih (c == 10)
    simp only [quotePrefixGo, List.length_append, List.length_cons]
    omega

theorem qp_length_ne {src : Bytes} (h : src ≠ []) : src.length + 2 ≤ (quotePrefix src).length := by
  cases src with
  | nil => exact absurd rfl h
  | cons c cs =>
    have := qpg_length_ge cs (c == 10)
    simp only [quotePrefix, quotePrefixGo, if_true, List.length_append, List.length_cons, List.length_nil]
    omega

theorem cls_of {src} (h : C08ClassL src) : Cls src alC08 where
  ps := ps_all src
  fr := frames_all _ alC08_notList rfl
  ot := ot_all src h.noitem
  ns := ns_of_last_ne h.last
  tr := trig_all src h.noitem
  tf := h.tf
  h0 := lineAt_zero_qs src h.ne
  shape := fun _ _ hl hb => blank_shape_w h.tf h.cr h.last hl hb

theorem fe_init (al : BP → Bool) (b : Node) (c : Node) : FEc al [({ kind := .document } : Node)] [b, c] := by
  intro _ q hq x hx
  have : ([({ kind := .document } : Node)]).getD q default = default := by
    cases q with
    | zero => exact absurd rfl hq
    | succ n => rfl
  rw [this] at hx
  cases hx

theorem storeRel_init (src : Bytes) (blank : Bool) :
    StoreRel src [{ kind := .document }]
      [{ kind := .document, children := [1] }, { kind := .blockquote, parent := some 0, blankPrev := blank }] where
  len := rfl
  pos := by decide
  doc := ⟨rfl, rfl⟩
  doc0 := rfl
  node := by
    intro i
    cases i with
    | zero =>
      exact ⟨⟨rfl, rfl⟩, ⟨rfl, rfl⟩, rfl, trivial, rfl, rfl, rfl, rfl, rfl, rfl, rfl, trivial, .inl ⟨by decide, rfl⟩,
        (fun _ l hl => by cases hl), (fun i hi => by cases hi), (fun h => absurd h (by decide)),
        (fun _ h => absurd h (by decide))⟩
    | succ j => exact nodeRel_default src

theorem parseBlocks_eq (src : Bytes) :
    parseBlocks 0 (initSt src) = blocksLoop 0 (linesFuel src) [] (initSt src) := by
  unfold parseBlocks
  have e1 : (modPc fun pc => { pc with opened := [] }) (initSt src) = .ok ((), initSt src) := rfl
  have e2 : source (initSt src) = .ok (src, initSt src) := by
    have hs : (initSt src).r.source = src := (ri_init src).source
    unfold source; rw [hs]; rfl
  rw [bind_run e1, bind_run e2]

theorem nlCount_pos_of_last {src : Bytes} (h : src.getLast? = some 10) : 1 ≤ nlCount src := by
  have hm : (10 : UInt8) ∈ src := List.mem_of_getLast? h
  unfold nlCount
  exact List.length_pos_iff.mpr (List.ne_nil_of_mem (List.mem_filter.mpr ⟨hm, rfl⟩))

theorem qp_length_nl (src : Bytes) : src.length + 2 * nlCount src ≤ (quotePrefix src).length := by
  have := qpg_length src true
  unfold quotePrefix
  split at this <;> simp only [if_true] at this <;> omega

/-- B's first line up to the point where its Blockquote is open and its marker consumed -/
theorem bStart {src : Bytes} (h0 : LineAt src 0 0) (fo : Nat) :
    ∃ r' blank, blank = true ∧ RI (quotePrefix src) r' ⟨0, 2, 0⟩ ∧
      blocksLoop 0 (fo + 1) [] (initSt (quotePrefix src)) =
        ((openBlocksLoop blank false (2 * (quotePrefix src).length + 7) 1 OpenResult.newBlocksOpened none) >>= fun d =>
          if (d != OpenResult.newBlocksOpened) = true then pure ()
          else do
            advanceLine
            let z ← linesLoop 0 fo []
            match z with
            | (ret, bl) => if ret = true then pure () else blocksLoop 0 fo bl)
          { r := r',
            nodes := [{ kind := .document, children := [1] }, { kind := .blockquote, parent := some 0, blankPrev := blank }],
            pc := { ({} : Ctx) with blockOffset := 0, blockIndent := 0, opened := [{ node := 1, bp := .blockquote }] } } := by
  have hq0 : LineAt (quotePrefix src) 0 0 := lineAt_zero_qs _ (by
    intro e; exact (List.ne_nil_of_length_pos (by have := h0.lt; omega)) ((qp_nil_iff src).mp e))
  have hri : RI (quotePrefix src) (initSt (quotePrefix src)).r ⟨((0 : Nat) : Int), 0, 0⟩ := ri_init _
  -- the first line of the prefixed source is not blank
  have hline : sub (quotePrefix src) 0 (lineEnd (quotePrefix src) 0) = 62 :: 32 :: sub src 0 (lineEnd src 0) := by
    have e1 := view_lineA hq0
    have e2 := (view_marker h0).1
    simp only [Nat.mul_zero, Nat.add_zero] at e2
    rw [e1] at e2
    exact Option.some.inj e2
  have hnb : isBlank (sub (quotePrefix src) 0 (lineEnd (quotePrefix src) 0)) = false := by
    rw [hline]; rfl
  obtain ⟨r1, e1, hr1⟩ := skipFrom_line hq0 hri hnb (4 * (initSt (quotePrefix src)).r.source.length + 63) 0
  obtain ⟨r', hr', eO⟩ := openBlocks_first h0 (s := { initSt (quotePrefix src) with r := r1 }) hr1 rfl rfl
    (isBlankLine (r1.line - 1) 0 [])
  refine ⟨r', isBlankLine (r1.line - 1) 0 [], isBlankLine_nil _, hr', ?_⟩
  rw [blocksLoop_eq, show loopFuel (initSt (quotePrefix src)).r.source = 4 * (initSt (quotePrefix src)).r.source.length + 63 + 1 from rfl,
    bind_run e1]
  unfold blocksBody
  simp only [Bool.not_true, Bool.false_eq_true, if_false]
  have ep : position { initSt (quotePrefix src) with r := r1 } = .ok ((r1.line, r1.pos), { initSt (quotePrefix src) with r := r1 }) := rfl
  have eg : getPc { initSt (quotePrefix src) with r := r1 } = .ok (({} : Ctx), { initSt (quotePrefix src) with r := r1 }) := rfl
  rw [bind_run ep]
  simp only
  rw [bind_run eg]
  show StateT.bind _ _ _ = StateT.bind _ _ _
  unfold StateT.bind
  have : ((0 : Int) != 0) = false := rfl
  simp only [this, Bool.false_eq_true, if_false]
  rw [eO]
  rfl

theorem openBlocks_nil (q : Nat) (b : Bool) (s : St) (ho : s.pc.opened = []) :
    openBlocks q b s = openBlocksLoop b false (retryFuel s.r.source) q OpenResult.noBlocksOpened none s := by
  unfold openBlocks
  have e1 : lastOpenedBlock s = .ok (none, s) := by
    show (getPc >>= fun pc => pure pc.opened.getLast?) s = _
    have e0 : getPc s = .ok (s.pc, s) := rfl
    rw [bind_run e0, ho]; rfl
  rw [bind_run e1]
  rfl

/-- **The whole-run simulation**, for any set `al` of simulated parsers (`Cls src al`). If the block phase on `src` ends normally having read all lines, the block phase
    on `quotePrefix src` ends normally, and the two final node stores are related. -/
theorem run_simG {src : Bytes} {al : BP → Bool} (cl : Cls src al) (hne : src ≠ []) {sA' : St} (hA : run src = .ok sA') :
    ∃ sB', run (quotePrefix src) = .ok sB' ∧ FRel src al sA'.nodes sB'.nodes := by
  have h0 := cl.h0
  have hlt0 := lt_lineEnd src h0.lt
  -- run A
  unfold run at hA
  cases hpa : parseBlocks 0 (initSt src) with
  | error e => rw [hpa] at hA; cases hA
  | ok x =>
    obtain ⟨u, sAf⟩ := x
    rw [hpa] at hA
    simp only [Except.map, Except.ok.injEq] at hA
    subst hA
    rw [parseBlocks_eq, show linesFuel src = lineCount src + 1 + 1 from rfl, blocksLoop_eq] at hpa
    have hsrcA : (initSt src).r.source = src := (ri_init src).source
    rw [hsrcA, show loopFuel src = 4 * src.length + 63 + 1 from rfl] at hpa
    -- run B up to its open Blockquote
    obtain ⟨r', blankB, hblankB, hr', eB⟩ := bStart h0 (lineCount (quotePrefix src) + 1)
    have hfuelB : nlCount src + 2 ≤ lineCount (quotePrefix src) + 1 + 1 := by
      have := qp_nlCount src
      unfold lineCount nlCount at *
      omega
    have hriA : RI src (initSt src).r ⟨((0 : Nat) : Int), 0, 0⟩ := ri_init src
    suffices hgoal : ∃ sB', parseBlocks 0 (initSt (quotePrefix src)) = .ok ((), sB') ∧
        FRel src al sAf.nodes sB'.nodes by
      obtain ⟨sB', e, hrel⟩ := hgoal
      exact ⟨sB', by unfold run; rw [e]; rfl, hrel⟩
    rw [parseBlocks_eq, show linesFuel (quotePrefix src) = lineCount (quotePrefix src) + 1 + 1 from rfl, eB]
    have hai : AInv al (initSt src).pc (initSt src).nodes := ⟨fun _ hb => (by cases hb), (by intro e; cases e), fun _ hf => (by cases hf), ustoreL_init, nk_init al, PKL.nil _, rstore_init⟩
    by_cases hb : isBlank (sub src 0 (lineEnd src 0)) = true
    · -- A skips its first line
      obtain ⟨r1, e1, hr1⟩ := skipFrom_blank h0 hriA hb (4 * src.length + 63) 0
      rw [rebind e1] at hpa
      obtain ⟨n, hn⟩ := cl.shape 0 0 h0 hb
      have hge := qp_length_ge h0
      have hBA : BlankAt (quotePrefix src) ⟨((0 : Nat) : Int), 2, 0⟩ n := by
        refine ⟨by simp only; omega, rfl, ?_⟩
        simp only
        have e := (qp_lineEnd h0 (Nat.le_refl _) hlt0).1
        simp only [Nat.zero_add, Nat.mul_one] at e
        rw [e]
        have e2 := qp_sub h0 (Nat.le_refl 0) (Nat.le_of_lt hlt0) (Nat.le_refl _)
        simp only [Nat.zero_add, Nat.mul_one] at e2
        rw [e2, hn]; rfl
      obtain ⟨r3, e3, hr3⟩ := openBlocksLoop_blank_res (s := { r := r', nodes := _, pc := _ }) hr' hBA 1 blankB
        OpenResult.newBlocksOpened none (2 * (quotePrefix src).length + 6)
      rw [bind_run e3]
      have hnn : (OpenResult.newBlocksOpened != OpenResult.newBlocksOpened) = false := rfl
      rw [hnn]
      simp only [Bool.false_eq_true, if_false]
      rw [bind_run (advanceLine_run _)]
      have hadv := ri_advanceLine hr3
      simp only [RCur.advanceLine] at hadv
      have e := (qp_lineEnd h0 (Nat.le_refl _) hlt0).1
      simp only [Nat.zero_add, Nat.mul_one] at e
      rw [e] at hadv
      have hls : LS src al (0 + 1) (lineEnd src 0) { initSt src with r := r1 }
          { r := r3.advanceLine,
            nodes := [{ kind := .document, children := [1] }, { kind := .blockquote, parent := some 0, blankPrev := blankB }],
            pc := { ({} : Ctx) with blockOffset := (n : Int), blockIndent := (n : Int), opened := [{ node := 1, bp := .blockquote }] } } :=
        ⟨cl.tf, hr1, by simpa using hadv, storeRel_init src blankB, ⟨rfl, rfl, rfl, rfl, rfl⟩, hai, (fun hne => absurd rfl hne),
          fe_init al _ _⟩
      obtain ⟨h1, _⟩ := mainP_all cl (lineCount (quotePrefix src) + 1) (0 + 1) (lineEnd src 0) _ _ hls
        ((Sh.stable_init src).congr_r r1) (pos_next h0)
        (by omega) sAf
      have hnfl : ¬ FL src := fun hfl => by rw [hfl 0 0 h0] at hb; cases hb
      obtain ⟨x, sB', eL, hrel⟩ := h1 rfl _ _ _ _ (fun hfl => absurd hfl hnfl) (by omega) hpa [] (fun hfl => absurd hfl hnfl)
        (by rw [if_pos (by decide)]; exact lstG_nil _)
      refine ⟨sB', ?_, hrel⟩
      rw [bind_run eL]
      rfl
    · -- both runs call openBlocks on the first line
      have hb' : isBlank (sub src 0 (lineEnd src 0)) = false := by simpa using hb
      obtain ⟨r1, e1, hr1⟩ := skipFrom_line h0 hriA hb' (4 * src.length + 63) 0
      rw [bind_run e1] at hpa
      unfold blocksBody at hpa
      simp only [Bool.not_true, Bool.false_eq_true, if_false] at hpa
      have ep : position { initSt src with r := r1 } = .ok ((r1.line, r1.pos), { initSt src with r := r1 }) := rfl
      have eg : getPc { initSt src with r := r1 } = .ok (({} : Ctx), { initSt src with r := r1 }) := rfl
      rw [bind_run ep] at hpa
      simp only at hpa
      rw [bind_run eg] at hpa
      obtain ⟨d, sA2, hd, hA2⟩ := bind_inv hpa
      have hd0 := hd
      rw [openBlocks_nil _ _ _ rfl] at hd
      have hsrc1 : r1.source = src := hr1.source
      simp only at hd
      rw [hsrc1] at hd
      have hdrl : DRL src al 0 0 0 { initSt src with r := r1 }
          { r := r',
            nodes := [{ kind := .document, children := [1] }, { kind := .blockquote, parent := some 0, blankPrev := blankB }],
            pc := { ({} : Ctx) with blockOffset := 0, blockIndent := 0, opened := [{ node := 1, bp := .blockquote }] } } :=
        ⟨⟨cl.tf, InL.start h0, hr1, hr'⟩, storeRel_init src blankB, ⟨rfl, rfl, rfl, rfl, rfl⟩, hai, fe_init al _ _⟩
      have hfuel : retryFuel src ≤ 2 * (quotePrefix src).length + 7 := by
        have := qp_length_ne hne
        unfold retryFuel; omega
      obtain ⟨db, sB2, eOB, hrr, _, ⟨p', hDR⟩, hopens⟩ := openBlocksLoop_sim cl.ps cl.fr cl.ot cl.ns cl.tr _ blankB false _ _ hfuel
        (fun _ => by rw [hblankB]; rfl) 0
        OpenResult.noBlocksOpened OpenResult.newBlocksOpened none none hdrl (.inl rfl) (.inr ⟨rfl, rfl⟩) (fun hc => by cases hc) (Nat.zero_lt_one)
        (fun _ => .inl (by rw [hblankB]; rfl)) d sA2 hd
      rw [bind_run eOB]
      have hdn0 : d = OpenResult.newBlocksOpened := by
        refine hopens rfl (.inr ⟨rfl, ?_⟩)
        unfold NBV viewA
        rw [if_pos hlt0]
        exact hb'
      by_cases hnew : (d != OpenResult.newBlocksOpened) = true
      · rw [hdn0] at hnew; cases hnew
      · rw [if_neg hnew] at hA2
        have hdn : d = OpenResult.newBlocksOpened := by
          simpa using hnew
        have hdb : db = OpenResult.newBlocksOpened := by
          rcases hrr with e | ⟨_, e⟩
          · rw [e, hdn]
          · exact e
        rw [hdb]
        have hnn : (OpenResult.newBlocksOpened != OpenResult.newBlocksOpened) = false := rfl
        rw [hnn]
        simp only [Bool.false_eq_true, if_false]
        obtain ⟨x, sB', eL, hrel⟩ := afterLine cl.ns (mainP_all cl (lineCount (quotePrefix src) + 1)) hDR (by omega)
          _ _ _ hA2 [] (fun _ => ⟨lst_nil _, fun e => absurd e (openBlocks_new_ne _ _ _ _ _ hd0 hdn)⟩)
          (stable_openBlocks0 (s := { initSt src with r := r1 }) ((Sh.stable_init src).congr_r r1) rfl hr1 (padOK_zero _ _) hd0)
          (lstG_nil _)
        refine ⟨sB', ?_, hrel⟩
        obtain ⟨u2, sB3, ea, eL2⟩ := bind_inv eL
        rw [bind_run ea, bind_run eL2]
        rfl

/-- **The whole-run simulation** for the class `C08ClassL` (all parsers but the two list parsers, which are tried and
    decline). -/
theorem run_sim {src : Bytes} (hc : C08ClassL src) {sA' : St} (hA : run src = .ok sA') :
    ∃ sB', run (quotePrefix src) = .ok sB' ∧ FRel src alC08 sA'.nodes sB'.nodes :=
  run_simG (cls_of hc) hc.ne hA

instance (src : Bytes) (k ls : Nat) : Decidable (LineAt src k ls) :=
  decidable_of_iff (ls < src.length ∧ (ls = 0 ∨ src[ls - 1]? = some 10) ∧ lineNo src ls = k)
    ⟨fun h => ⟨h.1, h.2.1, h.2.2⟩, fun h => ⟨h.lt, h.start, h.count⟩⟩

theorem readToEnd_iff (src : Bytes) (s : St) :
    ReadToEnd src s ↔ ∀ ls, ls < src.length → ¬ LineAt src s.r.line.toNat ls :=
  ⟨fun h ls _ => h ls, fun h ls hl => h ls hl.lt hl⟩

instance (src : Bytes) (s : St) : Decidable (ReadToEnd src s) :=
  decidable_of_iff _ (readToEnd_iff src s).symm

/-- no stored segment of the final store is empty: the one clause of `WellShaped` that is not proved for the class -/
def SegsNE (s : St) : Prop :=
  ∀ n ∈ s.nodes, (∀ l ∈ n.lines, l.start < l.stop) ∧ (∀ i, n.info = some i → i.start < i.stop) ∧
    (0 ≤ n.closure.start → n.closure.start < n.closure.stop)

instance (s : St) : Decidable (SegsNE s) := by unfold SegsNE; infer_instance

theorem wellShaped_of {s : St} (hu : UStore s.nodes) (hne : SegsNE s) : WellShaped s :=
  ⟨hu.doc, fun n hn => ⟨(hu.node n hn).kind, (hne n hn).1, (hne n hn).2.1, (hne n hn).2.2, (hu.node n hn).kids⟩⟩

theorem WellShaped.segsNE {s : St} (h : WellShaped s) : SegsNE s :=
  fun n hn => ⟨(h.2 n hn).2.1, (h.2 n hn).2.2.1, (h.2 n hn).2.2.2.1⟩

theorem rawK_eq (k : Kind) : rawK k = GM.Proof.BlocksWF0.isRaw k := by cases k <;> rfl

/-- **no stored segment of the original run is empty**, from the relation between the two final stores (raw blocks'
    lines, info and closure segments: `NodeRel.rawNE / infoNE / closNE`, kept by the simulation for sources in which
    every position inside a line has a rest of line) and `GM.Blocks.run_segs_nonempty` (package wf0: the lines of every
    block that is not raw, for every byte string) -/
theorem segsNE_of_rel {src : Bytes} {sA : St} {nB : List Node} (hA : run src = .ok sA)
    (hn : StoreRel src sA.nodes nB) : SegsNE sA := by
  intro n hmem
  obtain ⟨i, hi, rfl⟩ := List.getElem_of_mem hmem
  have hnr := hn.node i
  have e : sA.nodes.getD i default = sA.nodes[i] := by simp [List.getD_eq_getElem?_getD, hi]
  rw [e] at hnr
  refine ⟨fun l hl => ?_, hnr.infoNE, hnr.closNE⟩
  cases hr : rawK sA.nodes[i].kind with
  | true => exact hnr.rawNE hr l hl
  | false => exact (run_segs_nonempty src sA hA _ hmem (by rw [← rawK_eq]; exact hr) l hl).1

/-- the conclusion on the dumps, UNCONDITIONALLY for a source of the class: the two canonical dumps compared by
    `quoteSimPair` are equal -/
theorem quoteSim_of_class {src : Bytes} (hc : C08ClassL src) {sA : St} (hA : run src = .ok sA) :
    ∀ e g, quoteSimPair src = some (e, g) → e = g := by
  obtain ⟨sB, hB, hn, hu, hk, _⟩ := run_sim hc hA
  exact quoteSimPair_eq src sA sB hA hB hn (wellShaped_of (ustore_of_L hu (hk rfl)) (segsNE_of_rel hA hn))

/-- the unary facts about the original run of a source of the class that are PROVED: its final store satisfies
    `UStore` (Document without lines and nobody's child, no List / ListItem node) -/
theorem ustore_of_class {src : Bytes} (hc : C08ClassL src) {sA : St} (hA : run src = .ok sA) : UStore sA.nodes := by
  obtain ⟨_, _, _, hu, hk, _⟩ := run_sim hc hA
  exact ustore_of_L hu (hk rfl)

instance (src : Bytes) : Decidable (NoListTrigger src) := by unfold NoListTrigger; infer_instance

instance (src : Bytes) : Decidable (C08ClassL src) :=
  decidable_of_iff ((∀ c ∈ src, c ≠ 9) ∧ (∀ c ∈ src, c ≠ 13) ∧ src ≠ [] ∧ (∀ c, src.getLast? = some c → c ≠ 32) ∧
      NoItem src)
    ⟨fun h => ⟨h.1, h.2.1, h.2.2.1, h.2.2.2.1, h.2.2.2.2⟩, fun h => ⟨h.tf, h.cr, h.ne, h.last, h.noitem⟩⟩

instance (src : Bytes) : Decidable (C08ClassW src) :=
  decidable_of_iff ((∀ c ∈ src, c ≠ 9) ∧ (∀ c ∈ src, c ≠ 13) ∧ src ≠ [] ∧ (∀ c, src.getLast? = some c → c ≠ 32) ∧
      NoListTrigger src)
    ⟨fun h => ⟨h.1, h.2.1, h.2.2.1, h.2.2.2.1, h.2.2.2.2⟩, fun h => ⟨h.tf, h.cr, h.ne, h.last, h.nolist⟩⟩

instance (src : Bytes) : Decidable (C08Class src) :=
  decidable_of_iff ((∀ c ∈ src, c ≠ 9) ∧ (∀ c ∈ src, c ≠ 13) ∧ src.getLast? = some 10 ∧ NoListTrigger src)
    ⟨fun h => ⟨h.1, h.2.1, h.2.2.1, h.2.2.2⟩, fun h => ⟨h.tf, h.cr, h.nl, h.nolist⟩⟩

/-- everything the whole-run theorem assumes, as one executable test on the source: the class, and — evaluated on
    the ORIGINAL run of the model — normal termination, all lines read, well-shaped store -/
def quoteHyp (src : Bytes) : Bool :=
  decide (C08Class src) &&
    match run src with
    | .ok s => decide (ReadToEnd src s) && decide (WellShaped s)
    | .error _ => false

theorem quoteSim_of_hyp {src : Bytes} (h : quoteHyp src = true) : ∀ e g, quoteSimPair src = some (e, g) → e = g := by
  unfold quoteHyp at h
  simp only [Bool.and_eq_true, decide_eq_true_eq] at h
  obtain ⟨hc, hm⟩ := h
  cases hr : run src with
  | error e => rw [hr] at hm; cases hm
  | ok s =>
    rw [hr] at hm
    simp only [Bool.and_eq_true, decide_eq_true_eq] at hm
    exact quoteSim_of_class hc.wide.wider hr

end GM.Blocks
