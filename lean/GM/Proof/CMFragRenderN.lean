/-
  GM.Proof.CMFragRenderN — the renderer half of the conformance proof for the stage-14 fragment (a stage-6 document
  inside `k + 1` nested block quotes) of GM.Spec.CMFrag:
  * `renderNodes_nestN` / `renderPanicsNodes_nestN`: the renderer model on `k` nested block-quote nodes around nodes
    `ns` writes `wrapQ k` of what it writes for `ns`, and panics only when it panics on `ns`;
  * `renderDoc_nestN` (stage-5 blocks) and `renderDoc_nest_uN` (the union blocks of stage 13): the renderer on the
    document `nestNodeN k …` (GM.Proof.CMFragNTree) yields `wrapQ k` of the HTML of the blocks;
  * `quoteLinesN_eq`: the spec-side `quoteLinesN k` is the model-side `qpN k` (GM.Proof.CMFragNDefs: `quotePrefix`
    applied `k` times, defined by the same recursion), which is `Nat.repeat GM.Blocks.quotePrefix k` (`qpN_eq_repeat`).
-/
import GM.Proof.CMFragRenderQ
import GM.Proof.CMFragRender13
import GM.Proof.CMFragNDefs
import GM.Proof.CMFragNTree
namespace GM.Proof.CMFrag
open GM GM.Spec.CM GM.Spec.CMFrag

/-! ### `k` nested block-quote nodes -/

/-- one block-quote node around nodes: `<blockquote>`, line feed, the nodes, `</blockquote>`, line feed -/
theorem renderNodes_quote1N (rc : RCfg) (ph : Bool) (cs : List GM.Node) :
    renderNodes rc ph [.mk .blockquote none cs] =
      strBytes "<blockquote>\n" ++ renderNodes rc false cs ++ strBytes "</blockquote>\n" := by
  simp only [renderNodes, renderNode, enter, leave, skipsChildren, Kind.isTableHeader, handled_quoteQ, openTag,
    quoteOpen_bytes]
  simp

theorem renderPanicsNodes_quote1N (rc : RCfg) (cs : List GM.Node) :
    renderPanicsNodes rc [.mk .blockquote none cs] = renderPanicsNodes rc cs := by
  simp [renderPanicsNodes, renderPanicsNode, nodePanic, skipsChildren]
  cases renderPanicsNodes rc cs <;> rfl

theorem renderNodes_nestN (rc : RCfg) (ns : List GM.Node) (h : Bytes) (hns : ∀ ph, renderNodes rc ph ns = h)
    (k : Nat) (ph : Bool) : renderNodes rc ph (nestQuotesN k ns) = wrapQ k h := by
  induction k generalizing ph with
  | zero => exact hns ph
  | succ k ih => rw [nestQuotesN, renderNodes_quote1N, ih, wrapQ]

theorem renderPanicsNodes_nestN (rc : RCfg) (ns : List GM.Node) (hns : renderPanicsNodes rc ns = none) (k : Nat) :
    renderPanicsNodes rc (nestQuotesN k ns) = none := by
  induction k with
  | zero => exact hns
  | succ k ih => rw [nestQuotesN, renderPanicsNodes_quote1N, ih]

theorem render_nestNodeN (rc : RCfg) (ns : List GM.Node) (h : Bytes) (hns : ∀ ph, renderNodes rc ph ns = h)
    (k : Nat) : render rc (nestNodeN k ns) = wrapQ k h := by
  rw [render, nestNodeN, renderNode]
  simp [enter, leave, handled_doc, skipsChildren, Kind.isTableHeader, renderNodes_nestN rc ns h hns k]

theorem renderPanics_nestNodeN (rc : RCfg) (ns : List GM.Node) (hns : renderPanicsNodes rc ns = none) (k : Nat) :
    renderPanics rc (nestNodeN k ns) = none := by
  simp [renderPanics, nestNodeN, renderPanicsNode, nodePanic, renderPanicsNodes_nestN rc ns hns k]

/-- the renderer on `k` nested block quotes around nodes it renders as `h` without a panic -/
theorem renderDoc_nest_anyN (o : GM.Convert.ROpts) (ns : List GM.Node) (h : Bytes)
    (hns : ∀ ph, renderNodes o.rcfg ph ns = h) (hp : renderPanicsNodes o.rcfg ns = none) (k : Nat) :
    GM.Convert.renderDoc o (nestNodeN k ns) = .ok (wrapQ k h) := by
  rw [GM.Convert.renderDoc, renderPanics_nestNodeN o.rcfg ns hp k, render_nestNodeN o.rcfg ns h hns k]

/-! ### around the stage-5 blocks and around the union blocks -/

/-- the renderer on `k` nested block quotes around stage-5 blocks -/
theorem renderDoc_nestN (k : Nat) (blks : List Raw5)
    (hlev : ∀ b ∈ blks, ∀ level l, b = Raw5.old (RawBlock.atx level l) → level ≤ 6) :
    GM.Convert.renderDoc cmOpts (nestNodeN k (blks.map rawNode5)) = .ok (wrapQ k (hdocHtml blks)) :=
  renderDoc_nest_anyN cmOpts _ _
    (fun ph => renderNodes_raw5 cmOpts.rcfg (rcfg_escSpace cmOpts) (by rw [rcfg_hardWraps]; rfl) (rcfg_ea cmOpts)
      (by rw [rcfg_xhtml4]; rfl) ph blks)
    (renderPanicsNodes_raw5 cmOpts.rcfg blks hlev) k

/-- the renderer on `k` nested block quotes around union blocks -/
theorem renderDoc_nest_uN (k : Nat) (bs : List UBlock) (hg : ∀ b ∈ bs, UGood b) :
    GM.Convert.renderDoc cmOpts (nestNodeN k (bs.map uNode)) = .ok (wrapQ k (uDocHtml bs)) :=
  renderDoc_nest_anyN cmOpts _ _
    (fun ph => renderNodes_ublocks13 cmOpts.rcfg (rcfg_escSpace cmOpts) (by rw [rcfg_hardWraps]; rfl) (rcfg_ea cmOpts)
      (by rw [rcfg_xhtml4]; rfl) ph bs hg)
    (renderPanicsNodes_ublocks13 cmOpts.rcfg bs hg) k

/-- the same with the tree written out: `nestNodeN k ns` is the document node around `nestQuotesN k ns` -/
theorem renderDoc_nestN' (k : Nat) (blks : List Raw5)
    (hlev : ∀ b ∈ blks, ∀ level l, b = Raw5.old (RawBlock.atx level l) → level ≤ 6) :
    GM.Convert.renderDoc cmOpts (.mk .document none (nestQuotesN k (blks.map rawNode5))) =
      .ok (wrapQ k (hdocHtml blks)) := renderDoc_nestN k blks hlev

/-! ### the spec-side `quoteLinesN` is the model-side `quotePrefix`, `k` times -/

theorem quoteLinesN_eq (k : Nat) (s : Bytes) : quoteLinesN k s = qpN k s := by
  induction k with
  | zero => rfl
  | succ k ih => rw [quoteLinesN, qpN, ih, quoteLines_eq]

/-- core Lean 4.33 has no `Nat.iterate`; its `Nat.repeat f k a` is `f` applied `k` times to `a` -/
theorem qpN_eq_repeat (k : Nat) (s : Bytes) : qpN k s = Nat.repeat GM.Blocks.quotePrefix k s := by
  induction k with
  | zero => rfl
  | succ k ih => rw [qpN, ih, Nat.repeat]

theorem spellNQ_eq (k : Nat) (d : KDoc) : spellNQ k d = qpN (k + 1) (spellK d) := quoteLinesN_eq _ _

/-- stage 14 with `k = 0` is stage 10 -/
theorem spellNQ_zero (d : KDoc) : spellNQ 0 d = spellQ d := rfl

theorem expectedNQ_zero (d : KDoc) : expectedNQ 0 d = expectedQ d := rfl

end GM.Proof.CMFrag
