/-
  GM.Proof.ConvertLTotal — the Linkify parser keeps the contract of the inline loop (bounds of the hand-matched expressions:
  a match lies inside the peeked line and, when a node is returned, at least one byte is consumed), so the inline phase of all
  16 member sets terminates.
-/
import GM.Proof.ConvertXTotal
import GM.Proof.ConvertL

namespace GM.Proof.ConvertLTotal
open GM GM.Text GM.Spec GM.Inl GM.Proof.Reader GM.Proof.InlinesReader GM.Proof.Inlines GM.Proof.InlinesTotal
open GM.Proof.InlinesLink GM.Proof.ConvertXRelv GM.Proof.ConvertXTotal

/-! ### bounds of the matchers -/

theorem domainSearch_spec (s : Bytes) : ∀ (lim k : Nat), domainSearch s lim = some k → 1 ≤ k ∧ k + 1 < s.length
  | 0, _, h => by simp [domainSearch] at h
  | n + 1, k, h => by
    simp only [domainSearch] at h
    split at h
    · rename_i hc
      simp only [Bool.and_eq_true, decide_eq_true_eq] at hc
      simp at h; subst h
      exact ⟨by omega, by omega⟩
    · exact domainSearch_spec s n k h

theorem matchDomain_le {s : Bytes} {d : Nat} (h : matchDomain s = some d) : 2 ≤ d ∧ d ≤ s.length := by
  unfold matchDomain at h
  simp only at h
  split at h
  · cases h
  · rename_i k hk
    obtain ⟨k1, k2⟩ := domainSearch_spec s _ k hk
    simp at h; subst h
    have := takeWhile_len_le lkLower (s.drop (k + 1))
    simp only [List.length_drop] at this
    constructor
    · omega
    · omega

theorem matchPort_bounds (s : Bytes) (e : Nat) (he : e ≤ s.length) : e ≤ matchPort s e ∧ matchPort s e ≤ s.length := by
  unfold matchPort
  split
  · rename_i hc
    simp only [Bool.and_eq_true, decide_eq_true_eq] at hc
    simp only
    split
    · exact ⟨Nat.le_refl _, he⟩
    · have := takeWhile_len_le lkDigit (s.drop (e + 1))
      simp only [List.length_drop] at this
      constructor <;> omega
  · exact ⟨Nat.le_refl _, he⟩

theorem matchPath_bounds (d : Bool) (s : Bytes) (e : Nat) (he : e ≤ s.length) :
    e ≤ matchPath d s e ∧ matchPath d s e ≤ s.length := by
  unfold matchPath
  split
  · rename_i hc
    simp only [Bool.and_eq_true, decide_eq_true_eq] at hc
    have := takeWhile_len_le (lkPathByte d) (s.drop (e + 1))
    simp only [List.length_drop] at this
    constructor <;> omega
  · exact ⟨Nat.le_refl _, he⟩

theorem isPrefixOf_len {p l : Bytes} (h : p.isPrefixOf l = true) : p.length ≤ l.length := by
  induction p generalizing l with
  | nil => simp
  | cons a r ih =>
    cases l with
    | nil => simp [List.isPrefixOf] at h
    | cons b t =>
      simp only [List.isPrefixOf, Bool.and_eq_true] at h
      have := ih h.2
      simp; omega

theorem isPrefixOf_head {p l : Bytes} {a : UInt8} {r : Bytes} (hp : p = a :: r) (h : p.isPrefixOf l = true) :
    l.head? = some a := by
  subst hp
  cases l with
  | nil => simp [List.isPrefixOf] at h
  | cons b t =>
    simp only [List.isPrefixOf, Bool.and_eq_true, beq_iff_eq] at h
    simp [h.1]

/-- a URL match: at least 2 bytes, inside the line, and the line starts with a letter of the protocol -/
theorem isPrefixOf_getD {p l : Bytes} (h : p.isPrefixOf l = true) : ∀ j, j < p.length → l.getD j 0 = p.getD j 0 := by
  induction p generalizing l with
  | nil => intro j hj; simp at hj
  | cons a r ih =>
    cases l with
    | nil => simp [List.isPrefixOf] at h
    | cons b t =>
      simp only [List.isPrefixOf, Bool.and_eq_true, beq_iff_eq] at h
      intro j hj
      cases j with
      | zero => simp [h.1]
      | succ k =>
        simp only [List.getD_cons_succ]
        exact ih h.2 k (by simpa using hj)

theorem matchURL_bounds {l : Bytes} {m : Nat} (h : matchURL l = some m) :
    2 ≤ m ∧ m ≤ l.length ∧ (l.head? = some 104 ∨ l.head? = some 102) ∧
      ∃ j, j + 2 ≤ m ∧ isAlnum (l.getD j 0) = false := by
  unfold matchURL at h
  simp only at h
  have step : ∀ (p : Nat) (pre : Bytes), pre.isPrefixOf l = true → pre.length = p → 2 ≤ p →
      (match matchDomain (l.drop p) with
        | none => none
        | some d => some (p + matchPath true (l.drop p) (matchPort (l.drop p) d))) = some m → p + 2 ≤ m ∧ m ≤ l.length := by
    intro p pre hpre hlen hp2 hm
    have hpl := isPrefixOf_len hpre
    cases hd : matchDomain (l.drop p) with
    | none => rw [hd] at hm; cases hm
    | some d =>
      rw [hd] at hm
      simp at hm; subst hm
      obtain ⟨d1, d2⟩ := matchDomain_le hd
      obtain ⟨p1, p2⟩ := matchPort_bounds (l.drop p) d d2
      obtain ⟨q1, q2⟩ := matchPath_bounds true (l.drop p) _ p2
      simp only [List.length_drop] at q2 d2 p2
      constructor <;> omega
  by_cases h1 : lkHTTP.isPrefixOf l = true
  · simp only [h1, if_true] at h
    have := step 7 lkHTTP h1 rfl (by omega) h
    exact ⟨by omega, this.2, Or.inl (isPrefixOf_head rfl h1), 4, by omega, by rw [isPrefixOf_getD h1 4 (by decide)]; decide⟩
  · by_cases h2 : lkHTTPS.isPrefixOf l = true
    · simp only [h1, h2, if_true, Bool.false_eq_true, if_false] at h
      have := step 8 lkHTTPS h2 rfl (by omega) h
      exact ⟨by omega, this.2, Or.inl (isPrefixOf_head rfl h2), 5, by omega, by rw [isPrefixOf_getD h2 5 (by decide)]; decide⟩
    · by_cases h3 : lkFTP.isPrefixOf l = true
      · simp only [h1, h2, h3, if_true, Bool.false_eq_true, if_false] at h
        have := step 6 lkFTP h3 rfl (by omega) h
        exact ⟨by omega, this.2, Or.inr (isPrefixOf_head rfl h3), 3, by omega, by rw [isPrefixOf_getD h3 3 (by decide)]; decide⟩
      · simp [h1, h2, h3] at h

theorem matchWWW_bounds {l : Bytes} {m : Nat} (h : matchWWW l = some m) :
    2 ≤ m ∧ m ≤ l.length ∧ l.head? = some 119 ∧ ∃ j, j + 2 ≤ m ∧ isAlnum (l.getD j 0) = false := by
  unfold matchWWW at h
  split at h
  · rename_i hw
    have hpl := isPrefixOf_len hw
    have hl4 : GM.Ext.domainWWW.length = 4 := rfl
    cases hd : matchDomain (l.drop 4) with
    | none => rw [hd] at h; cases h
    | some d =>
      rw [hd] at h
      simp at h; subst h
      obtain ⟨d1, d2⟩ := matchDomain_le hd
      obtain ⟨q1, q2⟩ := matchPath_bounds false (l.drop 4) d d2
      simp only [List.length_drop] at q2 d2
      exact ⟨by omega, by omega, isPrefixOf_head rfl hw, 3, by omega, by rw [isPrefixOf_getD hw 3 (by decide)]; decide⟩
  · cases h

/-! ### the trailing-character rules -/

theorem closing_fold_le : ∀ (l : Bytes) (a : Int),
    l.foldl (fun a c => if c == 41 then a + 1 else if c == 40 then a - 1 else a) a ≤ a + l.length
  | [], a => by simp
  | c :: rest, a => by
    simp only [List.foldl_cons, List.length_cons]
    by_cases h1 : (c == 41) = true
    · simp only [h1, if_true]
      have := closing_fold_le rest (a + 1); push_cast; omega
    · by_cases h2 : (c == 40) = true
      · simp only [h1, h2, if_true, Bool.false_eq_true, if_false]
        have := closing_fold_le rest (a - 1); push_cast; omega
      · simp only [h1, h2, Bool.false_eq_true, if_false]
        have := closing_fold_le rest a; push_cast; omega

theorem lkClosing_lt {l : Bytes} {m1 : Nat} (h1 : 1 ≤ m1) (hm : m1 ≤ l.length) (hh : l.head? ≠ some 41) :
    lkClosing l m1 ≤ (m1 : Int) - 1 := by
  unfold lkClosing
  cases l with
  | nil => simp at hm; omega
  | cons c rest =>
    have hc : (c == 41) = false := by
      cases hcc : c == 41 with
      | false => rfl
      | true => exact absurd (by simp at hcc; simp [hcc]) hh
    obtain ⟨k, rfl⟩ : ∃ k, m1 = k + 1 := ⟨m1 - 1, by omega⟩
    simp only [List.take_succ_cons, List.foldl_cons, hc, Bool.false_eq_true, if_false]
    have hl : (rest.take k).length ≤ k := by simp; omega
    by_cases h2 : (c == 40) = true
    · simp only [h2, if_true]
      have := closing_fold_le (rest.take k) (-1 : Int); push_cast; omega
    · simp only [h2, Bool.false_eq_true, if_false]
      have := closing_fold_le (rest.take k) (0 : Int); push_cast; omega

theorem entityWalk_le (l : Bytes) : ∀ n : Nat, lkEntityWalk l n ≤ n
  | 0 => by unfold lkEntityWalk; split <;> simp
  | n + 1 => by
    unfold lkEntityWalk
    split
    · have := entityWalk_le l n; push_cast; omega
    · simp

/-- the rules keep a URL match non-empty and inside the match -/
theorem lkURLEnd_bounds {l : Bytes} {m1 m' : Nat} (h : lkURLEnd l m1 = .ok m') (h2 : 2 ≤ m1) (hm : m1 ≤ l.length)
    (hh : l.head? = some 104 ∨ l.head? = some 102 ∨ l.head? = some 119) : 1 ≤ m' ∧ m' ≤ m1 := by
  unfold lkURLEnd at h
  simp only at h
  split at h
  · simp at h; subst h; omega
  · split at h
    · have hne : l.head? ≠ some 41 := by rcases hh with e | e | e <;> rw [e] <;> simp
      have := lkClosing_lt (by omega : 1 ≤ m1) hm hne
      simp at h; subst h
      split
      · constructor <;> omega
      · omega
    · split at h
      · split at h
        · simp at h; subst h; omega
        · have hw := entityWalk_le l (m1 - 2)
          split at h
          · simp at h; subst h; omega
          · split at h
            · cases h
            · rename_i hne hnn
              split at h
              · rename_i hamp
                simp at h; subst h
                have hi0 : 0 ≤ lkEntityWalk l (m1 - 2) := by omega
                constructor
                · -- the walk does not stop at index 0: the line starts with a letter of the protocol, not with `&`
                  cases hz : (lkEntityWalk l (m1 - 2)).toNat with
                  | zero =>
                    exfalso
                    rw [hz] at hamp
                    cases l with
                    | nil => simp at hm; omega
                    | cons c rest =>
                      simp only [List.getD_cons_zero, beq_iff_eq] at hamp
                      subst hamp
                      rcases hh with e | e | e <;> simp at e
                  | succ k => omega
                · omega
              · simp at h; subst h; omega
      · simp at h; subst h; omega

theorem entityWalk_nonneg (l : Bytes) : ∀ n : Nat, (∃ j, j ≤ n ∧ isAlnum (l.getD j 0) = false) → 0 ≤ lkEntityWalk l n
  | 0, ⟨j, hj, ha⟩ => by
    have : j = 0 := by omega
    subst this
    unfold lkEntityWalk
    rw [ha]; decide
  | n + 1, ⟨j, hj, ha⟩ => by
    unfold lkEntityWalk
    split
    · rename_i hal
      have hne : j ≠ n + 1 := fun e => by subst e; rw [ha] at hal; cases hal
      exact entityWalk_nonneg l n ⟨j, by omega, ha⟩
    · omega

/-- the rules answer (no index panic) on a URL match -/
theorem lkURLEnd_ok {l : Bytes} {m1 : Nat} (h2 : 2 ≤ m1) (hm : m1 ≤ l.length)
    (hh : l.head? = some 104 ∨ l.head? = some 102 ∨ l.head? = some 119)
    (hw : ∃ j, j + 2 ≤ m1 ∧ isAlnum (l.getD j 0) = false) : ∃ m', lkURLEnd l m1 = .ok m' ∧ 1 ≤ m' ∧ m' ≤ m1 := by
  cases hr : lkURLEnd l m1 with
  | ok m' => exact ⟨m', rfl, lkURLEnd_bounds hr h2 hm hh⟩
  | error e =>
    exfalso
    obtain ⟨j, hj, ha⟩ := hw
    have hnn := entityWalk_nonneg l (m1 - 2) ⟨j, by omega, ha⟩
    unfold lkURLEnd at hr
    simp only at hr
    split at hr
    · cases hr
    · split at hr
      · cases hr
      · split at hr
        · split at hr
          · cases hr
          · split at hr
            · cases hr
            · split at hr
              · omega
              · split at hr <;> cases hr
        · cases hr

theorem linkifyTrailing_le (l : Bytes) : ∀ n : Nat, GM.Ext.linkifyTrailing l n ≤ n
  | 0 => by simp [GM.Ext.linkifyTrailing]
  | n + 1 => by
    simp only [GM.Ext.linkifyTrailing]
    split
    · have := linkifyTrailing_le l n; omega
    · omega

/-! ### util.FindEmailIndex stays inside the line -/

def alnumAt (run : Bytes) (k : Nat) : Bool := match run[k]? with | some c => isAlnum c | none => false

theorem domBestK_zero (run : Bytes) : domBestK run 0 = if alnumAt run 0 then 2 else 1 := rfl
theorem domBestK_succ (run : Bytes) (k : Nat) : domBestK run (k + 1) = if alnumAt run (k + 1) then k + 3 else domBestK run k := rfl

theorem domBestK_bounds (run : Bytes) : ∀ k, k < run.length → 1 ≤ domBestK run k ∧ domBestK run k ≤ 1 + run.length
  | 0, h => by rw [domBestK_zero]; split <;> constructor <;> omega
  | k + 1, h => by
    rw [domBestK_succ]
    split
    · constructor <;> omega
    · have := domBestK_bounds run k (by omega); constructor <;> omega

theorem domLabel_le {b : Bytes} {n : Nat} (h : domLabel b = some n) : 1 ≤ n ∧ n ≤ b.length := by
  cases b with
  | nil => simp [domLabel] at h
  | cons c rest =>
    simp only [domLabel] at h
    by_cases hc : isAlnum c = true
    · simp only [hc, if_true] at h
      have hr := takeWhile_len_le (fun c => isAlnum c || c == 45) rest
      by_cases he : (rest.takeWhile (fun c => isAlnum c || c == 45)).isEmpty = true
      · simp only [he, if_true] at h
        simp at h; subst h; simp
      · simp only [he, Bool.false_eq_true, if_false] at h
        simp at h; subst h
        have hpos : 0 < (rest.takeWhile (fun c => isAlnum c || c == 45)).length := by
          cases hrun : rest.takeWhile (fun c => isAlnum c || c == 45) with
          | nil => simp [hrun] at he
          | cons x xs => simp
        have := domBestK_bounds (rest.takeWhile (fun c => isAlnum c || c == 45))
          (min 61 ((rest.takeWhile (fun c => isAlnum c || c == 45)).length - 1)) (by omega)
        simp only [List.length_cons]
        constructor <;> omega
    · simp [hc] at h

theorem domRest_le : ∀ (fuel : Nat) (l : Bytes), domRest fuel l ≤ l.length
  | 0, _ => by simp [domRest]
  | fuel + 1, [] => by simp [domRest]
  | fuel + 1, c :: rest => by
    by_cases hc : c = 46
    · subst hc
      simp only [domRest]
      cases hd : domLabel rest with
      | none => simp
      | some n =>
        obtain ⟨_, n2⟩ := domLabel_le hd
        have := domRest_le fuel (rest.drop n)
        simp only [List.length_drop, List.length_cons] at this ⊢
        omega
    · have : domRest (fuel + 1) (c :: rest) = 0 := by
        unfold domRest
        split
        · rfl
        · rename_i heq1 heq; simp at heq; exact absurd heq.1 hc
        · rfl
      rw [this]; omega

theorem findEmailIndex_le (b : Bytes) : findEmailIndex b ≤ b.length := by
  unfold findEmailIndex
  simp only
  split
  · omega
  · split
    · omega
    · split
      · omega
      · rename_i h1 h2 h3
        cases hm : matchEmailDomain (b.drop ((b.takeWhile (fun c => emailTbl c % 2 == 1)).length + 1)) with
        | none => simp only []; omega
        | some n =>
          simp only
          unfold matchEmailDomain at hm
          cases hd : domLabel (b.drop ((b.takeWhile (fun c => emailTbl c % 2 == 1)).length + 1)) with
          | none => rw [hd] at hm; cases hm
          | some k =>
            rw [hd] at hm
            simp at hm; subst hm
            obtain ⟨_, k2⟩ := domLabel_le hd
            have := domRest_le (b.drop ((b.takeWhile (fun c => emailTbl c % 2 == 1)).length + 1)).length
              ((b.drop ((b.takeWhile (fun c => emailTbl c % 2 == 1)).length + 1)).drop k)
            simp only [List.length_drop, List.drop_drop] at this k2
            have hi : (b.takeWhile (fun c => emailTbl c % 2 == 1)).length + 1 < b.length := by omega
            push_cast
            omega

theorem indexByte_first (c : UInt8) : ∀ (l : Bytes) (k i : Nat), l[i]? = some c →
    ∃ a, GM.Ext.indexByte c l k = some a ∧ a ≤ k + i
  | [], _, i, h => by simp at h
  | d :: rest, k, i, h => by
    simp only [GM.Ext.indexByte]
    by_cases hd : (d == c) = true
    · simp only [hd, if_true]; exact ⟨k, rfl, by omega⟩
    · simp only [hd, Bool.false_eq_true, if_false]
      cases i with
      | zero => simp at h; subst h; simp at hd
      | succ j =>
        obtain ⟨a, h1, h2⟩ := indexByte_first c rest (k + 1) j (by simpa using h)
        exact ⟨a, h1, by omega⟩

/-- what util.FindEmailIndex answers when it answers an index: an `@` in front, at least two bytes behind it, inside the line -/
theorem findEmailIndex_shape {b : Bytes} (h : 0 ≤ findEmailIndex b) :
    ∃ i, b[i]? = some 64 ∧ ((i + 2 : Nat) : Int) ≤ findEmailIndex b := by
  generalize hi : (b.takeWhile (fun c => emailTbl c % 2 == 1)).length = i at *
  have hdef : findEmailIndex b =
      if i == 0 then -1 else if b[i]? != some 64 then -1 else if i + 1 ≥ b.length then -1
      else match matchEmailDomain (b.drop (i + 1)) with
        | none => -1
        | some n => ((i + 1 + n : Nat) : Int) := by
    unfold findEmailIndex; simp only [hi]; rfl
  rw [hdef] at h ⊢
  by_cases c1 : (i == 0) = true
  · simp only [c1, if_true] at h; omega
  · simp only [c1, Bool.false_eq_true, if_false] at h ⊢
    by_cases c2 : (b[i]? != some 64) = true
    · simp only [c2, if_true] at h; omega
    · simp only [c2, Bool.false_eq_true, if_false] at h ⊢
      by_cases c3 : i + 1 ≥ b.length
      · simp only [c3, if_true] at h; omega
      · simp only [c3, if_false] at h ⊢
        cases hm : matchEmailDomain (b.drop (i + 1)) with
        | none => rw [hm] at h; simp at h
        | some n =>
          refine ⟨i, by simpa using c2, ?_⟩
          unfold matchEmailDomain at hm
          cases hd : domLabel (b.drop (i + 1)) with
          | none => rw [hd] at hm; cases hm
          | some k =>
            rw [hd] at hm
            simp at hm
            obtain ⟨k1, _⟩ := domLabel_le hd
            subst hm
            simp only
            push_cast
            omega

/-- the e-mail path answers (no slice panic), and a match is non-empty and inside the line -/
theorem lkEmailEnd_ok (l : Bytes) : ∃ r, lkEmailEnd l = .ok r ∧ ∀ m1, r = some m1 → 1 ≤ m1 ∧ m1 ≤ l.length := by
  unfold lkEmailEnd
  by_cases hp : lkHeadPunct l = true
  · rw [if_pos hp]; exact ⟨none, rfl, fun _ h => by cases h⟩
  · rw [if_neg hp]
    simp only
    by_cases hneg : findEmailIndex l < 0
    · rw [if_pos hneg]; exact ⟨none, rfl, fun _ h => by cases h⟩
    · rw [if_neg hneg]
      have h0 : 0 ≤ findEmailIndex l := by omega
      obtain ⟨i, hi, hs⟩ := findEmailIndex_shape h0
      have hle := findEmailIndex_le l
      obtain ⟨a, ha, hai⟩ := indexByte_first 64 l 0 i hi
      have hst : i + 2 ≤ (findEmailIndex l).toNat := by omega
      have hsl : (findEmailIndex l).toNat ≤ l.length := by omega
      simp only [ha]
      split
      · omega
      · rename_i hge
        split
        · exact ⟨none, rfl, fun _ h => by cases h⟩
        · rename_i hdotin
          -- the slice `line[at:stop-1]` holds a '.', so it is not empty
          have hslice : a < (findEmailIndex l).toNat - 1 := by
            by_cases hlt : a < (findEmailIndex l).toNat - 1
            · exact hlt
            · exfalso
              have : (findEmailIndex l).toNat - 1 - a = 0 := by omega
              rw [this] at hdotin
              simp [GM.Ext.indexByte] at hdotin
          by_cases hdot : (l.getD ((findEmailIndex l).toNat - 1) 0 == 46) = true
          · simp only [hdot, if_true]
            split
            · exact ⟨none, rfl, fun _ h => by cases h⟩
            · exact ⟨_, rfl, fun m1 hm => by simp at hm; subst hm; constructor <;> omega⟩
          · simp only [hdot, Bool.false_eq_true, if_false]
            split
            · exact ⟨none, rfl, fun _ h => by cases h⟩
            · exact ⟨_, rfl, fun m1 hm => by simp at hm; subst hm; constructor <;> omega⟩

/-! ### the contract -/

variable {src : Bytes} {segs : List Segment}

/-- the finishing step behind a match `[0, m1)` of the line behind the stripped byte, `1 ≤ m1 ≤ len` -/
theorem linkifyFinish_contract (X : Ctx) (F : SegFacts src segs) (Z : ∀ s ∈ segs, s.padding = 0) {st : St} {c : BCur}
    {b : UInt8} {l : Bytes} (hI : LInv X src segs st c) (hv : BCur.view src segs c = some (b :: l))
    (seg : Segment) (hseg : seg = { start := c.p, stop := BCur.stopOf segs c, padding := 0, forceNewline := false })
    (strip : Bool) (ln : Bytes) (hln : ln = if strip then l else b :: l) (proto email : Bool) (m1 : Nat)
    (h1 : 1 ≤ m1) (h2 : m1 ≤ ln.length) :
    ∃ n st' c', linkifyFinish st seg strip ln proto email m1 = .ok (n, st') ∧ RS src segs st'.rd c' ∧ c.p ≤ c'.p ∧ c.ln ≤ c'.ln ∧
      (match n with
        | none => chain 0 c.p (segsOfL st'.kids) ∧ X.LK st'.kids st'.nextId st'.bottoms
        | some nd => BCur.remaining segs c' + 1 ≤ BCur.remaining segs c ∧
            chain 0 c'.p (segsOfL (st'.kids ++ [nd])) ∧ X.LK (st'.kids ++ [nd]) st'.nextId st'.bottoms) := by
  obtain ⟨v1, v2, v3, v4, v5, v6, v7, v8⟩ := view_some F hI.rs.abs.wf hI.rs.pad hv
  have hm0 : (m1 == 0) = false := by simp; omega
  have hi2 : GM.Ext.linkifyTrailing ln (m1 - 1) + 1 ≤ m1 := by have := linkifyTrailing_le ln (m1 - 1); omega
  simp only [List.length_cons] at v6 v7
  subst hseg
  cases strip with
  | false =>
    simp only [Bool.false_eq_true, if_false] at hln
    subst hln
    simp only [List.length_cons] at h2
    unfold linkifyFinish
    simp only [hm0, Bool.false_eq_true, if_false, bind, Except.bind, Nat.zero_add]
    obtain ⟨r', c', e1, e2, e3, e4, e5, _⟩ := advance_ok F Z hI.rs
      (n := ((GM.Ext.linkifyTrailing (b :: l) (m1 - 1) + 1 : Nat) : Int)) (by omega) (by push_cast; omega)
    rw [e1]
    have hp : c.p ≤ c'.p := by push_cast at e5; omega
    have hr : BCur.remaining segs c' + 1 ≤ BCur.remaining segs c := by push_cast at e3 ⊢; omega
    refine ⟨_, _, c', rfl, e2, hp, e4, hr, ?_, ?_⟩
    · simp only [pure, Except.pure]
      rw [segsOfL_append]
      refine chain_append hI.ch ?_
      simp only [segsOfL, segsOf, List.append_nil]
      exact chain_single (by simp only; omega) (by simp only; omega) (by simp only; push_cast at e5 ⊢; omega)
    · exact X.appendPlain _ hI.lk (by simp [wf])
  | true =>
    simp only [if_true] at hln
    subst hln
    unfold linkifyFinish
    simp only [hm0, Bool.false_eq_true, if_false, if_true, bind, Except.bind]
    obtain ⟨r', c', e1, e2, e3, e4, e5, _⟩ := advance_ok F Z hI.rs
      (n := ((1 + (GM.Ext.linkifyTrailing ln (m1 - 1) + 1) : Nat) : Int)) (by omega) (by push_cast; omega)
    rw [e1]
    have hp : c.p ≤ c'.p := by push_cast at e5; omega
    have hr : BCur.remaining segs c' + 1 ≤ BCur.remaining segs c := by push_cast at e3 ⊢; omega
    refine ⟨_, _, c', rfl, e2, hp, e4, hr, ?_, ?_⟩
    · simp only [pure, Except.pure]
      rw [segsOfL_append]
      have hm := chain_mergeOrAppend (kids := st.kids)
        (s := { start := c.p, stop := c.p + 1, padding := 0, forceNewline := false }) hI.ch (by simp only; omega)
      refine chain_append (by simpa [Segment.withStop] using hm) ?_
      simp only [segsOfL, segsOf, List.append_nil]
      exact chain_single (by simp only; omega) (by simp only; omega) (by simp only; push_cast at e5 ⊢; omega)
    · exact X.appendPlain _ (X.merge _ hI.lk) (by simp [wf])

/-- the Linkify parser keeps the loop's contract, at every byte it is consulted at, for every context invariant -/
theorem linkify_contract (X : Ctx) (W : WFSegs src segs) (Z : ∀ s ∈ segs, s.padding = 0) (env : Env) (trig : UInt8 → Bool) :
    PContract X src segs trig (parseLinkify env) := by
  intro st c b l hI hv _
  have F := segFacts W
  obtain ⟨hpl, hpos⟩ := peekLine_facts F hI.rs
  have hnone : ∀ st0 : St, st0 = st → ∃ n st' c', (Except.ok (none, st0) : PRes) = .ok (n, st') ∧ RS src segs st'.rd c' ∧
      c.p ≤ c'.p ∧ c.ln ≤ c'.ln ∧
      (match n with
        | none => chain 0 c.p (segsOfL st'.kids) ∧ X.LK st'.kids st'.nextId st'.bottoms
        | some nd => BCur.remaining segs c' + 1 ≤ BCur.remaining segs c ∧
            chain 0 c'.p (segsOfL (st'.kids ++ [nd])) ∧ X.LK (st'.kids ++ [nd]) st'.nextId st'.bottoms) :=
    fun st0 e => ⟨none, st0, c, rfl, by rw [e]; exact hI.rs, Int.le_refl _, Int.le_refl _, by rw [e]; exact hI.ch,
      by rw [e]; exact hI.lk⟩
  unfold parseLinkify
  split
  · exact hnone st rfl
  · simp only [hpl, hv, bind, Except.bind, Option.getD_some]
    have hst : ({ st with rd := st.rd } : St) = st := rfl
    generalize hstrip : GM.Ext.linkifyStrip b = strip
    generalize hlnd : (if strip = true then l else b :: l) = ln
    have hln : ln = if strip then l else b :: l := hlnd.symm
    have hfin := fun proto email m1 h1 h2 =>
      linkifyFinish_contract X F Z hI hv st.rd.pos hpos strip ln hln proto email m1 h1 h2
    cases hu : matchURL ln with
    | some m1 =>
      obtain ⟨b1, b2, b3, b4⟩ := matchURL_bounds hu
      obtain ⟨m', q1, q2, q3⟩ := lkURLEnd_ok b1 b2 (by rcases b3 with e | e <;> simp [e]) b4
      simp only [Option.isSome_some, if_true, q1]
      exact hfin _ false m' q2 (by omega)
    | none =>
      simp only [Option.isSome_none, Bool.false_eq_true, if_false, Option.isNone_none, Bool.true_and]
      by_cases hw : GM.Ext.domainWWW.isPrefixOf ln = true
      · simp only [hw, if_true]
        cases hm : matchWWW ln with
        | some m1 =>
          obtain ⟨b1, b2, b3, b4⟩ := matchWWW_bounds hm
          obtain ⟨m', q1, q2, q3⟩ := lkURLEnd_ok b1 b2 (by simp [b3]) b4
          simp only [q1]
          exact hfin _ false m' q2 (by omega)
        | none =>
          simp only []
          obtain ⟨r, r1, r2⟩ := lkEmailEnd_ok ln
          simp only [r1]
          cases r with
          | none => exact hnone _ rfl
          | some m1 =>
            obtain ⟨q2, q3⟩ := r2 m1 rfl
            exact hfin _ true m1 q2 q3
      · have hw' : GM.Ext.domainWWW.isPrefixOf ln = false := by
          cases hq : GM.Ext.domainWWW.isPrefixOf ln with
          | false => rfl
          | true => exact absurd hq hw
        simp only [hw', Bool.false_eq_true, if_false]
        obtain ⟨r, r1, r2⟩ := lkEmailEnd_ok ln
        simp only [r1]
        cases r with
        | none => exact hnone _ rfl
        | some m1 =>
          obtain ⟨q2, q3⟩ := r2 m1 rfl
          exact hfin _ true m1 q2 q3

/-! ### all 16 member sets -/

open GM.ConvertX GM.Convert GM.Proof.ConvertX

theorem inlineTblL_contracts (c : GCfg) (inItem : Bool) (W : WFSegs src segs) (Z : ∀ s ∈ segs, s.padding = 0) (env : Env) :
    ∀ b, ∀ ip ∈ inlineTblL c inItem b,
      PContract (Ctx.normed (linkCtx (BCur.segOf segs 0).start)) src segs (· == b) (ip.parse env) := by
  intro b ip hip
  simp only [inlineTblL, List.mem_append] at hip
  rcases hip with hip | hip
  · exact inlineTbl_contracts c.base inItem W Z env b ip hip
  · split at hip
    · simp only [List.mem_singleton] at hip; subst hip
      exact linkify_contract _ W Z env _
    · cases hip

theorem inlineTblL_32 (c : GCfg) (inItem : Bool) (W : WFSegs src segs) (Z : ∀ s ∈ segs, s.padding = 0) (env : Env) :
    ∀ ip ∈ inlineTblL c inItem 32, ∀ b,
      PContract (Ctx.normed (linkCtx (BCur.segOf segs 0).start)) src segs (· == b) (ip.parse env) := by
  intro ip hip b
  simp only [inlineTblL, inlineTbl_32, List.nil_append] at hip
  split at hip
  · simp only [List.mem_singleton] at hip; subst hip
    exact linkify_contract _ W Z env _
  · cases hip

/-- the inline loop of a block under any of the 16 member sets finishes -/
theorem lineLoopL_total (c : GCfg) (inItem : Bool) (W : WFSegs src segs) (Z : ∀ s ∈ segs, s.padding = 0) (env : Env) :
    ∃ rd st', BlockReader.new src segs = .ok rd ∧
      lineLoopX env (inlineTblL c inItem) (blockFuel src segs) false { rd := rd } = .ok st' := by
  have F := segFacts W
  obtain ⟨r0, e0, a0⟩ := blockReader_init F
  have hz0 : (BCur.init segs).pad = 0 := segOf_pad F Z 0 (Int.le_refl _) F.kpos
  have hI : LInv (Ctx.normed (linkCtx (BCur.segOf segs 0).start)) src segs { rd := r0 } (BCur.init segs) :=
    ⟨⟨a0, hz0⟩, by simp only [segsOfL, chain, BCur.init]; exact (F.rng 0 (Int.le_refl _) F.kpos).1, LK_base _⟩
  obtain ⟨st', c', l1, _⟩ := lineLoopX_total _ F Z env (inlineTblL c inItem) (inlineTblL_32 c inItem W Z env)
    (inlineTblL_contracts c inItem W Z env) (blockFuel src segs) false _ _ hI (blockFuel_gt W Z a0.wf hz0)
  exact ⟨r0, st', e0, l1⟩

theorem inlineLinesL_noLoop (c : GCfg) (env : Env) (src : Bytes) (inItem : Bool) (lines : List Segment) (e : Err)
    (h : inlineLinesL c true env src inItem lines = .error e) : e.isLoop = false := by
  unfold inlineLinesL at h
  split at h
  · cases h
  · split at h
    · cases h; rfl
    · rename_i hw
      have hw' : GM.LinkRef.wf0B src lines = true := by simpa using hw
      obtain ⟨W, Z⟩ := GM.Proof.LinkRefTotal.wf0B_sound hw'
      obtain ⟨rd, st', e0, l1⟩ := lineLoopL_total c inItem W Z env
      unfold parseBlockG at h
      simp only [e0, l1, bind, Except.bind] at h
      cases hp : pdX c.base Bottom.nil st'.kids with
      | error p =>
        rw [hp] at h
        simp only [liftErr, Except.error.injEq] at h
        subst h
        have := pdX_noLoop c.base Bottom.nil st'.kids
        cases p <;> first | rfl | exact absurd hp this
      | ok k => rw [hp] at h; cases h

theorem inlinePhaseL_noLoop (c : GCfg) (env : Env) (src : Bytes) (inItem : Bool) (n : GM.Blocks.Node) {e : Err}
    (h : inlinePhaseL c true env src inItem n = .error e) : e.isLoop = false := by
  unfold inlinePhaseL at h
  split at h
  · cases h
  · split at h
    · cases h
    · split at h
      · cases h
      · exact inlineLinesL_noLoop c env src inItem _ e h

open GM.Proof.ConvertTotal in
mutual
theorem docTreeL_noLoop (c : GCfg) (env : Env) (src : Bytes) (escs : List Int) :
    ∀ (inItem : Bool) (t : GM.Blocks.Tree) (e : Err),
    docTreeL c true env src escs inItem t = .error e → e.isLoop = false
  | inItem, .node n cs, e, h => by
    unfold docTreeL at h
    simp only [bind, Except.bind] at h
    cases h1 : docTreesL c true env src escs (n.kind == .listItem) true cs with
    | error e1 => rw [h1] at h; cases h; exact docTreesL_noLoop c env src escs _ _ cs _ h1
    | ok bs =>
      rw [h1] at h
      simp only at h
      cases h2 : inlinePhaseL c true env src inItem n with
      | error e2 => rw [h2] at h; cases h; exact inlinePhaseL_noLoop c env src inItem n h2
      | ok kids =>
        rw [h2] at h
        simp only at h
        cases h3 : liftErr Err.value
            (inlineTreesL c src (if (c.base.table && GM.TableX.isCellNode src n) = true then GM.TableX.escNodes escs kids else kids)) with
        | error e3 => rw [h3] at h; cases h; exact liftErr_value_noLoop h3
        | ok is =>
          rw [h3] at h
          simp only at h
          cases h4 : liftErr Err.value (blockKindX c.base src n) with
          | error e4 => rw [h4] at h; cases h; exact liftErr_value_noLoop h4
          | ok k => rw [h4] at h; cases h
theorem docTreesL_noLoop (c : GCfg) (env : Env) (src : Bytes) (escs : List Int) :
    ∀ (pi first : Bool) (ts : List GM.Blocks.Tree) (e : Err),
    docTreesL c true env src escs pi first ts = .error e → e.isLoop = false
  | _, _, [], e, h => by unfold docTreesL at h; cases h
  | pi, first, t :: rest, e, h => by
    unfold docTreesL at h
    simp only [bind, Except.bind] at h
    cases h1 : docTreeL c true env src escs (pi && first) t with
    | error e1 => rw [h1] at h; cases h; exact docTreeL_noLoop c env src escs _ t _ h1
    | ok x =>
      rw [h1] at h
      simp only at h
      cases h2 : docTreesL c true env src escs pi false rest with
      | error e2 => rw [h2] at h; cases h; exact docTreesL_noLoop c env src escs _ _ rest _ h2
      | ok xs => rw [h2] at h; cases h
end

/-- **`convertL` never ends in the fuel-exhaustion outcome**, for all 16 member sets -/
theorem convertL_noLoop (c : GCfg) (uc : List (Nat × (Bool × Bool))) (o : ROpts) (src : Bytes) {e : Err}
    (h : convertL c uc o src = .error e) : e.isLoop = false := by
  unfold convertL convertLWith at h
  simp only [bind, Except.bind] at h
  cases hp : parseDocL c true uc src with
  | error e1 =>
    rw [hp] at h; cases h
    unfold parseDocL at hp
    simp only [bind, Except.bind] at hp
    cases hb : blockPhaseX c.base true src with
    | error p =>
      rw [hb] at hp
      simp only [liftErr] at hp
      cases hp
      have := blockPhaseX_noLoop c.base src
      cases p <;> first | rfl | exact absurd hb this
    | ok st =>
      rw [hb] at hp
      simp only [liftErr] at hp
      exact docTreeL_noLoop c _ src _ _ _ _ hp
  | ok t => rw [hp] at h; exact renderDocX_noLoop c.base o t h

end GM.Proof.ConvertLTotal
