/-
  GM.Proof.QuoteSimRun — whole runs: `parseBlocks` on `src` (run A) against `parseBlocks` on `quotePrefix src`
  (run B), line by line. B opens its Blockquote on the first line and then stays in the per-line loop with the
  Blockquote at the bottom of its stack; A alternates between the outer loop (nothing open: blank lines are
  skipped) and the per-line loop.
-/
import GM.Proof.QuoteSimLines

namespace GM.Blocks
open GM GM.Text GM.Spec GM.Proof.Reader

/-! ### run B alone: the Blockquote consumes its marker at the start of a line -/

theorem indentWidthI_gt (t : Bytes) (v : Int) : indentWidthI (62 :: t) v = (0, 0) := by
  simp [indentWidthI, indentWidthGo]

theorem view_marker {src k ls} (h : LineAt src k ls) :
    RCur.view (quotePrefix src) ⟨k, ls + 2 * k, 0⟩ = some (62 :: 32 :: sub src ls (lineEnd src ls)) ∧
    RCur.seg (quotePrefix src) ⟨k, ls + 2 * k, 0⟩ =
      { start := ((ls + 2 * k : Nat) : Int), stop := ((lineEnd src ls + 2 * (k + 1) : Nat) : Int), padding := 0 } := by
  have hge := qp_length_ge h
  have hlt := lt_lineEnd src h.lt
  constructor
  · simp only [RCur.view, spaces, List.replicate_zero, List.nil_append]
    rw [if_pos (by omega), qp_lineEnd_marker h, qp_sub_line h]
  · simp only [RCur.seg, qp_lineEnd_marker h]
    rfl

/-- blockquoteParser.process on B at the start of line `k`: it answers true and stands behind `"> "` -/
theorem bqProcess_marker {src k ls} (hl : LineAt src k ls) {sB : St}
    (hb : RI (quotePrefix src) sB.r ⟨k, ls + 2 * k, 0⟩) :
    ∃ r', blockquoteProcess sB = .ok (true, { sB with r := r' }) ∧
      RI (quotePrefix src) r' ⟨k, ls + 2 * (k + 1), 0⟩ := by
  have hge := qp_length_ge hl
  have hlt := lt_lineEnd src hl.lt
  obtain ⟨hview, _⟩ := view_marker hl
  obtain ⟨m1, m2⟩ := qp_marker hl
  have hrest : (sub src ls (lineEnd src ls)).length = lineEnd src ls - ls := length_sub src (lineEnd_le src ls)
  -- peekLine
  obtain ⟨r1, e1, h1⟩ := ri_peekLine hb
  have p1 : peekLine sB = .ok ((some (62 :: 32 :: sub src ls (lineEnd src ls)), RCur.seg (quotePrefix src) ⟨k, ls + 2 * k, 0⟩),
      { sB with r := r1 }) := by
    unfold GM.Blocks.peekLine; rw [e1, hview]; rfl
  -- lineOffset
  obtain ⟨v, r2, e2, h2, _⟩ := ri_lineOffset h1
  have p2 : lineOffset { sB with r := r1 } = .ok (v, { sB with r := r2 }) := by
    unfold GM.Blocks.lineOffset; simp only; rw [e2]; rfl
  -- Advance(1): over the `>`
  obtain ⟨r3, e3, h3⟩ := ri_advance h2 (n := 1) (by decide)
  have c3 : RCur.advN (quotePrefix src) (1 : Int).toNat ⟨k, ls + 2 * k, 0⟩ = ⟨k, ls + 2 * k + 1, 0⟩ := by
    have := advN_bytes (quotePrefix src) 1 ⟨k, ls + 2 * k, 0⟩ rfl (fun j hj => by
      have : j = 0 := by omega
      subst this
      simp only [Nat.add_zero]
      exact ⟨by omega, by rw [m1]; decide⟩)
    simpa using this
  rw [c3] at h3
  have p3 : advance 1 { sB with r := r2 } = .ok ((), { sB with r := r3 }) := by
    unfold GM.Blocks.advance; simp only; rw [e3]; rfl
  -- AdvanceAndSetPadding(1, 0): over the space
  obtain ⟨r4, e4, h4⟩ := ri_advanceAndSetPadding h3 (n := 1) (by decide) 0
  have c4 : advPadCur (quotePrefix src) 1 0 ⟨k, ls + 2 * k + 1, 0⟩ = ⟨k, ls + 2 * (k + 1), 0⟩ := by
    rw [advPadCur_zero _ _ _ _ (by decide)]
    have := advN_bytes (quotePrefix src) 1 ⟨k, ls + 2 * k + 1, 0⟩ rfl (fun j hj => by
      have : j = 0 := by omega
      subst this
      simp only [Nat.add_zero]
      exact ⟨by omega, by rw [m2]; decide⟩)
    simp only [Int.toNat_one] at this ⊢
    rw [this]; simp; omega
  rw [c4] at h4
  have p4 : advanceAndSetPadding 1 0 { sB with r := r3 } = .ok ((), { sB with r := r4 }) := by
    unfold GM.Blocks.advanceAndSetPadding; simp only; rw [e4]; rfl
  refine ⟨r4, ?_, h4⟩
  unfold blockquoteProcess
  rw [bind_run p1]
  simp only [Option.getD_some]
  rw [bind_run p2]
  simp only [indentWidthI_gt]
  have hlen : ¬ ((0 : Int) ≥ ((62 :: 32 :: sub src ls (lineEnd src ls)).length : Int)) := by
    simp only [List.length_cons]; omega
  have hlen1 : ¬ ((0 : Int) + 1 ≥ ((62 :: 32 :: sub src ls (lineEnd src ls)).length : Int)) := by
    simp only [List.length_cons, hrest]; omega
  have c0 : (decide ((0 : Int) > 3) || decide ((0 : Int) ≥ ((62 :: 32 :: sub src ls (lineEnd src ls)).length : Int))) = false := by
    rw [decide_eq_false hlen]; rfl
  simp only [c0, Bool.false_eq_true, if_false]
  have i0 : liftE (idx (62 :: 32 :: sub src ls (lineEnd src ls)) 0) { sB with r := r2 } = .ok ((62 : UInt8), { sB with r := r2 }) := rfl
  rw [bind_run i0]
  simp only [bne_self_eq_false, Bool.false_eq_true, if_false]
  rw [if_neg (by simpa using hlen1)]
  have i1 : liftE (idx (62 :: 32 :: sub src ls (lineEnd src ls)) (0 + 1)) { sB with r := r2 } = .ok ((32 : UInt8), { sB with r := r2 }) := rfl
  rw [bind_run i1]
  have c10 : ((32 : UInt8) == 10) = false := by decide
  have c32 : ((32 : UInt8) == 32 || (32 : UInt8) == 9) = true := by decide
  have c9 : ((32 : UInt8) == 9) = false := by decide
  simp only [c10, c32, c9, Bool.false_eq_true, if_false, if_true]
  rw [show ((0 : Int) + 1) = 1 by rfl, bind_run p3]
  simp only [pure_bind, beq_self_eq_true, Bool.true_or, if_true]
  rw [bind_run p4]
  rfl

/-! ### the state relation at the start of line `k` -/

structure LS (src : Bytes) (al : BP → Bool) (k ls : Nat) (sA sB : St) : Prop where
  tf : ∀ c ∈ src, c ≠ 9
  ra : RI src sA.r ⟨k, ls, 0⟩
  rb : RI (quotePrefix src) sB.r ⟨k, ls + 2 * k, 0⟩
  n : StoreRel src sA.nodes sB.nodes
  c : CtxRelL sA.pc sB.pc
  a : AInv al sA.pc sA.nodes
  strict : sA.pc.opened ≠ [] → sB.pc.blockOffset = sA.pc.blockOffset ∧ sB.pc.blockIndent = sA.pc.blockIndent
  f : FEc al sA.nodes sB.nodes

theorem blockquoteContinue_marker {src k ls} (hl : LineAt src k ls) {sB : St}
    (hb : RI (quotePrefix src) sB.r ⟨k, ls + 2 * k, 0⟩) :
    ∃ r', bpContinue .blockquote 1 sB = .ok (stContinueHasChildren, { sB with r := r' }) ∧
      RI (quotePrefix src) r' ⟨k, ls + 2 * (k + 1), 0⟩ := by
  obtain ⟨r', e, h'⟩ := bqProcess_marker hl hb
  refine ⟨r', ?_, h'⟩
  show blockquoteContinue 1 sB = _
  unfold blockquoteContinue
  rw [bind_run e]
  rfl

/-- the blank-line statistics entry B records for its Blockquote on line `k` -/
def bqStat (src : Bytes) (k ls : Nat) : LineStat :=
  { lineNum := k, level := 0, isBlank := isBlank (62 :: 32 :: sub src ls (lineEnd src ls)) }

/-- B's per-line loop at its Blockquote (level 0), at the start of a line that exists: the marker is consumed;
    then either the Blockquote is the last opened block (openBlocks below it) or the loop goes on at level 1 -/
theorem bHead {src al k ls} {sA sB : St} (h : LS src al k ls sA sB) (hl : LineAt src k ls) (LB : Int)
    (obB restB : List Block) (stB : List LineStat) :
    ∃ r', R3 src k ls ls sA.r r' ∧
      lineLoop 0 obB LB (bqBlock :: restB) 0 stB sB =
        (if ((0 : Int) == LB) = true then do
            let _ ← openBlocks 1 (isBlankLine ((k : Int) - 1) 0 (stB ++ [bqStat src k ls]))
            pure (LineOutcome.next, stB ++ [bqStat src k ls])
          else lineLoop 0 obB LB restB (0 + 1) (stB ++ [bqStat src k ls])) { sB with r := r' } := by
  obtain ⟨hview, _⟩ := view_marker hl
  obtain ⟨r1, e1, h1⟩ := ri_peekLine h.rb
  have p1 : peekLine sB = .ok ((some (62 :: 32 :: sub src ls (lineEnd src ls)), RCur.seg (quotePrefix src) ⟨k, ls + 2 * k, 0⟩),
      { sB with r := r1 }) := by
    unfold GM.Blocks.peekLine; rw [e1, hview]; rfl
  have hline : r1.line = k := by
    have := h1.abs.line; simpa [clearLo] using this
  have p2 : position { sB with r := r1 } = .ok (((k : Int), r1.pos), { sB with r := r1 }) := by
    unfold GM.Blocks.position Reader.position; rw [hline]; rfl
  obtain ⟨r', e3, h3⟩ := blockquoteContinue_marker (sB := { sB with r := r1 }) hl h1
  have hroot := h.n.node 0
  have hk := hroot.kind
  simp only [beq_self_eq_true, if_true] at hk
  have hk1 : (sB.nodes.getD 1 default).kind = .blockquote := by
    have : (sB.nodes.getD (0 + 1) default).kind = .blockquote := hk.1
    simpa using this
  have p3 : getNode bqBlock.node { sB with r := r1 } = .ok (sB.nodes.getD 1 default, { sB with r := r1 }) := rfl
  refine ⟨r', ⟨h.tf, InL.start hl, h.ra, h3⟩, ?_⟩
  conv => lhs; unfold lineLoop
  rw [bind_run p1]
  simp only
  rw [bind_run p2]
  simp only
  rw [bind_run p3, hk1]
  simp only [bqBlock] at e3 ⊢
  have hne : (Kind.blockquote != Kind.paragraph) = true := by decide
  rw [if_pos hne, bind_run e3]
  simp only [stContinueHasChildren, Bool.true_and, bqStat, ↓reduceIte, Bool.not_false]

end GM.Blocks
