/-
  GM.Proof.CMFrag21Frag — stage 21 at the level of the spec-side fragment `F21Doc`: the conformance theorems (with /
  without final line feed), from the inline facts `F21InlG`.
-/
import GM.Proof.CMFrag21Quote
import GM.Proof.CMFrag21Bridge
import GM.Proof.CMFragRender21
import GM.Proof.CMFrag21Inl
import GM.Proof.CMFragClassG21
import GM.Proof.CMFrag22Frag

namespace GM.Proof.CMFrag
open GM GM.Text GM.Blocks GM.Spec GM.Spec.CM GM.Spec.CMFrag

def fitemsOf (d : F21Doc) : List (Nat × FBlock21) := d.items.map fun it => (it.sep, fblockOfS21 it.block)

theorem fitemsOf_raw (d : F21Doc) : (fitemsOf d).map (fun it => (it.1, fraw it.2)) = d.items.map convF21 := by
  simp [fitemsOf, convF21, List.map_map, Function.comp_def]

theorem fitemsOf_nodes (d : F21Doc) :
    (fitemsOf d).map (fun it => fNode it.2) = (d.items.map fun it => fblockOfS21 it.block).map fNode := by
  simp [fitemsOf, List.map_map, Function.comp_def]

theorem fitemsOf_good (d : F21Doc) (h : F21Frag d) : ∀ it ∈ fitemsOf d, FGood it.2 := by
  obtain ⟨hok, _⟩ := f21frag_parts d h
  intro x hx
  obtain ⟨it, hit, rfl⟩ := List.mem_map.mp hx
  exact fgood_ofS21 it.block (hok it hit)

theorem fblocks_good (d : F21Doc) (h : F21Frag d) : ∀ b ∈ d.items.map (fun it => fblockOfS21 it.block), FGood b := by
  obtain ⟨hok, _⟩ := f21frag_parts d h
  intro x hx
  obtain ⟨it, hit, rfl⟩ := List.mem_map.mp hx
  exact fgood_ofS21 it.block (hok it hit)

theorem fitemsOf_seps (d : F21Doc) (h : F21Frag d) : SepsOK6 none ((fitemsOf d).map fun it => (it.1, fraw it.2)) := by
  obtain ⟨_, hs⟩ := f21frag_parts d h
  rw [fitemsOf_raw]
  exact f21sepsOK_of none d.items hs

theorem fitemsOf_ic (d : F21Doc) (h : F21Frag d) : IcOK6 false ((fitemsOf d).map fun it => (it.1, fraw it.2)) := by
  obtain ⟨_, hs⟩ := f21frag_parts d h
  rw [fitemsOf_raw]
  exact f21icOK_of none d.items hs

/-- **the conformance theorem of stage 21** -/
theorem fragment21_conforms_of (H : F21InlG) (d : F21Doc) (h : F21Frag d) (uc : List (Nat × (Bool × Bool))) :
    GM.Convert.convertCore uc cmOpts (spellF21 d) = .ok (expectedF21 d) := by
  rw [spellF21_raw, ← fitemsOf_raw]
  refine convert_raw21 (f21Inl_of_G H) uc (fitemsOf d) d.trail (fitemsOf_good d h) (fitemsOf_seps d h)
    (fitemsOf_ic d h) _ ?_
  rw [fitemsOf_nodes, renderDoc_f21 _ (fblocks_good d h), fDocHtml_ofS21 d h]

/-- … without the final line feed (the last block is not an indented code block) -/
theorem fragment21E_conforms_of (H : F21InlG) (d : F21Doc) (h : F21FragE d) (uc : List (Nat × (Bool × Bool))) :
    GM.Convert.convertCore uc cmOpts (spellF21E d) = .ok (expectedF21 d) := by
  obtain ⟨hf, _, hne, hl⟩ := f21fragE_parts d h
  rw [spellF21E_raw d h, ← fitemsOf_raw]
  refine convert_raw21E (f21Inl_of_G H) uc (fitemsOf d) (by simpa [fitemsOf] using hne) (fitemsOf_good d hf)
    (fitemsOf_seps d hf) (fitemsOf_ic d hf) (by rw [fitemsOf_raw]; exact f21lastNotIc_of d hl) _ ?_
  rw [fitemsOf_nodes, renderDoc_f21 _ (fblocks_good d hf), fDocHtml_ofS21 d hf]

/-- **stage 21**, with the inline facts discharged -/
theorem fragment21_conforms (d : F21Doc) (h : F21Frag d) (uc : List (Nat × (Bool × Bool))) :
    GM.Convert.convertCore uc cmOpts (spellF21 d) = .ok (expectedF21 d) :=
  fragment21_conforms_of f21InlG_holds d h uc

theorem fragment21E_conforms (d : F21Doc) (h : F21FragE d) (uc : List (Nat × (Bool × Bool))) :
    GM.Convert.convertCore uc cmOpts (spellF21E d) = .ok (expectedF21 d) :=
  fragment21E_conforms_of f21InlG_holds d h uc

theorem fitemsOf_noic (d : F21Doc) (hn : ∀ it ∈ d.items, it.block.isIc = false) :
    ∀ it ∈ fitemsOf d, it.2.isIc = false := by
  intro x hx
  obtain ⟨it, hit, rfl⟩ := List.mem_map.mp hx
  show (fblockOfS21 it.block).isIc = false
  rw [isIc_fblockOfS21]; exact hn it hit

/-- **stage 23: a stage-21 document inside `k + 1` nested block quotes** (wider class of quotesim2; no `[`, hence no link /
    image atoms; no indented code block) -/
theorem fragment23_conforms_of (HB : BPFree) (k : Nat) (d : F21Doc) (h : GF21QFrag d) (uc : List (Nat × (Bool × Bool))) :
    GM.Convert.convertCore uc cmOpts (quoteLinesN (k + 1) (spellF21 d)) = .ok (wrapQ (k + 1) (expectedF21 d)) := by
  have hf := gf21qfrag_f21frag h
  have hnb := gf21qclean_no_bracket d h
  have hsim := simOK_quoteLinesN (fun k => (gf21qclean_classG_N d h k).1)
  have hnoic := fitemsOf_noic d (gf21qfrag_noic h)
  rw [quoteLinesN_eq, spellF21_raw, ← fitemsOf_raw] at *
  refine convert_nest21 HB f21InlG_holds uc (fitemsOf d) d.trail (fitemsOf_good d hf) (fitemsOf_seps d hf) hnoic hsim hnb
    (k + 1) _ ?_
  rw [fitemsOf_nodes, renderDoc_nest_f21 (k + 1) _ (fblocks_good d hf), fDocHtml_ofS21 d hf]

end GM.Proof.CMFrag
