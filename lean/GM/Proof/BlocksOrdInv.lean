/-
  GM.Proof.BlocksOrdInv — the node-store invariant of the ORDER proof and its preservation by every `Close` function
  and by `closeBlocks`.

  `Inv src B s`: (1) every block that is not raw (`!IsRaw()`: everything but CodeBlock / FencedCodeBlock / HTMLBlock) has
  lines that increase from 0 and all end at or before `B`; (2) a Paragraph has ≥ 1 line; (3) `temporaryParagraphKey`
  points to a Paragraph; (4) every entry of `pc.openedBlocks` has the kind its parser builds; (5) `NodesOK`.
  `B` is the start of the current source line while nothing has been appended on it ("clean"), afterwards the end of the
  line. The `Close` functions only trim, cut, and copy (GM.Proof.BlocksOrdPar / BlocksOrdCopy), so they keep `Inv src B`
  for every `B`.
-/
import GM.Proof.BlocksOrdCopy

namespace GM.Blocks
open GM GM.Text GM.Spec GM.Proof.Reader
open GM.Proof.BlocksWF0 (isRaw)

/-- the kinds whose nodes never carry lines: Document, Blockquote, List, ListItem, ThematicBreak -/
def noLinesKind : Kind → Bool
  | .document | .blockquote | .list | .listItem | .thematicBreak => true
  | _ => false

theorem noLinesKind_of_raw {k : Kind} (h : isRaw k = true) : noLinesKind k = false := by
  cases k <;> first | rfl | exact absurd h (by decide)

/-- a block that is not raw has increasing lines that end at or before `B` (of non-empty segments); a raw block has
    increasing lines that end at or before `B`; a container or thematic break has no lines -/
def NodeB (B : Int) (n : Node) : Prop :=
  (isRaw n.kind = false →
    OrdFrom 0 n.lines ∧ Below B n.lines ∧ ∀ t ∈ n.lines, t.start < t.stop ∧ t.forceNewline = false) ∧
  (isRaw n.kind = true → OrdFrom 0 n.lines ∧ Below B n.lines) ∧
  (noLinesKind n.kind = true → n.lines = [])

theorem NodeB.congr {B : Int} {n n' : Node} (hk : n'.kind = n.kind) (hl : n'.lines = n.lines) (h : NodeB B n) :
    NodeB B n' := by
  unfold NodeB at *
  rw [hk, hl]; exact h

theorem NodeB.nil (B : Int) {n : Node} (h : n.lines = []) : NodeB B n := by
  unfold NodeB
  rw [h]
  exact ⟨fun _ => ⟨trivial, Below.nil B, fun t ht => by cases ht⟩, fun _ => ⟨trivial, Below.nil B⟩, fun _ => rfl⟩


structure Inv (src : Bytes) (B : Int) (s : St) : Prop where
  nrb : ∀ i, NodeB B (nd s i)
  pne : ∀ i, (nd s i).kind = .paragraph → (nd s i).lines ≠ []
  pnb : ∀ i, (nd s i).kind = .paragraph → ∀ t ∈ (nd s i).lines, NonBlankSeg src t
  tmpk : ∀ t, s.pc.tmpPara = some t → (nd s t).kind = .paragraph
  kinds : ∀ b ∈ s.pc.opened, (nd s b.node).kind = b.bp.kind ∧ b.node < s.nodes.length
  nodes : NodesOK src s

theorem NodeB.mono {B B' : Int} (h : B ≤ B') {n : Node} (hn : NodeB B n) : NodeB B' n :=
  ⟨fun hr => ⟨(hn.1 hr).1, (hn.1 hr).2.1.mono h, (hn.1 hr).2.2⟩, fun hr => ⟨(hn.2.1 hr).1, (hn.2.1 hr).2.mono h⟩,
    hn.2.2⟩

theorem Inv.mono {src : Bytes} {B B' : Int} {s : St} (h : B ≤ B') (hi : Inv src B s) : Inv src B' s :=
  ⟨fun i => (hi.nrb i).mono h, hi.pne, hi.pnb, hi.tmpk, hi.kinds, hi.nodes⟩

theorem mem_nodes_nd {s : St} {n : Node} (h : n ∈ s.nodes) : ∃ i, i < s.nodes.length ∧ n = nd s i := by
  obtain ⟨i, hi, e⟩ := List.getElem_of_mem h
  exact ⟨i, hi, by simp [nd, List.getD_eq_getElem?_getD, List.getElem?_eq_getElem hi, e]⟩

theorem nd_mem {s : St} {i : Nat} (h : i < s.nodes.length) : nd s i ∈ s.nodes := by
  simp only [nd, List.getD_eq_getElem?_getD, List.getElem?_eq_getElem h, Option.getD_some]
  exact List.getElem_mem h

/-- the reader does not matter -/
theorem Inv.congr_r {src : Bytes} {B : Int} {s : St} (hi : Inv src B s) (r' : Reader) : Inv src B { s with r := r' } :=
  ⟨hi.nrb, hi.pne, hi.pnb, hi.tmpk, hi.kinds, hi.nodes⟩

/-- of the context only `tmpPara` and `opened` matter -/
theorem Inv.congr_pc {src : Bytes} {B : Int} {s : St} (hi : Inv src B s) (pc' : Ctx) (ht : pc'.tmpPara = s.pc.tmpPara)
    (ho : ∀ b ∈ pc'.opened, b ∈ s.pc.opened) : Inv src B { s with pc := pc' } :=
  ⟨hi.nrb, hi.pne, hi.pnb, fun t h => hi.tmpk t (by rw [← ht]; exact h), fun b hb => hi.kinds b (ho b hb), hi.nodes⟩

/-- a step that keeps lines, nil flags and kinds of all nodes, the reader and the context -/
theorem Inv.lk {src : Bytes} {B : Int} {s s' : St} (hi : Inv src B s) (h : LK s s') : Inv src B s' := by
  refine ⟨fun i => ?_, fun i hk => ?_, fun i hk => ?_, fun t ht => ?_, fun b hb => ?_, fun n hn => ?_⟩
  · exact (hi.nrb i).congr (h.same i).2.2 (h.same i).1
  · rw [(h.same i).2.2] at hk; rw [(h.same i).1]; exact hi.pne i hk
  · rw [(h.same i).2.2] at hk; rw [(h.same i).1]; exact hi.pnb i hk
  · rw [h.pc] at ht; rw [(h.same t).2.2]; exact hi.tmpk t ht
  · rw [h.pc] at hb; rw [(h.same _).2.2, h.len]; exact hi.kinds b hb
  · obtain ⟨i, _, rfl⟩ := mem_nodes_nd hn
    have := nodeOK_nd hi.nodes i
    exact ⟨by rw [(h.same i).1]; exact this.lines, by rw [(h.same i).1, (h.same i).2.1]; exact this.nil⟩

/-- one node gets a new line list (everything else of every node that `Inv` looks at stays) -/
structure LinesAt (X : Nat) (ls : List Segment) (s s' : St) : Prop where
  len : s'.nodes.length = s.nodes.length
  kind : ∀ i, (nd s' i).kind = (nd s i).kind
  other : ∀ i, i ≠ X → (nd s' i).lines = (nd s i).lines ∧ (nd s' i).linesNil = (nd s i).linesNil
  lines : (nd s' X).lines = ls
  nil : (nd s' X).linesNil = true → ls = []
  r : s'.r = s.r
  tmp : ∀ t, s'.pc.tmpPara = some t → s.pc.tmpPara = some t
  opened : s'.pc.opened = s.pc.opened

theorem Inv.linesAt {src : Bytes} {B : Int} {s s' : St} {X : Nat} {ls : List Segment} (hi : Inv src B s)
    (h : LinesAt X ls s s')
    (hb : isRaw (nd s X).kind = false → OrdFrom 0 ls ∧ Below B ls ∧ ∀ t ∈ ls, t.start < t.stop ∧ t.forceNewline = false)
    (hp : (nd s X).kind = .paragraph → ls ≠ [] ∧ ∀ t ∈ ls, NonBlankSeg src t) (hok : LinesOK src ls)
    (hrw : isRaw (nd s X).kind = true → OrdFrom 0 ls ∧ Below B ls)
    (hnl : noLinesKind (nd s X).kind = true → ls = []) : Inv src B s' := by
  refine ⟨fun i => ?_, fun i hk => ?_, fun i hk => ?_, fun t ht => ?_, fun b hbm => ?_, fun n hn => ?_⟩
  · by_cases hx : i = X
    · subst hx
      unfold NodeB
      rw [h.kind i, h.lines]
      exact ⟨hb, hrw, hnl⟩
    · exact (hi.nrb i).congr (h.kind i) (h.other i hx).1
  · rw [h.kind i] at hk
    by_cases hx : i = X
    · subst hx; rw [h.lines]; exact (hp hk).1
    · rw [(h.other i hx).1]; exact hi.pne i hk
  · rw [h.kind i] at hk
    by_cases hx : i = X
    · subst hx; rw [h.lines]; exact (hp hk).2
    · rw [(h.other i hx).1]; exact hi.pnb i hk
  · rw [h.kind t]; exact hi.tmpk t (h.tmp t ht)
  · rw [h.opened] at hbm; rw [h.kind, h.len]; exact hi.kinds b hbm
  · obtain ⟨i, _, rfl⟩ := mem_nodes_nd hn
    by_cases hx : i = X
    · subst hx; exact ⟨by rw [h.lines]; exact hok, fun hn => by rw [h.lines]; exact h.nil hn⟩
    · have := nodeOK_nd hi.nodes i
      exact ⟨by rw [(h.other i hx).1]; exact this.lines, by rw [(h.other i hx).1, (h.other i hx).2]; exact this.nil⟩

theorem linesAt_upd (s : St) (X : Nat) (ls : List Segment) (hx : X < s.nodes.length)
    (hnil : (nd s X).linesNil = true → ls = []) :
    LinesAt X ls s { s with nodes := s.nodes.set X { (nd s X) with lines := ls } } := by
  have hnd : ∀ i, nd ({ s with nodes := s.nodes.set X { (nd s X) with lines := ls } } : St) i =
      if i = X then { (nd s X) with lines := ls } else nd s i := by
    intro i
    have : nd ({ s with nodes := s.nodes.set X { (nd s X) with lines := ls } } : St) i =
        nd (upd s X fun n => { n with lines := ls }) i := rfl
    rw [this, nd_upd]
    by_cases hi : i = X
    · subst hi; simp [hx]
    · have : ¬ (X = i ∧ X < s.nodes.length) := fun hh => hi hh.1.symm
      rw [if_neg this, if_neg hi]
  refine ⟨by simp, fun i => ?_, fun i hi => ?_, ?_, ?_, rfl, fun _ h => h, rfl⟩
  · rw [hnd]; split
    · next h => rw [h]
    · rfl
  · rw [hnd, if_neg hi]; exact ⟨rfl, rfl⟩
  · rw [hnd, if_pos rfl]
  · rw [hnd, if_pos rfl]; exact hnil

/-- the store does not shrink and existing nodes keep their kind -/
def KG (s s' : St) : Prop := s.nodes.length ≤ s'.nodes.length ∧ ∀ i, i < s.nodes.length → (nd s' i).kind = (nd s i).kind

theorem KG.refl (s : St) : KG s s := ⟨Nat.le_refl _, fun _ _ => rfl⟩
theorem KG.trans {a b c : St} (h1 : KG a b) (h2 : KG b c) : KG a c :=
  ⟨Nat.le_trans h1.1 h2.1, fun i hi => (h2.2 i (Nat.lt_of_lt_of_le hi h1.1)).trans (h1.2 i hi)⟩
theorem LinesAt.kg {X : Nat} {ls : List Segment} {s s' : St} (h : LinesAt X ls s s') : KG s s' :=
  ⟨by rw [h.len]; exact Nat.le_refl _, fun i _ => h.kind i⟩
theorem Copies.kg {s s' : St} (h : Copies s s') : KG s s' := ⟨h.len, fun i hi => (h.old i hi).2.2⟩
theorem LK.kg {s s' : St} (h : LK s s') : KG s s' := ⟨by rw [h.len]; exact Nat.le_refl _, fun i _ => (h.same i).2.2⟩
theorem KG.of_nodes {s s' : St} (h : s'.nodes = s.nodes) : KG s s' := ⟨by rw [h]; exact Nat.le_refl _, fun i _ => by simp only [nd, h]⟩

/-! ### the `Close` functions keep `Inv` -/

theorem paragraphClose_inv {src : Bytes} {B : Int} {s s' : St} {node : Nat} (hi : Inv src B s) (hsrc : s.r.source = src)
    (hk : (nd s node).kind = .paragraph) (hlt : node < s.nodes.length)
    (e : paragraphClose node s = .ok ((), s')) : Inv src B s' ∧ s'.r = s.r ∧ s'.pc = s.pc ∧ KG s s' := by
  have hne := hi.pne node hk
  have hl : LinesOK src (nd s node).lines := (nodeOK_nd hi.nodes node).lines
  obtain ⟨hr, hpc, ls, hok, hsh, hpf, hnbl, hn⟩ := (paragraphClose_lines node hsrc hl hne).of_ok e
  have hall := hnbl (hi.pnb node hk)
  have hnb := (hi.nrb node).1 (by rw [hk]; rfl)
  have hs' : s' = { s with nodes := s.nodes.set node { (nd s node) with lines := ls } } := by
    cases s'; simp only at hr hpc hn; subst hr hpc hn; rfl
  have hlen := hsh.length
  have hlsne : ls ≠ [] := by
    intro e0; rw [e0] at hlen; exact hne (List.length_eq_zero_iff.1 hlen.symm)
  have hla := linesAt_upd s node ls hlt (fun hn0 => absurd ((nodeOK_nd hi.nodes node).nil hn0) hne)
  rw [← hs'] at hla
  exact ⟨hi.linesAt hla (fun _ => ⟨OrdFrom.shrinks hsh hnb.1, Below.shrinks hsh hnb.2.1,
      fun t ht => ⟨(hall t ht).2, (hpf t ht).2⟩⟩) (fun _ => ⟨hlsne, fun t ht => (hall t ht).1⟩) hok
      (fun hr => by rw [hk] at hr; cases hr) (fun hr => by rw [hk] at hr; cases hr), hr, hpc, hla.kg⟩

theorem codeClose_inv {src : Bytes} {B : Int} {s s' : St} {node : Nat} (hi : Inv src B s)
    (hk : (nd s node).kind = .codeBlock) (hlt : node < s.nodes.length)
    (e : codeClose node s = .ok ((), s')) : Inv src B s' ∧ s'.r = s.r ∧ s'.pc = s.pc ∧ KG s s' := by
  unfold codeClose at e
  obtain ⟨n, s1, h1, k1⟩ := obind_ok e
  obtain ⟨rfl, hs1⟩ := ogetNode_ok h1
  subst s1
  obtain ⟨src', s2, h2, k2⟩ := obind_ok k1
  have hs2 : s2 = s := by cases h2; rfl
  subst s2
  obtain ⟨len, s3, h3, k3⟩ := obind_ok k2
  obtain ⟨_, hs3⟩ := oliftE_ok h3
  subst s3
  dsimp only at k3
  split at k3
  · obtain ⟨_, _, ht, _⟩ := obind_ok k3; cases ht
  have e4 := omodNode_ok k3
  have hs' : s' = { s with nodes := s.nodes.set node { (nd s node) with lines := (nd s node).lines.take (len + 1).toNat } } := e4
  have hok := (nodeOK_nd hi.nodes node)
  have hla := linesAt_upd s node ((nd s node).lines.take (len + 1).toNat) hlt (fun hn0 => by rw [hok.nil hn0]; simp)
  rw [← hs'] at hla
  have hrawn := (hi.nrb node).2.1 (by rw [hk]; rfl)
  exact ⟨hi.linesAt hla (fun hr => by rw [hk] at hr; cases hr) (fun hp => by rw [hk] at hp; cases hp)
    (fun t ht => hok.lines t (List.mem_of_mem_take ht))
    (fun _ => ⟨OrdFrom.take _ hrawn.1, fun t ht => hrawn.2 t (List.mem_of_mem_take ht)⟩)
    (fun hr => by rw [hk] at hr; cases hr), by rw [hs'], by rw [hs'], hla.kg⟩

theorem fencedClose_inv {src : Bytes} {B : Int} {s s' : St} {node : Nat} (hi : Inv src B s)
    (e : fencedClose node s = .ok ((), s')) : Inv src B s' ∧ s'.r = s.r ∧ s'.pc.opened = s.pc.opened ∧ KG s s' := by
  unfold fencedClose at e
  obtain ⟨pc, s1, h1, k1⟩ := obind_ok e
  obtain ⟨rfl, hs1⟩ := ogetPc_ok h1
  subst s1
  cases hf : s.pc.fence with
  | none => rw [hf] at k1; cases k1
  | some f =>
    rw [hf] at k1
    dsimp only at k1
    split at k1
    · have := omodPc_ok k1
      subst this
      exact ⟨hi.congr_pc _ rfl (fun b hb => hb), rfl, rfl, KG.refl _⟩
    · obtain ⟨_, hs⟩ := opure_ok k1
      subst s'
      exact ⟨hi, rfl, rfl, KG.refl _⟩

theorem listClose_inv {src : Bytes} {B : Int} {s s' : St} {node : Nat} (hi : Inv src B s)
    (e : listClose node s = .ok ((), s')) : Inv src B s' ∧ s'.r = s.r ∧ s'.pc = s.pc ∧ KG s s' := by
  have hc := listClose_copies e
  refine ⟨⟨fun i => ?_, fun i hk => ?_, fun i hk => ?_, fun t ht => ?_, fun b hb => ?_, fun n hn => ?_⟩, hc.r, hc.pc, hc.kg⟩
  · rcases Nat.lt_or_ge i s.nodes.length with h | h
    · obtain ⟨x1, _, x3⟩ := hc.old i h
      exact (hi.nrb i).congr x3 x1
    · rcases Nat.lt_or_ge i s'.nodes.length with h' | h'
      · obtain ⟨hkn, j, hj, hjk, hl, _⟩ := hc.new i h h'
        unfold NodeB
        rw [hl]
        exact ⟨fun _ => (hi.nrb j).1 (by rw [hjk]; rfl), (fun hr => by rw [hkn] at hr; cases hr),
          (fun hr => by rw [hkn] at hr; cases hr)⟩
      · rw [nd_default_of_ge s' h']; exact NodeB.nil B rfl
  · rcases Nat.lt_or_ge i s.nodes.length with h | h
    · obtain ⟨x1, _, x3⟩ := hc.old i h
      rw [x3] at hk; rw [x1]; exact hi.pne i hk
    · rcases Nat.lt_or_ge i s'.nodes.length with h' | h'
      · obtain ⟨k, _⟩ := hc.new i h h'
        rw [k] at hk; cases hk
      · rw [nd_default_of_ge s' h'] at hk; cases hk
  · rcases Nat.lt_or_ge i s.nodes.length with h | h
    · obtain ⟨x1, _, x3⟩ := hc.old i h
      rw [x3] at hk; rw [x1]; exact hi.pnb i hk
    · rcases Nat.lt_or_ge i s'.nodes.length with h' | h'
      · obtain ⟨k, _⟩ := hc.new i h h'
        rw [k] at hk; cases hk
      · rw [nd_default_of_ge s' h'] at hk; cases hk
  · rw [hc.pc] at ht
    have hk := hi.tmpk t ht
    have htl : t < s.nodes.length := by
      rcases Nat.lt_or_ge t s.nodes.length with h | h
      · exact h
      · rw [nd_default_of_ge s h] at hk; cases hk
    rw [(hc.old t htl).2.2]; exact hk
  · rw [hc.pc] at hb
    obtain ⟨k1, k2⟩ := hi.kinds b hb
    exact ⟨by rw [(hc.old _ k2).2.2]; exact k1, Nat.lt_of_lt_of_le k2 hc.len⟩
  · obtain ⟨i, hil, rfl⟩ := mem_nodes_nd hn
    rcases Nat.lt_or_ge i s.nodes.length with h | h
    · obtain ⟨x1, x2, _⟩ := hc.old i h
      have := nodeOK_nd hi.nodes i
      exact ⟨by rw [x1]; exact this.lines, by rw [x1, x2]; exact this.nil⟩
    · obtain ⟨_, j, _, _, hl, hln⟩ := hc.new i h hil
      have := nodeOK_nd hi.nodes j
      exact ⟨by rw [hl]; exact this.lines, by rw [hl, hln]; exact this.nil⟩

theorem setextClose_inv {src : Bytes} {B : Int} {s s' : St} {node : Nat} (hi : Inv src B s)
    (hk : (nd s node).kind = .heading) (hlt : node < s.nodes.length)
    (e : setextClose node s = .ok ((), s')) : Inv src B s' ∧ s'.r = s.r ∧ s'.pc.opened = s.pc.opened ∧ KG s s' := by
  cases ht : s.pc.tmpPara with
  | none =>
    exfalso
    unfold setextClose at e
    obtain ⟨hn, s1, h1, k1⟩ := obind_ok e
    obtain ⟨rfl, hs1⟩ := ogetNode_ok h1
    subst s1
    obtain ⟨seg, s2, h2, k2⟩ := obind_ok k1
    obtain ⟨_, hs2⟩ := oliftE_ok h2
    subst s2
    obtain ⟨_, s3, h3, k3⟩ := obind_ok k2
    have e3 := omodNode_ok h3
    obtain ⟨pc4, s4, h4, k4⟩ := obind_ok k3
    obtain ⟨rfl, hs4⟩ := ogetPc_ok h4
    subst s4
    have hpc3 : s3.pc = s.pc := by rw [e3]
    rw [hpc3, ht] at k4
    dsimp only at k4
    obtain ⟨_, _, h5, _⟩ := obind_ok k4
    cases h5
  | some t =>
    have hkt := hi.tmpk t ht
    have hne := hi.pne t hkt
    have hnt : node ≠ t := by intro e0; rw [e0, hkt] at hk; cases hk
    obtain ⟨hlen, ⟨hl, hln⟩, hoth, hkind, hpc, hr⟩ := setextClose_copy ht hne hnt hlt e
    have hla : LinesAt node (nd s t).lines s s' :=
      ⟨hlen, hkind, hoth, hl, fun hn0 => (nodeOK_nd hi.nodes t).nil (by rw [← hln]; exact hn0), hr,
        (fun t' ht' => by rw [hpc] at ht'; cases ht'), (by rw [hpc])⟩
    exact ⟨hi.linesAt hla (fun _ => (hi.nrb t).1 (by rw [hkt]; rfl)) (fun hp => by rw [hk] at hp; cases hp)
        (nodeOK_nd hi.nodes t).lines (fun hr => by rw [hk] at hr; cases hr) (fun hr => by rw [hk] at hr; cases hr),
        hr, by rw [hpc], hla.kg⟩

/-- **every `Close` keeps the invariant** (for every bound `B`), does not move the reader and does not touch the
    open-block stack — for a block whose node has the kind its parser builds -/
theorem bpClose_inv {src : Bytes} {B : Int} {s s' : St} (bp : BP) (node : Nat) (hi : Inv src B s) (hsrc : s.r.source = src)
    (hk : (nd s node).kind = bp.kind) (hlt : node < s.nodes.length)
    (e : bpClose bp node s = .ok ((), s')) : Inv src B s' ∧ s'.r = s.r ∧ s'.pc.opened = s.pc.opened ∧ KG s s' := by
  cases bp <;> unfold bpClose at e
  · exact setextClose_inv hi hk hlt e
  · obtain ⟨_, hs⟩ := opure_ok e; subst s'; exact ⟨hi, rfl, rfl, KG.refl _⟩
  · obtain ⟨a, b, c, d⟩ := listClose_inv hi e; exact ⟨a, b, by rw [c], d⟩
  · obtain ⟨_, hs⟩ := opure_ok e; subst s'; exact ⟨hi, rfl, rfl, KG.refl _⟩
  · obtain ⟨a, b, c, d⟩ := codeClose_inv hi hk hlt e; exact ⟨a, b, by rw [c], d⟩
  · obtain ⟨_, hs⟩ := opure_ok e; subst s'; exact ⟨hi, rfl, rfl, KG.refl _⟩
  · exact fencedClose_inv hi e
  · obtain ⟨_, hs⟩ := opure_ok e; subst s'; exact ⟨hi, rfl, rfl, KG.refl _⟩
  · obtain ⟨_, hs⟩ := opure_ok e; subst s'; exact ⟨hi, rfl, rfl, KG.refl _⟩
  · obtain ⟨a, b, c, d⟩ := paragraphClose_inv hi hsrc hk hlt e; exact ⟨a, b, by rw [c], d⟩

/-! ### closeBlocks -/

theorem blockAt_mem {blocks : List Block} {i : Int} {b : Block} (h : blockAt blocks i = .ok b) : b ∈ blocks := by
  unfold blockAt at h
  split at h
  · cases h
  · split at h
    · next hb => cases h; exact List.mem_of_getElem? hb
    · cases h

theorem closeLoop_inv {src : Bytes} {B : Int} (blocks : List Block) (to : Int) : ∀ (k : Nat) (s s' : St),
    Inv src B s → s.r.source = src → (∀ b ∈ blocks, b ∈ s.pc.opened) →
    closeLoop blocks to k s = .ok ((), s') → Inv src B s' ∧ s'.r = s.r ∧ s'.pc.opened = s.pc.opened ∧ KG s s' := by
  intro k
  induction k with
  | zero =>
    intro s s' hi _ _ e
    unfold closeLoop at e
    obtain ⟨_, hs⟩ := opure_ok e; subst s'; exact ⟨hi, rfl, rfl, KG.refl _⟩
  | succ k ih =>
    intro s s' hi hsrc hsub e
    unfold closeLoop at e
    obtain ⟨b, s1, h1, k1⟩ := obind_ok e
    obtain ⟨hb, hs1⟩ := oliftE_ok h1
    subst s1
    have hbm := hsub b (blockAt_mem hb)
    obtain ⟨hkb, hltb⟩ := hi.kinds b hbm
    obtain ⟨n, s2, h2, k2⟩ := obind_ok k1
    obtain ⟨_, hs2⟩ := ogetNode_ok h2
    subst s2
    dsimp only at k2
    split at k2
    · obtain ⟨_, s3, h3, k3⟩ := obind_ok k2
      obtain ⟨a1, a2, a3, a4⟩ := bpClose_inv b.bp b.node hi hsrc hkb hltb h3
      obtain ⟨b1, b2, b3, b4⟩ := ih s3 s' a1 (by rw [a2]; exact hsrc) (fun b hb => by rw [a3]; exact hsub b hb) k3
      exact ⟨b1, b2.trans a2, b3.trans a3, a4.trans b4⟩
    · exact ih s s' hi hsrc hsub k2

theorem closeSlice_sub {l : List Block} {a b : Int} {r : List Block} (h : closeBlocks.slice' l a b = .ok r) :
    ∀ x ∈ r, x ∈ l := by
  unfold closeBlocks.slice' at h
  split at h
  · cases h; intro x hx; exact List.mem_of_mem_drop (List.mem_of_mem_take hx)
  · cases h

/-- **closeBlocks keeps the invariant**, does not move the reader, and leaves a sub-list of the open-block stack -/
theorem closeBlocks_inv {src : Bytes} {B : Int} {s s' : St} (frm to : Int) (hi : Inv src B s) (hsrc : s.r.source = src)
    (e : closeBlocks frm to s = .ok ((), s')) :
    Inv src B s' ∧ s'.r = s.r ∧ (∀ b ∈ s'.pc.opened, b ∈ s.pc.opened) ∧ KG s s' := by
  unfold closeBlocks at e
  obtain ⟨pc, s1, h1, k1⟩ := obind_ok e
  obtain ⟨rfl, hs1⟩ := ogetPc_ok h1
  subst s1
  obtain ⟨_, s2, h2, k2⟩ := obind_ok k1
  obtain ⟨a1, a2, a3, a4⟩ := closeLoop_inv s.pc.opened to _ s s2 hi hsrc (fun b hb => hb) h2
  dsimp only at k2
  have fin : ∀ (bl : List Block), (∀ x ∈ bl, x ∈ s.pc.opened) →
      (modPc fun pc => { pc with opened := bl }) s2 = .ok ((), s') →
      Inv src B s' ∧ s'.r = s.r ∧ (∀ b ∈ s'.pc.opened, b ∈ s.pc.opened) ∧ KG s s' := by
    intro bl hbl k3
    have := omodPc_ok k3
    subst this
    exact ⟨a1.congr_pc _ rfl (fun b hb => by rw [a3]; exact hbl b hb), a2, fun b hb => hbl b hb, a4⟩
  split at k2
  · obtain ⟨bl, s3, h3, k3⟩ := obind_ok k2
    obtain ⟨hb, hs3⟩ := oliftE_ok h3
    subst s3
    exact fin bl (closeSlice_sub hb) k3
  · obtain ⟨a, s4, h4, k4⟩ := obind_ok k2
    obtain ⟨ha, hs4⟩ := oliftE_ok h4
    subst s4
    obtain ⟨b, s5, h5, k5⟩ := obind_ok k4
    obtain ⟨hb, hs5⟩ := oliftE_ok h5
    subst s5
    obtain ⟨bl, s6, h6, k6⟩ := obind_ok k5
    obtain ⟨hbl, hs6⟩ := opure_ok h6
    subst s6
    subst bl
    refine fin (a ++ b) (fun x hx => ?_) k6
    rcases List.mem_append.1 hx with h | h
    · exact closeSlice_sub ha x h
    · exact closeSlice_sub hb x h

end GM.Blocks
