/-
  GM.Proof.ConvertFDisc2 — the close discipline, driver part 1 (GM.Proof.ConvertHWFDrv carried over to `MF`): `Close` through the
  dispatch, `closeLoopF` (every block of the range is DONE: a Footnote among them is filed in the list or detached),
  `closeBlocksF` (the closed slots may leave the stack), `requireParaF`, the push, `tryParsersF`.
-/
import GM.Proof.ConvertFDisc

namespace GM.ConvertF
open GM GM.Text GM.Blocks GM.Convert GM.ConvertH

theorem getPc_ok' {s : St} {a : Ctx} {s' : St} (h : getPc s = .ok (a, s')) : s.pc = a ∧ s = s' := by
  cases h; exact ⟨rfl, rfl⟩

theorem liftE_ok' {α} {e : Except Panic α} {s : St} {a : α} {s' : St} (h : liftE e s = .ok (a, s')) : e = .ok a ∧ s = s' := by
  obtain ⟨h1, h2⟩ := liftE_ok h
  exact ⟨h1, h2.symm⟩

theorem kindOf_bq (bp : BP) (h : BP.kindOf bp = .blockquote) : bp = .blockquote := by
  cases bp <;> simp [BP.kindOf] at h <;> rfl

/-! ### what a stretch of the driver without `Open` does -/

structure StepD (f : FS) (s : St) (f' : FS) (s' : St) : Prop where
  ks : KS s s'
  opened : s'.pc.opened = s.pc.opened
  refs : f'.refs = f.refs
  fm : FM f f'
  edges : ∀ p c, c ∈ (ndx s' p).children → f.isFn c = true → c ∈ (ndx s p).children ∨ f'.list = some p

theorem StepD.refl (f : FS) (s : St) : StepD f s f s := ⟨KS.refl _, rfl, rfl, FM.refl _, fun _ _ h _ => Or.inl h⟩

theorem isFn_refs {f f' : FS} (h : f'.refs = f.refs) (x : Nat) : f'.isFn x = f.isFn x := by unfold FS.isFn; rw [h]

theorem StepD.trans {a : FS} {sa : St} {b : FS} {sb : St} {c : FS} {sc : St} (h1 : StepD a sa b sb) (h2 : StepD b sb c sc) :
    StepD a sa c sc :=
  ⟨h1.ks.trans h2.ks, h2.opened.trans h1.opened, h2.refs.trans h1.refs, h1.fm.trans h2.fm, fun p x hx hfn => by
    rcases h2.edges p x hx (by rw [isFn_refs h1.refs]; exact hfn) with h | h
    · rcases h1.edges p x h hfn with h' | h'
      · exact Or.inl h'
      · exact Or.inr (h2.fm.2 p h')
    · exact Or.inr h⟩

theorem StepD.of_stepB {f : FS} {s s' : St} (j : FJ f s) (st : StepB s s') : StepD f s f s' :=
  ⟨st.ks, st.opened, rfl, FM.refl _, fun p c hc hfn => by
    have hv := (isFn_valid j.ids hfn).2
    exact Or.inl (st.edges p c hc (by rw [st.kind c hv]; exact j.kfn c hfn) hv)⟩

/-- a block of the stack is done: if its node is a Footnote, every child edge to it comes from the list -/
def Done (f : FS) (s : St) (b : Block) : Prop :=
  f.isFn b.node = true → ∀ q, b.node ∈ (ndx s q).children → f.list = some q

theorem Done.stable {f f' : FS} {s s' : St} {b : Block} (d : Done f s b) (st : StepD f s f' s') : Done f' s' b := by
  intro hfn q hq
  rw [isFn_refs st.refs] at hfn
  rcases st.edges q b.node hq hfn with h | h
  · exact st.fm.2 q (d hfn q h)
  · exact h

/-- removing closed slots from the stack keeps the invariant -/
theorem FJ.remove {f : FS} {s : St} (j : FJ f s) (blocks' : List Block) (hsub : ∀ b ∈ blocks', b ∈ s.pc.opened)
    (hdone : ∀ b ∈ s.pc.opened, b ∉ blocks' → Done f s b) :
    FJ f { s with pc := { s.pc with opened := blocks' } } := by
  refine ⟨⟨j.wf.edge, j.wf.nodup, j.wf.root, j.wf.ne, j.wf.rootKind⟩, j.ids, j.kfn, j.klist, j.nl, fun p c hc hfn => ?_,
    fun b hb => j.pn b (hsub b hb)⟩
  rcases j.ein p c hc hfn with h | ⟨b, hb, rfl⟩
  · exact Or.inl h
  · by_cases hin : b ∈ blocks'
    · exact Or.inr ⟨b, hin, rfl⟩
    · exact Or.inl (hdone b hb hin hfn p hc)

/-! ### `Close` through the dispatch -/

theorem bpCloseF_spec (bp : BP) (node : Nat) (f : FS) (s : St) (a : Unit) (f' : FS) (s' : St) (j : FJ f s)
    (hpn : PNb { node := node, bp := bp } s) (e : bpCloseF bp node f s = .ok ((a, f'), s')) :
    FJ f' s' ∧ StepD f s f' s' ∧ Done f' s' { node := node, bp := bp } := by
  unfold bpCloseF at e
  obtain ⟨f0, f1, s1, e0, ee⟩ := mf_bind_ok e
  obtain ⟨h0, h1, h2⟩ := getF_ok e0
  subst h0 h1 h2
  by_cases hfn : f.isFn node = true
  · rw [if_pos hfn] at ee
    obtain ⟨a1, a2, a3, a4, a5, a6, a7⟩ := fnClose_spec node f s a f' s' j hfn ee
    exact ⟨a1, ⟨a3, a4, a5, a2, a6⟩, fun _ q hq => a7 q hq⟩
  · rw [if_neg hfn] at ee
    obtain ⟨rfl, ex⟩ := upF_ok' ee
    have st : StepB s s' := StepB.of (.of_stepR ((bpClose_stp bp node).h s a s' ex)) ((bpClose_br bp node).h s a s' ex)
      (fun i hi => by
        obtain ⟨rfl, hne⟩ := hi
        refine ⟨hpn.1, fun hk => hne (kindOf_bq bp ?_)⟩
        rw [← hpn.2]; exact hk)
    exact ⟨j.step st, .of_stepB j st, fun h => absurd h hfn⟩

/-! ### `Open` through the dispatch -/

/-- the open-block stack stays -/
structure OSF {α : Type} (m : MF α) : Prop where
  h : ∀ f s a f' s', m f s = .ok ((a, f'), s') → s'.pc.opened = s.pc.opened

theorem OSF.pure {α} (a : α) : OSF (Pure.pure a : MF α) := ⟨fun f s _ _ _ e => by cases e; rfl⟩
theorem OSF.throw {α} (e : Panic) : OSF (throw e : MF α) := ⟨fun _ _ _ _ _ e' => by cases e'⟩
theorem osf_getF : OSF getF := ⟨fun f s _ _ _ e => by cases e; rfl⟩
theorem osf_setF (g : FS) : OSF (setF g) := ⟨fun f s _ _ _ e => by cases e; rfl⟩
theorem OSF.up {α} {W : Nat → Prop} {x : M α} (hb : Br W x) : OSF (GM.ConvertF.up x) :=
  ⟨fun f s a f' s' e => by obtain ⟨_, ex⟩ := upF_ok' e; exact (hb.h s a s' ex).opened⟩
theorem OSF.bind {α β} {m : MF α} {k : α → MF β} (hm : OSF m) (hk : ∀ a, OSF (k a)) : OSF (m >>= k) :=
  ⟨fun f s b f'' s'' e => by
    obtain ⟨a, f', s', e1, e2⟩ := mf_bind_ok e
    rw [(hk a).h f' s' b f'' s'' e2, hm.h f s a f' s' e1]⟩
theorem OSF.ite {α} {c : Prop} [Decidable c] {a b : MF α} (ha : OSF a) (hb : OSF b) : OSF (if c then a else b) := by
  split <;> assumption

macro "osf_step" : tactic =>
  `(tactic| first
    | exact OSF.pure _
    | exact OSF.throw _
    | exact osf_getF
    | exact osf_setF _
    | apply_hyp
    | (refine OSF.up (W := fun _ => False) ?_; first | br0_leaf | (apply newNode_br <;> first | rfl | (intro _; rfl)))
    | with_reducible apply OSF.bind
    | with_reducible apply OSF.ite
    | intro _
    | split)
macro "osf" : tactic => `(tactic| repeat' osf_step)

theorem fnOpen_osf (parent : Nat) : OSF (fnOpen parent) := by unfold fnOpen; osf

theorem kindOf_ne_document' (bp : BP) : BP.kindOf bp ≠ .document := by cases bp <;> simp [BP.kindOf]

theorem bpOpenF_spec (bp : BPF) (parent : Nat) (f : FS) (s : St) (r : Option Nat × PState) (f' : FS) (s' : St) (j : FJ f s)
    (e : bpOpenF bp parent f s = .ok ((r, f'), s')) :
    FJ f' s' ∧ FM f f' ∧ KS s s' ∧ s'.pc.opened = s.pc.opened ∧ ∀ nd, r.1 = some nd → PNb { node := nd, bp := bp.tag } s' := by
  cases bp with
  | footnote =>
    obtain ⟨a1, a2, a3, a4⟩ := (fnOpen_gj (P := fun _ => True) stb_true parent).h f s r f' s' j trivial e
    exact ⟨a1, a2, a3, (fnOpen_osf parent).h f s r f' s' e, a4⟩
  | core bp =>
    have e' : (GM.ConvertF.up (bpOpen bp parent)) f s = .ok ((r, f'), s') := e
    obtain ⟨rfl, ex⟩ := upF_ok' e'
    obtain ⟨hlr, hid⟩ := (bpOpen_oj bp parent).h s r s' ex
    have st : StepB s s' := StepB.of (W := fun _ => False) (.of_lr hlr) ((bpOpen_br bp parent).h s r s' ex) (fun _ h => h.elim)
    exact ⟨j.step st, FM.refl _, st.ks, st.opened, fun nd hnd => ⟨(hid nd hnd).2.1, (hid nd hnd).2.2⟩⟩

/-- parser.go:1004-1008: `parent.AppendChild(parent, node)` and the push on the open-block stack, for a node `Open` has
    just answered -/
theorem push_spec (parent node : Nat) (bp : BP) (f : FS) (s s1 : St) (j : FJ f s) (hpn : PNb { node := node, bp := bp } s)
    (e : appendChild parent node s = .ok ((), s1)) :
    FJ f { s1 with pc := { s1.pc with opened := s1.pc.opened ++ [{ node := node, bp := bp }] } } ∧ KS s s1 := by
  have op := appendChild_op parent node s s1 e
  have hl := (appendChild_ln parent node).h s _ s1 e
  have hn0 : node ≠ 0 := by
    intro e0; subst e0
    have := hpn.2
    rw [j.wf.rootKind] at this
    exact kindOf_ne_document' bp this.symm
  have w1 := op.wf j.wf hpn.1 hn0
  have ks : KS s s1 := ⟨Nat.le_of_eq op.len.symm, fun i _ => op.kind i⟩
  have ks' : KS s { s1 with pc := { s1.pc with opened := s1.pc.opened ++ [{ node := node, bp := bp }] } } :=
    ⟨ks.len, ks.kind⟩
  refine ⟨⟨⟨w1.edge, w1.nodup, w1.root, w1.ne, w1.rootKind⟩, idsOK_ks j.ids ks', fun x hx => ?_, fun l hl' => ?_, fun i hk => ?_,
    fun p c hc hfn => ?_, fun b hb => ?_⟩, ks⟩
  · show (ndx s1 x).kind = _
    rw [op.kind]; exact j.kfn x hx
  · show (ndx s1 l).kind = _
    rw [op.kind]; exact j.klist l hl'
  · show (ndx s1 i).lines = _
    rw [hl]; exact j.nl i (by rw [← op.kind]; exact hk)
  · have hc' : c ∈ (ndx s1 p).children := hc
    rcases op.edges p c hc' with e1 | ⟨_, rfl⟩
    · rcases j.ein p c e1 hfn with a | ⟨b, hb, rfl⟩
      · exact Or.inl a
      · exact Or.inr ⟨b, by simp only [op.pc]; exact List.mem_append_left _ hb, rfl⟩
    · exact Or.inr ⟨_, List.mem_append_right _ (List.mem_singleton.2 rfl), rfl⟩
  · simp only [op.pc] at hb
    rcases List.mem_append.1 hb with hb | hb
    · exact (j.pn b hb).ks ks'
    · rw [List.mem_singleton] at hb
      subst hb
      exact hpn.ks ks'

section
variable (pts : List PT) (hpts : ∀ pt ∈ pts, PTStp pt) (hptb : ∀ pt ∈ pts, PTBr pt)
include hpts hptb

/-- the paragraph transformers on a Paragraph node -/
theorem transformParagraph_stepB (node : Nat) (s : St) (a : Bool) (s' : St) (hv : node < s.nodes.length)
    (hk : (ndx s node).kind = .paragraph) (e : transformParagraph pts node s = .ok (a, s')) : StepB s s' :=
  StepB.of (.of_stepR ((transformParagraph_stp pts hpts node).h s a s' e)) ((transformParagraph_br pts hptb node).h s a s' e)
    (fun i hi => by subst hi; exact ⟨hv, by rw [hk]; decide⟩)

theorem closeLoopF_spec (blocks : List Block) (to : Int) : ∀ (k : Nat) (f : FS) (s : St) (f' : FS) (s' : St),
    FJ f s → (∀ b ∈ blocks, PNb b s) →
    closeLoopF pts blocks to k f s = .ok (((), f'), s') →
    FJ f' s' ∧ StepD f s f' s' ∧ ∀ j, j < k → ∀ b, blockAt blocks (to + j) = .ok b → Done f' s' b := by
  intro k
  induction k with
  | zero =>
    intro f s f' s' j _ e
    unfold closeLoopF at e
    obtain ⟨_, h1, h2⟩ := pureF_ok e
    subst h1 h2
    exact ⟨j, StepD.refl _ _, fun _ hj => by omega⟩
  | succ k ih =>
    intro f s f' s' j hb e
    unfold closeLoopF at e
    obtain ⟨b, f1, s1, e1, k1⟩ := mf_bind_ok e
    obtain ⟨eh1, ex1⟩ := upF_ok' e1
    obtain ⟨hbk, es1⟩ := liftE_ok' ex1
    subst eh1 es1
    obtain ⟨n, f2, s2, e2, k2⟩ := mf_bind_ok k1
    obtain ⟨eh2, ex2⟩ := upF_ok' e2
    obtain ⟨en, es2⟩ := getNode_ok' ex2
    subst eh2 es2
    have hbm : b ∈ blocks := by
      unfold blockAt at hbk
      split at hbk
      · cases hbk
      · split at hbk
        · rename_i hget
          cases hbk
          exact List.mem_of_getElem? hget
        · cases hbk
    have rest : ∀ (f3 : FS) (s3 : St), FJ f3 s3 → (∀ b ∈ blocks, PNb b s3) →
        (do
          let n5 ← GM.ConvertF.up (getNode b.node)
          if n5.parent.isSome = true then do
            bpCloseF b.bp b.node
            closeLoopF pts blocks to k
          else closeLoopF pts blocks to k : MF Unit) f3 s3 = .ok (((), f'), s') →
        FJ f' s' ∧ StepD f3 s3 f' s' ∧ ∀ j, j < k + 1 → ∀ b, blockAt blocks (to + j) = .ok b → Done f' s' b := by
      intro f3 s3 j3 hb3 k3
      obtain ⟨n5, f5, s5, e5, k5⟩ := mf_bind_ok k3
      obtain ⟨eh5, ex5⟩ := upF_ok' e5
      obtain ⟨en5, es5⟩ := getNode_ok' ex5
      subst eh5 es5
      have c6 : ∃ f6 s6, FJ f6 s6 ∧ StepD f3 s3 f6 s6 ∧ Done f6 s6 b ∧
          closeLoopF pts blocks to k f6 s6 = .ok (((), f'), s') := by
        split at k5
        · obtain ⟨u6, f6, s6, e6, k6⟩ := mf_bind_ok k5
          obtain ⟨j6, st, dn⟩ := bpCloseF_spec b.bp b.node f3 s3 u6 f6 s6 j3 (hb3 b hbm) e6
          exact ⟨f6, s6, j6, st, dn, k6⟩
        · rename_i hpar
          refine ⟨f3, s3, j3, StepD.refl _ _, fun _ q hc => ?_, k5⟩
          exfalso
          have := (j3.wf.edge q b.node hc).2
          rw [en5] at this
          rw [this] at hpar
          exact hpar rfl
      obtain ⟨f6, s6, j6, st6, d6, k6⟩ := c6
      have hb6 : ∀ b ∈ blocks, PNb b s6 := fun b hb' => (hb3 b hb').ks st6.ks
      obtain ⟨j', st', d'⟩ := ih f6 s6 f' s' j6 hb6 k6
      refine ⟨j', st6.trans st', fun jj hjj b' hb' => ?_⟩
      by_cases hjk : jj = k
      · subst hjk
        rw [hbk] at hb'
        cases hb'
        exact d6.stable st'
      · exact d' jj (by omega) b' hb'
    dsimp only at k2
    split at k2
    · rename_i hcond
      obtain ⟨_, f4, s4, e4, k4⟩ := mf_bind_ok k2
      obtain ⟨eh4, ex4⟩ := upF_ok' e4
      subst eh4
      have hkp : (ndx s b.node).kind = .paragraph := by
        rw [en]
        simp only [Bool.and_eq_true, beq_iff_eq] at hcond
        exact hcond.1
      have st4 := transformParagraph_stepB pts hpts hptb b.node s _ s4 (hb b hbm).1 hkp ex4
      obtain ⟨r1, r2, r3⟩ := rest f s4 (j.step st4) (fun b hb' => (hb b hb').ks st4.ks) k4
      exact ⟨r1, (StepD.of_stepB j st4).trans r2, r3⟩
    · exact rest f s j hb k2

theorem closeBlocksF_spec (frm to : Int) (f : FS) (s : St) (f' : FS) (s' : St) (j : FJ f s)
    (e : closeBlocksF pts frm to f s = .ok (((), f'), s')) :
    FJ f' s' ∧ FM f f' ∧ KS s s' ∧ (∀ b ∈ s'.pc.opened, b ∈ s.pc.opened) ∧
      (frm = (s.pc.opened.length : Int) - 1 → to = 0 → s'.pc.opened = []) := by
  unfold closeBlocksF at e
  obtain ⟨pc, f1, s1, e1, k1⟩ := mf_bind_ok e
  obtain ⟨eh1, ex1⟩ := upF_ok' e1
  obtain ⟨epc, es1⟩ := getPc_ok' ex1
  subst eh1 es1 epc
  obtain ⟨u2, f2, s2, e2, k2⟩ := mf_bind_ok k1
  obtain ⟨j2, st2, d2⟩ := closeLoopF_spec pts hpts hptb s.pc.opened to _ f s f2 s2 j j.pn e2
  dsimp only at k2
  have hsl : ∃ blocks', GM.ConvertF.up (modPc fun pc => { pc with opened := blocks' }) f2 s2 = .ok (((), f'), s') ∧ 0 ≤ to ∧
      (∀ b ∈ blocks', b ∈ s.pc.opened) ∧
      (∀ (i : Nat) (b : Block), s.pc.opened[i]? = some b → b ∉ blocks' → to ≤ i ∧ (i : Int) ≤ frm) ∧
      (frm = (s.pc.opened.length : Int) - 1 → to = 0 → blocks' = []) := by
    split at k2
    · rename_i hfl
      obtain ⟨blocks', f3, s3, e3, k3⟩ := mf_bind_ok k2
      obtain ⟨eh3, ex3⟩ := upF_ok' e3
      obtain ⟨hs, es3⟩ := liftE_ok' ex3
      subst eh3 es3
      obtain ⟨_, h0, h1', hr⟩ := closeSlice_ok hs
      have hfl' : frm = (s.pc.opened.length : Int) - 1 := by simpa using hfl
      refine ⟨blocks', k3, h0, fun b hb => ?_, fun i b hi hn => ?_, fun _ ht => by rw [hr, ht]; simp⟩
      · rw [hr] at hb
        exact List.mem_of_mem_drop (List.mem_of_mem_take hb)
      · have hil : i < s.pc.opened.length := (List.getElem?_eq_some_iff.1 hi).1
        refine ⟨?_, by omega⟩
        by_cases hlt : (i : Int) < to
        · exfalso; apply hn
          rw [hr]
          simp only [Int.toNat_zero, List.drop_zero, Int.sub_zero]
          rw [List.mem_iff_getElem?]
          exact ⟨i, by rw [List.getElem?_take]; simp [show i < to.toNat by omega, hi]⟩
        · omega
    · rename_i hfl
      obtain ⟨a, f4, s4, e4, k4⟩ := mf_bind_ok k2
      obtain ⟨eh4', ex4'⟩ := upF_ok' e4
      obtain ⟨hsa, es4⟩ := liftE_ok' ex4'
      subst eh4' es4
      obtain ⟨b, f5, s5, e5, k5⟩ := mf_bind_ok k4
      obtain ⟨eh5, ex5⟩ := upF_ok' e5
      obtain ⟨hsb, es5⟩ := liftE_ok' ex5
      subst eh5 es5
      obtain ⟨blocks', f6, s6, e6, k6⟩ := mf_bind_ok k5
      obtain ⟨eb, eh6, es6⟩ := pureF_ok e6
      subst eb eh6 es6
      obtain ⟨_, a0, a1, ar⟩ := closeSlice_ok hsa
      obtain ⟨b0, b1, b2, br⟩ := closeSlice_ok hsb
      refine ⟨a ++ b, k6, a0, fun x hx => ?_, fun i x hi hn => ?_, fun hf _ => absurd (by simpa using hf) hfl⟩
      · rcases List.mem_append.1 hx with hx | hx
        · rw [ar] at hx; exact List.mem_of_mem_drop (List.mem_of_mem_take hx)
        · rw [br] at hx; exact List.mem_of_mem_drop (List.mem_of_mem_take hx)
      · have hil : i < s.pc.opened.length := (List.getElem?_eq_some_iff.1 hi).1
        by_cases hlt : (i : Int) < to
        · exfalso; apply hn
          apply List.mem_append_left
          rw [ar]
          simp only [Int.toNat_zero, List.drop_zero, Int.sub_zero]
          rw [List.mem_iff_getElem?]
          exact ⟨i, by rw [List.getElem?_take]; simp [show i < to.toNat by omega, hi]⟩
        · by_cases hgt : frm < (i : Int)
          · exfalso; apply hn
            apply List.mem_append_right
            rw [br]
            rw [List.mem_iff_getElem?]
            refine ⟨i - (frm + 1).toNat, ?_⟩
            rw [List.getElem?_take, List.getElem?_drop]
            have : (frm + 1).toNat + (i - (frm + 1).toNat) = i := by omega
            rw [this]
            simp [show i - (frm + 1).toNat < ((s.pc.opened.length : Int) - (frm + 1)).toNat by omega, hi]
          · omega
  obtain ⟨blocks', k3, hto, hsub, hrem, hemp⟩ := hsl
  obtain ⟨eh4, ex4⟩ := upF_ok' k3
  have es' := modPc_ok ex4
  subst eh4
  have hop2 : s2.pc.opened = s.pc.opened := st2.opened
  have jr := j2.remove blocks' (fun b hb => by rw [hop2]; exact hsub b hb) (fun b hb hn => by
    rw [hop2] at hb
    obtain ⟨i, hi⟩ := List.mem_iff_getElem?.1 hb
    obtain ⟨h1', h2'⟩ := hrem i b hi hn
    refine d2 (i - to.toNat) (by omega) b ?_
    unfold blockAt
    have e1 : ¬ (to + ((i - to.toNat : Nat) : Int) < 0) := by omega
    have e2 : (to + ((i - to.toNat : Nat) : Int)).toNat = i := by omega
    simp only [e1, if_false, e2, hi])
  rw [es']
  exact ⟨jr, st2.fm, ⟨st2.ks.len, st2.ks.kind⟩, fun b hb => hsub b hb, hemp⟩

theorem requireParaF_spec (parent : Nat) (last : Option Nat) (lastBlock : Option Block)
    (f : FS) (s : St) (a : Bool) (f' : FS) (s' : St) (j : FJ f s) (hl : s.pc.opened.getLast? = lastBlock)
    (e : requireParaF pts parent last lastBlock f s = .ok ((a, f'), s')) :
    FJ f' s' ∧ FM f f' ∧ KS s s' ∧ ∀ b ∈ s'.pc.opened, b ∈ s.pc.opened := by
  unfold requireParaF at e
  obtain ⟨pn, f1, s1, e1, k1⟩ := mf_bind_ok e
  obtain ⟨eh1, ex1⟩ := upF_ok' e1
  obtain ⟨_, es1⟩ := getNode_ok' ex1
  subst eh1 es1
  split at k1
  · cases lastBlock with
    | none => cases k1
    | some lb =>
      simp only at k1
      have hlbm : lb ∈ s.pc.opened := List.mem_of_getLast? hl
      obtain ⟨u2, f2, s2, e2, k2⟩ := mf_bind_ok k1
      obtain ⟨j2, st2, _⟩ := bpCloseF_spec lb.bp lb.node f s u2 f2 s2 j (j.pn lb hlbm) e2
      obtain ⟨pc3, f3, s3, e3, k3⟩ := mf_bind_ok k2
      obtain ⟨eh3, ex3⟩ := upF_ok' e3
      obtain ⟨epc, es3⟩ := getPc_ok' ex3
      subst eh3 es3 epc
      split at k3
      · cases k3
      · obtain ⟨u4, f4, s4, e4, k4⟩ := mf_bind_ok k3
        obtain ⟨eh4, ex4⟩ := upF_ok' e4
        have es4 := modPc_ok ex4
        subst eh4
        obtain ⟨n5, f5, s5, e5, k5⟩ := mf_bind_ok k4
        obtain ⟨eh5, ex5⟩ := upF_ok' e5
        obtain ⟨en5, es5⟩ := getNode_ok' ex5
        subst eh5 es5
        split at k5
        · cases k5
        · rename_i hkind
          have hpk : (ndx s4 lb.node).kind = .paragraph := by
            rw [← en5] at hkind
            simpa using hkind
          have hpk2 : (ndx s2 lb.node).kind = .paragraph := by rw [es4] at hpk; exact hpk
          have hlast : s2.pc.opened.getLast? = some lb := by rw [st2.opened]; exact hl
          have hnotfn : f2.isFn lb.node = false := by
            cases hfn : f2.isFn lb.node with
            | false => rfl
            | true => have := j2.kfn lb.node hfn; rw [hpk2] at this; cases this
          have j4' := j2.remove s2.pc.opened.dropLast (fun b hb => mem_of_dropLast _ b hb) (fun b hb hn hfn => by
            exfalso
            rcases mem_dropLast_or_last _ b hb with hd | hd
            · exact hn hd
            · rw [hlast] at hd
              cases hd
              rw [hnotfn] at hfn
              cases hfn)
          rw [← es4] at j4'
          obtain ⟨eh6, ex6⟩ := upF_ok' k5
          subst eh6
          have hv4 : lb.node < s4.nodes.length := by
            rw [es4]; exact ((j.pn lb hlbm).ks st2.ks).1
          have st6 := transformParagraph_stepB pts hpts hptb lb.node s4 _ s' hv4 hpk ex6
          have k4' : KS s2 s4 := by rw [es4]; exact ⟨Nat.le_refl _, fun _ _ => rfl⟩
          refine ⟨j4'.step st6, st2.fm, (st2.ks.trans k4').trans st6.ks, fun b hb => ?_⟩
          rw [st6.opened, es4] at hb
          rw [← st2.opened]
          exact mem_of_dropLast _ b hb
  · obtain ⟨_, h1, h2⟩ := pureF_ok k1
    subst h1 h2
    exact ⟨j, FM.refl _, KS.refl _, fun _ hb => hb⟩

omit hpts hptb in
theorem pushTail_spec {α} (Q : α → Prop) (parent node : Nat) (bp : BP) (k : MF α)
    (hk : ∀ f s x f' s', k f s = .ok ((x, f'), s') → f = f' ∧ s = s' ∧ Q x)
    (f : FS) (s : St) (x : α) (f' : FS) (s' : St) (j : FJ f s) (pn : PNb { node := node, bp := bp } s)
    (e : (do
      GM.ConvertF.up (appendChild parent node)
      GM.ConvertF.up (modPc fun pc => { pc with opened := pc.opened ++ [{ node := node, bp := bp }] })
      k : MF α) f s = .ok ((x, f'), s')) : FJ f' s' ∧ FM f f' ∧ KS s s' ∧ Q x := by
  obtain ⟨u1, f1, s1, e1, k1⟩ := mf_bind_ok e
  obtain ⟨eh1, ex1⟩ := upF_ok' e1
  subst eh1
  obtain ⟨u2, f2, s2, e2, k2⟩ := mf_bind_ok k1
  obtain ⟨eh2, ex2⟩ := upF_ok' e2
  have es2 := modPc_ok ex2
  subst eh2
  obtain ⟨eh3, es3, hq⟩ := hk _ _ _ _ _ k2
  subst eh3 es3
  obtain ⟨jp, kp⟩ := push_spec parent node bp _ s s1 j pn ex1
  rw [es2]
  exact ⟨jp, FM.refl _, ⟨kp.len, kp.kind⟩, hq⟩

theorem afterMod_spec {α} (Q : α → Prop) (parent node : Nat) (bp : BP) (last : Option Nat) (k : MF α)
    (hk : ∀ f s x f' s', k f s = .ok ((x, f'), s') → f = f' ∧ s = s' ∧ Q x)
    (f : FS) (s : St) (x : α) (f' : FS) (s' : St) (j : FJ f s) (pn : PNb { node := node, bp := bp } s)
    (e : (match last with
      | some l => do
        let n ← GM.ConvertF.up (getNode l)
        if n.parent.isNone = true then do
          let pc ← GM.ConvertF.up getPc
          closeBlocksF pts ((pc.opened.length : Int) - 1) ((pc.opened.length : Int) - 1)
          GM.ConvertF.up (appendChild parent node)
          GM.ConvertF.up (modPc fun pc => { pc with opened := pc.opened ++ [{ node := node, bp := bp }] })
          k
        else do
          GM.ConvertF.up (appendChild parent node)
          GM.ConvertF.up (modPc fun pc => { pc with opened := pc.opened ++ [{ node := node, bp := bp }] })
          k
      | none => do
        GM.ConvertF.up (appendChild parent node)
        GM.ConvertF.up (modPc fun pc => { pc with opened := pc.opened ++ [{ node := node, bp := bp }] })
        k : MF α) f s = .ok ((x, f'), s')) : FJ f' s' ∧ FM f f' ∧ KS s s' ∧ Q x := by
  cases last with
  | none => exact pushTail_spec Q parent node bp k hk f s x f' s' j pn e
  | some l =>
    simp only at e
    obtain ⟨n, f1, s1, e1, k1⟩ := mf_bind_ok e
    obtain ⟨eh1, ex1⟩ := upF_ok' e1
    obtain ⟨_, es1⟩ := getNode_ok' ex1
    subst eh1 es1
    split at k1
    · obtain ⟨pc, f2, s2, e2, k2⟩ := mf_bind_ok k1
      obtain ⟨eh2, ex2⟩ := upF_ok' e2
      obtain ⟨_, es2⟩ := getPc_ok' ex2
      subst eh2 es2
      obtain ⟨u3, f3, s3, e3, k3⟩ := mf_bind_ok k2
      obtain ⟨j3, a3, ks3, sh3, _⟩ := closeBlocksF_spec pts hpts hptb _ _ _ _ _ _ j e3
      obtain ⟨j4, a4, ks4, q4⟩ := pushTail_spec Q parent node bp k hk f3 s3 x f' s' j3 (pn.ks ks3) k3
      exact ⟨j4, a3.trans a4, ks3.trans ks4, q4⟩
    · exact pushTail_spec Q parent node bp k hk _ _ x f' s' j pn k1

/-- the candidate loop of openBlocks: the invariant, and: unless it answers `newBlocksOpened` the result flag is the one
    it was given and nothing was pushed on the stack -/
theorem tryParsersF_spec (parent : Nat) (blankLine continuable : Bool) (w : Int) :
    ∀ (bps : List BPF) (result : OpenResult) (lastBlock : Option Block) (f : FS) (s : St)
      (x : TryOutcomeT × OpenResult × Option Block) (f' : FS) (s' : St), FJ f s → (∀ b, lastBlock = some b → PNb b s) →
      tryParsersF pts parent blankLine continuable w bps result lastBlock f s = .ok ((x, f'), s') →
      (FJ f' s' ∧ FM f f' ∧ KS s s') ∧ (x.2.1 ≠ .newBlocksOpened → x.2.1 = result ∧ Shr s s') ∧
        (∀ b, x.2.2 = some b → PNb b s') := by
  intro bps
  induction bps with
  | nil =>
    intro result lastBlock f s x f' s' j hlb e
    unfold tryParsersF at e
    obtain ⟨h0, h1, h2⟩ := pureF_ok e
    subst h0 h1 h2
    exact ⟨⟨j, FM.refl _, KS.refl _⟩, fun _ => ⟨rfl, Shr.refl _⟩, hlb⟩
  | cons bp bps ih =>
    intro result lastBlock f s x f' s' j hlb e
    unfold tryParsersF at e
    dsimp only at e
    split at e
    · exact ih result lastBlock f s x f' s' j hlb e
    · split at e
      · exact ih result lastBlock f s x f' s' j hlb e
      · obtain ⟨lb, f1, s1, e1, k1⟩ := mf_bind_ok e
        obtain ⟨eh1, ex1⟩ := upF_ok' e1
        subst eh1
        have elb : lb = s.pc.opened.getLast? ∧ s = s1 := by
          unfold lastOpenedBlock at ex1
          obtain ⟨pc, s0, e0, k0⟩ := bind_ok ex1
          obtain ⟨epc, es0⟩ := getPc_ok' e0
          subst es0 epc
          cases k0; exact ⟨rfl, rfl⟩
        obtain ⟨elb, es1⟩ := elb
        subst es1
        have hlb1 : ∀ b, lb = some b → PNb b s := fun b hb => j.pn b (List.mem_of_getLast? (by rw [← elb]; exact hb))
        obtain ⟨r, f2, s2, e2, k2⟩ := mf_bind_ok k1
        obtain ⟨j2, m2, ks12, op2, pn2'⟩ := bpOpenF_spec bp parent f s r f2 s2 j e2
        cases hr : r.1 with
        | none =>
          simp only [hr] at k2
          obtain ⟨⟨a, b, c⟩, d, d2⟩ := ih result lb f2 s2 x f' s' j2 (fun b hb => (hlb1 b hb).ks ks12) k2
          exact ⟨⟨a, m2.trans b, ks12.trans c⟩, fun hx => ⟨(d hx).1, (Shr.of_eq op2).trans (d hx).2⟩, d2⟩
        | some node =>
          simp only [hr] at k2
          have pn2 : PNb { node := node, bp := bp.tag } s2 := pn2' node hr
          have hkpure : ∀ (A B : TryOutcomeT × OpenResult × Option Block) (c : Prop) [Decidable c] (f : FS) (s : St) x f' s',
              (if c then (Pure.pure A : MF _) else Pure.pure B) f s = .ok ((x, f'), s') →
                f = f' ∧ s = s' ∧ (x = A ∨ x = B) := by
            intro A B c _ f s x f' s' e
            split at e
            · cases e; exact ⟨rfl, rfl, Or.inl rfl⟩
            · cases e; exact ⟨rfl, rfl, Or.inr rfl⟩
          have tail : ∀ (f3 : FS) (s3 : St), FJ f3 s3 → PNb { node := node, bp := bp.tag } s3 → (∀ b, lb = some b → PNb b s3) →
              ∀ (transformed : Bool), (if transformed = true then Pure.pure (TryOutcomeT.retryTransformed, result, lb) else do
                GM.ConvertF.up (modNode node fun n => { n with blankPrev := blankLine })
                match Option.map (fun x => x.node) lb with
                | some l => do
                  let n ← GM.ConvertF.up (getNode l)
                  if n.parent.isNone = true then do
                    let pc ← GM.ConvertF.up getPc
                    closeBlocksF pts ((pc.opened.length : Int) - 1) ((pc.opened.length : Int) - 1)
                    GM.ConvertF.up (appendChild parent node)
                    GM.ConvertF.up (modPc fun pc => { pc with opened := pc.opened ++ [{ node := node, bp := bp.tag }] })
                    if r.2.hasChildren = true then Pure.pure (TryOutcomeT.retry node, OpenResult.newBlocksOpened, lb)
                    else Pure.pure (TryOutcomeT.done, OpenResult.newBlocksOpened, lb)
                  else do
                    GM.ConvertF.up (appendChild parent node)
                    GM.ConvertF.up (modPc fun pc => { pc with opened := pc.opened ++ [{ node := node, bp := bp.tag }] })
                    if r.2.hasChildren = true then Pure.pure (TryOutcomeT.retry node, OpenResult.newBlocksOpened, lb)
                    else Pure.pure (TryOutcomeT.done, OpenResult.newBlocksOpened, lb)
                | none => do
                  GM.ConvertF.up (appendChild parent node)
                  GM.ConvertF.up (modPc fun pc => { pc with opened := pc.opened ++ [{ node := node, bp := bp.tag }] })
                  if r.2.hasChildren = true then Pure.pure (TryOutcomeT.retry node, OpenResult.newBlocksOpened, lb)
                  else Pure.pure (TryOutcomeT.done, OpenResult.newBlocksOpened, lb) : MF _) f3 s3 = .ok ((x, f'), s') →
              (FJ f' s' ∧ FM f3 f' ∧ KS s3 s') ∧ (x.2.1 ≠ .newBlocksOpened → x.2.1 = result ∧ Shr s3 s') ∧
                (∀ b, x.2.2 = some b → PNb b s') := by
            intro f3 s3 j3 pn3 hl3 transformed e3
            cases transformed with
            | true =>
              simp only [if_true] at e3
              obtain ⟨h0, h1, h2⟩ := pureF_ok e3
              subst h0 h1 h2
              exact ⟨⟨j3, FM.refl _, KS.refl _⟩, fun _ => ⟨rfl, Shr.refl _⟩, hl3⟩
            | false =>
              simp only [Bool.false_eq_true, if_false] at e3
              obtain ⟨u4, f4, s4, e4, k4⟩ := mf_bind_ok e3
              obtain ⟨eh4, ex4⟩ := upF_ok' e4
              subst eh4
              have st4 : StepB s3 s4 := StepB.of (W := fun _ => False)
                (.of_lr ((modNode_lk node (fun n => { n with blankPrev := blankLine }) (fun _ => ⟨rfl, rfl, rfl⟩)).h _ _ _ ex4))
                ((modNode_br node (fun n => { n with blankPrev := blankLine }) (fun _ => ⟨rfl, rfl, rfl⟩)).h _ _ _ ex4)
                (fun _ h => h.elim)
              obtain ⟨a, b, c, q⟩ := afterMod_spec pts hpts hptb (fun x => x = _ ∨ x = _) parent node bp.tag _ _ (hkpure _ _ _)
                f3 s4 x f' s' (j3.step st4) (pn3.ks st4.ks) k4
              refine ⟨⟨a, b, st4.ks.trans c⟩, fun hx => ?_, fun b' hb' => ?_⟩
              · exfalso
                rcases q with q | q <;> (rw [q] at hx; exact hx rfl)
              · have : lb = some b' := by rcases q with q | q <;> (rw [q] at hb'; exact hb')
                exact (hl3 b' this).ks (st4.ks.trans c)
          split at k2
          · obtain ⟨tr, f3, s3, e3, k3⟩ := mf_bind_ok k2
            have hlast : s2.pc.opened.getLast? = lb := by rw [op2]; exact elb.symm
            obtain ⟨j3, a3, ks3, sh3⟩ := requireParaF_spec pts hpts hptb parent _ lb f2 s2 tr f3 s3 j2 hlast e3
            obtain ⟨⟨a, b, c⟩, d, d2⟩ := tail f3 s3 j3 (pn2.ks ks3) (fun b hb => (hlb1 b hb).ks (ks12.trans ks3)) tr k3
            exact ⟨⟨a, m2.trans (a3.trans b), ks12.trans (ks3.trans c)⟩,
              fun hx => ⟨(d hx).1, ((Shr.of_eq op2).trans sh3).trans (d hx).2⟩, d2⟩
          · obtain ⟨tr, f3, s3, e3, k3⟩ := mf_bind_ok k2
            obtain ⟨et, eh3, es3⟩ := pureF_ok e3
            subst eh3 es3
            obtain ⟨⟨a, b, c⟩, d, d2⟩ := tail f2 s2 j2 pn2 (fun b hb => (hlb1 b hb).ks ks12) tr k3
            exact ⟨⟨a, m2.trans b, ks12.trans c⟩, fun hx => ⟨(d hx).1, (Shr.of_eq op2).trans (d hx).2⟩, d2⟩

end

end GM.ConvertF
