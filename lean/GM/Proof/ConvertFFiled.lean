/-
  GM.Proof.ConvertFFiled — EVERY FOOTNOTE IS FILED: in the final state of the block phase with the footnote block parser the
  tagged tree `treeOfF` is `clean` — no `*ast.Footnote` outside the FootnoteList, none (and no list) below a definition, no
  list node reached without fuel, no lines on a Footnote / the list. From the close discipline (GM.Proof.ConvertFDisc3:
  invariant `FJ`, empty stack at the end) and the one-depth lemma of a tree-shaped store (GM.Proof.ConvertFOnce).
-/
import GM.Proof.ConvertFDisc3
import GM.Proof.ConvertFOnce
import GM.Proof.ForestLists

namespace GM.ConvertF
open GM GM.Text GM.Blocks GM.Convert GM.ConvertH

theorem cleanL_map (g : Nat → FTree) : ∀ cs : List Nat, (∀ c ∈ cs, (g c).clean = true) → FTree.cleanL (cs.map g) = true
  | [], _ => rfl
  | c :: rest, h => by
    simp only [List.map_cons, FTree.cleanL, Bool.and_eq_true]
    exact ⟨h c (List.mem_cons_self ..), cleanL_map g rest (fun x hx => h x (List.mem_cons_of_mem _ hx))⟩

theorem cleanL_mapIdx (g : Nat → Nat → FTree) : ∀ (k : Nat) (cs : List Nat), (∀ i, ∀ c ∈ cs, (g i c).clean = true) →
    FTree.cleanL (mapIdxFrom g k cs) = true
  | _, [], _ => rfl
  | k, c :: rest, h => by
    simp only [mapIdxFrom, FTree.cleanL, Bool.and_eq_true]
    exact ⟨h k c (List.mem_cons_self ..), cleanL_mapIdx g (k + 1) rest (fun i x hx => h i x (List.mem_cons_of_mem _ hx))⟩

theorem anc_step {s : St} {c x : Nat} (hp : (ndx s c).parent = some x) (e : Nat) : anc s (e + 1) c = anc s e x := by
  conv => lhs; unfold anc
  rw [hp]

section
variable (f : FS) (s : St) (j : FJ f s) (ho : s.pc.opened = [])
include j ho

/-- with the stack empty: every child edge to a Footnote comes from the list -/
theorem ein0 (p c : Nat) (hc : c ∈ (ndx s p).children) (hfn : f.isFn c = true) : f.list = some p := by
  rcases j.ein p c hc hfn with h | ⟨b, hb, _⟩
  · exact h
  · rw [ho] at hb; cases hb

/-- the list is not its own proper ancestor -/
theorem list_acyclic (L dL : Nat) (hd : anc s dL L = some 0) (e : Nat) (h : anc s (e + 1) L = some L) : False := by
  have := anc_add (e + 1) dL L L 0 h hd
  have := anc_depth j.wf _ _ L this hd
  omega

/-- below a definition: plain nodes only -/
theorem clean_note (L dL : Nat) (hL : f.list = some L) (hd : anc s dL L = some 0) :
    ∀ (k : Nat) (y p e : Nat), y ∈ (ndx s p).children → anc s (e + 1) p = some L →
      (treeOfF f s.nodes k .note y).clean = true := by
  intro k
  induction k with
  | zero =>
    intro y p e hy hp
    have htag := clean_note_tag y p e hy hp
    simp only [treeOfF, htag, FTag.isList, Bool.false_and, Bool.false_eq_true, if_false, FTree.clean, FTree.cleanL, Bool.and_self]
  | succ k ih =>
    intro y p e hy hp
    have htag := clean_note_tag y p e hy hp
    simp only [treeOfF, htag, FTag.isList, Bool.false_eq_true, if_false, FTree.clean, Bool.true_and]
    apply cleanL_map
    intro c hc
    refine ih c y (e + 1) hc ?_
    rw [anc_step (j.wf.edge p y hy).2]
    exact hp
where
  clean_note_tag (y p e : Nat) (hy : y ∈ (ndx s p).children) (hp : anc s (e + 1) p = some L) : tagIn f .note y = .plain := by
    have h1 : (f.list == some y) = false := by
      rw [hL]
      cases hb : (some L == some y) with
      | false => rfl
      | true =>
        exfalso
        have : L = y := by simpa using hb
        subst this
        have h2 : anc s (e + 2) L = some L := by
          rw [anc_step (j.wf.edge p L hy).2]; exact hp
        exact list_acyclic f s j ho L dL hd (e + 1) h2
    have h2 : f.isFn y = false := by
      cases hb : f.isFn y with
      | false => rfl
      | true =>
        exfalso
        have := ein0 f s j ho p y hy hb
        rw [hL] at this
        cases this
        exact list_acyclic f s j ho L dL hd e hp
    simp [tagIn, h1, h2]

/-- a child of the list: a definition without lines (or the transformer's panic), plain nodes below it -/
theorem clean_noteRoot (L dL : Nat) (hL : f.list = some L) (hd : anc s dL L = some 0) (k i c : Nat)
    (hc : c ∈ (ndx s L).children) : (treeOfF f s.nodes k (.noteRoot i) c).clean = true := by
  have hnl : (tagIn f (.noteRoot i) c).isList = false := by
    rcases tagIn_noteRoot f i c with h | h <;> rw [h] <;> rfl
  have hown : (match tagIn f (.noteRoot i) c with
      | .stray => false
      | .alien => true
      | .list => (s.nodes.getD c default).lines.isEmpty
      | .footnote _ => (s.nodes.getD c default).lines.isEmpty
      | .plain => true) = true := by
    unfold tagIn
    simp only
    by_cases hfn : f.isFn c = true
    · simp only [hfn, if_true]
      have := j.nl c (j.kfn c hfn)
      simp only [ndx] at this
      rw [this]; rfl
    · simp [hfn]
  cases k with
  | zero =>
    simp only [treeOfF, hnl, Bool.false_and, Bool.false_eq_true, if_false, FTree.clean, FTree.cleanL, Bool.and_true]
    exact hown
  | succ k =>
    simp only [treeOfF, hnl, Bool.false_eq_true, if_false, FTree.clean, Bool.and_eq_true]
    refine ⟨hown, cleanL_map _ _ (fun y hy => ?_)⟩
    refine clean_note f s j ho L dL hL hd k y c 0 hy ?_
    rw [anc_step (j.wf.edge L c hc).2]
    rfl

/-- outside the list: the list itself (once, with fuel), plain nodes -/
theorem clean_body : ∀ (k : Nat) (x d : Nat) (P : List Nat), anc s d x = some 0 → d + k = s.nodes.length →
    P.Nodup → (∀ a ∈ P, a < s.nodes.length) → P.length = d + 1 → (∀ a ∈ P, ∃ e, anc s e x = some a) →
    f.isFn x = false → (∀ l, f.list = some l → ∀ e, anc s (e + 1) x ≠ some l) →
    (treeOfF f s.nodes k .body x).clean = true := by
  intro k
  induction k with
  | zero =>
    intro x d P hd hk hP hv hl _ _ _
    exfalso
    have := GM.Proof.ForestLists.length_le_of_nodup_lt hP hv
    omega
  | succ k ih =>
    intro x d P hd hk hP hv hl hanc hfn hnp
    by_cases hx : f.list = some x
    · have htag : tagIn f .body x = .list := by simp [tagIn, hx]
      have hlines : (s.nodes.getD x default).lines = [] := by
        have := j.nl x (j.klist x hx)
        simpa only [ndx] using this
      simp only [treeOfF, htag, FTag.isList, if_true, FTree.clean, hlines, List.isEmpty_nil, Bool.true_and]
      exact cleanL_mapIdx _ _ _ (fun i c hc => clean_noteRoot f s j ho x d hx hd k i c hc)
    · have htag : tagIn f .body x = .plain := by
        have h1 : (f.list == some x) = false := by
          cases hb : (f.list == some x) with
          | false => rfl
          | true => exact absurd (by simpa using hb) hx
        simp [tagIn, h1, hfn]
      simp only [treeOfF, htag, FTag.isList, Bool.false_eq_true, if_false, FTree.clean, Bool.true_and]
      apply cleanL_map
      intro c hc
      have hpc := (j.wf.edge x c hc).2
      have hdc : anc s (d + 1) c = some 0 := by rw [anc_step hpc]; exact hd
      refine ih c (d + 1) (c :: P) hdc (by omega) ?_ ?_ (by simp [hl]) ?_ ?_ ?_
      · refine List.nodup_cons.2 ⟨fun hin => ?_, hP⟩
        obtain ⟨e, he⟩ := hanc c hin
        have h1 : anc s (e + 1) c = some c := by rw [anc_step hpc]; exact he
        have h2 := anc_add (e + 1) (d + 1) c c 0 h1 hdc
        have := anc_depth j.wf _ _ c h2 hdc
        omega
      · intro a ha
        rcases List.mem_cons.1 ha with rfl | ha
        · exact (j.wf.edge x a hc).1
        · exact hv a ha
      · intro a ha
        rcases List.mem_cons.1 ha with rfl | ha
        · exact ⟨0, rfl⟩
        · obtain ⟨e, he⟩ := hanc a ha
          exact ⟨e + 1, by rw [anc_step hpc]; exact he⟩
      · cases hb : f.isFn c with
        | false => rfl
        | true => exact absurd (ein0 f s j ho x c hc hb) hx
      · intro l hl' e he
        rw [anc_step hpc] at he
        cases e with
        | zero =>
          have : x = l := by simpa [anc] using he
          subst this
          exact hx hl'
        | succ e => exact hnp l hl' e he

/-- **every Footnote is filed** -/
theorem treeOfF_clean : (treeOfF f s.nodes s.nodes.length .body 0).clean = true := by
  refine clean_body f s j ho s.nodes.length 0 0 [0] rfl (by omega) (by simp) ?_ rfl ?_ ?_ ?_
  · intro a ha; simp at ha; subst ha; exact j.wf.ne
  · intro a ha; simp at ha; subst ha; exact ⟨0, rfl⟩
  · cases hb : f.isFn 0 with
    | false => rfl
    | true => have := (isFn_valid j.ids hb).1; omega
  · intro l _ e he
    unfold anc at he
    rw [j.wf.root] at he
    cases he

end

/-- **`FootnotesAllFiled`**: for every source, guard setting and registration flag the tagged tree of the final state of
    the block phase is `clean` -/
theorem blockPhaseF_clean (on guard : Bool) (src : Bytes) (f : FS) (st : St) (e : blockPhaseF on guard src = .ok (f, st)) :
    (treeOfF f st.nodes st.nodes.length .body 0).clean = true := by
  obtain ⟨j, ho⟩ := blockPhaseF_disc on guard src f st e
  exact treeOfF_clean f st j ho

end GM.ConvertF
