/-
  GM.Proof.CMFrag13Defs — stage 13 (the union of the stages): the blocks of stage 6 / 7 whose text lines are rich lines
  (text, code spans, `*emphasis*`, `**strong**`) and whose paragraph lines may end with a backslash hard break.
  (Definitions only.)
-/
import GM.Proof.CMFrag11Defs
import GM.Proof.CMFrag7Main

namespace GM.Proof.CMFrag
open GM GM.Text

/-- a paragraph line: its atoms, and whether a backslash (hard line break) follows -/
structure ULine where
  atoms : List EAtom
  hard : Bool
deriving Repr, Inhabited

def ulineSrc (x : ULine) : Bytes := elineSrc x.atoms ++ (if x.hard then [92] else [])

/-- every line rich; the last line of a paragraph is not hard -/
def ULinesOK (ls : List ULine) : Prop :=
  (∀ x ∈ ls, ERichLine x.atoms) ∧ (∀ x, ls.getLast? = some x → x.hard = false)

/-- the nodes of one line; `soft` / `hard` are the flags of the line's LAST text node -/
def uatomNodes (soft hard : Bool) : List EAtom → List GM.Node
  | [] => []
  | [.txt bs] => [.mk (.text bs soft hard false false) none []]
  | .txt bs :: rest => .mk (.text bs false false false false) none [] :: uatomNodes soft hard rest
  | .code bs :: rest => .mk .codeSpan none [.mk (.text bs false false true false) none []] :: uatomNodes soft hard rest
  | .em bs :: rest => .mk (.emphasis 1) none [.mk (.text bs false false false false) none []] :: uatomNodes soft hard rest
  | .strong bs :: rest =>
    .mk (.emphasis 2) none [.mk (.text bs false false false false) none []] :: uatomNodes soft hard rest

/-- the children of a paragraph as the renderer reads them: a hard line's last text has `soft = false, hard = true`,
    another line that is not the last `soft = true`, the last line neither -/
def uNodes : List ULine → List GM.Node
  | [] => []
  | [x] => uatomNodes false false x.atoms
  | x :: y :: rest => uatomNodes (!x.hard) x.hard x.atoms ++ uNodes (y :: rest)

/-- the HTML between `<p>` and `</p>` -/
def uHtml : List ULine → Bytes
  | [] => []
  | [x] => erichLineHtml x.atoms
  | x :: y :: rest => erichLineHtml x.atoms ++ (if x.hard then strBytes "<br />\n" else [10]) ++ uHtml (y :: rest)

/-- a block of the union fragment -/
inductive UBlock where
  | para (ls : List ULine)
  | atx (level : Nat) (l : List EAtom)
  | hr (h : Bytes)
  | fence (fc : UInt8) (n : Nat) (info : Bytes) (ls : List Bytes)
  | icode (ls : List Bytes)

/-- the block as byte lines (what the block phase sees) -/
def uraw : UBlock → Raw5
  | .para ls => .old (.para (ls.map ulineSrc))
  | .atx level l => .old (.atx level (elineSrc l))
  | .hr h => .old (.hr h)
  | .fence fc n info ls => .fence fc n info ls
  | .icode ls => .icode ls

/-- the block as the renderer reads it -/
def uNode : UBlock → GM.Node
  | .para ls => .mk .paragraph none (uNodes ls)
  | .atx level l => .mk (.heading level) none (uatomNodes false false l)
  | .hr h => rawNode5 (.old (.hr h))
  | .fence fc n info ls => rawNode5 (.fence fc n info ls)
  | .icode ls => rawNode5 (.icode ls)

/-- the HTML of one block -/
def uBlockHtml : UBlock → Bytes
  | .para ls => strBytes "<p>" ++ uHtml ls ++ strBytes "</p>\n"
  | .atx level l =>
    strBytes "<h" ++ [UInt8.ofNat (48 + level)] ++ [62] ++ erichLineHtml l ++ strBytes "</h" ++
      [UInt8.ofNat (48 + level)] ++ strBytes ">\n"
  | .hr h => rawHtml5 (.old (.hr h))
  | .fence fc n info ls => rawHtml5 (.fence fc n info ls)
  | .icode ls => rawHtml5 (.icode ls)

def uDocHtml (bs : List UBlock) : Bytes := bs.flatMap uBlockHtml

/-- what the three phases need of a block -/
def UGood : UBlock → Prop
  | .para ls => ls ≠ [] ∧ ULinesOK ls
  | .atx level l => 1 ≤ level ∧ level ≤ 6 ∧ ERichLine l ∧ ∀ c, (elineSrc l).getLast? = some c → c ≠ 35
  | .hr h => Good5' (.old (.hr h))
  | .fence fc n info ls => Good5' (.fence fc n info ls)
  | .icode ls => Good5' (.icode ls)

/-- the block is an indented code block -/
def UBlock.isIc : UBlock → Bool
  | .icode _ => true
  | _ => false

end GM.Proof.CMFrag
