/-
  GM.Proof.BlocksTNP34 — **the block phase with paragraph transformers of the WIDE contract ends normally for every source**
  (or with the transformers' error `e`): `runT_totalX`. `PTsSpecX` (GM.Proof.BlocksTNP30) allows transformers that, besides
  what `PTPost` allows, attach fresh subtrees behind the paragraph and keep a PREFIX of its lines (GFM tables).
  `runT_total` (GM.Proof.BlocksTNP26) is the special case `PTsSpec → PTsSpecX` (`runT_total_of_X`).
-/
import GM.Proof.BlocksTNP33
import GM.Proof.BlocksNoPanicAll
import GM.Proof.BlocksT

namespace GM.Blocks.T
open GM GM.Text GM.Spec GM.Proof.Reader

theorem runT_totalX (src : Bytes) (e : Panic) (pts : List PT) (hs : L.G.X.PTsSpecX src e pts) (hl : PTsOK pts) :
    (∃ s, runT pts src = .ok s ∧ NodesOK src s ∧ KidsOK s) ∨ runT pts src = .error e := by
  rcases L.G.X.runG (lsp_all src) hs with h | h | h
  · exact .inl h
  · exact absurd h (runT_noLoop hl src)
  · exact .inr h

/-- the theorem for the narrow contract, from the wide one -/
theorem runT_total_of_X (src : Bytes) (e : Panic) (pts : List PT) (hs : PTsSpec src e pts) (hl : PTsOK pts) :
    (∃ s, runT pts src = .ok s ∧ NodesOK src s ∧ KidsOK s) ∨ runT pts src = .error e :=
  runT_totalX src e pts (L.G.X.ptsSpecX_of_ptsSpec hs) hl

end GM.Blocks.T
