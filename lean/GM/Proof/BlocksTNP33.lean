/-
  GM.Proof.BlocksTNP33 — GM.Proof.BlocksTNP25 (the line loops and the whole run) for the wide transformer contract `PTsSpecX`
  (namespace `GM.Blocks.L.G.X`; same proofs over GM.Proof.BlocksTNP30/31).
-/
import GM.Proof.BlocksTNP32

namespace GM.Blocks.L.G.X
open GM GM.Text GM.Spec GM.Proof.Reader GM.Blocks.T GM.Blocks.TR


/-- the post-condition of one pass over the opened blocks -/
def LLPostG (src : Bytes) (root : Nat) (_x : LineOutcome × List LineStat) (s' : St) : Prop :=
  ∃ c', RIa src s'.r c' ∧ StableG src root s'

theorem StableG.same {src : Bytes} {root : Nat} {s s' : St} (h : StableG src root s) (e : Ext s s') (hnodes : NodesOK src s')
    (t : TreeSame s s') (ho : s'.pc.opened = s.pc.opened) (ht : s'.pc.tmpPara = s.pc.tmpPara)
    (hf : s'.pc.fence = s.pc.fence) : StableG src root s' := by
  have hbok : ∀ b, BlockOK s b → BlockOK s' b := fun b hb =>
    hb.ext e (fun hp => by rw [ht]; exact (hb.setext hp).2) (fun hp => by rw [hf]; exact hb.fenced hp)
  refine ⟨hnodes, h.keys.ext e (.inl ht) (.inl hf), fun b hb => by rw [ho] at hb; exact hbok b (h.blocks b hb),
    by rw [ho]; exact h.leafy,
    h.ls.step e t.tf (fun i p hp => by rw [(t.same i).2.1] at hp; rw [t.len]; exact h.ls.plt i p hp) ho h.blocks, ?_, ?_,
    h.tl.ext e ht (fun b hb hs => ⟨b, by rw [← ho]; exact hb, hs⟩), treeOK_tinv.ts t h.tree, ?_,
    fun t' htt => by rw [t.len]; exact h.tmplt t' (by rw [← ht]; exact htt)⟩
  · rw [ho]
    exact chainedO_agree root s.pc.opened h.chain (fun a _ => (t.same a).1) (fun b _ => (t.same b.node).2.1)
      (fun a _ => (t.same a).2.2.1)
  · rw [ho, (t.same _).1]; exact h.endOK
  · intro lb hlb hleaf
    rw [ho] at hlb
    obtain ⟨q, hq⟩ := h.leafLast lb hlb hleaf
    exact ⟨q, (lk_tinv _ _).ts t hq⟩

theorem StableG.congr {src : Bytes} {root : Nat} {s s' : St} (h : StableG src root s) (hn : s'.nodes = s.nodes)
    (ho : s'.pc.opened = s.pc.opened) (ht : s'.pc.tmpPara = s.pc.tmpPara) (hf : s'.pc.fence = s.pc.fence) :
    StableG src root s' :=
  h.same (Ext.of_nodes_eq hn) (fun n hm => h.nodes n (by rw [← hn]; exact hm)) (TreeSame.of_nodes_eq hn) ho ht hf

theorem StableG.congr_r {src : Bytes} {root : Nat} {s : St} (h : StableG src root s) (r' : Reader) :
    StableG src root { s with r := r' } :=
  h.congr rfl rfl rfl rfl

section tp
variable {src : Bytes} (lsp : LSp src) {e : Panic} {pts : List PT} (hpts : PTsSpecX src e pts)
include lsp hpts

theorem lineTailL {root : Nat} (pre : List Block) (be : Block) (rest : List Block) (ob : List Block) (li i : Int)
    (hob : ob = pre ++ be :: rest) (hli : li = (ob.length : Int) - 1) (hi : i = (pre.length : Int))
    (thisParent : Nat) (blank : Bool) (bl' : List LineStat) (s : St) (c : RCur)
    (hop : s.pc.opened = ob) (hri : RI src s.r c) (hpad : PadOK c) (hst : StableG src root s)
    (hpar : thisParent = lastNode root pre) (hmode : (nd s thisParent).kind = .list → Due src s c thisParent) :
    OKE e (LLPostG src root)
      ((do
        let lastNode ← liftE (blockAt ob li)
        let result ← openBlocksT pts thisParent blank
        if (result != OpenResult.paragraphContinuation) = true then do
            let __do_lift ← getPc
            closeBlocksT pts
                (if (Option.map (fun x => x.node) (slotAfter ob __do_lift.opened li.toNat) != some lastNode.node) = true then
                  li - 1
                else li)
                i
            pure (LineOutcome.next, bl')
          else pure (LineOutcome.next, bl') : M _) s) := by
  have hlen : ob.length = pre.length + rest.length + 1 := by rw [hob]; simp; omega
  have hliN : li = ((pre.length + rest.length : Nat) : Int) := by rw [hli, hlen]; omega
  have hlt : pre.length + rest.length < ob.length := by omega
  have hba : blockAt ob li = .ok ob[pre.length + rest.length] := by rw [hliN]; exact blockAt_ok ob _ hlt
  refine OKE.bind (OKE.of_okl (liftE_okl (P := fun a s' => a = ob[pre.length + rest.length] ∧ s' = s) hba ⟨rfl, rfl⟩)) (fun ln sy hy => ?_)
  obtain ⟨hln, hsy⟩ := hy
  subst sy
  have hlastmem : ln ∈ ob := by rw [hln]; exact List.getElem_mem _
  have hcl : Call s.pc.opened pre := ⟨⟨be :: rest, by rw [hop, hob], fun h => by cases h⟩⟩
  have hob' := hop ▸ openBlocksL (e := e) (pts := pts) lsp hpts pre thisParent blank s c hri hpad hst hcl hpar hmode
  refine OKE.bind hob' (fun res s1 h1 => ?_)
  obtain ⟨c1, new1, hria1, _, hw1, hleafy1, hcompat1, hpc1, hend1, hts1, htl1, hsp1, hlk1, hnp1⟩ := h1
  obtain ⟨hprec, hbec, hleafmid, hmidc⟩ := leafy_split (hob ▸ hop ▸ hst.leafy)
  have hplt1 : lastNode root (pre ++ new1) < s1.nodes.length := by
    rcases lastNode_mem root (pre ++ new1) with e | ⟨b, hb', e⟩
    · rw [e]; exact hw1.ls.rootLt
    · rw [e]
      obtain ⟨suf, es⟩ := hw1.stack
      refine (hw1.blocks b ?_).lt
      rw [es]
      rcases List.mem_append.1 hb' with h | h
      · exact List.mem_append_left _ (List.mem_append_left _ h)
      · exact List.mem_append_right _ h
  have hsubnodes : ∀ b ∈ pre ++ new1, b.node < s1.nodes.length ∧ (nd s1 b.node).kind = b.bp.kind := by
    intro b hb'
    obtain ⟨suf, es⟩ := hw1.stack
    have hm : b ∈ s1.pc.opened := by
      rw [es]
      rcases List.mem_append.1 hb' with h | h
      · exact List.mem_append_left _ (List.mem_append_left _ h)
      · exact List.mem_append_right _ h
    exact ⟨(hw1.blocks b hm).lt, (hw1.blocks b hm).kind⟩
  by_cases hres : (res != OpenResult.paragraphContinuation) = true
  · rw [if_pos hres]
    refine OKE.bind (m := getPc) (P := fun pc sy => pc = s1.pc ∧ sy = s1) (OKE.ok ⟨rfl, rfl⟩) (fun pc sy hy => ?_)
    obtain ⟨hpc, hsy⟩ := hy
    subst pc sy
    have hci1 : CInv src s1 := ⟨hw1.nodes, hw1.keys, hw1.ls.kids, hw1.ls.plt, hw1.tree⟩
    have hsl : s.nodes.length ≤ s1.nodes.length := hw1.ext.len
    have fin : ∀ s2 : St, s2.pc.opened = pre ++ new1 → CRel src (pre ++ new1) s1 s2 →
        List.Sublist (pre ++ new1) s1.pc.opened →
        (∀ y, new1.getLast? = some y → y.bp.isContainer = false → ∃ q, LK s2 y.node q) →
        OKE e (LLPostG src root) ((pure (LineOutcome.next, bl') : M _) s2) := by
      intro s2 h2o hr hsub hlast
      refine OKE.ok ⟨c1, by rw [hr.r]; exact hria1, hr.inv.nodes, hr.inv.keys, by rw [h2o]; exact hr.blocks,
        by rw [h2o]; exact leafy_append hprec hleafy1,
        L.T.LStore.closeW hw1.ls hr.extw hr.tf hr.inv.plt (by rw [h2o]; exact hsub) hw1.blocks, ?_, ?_, ?_, hr.inv.tree, ?_, ?_⟩
      · rw [h2o]
        exact L.T.chainedO_tfW hr.extw hr.tf root (pre ++ new1) hw1.chain hw1.ls.rootLt hsubnodes
      · rw [h2o, hr.extw.kind _ hplt1]; exact hend1
      · intro ⟨b, hb, hs⟩
        rw [h2o] at hb
        exact hr.tmpok ⟨b, hb, hs⟩ (htl1 ⟨b, hsub.subset hb, hs⟩)
      · intro lb hlb hleaf
        rw [h2o] at hlb
        cases hn : new1.getLast? with
        | none =>
          have : new1 = [] := List.getLast?_eq_none_iff.1 hn
          rw [this, List.append_nil] at hlb
          have := hprec lb (List.mem_of_getLast? hlb)
          rw [hleaf] at this; cases this
        | some y =>
          rw [List.getLast?_append, hn] at hlb
          cases hlb
          exact hlast lb hn hleaf
      · intro t ht
        rcases hr.tmp with h | h
        · rw [h] at ht
          have := hw1.tmplt t ht
          have := hr.extw.len
          omega
        · rw [h] at ht; cases ht
    -- what the frame of the new leaf's `LK` over the closing of `mid` needs
    have hinc := hst.ls.incr
    rw [hop, hob, List.map_append] at hinc
    have hroot_lt : ∀ b ∈ be :: rest, root < b.node := fun b hb =>
      (List.pairwise_cons.1 hinc).1 b.node (List.mem_append_right _ (List.mem_map.2 ⟨b, hb, rfl⟩))
    have hpre_lt : ∀ b' ∈ pre, ∀ b ∈ be :: rest, b'.node < b.node := fun b' hb' b hb =>
      (List.pairwise_append.1 (List.pairwise_cons.1 hinc).2).2.2 b'.node (List.mem_map.2 ⟨b', hb', rfl⟩) b.node
        (List.mem_map.2 ⟨b, hb, rfl⟩)
    have hlkh : ∀ (mid : List Block), (∀ b ∈ mid, b ∈ be :: rest) →
        ∀ y, new1.getLast? = some y → y.bp.isContainer = false →
        LKHyp s1 mid y.node (lastNode root (pre ++ new1.dropLast)) := by
      intro mid hsubm y hy _
      have hyf := hw1.fresh y (List.mem_of_getLast? hy)
      have hmlt : ∀ b ∈ mid, b.node < s.nodes.length := fun b hb =>
        hw1.oldlt b (by rw [hob]; exact List.mem_append_right _ (hsubm b hb))
      refine ⟨fun b hb => by have := hmlt b hb; omega, fun e' => by have := hw1.tmplt _ e'; omega, fun hk b hb => ?_⟩
      cases hgl : (pre ++ new1.dropLast).getLast? with
      | none =>
        exfalso
        have hq : lastNode root (pre ++ new1.dropLast) = root := by unfold lastNode; rw [hgl]; rfl
        rw [hq, hw1.ls.rootKind] at hk; cases hk
      | some bq =>
        have hq : lastNode root (pre ++ new1.dropLast) = bq.node := by unfold lastNode; rw [hgl]; rfl
        rw [hq] at hk ⊢
        have hL0 := eq_dropLast_append_of_getLast? _ _ hgl
        have hnew := eq_dropLast_append_of_getLast? _ _ hy
        have hsplit : pre ++ new1 = (pre ++ new1.dropLast).dropLast ++ ([bq] ++ [y]) := by
          conv => lhs; rw [hnew, ← List.append_assoc, hL0]
          simp
        have hch := hw1.chain
        rw [hsplit] at hch
        have hlink := ((chainedO_append s1 root _ _).1 hch).2.1
        have hbqm : bq ∈ s1.pc.opened := by
          obtain ⟨suf, es⟩ := hw1.stack
          rw [es]
          have : bq ∈ pre ++ new1.dropLast := List.mem_of_getLast? hgl
          rcases List.mem_append.1 this with h | h
          · exact List.mem_append_left _ (List.mem_append_left _ h)
          · exact List.mem_append_right _ (List.dropLast_subset _ h)
        have hbqk := (hw1.blocks bq hbqm).kind
        rw [hk] at hbqk
        have hbqi : bq.bp = .listItem := kind_listItem hbqk.symm
        have hpk := hlink.up hbqi
        obtain ⟨_, hpar, _⟩ := hlink.down hpk
        rw [hpar]
        intro e'
        have e'' := Option.some.inj e'
        have hbm := hmlt b hb
        rcases lastNode_mem root (pre ++ new1.dropLast).dropLast with h | ⟨b', hb', h⟩
        · rw [h] at e''
          have := hroot_lt b (hsubm b hb); omega
        · rw [h] at e''
          have hb'' : b' ∈ pre ++ new1.dropLast := List.dropLast_subset _ hb'
          rcases List.mem_append.1 hb'' with h1 | h1
          · have := hpre_lt b' h1 b (hsubm b hb); omega
          · have := hw1.fresh b' (List.dropLast_subset _ h1); omega
    rcases hw1.shape with e | ⟨hne, e⟩
    · have hslot : slotAfter ob s1.pc.opened li.toNat = some ln := by
        unfold slotAfter
        rw [e, hliN, Int.toNat_natCast, List.getElem?_append_left hlt, List.getElem?_eq_getElem hlt, hln]
      rw [hslot]
      simp only [Option.map, bne_self_eq_false, Bool.false_eq_true, if_false]
      have hmo : ∀ b ∈ be :: rest, b ∈ s1.pc.opened := fun b hb => by
        rw [e, hob]; exact List.mem_append_left _ (List.mem_append_right _ hb)
      have hcb := closeBlocksG_oke lsp hpts pre (be :: rest) new1 s1 (by rw [e, hob, List.append_assoc]) hria1.source hci1
        (fun b hb => hw1.blocks b (hmo b hb)) hleafmid (fun ⟨b, hb, hs⟩ => htl1 ⟨b, hmo b hb, hs⟩)
        (fun k hk => ⟨hw1.blocks k (by
            rw [e, hob]; rcases List.mem_append.1 hk with h | h
            · exact List.mem_append_left _ (List.mem_append_left _ h)
            · exact List.mem_append_right _ h), fun top htop => by
          rcases List.mem_append.1 hk with h | h
          · exact CompatG.of_container_left (hprec k h)
          · refine ⟨hcompat1 k h top (by rw [hob]; exact List.mem_append_right _ (List.mem_of_getLast? htop)), fun hks => ?_⟩
            exfalso
            have h2 := hsp1 k h hks
            rw [e] at h2
            have h3 := List.append_cancel_right h2
            have h4 := congrArg List.length h3
            rw [List.length_dropLast] at h4
            omega⟩)
      have harg : li = (pre.length : Int) + ((be :: rest).length : Int) - 1 := by rw [hliN]; simp; omega
      rw [harg, hi]
      refine OKE.bind hcb (fun _ s2 h2 => fin s2 h2.1 h2.2.1 ?_ (fun y hy hl => ⟨_, h2.2.2 _ _ (hlk1 y hy hl)
        (hlkh (be :: rest) (fun b hb => hb) y hy hl)⟩))
      rw [e, hob, List.append_assoc]
      exact List.Sublist.append (List.Sublist.refl _) (List.sublist_append_right _ _)
    · have hdl : ob.dropLast.length = pre.length + rest.length := by rw [List.length_dropLast]; omega
      have hcond : (Option.map (fun x => x.node) (slotAfter ob s1.pc.opened li.toNat) != some ln.node) = true := by
        cases hn1 : new1 with
        | nil => exact absurd hn1 (hnp1 hne e)
        | cons x xs =>
          have hslot : slotAfter ob s1.pc.opened li.toNat = some x := by
            unfold slotAfter
            rw [e, hliN, Int.toNat_natCast, List.getElem?_append_right (by omega), hdl, Nat.sub_self, hn1]
            rfl
          have hxne : (x.node == ln.node) = false := by
            have h1 := hw1.fresh x (by rw [hn1]; simp)
            have h2 := hw1.oldlt ln hlastmem
            exact beq_false_of_ne (by omega)
          rw [hslot]
          simp only [Option.map, bne, Option.some_beq_some, hxne, Bool.not_false]
      rw [if_pos hcond]
      have hdrop : ob.dropLast = pre ++ (be :: rest).dropLast := by
        rw [hob]; exact List.dropLast_append_of_ne_nil (by simp)
      have hmo : ∀ b ∈ (be :: rest).dropLast, b ∈ s1.pc.opened := fun b hb => by
        rw [e, hdrop]; exact List.mem_append_left _ (List.mem_append_right _ hb)
      have hcb := closeBlocksG_oke lsp hpts pre (be :: rest).dropLast new1 s1 (by rw [e, hdrop]) hria1.source hci1
        (fun b hb => hw1.blocks b (hmo b hb))
        (leafy_of_all hmidc) (fun ⟨b, hb, hs⟩ => htl1 ⟨b, hmo b hb, hs⟩)
        (fun k hk => ⟨hw1.blocks k (by
            rw [e, hdrop]; rcases List.mem_append.1 hk with h | h
            · exact List.mem_append_left _ (List.mem_append_left _ h)
            · exact List.mem_append_right _ h), fun top htop =>
          CompatG.of_container (hmidc top (List.mem_of_getLast? htop))⟩)
      have harg : li - 1 = (pre.length : Int) + ((be :: rest).dropLast.length : Int) - 1 := by
        rw [hliN, List.length_dropLast]; simp
      rw [harg, hi]
      refine OKE.bind hcb (fun _ s2 h2 => fin s2 h2.1 h2.2.1 ?_ (fun y hy hl => ⟨_, h2.2.2 _ _ (hlk1 y hy hl)
        (hlkh (be :: rest).dropLast (fun b hb => List.dropLast_subset _ hb) y hy hl)⟩))
      rw [e, hdrop, List.append_assoc]
      exact List.Sublist.append (List.Sublist.refl _) (List.sublist_append_right _ _)
  · rw [if_neg hres]
    obtain ⟨hpcn, hop1⟩ := hpc1 (by simpa using hres)
    subst hpcn
    -- nothing opened, nothing closed: the stack is the old one; kinds and links are unchanged
    have hts := hts1 rfl hop1
    refine OKE.ok ⟨c1, hria1, hw1.nodes, hw1.keys, hw1.blocks, by rw [hop1, ← hop]; exact hst.leafy, hw1.ls, ?_, ?_, htl1,
      hw1.tree, ?_, fun t ht => Nat.lt_of_lt_of_le (hw1.tmplt t ht) hw1.ext.len⟩
    · rw [hop1, ← hop]
      exact chainedO_agree root s.pc.opened hst.chain (fun a _ => (hts.same a).1) (fun b _ => (hts.same b.node).2.1)
        (fun a _ => (hts.same a).2.2.1)
    · rw [hop1, ← hop, (hts.same _).1]; exact hst.endOK
    · intro lb hlb hleaf
      rw [hop1, ← hop] at hlb
      obtain ⟨q, hq⟩ := hst.leafLast lb hlb hleaf
      exact ⟨q, (lk_tinv _ _).ts hts hq⟩


theorem lineFL {root : Nat} (parent : Nat) (hroot : parent = root) (pre : List Block) (be : Block) (rest : List Block)
    (ob : List Block) (li i : Int)
    (hob : ob = pre ++ be :: rest) (hli : li = (ob.length : Int) - 1) (hi : i = (pre.length : Int))
    (blank : Bool) (bl' : List LineStat) (s : St) (c : RCur)
    (hop : s.pc.opened = ob) (hri : RI src s.r c) (hpad : PadOK c) (hst : StableG src root s)
    (hmode : (nd s (lastNode root pre)).kind = .list → Due src s c (lastNode root pre)) :
    OKE e (LLPostG src root)
      ((if (i != 0) = true then do
          let b ← liftE (blockAt ob (i - 1))
          let thisParent ← pure b.node
          let lastNode ← liftE (blockAt ob li)
          let result ← openBlocksT pts thisParent blank
          if (result != OpenResult.paragraphContinuation) = true then do
              let __do_lift ← getPc
              closeBlocksT pts
                  (if (Option.map (fun x => x.node) (slotAfter ob __do_lift.opened li.toNat) != some lastNode.node) = true then
                    li - 1
                  else li)
                  i
              pure (LineOutcome.next, bl')
            else pure (LineOutcome.next, bl')
        else do
          let thisParent ← pure parent
          let lastNode ← liftE (blockAt ob li)
          let result ← openBlocksT pts thisParent blank
          if (result != OpenResult.paragraphContinuation) = true then do
              let __do_lift ← getPc
              closeBlocksT pts
                  (if (Option.map (fun x => x.node) (slotAfter ob __do_lift.opened li.toNat) != some lastNode.node) = true then
                    li - 1
                  else li)
                  i
              pure (LineOutcome.next, bl')
            else pure (LineOutcome.next, bl') : M _) s) := by
  by_cases hi0 : (i != 0) = true
  · rw [if_pos hi0]
    have hpos : 1 ≤ pre.length := by
      have : i ≠ 0 := by simpa using hi0
      omega
    have hlt : pre.length - 1 < ob.length := by rw [hob]; simp; omega
    have hba : blockAt ob (i - 1) = .ok ob[pre.length - 1] := by
      have : i - 1 = ((pre.length - 1 : Nat) : Int) := by omega
      rw [this]; exact blockAt_ok ob _ hlt
    refine OKE.bind (OKE.of_okl (liftE_okl (P := fun a s' => a = ob[pre.length - 1] ∧ s' = s) hba ⟨rfl, rfl⟩)) (fun b sy hy => ?_)
    obtain ⟨hbv, hsy⟩ := hy
    subst sy
    simp only [pure_bind]
    have hbn : b.node = lastNode root pre := by
      rw [hbv]
      subst hob
      exact lastNode_pre root pre be rest hpos hlt
    exact lineTailL lsp hpts pre be rest ob li i hob hli hi b.node blank bl' s c hop hri hpad hst hbn (by rw [hbn]; exact hmode)
  · rw [if_neg hi0]
    simp only [pure_bind]
    have hpe : pre = [] := by
      have : i = 0 := by simpa using hi0
      exact List.length_eq_zero_iff.1 (by omega)
    have hbn : parent = lastNode root pre := by rw [hpe, hroot]; rfl
    exact lineTailL lsp hpts pre be rest ob li i hob hli hi parent blank bl' s c hop hri hpad hst hbn (by rw [hbn]; exact hmode)



theorem lineLoopL {root : Nat} (parent : Nat) (hroot : parent = root) (ob : List Block) (li : Int)
    (hli : li = (ob.length : Int) - 1) :
    ∀ (rest pre : List Block) (i : Int) (bl : List LineStat) (s : St) (c : RCur), ob = pre ++ rest → i = (pre.length : Int) →
      s.pc.opened = ob → RI src s.r c → PadOK c → StableG src root s →
      (∀ Lb, pre.getLast? = some Lb → Lb.bp = .list → ListHint src s c Lb.node) →
      OKE e (LLPostG src root) (lineLoopT pts parent ob li rest i bl s) := by
  intro rest
  induction rest with
  | nil =>
    intro pre i bl s c _ _ _ hri _ hst _
    unfold lineLoopT
    exact OKE.ok ⟨c, hri.toRIa, hst⟩
  | cons be rest ih =>
    intro pre i bl s c hob hi hop hri hpad hst hhint
    unfold lineLoopT
    simp only []
    refine OKE.bind (OKE.of_okl (peekLine_okl hri)) (fun x s1 hx => ?_)
    obtain ⟨hx, r1, hs1, h1⟩ := hx
    subst hx hs1
    simp only
    have hst1 : StableG src root { s with r := r1 } := hst.congr rfl rfl rfl rfl
    have hhint1 : ∀ Lb, pre.getLast? = some Lb → Lb.bp = .list → ListHint src { s with r := r1 } c Lb.node := hhint
    cases hv : RCur.view src c with
    | none =>
      simp only []
      have hcb := closeBlocksG_oke lsp hpts [] ob [] { s with r := r1 } (by simp [hop]) h1.source
        ⟨hst1.nodes, hst1.keys, hst1.ls.kids, hst1.ls.plt, hst1.tree⟩
        (fun b hb => hst1.blocks b (by simpa [hop] using hb)) (hop ▸ hst.leafy)
        (fun ⟨b, hb, hs⟩ => hst1.tl ⟨b, by simpa [hop] using hb, hs⟩) (by simp)
      have e1 : ((([] : List Block).length : Int) + (ob.length : Int) - 1) = li := by simp [hli]
      rw [e1] at hcb
      refine OKE.bind (m := closeBlocksT pts li 0) hcb (fun _ s2 h2 => ?_)
      obtain ⟨h2o, hr2, _⟩ := h2
      have h2r := hr2.r
      have h2n := hr2.inv.nodes
      have h2k := hr2.inv.keys
      have h2e := hr2.extw
      have h2tm := hr2.tmp
      have h2t := hr2.tf
      have h2p := hr2.inv.plt
      simp only [bind, StateT.bind, advanceLine_eq, Except.bind, pure, StateT.pure, Except.pure]
      have hri2 : RI src s2.r c := by rw [h2r]; exact h1
      have hls2 : LStore s2 root := L.T.LStore.closeW hst1.ls h2e h2t h2p (by rw [h2o]; simp) hst1.blocks
      refine OKE.ok ⟨_, (ri_advanceLine hri2).toRIa, h2n, ⟨h2k.fence⟩, ?_, ?_,
        ⟨⟨hls2.kids.kids, hls2.kids.off, hls2.kids.pk⟩, hls2.plt, hls2.rootKind, hls2.rootLt, ?_, ?_⟩, ?_, ?_, ?_,
        ⟨hr2.inv.tree.pc, hr2.inv.tree.cp, hr2.inv.tree.nodup⟩, ?_, ?_⟩
      · intro b hb; simp only [h2o, List.append_nil] at hb; cases hb
      · simp only [h2o, List.append_nil]; intro b hb; cases hb
      · intro b hb; simp only [h2o, List.append_nil] at hb; cases hb
      · simp only [h2o, List.append_nil, List.map_nil]; exact List.pairwise_singleton _ _
      · simp only [h2o, List.append_nil]; trivial
      · simp only [h2o, List.append_nil, lastNode_nil]
        show (nd s2 root).kind ≠ .list
        rw [hls2.rootKind]; decide
      · intro ⟨b, hb, _⟩
        simp only [h2o, List.append_nil] at hb; cases hb
      · intro lb hlb _
        simp only [h2o, List.append_nil] at hlb; cases hlb
      · intro t ht
        have ht' : s2.pc.tmpPara = some t := ht
        show t < s2.nodes.length
        rcases h2tm with h | h
        · rw [h] at ht'
          have := hst1.tmplt t ht'
          have := h2e.len
          omega
        · rw [h] at ht'; cases ht'
    | some line =>
      simp only []
      have hp : c.p < src.length := view_some_lt src c hv
      have hlineOf : lineOf src c = line := by unfold lineOf; rw [hv]; rfl
      refine OKE.bind (m := position) (P := fun _ sy => sy = { s with r := r1 }) (OKE.ok rfl) (fun pos sy hy => ?_)
      subst hy
      refine OKE.bind (m := getNode be.node) (P := fun n sy => n = nd { s with r := r1 } be.node ∧ sy = { s with r := r1 })
        (OKE.ok ⟨rfl, rfl⟩) (fun n sy hy => ?_)
      obtain ⟨hn, hsy⟩ := hy
      subst n sy
      have hbemem : be ∈ s.pc.opened := by rw [hop, hob]; simp
      have hbeok := hst1.blocks be hbemem
      obtain ⟨hchpre, hlink, hchrest⟩ := chainedO_split (hob ▸ hop ▸ hst1.chain)
      -- the parent of `be` is a List only if `be` is a ListItem
      have hnotitem : be.bp ≠ .listItem → (nd { s with r := r1 } (lastNode root pre)).kind ≠ .list := fun hne hk =>
        hne (hlink.down hk).1
      have useF := fun (s2 : St) (c2 : RCur) (blank : Bool) (bl' : List LineStat) (ho2 : s2.pc.opened = ob)
          (hri2 : RI src s2.r c2) (hpad2 : PadOK c2) (hst2 : StableG src root s2)
          (hmode2 : (nd s2 (lastNode root pre)).kind = .list → Due src s2 c2 (lastNode root pre)) =>
        lineFL lsp hpts parent hroot pre be rest ob li i hob hli hi blank bl' s2 c2 ho2 hri2 hpad2 hst2 hmode2
      -- common treatment of the answer `st` of `Continue`, in state `s2`
      have after : ∀ (K : M (LineOutcome × List LineStat)) (st : PState) (s2 : St) (c2 : RCur) (blankv : Bool)
          (bl' : List LineStat), StableG src root s2 → s2.pc.opened = ob → RIa src s2.r c2 → PadOK c2 →
          ((st.cont = true ∧ st.hasChildren = false) ∨ RI src s2.r c2) →
          (be.bp.isContainer = true → st.cont = true → st.hasChildren = true) →
          (be.bp.isContainer = false → st.hasChildren = false) →
          (st.cont = true → ∀ Lb, (pre ++ [be]).getLast? = some Lb → Lb.bp = .list → ListHint src s2 c2 Lb.node) →
          (st.cont = false → RI src s2.r c2 → OKE e (LLPostG src root) (K s2)) →
          OKE e (LLPostG src root)
            ((if st.cont = true then
                if (st.hasChildren && i == li) = true then
                  openBlocksT pts be.node blankv >>= fun _ => pure (LineOutcome.next, bl')
                else
                  if (!false) = true then lineLoopT pts parent ob li rest (i + 1) bl' else K
              else
                if (!true) = true then lineLoopT pts parent ob li rest (i + 1) bl' else K) s2) := by
        intro K st s2 c2 blankv bl' hst2 hop2 hria2 hpad2 hcase2 hcontc hleafc hhint2 hK
        by_cases hcont : st.cont = true
        · rw [if_pos hcont]
          by_cases hch : (st.hasChildren && i == li) = true
          · rw [if_pos hch]
            simp only [Bool.and_eq_true] at hch
            have hri2 : RI src s2.r c2 := by
              rcases hcase2 with ⟨_, h⟩ | h
              · rw [hch.1] at h; cases h
              · exact h
            have hbec : be.bp.isContainer = true := by
              cases hc : be.bp.isContainer with
              | true => rfl
              | false => have := hleafc hc; rw [hch.1] at this; cases this
            have hrest : rest = [] := by
              have hii : i = li := by simpa using hch.2
              have : (ob.length : Int) = pre.length + rest.length + 1 := by rw [hob]; simp; omega
              have : rest.length = 0 := by omega
              exact List.length_eq_zero_iff.1 this
            have hobe : ob = pre ++ [be] := by rw [hob, hrest]
            have hlast : ob.getLast? = some be := by rw [hobe]; simp
            have hln : lastNode root ob = be.node := by rw [hobe, lastNode_concat]
            -- `be` is not a list (a list is never the last opened block)
            have hbek : (nd s2 be.node).kind ≠ .list := by
              have := hst2.endOK
              rw [hop2, hln] at this; exact this
            have hcl : Call s2.pc.opened ob := ⟨⟨[], by rw [hop2]; simp, fun _ b hb => by
              rw [hop2, hlast] at hb; cases hb; exact hbec⟩⟩
            have hobk := openBlocksL (e := e) (pts := pts) lsp hpts ob be.node blankv s2 c2 hri2 hpad2 hst2 hcl hln.symm (fun hk => absurd hk hbek)
            refine OKE.bind hobk (fun res s3 h3 => ?_)
            obtain ⟨c3, new3, hria3, _, hw3, hleafy3, _, _, hend3, _, htl3, _, hlk3, _⟩ := h3
            clear hobk
            have hallold : ∀ b ∈ ob, b.bp.isContainer = true := by
              intro b hb
              obtain ⟨hprec, _, _, _⟩ := leafy_split (hob ▸ hop ▸ hst.leafy)
              rw [hobe] at hb
              rcases List.mem_append.1 hb with h | h
              · exact hprec b h
              · simp only [List.mem_singleton] at h; rw [h]; exact hbec
            -- nothing was popped: `ob` is a prefix of the new stack
            obtain ⟨suf, hstack⟩ := hw3.stack
            have hsufe : suf = [] ∧ s3.pc.opened = ob ++ new3 := by
              rcases hw3.shape with e | ⟨_, e⟩
              · rw [hop2] at e
                rw [e] at hstack
                have hl := congrArg List.length hstack
                simp only [List.length_append] at hl
                exact ⟨List.length_eq_zero_iff.1 (by omega), e⟩
              · rw [hop2] at e
                rw [e] at hstack
                have hl := congrArg List.length hstack
                simp only [List.length_append, List.length_dropLast] at hl
                have hol : 1 ≤ ob.length := by rw [hobe]; simp
                omega
            refine OKE.ok ⟨c3, hria3, hw3.nodes, hw3.keys, hw3.blocks, ?_, hw3.ls, ?_, ?_, htl3, hw3.tree, ?_,
              fun t ht => Nat.lt_of_lt_of_le (hw3.tmplt t ht) hw3.ext.len⟩
            · rw [hsufe.2]; exact leafy_append hallold hleafy3
            · rw [hsufe.2]; exact hw3.chain
            · rw [hsufe.2]; exact hend3
            · intro lb hlb hleaf
              rw [hsufe.2] at hlb
              cases hn : new3.getLast? with
              | none =>
                have : new3 = [] := List.getLast?_eq_none_iff.1 hn
                rw [this, List.append_nil] at hlb
                have := hallold lb (List.mem_of_getLast? hlb)
                rw [hleaf] at this; cases this
              | some y =>
                rw [List.getLast?_append, hn] at hlb
                cases hlb
                exact ⟨_, hlk3 lb hn hleaf⟩
          · rw [if_neg hch]
            rw [if_pos (by rfl)]
            by_cases hhc : st.hasChildren = true
            · have hri2 : RI src s2.r c2 := by
                rcases hcase2 with ⟨_, h⟩ | h
                · rw [hhc] at h; cases h
                · exact h
              exact ih (pre ++ [be]) (i + 1) _ s2 c2 (by rw [hob]; simp) (by simp; omega) hop2 hri2 hpad2 hst2 (hhint2 hcont)
            · have hbec : be.bp.isContainer = false := by
                cases hc : be.bp.isContainer with
                | false => rfl
                | true => exact absurd (hcontc hc hcont) hhc
              have hrest : rest = [] := by
                obtain ⟨_, hbe, _, _⟩ := leafy_split (hob ▸ hop ▸ hst.leafy)
                cases rest with
                | nil => rfl
                | cons r rs => have := hbe (by simp); rw [hbec] at this; cases this
              subst hrest
              unfold lineLoopT
              exact OKE.ok ⟨c2, hria2, hst2⟩
        · rw [if_neg hcont]
          rw [if_neg (by decide)]
          have hri2 : RI src s2.r c2 := by
            rcases hcase2 with ⟨h, _⟩ | h
            · exact absurd h hcont
            · exact h
          exact hK (by simpa using hcont) hri2
      have hprelt : lastNode root pre < s.nodes.length := by
        rcases lastNode_mem root pre with e | ⟨b, hb, e⟩
        · rw [e]; exact hst.ls.rootLt
        · rw [e]; exact (hst.blocks b (by rw [hop, hob]; exact List.mem_append_left _ hb)).lt
      by_cases hkind : ((nd { s with r := r1 } be.node).kind != Kind.paragraph) = true
      · rw [if_pos hkind]
        by_cases hbl : be.bp = .list
        · -- listParser.Continue
          have hkl : (nd { s with r := r1 } be.node).kind = .list := by rw [hbeok.kind, hbl]; rfl
          have hitem : ListHasItem { s with r := r1 } be.node := by
            cases hr : rest with
            | nil =>
              exfalso
              have := hst1.endOK
              have hob1 : ({ s with r := r1 } : St).pc.opened = pre ++ [be] := by
                show s.pc.opened = _; rw [hop, hob, hr]
              rw [hob1, lastNode_concat] at this
              exact this hkl
            | cons b' rs =>
              rw [hr] at hchrest
              obtain ⟨h1', h2', h3'⟩ := hchrest.1.down hkl
              refine ⟨b'.node, h3', ?_⟩
              have hb'm : b' ∈ s.pc.opened := by rw [hop, hob, hr]; simp
              rw [(hst1.blocks b' hb'm).kind, h1']; rfl
          obtain ⟨lc, hlc, _⟩ := hitem
          have hitem : ListHasItem { s with r := r1 } be.node := ⟨lc, hlc, by assumption⟩
          have hcs := listContinue_okl2 src be.node { s with r := r1 } c h1 hp hitem
          have ebp : bpContinue be.bp be.node = listContinue be.node := by rw [hbl]; rfl
          rw [ebp]
          refine OKE.bind (OKE.of_okl hcs) (fun st s2 h2 => ?_)
          obtain ⟨r2, hr2, hri2, hn2, ho2, _, _, ht2, hf2, _, hcc2, hlc2⟩ := h2
          obtain ⟨hbl2, hnb2⟩ := hlc2 lc hlc
          have hst2 : StableG src root s2 := hst1.congr hn2 ho2 ht2 hf2
          have hri2' : RI src s2.r c := by rw [hr2]; exact hri2
          refine after _ st s2 c _ _ hst2 (by rw [ho2]; exact hop) hri2'.toRIa hpad (.inr hri2') (fun _ => hcc2)
            (fun hc => by rw [hbl] at hc; cases hc) ?_ ?_
          · intro hcont Lb hLb hLbl
            rw [List.getLast?_concat] at hLb
            cases hLb
            refine ⟨lc, by rw [nd_eq_of_nodes_eq hn2]; exact hlc, fun hnb => ?_⟩
            obtain ⟨hpc, hg, hth⟩ := hnb2 hnb
            have hst' : st = stContinueHasChildren := by
              rcases hg.1 with h | h
              · rw [h] at hcont; cases hcont
              · exact h
            rw [nd_eq_of_nodes_eq hn2, nd_eq_of_nodes_eq hn2, hpc, ← hst']
            exact ⟨hg, fun a b c' => hth hcont a b c'⟩
          · intro hcont hri2''
            exact useF s2 c _ _ (by rw [ho2]; exact hop) hri2'' hpad hst2
              (fun hk => by
                rw [nd_eq_of_nodes_eq hn2] at hk
                exact absurd (hlink.down hk).1 (by rw [hbl]; decide))
        · by_cases hbi : be.bp = .listItem
          · -- listItemParser.Continue
            have hkL : (nd { s with r := r1 } (lastNode root pre)).kind = .list := hlink.up hbi
            obtain ⟨_, hparL, hlastL⟩ := hlink.down hkL
            -- the list is the last block of `pre`
            obtain ⟨Lb, hLb, hLn⟩ : ∃ Lb, pre.getLast? = some Lb ∧ Lb.node = lastNode root pre := by
              unfold lastNode
              cases hg : pre.getLast? with
              | none =>
                exfalso
                have : lastNode root pre = root := by unfold lastNode; rw [hg]; rfl
                rw [this, hst1.ls.rootKind] at hkL; cases hkL
              | some Lb => exact ⟨Lb, rfl, rfl⟩
            have hLbm : Lb ∈ s.pc.opened := by rw [hop, hob]; exact List.mem_append_left _ (List.mem_of_getLast? hLb)
            have hLbl : Lb.bp = .list := by
              have := (hst1.blocks Lb hLbm).kind
              rw [hLn, hkL] at this
              exact kind_list this.symm
            obtain ⟨lc, hlc, hg⟩ := hhint1 Lb hLb hLbl
            rw [hLn] at hlc hg
            have hlcbe : lc = be.node := by rw [hlastL] at hlc; cases hlc; rfl
            subst hlcbe
            have hkk := li_kidsOK_of hst1.ls.kids (lastNode root pre) hkL
            have hoffe : li_lastOff { s with r := r1 } (lastNode root pre) = (nd { s with r := r1 } be.node).offset := by
              unfold li_lastOff; rw [hlastL]
            have hoff : 0 ≤ li_lastOff { s with r := r1 } (lastNode root pre) := by
              rw [hoffe]; exact hst1.ls.kids.off be.node (by rw [hbeok.kind, hbi]; rfl)
            have hlist : li_ListContinued src { s with r := r1 } c be.node (lastNode root pre) := by
              unfold li_ListContinued
              simp only
              intro hnb
              rw [hoffe]
              obtain ⟨hgo, _⟩ := hg hnb
              have hns := hgo.not_short rfl
              refine ⟨hns.1, fun hh => ?_⟩
              refine hns.2.1 ⟨?_, hh.2.1, fun ⟨m, typ, hm, ht, _⟩ => ?_⟩
              · have := hh.1
                simp only [Bool.and_eq_true, beq_iff_eq] at this
                exact List.isEmpty_iff_length_eq_zero.2 this.1
              · have := hh.2.2.2
                rw [li_matchesListItem_strict] at this
                have hm' : matchesListItem (lineOf src c) false = (m, typ) := hm
                unfold lineOf at hm'
                rw [hm'] at this
                exact ht this
            have hcs := listItemContinue_okl2 src be.node { s with r := r1 } c h1 hpad hp (lastNode root pre) hparL hkk hoff hlist
            have ebp : bpContinue be.bp be.node = listItemContinue be.node := by rw [hbi]; rfl
            rw [ebp]
            refine OKE.bind (OKE.of_okl hcs) (fun st s2 h2 => ?_)
            obtain ⟨c2, hri2, hpad2, _, hn2, ho2, ht2, hf2, hcc2, hpcc2, hclose2⟩ := h2
            have hst2 : StableG src root s2 := hst1.congr hn2 ho2 ht2 hf2
            refine after _ st s2 c2 _ _ hst2 (by rw [ho2]; exact hop) hri2.toRIa hpad2 (.inr hri2) (fun _ => hcc2)
              (fun hc => by rw [hbi] at hc; cases hc) ?_ ?_
            · intro _ Lb' hLb' hLbl'
              rw [List.getLast?_concat] at hLb'
              cases hLb'
              rw [hbi] at hLbl'; cases hLbl'
            · intro hcont hri2''
              obtain ⟨hcc, hnb, heib, _, hcase⟩ := hclose2 hcont
              subst c2
              refine useF s2 c _ _ (by rw [ho2]; exact hop) hri2'' hpad hst2 (fun _ => ?_)
              obtain ⟨hgo, hth⟩ := hg hnb
              -- the list went on because the line starts its next item
              have hdisj := hgo.2 rfl
              have hoff2 : li_lastOff s2 (lastNode root pre) = (nd { s with r := r1 } be.node).offset := by
                rw [← hoffe]; unfold li_lastOff; simp only [nd_eq_of_nodes_eq hn2]
              rcases hcase with ⟨hsk, hm, hi4, hei⟩ | ⟨_, hne, hio, _, hnl⟩
              · rcases hdisj with ⟨_, hor, hnext⟩ | ⟨hle, heb, _⟩
                · obtain ⟨m, typ, hm', ht', hr', _⟩ := hnext
                  refine ⟨hp, by rw [nd_eq_of_nodes_eq hn2]; exact hkL, fun m2 typ2 he2 => ?_, fun _ _ _ _ _ _ _ _ _ =>
                    hth hi4 hor ⟨m, typ, hm', ht', hr'⟩, .inl hsk⟩
                  have : matchesListItem (lineOf src c) false = (m, typ) := hm'
                  rw [this] at he2; cases he2
                  rw [hoff2]
                  exact ⟨ht', by omega⟩
                · exfalso
                  rw [hoffe] at hei
                  rcases hei with h | h
                  · simp only [Bool.and_eq_true] at h
                    rw [h.2] at heb; cases heb
                  · simp only [lineOf] at hle h; omega
              · exfalso
                rw [hoffe] at hio
                rcases hdisj with ⟨_, _, m, typ, hm', ht', _⟩ | ⟨hle, _⟩
                · rw [li_matchesListItem_strict] at hnl
                  have : matchesListItem (lineOf src c) false = (m, typ) := hm'
                  unfold lineOf at this
                  rw [this] at hnl
                  exact ht' hnl
                · simp only [lineOf] at hle hio; omega
          · -- the other parsers
            have hnl : NotList be.bp := ⟨hbl, hbi⟩
            have hcs := W.contW_all src be.bp hnl.1 hnl.2 be.node { s with r := r1 } c h1 hpad hp hst1.nodes hst1.keys hbeok
            have hcs' : OKL (fun st s2 => ContPost src be.bp { s with r := r1 } c st s2 ∧ TreeSame { s with r := r1 } s2)
                (bpContinue be.bp be.node { s with r := r1 }) := by
              rcases hcs with ⟨a, s2, e2, h2⟩ | e2
              · exact .inl ⟨a, s2, e2, h2, lsp.contTS be.bp be.node _ a s2 e2⟩
              · exact .inr e2
            refine OKE.bind (OKE.of_okl hcs') (fun st s2 h2 => ?_)
            obtain ⟨h2, hts2⟩ := h2
            obtain ⟨c2, hria2, hpad2, _, _, hcase2⟩ := h2.ria
            have hst2 : StableG src root s2 := hst1.same h2.ext h2.nodes hts2 (by rw [h2.pc]) (by rw [h2.pc]) (by rw [h2.pc])
            refine after _ st s2 c2 _ _ hst2 (by rw [h2.pc]; exact hop) hria2 hpad2 hcase2 h2.cont h2.leaf ?_ ?_
            · intro _ Lb' hLb' hLbl'
              rw [List.getLast?_concat] at hLb'
              cases hLb'
              exact absurd hLbl' hbl
            · intro hcont hri2''
              exact useF s2 c2 _ _ (by rw [h2.pc]; exact hop) hri2'' hpad2 hst2
                (fun hk => by
                  rw [(hts2.same _).1] at hk
                  exact absurd (hlink.down hk).1 hbi)
      · rw [if_neg hkind]
        rw [if_neg (by decide)]
        have hbp : be.bp ≠ .listItem := by
          intro hbi
          have : (nd { s with r := r1 } be.node).kind = .paragraph := by simpa using hkind
          rw [hbeok.kind, hbi] at this; cases this
        exact useF { s with r := r1 } c _ _ hop h1 hpad hst1 (fun hk => absurd (hlink.down hk).1 hbp)




theorem linesLoopL {root : Nat} (parent : Nat) (hroot : parent = root) :
    ∀ (fuel : Nat) (bl : List LineStat) (s : St) (c : RCur), RI src s.r c → PadOK c → StableG src root s →
      OKE e (fun x s' => StableG src root s' ∧ (x.1 = false → s'.pc.opened = [] ∧ ∃ c', RI src s'.r c' ∧ PadOK c'))
        (linesLoopT pts parent fuel bl s) := by
  intro fuel
  induction fuel with
  | zero => intro _ _ _ _ _ _; exact .inl (.inr rfl)
  | succ fuel ih =>
    intro bl s c hri hpad hst
    unfold linesLoopT
    refine OKE.bind (m := getPc) (P := fun pc sy => pc = s.pc ∧ sy = s) (OKE.ok ⟨rfl, rfl⟩) (fun pc sy hy => ?_)
    obtain ⟨hpc, hsy⟩ := hy
    subst pc sy
    simp only []
    by_cases hl : (s.pc.opened.length == 0) = true
    · rw [if_pos hl]
      exact OKE.ok ⟨hst, fun _ => ⟨List.length_eq_zero_iff.1 (by simpa using hl), c, hri, hpad⟩⟩
    · rw [if_neg hl]
      have hll := lineLoopL lsp hpts parent hroot s.pc.opened ((s.pc.opened.length : Int) - 1) rfl s.pc.opened [] 0 bl s c
        (by simp) (by simp) rfl hri hpad hst (fun Lb h => by simp at h)
      refine OKE.bind hll (fun x s1 h1 => ?_)
      obtain ⟨c1, hria1, hst1⟩ := h1
      obtain ⟨outcome, bl1⟩ := x
      cases outcome with
      | eof => exact OKE.ok ⟨hst1, fun h => by cases h⟩
      | next =>
        simp only []
        simp only [bind, StateT.bind, advanceLine_eq, Except.bind]
        exact ih bl1 _ _ (advanceLine_ria hria1) (padOK_advanceLine c1) (hst1.congr_r _)


theorem blocksLoopL {root : Nat} (parent : Nat) (hroot : parent = root) :
    ∀ (fuel : Nat) (bl : List LineStat) (s : St) (c : RCur), RI src s.r c → PadOK c → StableG src root s →
      s.pc.opened = [] → OKE e (fun _ s' => StableG src root s') (blocksLoopT pts parent fuel bl s) := by
  intro fuel
  induction fuel with
  | zero => intro _ _ _ _ _ _ _; exact .inl (.inr rfl)
  | succ fuel ih =>
    intro bl s c hri hpad hst hemp
    unfold blocksLoopT
    have hskip : OKE e (fun (_ : Segment × Int × Bool) s1 => ∃ r1 c1, s1 = { s with r := r1 } ∧ RI src r1 c1 ∧ PadOK c1)
        (skipBlankLinesR s) := by
      unfold skipBlankLinesR
      rcases skipBlankLines_ri (src := src) (loopFuel s.r.source) 0 s.r c hri hpad with ⟨x, r', c', e, h1, h2⟩ | e
      · simp only [e, bind, Except.bind, pure, Except.pure]
        exact OKE.ok ⟨r', c', rfl, h1, h2⟩
      · simp only [e, bind, Except.bind]
        exact .inl (.inr rfl)
    refine OKE.bind hskip (fun x s1 h1 => ?_)
    obtain ⟨r1, c1, hs1, hri1, hpad1⟩ := h1
    subst hs1
    obtain ⟨seg, lines, ok⟩ := x
    have hst1 := hst.congr_r r1
    by_cases hok : (!ok) = true
    · simp only [hok, if_true]; exact OKE.ok hst1
    simp only [hok, Bool.false_eq_true, if_false]
    refine OKE.bind (m := position) (P := fun _ sy => sy = { s with r := r1 }) (OKE.ok rfl) (fun pos sy hy => ?_)
    subst hy
    refine OKE.bind (m := getPc) (P := fun pc sy => pc = s.pc ∧ sy = { s with r := r1 }) (OKE.ok ⟨rfl, rfl⟩) (fun pc sy hy => ?_)
    obtain ⟨hpc, hsy⟩ := hy
    subst pc sy
    have hcl : Call ({ s with r := r1 } : St).pc.opened [] := ⟨⟨s.pc.opened, by simp, fun h b hb => by
      rw [show ({ s with r := r1 } : St).pc.opened = s.pc.opened from rfl, hemp] at hb; cases hb⟩⟩
    have hkroot : (nd ({ s with r := r1 } : St) parent).kind ≠ .list := by
      rw [hroot, hst1.ls.rootKind]; decide
    refine OKE.bind (openBlocksL lsp hpts [] parent _ { s with r := r1 } c1 hri1 hpad1 hst1 hcl (by rw [hroot]; rfl)
      (fun hk => absurd hk hkroot)) (fun res s2 h2 => ?_)
    obtain ⟨c2, new2, hria2, _, hw2, hleafy2, _, _, hend2, _, htl2, _, hlk2, _⟩ := h2
    have hop2 : s2.pc.opened = new2 := by
      rcases hw2.shape with e | ⟨h, _⟩
      · rw [e]; show s.pc.opened ++ new2 = new2; rw [hemp]; rfl
      · exact absurd hemp h
    have hst2 : StableG src root s2 :=
      ⟨hw2.nodes, hw2.keys, hw2.blocks, by rw [hop2]; exact hleafy2, hw2.ls, by rw [hop2]; simpa using hw2.chain,
        by rw [hop2]; simpa using hend2, htl2, hw2.tree,
        fun lb hlb hl => ⟨_, hlk2 lb (by rw [← hop2]; exact hlb) hl⟩,
        fun t ht => Nat.lt_of_lt_of_le (hw2.tmplt t ht) hw2.ext.len⟩
    by_cases hres : (res != OpenResult.newBlocksOpened) = true
    · rw [if_pos hres]; exact OKE.ok hst2
    rw [if_neg hres]
    refine OKE.bind (m := advanceLine) (P := fun _ sy => sy = { s2 with r := s2.r.advanceLine }) (OKE.ok rfl) (fun _ sy hy => ?_)
    subst hy
    refine OKE.bind (linesLoopL lsp hpts parent hroot fuel _ { s2 with r := s2.r.advanceLine } _ (advanceLine_ria hria2)
      (padOK_advanceLine c2) (hst2.congr_r _)) (fun x s3 h3 => ?_)
    obtain ⟨hst3, hret3⟩ := h3
    obtain ⟨ret, bl3⟩ := x
    by_cases hret : ret = true
    · simp only [hret, if_true]; exact OKE.ok hst3
    · simp only [hret, Bool.false_eq_true, if_false]
      obtain ⟨hemp3, c3, hri3, hpad3⟩ := hret3 (by simpa using hret)
      exact ih bl3 s3 c3 hri3 hpad3 hst3 hemp3


theorem runG : (∃ s, runT pts src = .ok s ∧ NodesOK src s ∧ KidsOK s) ∨ runT pts src = .error .loop ∨ runT pts src = .error e := by
  unfold runT parseBlocksT
  have hinit : StableG src 0 { (initSt src) with pc := { (initSt src).pc with opened := [] } } := by
    have hnd0 : ∀ i, nd ({ (initSt src) with pc := { (initSt src).pc with opened := [] } } : St) i =
        if i = 0 then { kind := .document } else default := by
      intro i
      cases i with
      | zero => rfl
      | succ n => rfl
    refine ⟨?_, ⟨?_⟩, ?_, ?_, ⟨⟨?_, ?_, ?_⟩, ?_, ?_, ?_, ?_, ?_⟩, ?_, ?_, (fun ⟨b, hb, _⟩ => by simp at hb), ?tree,
      (fun lb hlb _ => by simp at hlb), (fun t h => by simp [initSt] at h)⟩
    case tree =>
      refine ⟨fun i p hp => ?_, fun p i hi => ?_, fun p => ?_⟩
      · rw [hnd0] at hp; split at hp <;> cases hp
      · rw [hnd0] at hi; split at hi <;> cases hi
      · rw [hnd0]; split <;> exact List.nodup_nil
    · intro n hn
      simp only [initSt, List.mem_singleton] at hn
      subst hn
      exact ⟨by intro t ht; simp at ht, fun _ => rfl⟩
    · intro f h; simp [initSt] at h
    · intro b hb; simp at hb
    · intro b hb; simp at hb
    · intro i lc hk; rw [hnd0] at hk; split at hk <;> cases hk
    · intro i hk; rw [hnd0] at hk; split at hk <;> cases hk
    · intro i p hp; rw [hnd0] at hp; split at hp <;> cases hp
    · intro i p hp; rw [hnd0] at hp; split at hp <;> cases hp
    · rw [hnd0]; rfl
    · simp [initSt]
    · intro b hb; simp at hb
    · simp
    · trivial
    · show (nd _ (lastNode 0 [])).kind ≠ .list
      rw [lastNode_nil, hnd0]; decide
  have := blocksLoopL lsp hpts 0 rfl (linesFuel src) [] { (initSt src) with pc := { (initSt src).pc with opened := [] } }
    RCur.init (ri_init src) (fun h => absurd rfl h) hinit rfl
  simp only [bind, StateT.bind, modPc, source, Except.bind, pure, StateT.pure, Except.pure]
  rcases this with (⟨_, s', e1, hs'⟩ | e1) | e1
  · left
    refine ⟨s', ?_, hs'.nodes, hs'.ls.kids⟩
    have e' : blocksLoopT pts 0 (linesFuel (initSt src).r.source) []
        { r := (initSt src).r, nodes := (initSt src).nodes, pc := { (initSt src).pc with opened := [] } } = .ok ((), s') := e1
    rw [e']; rfl
  · right; left
    have e' : blocksLoopT pts 0 (linesFuel (initSt src).r.source) []
        { r := (initSt src).r, nodes := (initSt src).nodes, pc := { (initSt src).pc with opened := [] } } = .error .loop := e1
    rw [e']; rfl
  · right; right
    have e' : blocksLoopT pts 0 (linesFuel (initSt src).r.source) []
        { r := (initSt src).r, nodes := (initSt src).nodes, pc := { (initSt src).pc with opened := [] } } = .error e := e1
    rw [e']; rfl


end tp


end GM.Blocks.L.G.X
