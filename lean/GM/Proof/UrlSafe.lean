/-
  GM.Proof.UrlSafe — C04: what a browser reads out of the href/src values the renderer model writes.

  Route: let d = urlEscape dest _ (the value that is classified AND written).
   (a) d is plain (GM.Proof.UrlBytes): nothing for the browser to strip.
   (b) decoding the character references of escapeHTML d gives back d.
   (c) urlClean d = d.
   (d) the spec's scheme reader calls d dangerous only if html.IsDangerousURL does (for every byte string).
  So the guard and the browser look at the same bytes and the guard is at least as strict.
-/
import GM.Model.Render
import GM.Spec.Url
import GM.Proof.Util
import GM.Proof.UrlBytes

namespace GM.Proof
open GM GM.Spec

/-! ### (b) character-reference decoding undoes EscapeHTML -/

/-- the four rows of the regenerated HTML5 entity table that EscapeHTML's output relies on -/
theorem ent_amp : lookupEntity [97, 109, 112] = some [38] := by decide +kernel
theorem ent_lt : lookupEntity [108, 116] = some [60] := by decide +kernel
theorem ent_gt : lookupEntity [103, 116] = some [62] := by decide +kernel
theorem ent_quot : lookupEntity [113, 117, 111, 116] = some [34] := by decide +kernel

theorem attrDecode_nil (named : Bytes → Option Bytes) (n : Nat) : attrDecode named n [] = [] := by
  unfold attrDecode; rfl

theorem attrDecode_cons_ne (named : Bytes → Option Bytes) (n : Nat) (c : UInt8) (r : Bytes) (h : c ≠ 38) :
    attrDecode named (n + 1) (c :: r) = c :: attrDecode named n r := by
  rw [attrDecode.eq_def]
  split <;> simp_all

theorem attrDecode_amp (named : Bytes → Option Bytes) (h : named [97, 109, 112] = some [38]) (n : Nat) (r : Bytes) :
    attrDecode named (n + 1) (38 :: 97 :: 109 :: 112 :: 59 :: r) = 38 :: attrDecode named n r := by
  simp [attrDecode, List.dropWhile, List.takeWhile, isAlnumB, isAlphaB, isDigitB, h]

theorem attrDecode_lt (named : Bytes → Option Bytes) (h : named [108, 116] = some [60]) (n : Nat) (r : Bytes) :
    attrDecode named (n + 1) (38 :: 108 :: 116 :: 59 :: r) = 60 :: attrDecode named n r := by
  simp [attrDecode, List.dropWhile, List.takeWhile, isAlnumB, isAlphaB, isDigitB, h]

theorem attrDecode_gt (named : Bytes → Option Bytes) (h : named [103, 116] = some [62]) (n : Nat) (r : Bytes) :
    attrDecode named (n + 1) (38 :: 103 :: 116 :: 59 :: r) = 62 :: attrDecode named n r := by
  simp [attrDecode, List.dropWhile, List.takeWhile, isAlnumB, isAlphaB, isDigitB, h]

theorem attrDecode_quot (named : Bytes → Option Bytes) (h : named [113, 117, 111, 116] = some [34]) (n : Nat)
    (r : Bytes) :
    attrDecode named (n + 1) (38 :: 113 :: 117 :: 111 :: 116 :: 59 :: r) = 34 :: attrDecode named n r := by
  simp [attrDecode, List.dropWhile, List.takeWhile, isAlnumB, isAlphaB, isDigitB, h]

/-- (b) for every byte string and every sufficient fuel -/
theorem attrDecode_escapeHTML (d : Bytes) :
    ∀ n, (escapeHTML d).length ≤ n → attrDecode lookupEntity n (escapeHTML d) = d := by
  induction d with
  | nil => intro n _; exact attrDecode_nil _ _
  | cons c d ih =>
    intro n hn
    rw [escapeHTML_cons] at hn ⊢
    rcases escByte_cases c with ⟨hc, h⟩ | ⟨hc, h⟩ | ⟨hc, h⟩ | ⟨hc, h⟩ | ⟨_, h2, _, _, h⟩ <;> rw [h] at hn ⊢ <;>
      simp only [List.length_append, List.length_cons, List.length_nil] at hn <;>
      obtain ⟨m, rfl⟩ : ∃ m, n = m + 1 := ⟨n - 1, by omega⟩
    · show attrDecode _ (m + 1) (38 :: 113 :: 117 :: 111 :: 116 :: 59 :: escapeHTML d) = _
      rw [attrDecode_quot _ ent_quot, ih m (by omega), hc]
    · show attrDecode _ (m + 1) (38 :: 97 :: 109 :: 112 :: 59 :: escapeHTML d) = _
      rw [attrDecode_amp _ ent_amp, ih m (by omega), hc]
    · show attrDecode _ (m + 1) (38 :: 108 :: 116 :: 59 :: escapeHTML d) = _
      rw [attrDecode_lt _ ent_lt, ih m (by omega), hc]
    · show attrDecode _ (m + 1) (38 :: 103 :: 116 :: 59 :: escapeHTML d) = _
      rw [attrDecode_gt _ ent_gt, ih m (by omega), hc]
    · show attrDecode _ (m + 1) (c :: escapeHTML d) = _
      rw [attrDecode_cons_ne _ _ _ _ h2, ih m (by omega)]

/-! ### (c) nothing to trim or strip in a plain value -/

theorem dropWhile_none (p : UInt8 → Bool) (l : Bytes) (h : ∀ a ∈ l, p a = false) : l.dropWhile p = l := by
  cases l with
  | nil => rfl
  | cons c cs => simp [List.dropWhile, h c (by simp)]

theorem plain_notC0 : ∀ c : UInt8, plainUrlByte c = true → isC0OrSpace c = false := by
  apply forall_uint8; decide +kernel

theorem plain_notTabNl : ∀ c : UInt8, plainUrlByte c = true → isTabNl c = false := by
  apply forall_uint8; decide +kernel

theorem urlClean_plain (s : Bytes) (h : plainUrl s = true) : urlClean s = s := by
  have hall : ∀ a ∈ s, plainUrlByte a = true := by simpa [plainUrl] using h
  unfold urlClean
  rw [dropWhile_none _ s (fun a ha => plain_notC0 a (hall a ha)),
    dropWhile_none _ s.reverse (fun a ha => plain_notC0 a (hall a (by simpa using ha))), List.reverse_reverse,
    List.filter_eq_self.2 (fun a ha => by simp [plain_notTabNl a (hall a ha)])]

/-! ### (d) the spec's scheme reader against html.IsDangerousURL -/

theorem lower_eq : Spec.lower = lowerAscii := rfl

/-- shape of a successful scheme split -/
theorem splitScheme_some {s sch rest : Bytes} (h : splitScheme s = some (sch, rest)) :
    ∃ pre, s = pre ++ 58 :: rest ∧ pre.map lowerAscii = sch := by
  unfold splitScheme at h
  split at h
  · rename_i c r
    split at h
    · simp only at h
      split at h
      · rename_i rest' hd
        cases h
        refine ⟨c :: r.takeWhile _, ?_, rfl⟩
        rw [List.cons_append, ← hd, List.takeWhile_append_dropWhile]
      · cases h
    · cases h
  · cases h

/-- a value that reads `<pre>:<rest>` has the case-folded prefix `lower(pre):` in the sense of html.hasPrefix -/
theorem hasPrefixFold_split (pre rest : Bytes) :
    hasPrefixFold (pre ++ 58 :: rest) (pre.map lowerAscii ++ [58]) = true := by
  unfold hasPrefixFold
  have h1 : (pre.map lowerAscii ++ [58]).length = pre.length + 1 := by simp
  have h2 : (pre ++ 58 :: rest).take (pre.length + 1) = pre ++ [58] := by
    rw [List.take_append, List.take_of_length_le (Nat.le_succ _)]; simp
  rw [h1, h2]
  simp [lowerAscii]

theorem hasPrefixFold_head {s : Bytes} {x : UInt8} {p : Bytes} (h : hasPrefixFold s (x :: p) = true) :
    ∃ c r, s = c :: r ∧ lowerAscii c = x := by
  unfold hasPrefixFold at h
  cases s with
  | nil => simp at h
  | cons c r =>
    refine ⟨c, r, rfl, ?_⟩
    simp only [List.length_cons, List.take_succ_cons, List.map_cons, Bool.and_eq_true, beq_iff_eq] at h
    exact (List.cons.inj h.2).1

theorem bJs_eq : bJs = strBytes "javascript" ++ [58] := by decide +kernel
theorem bVb_eq : bVb = strBytes "vbscript" ++ [58] := by decide +kernel
theorem bFile_eq : bFile = strBytes "file" ++ [58] := by decide +kernel
theorem bData_eq : bData = strBytes "data" ++ [58] := by decide +kernel
theorem bDataImage_eq : bDataImage = 100 :: strBytes "ata:image/" := by decide +kernel
theorem bJs_head : bJs = 106 :: strBytes "avascript:" := by decide +kernel
theorem bVb_head : bVb = 118 :: strBytes "bscript:" := by decide +kernel
theorem bFile_head : bFile = 102 :: strBytes "ile:" := by decide +kernel

/-- the spec's allowed media types are exactly the code's, each behind `image/` -/
theorem allowed_eq : allowedDataTypes = imageTypes.map (strBytes "image/" ++ ·) := by decide +kernel
theorem image_len : (strBytes "image/").length = 6 := by decide +kernel
theorem bDataImage_split : bDataImage = strBytes "data" ++ 58 :: strBytes "image/" := by
  decide +kernel
theorem data_len : (strBytes "data").length = 4 := by decide +kernel

/-- a scheme that is not `data` cannot also match the `data:image/` guard (first letters differ) -/
theorem not_dataImage_of_head {s : Bytes} {x : UInt8} {p : Bytes} (hx : x ≠ 100)
    (h : hasPrefixFold s (x :: p) = true) : hasPrefixFold s bDataImage = false := by
  obtain ⟨c, r, hs, hc⟩ := hasPrefixFold_head h
  cases hd : hasPrefixFold s bDataImage with
  | false => rfl
  | true =>
    rw [bDataImage_eq] at hd
    obtain ⟨c', r', hs', hc'⟩ := hasPrefixFold_head hd
    rw [hs] at hs'
    cases hs'
    exact absurd (hc.symm.trans hc') hx

/-- the code lower-cases only the media-type prefix, the spec the whole remainder: same verdict -/
theorem startsWith_of_hasPrefixFold (rest it : Bytes) (h6 : (rest.take 6).map lowerAscii = strBytes "image/")
    (h : hasPrefixFold (rest.drop 6) it = true) :
    startsWith (strBytes "image/" ++ it) (rest.map lowerAscii) = true := by
  unfold hasPrefixFold at h
  simp only [Bool.and_eq_true, beq_iff_eq] at h
  unfold startsWith
  rw [List.length_append, image_len, List.take_add, ← List.map_take, ← List.map_drop, ← List.map_take, h6, h.2]
  simp

/-- (d) for EVERY byte string: whatever the spec's scheme reader calls dangerous, html.IsDangerousURL rejects -/
theorem dangerousUrl_imp (d : Bytes) (h : dangerousUrl d = true) : isDangerousURL d = true := by
  unfold dangerousUrl at h
  split at h
  · rename_i sch rest hs
    obtain ⟨pre, hd, hpre⟩ := splitScheme_some hs
    have hfold := hasPrefixFold_split pre rest
    rw [← hd, hpre] at hfold
    simp only [Bool.or_eq_true, Bool.and_eq_true, beq_iff_eq] at h
    unfold isDangerousURL
    rcases h with ((hj | hv) | hf) | ⟨hdt, hty⟩
    · have h1 : hasPrefixFold d bJs = true := by rw [bJs_eq, ← hj]; exact hfold
      have h2 := not_dataImage_of_head (by decide) (bJs_head ▸ h1)
      simp [h1, h2]
    · have h1 : hasPrefixFold d bVb = true := by rw [bVb_eq, ← hv]; exact hfold
      have h2 := not_dataImage_of_head (by decide) (bVb_head ▸ h1)
      simp [h1, h2]
    · have h1 : hasPrefixFold d bFile = true := by rw [bFile_eq, ← hf]; exact hfold
      have h2 := not_dataImage_of_head (by decide) (bFile_head ▸ h1)
      simp [h1, h2]
    · have h1 : hasPrefixFold d bData = true := by rw [bData_eq, ← hdt]; exact hfold
      cases hdi : hasPrefixFold d bDataImage && decide (d.length ≥ 11) with
      | false => simp [h1]
      | true =>
        simp only [if_true]
        simp only [Bool.and_eq_true] at hdi
        -- d = pre ++ ':' :: rest with |pre| = 4, so d.drop 11 = rest.drop 6 and rest starts with image/ (folded)
        have hlen : pre.length = 4 := by
          have := congrArg List.length hpre
          rw [List.length_map, hdt, data_len] at this; exact this
        have hdrop : d.drop 11 = rest.drop 6 := by
          rw [hd, List.drop_append, List.drop_of_length_le (by omega), hlen]; rfl
        have h6 : (rest.take 6).map lowerAscii = strBytes "image/" := by
          have hdi1 := hdi.1
          unfold hasPrefixFold at hdi1
          simp only [Bool.and_eq_true, beq_iff_eq] at hdi1
          have hl : bDataImage.length = pre.length + (6 + 1) := by rw [hlen]; decide +kernel
          rw [hl, hd, List.take_append, bDataImage_split] at hdi1
          simp only [List.take_of_length_le (Nat.le_add_right _ _), Nat.add_sub_cancel_left, List.map_append] at hdi1
          have h2 := hdi1.2
          rw [hpre, hdt] at h2
          have h3 := List.append_cancel_left h2
          simp only [List.take_succ_cons, List.map_cons] at h3
          exact (List.cons.inj h3).2
        rw [hdrop]
        rw [allowed_eq, List.any_map] at hty
        simp only [Bool.not_eq_eq_eq_not, Bool.not_true, List.any_eq_false, Function.comp] at hty ⊢
        intro it hit
        cases hh : hasPrefixFold (rest.drop 6) it with
        | false => simp
        | true =>
          have := startsWith_of_hasPrefixFold rest it h6 hh
          rw [← lower_eq] at this
          exact absurd this (by simpa using hty it hit)
  · cases h

/-! ### the three emitters -/

/-- what the browser-like reader sees in an escaped plain value is the value itself -/
theorem hrefDangerous_escapeHTML (s : Bytes) (h : plainUrl s = true) :
    hrefDangerous lookupEntity (escapeHTML s) = dangerousUrl s := by
  unfold hrefDangerous
  rw [attrDecode_escapeHTML s _ (Nat.le_refl _), urlClean_plain s h]

theorem hrefDangerous_nil : hrefDangerous lookupEntity [] = false := rfl

/-- the guarded write of an escaped URL is harmless, whatever was escaped -/
theorem safe_urlOut_raw (v : Bytes) : hrefDangerous lookupEntity (urlOut false (urlEscapeRaw v)) = false := by
  unfold urlOut
  cases hd : isDangerousURL (urlEscapeRaw v) with
  | true => simpa using hrefDangerous_nil
  | false =>
    simp only [Bool.false_or, Bool.not_false, if_true]
    rw [hrefDangerous_escapeHTML _ (urlEscapeRaw_plain v)]
    cases hs : dangerousUrl (urlEscapeRaw v) with
    | false => rfl
    | true => rw [dangerousUrl_imp _ hs] at hd; cases hd

/-- decoder-independent form of the guarded write: nothing, or the EscapeHTML image of a plain value the guard
    accepted — so every `&` in it begins one of `&amp; &lt; &gt; &quot;` and there is no other reference for any
    HTML decoder (with or without the semicolon-less forms browsers accept) to expand -/
theorem urlOut_form (d : Bytes) (hp : plainUrl d = true) :
    urlOut false d = [] ∨
      (urlOut false d = escapeHTML d ∧ plainUrl d = true ∧ isDangerousURL d = false ∧
        ampsOK4 (escapeHTML d) = true) := by
  unfold urlOut
  cases hd : isDangerousURL d with
  | true => left; simp
  | false => right; exact ⟨by simp, hp, rfl, escapeHTML_amps d⟩

/-- links and images -/
theorem safe_href (dest : Bytes) :
    hrefDangerous lookupEntity (urlOut false (urlEscape dest true)) = false := safe_urlOut_raw _

theorem escapeHTML_append (a b : Bytes) : escapeHTML (a ++ b) = escapeHTML a ++ escapeHTML b := by
  simp [escapeHTML]

theorem mailto_lit : strBytes "mailto:" = [109, 97, 105, 108, 116, 111, 58] := by decide +kernel

/-- a value the renderer prefixed with `mailto:` has scheme `mailto`, whatever follows -/
theorem mailto_not_dangerous (d : Bytes) : dangerousUrl (strBytes "mailto:" ++ d) = false := by
  rw [mailto_lit]
  have : splitScheme ([109, 97, 105, 108, 116, 111, 58] ++ d) = some ([109, 97, 105, 108, 116, 111], d) := by
    simp [splitScheme, List.takeWhile, List.dropWhile, isAlphaB, isAlnumB, isDigitB, lower]
  unfold dangerousUrl
  rw [this]
  have e1 : ([109, 97, 105, 108, 116, 111] == strBytes "javascript") = false := by decide +kernel
  have e2 : ([109, 97, 105, 108, 116, 111] == strBytes "vbscript") = false := by decide +kernel
  have e3 : ([109, 97, 105, 108, 116, 111] == strBytes "file") = false := by decide +kernel
  have e4 : ([109, 97, 105, 108, 116, 111] == strBytes "data") = false := by decide +kernel
  simp only [e1, e2, e3, e4, Bool.false_and, Bool.or_false]

/-- `<...>` autolinks and linkified URLs/e-mail addresses, with the optional `mailto:` the renderer adds -/
theorem safe_autolink (email : Bool) (url : Bytes) :
    hrefDangerous lookupEntity
      ((if email && !mailtoPrefixed url (strBytes "mailto:") then strBytes "mailto:" else []) ++
        urlOut false (urlEscape url false)) = false := by
  split
  · unfold urlOut
    have hm : plainUrl (strBytes "mailto:") = true := by decide +kernel
    have hme : escapeHTML (strBytes "mailto:") = strBytes "mailto:" := by decide +kernel
    cases hd : isDangerousURL (urlEscape url false) with
    | true =>
      simp only [Bool.not_true, Bool.or_false, Bool.false_eq_true, if_false, List.append_nil]
      rw [← hme, hrefDangerous_escapeHTML _ hm]
      simpa using mailto_not_dangerous []
    | false =>
      simp only [Bool.false_or, Bool.not_false, if_true]
      rw [← hme, ← escapeHTML_append, hrefDangerous_escapeHTML _ (by
        rw [plainUrl_append, hm, urlEscape_plain]; rfl)]
      exact mailto_not_dangerous _
  · rw [List.nil_append]; exact safe_urlOut_raw _

/-! ### footnote hrefs -/

theorem dropWhile_snoc (p : UInt8 → Bool) (a : Bytes) (c : UInt8) (hc : p c = false) :
    (a ++ [c]).dropWhile p = a.dropWhile p ++ [c] := by
  induction a with
  | nil => simp [List.dropWhile, hc]
  | cons x a ih =>
    simp only [List.cons_append, List.dropWhile]
    split
    · exact ih
    · rfl

/-- a value that starts with `#` has no scheme: after decoding and cleaning it still starts with `#` -/
theorem hash_not_dangerous (rest : Bytes) : hrefDangerous lookupEntity (35 :: rest) = false := by
  unfold hrefDangerous
  rw [List.length_cons, attrDecode_cons_ne _ _ _ _ (by decide)]
  generalize attrDecode lookupEntity rest.length rest = x
  unfold urlClean
  have h35 : isC0OrSpace 35 = false := by decide
  rw [show (35 :: x).dropWhile isC0OrSpace = 35 :: x by simp [List.dropWhile, h35], List.reverse_cons,
    dropWhile_snoc _ _ _ h35, List.reverse_append]
  simp [dangerousUrl, splitScheme, isTabNl, isAlphaB]

end GM.Proof
