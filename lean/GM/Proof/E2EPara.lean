/-
  GM.Proof.E2EPara — two invariants of the block phase WITH paragraph transformers that are NOT blind to the parse context /
  the lines, for every source:
    * `J2`: every open block's node exists and has the kind its parser builds (`pc.openedBlocks` is consistent);
    * `PNE`: every Paragraph node has at least one line.
  `PNE` needs `J2`: `setextHeadingParser.Close` empties the lines of ITS node and `codeBlockParser.Close` cuts them — harmless
  because those nodes are a Heading / a CodeBlock, which only the open-block stack knows. Third adapted copy of the E2EKeeps
  walk (same lemma names, namespace `GM.E2E.PJ`): side facts are threaded as in GM.Proof.E2EList (`Stable`), and the values
  read from the context (`getPc`, `lastOpenedBlock`) and answered by `Open` carry their facts (`getPc_bind`, `lastOpened_bind`,
  `bpOpen_bind`).
-/
import GM.Proof.E2EList
import GM.Proof.E2EXSegs

namespace GM.E2E.PJ
open GM GM.Text GM.Blocks GM.E2E GM.E2E.LI

/-- the block `b` of the open-block stack is consistent: its node exists and has the kind its parser builds -/
def OKB (b : Block) (s : St) : Prop := b.node < s.nodes.length ∧ (s.nodes.getD b.node default).kind = GM.ConvertH.BP.kindOf b.bp

/-- the open-block stack is consistent -/
def J2 (s : St) : Prop := ∀ b ∈ s.pc.opened, OKB b s

/-- every Paragraph node has a line -/
def PNE (s : St) : Prop := ∀ i, (s.nodes.getD i default).kind = .paragraph → (s.nodes.getD i default).lines ≠ []

/-- the invariant family: `PNE`, `J2` and a stable side fact -/
def PJ (A : St → Prop) (s : St) : Prop := PNE s ∧ J2 s ∧ A s

instance stableOKB (b : Block) : Stable (OKB b) where
  ronly := fun _ _ _ h => h
  mod := fun s i f hf h => ⟨by simpa using h.1, by rw [kind_set s i f hf]; exact h.2⟩
  new := fun s n h => ⟨by have := h.1; simp; omega, by rw [kind_append s n b.node h.1]; exact h.2⟩

/-- node `id` exists and is no Paragraph -/
def NotPara (id : Nat) (s : St) : Prop := id < s.nodes.length ∧ (s.nodes.getD id default).kind ≠ .paragraph

instance stableNotPara (id : Nat) : Stable (NotPara id) where
  ronly := fun _ _ _ h => h
  mod := fun s i f hf h => ⟨by simpa using h.1, by rw [kind_set s i f hf]; exact h.2⟩
  new := fun s n h => ⟨by have := h.1; simp; omega, by rw [kind_append s n id h.1]; exact h.2⟩

variable {A : St → Prop}

/-! ### primitives -/

theorem PNE.mod {s : St} (h : PNE s) (id : Nat) (f : Blocks.Node → Blocks.Node)
    (hf : ∀ n, (f n).kind = n.kind ∧ (n.kind = .paragraph → n.lines ≠ [] → (f n).lines ≠ [])) :
    PNE { s with nodes := s.nodes.set id (f (s.nodes.getD id default)) } := by
  intro i hk
  show ((s.nodes.set id (f (s.nodes.getD id default))).getD i default).lines ≠ []
  have hk' : ((s.nodes.set id (f (s.nodes.getD id default))).getD i default).kind = .paragraph := hk
  rw [getD_set] at hk' ⊢
  split
  · rename_i hi
    rw [if_pos hi] at hk'
    rw [(hf _).1] at hk'
    exact (hf _).2 hk' (by have := h id hk'; exact this)
  · rename_i hi
    rw [if_neg hi] at hk'
    exact h i hk'

theorem PNE.modAt {s : St} (h : PNE s) (id : Nat) (f : Blocks.Node → Blocks.Node) (hf : ∀ n, (f n).kind = n.kind)
    (hk : (s.nodes.getD id default).kind ≠ .paragraph) :
    PNE { s with nodes := s.nodes.set id (f (s.nodes.getD id default)) } := by
  intro i hki
  show ((s.nodes.set id (f (s.nodes.getD id default))).getD i default).lines ≠ []
  have hk' : ((s.nodes.set id (f (s.nodes.getD id default))).getD i default).kind = .paragraph := hki
  rw [getD_set] at hk' ⊢
  split
  · rename_i hi
    rw [if_pos hi, hf] at hk'
    exact absurd hk' hk
  · rename_i hi
    rw [if_neg hi] at hk'
    exact h i hk'

theorem PNE.new {s : St} (h : PNE s) (n : Blocks.Node) (hn : n.kind = .paragraph → n.lines ≠ []) :
    PNE { s with nodes := s.nodes ++ [n] } := by
  intro i hk
  show ((s.nodes ++ [n]).getD i default).lines ≠ []
  have hk' : ((s.nodes ++ [n]).getD i default).kind = .paragraph := hk
  rw [getD_append] at hk' ⊢
  split
  · rename_i hi; rw [if_pos hi] at hk'; exact h i hk'
  · rename_i hi
    rw [if_neg hi] at hk'
    split
    · rename_i h2; rw [if_pos h2] at hk'; exact hn hk'
    · rename_i h2; rw [if_neg h2] at hk'; cases hk'

theorem J2.mod {s : St} (h : J2 s) (id : Nat) (f : Blocks.Node → Blocks.Node) (hf : ∀ n, (f n).kind = n.kind) :
    J2 { s with nodes := s.nodes.set id (f (s.nodes.getD id default)) } :=
  fun b hb => Stable.mod (A := OKB b) s id f hf (h b hb)

theorem J2.new {s : St} (h : J2 s) (n : Blocks.Node) : J2 { s with nodes := s.nodes ++ [n] } :=
  fun b hb => Stable.new (A := OKB b) s n (h b hb)

/-- a step that only moves the reader -/
theorem Keeps.of_reader [Stable A] {α} {m : M α} (h : ∀ s a s', m s = .ok (a, s') → s'.nodes = s.nodes ∧ s'.pc = s.pc) :
    Keeps (PJ A) m :=
  ⟨fun s a s' hs hm => by
    obtain ⟨hn, hp⟩ := h _ _ _ hm
    have e : s' = { s with r := s'.r, pc := s.pc } := by
      cases s'; cases s; simp only [St.mk.injEq, true_and] at hn hp ⊢; exact ⟨hn, hp⟩
    rw [e]
    exact ⟨hs.1, hs.2.1, Stable.ronly s _ _ hs.2.2⟩⟩

theorem getNode_keeps [Stable A] (id : Nat) : Keeps (PJ A) (getNode id) := ⟨fun _ _ _ hs h => by cases h; exact hs⟩
theorem getPc_keeps [Stable A] : Keeps (PJ A) getPc := ⟨fun _ _ _ hs h => by cases h; exact hs⟩
theorem source_keeps [Stable A] : Keeps (PJ A) source := ⟨fun _ _ _ hs h => by cases h; exact hs⟩
theorem position_keeps [Stable A] : Keeps (PJ A) position := ⟨fun _ _ _ hs h => by cases h; exact hs⟩
theorem get_keeps [Stable A] : Keeps (PJ A) (get : M St) := ⟨fun _ _ _ hs h => by cases h; exact hs⟩
theorem advanceLine_keeps [Stable A] : Keeps (PJ A) advanceLine := Keeps.of_reader fun _ _ _ h => by cases h; exact ⟨rfl, rfl⟩
theorem setPosition_keeps [Stable A] (l : Int) (p : Segment) : Keeps (PJ A) (setPosition l p) :=
  Keeps.of_reader fun _ _ _ h => by cases h; exact ⟨rfl, rfl⟩

theorem liftE_keeps [Stable A] {α} (e : Except Panic α) : Keeps (PJ A) (liftE e) :=
  ⟨fun s a s' hs h => by
    unfold liftE at h
    cases e with
    | error x => simp [Except.map] at h
    | ok v => simp only [Except.map, Except.ok.injEq, Prod.mk.injEq] at h; rw [← h.2]; exact hs⟩

theorem peekLine_keeps [Stable A] : Keeps (PJ A) peekLine :=
  Keeps.of_reader fun s a s' h => by
    unfold peekLine at h
    cases hr : s.r.peekLine with
    | error x => simp [hr, bind, Except.bind] at h
    | ok v => simp only [hr, bind, Except.bind, pure, Except.pure, Except.ok.injEq, Prod.mk.injEq] at h; rw [← h.2]; exact ⟨rfl, rfl⟩

theorem lineOffset_keeps [Stable A] : Keeps (PJ A) lineOffset :=
  Keeps.of_reader fun s a s' h => by
    unfold lineOffset at h
    cases hr : s.r.lineOffsetOp with
    | error x => simp [hr, bind, Except.bind] at h
    | ok v => simp only [hr, bind, Except.bind, pure, Except.pure, Except.ok.injEq, Prod.mk.injEq] at h; rw [← h.2]; exact ⟨rfl, rfl⟩

theorem advance_keeps [Stable A] (n : Int) : Keeps (PJ A) (advance n) :=
  Keeps.of_reader fun s a s' h => by
    unfold advance at h
    cases hr : s.r.advance n with
    | error x => simp [hr, bind, Except.bind] at h
    | ok v => simp only [hr, bind, Except.bind, pure, Except.pure, Except.ok.injEq, Prod.mk.injEq] at h; rw [← h.2]; exact ⟨rfl, rfl⟩

theorem advanceAndSetPadding_keeps [Stable A] (n p : Int) : Keeps (PJ A) (advanceAndSetPadding n p) :=
  Keeps.of_reader fun s a s' h => by
    unfold advanceAndSetPadding at h
    cases hr : s.r.advanceAndSetPadding n p with
    | error x => simp [hr, bind, Except.bind] at h
    | ok v => simp only [hr, bind, Except.bind, pure, Except.pure, Except.ok.injEq, Prod.mk.injEq] at h; rw [← h.2]; exact ⟨rfl, rfl⟩

theorem skipBlankLinesR_keeps [Stable A] : Keeps (PJ A) skipBlankLinesR :=
  Keeps.of_reader fun s a s' h => by
    unfold skipBlankLinesR at h
    cases hr : skipBlankLines readerOps (loopFuel s.r.source) 0 s.r with
    | error x => simp [hr, bind, Except.bind] at h
    | ok v => simp only [hr, bind, Except.bind, pure, Except.pure, Except.ok.injEq, Prod.mk.injEq] at h; rw [← h.2]; exact ⟨rfl, rfl⟩

/-- a change of the parse context that leaves the open-block stack alone -/
theorem modPc_keeps [Stable A] (f : Ctx → Ctx) (hf : ∀ pc, (f pc).opened = pc.opened) : Keeps (PJ A) (modPc f) :=
  ⟨fun s _ _ hs h => by
    cases h
    refine ⟨hs.1, fun b hb => ?_, Stable.ronly s s.r _ hs.2.2⟩
    have hb' : b ∈ (f s.pc).opened := hb
    rw [hf] at hb'
    exact hs.2.1 b hb'⟩

/-- the open-block stack is replaced by blocks the side fact knows to be consistent -/
theorem modPcOpened_keeps [Stable A] (g : Ctx → List Block) (f : Ctx → Ctx) (hf : ∀ pc, (f pc).opened = g pc)
    (h : ∀ s, J2 s → A s → ∀ b ∈ g s.pc, OKB b s) : Keeps (PJ A) (modPc f) :=
  ⟨fun s _ _ hs hm => by
    cases hm
    refine ⟨hs.1, fun b hb => ?_, Stable.ronly s s.r _ hs.2.2⟩
    have hb' : b ∈ (f s.pc).opened := hb
    rw [hf] at hb'
    exact h s hs.2.1 hs.2.2 b hb'⟩

/-- a write that keeps the kind and does not empty a Paragraph's lines -/
theorem modNode_keeps [Stable A] (id : Nat) (f : Blocks.Node → Blocks.Node)
    (hf : ∀ n, (f n).kind = n.kind ∧ (n.kind = .paragraph → n.lines ≠ [] → (f n).lines ≠ [])) : Keeps (PJ A) (modNode id f) :=
  ⟨fun s _ _ hs h => by
    cases h
    exact ⟨hs.1.mod id f hf, hs.2.1.mod id f (fun n => (hf n).1), Stable.mod s id f (fun n => (hf n).1) hs.2.2⟩⟩

/-- any write that keeps the kind, to a node the side fact knows not to be a Paragraph -/
theorem modNodeAt_keeps [Stable A] (id : Nat) (f : Blocks.Node → Blocks.Node) (hf : ∀ n, (f n).kind = n.kind)
    (hk : ∀ s, A s → (s.nodes.getD id default).kind ≠ .paragraph) : Keeps (PJ A) (modNode id f) :=
  ⟨fun s _ _ hs h => by
    cases h
    exact ⟨hs.1.modAt id f hf (hk s hs.2.2), hs.2.1.mod id f hf, Stable.mod s id f hf hs.2.2⟩⟩

/-- a new node that is not a Paragraph without lines -/
theorem newNode_keeps [Stable A] (n : Blocks.Node) (hn : n.kind = .paragraph → n.lines ≠ []) : Keeps (PJ A) (newNode n) :=
  ⟨fun s _ _ hs h => by
    cases h
    exact ⟨hs.1.new n hn, hs.2.1.new n, Stable.new s n hs.2.2⟩⟩

theorem appendLine_keeps [Stable A] (id : Nat) (seg : Segment) : Keeps (PJ A) (appendLine id seg) :=
  modNode_keeps _ _ fun n => ⟨rfl, fun _ _ => by simp⟩

/-- paragraph.go:29-30 / setext_headings.go:101-102: a new Paragraph gets its first line at once -/
theorem newPara_bind [Stable A] {β : Type} (seg : Segment) (k : Nat → M β) (h : ∀ id, Keeps (PJ A) (k id)) :
    Keeps (PJ A) (newNode ({ kind := .paragraph } : Blocks.Node) >>= fun id => appendLine id seg >>= fun _ => k id) := by
  constructor
  intro s b s'' hs hm
  simp only [bind, StateT.bind, newNode, appendLine, modNode, pure, Except.pure, Except.bind] at hm
  refine (h s.nodes.length).h _ b s'' ?_ hm
  have e : ((s.nodes ++ [({ kind := .paragraph } : Blocks.Node)]).set s.nodes.length
      ((fun n : Blocks.Node => { n with lines := n.lines ++ [seg], linesNil := false })
        ((s.nodes ++ [({ kind := .paragraph } : Blocks.Node)]).getD s.nodes.length default))) =
      s.nodes ++ [({ kind := .paragraph, lines := [seg], linesNil := false } : Blocks.Node)] := by
    rw [getD_append, if_neg (Nat.lt_irrefl _), if_pos rfl]
    simp
  simp only [e]
  exact ⟨hs.1.new _ (fun _ => by simp), hs.2.1.new _, Stable.new s _ hs.2.2⟩

/-- a value computed without the state carries its equation -/
theorem liftE_bind [Stable A] {α β : Type} (e : Except Panic α) (k : α → M β) (h : ∀ a, e = .ok a → Keeps (PJ A) (k a)) :
    Keeps (PJ A) (liftE e >>= k) :=
  Keeps.bindV (liftE_V e) h

macro "keeps_step" : tactic =>
  `(tactic| first
    | with_reducible apply Keeps.pure
    | (refine newPara_bind _ _ ?_)
    | with_reducible apply Keeps.bind
    | with_reducible apply Keeps.ite
    | with_reducible apply Keeps.throw
    | with_reducible apply getNode_keeps
    | with_reducible apply getPc_keeps
    | with_reducible apply source_keeps
    | with_reducible apply position_keeps
    | with_reducible apply get_keeps
    | ((with_reducible apply modPc_keeps); (intro _; rfl))
    | with_reducible apply advanceLine_keeps
    | with_reducible apply setPosition_keeps
    | with_reducible apply liftE_keeps
    | with_reducible apply peekLine_keeps
    | with_reducible apply lineOffset_keeps
    | with_reducible apply advance_keeps
    | with_reducible apply advanceAndSetPadding_keeps
    | with_reducible apply skipBlankLinesR_keeps
    | with_reducible apply appendLine_keeps
    | ((with_reducible apply modNode_keeps); exact fun _ => ⟨rfl, fun _ h => h⟩)
    | ((with_reducible apply modNode_keeps); exact fun _ => ⟨rfl, fun _ _ => List.cons_ne_nil _ _⟩)
    | ((with_reducible apply newNode_keeps); (intro h; cases h; done))
    | apply_hyp
    | rfl
    | (intro _; rfl)
    | intro _
    | split)

/-- walk over an `M` do block -/
macro "keeps" : tactic => `(tactic| repeat' keeps_step)

/-- the same, remembering the equations of the values computed without the state -/
macro "keepsV_step" : tactic =>
  `(tactic| first
    | (refine liftE_bind _ _ (fun _ _ => ?_))
    | keeps_step)
macro "keepsV" : tactic => `(tactic| repeat' keepsV_step)

theorem trimLeftAll_length (src : Bytes) : ∀ (l l' : List Segment), trimLeftAll src l = .ok l' → l'.length = l.length
  | [], l', h => by simp only [trimLeftAll, pure, Except.pure] at h; cases h; rfl
  | a :: rest, l', h => by
    simp only [trimLeftAll, bind, Except.bind] at h
    cases h1 : a.trimLeftSpace src with
    | error e => rw [h1] at h; cases h
    | ok a' =>
      rw [h1] at h
      simp only at h
      cases h2 : trimLeftAll src rest with
      | error e => rw [h2] at h; cases h
      | ok r' =>
        rw [h2] at h
        simp only [pure, Except.pure] at h
        cases h
        simp [trimLeftAll_length src rest r' h2]

theorem lineSet_length {ls ls' : List Segment} {i : Int} {v : Segment} (h : lineSet ls i v = .ok ls') : ls'.length = ls.length := by
  unfold lineSet at h
  split at h
  · cases h; simp
  · cases h

/-! ### facts carried by values -/

/-- every block of the list is consistent -/
def AllOKB (l : List Block) (s : St) : Prop := ∀ b ∈ l, OKB b s

instance stableAllOKB (l : List Block) : Stable (AllOKB l) := by
  unfold AllOKB
  have : ∀ b, Stable (fun s => b ∈ l → OKB b s) := fun b => inferInstance
  exact inferInstance

/-- the block read by `pc.LastOpenedBlock()` is consistent -/
def LastOK (lb : Option Block) (s : St) : Prop := ∀ b, lb = some b → OKB b s

instance stableLastOK (lb : Option Block) : Stable (LastOK lb) := by
  unfold LastOK
  have : ∀ b, Stable (fun s => lb = some b → OKB b s) := fun b => inferInstance
  exact inferInstance

/-- the node `Open` answers exists and has the kind its parser builds -/
def OpenKind (bp : BP) (a : Option Nat × PState) (s : St) : Prop := ∀ id, a.1 = some id → OKB { node := id, bp := bp } s

instance stableOpenKind (bp : BP) (a : Option Nat × PState) : Stable (OpenKind bp a) := by
  unfold OpenKind
  have : ∀ id, Stable (fun s => a.1 = some id → OKB { node := id, bp := bp } s) := fun id => inferInstance
  exact inferInstance

theorem bpOpen_kind (bp : BP) (parent : Nat) (s s' : St) (a : Option Nat × PState) (h : bpOpen bp parent s = .ok (a, s')) :
    OpenKind bp a s' := by
  obtain ⟨_, hid⟩ := (GM.ConvertH.bpOpen_oj bp parent).h s a s' h
  intro id ha
  obtain ⟨_, h2, h3⟩ := hid id ha
  exact ⟨h2, h3⟩

/-- the context read by `getPc`: its open-block stack is consistent -/
theorem getPc_bind [Stable A] {β : Type} (k : Ctx → M β)
    (h : ∀ pc, Keeps (PJ (fun s => A s ∧ AllOKB pc.opened s)) (k pc)) : Keeps (PJ A) (getPc >>= k) := by
  constructor
  intro s b s'' hs hm
  simp only [bind, StateT.bind, getPc, pure, Except.pure, Except.bind] at hm
  have := (h s.pc).h s b s'' ⟨hs.1, hs.2.1, hs.2.2, hs.2.1⟩ hm
  exact ⟨this.1, this.2.1, this.2.2.1⟩

theorem lastOpened_bind [Stable A] {β : Type} (k : Option Block → M β)
    (h : ∀ lb, Keeps (PJ (fun s => A s ∧ LastOK lb s)) (k lb)) : Keeps (PJ A) (lastOpenedBlock >>= k) := by
  constructor
  intro s b s'' hs hm
  simp only [lastOpenedBlock, bind, StateT.bind, getPc, pure, StateT.pure, Except.pure, Except.bind] at hm
  have := (h s.pc.opened.getLast?).h s b s'' ⟨hs.1, hs.2.1, hs.2.2, fun x hx => hs.2.1 x (List.mem_of_getLast? hx)⟩ hm
  exact ⟨this.1, this.2.1, this.2.2.1⟩

theorem blockAt_mem {blocks : List Block} {i : Int} {b : Block} (h : blockAt blocks i = .ok b) : b ∈ blocks := by
  unfold blockAt at h
  split at h
  · cases h
  · split at h
    · rename_i hb; cases h; exact List.mem_of_getElem? hb
    · cases h

theorem slice_mem {l r : List Block} {a b : Int} (h : closeBlocks.slice' l a b = .ok r) : ∀ x ∈ r, x ∈ l := by
  unfold closeBlocks.slice' at h
  split at h
  · cases h; intro x hx; exact List.mem_of_mem_drop (List.mem_of_mem_take hx)
  · cases h

/-! ### tree surgery -/

section walk

variable {A : St → Prop} [Stable A]
local notation "I" => PJ A


theorem lastOpenedBlock_keeps : Keeps I lastOpenedBlock := by
  unfold lastOpenedBlock; keeps

theorem removeChild_keeps (p c : Nat) : Keeps I (removeChild p c) := by
  unfold removeChild; keeps

theorem ensureIsolated_keeps (c : Nat) : Keeps I (ensureIsolated c) := by
  have := removeChild_keeps (A := A)
  unfold ensureIsolated; keeps

theorem appendChild_keeps (p c : Nat) : Keeps I (appendChild p c) := by
  have := ensureIsolated_keeps (A := A)
  unfold appendChild; keeps

theorem insertBefore_keeps (p : Nat) (v1 : Option Nat) (ins : Nat) : Keeps I (insertBefore p v1 ins) := by
  have := ensureIsolated_keeps (A := A)
  have := appendChild_keeps (A := A)
  unfold insertBefore; keeps

theorem nextSibling_keeps (c : Nat) : Keeps I (nextSibling c) := by
  unfold nextSibling; keeps

theorem insertAfter_keeps (p : Nat) (v1 : Option Nat) (ins : Nat) : Keeps I (insertAfter p v1 ins) := by
  have := appendChild_keeps (A := A)
  have := nextSibling_keeps (A := A)
  have := insertBefore_keeps (A := A)
  unfold insertAfter; keeps

theorem replaceChild_keeps (p v1 ins : Nat) : Keeps I (replaceChild p v1 ins) := by
  have := insertBefore_keeps (A := A)
  have := removeChild_keeps (A := A)
  unfold replaceChild; keeps

/-! ### the ten block parsers -/

theorem paragraphOpen_keeps (p : Nat) : Keeps I (paragraphOpen p) := by
  unfold paragraphOpen; keeps

theorem paragraphContinue_keeps (n : Nat) : Keeps I (paragraphContinue n) := by
  unfold paragraphContinue; keeps

theorem paragraphClose_keeps (n : Nat) : Keeps I (paragraphClose n) := by
  have := removeChild_keeps (A := A)
  unfold paragraphClose; keepsV
  rename_i nd src hne ls h1 l1 h2 l2 h3 ls' h4
  refine modNode_keeps _ _ (fun _ => ⟨rfl, fun _ _ e => ?_⟩)
  have e1 := lineSet_length h4
  have e2 := trimLeftAll_length _ _ _ h1
  have e' : ls' = [] := e
  rw [e'] at e1
  simp only [List.length_nil] at e1
  simp only [bne_iff_ne, ne_eq] at hne
  omega

theorem thematicOpen_keeps (p : Nat) : Keeps I (thematicOpen p) := by
  unfold thematicOpen; keeps

theorem atxOpen_keeps (p : Nat) : Keeps I (atxOpen p) := by
  unfold atxOpen; keeps

theorem setextOpen_keeps (p : Nat) : Keeps I (setextOpen p) := by
  have := lastOpenedBlock_keeps (A := A)
  unfold setextOpen; keeps

/-- setext_headings.go:100-104: the paragraph put behind the heading is fresh -/
theorem setextClose_keeps (n : Nat) (hk : ∀ s, A s → (s.nodes.getD n default).kind ≠ .paragraph) :
    Keeps I (setextClose n) := by
  have h1 := removeChild_keeps (A := A)
  have h2 := insertAfter_keeps (A := A)
  have h3 := nextSibling_keeps (A := A)
  have hA := fun f hf => modNodeAt_keeps (A := A) n f hf hk
  unfold setextClose; keeps

theorem preserveLeadingTab_keeps (seg : Segment) (ind : Int) : Keeps I (preserveLeadingTab seg ind) := by
  unfold preserveLeadingTab; keeps

theorem codeTakeLine_keeps (n : Nat) (pos padding : Int) : Keeps I (codeTakeLine n pos padding) := by
  have := preserveLeadingTab_keeps (A := A)
  unfold codeTakeLine; keeps

theorem codeOpen_keeps (p : Nat) : Keeps I (codeOpen p) := by
  have := codeTakeLine_keeps (A := A)
  unfold codeOpen; keeps

theorem codeContinue_keeps (n : Nat) : Keeps I (codeContinue n) := by
  have := codeTakeLine_keeps (A := A)
  unfold codeContinue; keeps

theorem codeClose_keeps (n : Nat) (hk : ∀ s, A s → (s.nodes.getD n default).kind ≠ .paragraph) :
    Keeps I (codeClose n) := by
  have hA := fun f hf => modNodeAt_keeps (A := A) n f hf hk
  unfold codeClose; keeps

theorem fencedOpen_keeps (p : Nat) : Keeps I (fencedOpen p) := by
  unfold fencedOpen; keeps

theorem fencedContinue_keeps (n : Nat) : Keeps I (fencedContinue n) := by
  have := preserveLeadingTab_keeps (A := A)
  unfold fencedContinue; keeps

theorem fencedClose_keeps (n : Nat) : Keeps I (fencedClose n) := by
  unfold fencedClose; keeps

theorem blockquoteProcess_keeps : Keeps I blockquoteProcess := by
  unfold blockquoteProcess; keeps

theorem blockquoteOpen_keeps (p : Nat) : Keeps I (blockquoteOpen p) := by
  have := blockquoteProcess_keeps (A := A)
  unfold blockquoteOpen; keeps

theorem blockquoteContinue_keeps (n : Nat) : Keeps I (blockquoteContinue n) := by
  have := blockquoteProcess_keeps (A := A)
  unfold blockquoteContinue; keeps

theorem lastOffset_keeps (n : Nat) : Keeps I (lastOffset n) := by
  unfold lastOffset; keeps

theorem lastChildCount_keeps (n : Nat) : Keeps I (lastChildCount n) := by
  unfold lastChildCount; keeps

theorem listOpen_keeps (p : Nat) : Keeps I (listOpen p) := by
  have := lastOpenedBlock_keeps (A := A)
  unfold listOpen; keeps

theorem listContinue_keeps (n : Nat) : Keeps I (listContinue n) := by
  have := lastOpenedBlock_keeps (A := A)
  have := lastOffset_keeps (A := A)
  have := lastChildCount_keeps (A := A)
  unfold listContinue; keeps

/-- list.go:268-276: the TextBlock that replaces a Paragraph is fresh -/
theorem tightenItem_keeps : ∀ (gcs : List Nat) (A : St → Prop) [Stable A] (child : Nat), Keeps (PJ A) (tightenItem child gcs)
  | [], A, _, child => by unfold tightenItem; keeps
  | gc :: gcs, A, _, child => by
    have ih := tightenItem_keeps gcs
    have h2 := @replaceChild_keeps
    unfold tightenItem; keeps

theorem tightenItems_keeps (cs : List Nat) : Keeps I (tightenItems cs) := by
  have := fun c g => tightenItem_keeps g A c
  induction cs with
  | nil => unfold tightenItems; keeps
  | cons c cs ih => unfold tightenItems; keeps

theorem listClose_keeps (n : Nat) : Keeps I (listClose n) := by
  have := tightenItems_keeps (A := A)
  unfold listClose; keeps

theorem listItemOpen_keeps (p : Nat) : Keeps I (listItemOpen p) := by
  have := lastOffset_keeps (A := A)
  unfold listItemOpen; keeps

theorem listItemContinue_keeps (n : Nat) : Keeps I (listItemContinue n) := by
  have := lastOffset_keeps (A := A)
  unfold listItemContinue; keeps

theorem htmlOpen_keeps (p : Nat) : Keeps I (htmlOpen p) := by
  have := lastOpenedBlock_keeps (A := A)
  unfold htmlOpen; keeps

theorem htmlContinue_keeps (n : Nat) : Keeps I (htmlContinue n) := by
  unfold htmlContinue; keeps

theorem bpOpen_keeps (bp : BP) (p : Nat) : Keeps I (bpOpen bp p) := by
  cases bp <;> unfold bpOpen
  · exact setextOpen_keeps p
  · exact thematicOpen_keeps p
  · exact listOpen_keeps p
  · exact listItemOpen_keeps p
  · exact codeOpen_keeps p
  · exact atxOpen_keeps p
  · exact fencedOpen_keeps p
  · exact blockquoteOpen_keeps p
  · exact htmlOpen_keeps p
  · exact paragraphOpen_keeps p

/-- **`Open` with its post-condition** -/
theorem bpOpen_bind {β : Type} (bp : BP) (parent : Nat) (k : Option Nat × PState → M β)
    (h : ∀ a, Keeps (PJ (fun s => A s ∧ OpenKind bp a s)) (k a)) : Keeps I (bpOpen bp parent >>= k) := by
  constructor
  intro s b s'' hs hm
  simp only [bind, StateT.bind, Except.bind] at hm
  cases ho : bpOpen bp parent s with
  | error e => rw [ho] at hm; cases hm
  | ok x =>
    obtain ⟨a, s1⟩ := x
    rw [ho] at hm
    have h1 := (bpOpen_keeps (A := A) bp parent).h s a s1 hs ho
    have := (h a).h s1 b s'' ⟨h1.1, h1.2.1, h1.2.2, bpOpen_kind bp parent s s1 a ho⟩ hm
    exact ⟨this.1, this.2.1, this.2.2.1⟩

theorem bpContinue_keeps (bp : BP) (n : Nat) : Keeps I (bpContinue bp n) := by
  cases bp <;> unfold bpContinue
  · exact Keeps.pure _
  · exact Keeps.pure _
  · exact listContinue_keeps n
  · exact listItemContinue_keeps n
  · exact codeContinue_keeps n
  · exact Keeps.pure _
  · exact fencedContinue_keeps n
  · exact blockquoteContinue_keeps n
  · exact htmlContinue_keeps n
  · exact paragraphContinue_keeps n

theorem bpClose_keeps (bp : BP) (n : Nat)
    (hk : ∀ s, A s → (s.nodes.getD n default).kind = GM.ConvertH.BP.kindOf bp) : Keeps I (bpClose bp n) := by
  cases bp <;> unfold bpClose
  · exact setextClose_keeps n (fun s h => by rw [hk s h]; simp [GM.ConvertH.BP.kindOf])
  · exact Keeps.pure _
  · exact listClose_keeps n
  · exact Keeps.pure _
  · exact codeClose_keeps n (fun s h => by rw [hk s h]; simp [GM.ConvertH.BP.kindOf])
  · exact Keeps.pure _
  · exact fencedClose_keeps n
  · exact Keeps.pure _
  · exact Keeps.pure _
  · exact paragraphClose_keeps n

/-! ### the driver with paragraph transformers -/

theorem transformParagraph_keeps : ∀ (pts : List PT), PTsKeep I pts → ∀ n, Keeps I (transformParagraph pts n)
  | [], _, n => by unfold transformParagraph; keeps
  | pt :: pts, hp, n => by
    have h1 : ∀ n, Keeps I (pt n) := hp pt (List.mem_cons_self ..)
    have h2 := transformParagraph_keeps pts (fun q hq => hp q (List.mem_cons_of_mem _ hq))
    unfold transformParagraph; keeps

theorem toContinuable_keeps (cont : Bool) (result : OpenResult) (lb : Option Block) :
    Keeps I (toContinuable cont result lb) := by
  have := bpContinue_keeps (A := A)
  unfold toContinuable; keeps

/-- the open-block stack is set to a list of consistent blocks -/
theorem setOpened_keeps {A : St → Prop} [Stable A] (l : List Block) (h : ∀ s, A s → ∀ b ∈ l, OKB b s) :
    Keeps (PJ A) (modPc fun pc => { pc with opened := l }) :=
  modPcOpened_keeps (fun _ => l) _ (fun _ => rfl) (fun s _ ha => h s ha)

theorem Keeps.pure_bind {J : St → Prop} {α β : Type} (a : α) (k : α → M β) (h : Keeps J (k a)) :
    Keeps J (pure a >>= k) :=
  ⟨fun s b s' hs hm => h.h s b s' hs hm⟩

/-- a consistent block is pushed on the open-block stack -/
theorem pushOpened_keeps {A : St → Prop} [Stable A] (b : Block) (h : ∀ s, A s → OKB b s) :
    Keeps (PJ A) (modPc fun pc => { pc with opened := pc.opened ++ [b] }) :=
  modPcOpened_keeps (fun pc => pc.opened ++ [b]) _ (fun _ => rfl) (fun s hj ha x hx => by
    rcases List.mem_append.1 hx with h1 | h1
    · exact hj x h1
    · simp only [List.mem_singleton] at h1; subst h1; exact h s ha)

section driver
variable {pts : List PT} (hp : ∀ (B : St → Prop) [Stable B], PTsKeep (PJ B) pts)
include hp

theorem closeLoopT_keeps (blocks : List Block) (hb : ∀ s, A s → AllOKB blocks s) (to : Int) (k : Nat) :
    Keeps I (closeLoopT pts blocks to k) := by
  have := bpClose_keeps (A := A)
  have := transformParagraph_keeps (A := A) pts (hp A)
  induction k with
  | zero => unfold closeLoopT; keeps
  | succ k ih =>
    unfold closeLoopT; keepsV
    all_goals exact (hb _ (by assumption) _ (blockAt_mem (by assumption))).2

theorem closeBlocksT_keeps (frm to : Int) : Keeps I (closeBlocksT pts frm to) := by
  unfold closeBlocksT
  refine getPc_bind _ (fun pc => ?_)
  have hcl := closeLoopT_keeps (A := fun s => A s ∧ AllOKB pc.opened s) hp pc.opened (fun _ h => h.2)
  refine Keeps.bind (hcl _ _) (fun _ => ?_)
  dsimp only
  split
  · refine liftE_bind _ _ (fun l hl => ?_)
    exact setOpened_keeps l (fun s h b hb => h.2 b (slice_mem hl b hb))
  · refine liftE_bind _ _ (fun a ha => ?_)
    refine liftE_bind _ _ (fun b hb => ?_)
    refine Keeps.pure_bind _ _ ?_
    refine setOpened_keeps (a ++ b) (fun s h x hx => h.2 x ?_)
    rcases List.mem_append.1 hx with h1 | h1
    · exact slice_mem ha x h1
    · exact slice_mem hb x h1

theorem requireParaT_keeps (parent : Nat) (last : Option Nat) (lastBlock : Option Block)
    (hlb : ∀ s, A s → LastOK lastBlock s) : Keeps I (requireParaT pts parent last lastBlock) := by
  unfold requireParaT
  refine Keeps.bind (getNode_keeps _) (fun pn => ?_)
  refine Keeps.ite (fun _ => ?_) (fun _ => Keeps.pure _)
  cases lastBlock with
  | none => exact Keeps.throw _
  | some lb =>
    dsimp only
    refine Keeps.bind (bpClose_keeps lb.bp lb.node (fun s h => (hlb s h lb rfl).2)) (fun _ => ?_)
    refine getPc_bind _ (fun pc => ?_)
    have htp := fun (B : St → Prop) [Stable B] n => transformParagraph_keeps (A := B) pts (hp B) n
    have hset := @setOpened_keeps
    keeps
    all_goals exact (by assumption : _ ∧ AllOKB pc.opened _).2 _ (List.dropLast_subset _ (by assumption))

/-- parser.go:960-1014: the block that is pushed is the node `Open` has just answered, with its parser -/
theorem tryParsersT_keeps (parent : Nat) (blankLine continuable : Bool) (w : Int) :
    ∀ (bps : List BP) (A : St → Prop) [Stable A] (result : OpenResult) (lastBlock : Option Block),
      Keeps (PJ A) (tryParsersT pts parent blankLine continuable w bps result lastBlock)
  | [], A, _, result, lastBlock => by unfold tryParsersT; keeps
  | bp :: bps, A, _, result, lastBlock => by
    have ih := tryParsersT_keeps parent blankLine continuable w bps
    have h2 := fun (B : St → Prop) [Stable B] => closeBlocksT_keeps (A := B) hp
    have h3 := @appendChild_keeps
    unfold tryParsersT
    refine Keeps.ite (fun _ => ih A result lastBlock) (fun _ => ?_)
    refine Keeps.ite (fun _ => ih A result lastBlock) (fun _ => ?_)
    refine lastOpened_bind _ (fun lb => ?_)
    refine bpOpen_bind bp parent _ (fun a => ?_)
    have h1 := requireParaT_keeps (A := fun s => (A s ∧ LastOK lb s) ∧ OpenKind bp a s) hp parent (lb.map (·.node)) lb
      (fun _ h => h.1.2)
    have hpush := @pushOpened_keeps
    keeps
    all_goals exact (by assumption : _ ∧ OpenKind _ _ _).2 _ rfl

theorem retryStepT_keeps (blank tdone cont : Bool) (parent : Nat) (w : Int) (bps : List BP) (result : OpenResult)
    (lb : Option Block) (again : Bool → Bool → Nat → OpenResult → Option Block → M OpenResult)
    (hk : ∀ td c p r l, Keeps I (again td c p r l)) :
    Keeps I (retryStepT pts blank tdone cont parent w bps result lb again) := by
  have := fun p b c w bps r l => tryParsersT_keeps (pts := pts) hp p b c w bps A r l
  have := toContinuable_keeps (A := A)
  unfold retryStepT; keeps

theorem openBlocksLoopT_keeps (blank : Bool) : ∀ (fuel : Nat) (tdone cont : Bool) (parent : Nat) (result : OpenResult)
    (lb : Option Block), Keeps I (openBlocksLoopT pts blank fuel tdone cont parent result lb) := by
  intro fuel
  induction fuel with
  | zero => intro _ _ _ _ _; unfold openBlocksLoopT; keeps
  | succ fuel ih =>
    intro tdone cont parent result lb
    have := toContinuable_keeps (A := A)
    have := fun bl td c p w bps r l => retryStepT_keeps (A := A) hp bl td c p w bps r l (openBlocksLoopT pts blank fuel) ih
    unfold openBlocksLoopT; keeps

theorem openBlocksT_keeps (parent : Nat) (blank : Bool) : Keeps I (openBlocksT pts parent blank) := by
  have := lastOpenedBlock_keeps (A := A)
  have := openBlocksLoopT_keeps (A := A) hp
  unfold openBlocksT; keeps

theorem lineLoopT_keeps (parent : Nat) (ob : List Block) (li : Int) (rest : List Block) (i : Int) (bl : List LineStat) :
    Keeps I (lineLoopT pts parent ob li rest i bl) := by
  have := closeBlocksT_keeps (A := A) hp
  have := bpContinue_keeps (A := A)
  have := openBlocksT_keeps (A := A) hp
  induction rest generalizing i bl with
  | nil => unfold lineLoopT; keeps
  | cons be rest ih => unfold lineLoopT; keeps

theorem linesLoopT_keeps (parent : Nat) : ∀ (fuel : Nat) (bl : List LineStat), Keeps I (linesLoopT pts parent fuel bl) := by
  intro fuel
  induction fuel with
  | zero => intro _; unfold linesLoopT; keeps
  | succ fuel ih =>
    intro bl
    have := lineLoopT_keeps (A := A) hp
    unfold linesLoopT; keeps

theorem blocksLoopT_keeps (parent : Nat) : ∀ (fuel : Nat) (bl : List LineStat), Keeps I (blocksLoopT pts parent fuel bl) := by
  intro fuel
  induction fuel with
  | zero => intro _; unfold blocksLoopT; keeps
  | succ fuel ih =>
    intro bl
    have := openBlocksT_keeps (A := A) hp
    have := linesLoopT_keeps (A := A) hp
    unfold blocksLoopT; keeps

theorem parseBlocksT_keeps (parent : Nat) : Keeps I (parseBlocksT pts parent) := by
  have := blocksLoopT_keeps (A := A) hp
  have := setOpened_keeps (A := A) [] (fun _ _ _ h => by cases h)
  unfold parseBlocksT; keeps

end driver

/-- **generic whole-run theorem**: a frame invariant that holds initially holds of the store the block phase returns, for
    every source and every list of paragraph transformers that keep it -/
theorem runT_keeps {pts : List PT} (hp : ∀ (B : St → Prop) [Stable B], PTsKeep (PJ B) pts) (src : Bytes) (h0 : I (initSt src)) (st : St)
    (h : runT pts src = .ok st) : I st := by
  unfold runT at h
  cases hr : parseBlocksT pts 0 (initSt src) with
  | error e => simp [hr, Except.map] at h
  | ok x =>
    simp only [hr, Except.map, Except.ok.injEq] at h
    subst h
    exact (parseBlocksT_keeps hp 0).h _ x.1 x.2 h0 hr

end walk

end GM.E2E.PJ

namespace GM.E2E.PJ
open GM GM.Text GM.Blocks GM.E2E GM.E2E.LI

theorem pj_init (src : Bytes) : PJ (fun _ => True) (initSt src) := by
  refine ⟨fun i hk => ?_, fun b hb => by simp [initSt] at hb, trivial⟩
  exfalso
  cases i with
  | zero => simp [initSt] at hk
  | succ k =>
    simp only [initSt, List.getD_eq_getElem?_getD, List.getElem?_cons_succ, List.getElem?_nil, Option.getD_none] at hk
    rw [default_kind] at hk
    cases hk

/-- **`J2` and `PNE` of the store the block phase returns**, for every source and every list of paragraph transformers that
    keep the invariant family -/
theorem runT_pj {pts : List PT} (hp : ∀ (B : St → Prop) [Stable B], PTsKeep (PJ B) pts) (src : Bytes) (st : St)
    (h : runT pts src = .ok st) : PNE st ∧ J2 st :=
  have := runT_keeps (A := fun _ => True) hp src (pj_init src) st h
  ⟨this.1, this.2.1⟩

end GM.E2E.PJ
