/-
  GM.Proof.ShiftSimXLeafA — shift simulation of the leaf parsers thematic_break.go, atx_heading.go,
  setext_headings.go (and the trivial Continue / Close functions), after the pattern of GM.Proof.ShiftSimXPara.
-/
import GM.Proof.ShiftSimXPara

namespace GM.Blocks.Xs
open GM GM.Text GM.Spec GM.Proof.Reader GM.Blocks

/-! ### trivial Continue / Close -/

theorem thematicContinue_sim (F : Frame) (b : Bytes) : ContinueSim F b .thematic := by
  intro node sA sB h _ _
  exact P2.pure ⟨rfl, h⟩

theorem atxContinue_sim (F : Frame) (b : Bytes) : ContinueSim F b .atx := by
  intro node sA sB h _ _
  exact P2.pure ⟨rfl, h⟩

theorem setextContinue_sim (F : Frame) (b : Bytes) : ContinueSim F b .setext := by
  intro node sA sB h _ _
  exact P2.pure ⟨rfl, h⟩

theorem thematicClose_sim (F : Frame) (b : Bytes) : CloseSim F b .thematic := by
  intro node rA rB sA sB h
  exact P2.pure h

theorem atxClose_sim (F : Frame) (b : Bytes) : CloseSim F b .atx := by
  intro node rA rB sA sB h
  exact P2.pure h

theorem listItemClose_sim (F : Frame) (b : Bytes) : CloseSim F b .listItem := by
  intro node rA rB sA sB h
  exact P2.pure h

theorem blockquoteClose_sim (F : Frame) (b : Bytes) : CloseSim F b .blockquote := by
  intro node rA rB sA sB h
  exact P2.pure h

theorem htmlClose_sim (F : Frame) (b : Bytes) : CloseSim F b .html := by
  intro node rA rB sA sB h
  exact P2.pure h

/-- from the limbo relation and a step under `SRL` with the readers fixed, the limbo relation again -/
theorem SRLim.of_l {F : Frame} {b : Bytes} {sA sB sA' sB' : St} (h : SRLim F b sA sB)
    (h' : SRL F b sA.r sB.r sA' sB') : SRLim F b sA' sB' := by
  unfold SRLim
  rw [h'.ra, h'.rb]
  exact ⟨h', h.2⟩

/-! ### thematic_break.go -/

theorem thematicOpen_sim (F : Frame) (b : Bytes) (hq : QNL F b) : OpenSim F b .thematic := by
  intro parent sA sB h hl
  show P2 _ (thematicOpen parent sA) (thematicOpen (F.ι parent) sB)
  unfold thematicOpen
  obtain ⟨c, hc0, hp⟩ := hl
  refine P2.bind (peekLine_p2c h hc0 hp) (fun x y sA1 sB1 ⟨hc, hx, hy, h1⟩ => ?_)
  subst hx hy
  refine P2.bind (lineOffset_p2c h1 hc) (fun o o' sA2 sB2 ⟨ho, hc2, h2⟩ => ?_)
  subst ho
  simp only
  by_cases hb : isThematicBreak ((RCur.view b c).getD []) o' = true
  · rw [if_pos hb, if_pos hb]
    rw [moveSeg_len]
    have hr : sA2.r.pos.start < sA2.r.pos.stop ∧
        sA2.r.pos.start + ((RCur.seg b c).len - 1) < sA2.r.pos.stop + sA2.r.pos.padding := by
      have hle := lt_lineEnd b hp
      rw [hc2.pos]
      simp only [RCur.seg, Segment.len]; omega
    refine P2.bind (advance_limbo h2 _ hq (.inr (.inr hr))) (fun _ _ sA3 sB3 h3 => ?_)
    refine P2.bind (newNode_l h3.1 _ _ (by simp [shN, shClosure])) (fun n m sA4 sB4 ⟨_, hm, _, h4⟩ => ?_)
    subst hm
    exact P2.pure ⟨rfl, h3.of_l h4, fun hh => by rcases hh with hh | hh <;> simp [stNoChildren] at hh,
      fun hh => by cases hh <;> contradiction⟩
  · rw [if_neg hb, if_neg hb]
    exact P2.pure ⟨rfl, h2.limbo hq, fun _ => h2, fun hh => by cases hh <;> contradiction⟩

/-! ### atx_heading.go -/

/-- the postcondition of `OpenSim` -/
def OpenQ (F : Frame) (b : Bytes) (bp : BP) (x y : Option Nat × PState) (sA' sB' : St) : Prop :=
  y = (x.1.map F.ι, x.2) ∧ SRLim F b sA' sB' ∧
    ((x.2.hasChildren = true ∨ x.1 = none) → SR F b sA' sB') ∧
    ((bp = .list ∨ bp = .listItem) → x.1.isSome = true → sB'.pc.emptyItemBlank = sA'.pc.emptyItemBlank)

theorem atxOpen_sim (F : Frame) (b : Bytes) (hq : QNL F b) : OpenSim F b .atx := by
  intro parent sA sB h hl
  show P2 (OpenQ F b .atx) (atxOpen parent sA) (atxOpen (F.ι parent) sB)
  unfold atxOpen
  refine P2.bind (peekLine_p2 h (.inr hl)) (fun x y sA1 sB1 ⟨⟨c, hc, hx⟩, hy, h1⟩ => ?_)
  subst hx hy
  refine P2.bind (getPc_p2 h1) (fun pa pb sA2 sB2 ⟨_, _, hcr, e1, e2⟩ => ?_)
  subst e1 e2
  simp only
  rw [hcr.blockOffset]
  generalize (RCur.view b c).getD [] = line
  generalize RCur.seg b c = seg
  generalize pa.blockOffset = pos
  have hnone : ∀ {sA' sB'}, SR F b sA' sB' → OpenQ F b .atx (none, stNoChildren) (none, stNoChildren) sA' sB' :=
    fun h' => ⟨rfl, h'.limbo hq, fun _ => h', fun hh => by cases hh <;> contradiction⟩
  have hsome : ∀ (n : Nat) {sA' sB'}, SR F b sA' sB' →
      OpenQ F b .atx (some n, stNoChildren) (some (F.ι n), stNoChildren) sA' sB' :=
    fun n _ _ h' => ⟨rfl, h'.limbo hq, fun _ => h', fun hh => by cases hh <;> contradiction⟩
  have tail : ∀ (start stop : Int) (n : Nat) (sA3 sB3 : St), SR F b sA3 sB3 →
      P2 (OpenQ F b .atx)
        ((do let body ← liftE (slice line start stop)
             if ((body.reverse.dropWhile (· == 35)).length != 0) = true then
               appendLine n { start := seg.start + start - seg.padding, stop := seg.start + stop - seg.padding }
               pure (some n, stNoChildren)
             else pure (some n, stNoChildren) : M (Option Nat × PState)) sA3)
        ((do let body ← liftE (slice line start stop)
             if ((body.reverse.dropWhile (· == 35)).length != 0) = true then
               appendLine (F.ι n) { start := (moveSeg F.d seg).start + start - (moveSeg F.d seg).padding,
                                    stop := (moveSeg F.d seg).start + stop - (moveSeg F.d seg).padding }
               pure (some (F.ι n), stNoChildren)
             else pure (some (F.ι n), stNoChildren) : M (Option Nat × PState)) sB3) := by
    intro start stop n sA3 sB3 h3
    refine P2.bind (P := fun s t sA' sB' => s = t ∧ sA3 = sA' ∧ sB3 = sB')
      (P2.liftE_same (fun a _ => ⟨rfl, rfl, rfl⟩)) (fun body t sA4 sB4 ⟨ht, e1, e2⟩ => ?_)
    subst ht e1 e2
    by_cases hb : ((body.reverse.dropWhile (· == 35)).length != 0) = true
    · rw [if_pos hb, if_pos hb]
      refine P2.bind (appendLine_p2 h3 n ?_) (fun _ _ sA5 sB5 h5 => ?_)
      · simp only [moveSeg, Segment.mk.injEq]
        refine ⟨by omega, by omega, trivial, trivial⟩
      · exact P2.pure (hsome n h5)
    · rw [if_neg hb, if_neg hb]
      exact P2.pure (hsome n h3)
  by_cases h0 : pos < 0
  · rw [if_pos h0, if_pos h0]; exact P2.pure (hnone h1)
  rw [if_neg h0, if_neg h0]
  generalize scanWhileEq line 35 pos = i
  by_cases h2 : (i == pos || decide (i - pos > 6)) = true
  · rw [if_pos h2, if_pos h2]; exact P2.pure (hnone h1)
  rw [if_neg h2, if_neg h2]
  by_cases h3 : (i == (line.length : Int)) = true
  · rw [if_pos h3, if_pos h3]
    refine P2.bind (newNode_p2 h1 _ _ (by simp [shN, shClosure])) (fun n m sA4 sB4 ⟨_, hm, _, h4⟩ => ?_)
    subst hm
    exact P2.pure (hsome n h4)
  rw [if_neg h3, if_neg h3]
  refine P2.bind (P := fun s t sA' sB' => s = t ∧ sA2 = sA' ∧ sB2 = sB')
    (P2.liftE_same (fun a _ => ⟨rfl, rfl, rfl⟩)) (fun rest t sA3 sB3 ⟨ht, e1, e2⟩ => ?_)
  subst ht e1 e2
  generalize (trimLeftSpaceLength rest : Int) = l
  by_cases h4 : (l == 0) = true
  · rw [if_pos h4, if_pos h4]; exact P2.pure (hnone h1)
  rw [if_neg h4, if_neg h4]
  refine P2.bind (newNode_p2 h1 _ _ (by simp [shN, shClosure])) (fun n m sA4 sB4 ⟨_, hm, _, h5⟩ => ?_)
  subst hm
  generalize (if i + l ≥ (line.length : Int) then (line.length : Int) - 1 else i + l) = start
  generalize (line.length : Int) - (trimRightSpaceLength line : Int) = stop0
  by_cases h6 : stop0 ≤ start
  · rw [if_pos h6, if_pos h6]
    exact tail start start n _ _ h5
  rw [if_neg h6, if_neg h6]
  refine P2.bind (P := fun s t sA' sB' => s = t ∧ sA4 = sA' ∧ sB4 = sB')
    (P2.liftE_same (fun a _ => ⟨rfl, rfl, rfl⟩)) (fun j t sA5 sB5 ⟨ht, e1, e2⟩ => ?_)
  subst ht e1 e2
  refine P2.bind (P := fun s t sA' sB' => s = t ∧ sA4 = sA' ∧ sB4 = sB')
    (P2.liftE_same (fun a _ => ⟨rfl, rfl, rfl⟩)) (fun ch t sA5 sB5 ⟨ht, e1, e2⟩ => ?_)
  subst ht e1 e2
  exact tail start _ n _ _ h5

/-! ### setext_headings.go -/

theorem setextOpen_sim (F : Frame) (b : Bytes) (hq : QNL F b) : OpenSim F b .setext := by
  intro parent sA sB h hl
  show P2 (OpenQ F b .setext) (setextOpen parent sA) (setextOpen (F.ι parent) sB)
  unfold setextOpen
  have hnone : ∀ {sA' sB'}, SR F b sA' sB' → OpenQ F b .setext (none, stNoChildren) (none, stNoChildren) sA' sB' :=
    fun h' => ⟨rfl, h'.limbo hq, fun _ => h', fun hh => by cases hh <;> contradiction⟩
  refine P2.bind (lastOpenedBlock_p2 h) (fun x y sA1 sB1 ⟨_, hy, e1, e2⟩ => ?_)
  subst e1 e2 hy
  cases x with
  | none => exact P2.pure (hnone h)
  | some lb =>
    simp only [Option.map_some]
    have e : (shB F lb).node = F.ι lb.node := rfl
    rw [e]
    refine P2.bind (getNode_p2 h lb.node) (fun ln ln' sA2 sB2 ⟨_, hln, e1, e2⟩ => ?_)
    subst e1 e2 hln
    rw [shN_kind, shN_parent, map_ι_ne]
    by_cases hk : (ln.kind != Kind.paragraph || ln.parent != some parent) = true
    · rw [if_pos hk, if_pos hk]; exact P2.pure (hnone h)
    rw [if_neg hk, if_neg hk]
    refine P2.bind (peekLine_p2 h (.inr hl)) (fun x y sA1 sB1 ⟨⟨c, hc, hx⟩, hy, h1⟩ => ?_)
    subst hx hy
    simp only
    refine P2.bind (P := fun s t sA' sB' => s = t ∧ sA1 = sA' ∧ sB1 = sB')
      (P2.liftE_same (fun a _ => ⟨rfl, rfl, rfl⟩)) (fun r t sA3 sB3 ⟨ht, e1, e2⟩ => ?_)
    subst ht e1 e2
    by_cases hok : (!r.snd) = true
    · rw [if_pos hok, if_pos hok]; exact P2.pure (hnone h1)
    rw [if_neg hok, if_neg hok]
    refine P2.bind (newNode_p2 h1 _ _ (by simp [shN, shClosure])) (fun n m sA4 sB4 ⟨_, hm, _, h4⟩ => ?_)
    subst hm
    refine P2.bind (appendLine_p2 h4 n rfl) (fun _ _ sA5 sB5 h5 => ?_)
    refine P2.bind (modPc_p2 h5 _ _ (fun x y hxy => ?_)) (fun _ _ sA6 sB6 h6 => ?_)
    · exact ⟨⟨hxy.opened, rfl, hxy.fence, hxy.skipList, hxy.emptyItemBlank⟩, hxy.blockOffset, hxy.blockIndent⟩
    · exact P2.pure ⟨rfl, h6.limbo hq, fun _ => h6, fun hh => by cases hh <;> contradiction⟩

theorem setextClose_sim (F : Frame) (hF : F.OK) (b : Bytes) : CloseSim F b .setext := by
  intro node rA rB sA sB h
  show P2 _ (setextClose node sA) (setextClose (F.ι node) sB)
  unfold setextClose
  refine P2.bind (getNode_l h node) (fun hn m sA1 sB1 ⟨_, hm, e1, e2⟩ => ?_)
  subst e1 e2 hm
  rw [shN_lines]
  refine P2.bind (P := fun s t sA' sB' => t = moveSeg F.d s ∧ sA1 = sA' ∧ sB1 = sB')
    (P2.liftE (fun s t e1 e2 => ?_)) (fun seg t sA3 sB3 ⟨ht, e1, e2⟩ => ?_)
  · rw [lineAt_sh F.d e1] at e2; cases e2; exact ⟨rfl, rfl, rfl⟩
  subst ht e1 e2
  refine P2.bind (modNode_l h node (fun n => { n with lines := [], linesNil := true })
    (fun n => { n with lines := [], linesNil := true }) (fun a => by simp [shN]) (fun _ => rfl)) (fun _ _ sA2 sB2 h2 => ?_)
  refine P2.bind (getPc_l h2) (fun pa pb sA3 sB3 ⟨_, _, hcr, e1, e2⟩ => ?_)
  subst e1 e2
  rw [hcr.tmpPara]
  cases pa.tmpPara with
  | none => exact P2.errL
  | some tmp =>
    simp only [Option.map_some, pure_bind]
    refine P2.bind (modPc_l h2 _ _ (fun x y hxy => ?_)) (fun _ _ sA4 sB4 h4 => ?_)
    · exact ⟨⟨hxy.opened, rfl, hxy.fence, hxy.skipList, hxy.emptyItemBlank⟩, hxy.blockOffset, hxy.blockIndent⟩
    refine P2.bind (getNode_l h4 tmp) (fun tn m sA5 sB5 ⟨_, hm, e1, e2⟩ => ?_)
    subst e1 e2 hm
    rw [shN_lines, List.length_map, shN_parent, shN_linesNil, shN_blankPrev]
    by_cases hl : (tn.lines.length == 0) = true
    · rw [if_pos hl, if_pos hl]
      refine P2.bind (nextSibling_l hF h4 node) (fun next y sA6 sB6 ⟨hy, e1, e2⟩ => ?_)
      subst e1 e2 hy
      refine P2.bind (source_l h4) (fun a a' sA2 sB2 ⟨ha, hb, e1, e2⟩ => ?_)
      subst e1 e2
      rw [ha, hb]
      refine P2.bind (P := fun s t sA' sB' => t = moveSeg F.d s ∧ sA2 = sA' ∧ sB2 = sB')
        (P2.liftE (fun s t e1 e2 => ?_)) (fun s t sA3 sB3 ⟨ht, e1, e2⟩ => ?_)
      · rw [trimLeftSpace_sh F _ e1] at e2; cases e2; exact ⟨rfl, rfl, rfl⟩
      subst ht e1 e2
      refine P2.bind (getNode_l h4 node) (fun hn2 m sA5 sB5 ⟨_, hm, e1, e2⟩ => ?_)
      subst e1 e2 hm
      rw [shN_parent]
      cases hn2.parent with
      | none => exact P2.errL
      | some hp =>
        simp only [Option.map_some]
        cases next with
        | none =>
          simp only [Option.map_none]
          have ht : ((!false) = true) := rfl
          rw [if_pos ht, if_pos ht]
          refine P2.bind (newNode_l h4 _ _ (by simp [shN, shClosure])) (fun para m sA6 sB6 ⟨_, hm, _, h6⟩ => ?_)
          subst hm
          refine P2.bind (appendLine_l h6 para rfl) (fun _ _ sA7 sB7 h7 => ?_)
          refine P2.bind (insertAfter_l hF h7 hp (some node) para) (fun _ _ sA8 sB8 h8 => ?_)
          exact removeChild_l hF h8 hp node
        | some nx =>
          simp only [Option.map_some]
          refine P2.bind (getNode_l h4 nx) (fun nxn m sA6 sB6 ⟨_, hm, e1, e2⟩ => ?_)
          subst e1 e2 hm
          rw [shN_kind]
          by_cases hk : (!nxn.kind == Kind.paragraph) = true
          · rw [if_pos hk, if_pos hk]
            refine P2.bind (newNode_l h4 _ _ (by simp [shN, shClosure])) (fun para m sA6 sB6 ⟨_, hm, _, h6⟩ => ?_)
            subst hm
            refine P2.bind (appendLine_l h6 para rfl) (fun _ _ sA7 sB7 h7 => ?_)
            refine P2.bind (insertAfter_l hF h7 hp (some node) para) (fun _ _ sA8 sB8 h8 => ?_)
            exact removeChild_l hF h8 hp node
          · rw [if_neg hk, if_neg hk]
            refine P2.bind (getNode_l h4 nx) (fun nn m sA6 sB6 ⟨_, hm, e1, e2⟩ => ?_)
            subst e1 e2 hm
            rw [shN_linesNil]
            by_cases hnil : nn.linesNil = true
            · rw [if_pos hnil, if_pos hnil]
              exact P2.errL
            · rw [if_neg hnil, if_neg hnil]
              refine P2.bind (modNode_l h4 nx (fun n => { n with lines := s :: n.lines })
                (fun n => { n with lines := moveSeg F.d s :: n.lines }) (fun a => by simp [shN]) (fun _ => rfl))
                (fun _ _ sA6 sB6 h6 => ?_)
              exact removeChild_l hF h6 hp node
    · rw [if_neg hl, if_neg hl]
      refine P2.bind (modNode_l h4 node (fun n => { n with lines := tn.lines, linesNil := tn.linesNil, blankPrev := tn.blankPrev })
        (fun n => { n with lines := tn.lines.map (moveSeg F.d), linesNil := tn.linesNil, blankPrev := tn.blankPrev })
        (fun a => by simp [shN]) (fun _ => rfl)) (fun _ _ sA6 sB6 h6 => ?_)
      cases tn.parent with
      | none => exact P2.pure h6
      | some tp => exact removeChild_l hF h6 tp tmp

end GM.Blocks.Xs
