/-
  GM.Proof.E2EList — "a ListItem is only ever a child of a List" (`LC`) as an invariant of the block phase WITH paragraph
  transformers, for every source: the walk of GM.Proof.E2EKeeps (adapted copy: same lemma names, namespace `GM.E2E.LI`) for an
  invariant that is NOT blind to child lists. Every write to a node either leaves the child list alone / shrinks it (`mod`),
  or is one of the two edge-adding writes of ast.go (`AppendChild`, `InsertBefore`), which are obligations of their own:
  the new edge `c → p` must be good (`EdgeGood`: `c` is no ListItem, or `p` is a List). The four places that add an edge —
  `openBlocks` (parser.go:1006 `parent.AppendChild(parent, node)`), `setextHeadingParser.Close`, `listParser.Close`
  (tight lists) and `linkReferenceParagraphTransformer.Transform` — know it: the node is fresh and of another kind, or
  `listItemParser.Open` has just checked `parent.(*ast.List)`.
-/
import GM.Proof.E2EKeeps
import GM.Proof.ConvertHWFOpen

namespace GM.E2E.LI
open GM GM.Text GM.Blocks GM.E2E

/-- a ListItem child only below a List -/
def LC (s : St) : Prop :=
  ∀ i c, c ∈ (s.nodes.getD i default).children → c < s.nodes.length ∧
    ((s.nodes.getD c default).kind = .listItem → (s.nodes.getD i default).kind = .list)

/-- the edge `c → p` may be added -/
def EdgeGood (c p : Nat) (s : St) : Prop :=
  c < s.nodes.length ∧ ((s.nodes.getD c default).kind = .listItem → (s.nodes.getD p default).kind = .list)

/-- an invariant blind to reader and context, kept by writes that keep the kind and do not add children, and by the
    allocation of a childless node -/
class FrameB (I : St → Prop) : Prop where
  ronly : ∀ (s : St) (r : Reader) (pc : Ctx), I s → I { s with r := r, pc := pc }
  mod : ∀ (s : St) (id : Nat) (f : Blocks.Node → Blocks.Node), (∀ n, (f n).kind = n.kind ∧ ∀ x ∈ (f n).children, x ∈ n.children) → I s →
    I { s with nodes := s.nodes.set id (f (s.nodes.getD id default)) }
  new : ∀ (s : St) (n : Blocks.Node), n.children = [] → I s → I { s with nodes := s.nodes ++ [n] }

variable {I : St → Prop}

/-- a step that leaves the node store alone -/
theorem Keeps.of_nodes [FrameB I] {α} {m : M α} (h : ∀ s a s', m s = .ok (a, s') → s'.nodes = s.nodes) : Keeps I m :=
  ⟨fun s a s' hs hm => by
    have e : s' = { s with r := s'.r, pc := s'.pc } := by
      cases s'; cases s; simp only [St.mk.injEq, true_and]; exact ⟨h _ _ _ hm, trivial⟩
    rw [e]; exact FrameB.ronly s _ _ hs⟩

theorem getNode_keeps [FrameB I] (id : Nat) : Keeps I (getNode id) :=
  Keeps.of_nodes fun _ _ _ h => by cases h; rfl
theorem getPc_keeps [FrameB I] : Keeps I getPc := Keeps.of_nodes fun _ _ _ h => by cases h; rfl
theorem source_keeps [FrameB I] : Keeps I source := Keeps.of_nodes fun _ _ _ h => by cases h; rfl
theorem position_keeps [FrameB I] : Keeps I position := Keeps.of_nodes fun _ _ _ h => by cases h; rfl
theorem get_keeps [FrameB I] : Keeps I (get : M St) := Keeps.of_nodes fun _ _ _ h => by cases h; rfl
theorem modPc_keeps [FrameB I] (f) : Keeps I (modPc f) := Keeps.of_nodes fun _ _ _ h => by cases h; rfl
theorem advanceLine_keeps [FrameB I] : Keeps I advanceLine := Keeps.of_nodes fun _ _ _ h => by cases h; rfl
theorem setPosition_keeps [FrameB I] (l : Int) (p : Segment) : Keeps I (setPosition l p) :=
  Keeps.of_nodes fun _ _ _ h => by cases h; rfl

theorem liftE_keeps [FrameB I] {α} (e : Except Panic α) : Keeps I (liftE e) :=
  Keeps.of_nodes fun s a s' h => by
    unfold liftE at h
    cases e with
    | error x => simp [Except.map] at h
    | ok v => simp only [Except.map, Except.ok.injEq, Prod.mk.injEq] at h; rw [h.2]

theorem peekLine_keeps [FrameB I] : Keeps I peekLine :=
  Keeps.of_nodes fun s a s' h => by
    unfold peekLine at h
    cases hr : s.r.peekLine with
    | error x => simp [hr, bind, Except.bind] at h
    | ok v => simp only [hr, bind, Except.bind, pure, Except.pure, Except.ok.injEq, Prod.mk.injEq] at h; rw [← h.2]

theorem lineOffset_keeps [FrameB I] : Keeps I lineOffset :=
  Keeps.of_nodes fun s a s' h => by
    unfold lineOffset at h
    cases hr : s.r.lineOffsetOp with
    | error x => simp [hr, bind, Except.bind] at h
    | ok v => simp only [hr, bind, Except.bind, pure, Except.pure, Except.ok.injEq, Prod.mk.injEq] at h; rw [← h.2]

theorem advance_keeps [FrameB I] (n : Int) : Keeps I (advance n) :=
  Keeps.of_nodes fun s a s' h => by
    unfold advance at h
    cases hr : s.r.advance n with
    | error x => simp [hr, bind, Except.bind] at h
    | ok v => simp only [hr, bind, Except.bind, pure, Except.pure, Except.ok.injEq, Prod.mk.injEq] at h; rw [← h.2]

theorem advanceAndSetPadding_keeps [FrameB I] (n p : Int) : Keeps I (advanceAndSetPadding n p) :=
  Keeps.of_nodes fun s a s' h => by
    unfold advanceAndSetPadding at h
    cases hr : s.r.advanceAndSetPadding n p with
    | error x => simp [hr, bind, Except.bind] at h
    | ok v => simp only [hr, bind, Except.bind, pure, Except.pure, Except.ok.injEq, Prod.mk.injEq] at h; rw [← h.2]

theorem skipBlankLinesR_keeps [FrameB I] : Keeps I skipBlankLinesR :=
  Keeps.of_nodes fun s a s' h => by
    unfold skipBlankLinesR at h
    cases hr : skipBlankLines readerOps (loopFuel s.r.source) 0 s.r with
    | error x => simp [hr, bind, Except.bind] at h
    | ok v => simp only [hr, bind, Except.bind, pure, Except.pure, Except.ok.injEq, Prod.mk.injEq] at h; rw [← h.2]

/-- a write to one node that keeps its kind and adds no child -/
theorem modNode_keeps [FrameB I] (id : Nat) (f : Blocks.Node → Blocks.Node)
    (hf : ∀ n, (f n).kind = n.kind ∧ ∀ x ∈ (f n).children, x ∈ n.children) : Keeps I (modNode id f) := by
  constructor
  intro s a s' hs h
  cases h
  exact FrameB.mod s id f hf hs

/-- a new node without children -/
theorem newNode_keeps [FrameB I] (n : Blocks.Node) (hn : n.children = []) : Keeps I (newNode n) := by
  constructor
  intro s a s' hs h
  cases h
  exact FrameB.new s n hn hs

theorem appendLine_keeps [FrameB I] (id : Nat) (seg : Segment) : Keeps I (appendLine id seg) :=
  modNode_keeps _ _ fun _ => ⟨rfl, fun _ h => h⟩

macro "keeps_step" : tactic =>
  `(tactic| first
    | with_reducible apply Keeps.pure
    | with_reducible apply Keeps.bind
    | with_reducible apply Keeps.ite
    | with_reducible apply Keeps.throw
    | with_reducible apply getNode_keeps
    | with_reducible apply getPc_keeps
    | with_reducible apply source_keeps
    | with_reducible apply position_keeps
    | with_reducible apply get_keeps
    | with_reducible apply modPc_keeps
    | with_reducible apply advanceLine_keeps
    | with_reducible apply setPosition_keeps
    | with_reducible apply liftE_keeps
    | with_reducible apply peekLine_keeps
    | with_reducible apply lineOffset_keeps
    | with_reducible apply advance_keeps
    | with_reducible apply advanceAndSetPadding_keeps
    | with_reducible apply skipBlankLinesR_keeps
    | with_reducible apply appendLine_keeps
    | ((with_reducible apply modNode_keeps); exact fun _ => ⟨rfl, fun _ h => h⟩)
    | ((with_reducible apply modNode_keeps); exact fun _ => ⟨rfl, fun _ h => List.mem_of_mem_erase h⟩)
    | ((with_reducible apply newNode_keeps); rfl)
    | apply_hyp
    | intro _
    | split)

/-- walk over an `M` do block -/
macro "keeps" : tactic => `(tactic| repeat' keeps_step)

/-! ### the invariant family `LCA A` -/

/-- a side fact that every step keeps: blind to reader and context, kept by kind-preserving writes and by allocation -/
class Stable (A : St → Prop) : Prop where
  ronly : ∀ (s : St) (r : Reader) (pc : Ctx), A s → A { s with r := r, pc := pc }
  mod : ∀ (s : St) (id : Nat) (f : Blocks.Node → Blocks.Node), (∀ n, (f n).kind = n.kind) → A s →
    A { s with nodes := s.nodes.set id (f (s.nodes.getD id default)) }
  new : ∀ (s : St) (n : Blocks.Node), A s → A { s with nodes := s.nodes ++ [n] }

def LCA (A : St → Prop) (s : St) : Prop := LC s ∧ A s

theorem getD_set (l : List Blocks.Node) (id j : Nat) (x : Blocks.Node) :
    (l.set id x).getD j default = if j = id ∧ id < l.length then x else l.getD j default := by
  simp only [List.getD_eq_getElem?_getD, List.getElem?_set]
  by_cases h : id = j
  · subst h
    by_cases h2 : id < l.length
    · simp [h2]
    · simp [h2, List.getElem?_eq_none (Nat.le_of_not_lt h2)]
  · have h' : ¬ j = id := fun e => h e.symm
    simp [h, h']

theorem getD_append (l : List Blocks.Node) (n : Blocks.Node) (j : Nat) :
    (l ++ [n]).getD j default = if j < l.length then l.getD j default else if j = l.length then n else default := by
  simp only [List.getD_eq_getElem?_getD]
  by_cases h : j < l.length
  · simp [h, List.getElem?_append_left h]
  · by_cases h2 : j = l.length
    · subst h2; simp
    · have : l.length + 1 ≤ j := by omega
      simp [h, h2, List.getElem?_eq_none (l := l ++ [n]) (by simp; omega)]

theorem default_children : (default : Blocks.Node).children = [] := rfl
theorem default_kind : (default : Blocks.Node).kind = .document := rfl

/-- a write that keeps kinds and adds no child keeps `LC` -/
theorem LC.mod {s : St} (h : LC s) (id : Nat) (f : Blocks.Node → Blocks.Node)
    (hf : ∀ n, (f n).kind = n.kind ∧ ∀ x ∈ (f n).children, x ∈ n.children) :
    LC { s with nodes := s.nodes.set id (f (s.nodes.getD id default)) } := by
  have hk : ∀ j, (({ s with nodes := s.nodes.set id (f (s.nodes.getD id default)) } : St).nodes.getD j default).kind =
      (s.nodes.getD j default).kind := by
    intro j
    show ((s.nodes.set id (f (s.nodes.getD id default))).getD j default).kind = _
    rw [getD_set]
    split
    · rename_i hj; rw [hj.1]; exact (hf _).1
    · rfl
  intro i c hc
  have hc0 : c ∈ (s.nodes.getD i default).children := by
    have : (({ s with nodes := s.nodes.set id (f (s.nodes.getD id default)) } : St).nodes.getD i default) =
        if i = id ∧ id < s.nodes.length then f (s.nodes.getD id default) else s.nodes.getD i default := getD_set _ _ _ _
    rw [this] at hc
    split at hc
    · rename_i hi; rw [hi.1]; exact (hf _).2 c hc
    · exact hc
  obtain ⟨h1, h2⟩ := h i c hc0
  refine ⟨by simpa using h1, ?_⟩
  rw [hk c, hk i]
  exact h2

/-- a new childless node keeps `LC` -/
theorem LC.new {s : St} (h : LC s) (n : Blocks.Node) (hn : n.children = []) : LC { s with nodes := s.nodes ++ [n] } := by
  intro i c hc
  have e : ∀ j, (({ s with nodes := s.nodes ++ [n] } : St).nodes.getD j default) =
      if j < s.nodes.length then s.nodes.getD j default else if j = s.nodes.length then n else default :=
    fun j => getD_append _ _ _
  rw [e i] at hc
  by_cases hi : i < s.nodes.length
  · rw [if_pos hi] at hc
    obtain ⟨h1, h2⟩ := h i c hc
    refine ⟨by simp; omega, ?_⟩
    rw [e c, e i, if_pos hi, if_pos h1]
    exact h2
  · rw [if_neg hi] at hc
    split at hc
    · rw [hn] at hc; cases hc
    · rw [default_children] at hc; cases hc

/-- adding a good edge keeps `LC` -/
theorem LC.edge {s : St} (h : LC s) (p c : Nat) (g : List Nat → List Nat) (hg : ∀ l x, x ∈ g l → x ∈ l ∨ x = c)
    (he : EdgeGood c p s) :
    LC { s with nodes := s.nodes.set p ((fun n : Blocks.Node => { n with children := g n.children }) (s.nodes.getD p default)) } := by
  have hk : ∀ j, (({ s with nodes := s.nodes.set p ((fun n : Blocks.Node => { n with children := g n.children })
      (s.nodes.getD p default)) } : St).nodes.getD j default).kind = (s.nodes.getD j default).kind := by
    intro j
    show ((s.nodes.set p _).getD j default).kind = _
    rw [getD_set]
    split
    · rename_i hj; rw [hj.1]
    · rfl
  intro i x hx
  have e : (({ s with nodes := s.nodes.set p ((fun n : Blocks.Node => { n with children := g n.children })
      (s.nodes.getD p default)) } : St).nodes.getD i default) =
      if i = p ∧ p < s.nodes.length then (fun n : Blocks.Node => { n with children := g n.children }) (s.nodes.getD p default)
      else s.nodes.getD i default := getD_set _ _ _ _
  rw [e] at hx
  rw [hk x, hk i]
  have hlen : (({ s with nodes := s.nodes.set p ((fun n : Blocks.Node => { n with children := g n.children })
      (s.nodes.getD p default)) } : St).nodes.length) = s.nodes.length := by simp
  rw [hlen]
  split at hx
  · rename_i hi
    rcases hg _ x hx with h1 | h1
    · rw [hi.1]; exact h p x h1
    · rw [h1, hi.1]; exact he
  · exact h i x hx

instance instFrameB {A : St → Prop} [Stable A] : FrameB (LCA A) where
  ronly := fun s r pc hs => ⟨hs.1, Stable.ronly s r pc hs.2⟩
  mod := fun s id f hf hs => ⟨hs.1.mod id f hf, Stable.mod s id f (fun n => (hf n).1) hs.2⟩
  new := fun s n hn hs => ⟨hs.1.new n hn, Stable.new s n hs.2⟩

/-- the two edge-adding writes of ast.go, given that the side fact makes the edge good -/
theorem edge_keeps {A : St → Prop} [Stable A] (p c : Nat) (g : List Nat → List Nat)
    (hg : ∀ l x, x ∈ g l → x ∈ l ∨ x = c) (he : ∀ s, A s → EdgeGood c p s) :
    Keeps (LCA A) (modNode p fun n => { n with children := g n.children }) := by
  constructor
  intro s a s' hs h
  cases h
  exact ⟨hs.1.edge p c g hg (he s hs.2), Stable.mod s p (fun n => { n with children := g n.children }) (fun _ => rfl) hs.2⟩

theorem mem_insertBeforeIn (v ins : Nat) : ∀ (l : List Nat) (x : Nat), x ∈ insertBeforeIn v ins l → x ∈ l ∨ x = ins
  | [], x, h => by simp only [insertBeforeIn, List.mem_singleton] at h; exact .inr h
  | a :: rest, x, h => by
    simp only [insertBeforeIn] at h
    split at h
    · simp only [List.mem_cons] at h
      rcases h with h | h | h
      · exact .inr h
      · exact .inl (by simp [h])
      · exact .inl (by simp [h])
    · simp only [List.mem_cons] at h
      rcases h with h | h
      · exact .inl (by simp [h])
      · rcases mem_insertBeforeIn v ins rest x h with h' | h'
        · exact .inl (by simp [h'])
        · exact .inr h'

/-! ### side facts -/

/-- node `id` exists and is no ListItem -/
def NotItem (id : Nat) (s : St) : Prop := id < s.nodes.length ∧ (s.nodes.getD id default).kind ≠ .listItem

/-- node `p` exists and is a List -/
def IsList (p : Nat) (s : St) : Prop := p < s.nodes.length ∧ (s.nodes.getD p default).kind = .list

theorem kind_set (s : St) (id : Nat) (f : Blocks.Node → Blocks.Node) (hf : ∀ n, (f n).kind = n.kind) (j : Nat) :
    ((s.nodes.set id (f (s.nodes.getD id default))).getD j default).kind = (s.nodes.getD j default).kind := by
  rw [getD_set]
  split
  · rename_i hj; rw [hj.1]; exact hf _
  · rfl

theorem kind_append (s : St) (n : Blocks.Node) (j : Nat) (hj : j < s.nodes.length) :
    ((s.nodes ++ [n]).getD j default).kind = (s.nodes.getD j default).kind := by
  rw [getD_append, if_pos hj]

instance stableTrue : Stable (fun _ => True) := ⟨fun _ _ _ _ => trivial, fun _ _ _ _ _ => trivial, fun _ _ _ => trivial⟩

instance stableAnd {A B : St → Prop} [Stable A] [Stable B] : Stable (fun s => A s ∧ B s) where
  ronly := fun s r pc h => ⟨Stable.ronly s r pc h.1, Stable.ronly s r pc h.2⟩
  mod := fun s id f hf h => ⟨Stable.mod s id f hf h.1, Stable.mod s id f hf h.2⟩
  new := fun s n h => ⟨Stable.new s n h.1, Stable.new s n h.2⟩

instance stableOr {A B : St → Prop} [Stable A] [Stable B] : Stable (fun s => A s ∨ B s) where
  ronly := fun s r pc h => h.imp (Stable.ronly s r pc) (Stable.ronly s r pc)
  mod := fun s id f hf h => h.imp (Stable.mod s id f hf) (Stable.mod s id f hf)
  new := fun s n h => h.imp (Stable.new s n) (Stable.new s n)

instance stableNotItem (id : Nat) : Stable (NotItem id) where
  ronly := fun _ _ _ h => h
  mod := fun s i f hf h => ⟨by simpa using h.1, by rw [kind_set s i f hf]; exact h.2⟩
  new := fun s n h => ⟨by have := h.1; simp; omega, by rw [kind_append s n id h.1]; exact h.2⟩

instance stableIsList (p : Nat) : Stable (IsList p) where
  ronly := fun _ _ _ h => h
  mod := fun s i f hf h => ⟨by simpa using h.1, by rw [kind_set s i f hf]; exact h.2⟩
  new := fun s n h => ⟨by have := h.1; simp; omega, by rw [kind_append s n p h.1]; exact h.2⟩

/-- a side fact under a constant hypothesis -/
instance stableImp (P : Prop) {A : St → Prop} [Stable A] : Stable (fun s => P → A s) where
  ronly := fun s r pc h hp => Stable.ronly s r pc (h hp)
  mod := fun s id f hf h hp => Stable.mod s id f hf (h hp)
  new := fun s n h hp => Stable.new s n (h hp)

instance stableForall {ι : Type} {A : ι → St → Prop} [∀ i, Stable (A i)] : Stable (fun s => ∀ i, A i s) where
  ronly := fun s r pc h i => Stable.ronly s r pc (h i)
  mod := fun s id f hf h i => Stable.mod s id f hf (h i)
  new := fun s n h i => Stable.new s n (h i)

theorem edgeGood_of_notItem {c p : Nat} {s : St} (h : NotItem c s) : EdgeGood c p s := ⟨h.1, fun hk => absurd hk h.2⟩

theorem edgeGood_of_isList {c p : Nat} {s : St} (hc : c < s.nodes.length) (h : IsList p s) : EdgeGood c p s := ⟨hc, fun _ => h.2⟩

/-- **allocation with its post-condition**: behind `newNode n` of a kind other than ListItem the new node `id` is known to
    be no ListItem -/
theorem newNode_bind {A : St → Prop} [Stable A] {β : Type} (n : Blocks.Node) (k : Nat → M β) (hn : n.children = [])
    (hk : n.kind ≠ .listItem) (h : ∀ id, Keeps (LCA (fun s => A s ∧ NotItem id s)) (k id)) :
    Keeps (LCA A) (newNode n >>= k) := by
  constructor
  intro s b s'' hs hm
  simp only [bind, StateT.bind, newNode, pure, Except.pure, Except.bind] at hm
  have h1 : LCA (fun t => A t ∧ NotItem s.nodes.length t) ({ s with nodes := s.nodes ++ [n] } : St) := by
    refine ⟨hs.1.new n hn, Stable.new s n hs.2, by simp, ?_⟩
    show ((s.nodes ++ [n]).getD s.nodes.length default).kind ≠ .listItem
    rw [getD_append, if_neg (Nat.lt_irrefl _), if_pos rfl]
    exact hk
  have := (h s.nodes.length).h _ b s'' h1 hm
  exact ⟨this.1, this.2.1⟩

/-- what `Open` of any block parser says about the node it answers: it exists; it is no ListItem, or (`listItemParser.Open`
    has checked `parent.(*ast.List)`) the parent is a List -/
def OpenPost (parent : Nat) (a : Option Nat × PState) (s : St) : Prop :=
  ∀ id, a.1 = some id → NotItem id s ∨ (id < s.nodes.length ∧ IsList parent s)

theorem listItemOpen_list {parent : Nat} {s s' : St} {a : Option Nat × PState} (h : listItemOpen parent s = .ok (a, s'))
    {id : Nat} (ha : a.1 = some id) : (s.nodes.getD parent default).kind = .list := by
  by_cases hk : (s.nodes.getD parent default).kind = .list
  · exact hk
  · exfalso
    unfold listItemOpen at h
    simp only [bind, StateT.bind, getNode, pure, StateT.pure, Except.pure, Except.bind] at h
    rw [if_pos (by simpa using hk)] at h
    cases h
    cases ha

theorem kindOf_ne_item {bp : BP} (h : bp ≠ .listItem) : GM.ConvertH.BP.kindOf bp ≠ .listItem := by
  cases bp <;> simp [GM.ConvertH.BP.kindOf] at h ⊢

theorem bpOpen_post (bp : BP) (parent : Nat) (s s' : St) (a : Option Nat × PState) (h : bpOpen bp parent s = .ok (a, s')) :
    OpenPost parent a s' := by
  obtain ⟨lr, hid⟩ := (GM.ConvertH.bpOpen_oj bp parent).h s a s' h
  intro id ha
  obtain ⟨_, h2, h3⟩ := hid id ha
  by_cases hb : bp = .listItem
  · subst hb
    right
    have hl : (s.nodes.getD parent default).kind = .list := listItemOpen_list (by simpa [bpOpen] using h) ha
    have hp : parent < s.nodes.length := by
      rcases Nat.lt_or_ge parent s.nodes.length with h' | h'
      · exact h'
      · rw [List.getD_eq_getElem?_getD, List.getElem?_eq_none h'] at hl; cases hl
    exact ⟨h2, Nat.lt_of_lt_of_le hp lr.len, by
      have := lr.kind parent hp
      simp only [GM.ConvertH.ndx] at this
      rw [this]; exact hl⟩
  · left
    refine ⟨h2, ?_⟩
    simp only [GM.ConvertH.ndx] at h3
    rw [h3]
    exact kindOf_ne_item hb

instance stableOpenPost (parent : Nat) (a : Option Nat × PState) : Stable (OpenPost parent a) := by
  unfold OpenPost
  have : ∀ id, Stable (fun s => a.1 = some id → NotItem id s ∨ (id < s.nodes.length ∧ IsList parent s)) := by
    intro id
    have : Stable (fun s : St => id < s.nodes.length) :=
      ⟨fun _ _ _ h => h, fun s i f _ h => by simpa using h, fun s n h => by have := h; simp; omega⟩
    exact inferInstance
  exact inferInstance

theorem edgeGood_of_openPost {parent id : Nat} {a : Option Nat × PState} {s : St} (h : OpenPost parent a s)
    (ha : a.1 = some id) : EdgeGood id parent s := by
  rcases h id ha with h1 | ⟨h1, h2⟩
  · exact edgeGood_of_notItem h1
  · exact edgeGood_of_isList h1 h2

/-- `keeps` that knows the post-condition of `newNode` and tries the hypotheses first -/
macro "keepsN_step" : tactic =>
  `(tactic| first
    | (exact fun _ h => edgeGood_of_notItem h.2)
    | (exact fun _ h => edgeGood_of_openPost h.2 rfl)
    | apply_hyp
    | (refine newNode_bind _ _ rfl (by intro h; cases h) ?_)
    | keeps_step)

macro "keepsN" : tactic => `(tactic| repeat' keepsN_step)

/-! ### tree surgery -/

section walk

variable {A : St → Prop} [Stable A]
local notation "I" => LCA A


theorem lastOpenedBlock_keeps : Keeps I lastOpenedBlock := by
  unfold lastOpenedBlock; keeps

theorem removeChild_keeps (p c : Nat) : Keeps I (removeChild p c) := by
  unfold removeChild; keeps

theorem ensureIsolated_keeps (c : Nat) : Keeps I (ensureIsolated c) := by
  have := removeChild_keeps (A := A)
  unfold ensureIsolated; keeps

theorem appendChild_keeps (p c : Nat) (he : ∀ s, A s → EdgeGood c p s) : Keeps I (appendChild p c) := by
  have := ensureIsolated_keeps (A := A)
  have := edge_keeps (A := A) p c (fun l => l ++ [c]) (fun l x hx => by
    rcases List.mem_append.1 hx with h | h
    · exact .inl h
    · exact .inr (by simpa using h)) he
  unfold appendChild; keeps

theorem insertBefore_keeps (p : Nat) (v1 : Option Nat) (ins : Nat) (he : ∀ s, A s → EdgeGood ins p s) :
    Keeps I (insertBefore p v1 ins) := by
  have := ensureIsolated_keeps (A := A)
  have := appendChild_keeps (A := A) p ins he
  have hb := fun v => edge_keeps (A := A) p ins (insertBeforeIn v ins) (mem_insertBeforeIn v ins) he
  unfold insertBefore; keeps

theorem nextSibling_keeps (c : Nat) : Keeps I (nextSibling c) := by
  unfold nextSibling; keeps

theorem insertAfter_keeps (p : Nat) (v1 : Option Nat) (ins : Nat) (he : ∀ s, A s → EdgeGood ins p s) :
    Keeps I (insertAfter p v1 ins) := by
  have := appendChild_keeps (A := A) p ins he
  have := nextSibling_keeps (A := A)
  have := fun v => insertBefore_keeps (A := A) p v ins he
  unfold insertAfter; keeps

theorem replaceChild_keeps (p v1 ins : Nat) (he : ∀ s, A s → EdgeGood ins p s) : Keeps I (replaceChild p v1 ins) := by
  have := fun v => insertBefore_keeps (A := A) p v ins he
  have := removeChild_keeps (A := A)
  unfold replaceChild; keeps

/-! ### the ten block parsers -/

theorem paragraphOpen_keeps (p : Nat) : Keeps I (paragraphOpen p) := by
  unfold paragraphOpen; keeps

theorem paragraphContinue_keeps (n : Nat) : Keeps I (paragraphContinue n) := by
  unfold paragraphContinue; keeps

theorem paragraphClose_keeps (n : Nat) : Keeps I (paragraphClose n) := by
  have := removeChild_keeps (A := A)
  unfold paragraphClose; keeps

theorem thematicOpen_keeps (p : Nat) : Keeps I (thematicOpen p) := by
  unfold thematicOpen; keeps

theorem atxOpen_keeps (p : Nat) : Keeps I (atxOpen p) := by
  unfold atxOpen; keeps

theorem setextOpen_keeps (p : Nat) : Keeps I (setextOpen p) := by
  have := lastOpenedBlock_keeps (A := A)
  unfold setextOpen; keeps

/-- setext_headings.go:100-104: the paragraph put behind the heading is fresh -/
theorem setextClose_keeps (n : Nat) : Keeps I (setextClose n) := by
  have h1 := @removeChild_keeps
  have h2 := @insertAfter_keeps
  have h3 := @nextSibling_keeps
  unfold setextClose; keepsN

theorem preserveLeadingTab_keeps (seg : Segment) (ind : Int) : Keeps I (preserveLeadingTab seg ind) := by
  unfold preserveLeadingTab; keeps

theorem codeTakeLine_keeps (n : Nat) (pos padding : Int) : Keeps I (codeTakeLine n pos padding) := by
  have := preserveLeadingTab_keeps (A := A)
  unfold codeTakeLine; keeps

theorem codeOpen_keeps (p : Nat) : Keeps I (codeOpen p) := by
  have := codeTakeLine_keeps (A := A)
  unfold codeOpen; keeps

theorem codeContinue_keeps (n : Nat) : Keeps I (codeContinue n) := by
  have := codeTakeLine_keeps (A := A)
  unfold codeContinue; keeps

theorem codeClose_keeps (n : Nat) : Keeps I (codeClose n) := by
  unfold codeClose; keeps

theorem fencedOpen_keeps (p : Nat) : Keeps I (fencedOpen p) := by
  unfold fencedOpen; keeps

theorem fencedContinue_keeps (n : Nat) : Keeps I (fencedContinue n) := by
  have := preserveLeadingTab_keeps (A := A)
  unfold fencedContinue; keeps

theorem fencedClose_keeps (n : Nat) : Keeps I (fencedClose n) := by
  unfold fencedClose; keeps

theorem blockquoteProcess_keeps : Keeps I blockquoteProcess := by
  unfold blockquoteProcess; keeps

theorem blockquoteOpen_keeps (p : Nat) : Keeps I (blockquoteOpen p) := by
  have := blockquoteProcess_keeps (A := A)
  unfold blockquoteOpen; keeps

theorem blockquoteContinue_keeps (n : Nat) : Keeps I (blockquoteContinue n) := by
  have := blockquoteProcess_keeps (A := A)
  unfold blockquoteContinue; keeps

theorem lastOffset_keeps (n : Nat) : Keeps I (lastOffset n) := by
  unfold lastOffset; keeps

theorem lastChildCount_keeps (n : Nat) : Keeps I (lastChildCount n) := by
  unfold lastChildCount; keeps

theorem listOpen_keeps (p : Nat) : Keeps I (listOpen p) := by
  have := lastOpenedBlock_keeps (A := A)
  unfold listOpen; keeps

theorem listContinue_keeps (n : Nat) : Keeps I (listContinue n) := by
  have := lastOpenedBlock_keeps (A := A)
  have := lastOffset_keeps (A := A)
  have := lastChildCount_keeps (A := A)
  unfold listContinue; keeps

/-- list.go:268-276: the TextBlock that replaces a Paragraph is fresh -/
theorem tightenItem_keeps : ∀ (gcs : List Nat) (A : St → Prop) [Stable A] (child : Nat), Keeps (LCA A) (tightenItem child gcs)
  | [], A, _, child => by unfold tightenItem; keeps
  | gc :: gcs, A, _, child => by
    have ih := tightenItem_keeps gcs
    have h2 := @replaceChild_keeps
    unfold tightenItem; keepsN

theorem tightenItems_keeps (cs : List Nat) : Keeps I (tightenItems cs) := by
  have := fun c g => tightenItem_keeps g A c
  induction cs with
  | nil => unfold tightenItems; keeps
  | cons c cs ih => unfold tightenItems; keeps

theorem listClose_keeps (n : Nat) : Keeps I (listClose n) := by
  have := tightenItems_keeps (A := A)
  unfold listClose; keeps

theorem listItemOpen_keeps (p : Nat) : Keeps I (listItemOpen p) := by
  have := lastOffset_keeps (A := A)
  unfold listItemOpen; keeps

theorem listItemContinue_keeps (n : Nat) : Keeps I (listItemContinue n) := by
  have := lastOffset_keeps (A := A)
  unfold listItemContinue; keeps

theorem htmlOpen_keeps (p : Nat) : Keeps I (htmlOpen p) := by
  have := lastOpenedBlock_keeps (A := A)
  unfold htmlOpen; keeps

theorem htmlContinue_keeps (n : Nat) : Keeps I (htmlContinue n) := by
  unfold htmlContinue; keeps

theorem bpOpen_keeps (bp : BP) (p : Nat) : Keeps I (bpOpen bp p) := by
  cases bp <;> unfold bpOpen
  · exact setextOpen_keeps p
  · exact thematicOpen_keeps p
  · exact listOpen_keeps p
  · exact listItemOpen_keeps p
  · exact codeOpen_keeps p
  · exact atxOpen_keeps p
  · exact fencedOpen_keeps p
  · exact blockquoteOpen_keeps p
  · exact htmlOpen_keeps p
  · exact paragraphOpen_keeps p

/-- **`Open` with its post-condition** -/
theorem bpOpen_bind {β : Type} (bp : BP) (parent : Nat) (k : Option Nat × PState → M β)
    (h : ∀ a, Keeps (LCA (fun s => A s ∧ OpenPost parent a s)) (k a)) : Keeps I (bpOpen bp parent >>= k) := by
  constructor
  intro s b s'' hs hm
  simp only [bind, StateT.bind, Except.bind] at hm
  cases ho : bpOpen bp parent s with
  | error e => rw [ho] at hm; cases hm
  | ok x =>
    obtain ⟨a, s1⟩ := x
    rw [ho] at hm
    have h1 := (bpOpen_keeps (A := A) bp parent).h s a s1 hs ho
    have := (h a).h s1 b s'' ⟨h1.1, h1.2, bpOpen_post bp parent s s1 a ho⟩ hm
    exact ⟨this.1, this.2.1⟩

theorem bpContinue_keeps (bp : BP) (n : Nat) : Keeps I (bpContinue bp n) := by
  cases bp <;> unfold bpContinue
  · exact Keeps.pure _
  · exact Keeps.pure _
  · exact listContinue_keeps n
  · exact listItemContinue_keeps n
  · exact codeContinue_keeps n
  · exact Keeps.pure _
  · exact fencedContinue_keeps n
  · exact blockquoteContinue_keeps n
  · exact htmlContinue_keeps n
  · exact paragraphContinue_keeps n

theorem bpClose_keeps (bp : BP) (n : Nat) : Keeps I (bpClose bp n) := by
  cases bp <;> unfold bpClose
  · exact setextClose_keeps n
  · exact Keeps.pure _
  · exact listClose_keeps n
  · exact Keeps.pure _
  · exact codeClose_keeps n
  · exact Keeps.pure _
  · exact fencedClose_keeps n
  · exact Keeps.pure _
  · exact Keeps.pure _
  · exact paragraphClose_keeps n

/-! ### the driver with paragraph transformers -/

theorem transformParagraph_keeps : ∀ (pts : List PT), PTsKeep I pts → ∀ n, Keeps I (transformParagraph pts n)
  | [], _, n => by unfold transformParagraph; keeps
  | pt :: pts, hp, n => by
    have h1 : ∀ n, Keeps I (pt n) := hp pt (List.mem_cons_self ..)
    have h2 := transformParagraph_keeps pts (fun q hq => hp q (List.mem_cons_of_mem _ hq))
    unfold transformParagraph; keeps

theorem toContinuable_keeps (cont : Bool) (result : OpenResult) (lb : Option Block) :
    Keeps I (toContinuable cont result lb) := by
  have := bpContinue_keeps (A := A)
  unfold toContinuable; keeps

section driver
variable {pts : List PT} (hp : ∀ (B : St → Prop) [Stable B], PTsKeep (LCA B) pts)
include hp

theorem closeLoopT_keeps (blocks : List Block) (to : Int) (k : Nat) : Keeps I (closeLoopT pts blocks to k) := by
  have := bpClose_keeps (A := A)
  have := transformParagraph_keeps (A := A) pts (hp A)
  induction k with
  | zero => unfold closeLoopT; keeps
  | succ k ih => unfold closeLoopT; keeps

theorem closeBlocksT_keeps (frm to : Int) : Keeps I (closeBlocksT pts frm to) := by
  have := closeLoopT_keeps (A := A) hp
  unfold closeBlocksT; keeps

theorem requireParaT_keeps (parent : Nat) (last : Option Nat) (lastBlock : Option Block) :
    Keeps I (requireParaT pts parent last lastBlock) := by
  have := bpClose_keeps (A := A)
  have := transformParagraph_keeps (A := A) pts (hp A)
  unfold requireParaT; keeps

/-- parser.go:960-1014: the node that is appended to `parent` is the one `Open` has just answered -/
theorem tryParsersT_keeps (parent : Nat) (blankLine continuable : Bool) (w : Int) :
    ∀ (bps : List BP) (A : St → Prop) [Stable A] (result : OpenResult) (lastBlock : Option Block),
      Keeps (LCA A) (tryParsersT pts parent blankLine continuable w bps result lastBlock)
  | [], A, _, result, lastBlock => by unfold tryParsersT; keeps
  | bp :: bps, A, _, result, lastBlock => by
    have ih := tryParsersT_keeps parent blankLine continuable w bps
    have h1 := fun (B : St → Prop) [Stable B] => requireParaT_keeps (A := B) hp
    have h2 := fun (B : St → Prop) [Stable B] => closeBlocksT_keeps (A := B) hp
    have h3 := @appendChild_keeps
    have h4 := @lastOpenedBlock_keeps
    unfold tryParsersT
    refine Keeps.ite (fun _ => ih A result lastBlock) (fun _ => ?_)
    refine Keeps.ite (fun _ => ih A result lastBlock) (fun _ => ?_)
    refine Keeps.bind (lastOpenedBlock_keeps (A := A)) (fun lb => ?_)
    refine bpOpen_bind bp parent _ (fun a => ?_)
    keepsN

theorem retryStepT_keeps (blank tdone cont : Bool) (parent : Nat) (w : Int) (bps : List BP) (result : OpenResult)
    (lb : Option Block) (again : Bool → Bool → Nat → OpenResult → Option Block → M OpenResult)
    (hk : ∀ td c p r l, Keeps I (again td c p r l)) :
    Keeps I (retryStepT pts blank tdone cont parent w bps result lb again) := by
  have := fun p b c w bps r l => tryParsersT_keeps (pts := pts) hp p b c w bps A r l
  have := toContinuable_keeps (A := A)
  unfold retryStepT; keeps

theorem openBlocksLoopT_keeps (blank : Bool) : ∀ (fuel : Nat) (tdone cont : Bool) (parent : Nat) (result : OpenResult)
    (lb : Option Block), Keeps I (openBlocksLoopT pts blank fuel tdone cont parent result lb) := by
  intro fuel
  induction fuel with
  | zero => intro _ _ _ _ _; unfold openBlocksLoopT; keeps
  | succ fuel ih =>
    intro tdone cont parent result lb
    have := toContinuable_keeps (A := A)
    have := fun bl td c p w bps r l => retryStepT_keeps (A := A) hp bl td c p w bps r l (openBlocksLoopT pts blank fuel) ih
    unfold openBlocksLoopT; keeps

theorem openBlocksT_keeps (parent : Nat) (blank : Bool) : Keeps I (openBlocksT pts parent blank) := by
  have := lastOpenedBlock_keeps (A := A)
  have := openBlocksLoopT_keeps (A := A) hp
  unfold openBlocksT; keeps

theorem lineLoopT_keeps (parent : Nat) (ob : List Block) (li : Int) (rest : List Block) (i : Int) (bl : List LineStat) :
    Keeps I (lineLoopT pts parent ob li rest i bl) := by
  have := closeBlocksT_keeps (A := A) hp
  have := bpContinue_keeps (A := A)
  have := openBlocksT_keeps (A := A) hp
  induction rest generalizing i bl with
  | nil => unfold lineLoopT; keeps
  | cons be rest ih => unfold lineLoopT; keeps

theorem linesLoopT_keeps (parent : Nat) : ∀ (fuel : Nat) (bl : List LineStat), Keeps I (linesLoopT pts parent fuel bl) := by
  intro fuel
  induction fuel with
  | zero => intro _; unfold linesLoopT; keeps
  | succ fuel ih =>
    intro bl
    have := lineLoopT_keeps (A := A) hp
    unfold linesLoopT; keeps

theorem blocksLoopT_keeps (parent : Nat) : ∀ (fuel : Nat) (bl : List LineStat), Keeps I (blocksLoopT pts parent fuel bl) := by
  intro fuel
  induction fuel with
  | zero => intro _; unfold blocksLoopT; keeps
  | succ fuel ih =>
    intro bl
    have := openBlocksT_keeps (A := A) hp
    have := linesLoopT_keeps (A := A) hp
    unfold blocksLoopT; keeps

theorem parseBlocksT_keeps (parent : Nat) : Keeps I (parseBlocksT pts parent) := by
  have := blocksLoopT_keeps (A := A) hp
  unfold parseBlocksT; keeps

end driver

/-- **generic whole-run theorem**: a frame invariant that holds initially holds of the store the block phase returns, for
    every source and every list of paragraph transformers that keep it -/
theorem runT_keeps {pts : List PT} (hp : ∀ (B : St → Prop) [Stable B], PTsKeep (LCA B) pts) (src : Bytes) (h0 : I (initSt src)) (st : St)
    (h : runT pts src = .ok st) : I st := by
  unfold runT at h
  cases hr : parseBlocksT pts 0 (initSt src) with
  | error e => simp [hr, Except.map] at h
  | ok x =>
    simp only [hr, Except.map, Except.ok.injEq] at h
    subst h
    exact (parseBlocksT_keeps hp 0).h _ x.1 x.2 h0 hr

/-! ### the link-reference paragraph transformer -/

theorem transformFinish_keeps (node : Nat) (n : Blocks.Node) (removes : List (Int × Int)) (refs : GM.LinkRef.RefMap) :
    Keeps I (GM.LinkRef.transformFinish node n removes refs) := by
  have h2 := @replaceChild_keeps
  unfold GM.LinkRef.transformFinish; keepsN

theorem transform_keeps (node : Nat) : Keeps I (GM.LinkRef.transform node) := by
  have := transformFinish_keeps (A := A)
  unfold GM.LinkRef.transform; keeps

theorem guardedTransform_keeps (node : Nat) : Keeps I (GM.LinkRef.guardedTransform node) := by
  have := transform_keeps (A := A)
  unfold GM.LinkRef.guardedTransform; keeps

end walk

end GM.E2E.LI

namespace GM.E2E.LI
open GM GM.Text GM.Blocks GM.E2E

theorem lc_init (src : Bytes) : LC (initSt src) := by
  intro i c hc
  exfalso
  cases i with
  | zero => simp [initSt] at hc
  | succ k =>
    simp only [initSt, List.getD_eq_getElem?_getD, List.getElem?_cons_succ, List.getElem?_nil, Option.getD_none] at hc
    rw [default_children] at hc
    cases hc

/-- the paragraph transformers of `blockPhase guard` keep the invariant family -/
theorem paragraphTransformers_keep (guard : Bool) :
    ∀ (B : St → Prop) [Stable B], PTsKeep (LCA B) (GM.Convert.paragraphTransformers guard) := by
  intro B _ pt hpt n
  simp only [GM.Convert.paragraphTransformers, List.mem_singleton] at hpt
  subst hpt
  split
  · exact guardedTransform_keeps n
  · exact transform_keeps n

/-- **a ListItem is only ever a child of a List** (and every child index is a node of the store), in the store the block
    phase returns — for every source and every list of paragraph transformers that keep the invariant family -/
theorem runT_lc {pts : List PT} (hp : ∀ (B : St → Prop) [Stable B], PTsKeep (LCA B) pts) (src : Bytes) (st : St)
    (h : runT pts src = .ok st) : LC st :=
  (runT_keeps (A := fun _ => True) hp src ⟨lc_init src, trivial⟩ st h).1

theorem blockPhase_lc (guard : Bool) (src : Bytes) (st : St) (h : GM.Convert.blockPhase guard src = .ok st) : LC st :=
  runT_lc (paragraphTransformers_keep guard) src st h

theorem run_lc (src : Bytes) (st : St) (h : runT [] src = .ok st) : LC st :=
  runT_lc (fun _ _ _ hq => by cases hq) src st h

end GM.E2E.LI
