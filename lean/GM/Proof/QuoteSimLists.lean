/-
  GM.Proof.QuoteSimLists — C08 with LISTS in whole runs: the simulation with ALL TEN block parsers (`alAll`), for every
  source without tab and CR, not ending with a space, and WITHOUT A BLANK LINE (`FL`; class `C08ClassF`).

  What the three list-specific obligations come from:
    * the `HasBlankPreviousLines` flags `listParser.Close` reads (`FlagsOK`, hypothesis of `listClose_sim'`) and the
      ones the dump prints (`FlagsEq`, hypothesis of `quoteSimPair_eqL`): `NodeRel.blank` — in a source without a blank
      line every `openBlocks` call gets the same flag in both runs (GM.Proof.QuoteSimStats / QuoteSimFlags);
    * `ListItemContPre` (hypothesis of `listItemContinue_sim'`): run A's invariant in the middle of a pass, `Sh.MidA`,
      threaded through `lineLoop_sim`, from the invariant `StableL` of the no-panic proof at line boundaries
      (GM.Proof.QuoteSimMid, QuoteSimInvLI);
    * the unary invariants of the driver for the list parsers: `frames_lists` (GM.Proof.QuoteSimInvL/KL/PL).
  No list parser is "tried and declining" here: `TrigOK` holds by its first alternative.
-/
import GM.Proof.QuoteSimTop
import GM.Proof.QuoteSimFlags
import GM.Proof.QuoteSimBar

namespace GM.Blocks
open GM GM.Text GM.Spec GM.Proof.Reader

/-- all ten block parsers -/
def alAll : BP → Bool := fun _ => true

theorem ps_lists (src : Bytes) (hfl : FL src) : PS src alAll where
  open_ := by
    intro bp _
    cases bp with
    | setext => exact setextOpen_sim src
    | thematic => exact thematicOpen_sim src
    | list => exact listOpen_sim src
    | listItem => exact listItemOpen_sim src
    | code => exact codeOpen_sim src
    | atx => exact atxOpen_sim src
    | fenced => exact fencedOpen_sim src
    | blockquote => exact blockquoteOpen_sim src
    | html => exact htmlOpen_sim src
    | paragraph => exact paragraphOpen_sim src
  cont := by
    intro bp _ k ls p node sA sB hs hn0 ha hp hns hpre
    cases bp with
    | setext => exact contW (setextContinue_sim src) k ls p node sA sB hs
    | thematic => exact contW (thematicContinue_sim src) k ls p node sA sB hs
    | list => exact contW (listContinue_sim src) k ls p node sA sB hs
    | listItem =>
      exact S2.mono (listItemContinue_sim' src k ls p node sA sB hs hp (hpre rfl))
        (fun _ _ _ _ hh => ⟨hh.1, hh.2.choose, hh.2.choose_spec.2⟩)
    | code =>
      exact S2.mono (codeContinue_sim' src k ls p node sA sB hs hp)
        (fun _ _ _ _ hh => ⟨hh.1, hh.2.choose, hh.2.choose_spec.2⟩)
    | atx => exact contW (atxContinue_sim src) k ls p node sA sB hs
    | fenced =>
      exact S2.mono (fencedContinue_sim' src k ls p node sA sB hs ha.fence hns)
        (fun _ _ _ _ hh => ⟨hh.1, hh.2.choose, hh.2.choose_spec.2⟩)
    | blockquote => exact contW (blockquoteContinue_sim src) k ls p node sA sB hs
    | html =>
      exact S2.mono (htmlContinue_sim' src k ls p node sA sB hs hp)
        (fun _ _ _ _ hh => ⟨hh.1, hh.2.choose, hh.2.choose_spec.2⟩)
    | paragraph => exact contW (paragraphContinue_sim src) k ls p node sA sB hs
  close := by
    intro bp _ k ls p node sA sB hs hn0 ha hnr _
    cases bp with
    | setext => exact setextClose_sim' src k ls p node sA sB hs hn0 ha.tmp (hnr (.inr rfl))
    | thematic => exact thematicClose_sim src k ls p node sA sB hs
    | list => exact listClose_sim' src k ls p node sA sB hs (flagsOK_node hfl hs.n ha.u node)
    | listItem => exact listItemClose_sim src k ls p node sA sB hs
    | code => exact codeClose_sim src k ls p node sA sB hs
    | atx => exact atxClose_sim src k ls p node sA sB hs
    | fenced => exact fencedClose_sim src k ls p node sA sB hs
    | blockquote => exact blockquoteClose_sim src k ls p node sA sB hs
    | html => exact htmlClose_sim src k ls p node sA sB hs
    | paragraph => exact paragraphClose_sim' src k ls p node sA sB hs (hnr (.inl rfl))

/-- `OT` for every source: the paragraph / code block parsers open on a rest of line that is not blank; the clause about
    declining list parsers is only asked for sources in which no position starts a list item -/
theorem ot_lists (src : Bytes) : OT src where
  para := fun _ _ _ q _ _ _ _ h hnb e => paragraphOpen_opens q h hnb e
  code := fun _ _ _ q _ _ _ _ lo h hnb hw e => codeOpen_opens q lo h hnb hw e
  lsim := by
    intro bp hbp
    cases bp <;> first | exact listOpen_sim src | exact listItemOpen_sim src | cases hbp
  ldecl := fun bp hbp hno => (ot_all src hno).ldecl bp hbp hno
  sdecl := fun hnb k ls p q sA sB a sA' h e => ⟨(setextOpen_declines hnb q h e).1, (setextOpen_declines hnb q h e).2.1⟩

theorem trig_lists (src : Bytes) : TrigOK src alAll where
  free := fun _ _ => .inl rfl
  trig := fun _ _ _ _ => .inl rfl

/-! ### sources WITH blank lines: all parsers but the setext heading parser, which is tried and declines -/

/-- every block parser but the setext heading parser -/
def alNS : BP → Bool
  | .setext => false
  | _ => true

theorem ps_listsG (src : Bytes) : PS src alNS where
  open_ := by
    intro bp hal
    cases bp with
    | setext => cases hal
    | thematic => exact thematicOpen_sim src
    | list => exact listOpen_sim src
    | listItem => exact listItemOpen_sim src
    | code => exact codeOpen_sim src
    | atx => exact atxOpen_sim src
    | fenced => exact fencedOpen_sim src
    | blockquote => exact blockquoteOpen_sim src
    | html => exact htmlOpen_sim src
    | paragraph => exact paragraphOpen_sim src
  cont := by
    intro bp hal k ls p node sA sB hs hn0 ha hp hns hpre
    cases bp with
    | setext => cases hal
    | thematic => exact contW (thematicContinue_sim src) k ls p node sA sB hs
    | list => exact contW (listContinue_sim src) k ls p node sA sB hs
    | listItem =>
      exact S2.mono (listItemContinue_sim' src k ls p node sA sB hs hp (hpre rfl))
        (fun _ _ _ _ hh => ⟨hh.1, hh.2.choose, hh.2.choose_spec.2⟩)
    | code =>
      exact S2.mono (codeContinue_sim' src k ls p node sA sB hs hp)
        (fun _ _ _ _ hh => ⟨hh.1, hh.2.choose, hh.2.choose_spec.2⟩)
    | atx => exact contW (atxContinue_sim src) k ls p node sA sB hs
    | fenced =>
      exact S2.mono (fencedContinue_sim' src k ls p node sA sB hs ha.fence hns)
        (fun _ _ _ _ hh => ⟨hh.1, hh.2.choose, hh.2.choose_spec.2⟩)
    | blockquote => exact contW (blockquoteContinue_sim src) k ls p node sA sB hs
    | html =>
      exact S2.mono (htmlContinue_sim' src k ls p node sA sB hs hp)
        (fun _ _ _ _ hh => ⟨hh.1, hh.2.choose, hh.2.choose_spec.2⟩)
    | paragraph => exact contW (paragraphContinue_sim src) k ls p node sA sB hs
  close := by
    intro bp hal k ls p node sA sB hs hn0 ha hnr hfe
    cases bp with
    | setext => cases hal
    | thematic => exact thematicClose_sim src k ls p node sA sB hs
    | list => exact listClose_sim' src k ls p node sA sB hs (flagsOK_of_fe (hfe rfl) ha.u node hn0)
    | listItem => exact listItemClose_sim src k ls p node sA sB hs
    | code => exact codeClose_sim src k ls p node sA sB hs
    | atx => exact atxClose_sim src k ls p node sA sB hs
    | fenced => exact fencedClose_sim src k ls p node sA sB hs
    | blockquote => exact blockquoteClose_sim src k ls p node sA sB hs
    | html => exact htmlClose_sim src k ls p node sA sB hs
    | paragraph => exact paragraphClose_sim' src k ls p node sA sB hs (hnr (.inl rfl))

theorem trig_listsG (src : Bytes) (hnb : NoBar src) : TrigOK src alNS where
  free := by intro bp hb; simp [freeParsers] at hb; rcases hb with rfl | rfl <;> exact .inl rfl
  trig := by
    intro c _ bp _
    cases bp <;> first | exact .inl rfl | exact .inr (.inr ⟨rfl, rfl, hnb⟩)

/-- the class of the lists theorem: no tab, no CR, not empty, the last byte is not a space (e.g. a final line feed),
    and NO BLANK LINE -/
structure C08ClassF (src : Bytes) : Prop where
  tf : ∀ c ∈ src, c ≠ 9
  cr : ∀ c ∈ src, c ≠ 13
  ne : src ≠ []
  last : ∀ c, src.getLast? = some c → c ≠ 32
  noblank : FL src

theorem cls_lists {src} (h : C08ClassF src) : Cls src alAll where
  ps := ps_lists src h.noblank
  fr := frames_lists
  ot := ot_lists src
  ns := ns_of_last_ne h.last
  tr := trig_lists src
  tf := h.tf
  h0 := lineAt_zero_qs src h.ne
  shape := fun _ _ hl hb => blank_shape_w h.tf h.cr h.last hl hb

/-- **whole runs with lists**: the block phase on the prefixed source ends normally in a related store -/
theorem run_sim_lists {src : Bytes} (hc : C08ClassF src) {sA : St} (hA : run src = .ok sA) :
    ∃ sB, run (quotePrefix src) = .ok sB ∧ FRel src alAll sA.nodes sB.nodes :=
  run_simG (cls_lists hc) hc.ne hA

theorem wellShapedL_of {s : St} (hu : UStoreL s.nodes) (hne : SegsNE s) : WellShapedL s :=
  ⟨hu.doc, fun n hn => ⟨(hne n hn).1, (hne n hn).2.1, (hne n hn).2.2, (hu.node n hn).kids⟩⟩

/-- the conclusion on the dumps for the class with lists -/
theorem quoteSim_of_classF {src : Bytes} (hc : C08ClassF src) {sA : St} (hA : run src = .ok sA) :
    ∀ e g, quoteSimPair src = some (e, g) → e = g := by
  obtain ⟨sB, hB, hn, hu, _⟩ := run_sim_lists hc hA
  exact quoteSimPair_eqL src sA sB hA hB hn (wellShapedL_of hu (segsNE_of_rel hA hn)) (flagsEq_of_rel hc.noblank hn)

/-- the class of the lists theorem for sources WITH blank lines: no tab, no CR, not empty, the last byte is not a space,
    and no position starts a setext heading underline (`NoBar`: no rest of a line consists of `=` or of `-` only, up
    to trailing spaces) -/
structure C08ClassG (src : Bytes) : Prop where
  tf : ∀ c ∈ src, c ≠ 9
  cr : ∀ c ∈ src, c ≠ 13
  ne : src ≠ []
  last : ∀ c, src.getLast? = some c → c ≠ 32
  nobar : NoBar src

theorem cls_listsG {src} (h : C08ClassG src) : Cls src alNS where
  ps := ps_listsG src
  fr := frames_any alNS rfl
  ot := ot_lists src
  ns := ns_of_last_ne h.last
  tr := trig_listsG src h.nobar
  tf := h.tf
  h0 := lineAt_zero_qs src h.ne
  shape := fun _ _ hl hb => blank_shape_w h.tf h.cr h.last hl hb

theorem run_sim_listsG {src : Bytes} (hc : C08ClassG src) {sA : St} (hA : run src = .ok sA) :
    ∃ sB, run (quotePrefix src) = .ok sB ∧ FRel src alNS sA.nodes sB.nodes :=
  run_simG (cls_listsG hc) hc.ne hA

/-- the conclusion on the dumps: lists AND blank lines -/
theorem quoteSim_of_classG {src : Bytes} (hc : C08ClassG src) {sA : St} (hA : run src = .ok sA) :
    ∀ e g, quoteSimPair src = some (e, g) → e = g := by
  obtain ⟨sB, hB, hn, hu, _, hfe⟩ := run_sim_listsG hc hA
  exact quoteSimPair_eqF src sA sB hA hB hn (wellShapedL_of hu (segsNE_of_rel hA hn)) (hfe rfl)

instance (src : Bytes) : Decidable (C08ClassG src) :=
  decidable_of_iff ((∀ c ∈ src, c ≠ 9) ∧ (∀ c ∈ src, c ≠ 13) ∧ src ≠ [] ∧ (∀ c, src.getLast? = some c → c ≠ 32) ∧ NoBar src)
    ⟨fun h => ⟨h.1, h.2.1, h.2.2.1, h.2.2.2.1, h.2.2.2.2⟩, fun h => ⟨h.tf, h.cr, h.ne, h.last, h.nobar⟩⟩

/-- `FL` is decidable: only line starts inside the source matter -/
theorem fl_iff (src : Bytes) : FL src ↔
    ∀ ls, ls < src.length → (ls = 0 ∨ src[ls - 1]? = some 10) → isBlank (sub src ls (lineEnd src ls)) = false :=
  ⟨fun h ls hlt hs => h (lineNo src ls) ls ⟨hlt, hs, rfl⟩, fun h _ ls hl => h ls hl.lt hl.start⟩

instance (src : Bytes) : Decidable (FL src) :=
  decidable_of_iff _ (fl_iff src).symm

instance (src : Bytes) : Decidable (C08ClassF src) :=
  decidable_of_iff ((∀ c ∈ src, c ≠ 9) ∧ (∀ c ∈ src, c ≠ 13) ∧ src ≠ [] ∧ (∀ c, src.getLast? = some c → c ≠ 32) ∧ FL src)
    ⟨fun h => ⟨h.1, h.2.1, h.2.2.1, h.2.2.2.1, h.2.2.2.2⟩, fun h => ⟨h.tf, h.cr, h.ne, h.last, h.noblank⟩⟩

end GM.Blocks
