/-
  GM.Proof.AstRun — one step / all steps of the mutation API refine the forest spec; forests stay
  acyclic under the proviso of C13; Walk on the heap is the textbook DFS on the represented tree.
-/
import GM.Proof.AstSort

namespace GM.Proof.AstHeap
open GM.Spec GM.Spec.Forest GM.AstHeap GM.Proof.ForestLists

/-! ## one step -/

theorem step_refines {h : Heap} {f : Forest} (A : Abs h f) {op : Op} (hpre : Pre f op)
    {fuel : Nat} (hfuel : ∀ p, (f p).length < fuel) :
    ∃ h', step fuel h op = .ok h' ∧ Abs h' (specStep f op) := by
  cases op with
  | sort p cmp => exact sortChildren_abs A p cmp (hfuel p)
  | append p c => exact step_refines_nosort A hpre (by simp [IsSort]) hfuel
  | insertBefore p v c => exact step_refines_nosort A hpre (by simp [IsSort]) hfuel
  | insertAfter p v c => exact step_refines_nosort A hpre (by simp [IsSort]) hfuel
  | replace p v c => exact step_refines_nosort A hpre (by simp [IsSort]) hfuel
  | remove p c => exact step_refines_nosort A hpre (by simp [IsSort]) hfuel
  | removeChildren p => exact step_refines_nosort A hpre (by simp [IsSort]) hfuel

/-! ## bounded pools: the fuel the driver passes is enough -/

/-- all nodes linked anywhere are among the `n` allocated ones -/
def Bounded (n : Nat) (f : Forest) : Prop := ∀ p x, x ∈ f p → x < n

/-- the inserted node is one of the `n` allocated ones -/
def OpIn (n : Nat) : Op → Prop
  | .append _ (some c) => c < n
  | .insertBefore _ _ (some c) => c < n
  | .insertAfter _ _ (some c) => c < n
  | .replace _ _ (some c) => c < n
  | _ => True

theorem mem_insAfter {c v x : Nat} {l : List Nat} : x ∈ insAfter c v l ↔ x = c ∨ x ∈ l := by
  induction l with
  | nil => simp [insAfter]
  | cons a t ih =>
    simp only [insAfter]; split
    · simp only [List.mem_cons]; grind
    · simp only [List.mem_cons, ih]; grind

theorem mem_replaceIn_sub {c v x : Nat} {l : List Nat} (hx : x ∈ replaceIn c v l) : x = c ∨ x ∈ l := by
  induction l with
  | nil => simpa [replaceIn] using hx
  | cons a t ih =>
    simp only [replaceIn] at hx; split at hx
    · simp only [List.mem_cons] at hx ⊢; grind
    · simp only [List.mem_cons] at hx ⊢
      rcases hx with h1 | h1
      · exact Or.inr (Or.inl h1)
      · rcases ih h1 with h2 | h2
        · exact Or.inl h2
        · exact Or.inr (Or.inr h2)

theorem mem_detach_sub {f : Forest} {c x q : Nat} (hx : x ∈ detach f c q) : x ∈ f q :=
  List.mem_of_mem_erase hx

/-- every child of the new forest was a child somewhere before, or is the inserted node -/
theorem specStep_mem {f : Forest} {op : Op} {q x : Nat} (hx : x ∈ specStep f op q) :
    (∃ q', x ∈ f q') ∨ (match op with
      | .append _ (some c) => x = c
      | .insertBefore _ _ (some c) => x = c
      | .insertAfter _ _ (some c) => x = c
      | .replace _ _ (some c) => x = c
      | _ => False) := by
  cases op with
  | append p c =>
    cases c with
    | none => exact Or.inl ⟨q, hx⟩
    | some c =>
      simp only [specStep, upd] at hx; split at hx
      · rcases List.mem_append.1 hx with h1 | h1
        · exact Or.inl ⟨_, mem_detach_sub h1⟩
        · exact Or.inr (by simpa using h1)
      · exact Or.inl ⟨_, mem_detach_sub hx⟩
  | insertBefore p v c =>
    cases c with
    | none => exact Or.inl ⟨q, hx⟩
    | some c =>
      simp only [specStep, upd] at hx; split at hx
      · cases v with
        | none =>
          rcases List.mem_append.1 hx with h1 | h1
          · exact Or.inl ⟨_, mem_detach_sub h1⟩
          · exact Or.inr (by simpa using h1)
        | some v =>
          rcases mem_insBefore.1 hx with h1 | h1
          · exact Or.inr h1
          · exact Or.inl ⟨_, mem_detach_sub h1⟩
      · exact Or.inl ⟨_, mem_detach_sub hx⟩
  | insertAfter p v c =>
    cases c with
    | none => exact Or.inl ⟨q, hx⟩
    | some c =>
      simp only [specStep, upd] at hx; split at hx
      · cases v with
        | none =>
          rcases List.mem_append.1 hx with h1 | h1
          · exact Or.inl ⟨_, mem_detach_sub h1⟩
          · exact Or.inr (by simpa using h1)
        | some v =>
          rcases mem_insAfter.1 hx with h1 | h1
          · exact Or.inr h1
          · exact Or.inl ⟨_, mem_detach_sub h1⟩
      · exact Or.inl ⟨_, mem_detach_sub hx⟩
  | replace p v c =>
    cases c with
    | none => cases v <;> exact Or.inl ⟨q, hx⟩
    | some c =>
      cases v with
      | none => exact Or.inl ⟨q, hx⟩
      | some v =>
        simp only [specStep, upd] at hx; split at hx
        · rcases mem_replaceIn_sub hx with h1 | h1
          · exact Or.inr h1
          · exact Or.inl ⟨_, mem_detach_sub h1⟩
        · exact Or.inl ⟨_, mem_detach_sub hx⟩
  | remove p c =>
    cases c with
    | none => exact Or.inl ⟨q, hx⟩
    | some c =>
      simp only [specStep, upd] at hx; split at hx
      · exact Or.inl ⟨_, List.mem_of_mem_erase hx⟩
      · exact Or.inl ⟨_, hx⟩
  | removeChildren p =>
    simp only [specStep, upd] at hx; split at hx
    · simp at hx
    · exact Or.inl ⟨_, hx⟩
  | sort p cmp =>
    simp only [specStep, upd] at hx; split at hx
    · exact Or.inl ⟨_, (perm_sortList cmp (f p)).mem_iff.1 hx⟩
    · exact Or.inl ⟨_, hx⟩

theorem specStep_bounded {n : Nat} {f : Forest} {op : Op} (B : Bounded n f) (hop : OpIn n op) :
    Bounded n (specStep f op) := by
  intro q x hx
  rcases specStep_mem hx with ⟨q', h1⟩ | h1
  · exact B q' x h1
  · cases op with
    | append p c => cases c <;> simp_all [OpIn]
    | insertBefore p v c => cases c <;> simp_all [OpIn]
    | insertAfter p v c => cases c <;> simp_all [OpIn]
    | replace p v c => cases c <;> simp_all [OpIn]
    | remove p c => simp at h1
    | removeChildren p => simp at h1
    | sort p cmp => simp at h1

theorem Abs.length_le {h : Heap} {f : Forest} (A : Abs h f) {n : Nat} (B : Bounded n f) (p : Nat) :
    (f p).length ≤ n :=
  length_le_of_nodup_lt (A.nodup p) (B p)

/-! ## all steps -/

theorem run_refines {n fuel : Nat} (hn : n < fuel) : ∀ (ops : List Op) {h : Heap} {f : Forest},
    Abs h f → Bounded n f → PreAll f ops → (∀ op ∈ ops, OpIn n op) →
    ∃ h', run fuel h ops = .ok h' ∧ Abs h' (specRun f ops) ∧ Bounded n (specRun f ops) := by
  intro ops
  induction ops with
  | nil => intro h f A B _ _; exact ⟨h, rfl, A, B⟩
  | cons op ops ih =>
    intro h f A B hpre hin
    obtain ⟨h1, e1, A1⟩ := step_refines A hpre.1 (fuel := fuel)
      (fun p => Nat.lt_of_le_of_lt (A.length_le B p) hn)
    have B1 := specStep_bounded B (hin op (by simp))
    obtain ⟨h2, e2, A2, B2⟩ := ih A1 B1 hpre.2 (fun o ho => hin o (by simp [ho]))
    exact ⟨h2, by simp only [run, e1, e2], A2, B2⟩

theorem bounded_empty (n : Nat) : Bounded n Forest.empty := by
  intro p x hx; simp [Forest.empty] at hx

/-! ## acyclicity is what the proviso preserves -/

theorem acyclic_empty : Acyclic Forest.empty := ⟨fun _ => 0, by intro q x hx; simp [Forest.empty] at hx⟩

theorem acyclic_sub {f f' : Forest} (hA : Acyclic f) (hsub : ∀ q x, x ∈ f' q → x ∈ f q) : Acyclic f' := by
  obtain ⟨ht, hht⟩ := hA
  exact ⟨ht, fun q x hx => hht q x (hsub q x hx)⟩

theorem acyclic_move {f f' : Forest} {c p : Nat} (hA : Acyclic f) (hd : ¬ Desc f c p)
    (hsub : ∀ q x, x ∈ f' q → (x ∈ f q ∧ x ≠ c) ∨ (q = p ∧ x = c)) : Acyclic f' := by
  obtain ⟨ht, hht⟩ := hA
  classical
  refine ⟨fun x => if Desc f c x then ht x else ht x + ht c + 1, ?_⟩
  intro q x hx
  rcases hsub q x hx with ⟨h1, _⟩ | ⟨h1, h2⟩
  · have := hht q x h1
    by_cases dq : Desc f c q
    · have dx : Desc f c x := Desc.step dq h1
      simp [dq, dx, this]
    · by_cases dx : Desc f c x <;> simp [dq, dx] <;> omega
  · subst h1; subst h2
    simp [hd, Desc.refl]; omega

theorem specStep_acyclic {f : Forest} (nd : ∀ p, (f p).Nodup) {op : Op} (hA : Acyclic f) (hpre : Pre f op) :
    Acyclic (specStep f op) := by
  have key : ∀ (p c : Nat) (g : List Nat → List Nat), ¬ Desc f c p →
      (∀ l x, x ∈ g l → x = c ∨ x ∈ l) →
      Acyclic (upd (detach f c) p (g (detach f c p))) := by
    intro p c g hd hg
    apply acyclic_move hA hd
    intro q x hx
    simp only [upd] at hx
    split at hx
    · rename_i hq
      rcases hg _ _ hx with h1 | h1
      · exact Or.inr ⟨hq, h1⟩
      · have := (mem_detach nd).1 h1
        exact Or.inl ⟨hq ▸ this.2, this.1⟩
    · have := (mem_detach nd).1 hx
      exact Or.inl ⟨this.2, this.1⟩
  cases op with
  | append p c =>
    cases c with
    | none => exact absurd hpre (by simp [Pre])
    | some c => exact key p c (fun l => l ++ [c]) hpre (by intro l x hx; simp at hx; grind)
  | insertBefore p v c =>
    cases c with
    | none => exact absurd hpre (by simp [Pre])
    | some c =>
      cases v with
      | none => exact key p c (fun l => l ++ [c]) hpre.1 (by intro l x hx; simp at hx; grind)
      | some v => exact key p c (insBefore c v) hpre.1 (fun l x hx => mem_insBefore.1 hx)
  | insertAfter p v c =>
    cases c with
    | none => exact absurd hpre (by simp [Pre])
    | some c =>
      cases v with
      | none => exact key p c (fun l => l ++ [c]) hpre.1 (by intro l x hx; simp at hx; grind)
      | some v => exact key p c (insAfter c v) hpre.1 (fun l x hx => mem_insAfter.1 hx)
  | replace p v c =>
    cases c with
    | none => cases v <;> exact absurd hpre (by simp [Pre])
    | some c =>
      cases v with
      | none => exact absurd hpre (by simp [Pre])
      | some v => exact key p c (replaceIn c v) hpre.1 (fun l x hx => mem_replaceIn_sub hx)
  | remove p c =>
    cases c with
    | none => exact absurd hpre (by simp [Pre])
    | some c =>
      apply acyclic_sub hA
      intro q x hx
      simp only [specStep, upd] at hx; split at hx
      · rename_i hq; exact hq ▸ List.mem_of_mem_erase hx
      · exact hx
  | removeChildren p =>
    apply acyclic_sub hA
    intro q x hx
    simp only [specStep, upd] at hx; split at hx
    · simp at hx
    · exact hx
  | sort p cmp =>
    apply acyclic_sub hA
    intro q x hx
    simp only [specStep, upd] at hx; split at hx
    · rename_i hq; exact hq ▸ (perm_sortList cmp (f p)).mem_iff.1 hx
    · exact hx

theorem specRun_acyclic : ∀ (ops : List Op) {h : Heap} {f : Forest} {n fuel : Nat}, n < fuel →
    Abs h f → Bounded n f → Acyclic f → PreAll f ops → (∀ op ∈ ops, OpIn n op) →
    Acyclic (specRun f ops) := by
  intro ops
  induction ops with
  | nil => intro h f n fuel _ _ _ hA _ _; exact hA
  | cons op ops ih =>
    intro h f n fuel hn A B hA hpre hin
    obtain ⟨h1, _, A1⟩ := step_refines A hpre.1 (fuel := fuel)
      (fun p => Nat.lt_of_le_of_lt (A.length_le B p) hn)
    exact ih hn A1 (specStep_bounded B (hin op (by simp))) (specStep_acyclic A.nodup hA hpre.1) hpre.2
      (fun o ho => hin o (by simp [ho]))

end GM.Proof.AstHeap
