/-
  GM.Spec.CommonMark — the SPEC-SIDE executable model of property C02: documents whose meaning is fixed by
  construction (`Inline`, `Block`, `Doc`), annotated with every surface-syntax choice the CommonMark 0.31.2
  specification licenses, the Markdown source of an annotated tree (`spell`) and the HTML the specification
  prescribes for the tree (`expected`, which never looks at a choice). Written from the specification text,
  independently of goldmark's code. Core Lean only (the driver links it).

  The constructors' arguments are restricted by the decidable predicate `wellFormed` so that the reading of
  the spelled source is unambiguous under the specification (each restriction cites the rule it avoids).
-/
import GM.Spec.CMText
namespace GM.Spec.CM
open GM

/-! ## trees -/

inductive LinkStyle where
  | inline | full | collapsed | shortcut
deriving Repr, BEq, DecidableEq, Inhabited

/-- surface choices of one link / image -/
structure LinkCh where
  style : LinkStyle := .inline
  angle : Bool := false      -- `<dest>` (forced when the destination is empty or contains a space)
  titleQ : Nat := 0          -- 0 "…"  1 '…'  2 (…)
  labelVar : Nat := 0        -- case/whitespace variant of the label at a full reference's use site
  sp : Nat := 0              -- 0 `(dest "t")`, 1 `( dest  "t" )`
  ent : Bool := false        -- write `&` and `"` in destination and title as `&amp;` / `&quot;` (else backslash / literal)
deriving Repr, BEq, DecidableEq, Inhabited

inductive Inline where
  | text (cs : List TChar)
  | emph (us : Bool) (kids : List Inline)                 -- us: ask for `_` (used where unambiguous, else `*`)
  | strong (us : Bool) (kids : List Inline)
  | code (content : Bytes) (extra : Nat) (pad : Bool)      -- extra backticks in the fence, optional padding
  | link (kids : List Inline) (dest : Bytes) (title : Option Bytes) (label : Bytes) (ch : LinkCh)
  | image (kids : List Inline) (dest : Bytes) (title : Option Bytes) (label : Bytes) (ch : LinkCh)
  | autolink (uri : Bytes) (email : Bool)
  | rawHtml (b : Bytes)
  | hardBreak (bs : Bool) (n : Nat)                        -- backslash, or 2+n spaces
  | softBreak
deriving Repr, Inhabited

structure RefDef where
  label : Bytes
  dest : Bytes
  title : Option Bytes
  labelVar : Nat := 0
  angle : Bool := false
  titleQ : Nat := 0
  titleNextLine : Bool := false
  indent : Nat := 0
  ent : Bool := false
deriving Repr, BEq, DecidableEq, Inhabited

/-- per-block choices shared by all block kinds -/
structure BCh where
  indent : Nat := 0            -- 0–3 columns of extra leading indentation (ignored where it would be content)
  abut : Bool := false         -- omit the blank line before this block where the spec lets it follow directly
  trail : Nat := 0             -- trailing spaces on marker lines (fences, underlines, thematic breaks, ATX)
deriving Repr, BEq, DecidableEq, Inhabited

inductive Block where
  | para (ch : BCh) (kids : List Inline) (contIndent : Nat)
  | heading (ch : BCh) (level : Nat) (setext : Bool) (closing : Nat) (sp : Nat) (kids : List Inline)
  | thematic (ch : BCh) (c : Nat) (n : Nat) (spaced : Bool)              -- c: 0 `*` 1 `-` 2 `_`
  | icode (lines : List Bytes)
  | fcode (ch : BCh) (tilde : Bool) (len closeExtra closeIndent : Nat) (info : Bytes) (infoSp : Nat) (lines : List Bytes)
  | quote (ch : BCh) (tightMarker : Bool) (kids : List Block)
  | blist (ch : BCh) (marker : Nat) (markerSp : Nat) (tight : Bool) (items : List Block)   -- marker: 0 `-` 1 `+` 2 `*`
  | olist (ch : BCh) (start : Nat) (zeros : Nat) (paren : Bool) (markerSp : Nat) (tight : Bool) (items : List Block)
  | item (kids : List Block)                                              -- only directly below blist/olist
  | refdefs (defs : List RefDef)
  | html (lines : List Bytes)
deriving Repr, Inhabited

structure Doc where
  blocks : List Block
  finalNewline : Bool := true
  tabMode : Nat := 0           -- leading indentation: 0 spaces; 1 tabs then spaces; 2 two spaces before the first tab
  tabQuote : Nat := 0          -- white space after block-quote markers: 0 spaces; 1 tabs then spaces; 2 a space before the first tab
  tabQuoteD : Nat := 0         -- the same before the lines of link reference definitions (kept apart: see KNOWN_FINDINGS)
  tabList : Nat := 0           -- white space after list markers, likewise
deriving Repr, Inhabited

/-! ## small helpers -/

def spaces (n : Nat) : Bytes := List.replicate n 32
def lastB (b : Bytes) : Option UInt8 := b.getLast?
def upper (c : UInt8) : UInt8 := if 97 ≤ c && c ≤ 122 then c - 32 else c
def lower (c : UInt8) : UInt8 := if 65 ≤ c && c ≤ 90 then c + 32 else c
def isSp (c : UInt8) : Bool := c == 32

def srcFirst (t : TChar) : UInt8 := (spellChar t).headD 0
def srcLast (t : TChar) : UInt8 := (spellChar t).getLastD 0

def startsAlnum : Inline → Bool
  | .text (t :: _) => isAlnumC (srcFirst t)
  | _ => false
def endsAlnum : Inline → Bool
  | .text cs => match cs.getLast? with
    | some t => isAlnumC (srcLast t)
    | none => false
  | _ => false

def splitLines (b : Bytes) : List Bytes :=
  let r := b.foldr (fun c (acc : Bytes × List Bytes) => if c == 10 then ([], acc.1 :: acc.2) else (c :: acc.1, acc.2)) ([], [])
  r.1 :: r.2

/-! ## URL and label handling of the specification's reference renderer -/

def isHexC (c : UInt8) : Bool := isDigit c || (97 ≤ c && c ≤ 102) || (65 ≤ c && c ≤ 70)

/-- characters the reference implementation's URI normalisation leaves alone -/
def urlKeep (c : UInt8) : Bool :=
  isAlnumC c || c == 59 || c == 47 || c == 63 || c == 58 || c == 64 || c == 38 || c == 61 || c == 43 ||
  c == 36 || c == 44 || c == 45 || c == 95 || c == 46 || c == 33 || c == 126 || c == 42 || c == 39 ||
  c == 40 || c == 41 || c == 35

def pct (c : UInt8) : Bytes := [37, hexDig true (c.toNat / 16), hexDig true (c.toNat % 16)]

/-- percent-encode everything outside `urlKeep`; an existing `%XX` triple is kept -/
def urlEnc : Bytes → Bytes
  | [] => []
  | 37 :: a :: b :: rest =>
    if isHexC a && isHexC b then 37 :: a :: b :: urlEnc rest else pct 37 ++ urlEnc (a :: b :: rest)
  | c :: rest => (if urlKeep c then [c] else pct c) ++ urlEnc rest

/-- spelling variants of a link label that match the same definition (section 4.7 / 6.3: case-insensitive,
    internal whitespace collapsed, leading and trailing whitespace stripped) -/
def labelVariant (v : Nat) (l : Bytes) : Bytes :=
  match v % 9 with
  | 0 => l
  | 1 => l.map upper
  | 2 => l.map lower
  | 3 => l.flatMap fun c => if c == 32 then [32, 32] else [c]
  | 4 => [32] ++ l ++ [32]
  | 5 => [32] ++ (l.map upper).flatMap (fun c => if c == 32 then [32, 32] else [c])
  | 6 => l.map fun c => if c == 32 then 9 else c                      -- a tab is white space inside a label
  | 7 => (l.map lower).flatMap fun c => if c == 32 then [32, 9] else [c]
  | _ => [9] ++ l ++ [9]

def normLabel (l : Bytes) : Bytes := l.map lower

def labelOK (l : Bytes) : Bool :=
  !l.isEmpty && l.length ≤ 60 && l.all (fun c => isAlnumC c || c == 32) && l.head? != some 32 &&
  l.getLast? != some 32 && !(l.zip (l.drop 1)).any (fun p => p.1 == 32 && p.2 == 32)

/-! ## spelling inlines -/

def maxRun (c : UInt8) (b : Bytes) : Nat :=
  (b.foldl (fun (acc : Nat × Nat) x => if x == c then (acc.1 + 1, max acc.2 (acc.1 + 1)) else (0, acc.2)) (0, 0)).2

def spellCode (content : Bytes) (extra : Nat) (pad : Bool) : Bytes :=
  let fence := List.replicate (maxRun 96 content + 1 + extra) (96 : UInt8)
  let allSp := content.all isSp
  let needPad := content.head? == some 96 || content.getLast? == some 96 ||
    (content.head? == some 32 && content.getLast? == some 32 && !allSp)
  let p : Bytes := if needPad || (pad && !allSp) then [32] else []
  fence ++ p ++ content ++ p ++ fence

def destNeedsAngle (d : Bytes) : Bool := d.isEmpty || d.contains 32

/-- `ent`: entity spellings for `&` and `"` (2.5: "Entity and numeric character references are recognized in
    any context besides code spans or code blocks, including URLs, link titles") -/
def entOr (ent : Bool) (c : UInt8) (other : Bytes) : Bytes :=
  if ent && c == 38 then strBytes "&amp;" else if ent && c == 34 then strBytes "&#34;" else other

def spellDest (angle : Bool) (d : Bytes) (ent : Bool := false) : Bytes :=
  if angle || destNeedsAngle d then
    [60] ++ d.flatMap (fun c => entOr ent c (if c == 60 || c == 62 || c == 92 || c == 38 then [92, c] else [c])) ++ [62]
  else d.flatMap (fun c => entOr ent c (if c == 40 || c == 41 || c == 92 || c == 38 || c == 60 then [92, c] else [c]))

def spellTitle (q : Nat) (t : Bytes) (ent : Bool := false) : Bytes :=
  match q % 3 with
  | 0 => [34] ++ t.flatMap (fun c => entOr ent c (if c == 34 || c == 92 || c == 38 then [92, c] else [c])) ++ [34]
  | 1 => [39] ++ t.flatMap (fun c => entOr ent c (if c == 39 || c == 92 || c == 38 then [92, c] else [c])) ++ [39]
  | _ => [40] ++ t.flatMap (fun c => entOr ent c (if c == 40 || c == 41 || c == 92 || c == 38 then [92, c] else [c])) ++ [41]

def spellLinkTail (dest : Bytes) (title : Option Bytes) (label : Bytes) (ch : LinkCh) : Bytes :=
  match ch.style with
  | .inline =>
    let s : Bytes := if ch.sp % 2 == 1 then [32] else []
    [40] ++ s ++ spellDest ch.angle dest ch.ent ++
      (match title with
       | some t => [32] ++ s ++ spellTitle ch.titleQ t ch.ent
       | none => []) ++ s ++ [41]
  | .full => [91] ++ labelVariant ch.labelVar label ++ [93]
  | .collapsed => [91, 93]
  | .shortcut => []

mutual
/-- `pa` / `na`: the source character before / after this node is alphanumeric (decides whether `_` is safe) -/
def spellI (pa na : Bool) : Inline → Bytes
  | .text cs => escSpell cs
  | .emph us kids =>
    let d : Bytes := if us && !pa && !na then [95] else [42]
    d ++ spellIs false kids ++ d
  | .strong us kids =>
    let d : Bytes := if us && !pa && !na then [95, 95] else [42, 42]
    d ++ spellIs false kids ++ d
  | .code content extra pad => spellCode content extra pad
  | .link kids dest title label ch => [91] ++ spellIs false kids ++ [93] ++ spellLinkTail dest title label ch
  | .image kids dest title label ch => [33, 91] ++ spellIs false kids ++ [93] ++ spellLinkTail dest title label ch
  | .autolink uri _ => [60] ++ uri ++ [62]
  | .rawHtml b => b
  | .hardBreak bs n => if bs then [92, 10] else spaces (2 + n) ++ [10]
  | .softBreak => [10]
def spellIs (pa : Bool) : List Inline → Bytes
  | [] => []
  | x :: rest =>
    spellI pa (match rest with | y :: _ => startsAlnum y | [] => false) x ++ spellIs (endsAlnum x) rest
end

/-! ## expected HTML of inlines -/

mutual
def plainI : Inline → Bytes
  | .text cs => plain cs
  | .emph _ kids => plainIs kids
  | .strong _ kids => plainIs kids
  | .code content _ _ => content
  | .link kids _ _ _ _ => plainIs kids
  | .image kids _ _ _ _ => plainIs kids
  | .autolink uri _ => uri
  | .rawHtml _ => []
  | .hardBreak _ _ => [10]
  | .softBreak => [10]
def plainIs : List Inline → Bytes
  | [] => []
  | x :: rest => plainI x ++ plainIs rest
end

/-- output pieces; `render` flattens them, the balance predicate of C02c looks at their structure -/
inductive Piece where
  | openT (tag : Bytes) (attrs : Bytes)
  | closeT (tag : Bytes)
  | voidT (tag : Bytes) (attrs : Bytes)
  | txt (b : Bytes)
  | raw (b : Bytes)
deriving Repr, BEq, DecidableEq

def renderPiece : Piece → Bytes
  | .openT t a => [60] ++ t ++ a ++ [62]
  | .closeT t => [60, 47] ++ t ++ [62]
  | .voidT t a => [60] ++ t ++ a ++ strBytes " />"
  | .txt b => b
  | .raw b => b

def render (ps : List Piece) : Bytes := ps.flatMap renderPiece

def wrap (tag attrs : Bytes) (inner : List Piece) : List Piece := .openT tag attrs :: inner ++ [.closeT tag]

def nl : Piece := .txt [10]

def attr (name : String) (v : Bytes) : Bytes := [32] ++ strBytes name ++ strBytes "=\"" ++ v ++ [34]

def titleAttr : Option Bytes → Bytes
  | some t => attr "title" (escHtml t)
  | none => []

mutual
def expI : Inline → List Piece
  | .text cs => [.txt (escHtml (plain cs))]
  | .emph _ kids => wrap (strBytes "em") [] (expIs kids)
  | .strong _ kids => wrap (strBytes "strong") [] (expIs kids)
  | .code content _ _ => wrap (strBytes "code") [] [.txt (escHtml content)]
  | .link kids dest title _ _ => wrap (strBytes "a") (attr "href" (escHtml (urlEnc dest)) ++ titleAttr title) (expIs kids)
  | .image kids dest title _ _ =>
    [.voidT (strBytes "img") (attr "src" (escHtml (urlEnc dest)) ++ attr "alt" (escHtml (plainIs kids)) ++ titleAttr title)]
  | .autolink uri email =>
    wrap (strBytes "a") (attr "href" (escHtml (urlEnc ((if email then strBytes "mailto:" else []) ++ uri)))) [.txt (escHtml uri)]
  | .rawHtml b => [.raw b]
  | .hardBreak _ _ => [.voidT (strBytes "br") [], nl]
  | .softBreak => [nl]
def expIs : List Inline → List Piece
  | [] => []
  | x :: rest => expI x ++ expIs rest
end

/-! ## spelling blocks: lines with their structural indentation kept apart -/

/-- a source line: columns of structural leading whitespace (from column 0) and the rest. Inside the rest,
    the structural white space that follows a block-quote or list marker is kept symbolic as the two bytes
    `wsMarkQ, k` / `wsMarkL, k` (= k columns after a quote / list marker; contents are printable ASCII, so the mark cannot occur in them): the final
    renderer knows the absolute column and can write it with spaces or with tabs reaching the same column. -/
abbrev Line := Nat × Bytes

def wsMarkQ : UInt8 := 1
def wsMarkL : UInt8 := 2
def wsMarkD : UInt8 := 3
/-- line flags carried in the thousands of the indentation: 1 = lazy continuation line, 2 = line of a link
    reference definition -/
def lflag (l : Line) : Nat := l.1 / 1000
def lcol (l : Line) : Nat := l.1 % 1000
def wsSeg (mark : UInt8) (k : Nat) : Bytes := [mark, UInt8.ofNat (min k 255)]

def blankLine : Line := (0, [])

def kindOf : Block → Nat
  | .para .. => 1
  | .heading _ _ se .. => if se then 3 else 2
  | .thematic .. => 4
  | .icode .. => 5
  | .fcode .. => 6
  | .quote .. => 7
  | .blist .. => 8
  | .olist .. => 9
  | .refdefs .. => 10
  | .html .. => 11
  | .item .. => 12

def bch : Block → BCh
  | .para ch .. => ch
  | .heading ch .. => ch
  | .thematic ch .. => ch
  | .fcode ch .. => ch
  | .quote ch .. => ch
  | .blist ch .. => ch
  | .olist ch .. => ch
  | _ => {}

/-- may block `b` follow a block of kind `prev` without a blank line, with the same reading?
    (4.1–4.5: thematic breaks, headings and closed fences end on their own line; 4.8: which blocks can
    interrupt a paragraph; 5.2: "In order for a sequence of lines to constitute a list item … when the first
    list item … interrupts a paragraph … must start with 1") -/
def canAbut (prev : Nat) (b : Block) : Bool :=
  if prev == 2 || prev == 3 || prev == 4 || prev == 6 then
    match b with
    | .refdefs .. => false
    | .html .. => false
    | _ => true
  else if prev == 1 then
    match b with
    | .heading _ _ se .. => !se
    | .fcode .. => true
    | .thematic _ c _ spaced => c % 3 != 1 || spaced     -- `---` would be a setext underline (4.3); `- - -` is not
    | .quote .. => true
    | .blist .. => true
    | .olist _ start _ _ _ _ _ => start == 1
    | _ => false
  else false

def lastIsPara (kids : List Block) : Bool :=
  match kids.getLast? with
  | some (.para ..) => true
  | _ => false

def startsWithPara : List Block → Bool
  | .para .. :: _ => true
  | _ => false

def decStr (n : Nat) : Bytes := (toString n).toUTF8.toList

def thematicLine (c n : Nat) (spaced : Bool) : Bytes :=
  let ch : UInt8 := if c % 3 == 0 then 42 else if c % 3 == 1 then 45 else 95
  if spaced then (List.replicate (n + 3) [ch, 32]).flatten.dropLast else List.replicate (n + 3) ch

def bulletChar (m : Nat) : UInt8 := if m % 3 == 0 then 45 else if m % 3 == 1 then 43 else 42

def spellRefDef (noIndent : Bool) (d : RefDef) : List Line :=
  let d := if noIndent then { d with indent := 0 } else d
  let head : Bytes := [91] ++ labelVariant d.labelVar d.label ++ [93, 58, 32] ++
    (if d.angle || destNeedsAngle d.dest then spellDest true d.dest d.ent else spellDest false d.dest d.ent)
  match d.title with
  | none => [(2000 + d.indent % 4, head)]
  | some t =>
    if d.titleNextLine then [(2000 + d.indent % 4, head), (2001, spellTitle d.titleQ t d.ent)]
    else [(2000 + d.indent % 4, head ++ [32] ++ spellTitle d.titleQ t d.ent)]

/-- prefix the lines of a block-quote's content with the marker -/
def quoteLine (tightMarker : Bool) (ind : Nat) (l : Line) : Line :=
  if lflag l == 1 then l            -- a lazy paragraph continuation line keeps no container prefix (5.1)
  else if l.2.isEmpty then (ind, [62])
  else if tightMarker && lcol l == 0 && l.2.head? != some 32 then (lflag l * 1000 + ind, [62] ++ l.2)
  else (lflag l * 1000 + ind, [62] ++ wsSeg (if lflag l == 2 then wsMarkD else wsMarkQ) (1 + lcol l) ++ l.2)

/-- lines of a list item: the first carries the marker, the others the content offset -/
def itemLines (ind : Nat) (marker : Bytes) (sp : Nat) (ls : List Line) : List Line :=
  match ls with
  | [] => [(ind, marker)]
  | first :: rest =>
    (lflag first * 1000 + ind, marker ++ wsSeg wsMarkL sp ++ first.2) ::
      rest.map fun l => if l.2.isEmpty then blankLine else if lflag l == 1 then l
        else (lflag l * 1000 + ind + marker.length + sp + lcol l, l.2)

/-- `cont`: indentation of the continuation lines (any amount is stripped, 4.8); `cont % 8 ≥ 4` asks for LAZY
    continuation lines (5.1 "laziness", 5.2 rule 5): they carry no block-quote marker / list indentation -/
def paraLines (ind cont : Nat) (src : Bytes) : List Line :=
  match splitLines src with
  | [] => []
  | first :: rest => (ind, first) :: rest.map fun l => ((if cont % 8 ≥ 4 then 1000 else 0) + cont % 4, l)

mutual
def spellB (ind : Nat) (effMarker : Nat) : Block → List Line
  | .para _ kids cont => paraLines ind cont (spellIs false kids)
  | .heading ch level setext closing sp kids =>
    if setext then
      [(ind, spellIs false kids),
       (ch.trail % 4, List.replicate (closing + (if level == 1 then 1 else 2)) (if level == 1 then 61 else 45) ++ spaces (ch.trail / 4 % 3))]
    else
      [(ind, List.replicate level 35 ++ spaces (1 + sp % 3) ++ spellIs false kids ++
        (if closing == 0 then [] else spaces (1 + sp / 3 % 2) ++ List.replicate closing 35 ++ spaces (ch.trail % 3)))]
  | .thematic ch c n spaced => [(ind, thematicLine c n spaced ++ spaces (ch.trail % 3))]
  | .icode lines => lines.map fun l => (4, l)
  | .fcode ch tilde len closeExtra closeIndent info infoSp lines =>
    let fc : UInt8 := if tilde then 126 else 96
    [(ind, List.replicate (len + 3) fc ++ (if info.isEmpty then [] else spaces (infoSp % 3) ++ info) ++ spaces (ch.trail % 3))] ++
      lines.map (fun l => (ind, l)) ++
      [(closeIndent % 4, List.replicate (len + 3 + closeExtra) fc ++ spaces (ch.trail / 3 % 3))]
  | .quote _ tightMarker kids => (spellBs false false 0 0 kids).map (quoteLine tightMarker ind)
  | .blist _ _ markerSp tight items => spellItems ind [bulletChar effMarker] (1 + markerSp % 4) tight none items
  | .olist _ start zeros _ markerSp tight items =>
    spellItems ind [] (1 + markerSp % 4) tight (some (start, zeros, if effMarker == 1 then 41 else 46)) items
  | .item kids => spellBs false false 0 0 kids
  | .refdefs defs => defs.flatMap (spellRefDef (ind == 0 && effMarker == 1))
  | .html lines => lines.map fun l => (0, l)
/-- siblings: `tightCtx` = inside a tight list item (no blank lines at all), `looseCtx` = inside a loose one
    (always a blank line); `prev` = kind of the previous sibling, `prevM` its effective list marker -/
def spellBs (tightCtx looseCtx : Bool) (prev prevM : Nat) : List Block → List Line
  | [] => []
  | b :: rest =>
    let k := kindOf b
    let ch := bch b
    -- after a list, extra indentation would make the block part of the last item (5.2)
    -- the first block of a list item starts right after the marker: its own indentation is the marker spacing
    let ind := if prev == 8 || prev == 9 || (prev == 0 && (tightCtx || looseCtx)) then 0 else ch.indent % 4
    -- "changing the bullet or ordered list delimiter starts a new list" (5.3)
    let eff : Nat := match b with
      | .blist _ m .. => if prev == 8 && prevM == m % 3 then (m + 1) % 3 else m % 3
      | .olist _ _ _ p .. => if prev == 9 && prevM == (if p then 1 else 0) then (if p then 0 else 1) else (if p then 1 else 0)
      | .refdefs _ => if prev == 8 || prev == 9 then 1 else 0
      | _ => 0
    let sep : List Line :=
      if prev == 0 then []
      else if tightCtx then []
      else if !looseCtx && ch.abut && canAbut prev b then []
      else [blankLine]
    sep ++ spellB ind eff b ++ spellBs tightCtx looseCtx k eff rest
/-- items of one list; `ord` = (start, leading zeros, delimiter) for ordered lists -/
def spellItems (ind : Nat) (bullet : Bytes) (sp : Nat) (tight : Bool) (ord : Option (Nat × Nat × UInt8)) : List Block → List Line
  | [] => []
  | .item kids :: rest =>
    let marker : Bytes := match ord with
      | some (n, z, d) => zeros (min z (9 - (decStr n).length)) ++ decStr n ++ [d]
      | none => bullet
    let body := itemLines ind marker sp (spellBs tight (!tight) 0 0 kids)
    let ord' := ord.map fun (n, z, d) => (if (decStr (n + 1)).length ≤ 9 then n + 1 else n, z, d)
    body ++ (if rest.isEmpty || tight then [] else [blankLine]) ++ spellItems ind bullet sp tight ord' rest
  | _ :: rest => spellItems ind bullet sp tight ord rest
end

/-- leading whitespace of `n` columns starting at column 0, written with spaces or with tabs reaching the
    same column (2.2: "tabs … behave as if they were replaced by spaces with a tab stop of 4 characters") -/
def spellIndent (mode n : Nat) : Bytes :=
  if mode % 3 == 0 || n < 4 then spaces n
  else if mode % 3 == 1 then List.replicate (n / 4) 9 ++ spaces (n % 4)
  else [32, 32, 9] ++ List.replicate (n / 4 - 1) 9 ++ spaces (n % 4)

/-- `k` columns of white space starting at column `col`: as many tabs as fit (each reaches the next multiple
    of 4), then spaces -/
def wsGreedy : Nat → Nat → Nat → Bytes
  | 0, _, k => spaces k
  | fuel + 1, col, k =>
    if k == 0 then []
    else if col - col % 4 + 4 ≤ col + k then 9 :: wsGreedy fuel (col - col % 4 + 4) (col + k - (col - col % 4 + 4))
    else spaces k

/-- white space after a marker (2.2, examples 5–9: `>\t\tfoo`, `-\t\tfoo`): spaces, tabs reaching the same
    column, or one space and then tabs reaching the same column -/
def wsFrom (mode col k : Nat) : Bytes :=
  if mode % 3 == 0 then spaces k
  else if mode % 3 == 2 && col - col % 4 + 4 ≤ col + k && col % 4 ≤ 2 then
    32 :: 9 :: wsGreedy k (col - col % 4 + 4) (col + k - (col - col % 4 + 4))
  else wsGreedy k col k

/-- expand the symbolic marker white space, tracking the column (every other byte is one column wide) -/
def renderBody (modeQ modeD modeL : Nat) : Nat → Bytes → Bytes
  | _, [] => []
  | _, [c] => if c == wsMarkQ || c == wsMarkL || c == wsMarkD then [] else [c]
  | col, c :: k :: rest =>
    if c == wsMarkQ then wsFrom modeQ col k.toNat ++ renderBody modeQ modeD modeL (col + k.toNat) rest
    else if c == wsMarkD then wsFrom modeD col k.toNat ++ renderBody modeQ modeD modeL (col + k.toNat) rest
    else if c == wsMarkL then wsFrom modeL col k.toNat ++ renderBody modeQ modeD modeL (col + k.toNat) rest
    else c :: renderBody modeQ modeD modeL (col + 1) (k :: rest)

def renderLine (mode modeQ modeD modeL : Nat) (l : Line) : Bytes :=
  spellIndent mode (lcol l) ++ renderBody modeQ modeD modeL (lcol l) l.2

def joinLines : List Bytes → Bytes
  | [] => []
  | [l] => l
  | l :: rest => l ++ [10] ++ joinLines rest

/-- the Markdown source of an annotated document -/
def spell (d : Doc) : Bytes :=
  let ls := (spellBs false false 0 0 d.blocks).map (renderLine d.tabMode d.tabQuote d.tabQuoteD d.tabList)
  joinLines ls ++ (if d.finalNewline then [10] else [])

/-! ## expected HTML of blocks -/

def codeText (lines : List Bytes) : Bytes := lines.flatMap fun l => escHtml l ++ [10]

def infoLang (info : Bytes) : Bytes := info.takeWhile (· != 32)

mutual
/-- `tight`: the block is a direct child of a tight list item; `last`: and it is the item's last child -/
def expB (tight last : Bool) : Block → List Piece
  | .para _ kids _ =>
    -- tight: `<li>` directly followed by the paragraph's text, no newline between a final paragraph and `</li>`
    if tight then expIs kids ++ (if last then [] else [nl]) else wrap (strBytes "p") [] (expIs kids) ++ [nl]
  | .heading _ level _ _ _ kids => wrap ([104] ++ decStr level) [] (expIs kids) ++ [nl]
  | .thematic .. => [.voidT (strBytes "hr") [], nl]
  | .icode lines => wrap (strBytes "pre") [] (wrap (strBytes "code") [] [.txt (codeText lines)]) ++ [nl]
  | .fcode _ _ _ _ _ info _ lines =>
    wrap (strBytes "pre") []
      (wrap (strBytes "code") (if info.isEmpty then [] else attr "class" (strBytes "language-" ++ escHtml (infoLang info)))
        [.txt (codeText lines)]) ++ [nl]
  | .quote _ _ kids => wrap (strBytes "blockquote") [] (nl :: expBs false false kids) ++ [nl]
  | .blist _ _ _ t items => wrap (strBytes "ul") [] (nl :: expBs t false items) ++ [nl]
  | .olist _ start _ _ _ t items =>
    wrap (strBytes "ol") (if start == 1 then [] else attr "start" (decStr start)) (nl :: expBs t false items) ++ [nl]
  | .item kids =>
    -- tight: `<li>` is directly followed by the text of a leading paragraph, by a newline before any other block
    wrap (strBytes "li") [] (if tight then (if startsWithPara kids then [] else [nl]) ++ expBs true true kids
                             else nl :: expBs false false kids) ++ [nl]
  | .refdefs _ => []
  | .html lines => [.raw (lines.flatMap fun l => l ++ [10])]
/-- `inItem`: the blocks are the children of a list item (the last one is told so) -/
def expBs (tight inItem : Bool) : List Block → List Piece
  | [] => []
  | b :: rest => expB tight (inItem && rest.isEmpty) b ++ expBs tight inItem rest
end

/-- the HTML the specification prescribes (reference renderer, XHTML void elements) -/
def expectedPieces (d : Doc) : List Piece := expBs false false d.blocks
def expected (d : Doc) : Bytes := render (expectedPieces d)


/-! ## erasing the choices: what is left is the structure `expected` depends on -/

def eraseChars (cs : List TChar) : List TChar := cs.map fun t => ⟨t.c, .lit⟩

mutual
def eraseI : Inline → Inline
  | .text cs => .text (eraseChars cs)
  | .emph _ kids => .emph false (eraseIs kids)
  | .strong _ kids => .strong false (eraseIs kids)
  | .code content _ _ => .code content 0 false
  | .link kids dest title label _ => .link (eraseIs kids) dest title label {}
  | .image kids dest title label _ => .image (eraseIs kids) dest title label {}
  | .autolink uri email => .autolink uri email
  | .rawHtml b => .rawHtml b
  | .hardBreak _ _ => .hardBreak false 0
  | .softBreak => .softBreak
def eraseIs : List Inline → List Inline
  | [] => []
  | x :: rest => eraseI x :: eraseIs rest
end

mutual
def eraseB : Block → Block
  | .para _ kids _ => .para {} (eraseIs kids) 0
  | .heading _ level _ _ _ kids => .heading {} level false 0 0 (eraseIs kids)
  | .thematic .. => .thematic {} 0 0 false
  | .icode lines => .icode lines
  | .fcode _ _ _ _ _ info _ lines => .fcode {} false 0 0 0 info 0 lines
  | .quote _ _ kids => .quote {} false (eraseBs kids)
  | .blist _ _ _ tight items => .blist {} 0 0 tight (eraseBs items)
  | .olist _ start _ _ _ tight items => .olist {} start 0 false 0 tight (eraseBs items)
  | .item kids => .item (eraseBs kids)
  | .refdefs defs => .refdefs defs
  | .html lines => .html lines
def eraseBs : List Block → List Block
  | [] => []
  | b :: rest => eraseB b :: eraseBs rest
end

def eraseDoc (d : Doc) : Doc := { blocks := eraseBs d.blocks }

/-! ## respelling every `&` / `"` of destinations and titles as an entity (to attribute a difference to the
    backslash spelling alone) -/

mutual
def entAllI : Inline → Inline
  | .emph u kids => .emph u (entAllIs kids)
  | .strong u kids => .strong u (entAllIs kids)
  | .link kids dest title label ch => .link (entAllIs kids) dest title label { ch with ent := true }
  | .image kids dest title label ch => .image (entAllIs kids) dest title label { ch with ent := true }
  | x => x
def entAllIs : List Inline → List Inline
  | [] => []
  | x :: rest => entAllI x :: entAllIs rest
end

mutual
def entAllB : Block → Block
  | .para ch kids c => .para ch (entAllIs kids) c
  | .heading ch l se cl sp kids => .heading ch l se cl sp (entAllIs kids)
  | .quote ch t kids => .quote ch t (entAllBs kids)
  | .blist ch m sp t items => .blist ch m sp t (entAllBs items)
  | .olist ch st z p sp t items => .olist ch st z p sp t (entAllBs items)
  | .item kids => .item (entAllBs kids)
  | .refdefs defs => .refdefs (defs.map fun d => { d with ent := true })
  | b => b
def entAllBs : List Block → List Block
  | [] => []
  | b :: rest => entAllB b :: entAllBs rest
end

def entAllDoc (d : Doc) : Doc := { d with blocks := entAllBs d.blocks }

/-! ## wellFormed: the restrictions that make the reading of `spell` unambiguous -/

def isBreak : Inline → Bool
  | .hardBreak .. => true
  | .softBreak => true
  | _ => false

def isEmphLike : Inline → Bool
  | .emph .. => true
  | .strong .. => true
  | _ => false

def isLinkNode : Inline → Bool
  | .link .. => true
  | _ => false

/-- the node is spelled as a shortcut reference `[foo]` (6.3: a following `[`, `(` or, at a line start, `:`
    would change its reading) -/
def isShortcut : Inline → Bool
  | .link _ _ _ _ ch => ch.style == .shortcut
  | .image _ _ _ _ ch => ch.style == .shortcut
  | _ => false

/-- may begin a line of a paragraph: nothing that could be read as a block start (4.1–4.9, 5.1, 5.2).
    A letter, a backslash escape, an entity, or an inline construct whose opener is not a block marker. -/
def startOK : Inline → Bool
  | .text (t :: _) => t.c != 32 && (isLetter (srcFirst t) || srcFirst t == 92 || srcFirst t == 38)
  | .text [] => false
  | .rawHtml _ => false               -- 4.6 start condition 7: a line that begins with a complete tag
  | .hardBreak .. => false
  | .softBreak => false
  | _ => true

/-- may end a line: no trailing literal space (it would be stripped, or make a hard break) -/
def endOK : Inline → Bool
  | .text cs => match cs.getLast? with
    | some t => t.c != 32
    | none => false
  | .hardBreak .. => false
  | .softBreak => false
  | _ => true

def endsLitBang : Inline → Bool
  | .text cs => match cs.getLast? with
    | some t => t.c == 33 && srcLast t == 33 && (spellChar t).length == 1
    | none => false
  | _ => false

def okAfterShortcut : Inline → Bool
  | .text (t :: _) => isAlnumC (srcFirst t) || srcFirst t == 32
  | .hardBreak .. => true
  | .softBreak => true
  | _ => false

/-- constraints between neighbours in one inline sequence -/
def pairsOK : List Inline → Bool
  | [] => true
  | [_] => true
  | x :: y :: rest =>
    !(isEmphLike x && isEmphLike y) &&                       -- 6.2: adjacent delimiter runs would merge
    !(isBreak y && !endOK x) && !(isBreak x && !startOK y) && -- 6.7/6.8
    !(endsLitBang x && isLinkNode y) &&                      -- 6.4: `!` + link is an image
    !(isShortcut x && !okAfterShortcut y) &&
    pairsOK (y :: rest)

/-- 6.2 (delimiter-run algorithm, rule of three): emphasis nested directly inside emphasis is only read as
    nested when its opener cannot close and its closer cannot open, i.e. when the characters outside its
    delimiters are not alphanumeric (`*a**b**c*` and `**a*b*c**` have other readings) -/
def nestedEmphOK : Bool → List Inline → Bool
  | _, [] => true
  | prevAl, x :: rest =>
    (!isEmphLike x || (!prevAl && !(match rest with | y :: _ => startsAlnum y | [] => false))) &&
    nestedEmphOK (endsAlnum x) rest

def seqOK (kids : List Inline) : Bool :=
  match kids, kids.getLast? with
  | first :: _, some last => !isBreak first && !isBreak last && pairsOK kids
  | _, _ => false

/-! ### raw inline HTML (6.6) and autolinks (6.5): small recognisers -/

def contains (hay needle : Bytes) : Bool :=
  (List.range (hay.length + 1)).any fun i => (hay.drop i).take needle.length == needle

def attrNameStart (c : UInt8) : Bool := isLetter c || c == 95 || c == 58
def attrNameChar (c : UInt8) : Bool := isAlnumC c || c == 95 || c == 58 || c == 46 || c == 45
def unquotedChar (c : UInt8) : Bool :=
  printable c && c != 32 && c != 34 && c != 39 && c != 61 && c != 60 && c != 62 && c != 96

/-- attribute list up to and including the closing `>` / `/>` -/
def attrsOK : Nat → Bytes → Bool
  | _, [62] => true
  | _, [47, 62] => true
  | 0, _ => false
  | fuel + 1, 32 :: r =>
    let r := r.dropWhile isSp
    if r == [62] || r == [47, 62] then true
    else match r with
      | c :: r1 =>
        if !attrNameStart c then false
        else
          let r2 := r1.dropWhile attrNameChar
          match r2 with
          | 61 :: 34 :: r3 => (match r3.dropWhile (· != 34) with
            | 34 :: r4 => attrsOK fuel r4
            | _ => false)
          | 61 :: 39 :: r3 => (match r3.dropWhile (· != 39) with
            | 39 :: r4 => attrsOK fuel r4
            | _ => false)
          | 61 :: r3 => !(r3.takeWhile unquotedChar).isEmpty && attrsOK fuel (r3.dropWhile unquotedChar)
          | _ => attrsOK fuel r2
      | [] => false
  | _, _ => false

def tagNameChar (c : UInt8) : Bool := isAlnumC c || c == 45

def openTagOK (b : Bytes) : Bool :=
  match b with
  | 60 :: c :: r => isLetter c && attrsOK b.length (r.dropWhile tagNameChar)
  | _ => false

def closeTagOK (b : Bytes) : Bool :=
  match b with
  | 60 :: 47 :: c :: r => isLetter c && (r.dropWhile tagNameChar).dropWhile isSp == [62]
  | _ => false

def commentOK (b : Bytes) : Bool :=
  b.take 4 == strBytes "<!--" && b.length ≥ 7 && b.drop (b.length - 3) == strBytes "-->" &&
  !contains ((b.drop 4).take (b.length - 5)) (strBytes "-->") && !contains ((b.drop 4).take (b.length - 6)) (strBytes "--")
  && (b.drop 4).head? != some 62 && (b.drop 4).take 2 != strBytes "->"

def piOK (b : Bytes) : Bool :=
  b.take 2 == strBytes "<?" && b.length ≥ 4 && b.drop (b.length - 2) == strBytes "?>" &&
  !contains ((b.drop 2).take (b.length - 3)) (strBytes "?>")

def rawOK (b : Bytes) : Bool := b.all printable && (openTagOK b || closeTagOK b || commentOK b || piOK b)

def schemeChar (c : UInt8) : Bool := isAlnumC c || c == 43 || c == 46 || c == 45

def uriOK (u : Bytes) : Bool :=
  let sch := u.takeWhile schemeChar
  match u.dropWhile schemeChar with
  | 58 :: rest =>
    2 ≤ sch.length && sch.length ≤ 32 && (match sch with | c :: _ => isLetter c | [] => false) &&
      rest.all (fun c => printable c && c != 32 && c != 60 && c != 62)
  | _ => false

def localChar (c : UInt8) : Bool := isAlnumC c || c == 46 || c == 95 || c == 43 || c == 45

def domainOK (d : Bytes) : Bool :=
  let labels := (splitLines (d.map fun c => if c == 46 then 10 else c))
  labels.all fun l => !l.isEmpty && l.length ≤ 20 && l.all isAlnumC

def emailOK (u : Bytes) : Bool :=
  let loc := u.takeWhile localChar
  match u.dropWhile localChar with
  | 64 :: dom => !loc.isEmpty && domainOK dom
  | _ => false

/-! ### inlines -/

structure ICtx where
  inLink : Bool := false      -- 6.3: links may not contain other links
  inImage : Bool := false     -- image descriptions are kept to text / emphasis / code
  noBreaks : Bool := false    -- headings are single lines
deriving Repr

def litLabelChars (cs : List TChar) : Bool := cs.all fun t => (isAlnumC t.c || t.c == 32) && spellChar t == [t.c]

def linkPartsOK (kids : List Inline) (dest : Bytes) (title : Option Bytes) (label : Bytes) (ch : LinkCh) : Bool :=
  dest.all printable && (match title with | some t => t.all printable | none => true) &&
  (match ch.style with
   | .inline => true
   | .full => labelOK label
   | _ => labelOK label && (match kids with
      | [.text cs] => litLabelChars cs && plain cs == label
      | _ => false))

mutual
def inlineOK (cx : ICtx) : Inline → Bool
  | .text cs => !cs.isEmpty && cs.all fun t => printable t.c
  | .emph _ kids => emphKidsOK kids && seqOK kids && nestedEmphOK false kids && inlinesOK cx kids
  | .strong _ kids => emphKidsOK kids && seqOK kids && nestedEmphOK false kids && inlinesOK cx kids
  | .code content _ _ => !content.isEmpty && content.all printable
  | .link kids dest title label ch =>
    !cx.inLink && !cx.inImage && seqOK kids && linkPartsOK kids dest title label ch && inlinesOK { cx with inLink := true } kids
  | .image kids dest title label ch =>
    !cx.inImage && seqOK kids && linkPartsOK kids dest title label ch && inlinesOK { cx with inImage := true } kids
  | .autolink uri email => !cx.inLink && !cx.inImage && (if email then emailOK uri else uriOK uri)
  | .rawHtml b => !cx.inImage && rawOK b
  | .hardBreak _ n => !cx.noBreaks && !cx.inImage && n ≤ 3
  | .softBreak => !cx.noBreaks && !cx.inImage
def inlinesOK (cx : ICtx) : List Inline → Bool
  | [] => true
  | x :: rest => inlineOK cx x && inlinesOK cx rest
/-- 6.2: the text just inside the delimiters is alphanumeric, so the opener is left-flanking and the closer
    right-flanking whatever surrounds them -/
def emphKidsOK : List Inline → Bool
  | [] => false
  | x :: rest => startsAlnum x && (match (x :: rest).getLast? with | some l => endsAlnum l | none => false)
end

def paraOK (cx : ICtx) (kids : List Inline) : Bool :=
  seqOK kids && inlinesOK cx kids &&
  (match kids, kids.getLast? with
   | first :: _, some last => startOK first && endOK last
   | _, _ => false)

/-! ### blocks -/

def nonBlank (l : Bytes) : Bool := l.any (· != 32)

def trimSp (l : Bytes) : Bytes := ((l.dropWhile isSp).reverse.dropWhile isSp).reverse

def infoChar (c : UInt8) : Bool := isAlnumC c || c == 43 || c == 45 || c == 46 || c == 95 || c == 32

def fenceCloser (fc : UInt8) (len : Nat) (l : Bytes) : Bool :=
  let t := trimSp l
  !t.isEmpty && t.all (· == fc) && t.length ≥ len

def startsWithB (pre s : Bytes) : Bool := s.take pre.length == pre

def lowerB (b : Bytes) : Bytes := b.map lower

def blockTagNames : List Bytes := ["address", "article", "aside", "blockquote", "details", "dialog", "dd", "div", "dl", "dt",
  "fieldset", "figcaption", "figure", "footer", "form", "h1", "h2", "h3", "h4", "h5", "h6", "header", "hr", "li", "main",
  "menu", "nav", "ol", "p", "section", "summary", "table", "tbody", "td", "tfoot", "th", "thead", "tr", "ul"].map strBytes

def type1Names : List Bytes := ["pre", "script", "style", "textarea"].map strBytes

/-- `<name` or `</name` followed by a space, `>`, `/>` or the end of the line -/
def tagStartIn (names : List Bytes) (allowClose : Bool) (l : Bytes) : Bool :=
  match l with
  | 60 :: r =>
    let r := if allowClose && r.head? == some 47 then r.drop 1 else r
    let name := lowerB (r.takeWhile isAlnumC)
    let after := r.dropWhile isAlnumC
    names.contains name && (after.isEmpty || after.head? == some 32 || after.head? == some 62 || after.take 2 == [47, 62])
  | _ => false

/-- 4.6: the start condition (1–7) the first line meets, 0 if none -/
def htmlType (first : Bytes) : Nat :=
  if tagStartIn type1Names false first then 1
  else if startsWithB (strBytes "<!--") first then 2
  else if startsWithB (strBytes "<?") first then 3
  else if (match first with | 60 :: 33 :: c :: _ => isLetter c | _ => false) then 4
  else if startsWithB (strBytes "<![CDATA[") first then 5
  else if tagStartIn blockTagNames true first then 6
  else if openTagOK (trimSp first) || closeTagOK (trimSp first) then 7
  else 0

def endMarkers (ty : Nat) : List Bytes :=
  match ty with
  | 1 => ["</pre>", "</script>", "</style>", "</textarea>"].map strBytes
  | 2 => [strBytes "-->"]
  | 3 => [strBytes "?>"]
  | 4 => [strBytes ">"]
  | 5 => [strBytes "]]>"]
  | _ => []

def htmlBlockOK (lines : List Bytes) : Bool :=
  match lines with
  | [] => false
  | first :: _ =>
    lines.all (fun l => l.all printable && nonBlank l) && first.head? != some 32 &&
    (let ty := htmlType first
     if ty == 0 then false
     else if ty ≥ 6 then true
     else
       let hasEnd := fun (l : Bytes) => (endMarkers ty).any fun m => contains (lowerB l) m
       (match lines.getLast? with | some l => hasEnd l | none => false) && !lines.dropLast.any hasEnd)

def refDefOK (d : RefDef) : Bool :=
  labelOK d.label && d.dest.all printable && (match d.title with | some t => t.all printable | none => true)

def isItem : Block → Bool
  | .item .. => true
  | _ => false
def isRefdefs : Block → Bool
  | .refdefs .. => true
  | _ => false
def isPara : Block → Bool
  | .para .. => true
  | _ => false
def itemKids : Block → List Block
  | .item ks => ks
  | _ => []

/-- blocks that may directly follow a list marker (5.2 rule 1: "a sequence of lines Ls constitut[ing] a sequence of
    blocks Bs starting with a non-whitespace character"): not an indented chunk (rule 2 changes the offset), not a
    `-`/`*` thematic break (4.1: `- - -` / `* * *` lines are thematic breaks, not items), nothing that renders nothing -/
def firstInItemOK : Block → Bool
  | .para .. => true
  | .heading _ _ se .. => !se
  | .fcode .. => true
  | .quote .. => true
  | .blist .. => true
  | .olist .. => true
  | .thematic _ c _ _ => c % 3 == 2
  | _ => false

/-- consecutive children of a tight list item must be able to follow each other without a blank line -/
def abutChain : Nat → List Block → Bool
  | _, [] => true
  | prev, b :: rest => (prev == 0 || canAbut prev b) && abutChain (kindOf b) rest

/-- 5.3: looseness must be witnessed by a blank line between two items or two rendered blocks of an item -/
def looseWitness (items : List Block) : Bool :=
  items.length ≥ 2 || items.any fun it => ((itemKids it).filter (!isRefdefs ·)).length ≥ 2

/-- sibling constraints: 4.4 (an indented chunk after a list item would belong to the item; two indented
    chunks separated by blank lines are one block) -/
def siblingsOK : Nat → List Block → Bool
  | _, [] => true
  | prev, b :: rest =>
    !(kindOf b == 5 && (prev == 5 || prev == 8 || prev == 9)) && siblingsOK (kindOf b) rest

mutual
def blockOK : Block → Bool
  | .para _ kids _ => paraOK {} kids
  | .heading _ level setext closing _ kids =>
    1 ≤ level && level ≤ 6 && (!setext || level ≤ 2) && closing ≤ 8 && paraOK { noBreaks := true } kids
  | .thematic _ _ n _ => n ≤ 6
  | .icode lines => !lines.isEmpty && lines.all fun l => l.all printable && nonBlank l
  | .fcode _ tilde len closeExtra _ info _ lines =>
    len ≤ 4 && closeExtra ≤ 3 && info.all infoChar && info.head? != some 32 && info.getLast? != some 32 &&
    -- a whitespace-only content line inside a list item is a blank line (5.2): its spaces are not content
    lines.all fun l => l.all printable && (l.isEmpty || nonBlank l) && !fenceCloser (if tilde then 126 else 96) (len + 3) l
  | .quote _ _ kids => blocksOK kids
  | .blist _ _ _ tight items => itemsOK tight items && !items.isEmpty && (tight || looseWitness items)
  | .olist _ start zeros _ _ tight items =>
    start + items.length ≤ 999999999 && zeros ≤ 8 && itemsOK tight items && !items.isEmpty && (tight || looseWitness items)
  | .item _ => false
  | .refdefs defs => !defs.isEmpty && defs.all refDefOK
  | .html lines => htmlBlockOK lines
def blocksOKaux : List Block → Bool
  | [] => true
  | b :: rest => blockOK b && blocksOKaux rest
def blocksOK (bs : List Block) : Bool := blocksOKaux bs && siblingsOK 0 bs
def itemsOK (tight : Bool) : List Block → Bool
  | [] => true
  | .item kids :: rest =>
    (match kids with | b :: _ => firstInItemOK b | [] => false) && blocksOK kids && (!tight || abutChain 0 kids) &&
    itemsOK tight rest
  | _ :: _ => false
end

/-! ### references: every reference-style link has exactly one matching definition -/

structure RefUse where
  label : Bytes
  dest : Bytes
  title : Option Bytes
deriving Repr, BEq, DecidableEq

mutual
def usesI : Inline → List RefUse
  | .emph _ kids => usesIs kids
  | .strong _ kids => usesIs kids
  | .link kids dest title label ch =>
    (if ch.style == .inline then [] else [⟨normLabel label, dest, title⟩]) ++ usesIs kids
  | .image kids dest title label ch =>
    (if ch.style == .inline then [] else [⟨normLabel label, dest, title⟩]) ++ usesIs kids
  | _ => []
def usesIs : List Inline → List RefUse
  | [] => []
  | x :: rest => usesI x ++ usesIs rest
end

mutual
def usesB : Block → List RefUse
  | .para _ kids _ => usesIs kids
  | .heading _ _ _ _ _ kids => usesIs kids
  | .quote _ _ kids => usesBs kids
  | .blist _ _ _ _ items => usesBs items
  | .olist _ _ _ _ _ _ items => usesBs items
  | .item kids => usesBs kids
  | _ => []
def usesBs : List Block → List RefUse
  | [] => []
  | b :: rest => usesB b ++ usesBs rest
end

mutual
def defsB : Block → List RefUse
  | .quote _ _ kids => defsBs kids
  | .blist _ _ _ _ items => defsBs items
  | .olist _ _ _ _ _ _ items => defsBs items
  | .item kids => defsBs kids
  | .refdefs defs => defs.map fun d => ⟨normLabel d.label, d.dest, d.title⟩
  | _ => []
def defsBs : List Block → List RefUse
  | [] => []
  | b :: rest => defsB b ++ defsBs rest
end

def refsOK (bs : List Block) : Bool :=
  let defs := defsBs bs
  let labels := defs.map (·.label)
  labels.eraseDups.length == labels.length && (usesBs bs).all fun u => defs.contains u

/-- the decidable side condition of the whole generator -/
def wellFormed (d : Doc) : Bool := blocksOK d.blocks && refsOK d.blocks

/-- the part of the spec tests' own normalisation (whitespace next to block-level tags is ignored) that the
    comparison needs: a newline directly before a closing container tag and newlines at the very end are
    dropped (goldmark writes an HTML block that ends at EOF without a line ending as it stands in the source,
    the reference renderer adds the newline). Everything else is compared byte for byte. -/
def normalise (b : Bytes) : Bytes :=
  let closers : List Bytes := ["</blockquote>", "</li>", "</ul>", "</ol>"].map strBytes
  let r := b.foldr (fun c (acc : Bytes) =>
    if c == 10 && (acc.isEmpty || closers.any fun t => acc.take t.length == t) then acc else c :: acc) []
  r

end GM.Spec.CM
