/-
  GM.Spec.RenderInv — the decidable tree invariant under which the safe-mode theorems of C03 are stated.
  It says what the *parser* is relied on to establish (and what the public AST API lets a caller break).
  The harness evaluates it on every dumped parser output (monitored, not proved: the block/inline parsers
  are not modelled).
-/
import GM.Model.Render
import GM.Spec.Html
namespace GM.Spec
open GM

/-- attribute names the strict tokenizer (and XML) accepts: `[A-Za-z_:][A-Za-z0-9_:.-]*` -/
def attrNameOK : Bytes → Bool
  | [] => false
  | c :: r => isAttrStartB c && r.all isAttrNameB

def attrsInv : Option (List Attr) → Bool
  | none => true
  | some as => as.all (fun a => attrNameOK a.name) && (as.map (·.name)).eraseDups.length == as.length

/-- a byte string that may be written verbatim into text or into an attribute value -/
def inertBytes (b : Bytes) : Bool := ampsOK b && b.all (fun c => c != 60 && c != 62 && c != 34)

/-- a Table is one TableHeader followed by TableRows -/
def tableShape : List Node → Bool
  | .mk .tableHeader _ _ :: rows => rows.all fun r => r.kind == .tableRow
  | _ => false

def isCellK : Kind → Bool | .tableCell _ => true | _ => false

/-- attribute names the renderer function of this kind writes itself *and* whose allow-list would also let the
    same name through from the node's own attributes (`<ol start=…>`, `title` of links and images, the footnote
    `<li id=…>`, `class`/`role` of the footnote list `<div>`). -/
def fixedAttrNames : Kind → List Bytes
  | .list ordered start => if ordered && start != 1 then [strBytes "start"] else []
  | .link _ (some _) => [strBytes "title"]
  | .image _ (some _) => [strBytes "title"]
  | .footnote _ => [strBytes "id"]
  | .footnoteList => [strBytes "class", strBytes "role"]
  | _ => []

/-- the node's own attributes do not repeat a name its renderer function writes itself (otherwise the start tag
    carries the same attribute twice: HTML parsers ignore the second, XML parsers reject the document). The
    parsers only ever attach attributes to headings, which have no fixed attributes. -/
def noClash (k : Kind) : Option (List Attr) → Bool
  | none => true
  | some as => as.all fun a => !(fixedAttrNames k).contains a.name

inductive Ctx | any | table | row
deriving DecidableEq

mutual
/-- `ctx` = what the parent is (table kinds are only allowed in their places) -/
def nodeInv (rc : RCfg) (ctx : Ctx) : Node → Bool
  | .mk k attrs cs =>
    attrsInv attrs && noClash k attrs &&
    (match k with
     | .heading level => 1 ≤ level && level ≤ 6
     | .codeSpan => codeSpanChildrenText cs
     | .string v _ code => !code || inertBytes v
     | .table => tableShape cs
     | .tableHeader | .tableRow => ctx == .table && cs.all (fun c => isCellK c.kind)
     | .tableCell align =>
       ctx == .row && (nodePanic rc (.tableCell align) attrs cs).isNone
     | _ => true) &&
    nodesInv rc (match k with
      | .table => .table
      | .tableHeader | .tableRow => .row
      | _ => .any) cs
def nodesInv (rc : RCfg) (ctx : Ctx) : List Node → Bool
  | [] => true
  | c :: rest => nodeInv rc ctx c && nodesInv rc ctx rest
end

/-- the footnote renderer's configurable strings are inert (true of the defaults) -/
def footCfgInv (f : FootCfg) : Bool :=
  inertBytes (f.idPrefix.getD []) && inertBytes f.linkClass && inertBytes f.backlinkClass && inertBytes f.backlinkHTML

/-- the invariant of C03 -/
def Inv (rc : RCfg) (t : Node) : Bool := nodeInv rc .any t && footCfgInv rc.footc

end GM.Spec
