/-
  GM.Spec.Forest — the plain "list of children" meaning of goldmark's AST mutation API and of Walk
  (property C13). Written from the doc comments of ast.Node (ast/ast.go:86-112) and the statement of
  C13, not from the code: a forest is a function from node id to its ordered list of children; a node's
  parent is *derived* (the node whose list contains it). Core Lean only.
-/
namespace GM.Spec

/-- node id → ordered list of children -/
abbrev Forest := Nat → List Nat

namespace Forest

def empty : Forest := fun _ => []

/-- replace the child list of `p` -/
def upd (f : Forest) (p : Nat) (l : List Nat) : Forest := fun q => if q = p then l else f q

/-- "a moved node leaves its old parent": drop `c` from every child list -/
def detach (f : Forest) (c : Nat) : Forest := fun q => (f q).erase c

/-- parent of `c`, derived from the child lists of the nodes `0 … n-1` -/
def parentOf (n : Nat) (f : Forest) (c : Nat) : Option Nat :=
  (List.range n).find? (fun p => (f p).contains c)

/-- element after `x` in `l` (NextSibling in the list model) -/
def nextIn : List Nat → Nat → Option Nat
  | [], _ => none
  | a :: t, x => if a = x then t.head? else nextIn t x

/-- element before `x` in `l` (PreviousSibling in the list model) -/
def prevIn : List Nat → Nat → Option Nat
  | [], _ => none
  | [_], _ => none
  | a :: b :: t, x => if b = x then some a else prevIn (b :: t) x

/-- insert `c` before `v`; when `v` is not in the list, append -/
def insBefore (c v : Nat) : List Nat → List Nat
  | [] => [c]
  | a :: t => if a = v then c :: a :: t else a :: insBefore c v t

/-- insert `c` after `v`; when `v` is not in the list, append -/
def insAfter (c v : Nat) : List Nat → List Nat
  | [] => [c]
  | a :: t => if a = v then a :: c :: t else a :: insAfter c v t

/-- put `c` in the place of `v`; when `v` is not in the list, append -/
def replaceIn (c v : Nat) : List Nat → List Nat
  | [] => [c]
  | a :: t => if a = v then c :: t else a :: replaceIn c v t

/-- insert `x` before the first element that is not smaller than `x` (`cmp a x < 0` = "a smaller") -/
def sortIns (cmp : Nat → Nat → Int) (x : Nat) : List Nat → List Nat
  | [] => [x]
  | a :: t => if cmp a x < 0 then a :: sortIns cmp x t else x :: a :: t

/-- SortChildren's list meaning: insertion sort, children taken in their current order -/
def sortList (cmp : Nat → Nat → Int) (l : List Nat) : List Nat :=
  l.foldl (fun acc x => sortIns cmp x acc) []

/-- One call of the mutation API. `none` is Go's `nil`. The receiver is always passed as `self`. -/
inductive Op where
  | append (p : Nat) (c : Option Nat)
  | insertBefore (p : Nat) (v c : Option Nat)
  | insertAfter (p : Nat) (v c : Option Nat)
  | replace (p : Nat) (v c : Option Nat)
  | remove (p : Nat) (c : Option Nat)
  | removeChildren (p : Nat)
  | sort (p : Nat) (cmp : Nat → Nat → Int)

/-- documented meaning of each call on the list model -/
def specStep (f : Forest) : Op → Forest
  | .append p (some c) => let g := detach f c; upd g p (g p ++ [c])
  | .insertBefore p v (some c) =>
      let g := detach f c
      upd g p (match v with | some v => insBefore c v (g p) | none => g p ++ [c])
  | .insertAfter p v (some c) =>
      let g := detach f c
      upd g p (match v with | some v => insAfter c v (g p) | none => g p ++ [c])
  | .replace p (some v) (some c) => let g := detach f c; upd g p (replaceIn c v (g p))
  | .remove p (some c) => upd f p ((f p).erase c)
  | .removeChildren p => upd f p []
  | .sort p cmp => upd f p (sortList cmp (f p))
  | _ => f   -- nil child (or nil node to replace): outside `Pre`, the Go code dereferences nil

def specRun (f : Forest) : List Op → Forest
  | [] => f
  | op :: ops => specRun (specStep f op) ops

/-- `Desc f a b`: `b` is `a` or lies in the subtree below `a` -/
inductive Desc (f : Forest) : Nat → Nat → Prop where
  | refl (a : Nat) : Desc f a a
  | step {a b c : Nat} : Desc f a b → c ∈ f b → Desc f a c

/-- The proviso of C13: no node is inserted into its own subtree (the inserted node is not the target
    parent or one of its ancestors) nor relative to itself; and the arguments Go dereferences are not nil. -/
def Pre (f : Forest) : Op → Prop
  | .append p (some c) => ¬ Desc f c p
  | .insertBefore p v (some c) => ¬ Desc f c p ∧ v ≠ some c
  | .insertAfter p v (some c) => ¬ Desc f c p ∧ v ≠ some c
  | .replace p (some v) (some c) => ¬ Desc f c p ∧ v ≠ c
  | .remove _ (some _) => True
  | .removeChildren _ => True
  | .sort _ _ => True
  | _ => False

def PreAll (f : Forest) : List Op → Prop
  | [] => True
  | op :: ops => Pre f op ∧ PreAll (specStep f op) ops

/-- a forest has no cycles: some height function strictly decreases from parent to child -/
def Acyclic (f : Forest) : Prop := ∃ ht : Nat → Nat, ∀ q x, x ∈ f q → ht x < ht q

end Forest

/-! ## Walk: depth-first traversal of a tree with a scripted visitor -/

/-- ast.WalkStatus: WalkStop = 1, WalkSkipChildren = 2, WalkContinue = 3; `other` = any other value -/
inductive Status where
  | stop | skip | cont | other
deriving DecidableEq, Repr

/-- a visitor as a table: (node, entering) ↦ (status, returned a non-nil error?) -/
abbrev Script := Nat → Bool → Status × Bool

/-- (node, entering) -/
abbrev Event := Nat × Bool

inductive Tree where
  | node (id : Nat) (kids : List Tree)

namespace Tree
def id : Tree → Nat
  | node a _ => a
def kids : Tree → List Tree
  | node _ k => k

mutual
def size : Tree → Nat
  | node _ ks => 1 + sizeL ks
def sizeL : List Tree → Nat
  | [] => 0
  | t :: ts => size t + sizeL ts
end

mutual
/-- `t` is the unfolding of the forest `f` at `t.id` -/
def IsTree (f : Forest) : Tree → Prop
  | node a ks => f a = idsL ks ∧ IsTreeL f ks
def IsTreeL (f : Forest) : List Tree → Prop
  | [] => True
  | t :: ts => IsTree f t ∧ IsTreeL f ts
def idsL : List Tree → List Nat
  | [] => []
  | t :: ts => (match t with | node a _ => a) :: idsL ts
end
end Tree

/-- what a Walk shows: the visitor calls in order, whether the walk was cut short, and whether it
    returned an error -/
structure WalkOut where
  events : List Event
  halted : Bool
  err : Bool
deriving DecidableEq, Repr

mutual
/-- textbook depth-first walk: enter, children left to right (unless skipped), leave; a stop status or
    an error ends everything at once -/
def dfs (s : Script) : Tree → WalkOut
  | .node a ks =>
    let r := s a true
    if r.2 || r.1 == .stop then ⟨[(a, true)], true, r.2⟩
    else
      let k := if r.1 == .skip then ⟨[], false, false⟩ else dfsL s ks
      if k.halted then ⟨(a, true) :: k.events, true, k.err⟩
      else
        let r2 := s a false
        ⟨(a, true) :: k.events ++ [(a, false)], r2.2 || r2.1 == .stop, r2.2⟩
def dfsL (s : Script) : List Tree → WalkOut
  | [] => ⟨[], false, false⟩
  | t :: ts =>
    let r := dfs s t
    if r.halted then r
    else
      let r2 := dfsL s ts
      ⟨r.events ++ r2.events, r2.halted, r2.err⟩
end

end GM.Spec
