/-
  GM.Spec.Vocab — the renderer's fixed vocabulary: the tags it can write and, per tag, the attribute names
  it writes itself plus the allow-list the code declares for that element (GM.Gen.RenderFacts, regenerated
  from /repo) — `data-*` is added by `Spec.vocabTok`.
-/
import GM.Spec.Html
import GM.Gen.RenderFacts
namespace GM.Spec
open GM

def sb (s : String) : Bytes := strBytes s

def vocab : List (Bytes × List Bytes) := [
  (sb "h1", Gen.HeadingAttributeFilter), (sb "h2", Gen.HeadingAttributeFilter), (sb "h3", Gen.HeadingAttributeFilter),
  (sb "h4", Gen.HeadingAttributeFilter), (sb "h5", Gen.HeadingAttributeFilter), (sb "h6", Gen.HeadingAttributeFilter),
  (sb "blockquote", Gen.BlockquoteAttributeFilter),
  (sb "pre", []),
  (sb "code", Gen.CodeAttributeFilter ++ [sb "class"]),
  (sb "ul", Gen.ListAttributeFilter), (sb "ol", Gen.ListAttributeFilter ++ [sb "start"]),
  (sb "li", Gen.ListItemAttributeFilter ++ [sb "id"]),
  (sb "p", Gen.ParagraphAttributeFilter),
  (sb "hr", Gen.ThematicAttributeFilter),
  (sb "a", Gen.LinkAttributeFilter ++ [sb "href", sb "title", sb "class", sb "role"]),
  (sb "em", Gen.EmphasisAttributeFilter), (sb "strong", Gen.EmphasisAttributeFilter),
  (sb "img", Gen.ImageAttributeFilter ++ [sb "src", sb "alt", sb "title"]),
  (sb "br", []),
  (sb "table", Gen.TableAttributeFilter), (sb "thead", Gen.TableHeaderAttributeFilter), (sb "tbody", []),
  (sb "tr", Gen.TableRowAttributeFilter),
  (sb "th", Gen.TableThCellAttributeFilter ++ [sb "align", sb "style"]),
  (sb "td", Gen.TableTdCellAttributeFilter ++ [sb "align", sb "style"]),
  (sb "del", Gen.StrikethroughAttributeFilter),
  (sb "input", [sb "checked", sb "disabled", sb "type"]),
  (sb "dl", Gen.DefinitionListAttributeFilter), (sb "dt", Gen.DefinitionTermAttributeFilter),
  (sb "dd", Gen.DefinitionDescriptionAttributeFilter),
  (sb "sup", [sb "id"]),
  (sb "div", Gen.GlobalAttributeFilter ++ [sb "class", sb "role"])
]

def allowedAttrs (tag : Bytes) : Option (List Bytes) := vocab.lookup tag

def vocabOK (ts : List Tok) : Bool := ts.all (vocabTok allowedAttrs)

/-- the C03 predicate on output bytes: tokenizes strictly, well nested, vocabulary, inert, void style -/
def safeHtmlOK (xhtml : Bool) (out : Bytes) : Bool :=
  match tokenize out with
  | some ts => wellNested ts && vocabOK ts && inert ts && ts.all (voidsOK xhtml)
  | none => false

/-- additionally well-formed as XML (given the HTML named references) -/
def xmlOK (out : Bytes) : Bool :=
  match tokenize out with
  | some ts => ts.all xmlTok
  | none => false

/-- first failing clause, for diagnostics -/
def safeHtmlClause (xhtml : Bool) (out : Bytes) : String :=
  match tokenize out with
  | none => "not-tokenizable"
  | some ts =>
    if !wellNested ts then "not-well-nested"
    else if !vocabOK ts then "outside-vocabulary"
    else if !inert ts then "not-inert"
    else if !ts.all (voidsOK xhtml) then "void-style"
    else if xhtml && !ts.all xmlTok then "not-xml"
    else "ok"

end GM.Spec
