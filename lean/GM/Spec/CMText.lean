/-
  GM.Spec.CMText — spec-side spelling of literal text in CommonMark source (part of the C02 generator):
  every printable ASCII character can be written literally, with a backslash (punctuation only), as a decimal
  or hexadecimal numeric character reference (with leading zeros, either case), or as a named HTML5 entity
  where one exists (CommonMark 0.31.2 sections 2.4 "Backslash escapes" and 2.5 "Entity and numeric character
  references"). Written from the specification text, independently of goldmark's code. Core Lean only.
-/
import GM.Model.Basic
namespace GM.Spec.CM
open GM

/-- How one character of literal text is written in the source. -/
inductive Esc where
  | lit                                         -- the character itself (where that is safe, else a backslash)
  | bs                                          -- backslash escape (ASCII punctuation only; else literal)
  | dec (pad : Nat)                             -- `&#NN;` with `pad` leading zeros (at most 7 digits in all)
  | hex (pad : Nat) (upX upD : Bool)            -- `&#xHH;` / `&#XHH;`, digits in either case (at most 6 digits)
  | named                                       -- `&name;` where an HTML5 name exists for the character
deriving Repr, BEq, DecidableEq, Inhabited

structure TChar where
  c : UInt8
  e : Esc
deriving Repr, BEq, DecidableEq, Inhabited

def printable (c : UInt8) : Bool := 32 ≤ c && c ≤ 126

def isAsciiPunct (c : UInt8) : Bool :=
  (33 ≤ c && c ≤ 47) || (58 ≤ c && c ≤ 64) || (91 ≤ c && c ≤ 96) || (123 ≤ c && c ≤ 126)
def isDigit (c : UInt8) : Bool := 48 ≤ c && c ≤ 57
def isLetter (c : UInt8) : Bool := (97 ≤ c && c ≤ 122) || (65 ≤ c && c ≤ 90)
def isAlnumC (c : UInt8) : Bool := isLetter c || isDigit c

/-- Characters that are never written literally inside running text, because a literal occurrence could
    start or end an inline construct: `\ & * _ backtick [ ] < #` (the `#` because of ATX closing sequences). -/
def mustEscape (c : UInt8) : Bool :=
  c == 92 || c == 38 || c == 42 || c == 95 || c == 96 || c == 91 || c == 93 || c == 60 || c == 35

/-- HTML5 entity names for printable ASCII punctuation (section 2.5: "any valid HTML5 entity name"). -/
def namedFor (c : UInt8) : Option Bytes :=
  if c == 33 then some (strBytes "excl") else if c == 34 then some (strBytes "quot")
  else if c == 35 then some (strBytes "num") else if c == 36 then some (strBytes "dollar")
  else if c == 37 then some (strBytes "percnt") else if c == 38 then some (strBytes "amp")
  else if c == 39 then some (strBytes "apos") else if c == 40 then some (strBytes "lpar")
  else if c == 41 then some (strBytes "rpar") else if c == 42 then some (strBytes "ast")
  else if c == 43 then some (strBytes "plus") else if c == 44 then some (strBytes "comma")
  else if c == 46 then some (strBytes "period") else if c == 47 then some (strBytes "sol")
  else if c == 58 then some (strBytes "colon") else if c == 59 then some (strBytes "semi")
  else if c == 60 then some (strBytes "lt") else if c == 61 then some (strBytes "equals")
  else if c == 62 then some (strBytes "gt") else if c == 63 then some (strBytes "quest")
  else if c == 64 then some (strBytes "commat") else if c == 91 then some (strBytes "lsqb")
  else if c == 92 then some (strBytes "bsol") else if c == 93 then some (strBytes "rsqb")
  else if c == 94 then some (strBytes "Hat") else if c == 95 then some (strBytes "lowbar")
  else if c == 96 then some (strBytes "grave") else if c == 123 then some (strBytes "lbrace")
  else if c == 124 then some (strBytes "vert") else if c == 125 then some (strBytes "rbrace")
  else none

def decDigits (n : Nat) : Bytes :=
  if n < 10 then [UInt8.ofNat (48 + n)]
  else if n < 100 then [UInt8.ofNat (48 + n / 10), UInt8.ofNat (48 + n % 10)]
  else [UInt8.ofNat (48 + n / 100), UInt8.ofNat (48 + n / 10 % 10), UInt8.ofNat (48 + n % 10)]

def hexDig (up : Bool) (n : Nat) : UInt8 :=
  if n < 10 then UInt8.ofNat (48 + n) else if up then UInt8.ofNat (55 + n) else UInt8.ofNat (87 + n)

def hexDigits (up : Bool) (n : Nat) : Bytes :=
  if n < 16 then [hexDig up n] else [hexDig up (n / 16), hexDig up (n % 16)]

def zeros (k : Nat) : Bytes := List.replicate k 48

/-- The source spelling of one character. `lit` on a `mustEscape` character and `bs` on a non-punctuation
    character fall back to the nearest licensed spelling, so every choice is valid for every character. -/
def spellChar (t : TChar) : Bytes :=
  match t.e with
  | .lit => if mustEscape t.c then [92, t.c] else [t.c]
  | .bs => if isAsciiPunct t.c then [92, t.c] else [t.c]
  | .dec pad => [38, 35] ++ zeros (min pad (7 - (decDigits t.c.toNat).length)) ++ decDigits t.c.toNat ++ [59]
  | .hex pad upX upD =>
    [38, 35, if upX then 88 else 120] ++ zeros (min pad (6 - (hexDigits upD t.c.toNat).length)) ++
      hexDigits upD t.c.toNat ++ [59]
  | .named =>
    match namedFor t.c with
    | some n => [38] ++ n ++ [59]
    | none => if mustEscape t.c then [92, t.c] else [t.c]

/-- DESIGN's `escSpell`: the source spelling of a run of literal text. -/
def escSpell (cs : List TChar) : Bytes := cs.flatMap spellChar

def plain (cs : List TChar) : Bytes := cs.map (·.c)

/-- HTML escaping of text content as the spec's reference renderer does it (`& < > "`). -/
def escHtmlByte (c : UInt8) : Bytes :=
  if c == 38 then strBytes "&amp;" else if c == 60 then strBytes "&lt;"
  else if c == 62 then strBytes "&gt;" else if c == 34 then strBytes "&quot;" else [c]

def escHtml (b : Bytes) : Bytes := b.flatMap escHtmlByte

end GM.Spec.CM
