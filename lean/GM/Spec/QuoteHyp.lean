/-
  GM.Spec.QuoteHyp — the FORMER hypotheses of the whole-run C08 theorem as ONE executable test on a source, for the
  driver (op `blocks quotesimhyp`): the class of sources (no tab, no CR, ends with a line feed, no byte that can start
  a list item) and, evaluated on the model's run on the source ITSELF: it ends normally, has read all lines, and its
  node store is well shaped. All of this is PROVED for the class now (`GM.Props.C08.quote_prefix_run`,
  `original_run_well_shaped`; `quote_prefix_simulation_class` assumes nothing), so the test is a REGRESSION ORACLE of
  the model: it can only fail if the executable model and the proved statements diverge.
  Core Lean only; no proofs here (`GM.Blocks.quoteHyp_of_B` in GM/Proof/QuoteSimHypB.lean shows that it implies the
  former hypotheses).
-/
import GM.Model.Blocks

namespace GM.Blocks
open GM GM.Text

/-- `ls` is the first byte of line `k`, and the line exists -/
def lineAtB (src : Bytes) (k ls : Nat) : Bool :=
  decide (ls < src.length) && (ls == 0 || src[ls - 1]? == some 10) && lineNo src ls == k

/-- the reader's line counter points behind the last line -/
def readToEndB (src : Bytes) (s : St) : Bool :=
  (List.range src.length).all fun ls => !lineAtB src s.r.line.toNat ls

/-- the Document has no lines; no List / ListItem; no empty line / info / closure segment; node 0 is nobody's child -/
def wellShapedB (s : St) : Bool :=
  (s.nodes.getD 0 default).lines.isEmpty &&
  s.nodes.all fun n =>
    n.kind != .list && n.kind != .listItem &&
    n.lines.all (fun l => decide (l.start < l.stop)) &&
    (match n.info with | some i => decide (i.start < i.stop) | none => true) &&
    (decide (n.closure.start < 0) || decide (n.closure.start < n.closure.stop)) &&
    !n.children.contains 0

/-- no tab, no CR, no `-` `*` `+`, no digit; the last byte is a line feed -/
def classB (src : Bytes) : Bool :=
  src.all (fun c => c != 9 && c != 13 && c != 45 && c != 42 && c != 43 && !isNumeric c) && src.getLast? == some 10

def quoteHypB (src : Bytes) : Bool :=
  classB src &&
    match run src with
    | .ok s => readToEndB src s && wellShapedB s
    | .error _ => false

/-- `n-a` outside the class, otherwise whether the facts about the original run hold -/
def quoteHypStr (src : Bytes) : String :=
  if classB src then (if quoteHypB src then "ok" else "fail:assumption:quote-sim-hypothesis") else "n-a"

end GM.Blocks
