/-
  GM.Spec.Footnote — what "footnote numbering and cross-links are consistent" (C16) means for one
  rendered document, written against the *observable* output only (ids, hrefs, shown numbers) and the
  source-level facts "which labels are defined, in which order" and "which labels are referenced".
  Independent of extension/footnote.go. Core Lean only.
-/
import GM.Model.Basic

namespace GM.Spec.Footnote
open GM

/-- One rendered footnote item (`<li id=…>`): `src` says which definition (position in source order of
    the definitions) produced it, `backs` are the targets (without `#`) of its back-links in order. -/
structure Item where
  src : Nat
  id : Bytes
  backs : List Bytes
deriving DecidableEq, Repr

/-- One rendered footnote reference (`<sup id=…><a href="#…">text</a></sup>`), `href` without `#`. -/
structure Ref where
  id : Bytes
  href : Bytes
  text : Bytes
deriving DecidableEq, Repr

/-- Everything C16 talks about, in output order. -/
structure Output where
  items : List Item
  refs : List Ref
deriving DecidableEq, Repr

/-! ### decimal numerals, read independently of how the code formats them -/

def digitVal? (c : UInt8) : Option Nat :=
  if 48 ≤ c.toNat ∧ c.toNat ≤ 57 then some (c.toNat - 48) else none

/-- value of a digit string read left to right starting from `acc`; `none` if a non-digit occurs -/
def digitsVal? : Nat → Bytes → Option Nat
  | acc, [] => some acc
  | acc, c :: cs => match digitVal? c with
    | some d => digitsVal? (acc * 10 + d) cs
    | none => none

/-- The natural number a non-empty decimal numeral denotes. -/
def decimalValue? : Bytes → Option Nat
  | [] => none
  | c :: cs => digitsVal? 0 (c :: cs)

def dropPrefix? : Bytes → Bytes → Option Bytes
  | [], s => some s
  | _ :: _, [] => none
  | p :: ps, c :: cs => if p = c then dropPrefix? ps cs else none

/-- `fn:` -/
def fnColon : Bytes := [102, 110, 58]

/-- the number `k` such that `id` is `<prefix>fn:<k>` -/
def itemNumber? (pre id : Bytes) : Option Nat :=
  match dropPrefix? (pre ++ fnColon) id with
  | some t => decimalValue? t
  | none => none

/-- position of the first definition whose label equals `v` (the definition a reference `[^v]` means) -/
def resolve? : List Bytes → Bytes → Option Nat
  | [], _ => none
  | l :: ls, v => if l = v then some 0 else (resolve? ls v).map (· + 1)

/-- numbered pairs `(item, 1-based position)` -/
def numbered (items : List Item) : List (Item × Nat) := items.zip (List.range' 1 items.length)

/-- **C16 for one document.** `pre` is the configured id prefix, `labels` the definition labels in
    source order, `refLabels` the labels of all footnote references of the source, `o` the output. -/
structure Consistent (pre : Bytes) (labels refLabels : List Bytes) (o : Output) : Prop where
  /-- the items are numbered consecutively from 1 in the order they are listed: the k-th has id `fn:k` -/
  numbering : ∀ p ∈ numbered o.items, itemNumber? pre p.1.id = some p.2
  /-- every reference links to exactly one rendered item, and shows that item's number -/
  refTarget : ∀ r ∈ o.refs, (o.items.map (·.id)).count r.href = 1 ∧
      ∀ p ∈ numbered o.items, p.1.id = r.href → decimalValue? r.text = some p.2
  /-- every back-link points to exactly one reference of the output, and that reference links to the
      item the back-link belongs to -/
  backTarget : ∀ it ∈ o.items, ∀ b ∈ it.backs, (o.refs.map (·.id)).count b = 1 ∧
      ∀ r ∈ o.refs, r.id = b → r.href = it.id
  /-- every reference is the target of exactly one back-link (with `backTarget`: one to one) -/
  refBack : ∀ r ∈ o.refs, (o.items.flatMap (·.backs)).count r.id = 1
  /-- all generated ids are distinct -/
  idsDistinct : (o.items.map (·.id) ++ o.refs.map (·.id)).Nodup
  /-- a definition that is never referenced produces no output -/
  unreferenced : ∀ it ∈ o.items, ∃ l ∈ refLabels, resolve? labels l = some it.src

instance (pre : Bytes) (labels refLabels : List Bytes) (o : Output) :
    Decidable (Consistent pre labels refLabels o) :=
  decidable_of_iff
    ((∀ p ∈ numbered o.items, itemNumber? pre p.1.id = some p.2) ∧
     (∀ r ∈ o.refs, (o.items.map (·.id)).count r.href = 1 ∧
        ∀ p ∈ numbered o.items, p.1.id = r.href → decimalValue? r.text = some p.2) ∧
     (∀ it ∈ o.items, ∀ b ∈ it.backs, (o.refs.map (·.id)).count b = 1 ∧
        ∀ r ∈ o.refs, r.id = b → r.href = it.id) ∧
     (∀ r ∈ o.refs, (o.items.flatMap (·.backs)).count r.id = 1) ∧
     (o.items.map (·.id) ++ o.refs.map (·.id)).Nodup ∧
     (∀ it ∈ o.items, ∃ l ∈ refLabels, resolve? labels l = some it.src))
    ⟨fun ⟨a, b, c, d, e, f⟩ => ⟨a, b, c, d, e, f⟩, fun ⟨a, b, c, d, e, f⟩ => ⟨a, b, c, d, e, f⟩⟩

end GM.Spec.Footnote
