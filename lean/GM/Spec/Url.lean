/-
  GM.Spec.Url — a browser-like view of a URL attribute value, written independently of goldmark's code:
  decode character references, strip leading/trailing C0-control-or-space, remove ASCII tab and newlines,
  read the scheme and lower-case it (WHATWG URL "basic URL parser", scheme start / scheme states).
-/
import GM.Spec.Html
import GM.Model.Utf8
namespace GM.Spec
open GM

def hexDigitVal (c : UInt8) : Nat :=
  if isDigitB c then c.toNat - 48 else if 97 ≤ c && c ≤ 102 then c.toNat - 87 else c.toNat - 55

/-- decode the character references of an attribute value; `named` is the HTML named-reference table -/
def attrDecode (named : Bytes → Option Bytes) : Nat → Bytes → Bytes
  | _, [] => []
  | 0, s => s
  | fuel + 1, 38 :: r =>
    let num (p : UInt8 → Bool) (base : Nat) (body : Bytes) : Option (Bytes × Bytes) :=
      match body.dropWhile p with
      | 59 :: rest =>
        if (body.takeWhile p).isEmpty then none
        else some (encodeRune (toValidRune ((body.takeWhile p).foldl (fun a d => a * base + hexDigitVal d) 0)), rest)
      | _ => none
    let res : Option (Bytes × Bytes) :=
      match r with
      | 35 :: 120 :: b => num isHexB 16 b
      | 35 :: 88 :: b => num isHexB 16 b
      | 35 :: b => num isDigitB 10 b
      | b =>
        match b.dropWhile isAlnumB with
        | 59 :: rest => (named (b.takeWhile isAlnumB)).map (fun cs => (cs, rest))
        | _ => none
    match res with
    | some (out, rest) => out ++ attrDecode named fuel rest
    | none => 38 :: attrDecode named fuel r
  | fuel + 1, c :: r => c :: attrDecode named fuel r

def isC0OrSpace (c : UInt8) : Bool := c ≤ 32
def isTabNl (c : UInt8) : Bool := c == 9 || c == 10 || c == 13

def lower (c : UInt8) : UInt8 := if 65 ≤ c && c ≤ 90 then c + 32 else c

/-- what the URL parser sees: controls/space trimmed at both ends, tab/CR/LF removed everywhere -/
def urlClean (s : Bytes) : Bytes :=
  (((s.dropWhile isC0OrSpace).reverse.dropWhile isC0OrSpace).reverse).filter (!isTabNl ·)

/-- the lower-cased scheme (without `:`) and the rest, when the cleaned URL has one -/
def splitScheme (s : Bytes) : Option (Bytes × Bytes) :=
  match s with
  | c :: r =>
    if isAlphaB c then
      let body := r.takeWhile fun d => isAlnumB d || d == 43 || d == 45 || d == 46
      match r.dropWhile fun d => isAlnumB d || d == 43 || d == 45 || d == 46 with
      | 58 :: rest => some ((c :: body).map lower, rest)
      | _ => none
    else none
  | [] => none

def allowedDataTypes : List Bytes :=
  [strBytes "image/png;", strBytes "image/gif;", strBytes "image/jpeg;", strBytes "image/webp;", strBytes "image/svg+xml;"]

/-- script-capable or local-file scheme -/
def dangerousUrl (cleaned : Bytes) : Bool :=
  match splitScheme cleaned with
  | some (sch, rest) =>
    sch == strBytes "javascript" || sch == strBytes "vbscript" || sch == strBytes "file" ||
    (sch == strBytes "data" && !(allowedDataTypes.any fun t => startsWith t (rest.map lower)))
  | none => false

/-- the C04 predicate on one attribute value as it appears in the output -/
def hrefDangerous (named : Bytes → Option Bytes) (attrValue : Bytes) : Bool :=
  dangerousUrl (urlClean (attrDecode named attrValue.length attrValue))

def urlAttrNames : List Bytes := [strBytes "href", strBytes "src"]

/-- every href/src value of every start tag is harmless -/
def urlsOK (named : Bytes → Option Bytes) (ts : List Tok) : Bool :=
  ts.all fun t => match t with
    | .startTag _ as _ => as.all fun a => !(urlAttrNames.contains a.1) || !hrefDangerous named a.2
    | _ => true

end GM.Spec
