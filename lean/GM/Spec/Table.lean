/-
  GM.Spec.Table — what "a rectangular table" means for the tag skeleton of one rendered table, written
  independently of the render functions: a grammar, not an algorithm.

      <table> <thead> <tr> (<th a₀>·</th>) … (<th aₙ₋₁>·</th>) </tr> </thead>
              [ <tbody> ( <tr> (<td b₀>·</td>) … (<td bₙ₋₁>·</td>) </tr> )⁺ </tbody> ]      (absent iff no body row)
      </table>

  with exactly `cols.length` cells in every row, header cell i showing alignment `cols[i]`, and body cell i
  showing `cols[i]` unless it is an empty padding cell (no source line), which shows no alignment.
  Only the token/alignment types are shared with the model.
-/
import GM.Model.Table

namespace GM.Spec.Table
open GM.Table

/-- what one cell shows: its visible alignment and its content placeholder (`none` = nothing written) -/
structure SCell where
  a : Align
  content : Option Seg

def cellToks (th : Bool) (c : SCell) : List Tok := [Tok.cellOpen th c.a, Tok.content c.content, Tok.cellClose th]

def rowToks (r : List SCell) : List Tok := [Tok.trOpen] ++ r.flatMap (cellToks false) ++ [Tok.trClose]

def bodyToks : List (List SCell) → List Tok
  | [] => []
  | rows => [Tok.tbodyOpen] ++ rows.flatMap rowToks ++ [Tok.tbodyClose]

/-- cell `c` in a column whose alignment is `col` -/
def cellFits (c : SCell) (col : Align) : Prop := c.a = col ∨ (c.a = Align.none ∧ c.content = Option.none)

/-- row `r` fits the columns: same length, every cell fits its column -/
def rowFits : List SCell → List Align → Prop
  | [], [] => True
  | c :: r, col :: cols => cellFits c col ∧ rowFits r cols
  | _, _ => False

/-- `toks` is the skeleton of a rectangular table with columns `cols`. -/
def Rectangular (cols : List Align) (toks : List Tok) : Prop :=
  ∃ (hdr : List SCell) (body : List (List SCell)),
    hdr.map (·.a) = cols ∧ (∀ c ∈ hdr, c.content ≠ Option.none) ∧
    (∀ r ∈ body, rowFits r cols) ∧
    toks = [Tok.tableOpen, Tok.theadOpen, Tok.trOpen] ++ hdr.flatMap (cellToks true) ++ [Tok.trClose, Tok.theadClose]
            ++ bodyToks body ++ [Tok.tableClose]

theorem rowFits_length {r : List SCell} {cols : List Align} (h : rowFits r cols) : r.length = cols.length := by
  induction r generalizing cols with
  | nil => cases cols <;> simp_all [rowFits]
  | cons c r ih => cases cols with
    | nil => simp [rowFits] at h
    | cons col cols => simp only [rowFits] at h; simp [ih h.2]

/-- `<th…>` (th = true) / `<td…>` (th = false) opening tags, whatever their alignment -/
def isCell (th : Bool) : Tok → Bool
  | .cellOpen b _ => b == th
  | _ => false

end GM.Spec.Table
