/-
  GM.Spec.CMEnum — the exhaustive small scope of the C02 generator: families of small trees (depth ≤ 2), each
  crossed with EVERY value of its choice axes, addressed by one index (mixed radix per family). A combination
  that `wellFormed` rejects is answered `skip` by the driver. Core Lean only.
-/
import GM.Spec.CMGen
namespace GM.Spec.CM
open GM

/-- mixed-radix digits of `i` (least significant first) -/
def radix : Nat → List Nat → List Nat
  | _, [] => []
  | i, r :: rs => (i % r) :: radix (i / r) rs

def prod (rs : List Nat) : Nat := rs.foldl (· * ·) 1

structure Family where
  radices : List Nat
  build : List Nat → Doc

def dg (ds : List Nat) (k : Nat) : Nat := ds.getD k 0

def litT (s : String) : Inline := .text ((strBytes s).map fun c => ⟨c, .lit⟩)
def pa (kids : List Inline) : Block := .para {} kids 0
def ps (s : String) : Block := pa [litT s]
def sb (s : String) : Bytes := strBytes s

def escOf (k : Nat) : Esc :=
  match k with
  | 0 => .lit | 1 => .bs | 2 => .dec 0 | 3 => .dec 9 | 4 => .hex 0 false false
  | 5 => .hex 9 true true | 6 => .hex 1 false true | _ => .named

def ctxText (k : Nat) : List Inline :=
  match k with
  | 0 => []
  | 1 => [litT "a"]
  | 2 => [litT "a "]
  | 3 => [litT "a."]
  | _ => [.text [⟨97, .lit⟩, ⟨42, .bs⟩]]
def ctxTextR (k : Nat) : List Inline :=
  match k with
  | 0 => []
  | 1 => [litT "z"]
  | 2 => [litT " z"]
  | 3 => [litT ".z"]
  | _ => [.text [⟨42, .bs⟩, ⟨122, .lit⟩]]

def sampleBlock (k : Nat) (ch : BCh) : Block :=
  match k with
  | 0 => .para ch [litT "p1", .softBreak, litT "p2"] (2 + ch.trail)
  | 1 => .heading ch 2 false 0 0 [litT "atx"]
  | 2 => .heading ch 1 true 2 0 [litT "setext"]
  | 3 => .thematic ch 0 0 false
  | 4 => .thematic ch 1 0 false
  | 5 => .icode [sb "code", sb "  more"]
  | 6 => .fcode ch false 0 0 0 (sb "go") 0 [sb "f1", [], sb " f2"]
  | 7 => .quote ch false [ps "q"]
  | 8 => .blist ch 0 0 true [.item [ps "b1"], .item [ps "b2"]]
  | 9 => .olist ch 1 0 false 0 true [.item [ps "o1"], .item [ps "o2"]]
  | 10 => .html [sb "<div>", sb "*h*", sb "</div>"]
  | 11 => .olist ch 3 0 true 1 false [.item [ps "o3"], .item [ps "o4"]]
  | _ => .blist ch 2 1 false [.item [ps "l1", ps "l2"]]

def families : List Family := [
  -- F1: every printable character x every spelling x position (middle, line start, line end)
  ⟨[95, 8, 3], fun d =>
    let t : TChar := ⟨UInt8.ofNat (32 + dg d 0), escOf (dg d 1)⟩
    let cs : List TChar := match dg d 2 with
      | 0 => [⟨97, .lit⟩, t, ⟨98, .lit⟩]
      | 1 => [t, ⟨98, .lit⟩]
      | _ => [⟨97, .lit⟩, t]
    { blocks := [pa [.text cs]] }⟩,
  -- F1b: the same characters in an ATX heading and before a backslash hard break
  ⟨[95, 8, 2], fun d =>
    let t : TChar := ⟨UInt8.ofNat (32 + dg d 0), escOf (dg d 1)⟩
    if dg d 2 == 0 then { blocks := [.heading {} 3 false 2 0 [.text [⟨97, .lit⟩, t]]] }
    else { blocks := [pa [.text [⟨97, .lit⟩, t], .hardBreak true 0, litT "b"]] }⟩,
  -- F2: headings
  ⟨[6, 2, 3, 6, 4, 3], fun d =>
    let h := Block.heading { indent := dg d 4, trail := dg d 5 * 5 } (1 + dg d 0) (dg d 1 == 1) ([0, 1, 3].getD (dg d 2) 0) (dg d 3) [litT "Ab c"]
    { blocks := [h] }⟩,
  -- F3: thematic breaks, alone / directly after a paragraph / after a blank line
  ⟨[3, 3, 2, 4, 3, 3], fun d =>
    let t := Block.thematic { indent := dg d 3, trail := dg d 4, abut := dg d 5 == 1 } (dg d 0) (dg d 1) (dg d 2 == 1)
    { blocks := if dg d 5 == 0 then [t] else [ps "a", t] }⟩,
  -- F4: fenced code
  ⟨[2, 3, 3, 4, 4, 3, 2, 2], fun d =>
    let tilde := dg d 0 == 1
    let b := Block.fcode { indent := dg d 4, trail := dg d 6 * 4 } tilde (dg d 1) (dg d 2) (dg d 3)
      ([[], sb "go", sb "c++ x y"].getD (dg d 5) []) (dg d 6) [sb "a", sb "  b", [], if tilde then sb "```" else sb "~~~", sb "<&>"]
    { blocks := if dg d 7 == 0 then [b] else [.quote {} false [b]] }⟩,
  -- F5: indented code
  ⟨[3, 3, 4, 2], fun d =>
    let c := Block.icode ([[sb "a"], [sb "a", sb "  b"], [sb " a<&>", sb "b  "]].getD (dg d 0) [])
    let bs : List Block := match dg d 2 with
      | 0 => [c]
      | 1 => [.quote {} false [c]]
      | 2 => [.blist {} 0 1 false [.item [ps "x", c]]]
      | _ => [ps "x", c, ps "y"]
    { blocks := bs, tabMode := dg d 1, finalNewline := dg d 3 == 0 }⟩,
  -- F6: block quote x child kind
  ⟨[13, 2, 4, 4, 3, 2], fun d =>
    let child := sampleBlock (dg d 0) { indent := dg d 3, trail := dg d 5 * 4 }
    { blocks := [.quote { indent := dg d 2 } (dg d 1 == 1) [child, ps "after"]], tabMode := dg d 4 }⟩,
  -- F6b: list item x first child kind (what may directly follow a list marker) x marker spacing x tightness
  ⟨[13, 4, 2, 2, 3], fun d =>
    let child := sampleBlock (dg d 0) {}
    let items : List Block := [.item [child], .item [ps "b"]]
    let l : Block := if dg d 3 == 0 then .blist {} 0 (dg d 1) (dg d 2 == 1) items else .olist {} 7 0 false (dg d 1) (dg d 2 == 1) items
    { blocks := [l], tabMode := dg d 4 }⟩,
  -- F7: bullet lists
  ⟨[3, 4, 2, 4, 3, 8], fun d =>
    let tight := dg d 2 == 1
    let items : List Block := match dg d 5 with
      | 0 => [.item [ps "a"], .item [ps "b"]]
      | 1 => [.item [ps "a", ps "b"]]
      | 2 => [.item [ps "a", .blist { indent := 1 } 0 0 true [.item [ps "n1"], .item [ps "n2"]]], .item [ps "b"]]
      | 3 => [.item [ps "a", .fcode { indent := 2 } false 0 0 0 [] 0 [sb "c", [], sb "  d"]], .item [ps "b"]]
      | 4 => [.item [ps "a", .icode [sb "c", sb " d"]], .item [ps "b"]]
      | 5 => [.item [.para {} [litT "a", .softBreak, litT "b"] (3 + 4 * (dg d 3 % 2))], .item [ps "c"]]
      | 6 => [.item [ps "a", .quote { indent := 1 } false [ps "q"]], .item [ps "b"]]
      | _ => [.item [ps "a", .heading {} 2 false 0 0 [litT "h"], ps "t", .thematic {} 0 0 false], .item [ps "b"]]
    { blocks := [.blist { indent := dg d 3 } (dg d 0) (dg d 1) tight items, ps "end"], tabMode := dg d 4 }⟩,
  -- F8: ordered lists
  ⟨[6, 3, 2, 4, 2, 2, 3, 3], fun d =>
    let tight := dg d 4 == 1
    let items : List Block := match dg d 7 with
      | 0 => [.item [ps "a"], .item [ps "b"]]
      | 1 => [.item [ps "a", ps "b"], .item [ps "c"]]
      | _ => [.item [ps "a", .olist {} 1 0 (dg d 2 == 1) 0 true [.item [ps "n"]]], .item [ps "b"]]
    let l := Block.olist { indent := dg d 5 * 3 } ([0, 1, 2, 9, 10, 123456789].getD (dg d 0) 1) ([0, 1, 3].getD (dg d 1) 0) (dg d 2 == 1) (dg d 3) tight items
    { blocks := [l, ps "end"], tabMode := dg d 6 }⟩,
  -- F9: inline links and images
  ⟨[2, 3, 3, 2, 9, 2, 2], fun d =>
    let dest : Bytes := [sb "/u", [], sb "a b", sb "(x)\\&<y>", sb "%41%zz\"[`]", sb "http://e.x/?q=1&r=2#f", sb "*_~^{|}", sb "&ouml;&#35;", sb "\\&amp;"].getD (dg d 4) []
    let title : Option Bytes := [none, some (sb "t"), some (sb "a\"'()\\&<b")].getD (dg d 2) none
    let ch : LinkCh := { style := .inline, angle := dg d 0 == 1, titleQ := dg d 1, sp := dg d 3, ent := dg d 6 == 1 }
    let x : Inline := if dg d 5 == 0 then .link [litT "t *x"] dest title [] ch else .image [litT "al", .emph false [litT "t"]] dest title [] ch
    { blocks := [pa [litT "a", x, litT "b"]] }⟩,
  -- F10: reference links: style x label variants at use and definition x definition spelling x position
  ⟨[3, 9, 9, 2, 4, 2, 2, 2], fun d =>
    let style : LinkStyle := [LinkStyle.full, .collapsed, .shortcut].getD (dg d 0) .full
    let label := sb "Foo bar 1"
    let title : Option Bytes := if dg d 4 == 0 then none else some (sb "T 'q' \"x\" (y)")
    let df : RefDef := ⟨label, sb "/d(1)", title, dg d 2, dg d 3 == 1, dg d 4 - 1, dg d 5 == 1, dg d 6 * 3, false⟩
    let kids : List Inline := if style == .full then [litT "text"] else [litT "Foo bar 1"]
    let use := pa [litT "a ", .link kids (sb "/d(1)") title label { style := style, labelVar := dg d 1 }, litT " b"]
    { blocks := if dg d 7 == 0 then [use, .refdefs [df]] else [.refdefs [df], use] }⟩,
  -- F11: emphasis: kind x requested delimiter x left context x right context x nesting
  ⟨[2, 2, 5, 5, 4], fun d =>
    let us := dg d 1 == 1
    let inner : List Inline := match dg d 4 with
      | 0 => [litT "b"]
      | 1 => [litT "b ", (if dg d 0 == 0 then .strong us [litT "c"] else .emph us [litT "c"]), litT " d"]
      | 2 => [litT "b.c d"]
      | _ => [litT "b", .link [litT "l", .emph us [litT "m"], litT "n"] (sb "/u") none [] {}, litT "c"]
    let x : Inline := if dg d 0 == 0 then .emph us inner else .strong us inner
    { blocks := [pa (ctxText (dg d 2) ++ [x] ++ ctxTextR (dg d 3))] }⟩,
  -- F12: code spans
  ⟨[10, 3, 2, 3], fun d =>
    let c : Bytes := [sb "a", sb "a`b", sb "``", sb " a ", sb "  ", sb "a  b", sb "`a", sb "a`", sb " `` ", sb "*<&>\\["].getD (dg d 0) []
    let x := Inline.code c (dg d 1) (dg d 2 == 1)
    let kids : List Inline := match dg d 3 with
      | 0 => [x]
      | 1 => [litT "a", x, litT "b"]
      | _ => [.text [⟨97, .lit⟩, ⟨96, .bs⟩], x, .text [⟨96, .dec 0⟩, ⟨98, .lit⟩]]
    { blocks := [pa kids] }⟩,
  -- F13: every ordered pair of block kinds x blank line omitted where licensed x indentation x final newline
  ⟨[13, 13, 2, 2, 2], fun d =>
    let second := sampleBlock (dg d 1) { abut := dg d 2 == 1, indent := dg d 3 * 3 }
    { blocks := [sampleBlock (dg d 0) {}, second], finalNewline := dg d 4 == 0 }⟩,
  -- F14: autolinks, raw inline HTML, breaks in three contexts
  ⟨[27, 3], fun d =>
    let k := dg d 0
    let x : Inline :=
      if k < 8 then
        [Inline.autolink (sb "http://a.b/c?d=e&f") false, .autolink (sb "MAILTO:x") false, .autolink (sb "a+b.c-d:\\[`\"]") false,
         .autolink (sb "x1:") false, .autolink (sb "a@b.c") true, .autolink (sb "A.b_c+d-e@x1.y2.zz") true,
         .autolink (sb "https://e.x/%41%zz{}") false, .autolink (sb "irc://[::1]/*_") false].getD k .softBreak
      else if k < 23 then .rawHtml (rawSamples.getD (k - 8) [])
      else [Inline.hardBreak true 0, .hardBreak false 0, .hardBreak false 3, .softBreak].getD (k - 23) .softBreak
    let kids : List Inline := match dg d 1 with
      | 0 => [litT "a", x, litT "b"]
      | 1 => [litT "a ", .emph false [litT "e", x, litT "f"], litT " b"]
      | _ => [x, litT "b"]
    { blocks := [pa kids] }⟩,
  -- F15: containers nested in containers (depth 2): outer kind x inner kind x innermost content x indentations x
  -- marker spacing x leading-tab mode x tab-after-marker mode x inner block first in its item or after a paragraph
  ⟨[3, 3, 5, 2, 3, 3, 3, 6, 2], fun d =>
    let oi := [0, 3].getD (dg d 3) 0
    let ii := [0, 1, 3].getD (dg d 4) 0
    let sp := [0, 1, 3].getD (dg d 5) 0
    let innermost : List Block := match dg d 2 with
      | 0 => [ps "foo"]
      | 1 => [.icode [sb "code", sb "  more"]]
      | 2 => [.fcode {} false 0 0 0 [] 0 [sb "f1", [], sb " f2"]]
      | 3 => [.para {} [litT "p1", .softBreak, litT "p2"] 2]
      | _ => [ps "a", .icode [sb " code"]]
    let icodeFirst := dg d 2 == 1
    let itemKids : List Block := if icodeFirst then ps "k" :: innermost else innermost ++ [ps "k"]
    let inner : Block := match dg d 1 with
      | 0 => .quote { indent := ii } false (innermost ++ [ps "x"])
      | 1 => .blist { indent := ii } 0 sp false [.item itemKids, .item [ps "b"]]
      | _ => .olist { indent := ii } 9 0 (dg d 0 == 1) sp false [.item itemKids, .item [ps "b"]]
    let first := dg d 8 == 0
    let outerKids : List Block := if first then [inner, ps "y"] else [ps "o", inner]
    let outer : Block := match dg d 0 with
      | 0 => .quote { indent := oi } false outerKids
      | 1 => .blist { indent := oi } 2 sp false [.item outerKids, .item [ps "q"]]
      | _ => .olist { indent := oi } 1 0 false sp false [.item outerKids, .item [ps "q"]]
    let tq := [1, 2, 0, 0, 1, 2].getD (dg d 7) 0
    let tl := [0, 0, 1, 2, 1, 2].getD (dg d 7) 0
    { blocks := [outer], tabMode := dg d 6, tabQuote := tq, tabQuoteD := tq, tabList := tl }⟩,
  -- F16: block quote x child kind x tab after the marker
  ⟨[13, 2, 4, 4, 2], fun d =>
    let child := sampleBlock (dg d 0) { indent := dg d 3 }
    { blocks := [.quote { indent := dg d 2 } (dg d 1 == 1) [child, ps "after"]], tabQuote := 1 + dg d 4, tabQuoteD := 1 + dg d 4 }⟩,
  -- F17: lists x tab after the marker
  ⟨[3, 4, 4, 2, 8, 2], fun d =>
    let tight := dg d 3 == 1
    let items : List Block := match dg d 4 with
      | 0 => [.item [ps "a"], .item [ps "b"]]
      | 1 => [.item [ps "a", ps "b"]]
      | 2 => [.item [ps "a", .blist { indent := 1 } 0 0 true [.item [ps "n1"], .item [ps "n2"]]], .item [ps "b"]]
      | 3 => [.item [.fcode {} false 0 0 0 [] 0 [sb "c", [], sb "  d"]], .item [ps "b"]]
      | 4 => [.item [ps "a", .icode [sb "c", sb " d"]], .item [ps "b"]]
      | 5 => [.item [.quote {} false [ps "q", .icode [sb "c"]]], .item [ps "c"]]
      | 6 => [.item [.blist {} 1 (dg d 1) true [.item [ps "n"]], ps "t"], .item [ps "b"]]
      | _ => [.item [.heading {} 2 false 0 0 [litT "h"], ps "t"], .item [ps "b"]]
    let l : Block := match dg d 0 with
      | 0 => .blist { indent := dg d 2 } 0 (dg d 1) tight items
      | 1 => .olist { indent := dg d 2 } 7 0 false (dg d 1) tight items
      | _ => .olist { indent := dg d 2 } 10 0 true (dg d 1) tight items
    { blocks := [l, ps "end"], tabList := 1 + dg d 5 }⟩
]

def enumCount : Nat := (families.map fun f => prod f.radices).foldl (· + ·) 0

def enumDoc (i : Nat) : Option Doc :=
  let rec go : List Family → Nat → Option Doc
    | [], _ => none
    | f :: rest, i => if i < prod f.radices then some (f.build (radix i f.radices)) else go rest (i - prod f.radices)
  go families i

end GM.Spec.CM
