/-
  GM.Spec.StateFacts — the obligations over the regenerated shared-state write facts (GM.Gen.StateFacts):
  long-lived goldmark objects (Markdown, Parser, Renderer, the parser/transformer singletons, the node
  renderers and their configs) and package-level variables are written only
    * inside a closure passed to a sync.Once's Do, or
    * by a configuration method that runs before first use (option setters, registration helpers), or
    * by a package initialiser (`init`, NewNodeKind, NewContextKey).
  A new write site in the Go code that is none of these makes `sharedWritesGuarded` false, so the
  kernel-checked `decide` in Props/C06 and Props/C07 stops checking.
-/
import GM.Gen.StateFacts
namespace GM.Spec
open GM

/-- methods that configure an object before its first use -/
def configFns : List String :=
  ["SetOption", "SetParser", "SetRenderer", "addBlockParser", "addInlineParser", "addParagraphTransformer",
   "addASTTransformer", "Register"]

/-- functions that run during package initialisation -/
def initFns : List String := ["init", "NewNodeKind", "NewContextKey"]

def siteGuarded (s : Gen.WriteSite) : Bool :=
  s.inOnce || (s.typ != "<package>" && configFns.contains s.fn) || (s.typ == "<package>" && initFns.contains s.fn)

def sharedWritesGuarded : Bool := Gen.sharedWrites.all siteGuarded

/-- the lazily built tables the Once model stands for are really built under a Once -/
def onceSites : List (String × String) := [("parser", "Parse"), ("renderer", "Render"), ("util", "buildHTML5Entities")]
def onceSitesPresent : Bool :=
  onceSites.all fun (p, f) => Gen.sharedWrites.any fun s => s.pkg == p && s.fn == f && s.inOnce

/-- no write through a parser/transformer singleton or node renderer on the Parse/Render path:
    every receiver write outside Once closures is in a configuration method -/
def pathFns : List String :=
  ["Parse", "Render", "Open", "Continue", "Close", "Trigger", "Transform", "CloseBlock", "CanInterruptParagraph",
   "CanAcceptIndentedLine", "RegisterFuncs", "Convert"]
def noPathWrites : Bool :=
  Gen.sharedWrites.all fun s => s.inOnce || !(pathFns.contains s.fn || s.fn.startsWith "render")

/-- the only synchronisation objects held by goldmark are the three `sync.Once` guards: a new mutex, `sync.Map`,
    `sync.Pool` or atomic cell in a long-lived struct or package variable is new shared mutable state -/
def onlyOnceGuards : Bool := Gen.syncDecls.all fun d => d.2.2.2 == "sync.Once"

end GM.Spec
