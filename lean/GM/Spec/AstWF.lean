/-
  GM.Spec.AstWF — the formal statement of C05 as a decidable predicate on a *position dump* of a parsed tree
  (what the Go dumper `DumpPositions` emits: per node its kind, node type, identity, the identity of the node
  it reports as Parent(), ChildCount(), the child identities walked forwards and backwards, its source
  segments, its level). Evaluated by the driver on every tree the harness obtains from the real parser.
  Core Lean only.
-/
import GM.Model.Basic
namespace GM.Spec

inductive NType | document | block | inline
deriving DecidableEq, Repr

structure Seg where
  start : Int
  stop : Int
  padding : Int
deriving Repr, DecidableEq

structure PInfo where
  kind : String
  ntype : NType
  id : Nat
  parent : Int              -- id of Parent(), -1 for nil
  count : Int               -- ChildCount()
  hasChildren : Bool        -- HasChildren()
  fwd : List Nat            -- FirstChild / NextSibling walk
  bwd : List Nat            -- LastChild / PreviousSibling walk, reversed by the dumper
  segs : List Seg           -- Text: its segment; RawHTML: its segments; blocks: Lines(); FencedCodeBlock: + info; HTMLBlock: + closure
  isLines : Bool            -- `segs` are the lines of a block (ordering applies)
  xsegs : List Seg          -- further segments of the node that are only range-checked (info string, HTML closure line)
  level : Int
deriving Repr

inductive PNode where
  | mk (info : PInfo) (children : List PNode)
deriving Repr

def PNode.info : PNode → PInfo | .mk i _ => i
def PNode.children : PNode → List PNode | .mk _ c => c

def publicKinds : List String :=
  ["Document", "Heading", "Blockquote", "CodeBlock", "FencedCodeBlock", "HTMLBlock", "List", "ListItem", "Paragraph",
   "TextBlock", "ThematicBreak", "AutoLink", "CodeSpan", "Emphasis", "Image", "Link", "RawHTML", "Text", "String",
   "Table", "TableHeader", "TableRow", "TableCell", "Strikethrough", "TaskCheckBox", "DefinitionList",
   "DefinitionTerm", "DefinitionDescription", "FootnoteLink", "FootnoteBacklink", "Footnote", "FootnoteList"]

def rawBlockKinds : List String := ["CodeBlock", "FencedCodeBlock", "HTMLBlock"]

def segOK (len : Nat) (s : Seg) : Bool := 0 ≤ s.start && s.start ≤ s.stop && s.stop ≤ (len : Int) && 0 ≤ s.padding

/-- lines of a block: each in range, each starting at or after the end of the previous one -/
def linesIncreasing : Int → List Seg → Bool
  | _, [] => true
  | prev, s :: rest => prev ≤ s.start && linesIncreasing s.stop rest

mutual
/-- the source segments of the inline content below a node, in document order -/
def inlineSegs : PNode → List Seg
  | .mk i cs =>
    if i.kind == "Text" || i.kind == "RawHTML" then i.segs
    else if i.ntype == NType.inline then inlineSegsL cs else []
def inlineSegsL : List PNode → List Seg
  | [] => []
  | c :: rest => inlineSegs c ++ inlineSegsL rest
end

/-- local checks of one node given its parent's info; returns the first failing clause -/
def nodeClause (len : Nat) (parent : Option PInfo) (inLink : Bool) (i : PInfo) (cs : List PNode) : Option String :=
  let ids := cs.map (·.info.id)
  if i.fwd != ids then some "sibling-links"
  else if i.bwd != ids then some "sibling-links"
  else if i.count != (ids.length : Int) then some "child-count"
  else if i.hasChildren != !ids.isEmpty then some "child-count"
  else if cs.any (fun c => c.info.parent != (i.id : Int)) then some "parent-link"
  else if !publicKinds.contains i.kind then some "non-public-kind"
  else if (match parent with
      | none => i.kind != "Document" || i.parent != -1
      | some _ => false) then some "root-not-document"
  else if (match parent with
      | some p => (i.ntype == NType.block && p.ntype == NType.inline)
      | none => false) then some "block-below-inline"
  else if (match parent with
      | some p => (i.ntype == NType.inline && p.ntype == NType.document)
      | none => false) then some "inline-below-document"
  else if (match parent with
      | some p => (i.kind == "ListItem" && p.kind != "List")
      | none => i.kind == "ListItem") then some "list-item-outside-list"
  else if (match parent with
      | some p => (p.kind == "List" && i.kind != "ListItem")
      | none => false) then some "list-child-not-item"
  else if (match parent with
      | some p => (p.kind == "CodeSpan" && i.kind != "Text")
      | none => false) then some "code-span-holds-non-text"
  else if i.kind == "Heading" && !(1 ≤ i.level && i.level ≤ 6) then some "heading-level"
  else if i.kind == "Emphasis" && !(1 ≤ i.level && i.level ≤ 2) then some "emphasis-level"
  else if i.kind == "Link" && inLink then some "link-inside-link"
  else if !i.segs.all (segOK len) || !i.xsegs.all (segOK len) then some "segment-out-of-range"
  else if i.isLines && !linesIncreasing 0 i.segs then some "lines-not-increasing"
  else if i.isLines && !i.segs.isEmpty && !rawBlockKinds.contains i.kind then
    let lo : Int := (i.segs.head?.map (fun (s : Seg) => s.start)).getD 0
    let hi : Int := (i.segs.getLast?.map (fun (s : Seg) => s.stop)).getD 0
    let inl := (inlineSegsL cs).filter (segOK len)
    if !inl.all (fun s => lo ≤ s.start && s.stop ≤ hi) then some "inline-segment-outside-block-lines"
    else if !linesIncreasing 0 inl then some "inline-segments-out-of-order"
    else none
  else none

mutual
def wfNode (len : Nat) (parent : Option PInfo) (inLink : Bool) : PNode → Option String
  | .mk i cs =>
    match nodeClause len parent inLink i cs with
    | some c => some c
    | none => wfNodes len i (inLink || i.kind == "Link") cs
def wfNodes (len : Nat) (parent : PInfo) (inLink : Bool) : List PNode → Option String
  | [] => none
  | c :: rest =>
    match wfNode len (some parent) inLink c with
    | some x => some x
    | none => wfNodes len parent inLink rest
end

mutual
def allIds : PNode → List Nat
  | .mk i cs => i.id :: allIdsL cs
def allIdsL : List PNode → List Nat
  | [] => []
  | c :: rest => allIds c ++ allIdsL rest
end

/-- C05 on one dumped tree: `none` = well formed, `some clause` = first violated clause -/
def wfAst (len : Nat) (t : PNode) : Option String :=
  if (allIds t).eraseDups.length != (allIds t).length then some "node-occurs-twice"
  else wfNode len none false t

end GM.Spec
