/-
  GM.Spec.CMEmph — a spec-side INLINE reference for emphasis and strong emphasis (CommonMark 0.31.2 section 6.2
  "Emphasis and strong emphasis", rules 1-17, and the appendix "A parsing strategy / An algorithm for parsing
  nested emphasis and links": delimiter runs, left- and right-flanking, the delimiter stack and `process emphasis`).
  Written from the specification text, NOT from goldmark's code (part of the C02 generator package).  Core Lean only.

  Scope (`emphOnly`): documents that consist of paragraphs only, over letters, digits, spaces, line endings and
  ASCII punctuation, where the characters that start OTHER inline constructs (which take precedence over
  emphasis and are covered elsewhere: autolinks / raw HTML "<", links / images "[", entity references "&") may
  only occur backslash-escaped or inside a code span; non-ASCII characters must be well-formed UTF-8 of a code
  point whose class (Unicode whitespace / Unicode punctuation (P or S) / other) is SUPPLIED (`UCls`).
  Step two: code spans (6.1) are part of the reference - they bind more tightly than emphasis.

  Pipeline:  bytes --utf8--> code points --lex--> symbols (escapes resolved) --group--> delimiter runs
             --breaks--> soft / hard line breaks --classify--> tokens with can-open / can-close (rules 1-8)
             --parse--> tree (delimiter stack; rules 9-17) --render--> HTML.
  The `openers_bottom` table of the appendix is a pure optimisation ("lower bound for future searches") and is
  deliberately NOT part of this reference: every closer searches the whole stack.
-/
import GM.Model.Basic
namespace GM.Spec.CMEmph
open GM

/-! ### character classes (section 2.1 / 6.2) -/

/-- class of the character before / after a delimiter run -/
inductive CC where
  | ws      -- Unicode whitespace (Zs, tab, LF, FF, CR); beginning and end of the line count as whitespace
  | punct   -- Unicode punctuation character (general category P or S)
  | other
deriving Repr, BEq, DecidableEq, Inhabited

/-- the classes of the non-ASCII code points of the alphabet, supplied from outside; `none` = not in the alphabet -/
abbrev UCls := Nat → Option CC

def isAsciiPunct (c : UInt8) : Bool :=
  (33 ≤ c && c ≤ 47) || (58 ≤ c && c ≤ 64) || (91 ≤ c && c ≤ 96) || (123 ≤ c && c ≤ 126)
def isAlnum (c : UInt8) : Bool := (48 ≤ c && c ≤ 57) || (65 ≤ c && c ≤ 90) || (97 ≤ c && c ≤ 122)
def isDigit (c : UInt8) : Bool := 48 ≤ c && c ≤ 57

/-- characters that start an inline construct outside this reference: "<" "[" "&" (code spans, "`", are handled:
    step two) -/
def startsOther (c : UInt8) : Bool := c == 60 || c == 91 || c == 38

/-- a concrete table for the driver and the tests: a few Unicode spaces, punctuation marks / symbols, and the
    Latin-1, Greek, Cyrillic and CJK letters -/
def ucls0 : UCls := fun cp =>
  if cp == 0xA0 || cp == 0x2003 || cp == 0x3000 then some .ws
  else if cp == 0xA1 || cp == 0xAB || cp == 0xBB || cp == 0xBF || cp == 0x2014 || cp == 0x201C || cp == 0x201D
       || cp == 0x2026 then some .punct                                      -- P
  else if cp == 0xA3 || cp == 0xA9 || cp == 0xB1 || cp == 0xD7 || cp == 0xF7 || cp == 0x20AC then some .punct  -- S
  else if (0xC0 ≤ cp && cp ≤ 0xFF) || (0x391 ≤ cp && cp ≤ 0x3C9 && cp != 0x3A2) || (0x410 ≤ cp && cp ≤ 0x44F)
       || (0x4E00 ≤ cp && cp ≤ 0x9FFF) then some .other
  else none

/-! ### UTF-8 (1 to 3 bytes; anything else is outside the alphabet) -/

structure Chr where
  b : Bytes             -- the bytes of one character
  cp : Option Nat       -- its code point; `none` = not well-formed (or 4 bytes long)
deriving Repr, BEq, DecidableEq, Inhabited

def isCont (c : UInt8) : Bool := 0x80 ≤ c && c ≤ 0xBF

/-- `pend` = the lead byte (and first continuation byte) of an unfinished character.  After an ill-formed
    sequence the bytes involved are all reported as ill-formed (the document is then outside the alphabet). -/
def utf8Go : List UInt8 → Bytes → List Chr
  | pend, [] => pend.map fun c => ⟨[c], none⟩
  | pend, c :: t =>
    match pend with
    | [] =>
      if c < 0x80 then ⟨[c], some c.toNat⟩ :: utf8Go [] t
      else if 0xC2 ≤ c && c ≤ 0xEF then utf8Go [c] t
      else ⟨[c], none⟩ :: utf8Go [] t
    | [l] =>
      if !isCont c then ⟨[l], none⟩ :: ⟨[c], none⟩ :: utf8Go [] t
      else if l ≤ 0xDF then ⟨[l, c], some ((l.toNat - 0xC0) * 64 + (c.toNat - 0x80))⟩ :: utf8Go [] t
      else utf8Go [l, c] t
    | [l, c2] =>
      let cp := (l.toNat - 0xE0) * 4096 + (c2.toNat - 0x80) * 64 + (c.toNat - 0x80)
      if isCont c && 0x800 ≤ cp && !(0xD800 ≤ cp && cp ≤ 0xDFFF) then ⟨[l, c2, c], some cp⟩ :: utf8Go [] t
      else ⟨[l], none⟩ :: ⟨[c2], none⟩ :: ⟨[c], none⟩ :: utf8Go [] t
    | _ => ⟨[c], none⟩ :: utf8Go [] t

def utf8 (b : Bytes) : List Chr := utf8Go [] b

/-! ### lexing: backslash escapes (section 2.4) -/

inductive Sym where
  | chr (b : Bytes) (cc : CC)   -- one character of literal text (escaped punctuation included)
  | delim (ch : UInt8)          -- an unescaped `*` (42) or `_` (95)
  | nl                          -- a line ending
  | bsnl                        -- backslash + line ending (hard line break, 6.7)
  | code (b : Bytes)            -- a code span (6.1) with its content
  | bad                         -- a character outside the alphabet
deriving Repr, BEq, DecidableEq, Inhabited

def asciiCC (c : UInt8) : CC :=
  if c == 32 || c == 9 || c == 10 || c == 12 || c == 13 then .ws
  else if isAsciiPunct c then .punct else .other

/-- a character that is not preceded by an (unescaped) backslash and is not a backslash itself -/
def plainSym (u : UCls) (c : Chr) : Sym :=
  match c.b, c.cp with
  | [a], some _ =>
    if a == 42 || a == 95 then .delim a
    else if a == 10 then .nl
    else if startsOther a then .bad
    else if a == 32 || (33 ≤ a && a ≤ 126) then .chr [a] (asciiCC a)
    else .bad                                                       -- tab, CR, other control characters
  | b, some cp => match u cp with
    | some cc => .chr b cc
    | none => .bad
  | _, none => .bad

def isBackslash (c : Chr) : Bool := c.b == [92]

/-! #### code spans (6.1) — they bind more tightly than emphasis and backslash escapes do not work inside them -/

/-- the characters with the maximal backtick strings grouped (raw: backslashes play no role here) -/
inductive TSeg where
  | tk (n : Nat)
  | ch (c : Chr)
deriving Repr, BEq, DecidableEq, Inhabited

def tickGroup : List Chr → List TSeg
  | [] => []
  | c :: t =>
    let r := tickGroup t
    if c.b == [96] then
      match r with
      | .tk n :: r' => .tk (n + 1) :: r'
      | _ => .tk 1 :: r
    else .ch c :: r

/-- every segment together with the lengths of the backtick strings AFTER it -/
def tickLater : List TSeg → List (TSeg × List Nat)
  | [] => []
  | s :: t =>
    let r := tickLater t
    let later := match r with
      | [] => []
      | (.tk n, l) :: _ => n :: l
      | (_, l) :: _ => l
    (s, later) :: r

/-- the content of a code span: line endings → spaces; one space stripped from both ends when both are there
    and the content is not only spaces -/
def codeContent (raw : Bytes) : Bytes :=
  let b := raw.map fun c => if c == 10 then 32 else c
  if b.head? == some 32 && b.getLast? == some 32 && !b.all (· == 32) then (b.drop 1).dropLast else b

/-- inside a code span every character of the wider alphabet is literal (also "<" "[" "&") -/
def codeCharOK (c : Chr) : Bool :=
  match c.b, c.cp with
  | [a], some _ => a == 10 || (32 ≤ a && a ≤ 126)
  | _, some _ => true
  | _, none => false

inductive LMode where
  | normal (esc : Bool)                 -- `esc`: the previous character was an unescaped backslash
  | code (n : Nat) (acc : Bytes)        -- inside a code span opened by a backtick string of length n
deriving Repr, Inhabited

def ticksText (n : Nat) : List Sym := List.replicate n (.chr [96] .punct)

/-- Any ASCII punctuation character may be backslash-escaped; a backslash before anything else is a literal
    backslash.  A backtick string opens a code span iff a backtick string of the same length follows (the nearest one
    closes it); otherwise it is literal text.  An ESCAPED backtick directly followed by further backticks is outside
    the scope (the wording "a backtick string is … neither preceded nor followed by a backtick" and the reference
    implementations, which take the rest as a shorter backtick string, differ there). -/
def lexGo (u : UCls) : LMode → List (TSeg × List Nat) → List Sym
  | .normal false, [] => []
  | .normal true, [] => [.chr [92] .punct]
  | .code _ _, [] => [.bad]
  | .normal false, (.ch c, _) :: t =>
    if isBackslash c then lexGo u (.normal true) t else plainSym u c :: lexGo u (.normal false) t
  | .normal true, (.ch c, _) :: t =>
    match c.b with
    | [a] =>
      if a == 10 then .bsnl :: lexGo u (.normal false) t
      else if isAsciiPunct a then .chr [a] .punct :: lexGo u (.normal false) t
      else .chr [92] .punct :: plainSym u c :: lexGo u (.normal false) t
    | _ => .chr [92] .punct :: plainSym u c :: lexGo u (.normal false) t
  | .normal false, (.tk n, later) :: t =>
    if later.contains n then lexGo u (.code n []) t else ticksText n ++ lexGo u (.normal false) t
  | .normal true, (.tk n, _) :: t =>
    if n == 1 then .chr [96] .punct :: lexGo u (.normal false) t else .bad :: lexGo u (.normal false) t
  | .code n acc, (.ch c, _) :: t =>
    if codeCharOK c then lexGo u (.code n (acc ++ c.b)) t else .bad :: lexGo u (.code n acc) t
  | .code n acc, (.tk m, _) :: t =>
    if m == n then .code (codeContent acc) :: lexGo u (.normal false) t
    else lexGo u (.code n (acc ++ List.replicate m 96)) t

def lex (u : UCls) (src : Bytes) : List Sym := lexGo u (.normal false) (tickLater (tickGroup (utf8 src)))

/-! ### delimiter runs and line breaks -/

/-- proto-token: text character, delimiter run (character, length), soft / hard line break -/
inductive PT where
  | chr (b : Bytes) (cc : CC)
  | run (ch : UInt8) (n : Nat)
  | soft
  | hard              -- two or more spaces + line ending
  | hardB             -- backslash + line ending
  | brk (n : Nat)     -- intermediate: a line ending with n spaces collected before it
  | code (b : Bytes)
  | bad
deriving Repr, BEq, DecidableEq, Inhabited

def isSpacePT : PT → Bool
  | .chr b _ => b == [32]
  | _ => false

/-- right-to-left: maximal runs of the same delimiter character; spaces before a line ending are collected
    (`brk n`), spaces after it (leading spaces of the next line) are dropped (6.7, 6.8) -/
def group : List Sym → List PT
  | [] => []
  | s :: rest =>
    let ts := group rest
    match s with
    | .delim ch =>
      match ts with
      | .run ch' n :: ts' => if ch' == ch then .run ch (n + 1) :: ts' else .run ch 1 :: ts
      | _ => .run ch 1 :: ts
    | .nl => .brk 0 :: ts.dropWhile isSpacePT
    | .bsnl => .hardB :: ts.dropWhile isSpacePT
    | .chr b cc =>
      if b == [32] then
        match ts with
        | .brk n :: ts' => .brk (n + 1) :: ts'
        | _ => .chr b cc :: ts
      else .chr b cc :: ts
    | .code b => .code b :: ts
    | .bad => .bad :: ts

/-- two or more spaces before the line ending: hard line break; otherwise soft -/
def fixBrk : PT → PT
  | .brk n => if 2 ≤ n then .hard else .soft
  | t => t

/-! ### rules 1-8: which runs can open / close -/

structure Run where
  ch : UInt8
  len : Nat
  canOpen : Bool
  canClose : Bool
deriving Repr, BEq, DecidableEq, Inhabited

inductive Tok where
  | chr (b : Bytes)
  | run (r : Run)
  | soft
  | hard
  | code (b : Bytes)
deriving Repr, BEq, DecidableEq, Inhabited

/-- class of what follows (end of the text = whitespace; another delimiter run = punctuation; the backslash of
    a backslash hard line break IS the character that follows: punctuation) -/
def nextCC : List PT → CC
  | [] => .ws
  | .chr _ cc :: _ => cc
  | .run _ _ :: _ => .punct
  | .hardB :: _ => .punct
  | .code _ :: _ => .punct          -- the backtick
  | _ => .ws

def leftFlanking (before after : CC) : Bool :=
  after != .ws && (after != .punct || before == .ws || before == .punct)
def rightFlanking (before after : CC) : Bool :=
  before != .ws && (before != .punct || after == .ws || after == .punct)

def mkRun (ch : UInt8) (n : Nat) (before after : CC) : Run :=
  let lf := leftFlanking before after
  let rf := rightFlanking before after
  if ch == 95 then
    { ch := ch, len := n, canOpen := lf && (!rf || before == .punct), canClose := rf && (!lf || after == .punct) }
  else
    { ch := ch, len := n, canOpen := lf, canClose := rf }

def classify : CC → List PT → List Tok
  | _, [] => []
  | before, t :: rest =>
    match t with
    | .chr b cc => .chr b :: classify cc rest
    | .run ch n => .run (mkRun ch n before (nextCC rest)) :: classify .punct rest
    | .soft => .soft :: classify .ws rest
    | .hard => .hard :: classify .ws rest
    | .hardB => .hard :: classify .ws rest
    | .brk _ => .soft :: classify .ws rest
    | .code b => .code b :: classify .punct rest
    | .bad => classify before rest

def tokens (u : UCls) (inl : Bytes) : List Tok := classify .ws ((group (lex u inl)).map fixBrk)

/-! ### rules 9-17: the delimiter stack -/

inductive Inl where
  | text (b : Bytes)
  | soft
  | hard
  | code (b : Bytes)
  /-- `strong`, delimiter character, index of the opening and of the closing run among the tokens, children -/
  | emph (strong : Bool) (ch : UInt8) (o c : Nat) (kids : List Inl)
deriving Repr, Inhabited

/-- a delimiter-stack entry: the run, its token index, the number of its characters not yet used -/
structure Delim where
  r : Run
  idx : Nat
  cur : Nat
deriving Repr, Inhabited

/-- stack entry together with the inline nodes that FOLLOW it (up to the next entry), in document order -/
structure Ent where
  d : Delim
  after : List Inl
deriving Repr, Inhabited

structure Stack where
  bot : List Inl       -- the nodes before the first entry
  ents : List Ent      -- most recent first
deriving Repr, Inhabited

def delimText (ch : UInt8) (n : Nat) : Inl := .text (List.replicate n ch)

def flattenEnts : List Ent → List Inl
  | [] => []
  | e :: es => flattenEnts es ++ (delimText e.d.r.ch e.d.cur :: e.after)

def Stack.flatten (st : Stack) : List Inl := st.bot ++ flattenEnts st.ents

def Stack.push (st : Stack) (n : Inl) : Stack :=
  match st.ents with
  | [] => { st with bot := st.bot ++ [n] }
  | e :: es => { st with ents := { e with after := e.after ++ [n] } :: es }

/-- rules 9 and 10, last sentence: "If one of the delimiters can both open and close (strong) emphasis, then the
    sum of the lengths of the delimiter runs containing the opening and closing delimiters must not be a
    multiple of 3 unless both lengths are multiples of 3." -/
def ruleOf3 (o c : Run) : Bool :=
  !((o.canClose || c.canOpen) && (o.len + c.len) % 3 == 0 && !(o.len % 3 == 0 && c.len % 3 == 0))

/-- `o` can be the opener for the closer `c` -/
def matchesRun (o c : Run) : Bool := o.canOpen && c.canClose && o.ch == c.ch && ruleOf3 o c

/-- "look back in the stack for the first matching potential opener": the entry, the entries below it, and
    the nodes between it and the closer (skipped delimiters become literal text: "remove any delimiters
    between the opener and closer from the delimiter stack") -/
def findOpener (c : Run) : List Ent → List Inl → Option (Ent × List Ent × List Inl)
  | [], _ => none
  | e :: below, inner =>
    if matchesRun e.d.r c then some (e, below, e.after ++ inner)
    else findOpener c below (delimText e.d.r.ch e.d.cur :: (e.after ++ inner))

/-- use `use` characters of opener `e` and of the closer: the new node goes after the opener's remaining text;
    an opener with nothing left is removed -/
def applyMatch (bot : List Inl) (e : Ent) (below : List Ent) (kids : List Inl) (use : Nat) (ch : UInt8) (ci : Nat) : Stack :=
  let node := Inl.emph (use == 2) ch e.d.idx ci kids
  if e.d.cur ≤ use then Stack.push ⟨bot, below⟩ node
  else ⟨bot, { d := { e.d with cur := e.d.cur - use }, after := [node] } :: below⟩

/-- the closer `c` (token index `ci`) with `cur` characters left takes openers while it finds one; returns
    the stack and the number of characters of the closer that were not used -/
def closeLoop (c : Run) (ci : Nat) : Nat → Stack → Stack × Nat
  | 0, st => (st, 0)
  | 1, st =>
    match findOpener c st.ents [] with
    | none => (st, 1)
    | some (e, below, kids) => (applyMatch st.bot e below kids 1 c.ch ci, 0)
  | cur + 2, st =>
    match findOpener c st.ents [] with
    | none => (st, cur + 2)
    | some (e, below, kids) =>
      if 2 ≤ e.d.cur then closeLoop c ci cur (applyMatch st.bot e below kids 2 c.ch ci)         -- strong (rule 13 ff.)
      else closeLoop c ci (cur + 1) (applyMatch st.bot e below kids 1 c.ch ci)

def step (i : Nat) (t : Tok) (st : Stack) : Stack :=
  match t with
  | .chr b => st.push (.text b)
  | .soft => st.push .soft
  | .hard => st.push .hard
  | .code b => st.push (.code b)
  | .run r =>
    let (st', left) := if r.canClose then closeLoop r i r.len st else (st, r.len)
    if left == 0 then st'
    else if r.canOpen then { st' with ents := ⟨⟨r, i, left⟩, []⟩ :: st'.ents }
    else st'.push (delimText r.ch left)

def parseGo : Nat → List Tok → Stack → Stack
  | _, [], st => st
  | i, t :: rest, st => parseGo (i + 1) rest (step i t st)

def parse (toks : List Tok) : List Inl := (parseGo 0 toks ⟨[], []⟩).flatten

/-! ### rendering (as the spec's reference renderer: `& < > "` escaped, XHTML `<br />`) -/

def escByte (c : UInt8) : Bytes :=
  if c == 38 then [38, 97, 109, 112, 59]              -- &amp;
  else if c == 60 then [38, 108, 116, 59]             -- &lt;
  else if c == 62 then [38, 103, 116, 59]             -- &gt;
  else if c == 34 then [38, 113, 117, 111, 116, 59]   -- &quot;
  else [c]

def esc (b : Bytes) : Bytes := b.flatMap escByte

def tagEmO : Bytes := [60, 101, 109, 62]                                  -- <em>
def tagEmC : Bytes := [60, 47, 101, 109, 62]                              -- </em>
def tagStO : Bytes := [60, 115, 116, 114, 111, 110, 103, 62]              -- <strong>
def tagStC : Bytes := [60, 47, 115, 116, 114, 111, 110, 103, 62]          -- </strong>
def tagBr : Bytes := [60, 98, 114, 32, 47, 62, 10]                        -- <br />\n
def tagCoO : Bytes := [60, 99, 111, 100, 101, 62]                         -- <code>
def tagCoC : Bytes := [60, 47, 99, 111, 100, 101, 62]                     -- </code>
def tagPO : Bytes := [60, 112, 62]                                        -- <p>
def tagPC : Bytes := [60, 47, 112, 62, 10]                                -- </p>\n

mutual
def render : Inl → Bytes
  | .text b => esc b
  | .soft => [10]
  | .hard => tagBr
  | .code b => tagCoO ++ esc b ++ tagCoC
  | .emph s _ _ _ kids => (if s then tagStO else tagEmO) ++ renderL kids ++ (if s then tagStC else tagEmC)
def renderL : List Inl → Bytes
  | [] => []
  | n :: ns => render n ++ renderL ns
end

/-- the HTML of a paragraph's inline content -/
def emphInline (u : UCls) (inl : Bytes) : Bytes := renderL (parse (tokens u inl))

/-! ### block level: the document is a sequence of paragraphs (sections 4.8, 4.9) -/

def splitLines : Bytes → List Bytes
  | [] => [[]]
  | c :: t =>
    if c == 10 then [] :: splitLines t
    else match splitLines t with
      | [] => [[c]]
      | l :: ls => (c :: l) :: ls

def isBlank (l : Bytes) : Bool := l.all (· == 32)
def indentOf (l : Bytes) : Nat := (l.takeWhile (· == 32)).length
def stripL (l : Bytes) : Bytes := l.dropWhile (· == 32)
def stripR (l : Bytes) : Bytes := (l.reverse.dropWhile (· == 32)).reverse

/-- thematic break (4.1): three or more of the same `*`, `_` or `-`, otherwise only spaces -/
def isThematic (l : Bytes) : Bool :=
  match stripL l with
  | [] => false
  | c :: _ => (c == 42 || c == 95 || c == 45) && l.all (fun x => x == c || x == 32) && 3 ≤ (l.filter (· == c)).length

/-- an ordered list marker: 1-9 digits, `.` or `)`, then a space or the end of the line -/
def olStart (l : Bytes) : Bool :=
  let ds := l.takeWhile isDigit
  match l.dropWhile isDigit with
  | c :: rest => 1 ≤ ds.length && ds.length ≤ 9 && (c == 46 || c == 41) && (rest.isEmpty || rest.head? == some 32)
  | [] => false

/-- A non-blank line (leading spaces stripped, fewer than 4 of them) that may start some block other than a
    paragraph, or end the paragraph it follows.  Conservative for everything but `*` and `_`: a line starting
    with `#` `>` `-` `+` `=` `~` or an ordered-list marker is outside the scope.  For `*`: a thematic break or a
    bullet list marker (`*` followed by a space or the end of the line); an EMPTY list item cannot interrupt a
    paragraph (5.2), so on a continuation line `*` followed only by spaces is paragraph text. -/
def startsBlock (cont : Bool) (l : Bytes) : Bool :=
  match l with
  | [] => false
  | c :: rest =>
    if c == 35 || c == 62 || c == 45 || c == 43 || c == 61 || c == 126 then true
    else if c == 96 then l.take 3 == [96, 96, 96]                 -- a code fence
    else if isDigit c then olStart l
    else if c == 42 then
      isThematic l || (match rest with
        | [] => !cont
        | d :: _ => d == 32 && !(cont && isBlank rest))
    else if c == 95 then isThematic l
    else false

/-- the lines of one paragraph → its inline content (leading spaces of every line stripped, final spaces
    stripped, lines joined by line endings), or `none` when the lines are not one paragraph within the scope -/
def paraContent : Bool → List Bytes → Option Bytes
  | _, [] => some []
  | cont, l :: ls =>
    let ind := indentOf l
    let body := stripL l
    if (!cont && 4 ≤ ind) then none                              -- indented code block
    else if ind < 4 && startsBlock cont body then none
    else match ls with
      | [] => some (stripR body)
      | _ => (paraContent true ls).map fun r => body ++ 10 :: r

/-- split the lines into groups separated by blank lines -/
def paragraphs : List Bytes → List (List Bytes)
  | [] => []
  | l :: ls =>
    let ps := paragraphs ls
    if isBlank l then [] :: ps
    else match ps with
      | [] => [[l]]
      | p :: ps' => (l :: p) :: ps'

/-- the applicability predicate on the characters of ONE paragraph's inline content: every character is in the
    alphabet (lexing depends on the context - code spans - so it is evaluated per paragraph) -/
def emphOnly (u : UCls) (inl : Bytes) : Bool := (lex u inl).all (· != .bad)

def docGo (u : UCls) : List (List Bytes) → Option Bytes
  | [] => some []
  | [] :: ps => docGo u ps
  | p :: ps =>
    match paraContent false p, docGo u ps with
    | some inl, some r => if emphOnly u inl then some (tagPO ++ emphInline u inl ++ tagPC ++ r) else none
    | _, _ => none

/-- the HTML the specification prescribes for the document `src`, or `none` when `src` is outside the scope
    (not a sequence of paragraphs, or a paragraph whose content is outside `emphOnly`) -/
def emphDoc (u : UCls) (src : Bytes) : Option Bytes := docGo u (paragraphs (splitLines src))

/-! ### notions used by the theorems (GM.Props.C02Emph) -/

/-- the characters of the tokens: the source with escape backslashes removed and line endings normalised -/
def tokChars : List Tok → Bytes
  | [] => []
  | .chr b :: ts => b ++ tokChars ts
  | .run r :: ts => List.replicate r.len r.ch ++ tokChars ts
  | .soft :: ts => 10 :: tokChars ts
  | .hard :: ts => 10 :: tokChars ts
  | .code b :: ts => b ++ tokChars ts

mutual
/-- the tree written back as text: every `emph` node puts its one or two delimiter characters around its children -/
def respell : Inl → Bytes
  | .text b => b
  | .soft => [10]
  | .hard => [10]
  | .code b => b
  | .emph s ch _ _ kids =>
    List.replicate (if s then 2 else 1) ch ++ respellL kids ++ List.replicate (if s then 2 else 1) ch
def respellL : List Inl → Bytes
  | [] => []
  | n :: ns => respell n ++ respellL ns
end

mutual
/-- the text content of the tree (what is left of the HTML when tags are stripped and entities decoded) -/
def textOf : Inl → Bytes
  | .text b => b
  | .soft => [10]
  | .hard => [10]
  | .code b => b
  | .emph _ _ _ _ kids => textOfL kids
def textOfL : List Inl → Bytes
  | [] => []
  | n :: ns => textOf n ++ textOfL ns
end

mutual
/-- every `emph` node of the tree satisfies `p strong ch opener closer` -/
def allEmph (p : Bool → UInt8 → Nat → Nat → Bool) : Inl → Bool
  | .emph s ch o c kids => p s ch o c && allEmphL p kids
  | _ => true
def allEmphL (p : Bool → UInt8 → Nat → Nat → Bool) : List Inl → Bool
  | [] => true
  | n :: ns => allEmph p n && allEmphL p ns
end

/-- HTML → its text content, still entity-escaped: everything from `<` to the next `>` is dropped -/
def stripTags : Bool → Bytes → Bytes
  | _, [] => []
  | false, c :: t => if c == 60 then stripTags true t else c :: stripTags false t
  | true, c :: t => if c == 62 then stripTags false t else stripTags true t

/-- the HTML as a sequence of events -/
inductive Ev where
  | op (strong : Bool)
  | cl (strong : Bool)
  | txt (b : Bytes)      -- escaped text, a line ending, or the void element `<br />` + line ending, a whole code span
deriving Repr, BEq, DecidableEq, Inhabited

def Ev.bytes : Ev → Bytes
  | .op s => if s then tagStO else tagEmO
  | .cl s => if s then tagStC else tagEmC
  | .txt b => b

mutual
def events : Inl → List Ev
  | .text b => [.txt (esc b)]
  | .soft => [.txt [10]]
  | .hard => [.txt tagBr]
  | .code b => [.txt (tagCoO ++ esc b ++ tagCoC)]
  | .emph s _ _ _ kids => .op s :: (eventsL kids ++ [.cl s])
def eventsL : List Inl → List Ev
  | [] => []
  | n :: ns => events n ++ eventsL ns
end

/-- tag balance: every closing tag closes the innermost open element, nothing stays open -/
def balGo : List Bool → List Ev → Bool
  | st, [] => st.isEmpty
  | st, .op s :: es => balGo (s :: st) es
  | [], .cl _ :: _ => false
  | s' :: st, .cl s :: es => s == s' && balGo st es
  | st, .txt _ :: es => balGo st es

/-- rules 1-10 for one node: tokens `o` and `c` are delimiter runs of the node's character, `o` before `c`, the
    first can open, the second can close (rules 1-8 via `mkRun`), and the multiple-of-3 condition holds -/
def soundAt (toks : List Tok) (_s : Bool) (ch : UInt8) (o c : Nat) : Bool :=
  match toks[o]?, toks[c]? with
  | some (.run ro), some (.run rc) => matchesRun ro rc && ch == rc.ch && decide (o < c)
  | _, _ => false

end GM.Spec.CMEmph
