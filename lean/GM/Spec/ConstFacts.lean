/-
  GM.Spec.ConstFacts — obligations over the regenerated CONSTANT facts (GM.Gen.Consts, written by
  harness/cmd/gmgen/gen_consts.go from the tree under test on every run): the regular-expression sources, tag /
  name lists, byte-string constants, integer limits, marker bytes and rendered string literals that the hand-written
  models embody. The hand-written models are tied to the code differentially (correspondence runs); this file makes
  the tie of their CONSTANTS static as well: a changed pattern, list entry, limit or literal makes a kernel-checked
  `decide` in GM.Props.Consts stop checking, and `report` below (evaluated by `./check`) names the constant, the
  value the code has now and the model location that was written against the old value.

  EXPECTED sides: where the model has the constant as a definition of its own, that definition is used
  (`GM.Blocks.allowedBlockTags`, `GM.Inl.bOpenComment`, `GM.Bufio.defaultBufSize`, …). Where the model has the value inline in
  a function that is the subject of other packages' proofs (Model/Blocks/*, Model/Inlines*, Model/LinkRef,
  Model/LineRec), the value is RESTATED here with a comment naming the model file:line that uses it — factoring it
  out would change definitional unfolding under those proofs. A hand-matched regular expression has no value in the
  model at all (the model is a matcher written against the pattern text); its expected side is the pattern text the
  matcher was written against, quoted from the doc comment of the matcher.

  This file contains definitions only (it builds whatever the generated values are); the obligations themselves
  are the theorems of GM.Props.Consts.
-/
import GM.Gen.Consts
import GM.Model.Util
import GM.Model.Blocks.Html
import GM.Model.InlinesParsers
import GM.Model.InlinesLoop
import GM.Model.Attribute
import GM.Model.Ids
import GM.Model.Footnote
import GM.Spec.Footnote
import GM.Model.ExtDecline
import GM.Model.Render
import GM.Model.Bufio

namespace GM.Spec.Consts
open GM

/-! ### look-ups in the regenerated tables (a fact gmgen did not understand is absent) -/

def regexpOf (name : String) : Option String :=
  match Gen.Consts.regexps.find? (·.name == name) with
  | some r => if r.understood then some r.pattern else none
  | none => none

def setOf (name : String) : Option (List String) :=
  match Gen.Consts.stringSets.find? (·.1 == name) with
  | some (_, understood, l) => if understood then some l else none
  | none => none

def bytesOf (name : String) : Option Bytes := (Gen.Consts.byteConsts.find? (·.1 == name)).map (·.2)

def intOf (name : String) : Option Int := (Gen.Consts.intConsts.find? (·.1 == name)).map (·.2)

/-- the sorted multiset of (operator, integer literal) pairs of one Go function -/
def intsOf (pkg fn : String) : List (String × Int) :=
  match Gen.Consts.funcInts.find? (fun f => f.pkg == pkg && f.fn == fn) with
  | some f => f.lits
  | none => []

/-- the sorted multiset of (context, string literal) pairs of one Go function -/
def strsOf (pkg fn : String) : List (String × Bytes) :=
  match Gen.Consts.funcStrs.find? (fun f => f.pkg == pkg && f.fn == fn) with
  | some f => f.lits
  | none => []

/-- the literals one Go function hands to `Write*` calls -/
def writesOf (pkg fn : String) : List Bytes := ((strsOf pkg fn).filter (·.1 == "write")).map (·.2)
/-- the other string literals of one Go function -/
def othersOf (pkg fn : String) : List Bytes := ((strsOf pkg fn).filter (·.1 == "other")).map (·.2)

/-! ### one atomic obligation: name of the constant, whether the code's value is the model's, and both values in
    words (the words are only evaluated by the diagnostic, never by the kernel) -/

structure Check where
  name : String
  ok : Bool
  code : String
  model : String

def showBytes (b : Bytes) : String :=
  "\"" ++ String.join (b.map fun c =>
    if c == 34 then "\\\"" else if c == 92 then "\\\\" else if c == 10 then "\\n" else if c == 9 then "\\t" else if c == 13 then "\\r"
    else if 32 ≤ c && c < 127 then String.singleton (Char.ofNat c.toNat)
    else "\\x" ++ String.singleton (hexDigit (c.toNat / 16)) ++ String.singleton (hexDigit (c.toNat % 16))) ++ "\""

def showOpt {α} (f : α → String) : Option α → String
  | some a => f a
  | none => "<absent or not understood by gmgen>"

def showInts (l : List (String × Int)) : String :=
  "[" ++ " ".intercalate (l.map fun (op, n) => s!"({op} {n})") ++ "]"

def Check.line (c : Check) : String := s!"{c.name}: the code now has {c.code}; {c.model}"

/-- a regular expression's source text -/
def regexpIs (name expected model : String) : Check :=
  { name := "regexp " ++ name, ok := regexpOf name == some expected, code := showOpt String.quote (regexpOf name),
    model := s!"{model} was hand-matched against {expected.quote}" }

/-- a package-level `map[string]bool` literal (keys, sorted) -/
def setIs (name : String) (expected : List String) (model : String) : Check :=
  { name := "string set " ++ name, ok := setOf name == some expected,
    code := showOpt (fun l => toString l) (setOf name), model := s!"{model} has {expected}" }

/-- a package-level byte-string / string constant -/
def bytesIs (name : String) (expected : Bytes) (model : String) : Check :=
  { name := "byte constant " ++ name, ok := bytesOf name == some expected, code := showOpt showBytes (bytesOf name),
    model := s!"{model} has {showBytes expected}" }

/-- a package-level integer constant -/
def intIs (name : String) (expected : Int) (model : String) : Check :=
  { name := "integer constant " ++ name, ok := intOf name == some expected, code := showOpt (fun n => toString n) (intOf name),
    model := s!"{model} has {expected}" }

/-- the Go function has exactly `k` occurrences of the comparison / slice bound / case label `op n` -/
def litCount (pkg fn op : String) (n : Int) (k : Nat) (model : String) : Check :=
  { name := s!"literal `{op} {n}` in {pkg}.{fn}", ok := (intsOf pkg fn).count (op, n) == k,
    code := s!"{(intsOf pkg fn).count (op, n)} occurrence(s) (all integer literals of the function: {showInts (intsOf pkg fn)})",
    model := s!"{model} mirrors {k} occurrence(s)" }

/-- ALL integer literals (comparisons, slice bounds, case labels, `%`) of the Go function, as a sorted multiset -/
def litsAre (pkg fn : String) (expected : List (String × Int)) (model : String) : Check :=
  { name := s!"integer literals of {pkg}.{fn}", ok := intsOf pkg fn == expected, code := showInts (intsOf pkg fn),
    model := s!"{model} mirrors {showInts expected}" }

/-- the literals the Go function hands to `Write*` calls, as a sorted multiset -/
def writesAre (pkg fn : String) (expected : List String) (model : String) : Check :=
  { name := s!"written literals of {pkg}.{fn}", ok := writesOf pkg fn == expected.map strBytes,
    code := toString ((writesOf pkg fn).map showBytes), model := s!"{model} writes {expected.map String.quote}" }

/-- the Go function contains the (non-written) string literal exactly `k` times -/
def strCount (pkg fn : String) (lit : Bytes) (k : Nat) (model : String) : Check :=
  { name := s!"string literal {showBytes lit} in {pkg}.{fn}", ok := (othersOf pkg fn).count lit == k,
    code := s!"{(othersOf pkg fn).count lit} occurrence(s) (string literals of the function: {(othersOf pkg fn).map showBytes})",
    model := s!"{model} uses it ({k} occurrence(s) in the code it mirrors)" }

/-- ALL string literals of the Go function that are not handed to a `Write*` call, as a sorted multiset -/
def strsAre (pkg fn : String) (expected : List String) (model : String) : Check :=
  { name := s!"string literals of {pkg}.{fn}", ok := othersOf pkg fn == expected.map strBytes,
    code := toString ((othersOf pkg fn).map showBytes), model := s!"{model} uses {expected.map String.quote}" }

def allOk (cs : List Check) : Bool := cs.all (·.ok)


/-- `script|pre|style|textarea` built from the model's own name list -/
def type1Alternation : Bytes :=
  match Blocks.type1Names with
  | [] => []
  | n :: ns => ns.foldl (fun acc m => acc ++ [124] ++ m) n

/-- the eight regular expressions of parser/html_block.go, hand-matched in Model/Blocks/Html.lean -/
def htmlBlockRegexps : List Check := [
  regexpIs "parser.htmlBlockType1OpenRegexp"
    "(?i)^[ ]{0,3}<(script|pre|style|textarea)(?:\\s.*|>.*|/>.*|)(?:\\r\\n|\\n)?$"
    "GM.Blocks.type1Open (Model/Blocks/Html.lean:84; tail1 :75, ciPrefix :58)",
  regexpIs "parser.htmlBlockType1CloseRegexp"
    "(?i)^.*</(?:script|pre|style|textarea)>.*"
    "GM.Blocks.type1Close (Model/Blocks/Html.lean:102; closeTagAt :93)",
  regexpIs "parser.htmlBlockType2OpenRegexp"
    "^[ ]{0,3}<!\\-\\-"
    "GM.Blocks.type2Open (Model/Blocks/Html.lean:112)",
  regexpIs "parser.htmlBlockType3OpenRegexp"
    "^[ ]{0,3}<\\?"
    "GM.Blocks.type3Open (Model/Blocks/Html.lean:114)",
  regexpIs "parser.htmlBlockType4OpenRegexp"
    "^[ ]{0,3}<![A-Z]+.*(?:\\r\\n|\\n)?$"
    "GM.Blocks.type4Open (Model/Blocks/Html.lean:116)",
  regexpIs "parser.htmlBlockType5OpenRegexp"
    "^[ ]{0,3}<\\!\\[CDATA\\["
    "GM.Blocks.type5Open (Model/Blocks/Html.lean:121)",
  regexpIs "parser.htmlBlockType6Regexp"
    "^[ ]{0,3}<(?:/[ ]*)?([a-zA-Z]+[a-zA-Z0-9\\-]*)(?:[ ].*|>.*|/>.*|)(?:\\r\\n|\\n)?$"
    "GM.Blocks.type6Match (Model/Blocks/Html.lean:283; tagHead :126)",
  regexpIs "parser.htmlBlockType7Regexp"
    "^[ ]{0,3}<(/[ ]*)?([a-zA-Z]+[a-zA-Z0-9\\-]*)((?:[\\r\\n \\t]+[a-zA-Z_:][a-zA-Z0-9:._-]*(?:[\\r\\n \\t]*=[\\r\\n \\t]*(?:[^\\\"'=<>`\\x00-\\x20]+|'[^']*'|\"[^\"]*\"))?)*)[ ]*(?:>|/>)[ ]*(?:\\r\\n|\\n)?$"
    "GM.Blocks.type7Match (Model/Blocks/Html.lean:271; tagHead :126, attrOne :165, attrs :248, tail7 :257)",
  { name := "regexp parser.htmlBlockType1OpenRegexp / Type1CloseRegexp alternation vs GM.Blocks.type1Names",
    ok := (regexpOf "parser.htmlBlockType1OpenRegexp").map strBytes ==
            some (strBytes "(?i)^[ ]{0,3}<(" ++ type1Alternation ++ strBytes ")(?:\\s.*|>.*|/>.*|)(?:\\r\\n|\\n)?$") &&
          (regexpOf "parser.htmlBlockType1CloseRegexp").map strBytes ==
            some (strBytes "(?i)^.*</(?:" ++ type1Alternation ++ strBytes ")>.*"),
    code := showOpt String.quote (regexpOf "parser.htmlBlockType1OpenRegexp"),
    model := "GM.Blocks.type1Names (Model/Blocks/Html.lean:72) is the list of tag names both expressions alternate over" }
]

/-- the block-tag set and the closing markers of HTML block types 2-5 (parser/html_block.go:13-92) -/
def htmlBlockTags : List Check := [
  setIs "parser.allowedBlockTags" Blocks.allowedBlockTags "GM.Blocks.allowedBlockTags (Model/Blocks/Html.lean:14)",
  bytesIs "parser.htmlBlockType2Close" (strBytes "-->") "GM.Blocks.htmlContinue (Model/Blocks/Html.lean:352)",
  bytesIs "parser.htmlBlockType3Close" (strBytes "?>") "GM.Blocks.htmlContinue (Model/Blocks/Html.lean:353)",
  bytesIs "parser.htmlBlockType4Close" (strBytes ">") "GM.Blocks.htmlContinue (Model/Blocks/Html.lean:354)",
  bytesIs "parser.htmlBlockType5Close" (strBytes "]]>") "GM.Blocks.htmlContinue (Model/Blocks/Html.lean:355)",
  strsAre "parser" "htmlBlockParser.Open" ["/", "pre", "script", "style"] "GM.Blocks.htmlOpenType (Model/Blocks/Html.lean:311: the three tag names that never open a type-7 block; `/` is the isCloseTag test, tagHead :126)",
  litsAre "parser" "htmlBlockParser.Open"
    [("!=", 60), ("<", 0), (">", -1)]
    "GM.Blocks.htmlOpen (Model/Blocks/Html.lean:323-339)",
  litsAre "parser" "htmlBlockParser.Continue"
    [("==", 1), ("==", 1), ("arg:At", 0), ("arg:At", 0)]
    "GM.Blocks.htmlContinue (Model/Blocks/Html.lean:346-368: HTMLBlockType1 = 1 selects the regexp close condition)",
  intIs "ast.HTMLBlockType1" 1 "GM.Blocks.htmlOpenType (Model/Blocks/Html.lean:300)",
  intIs "ast.HTMLBlockType2" 2 "GM.Blocks.htmlOpenType (Model/Blocks/Html.lean:301)",
  intIs "ast.HTMLBlockType3" 3 "GM.Blocks.htmlOpenType (Model/Blocks/Html.lean:302)",
  intIs "ast.HTMLBlockType4" 4 "GM.Blocks.htmlOpenType (Model/Blocks/Html.lean:303)",
  intIs "ast.HTMLBlockType5" 5 "GM.Blocks.htmlOpenType (Model/Blocks/Html.lean:304)",
  intIs "ast.HTMLBlockType6" 6 "GM.Blocks.htmlOpenType (Model/Blocks/Html.lean:310)",
  intIs "ast.HTMLBlockType7" 7 "GM.Blocks.htmlOpenType (Model/Blocks/Html.lean:312)"
]

/-- the two tag expressions of parser/raw_html.go, their three pattern parts, and the raw-HTML markers -/
def rawHtmlRegexps : List Check := [
  regexpIs "parser.openTagRegexp"
    "^<([A-Za-z][A-Za-z0-9-]*)(?:[\\r\\n \\t]+[a-zA-Z_:][a-zA-Z0-9:._-]*(?:[\\r\\n \\t]*=[\\r\\n \\t]*(?:[^\\\"'=<>`\\x00-\\x20]+|'[^']*'|\"[^\"]*\"))?)*(?:[ \\t]|(?:\\r\\n|\\n){0,1})*/?>"
    "GM.Inl.matchOpenTag (Model/InlinesParsers.lean:601; tagAttrs :563, spOK :527)",
  regexpIs "parser.closeTagRegexp"
    "^</([A-Za-z][A-Za-z0-9-]*)(?:[ \\t]|(?:\\r\\n|\\n){0,1})*>"
    "GM.Inl.matchCloseTag (Model/InlinesParsers.lean:612)",
  bytesIs "parser.tagnamePattern" (strBytes "([A-Za-z][A-Za-z0-9-]*)") "GM.Inl.isTagNameChar (Model/InlinesParsers.lean:520) / GM.Blocks.isTagChar (Model/Blocks/Html.lean:28)",
  bytesIs "parser.spaceOrOneNewline" (strBytes "(?:[ \\t]|(?:\\r\\n|\\n){0,1})") "GM.Inl.spOK (Model/InlinesParsers.lean:527)",
  bytesIs "parser.attributePattern" (strBytes "(?:[\\r\\n \\t]+[a-zA-Z_:][a-zA-Z0-9:._-]*(?:[\\r\\n \\t]*=[\\r\\n \\t]*(?:[^\\\"'=<>`\\x00-\\x20]+|'[^']*'|\"[^\"]*\"))?)") "GM.Blocks.attrOne (Model/Blocks/Html.lean:165; classes :139-144) and GM.Inl.tagAttrs (Model/InlinesParsers.lean:563; classes :519-523)",
  bytesIs "parser.openComment" Inl.bOpenComment "GM.Inl.bOpenComment (Model/InlinesParsers.lean:694)",
  bytesIs "parser.emptyComment1" Inl.bEmptyComment1 "GM.Inl.bEmptyComment1 (Model/InlinesParsers.lean:695; its length 5 inline at :719)",
  bytesIs "parser.emptyComment2" Inl.bEmptyComment2 "GM.Inl.bEmptyComment2 (Model/InlinesParsers.lean:696; its length 6 inline at :722)",
  bytesIs "parser.closeComment" Inl.bCloseComment "GM.Inl.bCloseComment (Model/InlinesParsers.lean:697)",
  bytesIs "parser.openProcessingInstruction" Inl.bOpenPI "GM.Inl.bOpenPI (Model/InlinesParsers.lean:698)",
  bytesIs "parser.closeProcessingInstruction" Inl.bClosePI "GM.Inl.bClosePI (Model/InlinesParsers.lean:699)",
  bytesIs "parser.openCDATA" Inl.bOpenCDATA "GM.Inl.bOpenCDATA (Model/InlinesParsers.lean:700)",
  bytesIs "parser.closeCDATA" Inl.bCloseCDATA "GM.Inl.bCloseCDATA (Model/InlinesParsers.lean:701)",
  bytesIs "parser.closeDecl" [62] "GM.Inl.parseRawHTML (Model/InlinesParsers.lean:726, `untilP [62] 0`)",
  litsAre "parser" "rawHTMLParser.Parse"
    [("<=", 90), ("==", 33), ("==", 47), (">", 1), (">", 2), (">", 2), (">=", 65)]
    "GM.Inl.parseRawHTML (Model/InlinesParsers.lean:704-728)",
  litsAre "parser" "rawHTMLParser.parseComment"
    [(">", -1)]
    "GM.Inl.rhUntil (Model/InlinesParsers.lean:672)",
  litsAre "parser" "rawHTMLParser.parseUntil"
    [(">", -1)]
    "GM.Inl.rhUntil (Model/InlinesParsers.lean:672)"
]

/-- autolinks: the e-mail domain expression of util/util.go and the literal bounds of FindURLIndex / FindEmailIndex / autoLinkParser.Parse -/
def autolinkRegexps : List Check := [
  regexpIs "util.emailDomainRegexp"
    "^[a-zA-Z0-9](?:[a-zA-Z0-9-]{0,61}[a-zA-Z0-9])?(?:\\.[a-zA-Z0-9](?:[a-zA-Z0-9-]{0,61}[a-zA-Z0-9])?)*"
    "GM.Inl.matchEmailDomain (Model/InlinesParsers.lean:472; domLabel :454 with `min 61`, domBestK :450, domRest :463)",
  litsAre "util" "FindEmailIndex"
    [("!=", 1), ("!=", 64), ("==", 0)]
    "GM.Inl.findEmailIndex (Model/InlinesParsers.lean:478-485)",
  litsAre "util" "FindURLIndex"
    [("!=", 1), ("!=", 4), ("!=", 58), ("==", 1), ("==", 7), (">", 0), (">", 32)]
    "GM.Inl.findURLIndex (Model/InlinesParsers.lean:488-497: scheme length `i == 1 || i > 32`, table bits 1/4/7)",
  litsAre "parser" "autoLinkParser.Parse"
    [("!=", 62), ("<", 0), ("<", 0), ("slice-lo", 1), ("slice-lo", 1)]
    "GM.Inl.parseAutoLink (Model/InlinesParsers.lean:499-515)"
]

/-- the four delimiter-row expressions of extension/table.go and the delimiter-line test -/
def tableRegexps : List Check := [
  regexpIs "extension.tableDelimLeft"
    "^\\s*\\:\\-+\\s*$"
    "GM.Table.tableDelimLeft (Model/Table.lean:78)",
  regexpIs "extension.tableDelimRight"
    "^\\s*\\-+\\:\\s*$"
    "GM.Table.tableDelimRight (Model/Table.lean:85)",
  regexpIs "extension.tableDelimCenter"
    "^\\s*\\:\\-+\\:\\s*$"
    "GM.Table.tableDelimCenter (Model/Table.lean:92)",
  regexpIs "extension.tableDelimNone"
    "^\\s*\\-+\\s*$"
    "GM.Table.tableDelimNone (Model/Table.lean:101)",
  litsAre "extension" "isTableDelim"
    [("==", 45), ("==", 58), ("==", 124), (">", 3), ("arg:IndentWidth", 0)]
    "GM.Table.isTableDelim (Model/Table.lean:57-59)",
  litsAre "extension" "tableParagraphTransformer.parseDelimiter"
    [(">", 0), ("slice-lo", 1)]
    "GM.Table.parseDelimiter (Model/Table.lean:133)",
  litsAre "extension" "tableParagraphTransformer.parseRow"
    [("!=", 92), ("==", 0), ("==", 96), ("==", 124), ("==", 124), ("==", 124), (">", 0), (">", 0)]
    "GM.Table.parseRow / scanCell (Model/Table.lean:163-203)",
  litsAre "extension" "tableParagraphTransformer.Transform"
    [("<", 2), ("==", 0), ("arg:SetSliced", 0)]
    "GM.Table.transform (Model/Table.lean)",
  intIs "east.AlignLeft" 1 "GM.Table.Align (Model/Table.lean:24) / GM.alignName (Model/Render.lean:143)",
  intIs "east.AlignRight" 2 "GM.Table.Align (Model/Table.lean:24)",
  intIs "east.AlignCenter" 3 "GM.Table.Align (Model/Table.lean:24)",
  intIs "east.AlignNone" 4 "GM.Table.Align (Model/Table.lean:24)"
]

/-- extensions: the task-list expression (hand-matched), the linkify guards, and the two linkify URL expressions, which NO model matches (ExtDecline answers `.regexp` there) and which are recorded so that the inventory below is complete -/
def extensionRegexps : List Check := [
  regexpIs "extension.taskListRegexp"
    "^\\[([\\sxX])\\]\\s*"
    "GM.Ext.taskParse (Model/ExtDecline.lean:228-236)",
  litsAre "extension" "taskCheckBoxParser.Parse"
    [("==", 88), ("==", 120)]
    "GM.Ext.taskParse (Model/ExtDecline.lean:233)",
  regexpIs "extension.wwwURLRegxp"
    "^www\\.[-a-zA-Z0-9@:%._\\+~#=]{1,256}\\.[a-z]+(?:[/#?][-a-zA-Z0-9@:%_\\+.~#!?&/=\\(\\);,'\">\\^{}\\[\\]`]*)?"
    "NOT MODELLED: GM.Ext.linkifyBody answers `.regexp` (Model/ExtDecline.lean:90)",
  regexpIs "extension.urlRegexp"
    "^(?:http|https|ftp)://[-a-zA-Z0-9@:%._\\+~#=]{1,256}\\.[a-z]+(?::\\d+)?(?:[/#?][-a-zA-Z0-9@:%_+.~#$!?&/=\\(\\);,'\">\\^{}\\[\\]`]*)?"
    "NOT MODELLED: GM.Ext.linkifyBody answers `.regexp` (Model/ExtDecline.lean:90)",
  bytesIs "extension.protoHTTP" Ext.protoHTTP "GM.Ext.protoHTTP (Model/ExtDecline.lean:49)",
  bytesIs "extension.protoHTTPS" Ext.protoHTTPS "GM.Ext.protoHTTPS (Model/ExtDecline.lean:50)",
  bytesIs "extension.protoFTP" Ext.protoFTP "GM.Ext.protoFTP (Model/ExtDecline.lean:51)",
  bytesIs "extension.domainWWW" Ext.domainWWW "GM.Ext.domainWWW (Model/ExtDecline.lean:52)",
  litsAre "extension" "footnoteBlockParser.Open"
    [("!=", 58), ("!=", 91), ("!=", 94), ("<", 0), (">", -1), ("arg:FindClosure", 91), ("arg:FindClosure", 93)]
    "GM.Ext.footnoteOpen (Model/ExtDecline.lean:156-172)",
  litsAre "extension" "footnoteParser.Parse"
    [("!=", 94), ("<", 0), ("<", 0), ("==", 0), ("==", 33), ("==", 33), (">", 0), ("arg:FindClosure", 91), ("arg:FindClosure", 93)]
    "GM.Ext.footnoteParse (Model/ExtDecline.lean:118-140)",
  litsAre "extension" "definitionDescriptionParser.Open"
    [("!=", 0), ("!=", 58), ("<", 0)]
    "GM.Ext.defDescOpen (Model/ExtDecline.lean:212-220)",
  litCount "extension" "definitionListParser.Open" "<" 1 1
    "GM.Ext.defListOpen (Model/ExtDecline.lean:203, `w < 1`)",
  litCount "extension" "definitionListParser.Open" "!=" 58 1
    "GM.Ext.defListOpen (Model/ExtDecline.lean:200)"
]

/-- the numeric limits of the CommonMark block and inline grammar and of the util functions under them, as the code states them, one obligation per limit (robust: other literals of the same function may change) -/
def limits : List Check := [
  litCount "parser" "linkParser.parseReferenceLink" ">" 999 1
    "GM.Inl.parseReferenceLink (Model/InlinesParsers.lean:345, `length > 999`)",
  litCount "parser" "linkParser.Parse" ">" 999 1
    "GM.Inl.linkShortcut (Model/InlinesParsers.lean:368, `length > 999`)",
  litCount "parser" "linkParser.Parse" ">" 998 1
    "GM.Inl.parseLinkClose (Model/InlinesParsers.lean:403, `labelLen pre > 998`)",
  litCount "parser" "parseListItem" ">" 9 1
    "GM.Blocks.parseListItem (Model/Blocks/List.lean:82) / GM.LineRec.parseListItem (Model/LineRec.lean:175): at most 9 digits",
  litCount "parser" "parseListItem" ">" 3 1
    "GM.Blocks.parseListItem (Model/Blocks/List.lean:74) / GM.LineRec.parseListItem (Model/LineRec.lean:167): indent > 3",
  litCount "parser" "matchesListItem" "<" 4 1
    "GM.Blocks.matchesListItem (Model/Blocks/List.lean:93) / GM.LineRec.matchesListItem (Model/LineRec.lean:186)",
  litCount "parser" "calcListOffset" ">" 4 1
    "GM.Blocks.calcListOffset (Model/Blocks/List.lean:102) / GM.LineRec.calcListOffset (Model/LineRec.lean:201)",
  litCount "parser" "listParser.Continue" "<" 4 2
    "GM.Blocks.listContinue (Model/Blocks/List.lean:172, :174)",
  litCount "parser" "listItemParser.Open" ">" 3 1
    "GM.Blocks.listItemOpen (Model/Blocks/List.lean:241) / GM.LineRec.listItemOpen (Model/LineRec.lean:240)",
  litCount "parser" "listItemParser.Continue" "<" 4 1
    "GM.Blocks.listItemContinue (Model/Blocks/List.lean:267)",
  litCount "parser" "codeBlockParser.Open" "arg:IndentPosition" 4 1
    "GM.Blocks.codeOpen (Model/Blocks/Leaf.lean:235) / GM.LineRec.codeOpen (Model/LineRec.lean:400): code indent 4",
  litCount "parser" "codeBlockParser.Continue" "arg:IndentPosition" 4 1
    "GM.Blocks.codeContinue (Model/Blocks/Leaf.lean:249) / GM.LineRec.codeContinue (Model/LineRec.lean:405)",
  litCount "parser" "codeBlockParser.Continue" "arg:TrimLeftSpaceWidth" 4 1
    "GM.Blocks.codeContinue (Model/Blocks/Leaf.lean:246)",
  litCount "parser" "fencedCodeBlockParser.Open" "<" 3 1
    "GM.Blocks.fencedOpen (Model/Blocks/Leaf.lean:284) / GM.LineRec.fenceOpen (Model/LineRec.lean:354): fence length >= 3",
  litCount "parser" "fencedCodeBlockParser.Continue" "<" 4 1
    "GM.Blocks.fencedContinue (Model/Blocks/Leaf.lean:312) / GM.LineRec.fenceClose (Model/LineRec.lean:362): closing fence indent < 4",
  litCount "parser" "atxHeadingParser.Open" ">" 6 1
    "GM.Blocks.atxOpen (Model/Blocks/Leaf.lean:116) / GM.LineRec.atxOpen (Model/LineRec.lean:290) / GM.Attr.atxOpen (Model/Attribute.lean:453): level <= 6",
  litCount "parser" "isThematicBreak" ">" 2 1
    "GM.Blocks.tbLoop (Model/Blocks/Leaf.lean:74) / GM.LineRec.tbLoop (Model/LineRec.lean:122): at least 3 markers",
  litCount "parser" "isThematicBreak" ">" 3 1
    "GM.Blocks.isThematicBreak (Model/Blocks/Leaf.lean:85) / GM.LineRec.isThematicBreak (Model/LineRec.lean:133)",
  litCount "parser" "matchesSetextHeadingBar" ">" 3 1
    "GM.Blocks.matchesSetextHeadingBar (Model/Blocks/Leaf.lean:143) / GM.LineRec.setextBar (Model/LineRec.lean:305)",
  litCount "parser" "blockquoteParser.process" ">" 3 1
    "GM.Blocks.blockquoteProcess (Model/Blocks/List.lean:18) / GM.LineRec.quoteProcess (Model/LineRec.lean:376)",
  litCount "parser" "parser.openBlocks" ">" 3 1
    "GM.Blocks.tryParsers (Model/Blocks/Driver.lean:113) / GM.LineRec.openLine (Model/LineRec.lean:443)",
  litCount "parser" "parseLinkReferenceDefinition" ">" 3 1
    "GM.LinkRef.defHead (Model/LinkRef.lean:57, `width > 3`)",
  litCount "extension" "isTableDelim" ">" 3 1
    "GM.Table.isTableDelim (Model/Table.lean:58)",
  litCount "util" "FindURLIndex" ">" 32 1
    "GM.Inl.findURLIndex (Model/InlinesParsers.lean:494): scheme of 2..32 bytes",
  litCount "util" "ResolveNumericReferences" "<" 8 1
    "GM.tryNumRef (Model/Util.lean:87): at most 7 decimal digits",
  litCount "util" "ResolveNumericReferences" "arg:ParseUint" 16 1
    "GM.parseUintHex (Model/Util.lean:62)",
  litCount "util" "ResolveNumericReferences" "arg:ParseUint" 32 2
    "GM.parseUintHex / GM.parseUintBase0 (Model/Util.lean:62-69): 32-bit range",
  litCount "util" "DoFullUnicodeCaseFolding" "<" 181 1
    "GM.caseFold (Model/Util.lean:292, `c < 0xb5`)",
  litCount "util" "TabWidth" "%" 4 1
    "GM.tabWidth (Model/Util.lean:331) / GM.Blocks.tabWidthI (Model/Blocks/Basic.lean:25)",
  litCount "parser" "Delimiter.CalcComsumption" "%" 3 2
    "GM.Inl.Delim.calcConsumption (Model/Inlines.lean:140-141): the rule of three",
  litCount "parser" "Delimiter.CalcComsumption" ">=" 2 2
    "GM.Inl.Delim.calcConsumption (Model/Inlines.lean:142-143)"
]

/-- marker byte sets: bullets, ordered delimiters, thematic-break / fence / emphasis / heading characters, as compared in the code -/
def markers : List Check := [
  litCount "parser" "parseListItem" "==" 45 1
    "GM.Blocks.parseListItem (Model/Blocks/List.lean:79) / GM.LineRec.parseListItem (Model/LineRec.lean:172): bullet '-'",
  litCount "parser" "parseListItem" "==" 42 1
    "same: bullet '*'",
  litCount "parser" "parseListItem" "==" 43 1
    "same: bullet '+'",
  litCount "parser" "parseListItem" "==" 46 1
    "GM.Blocks.parseListItem (Model/Blocks/List.lean:86) / GM.LineRec.parseListItem (Model/LineRec.lean:179): delimiter '.'",
  litCount "parser" "parseListItem" "==" 41 1
    "same: delimiter ')'",
  litCount "parser" "isThematicBreak" "==" 42 1
    "GM.Blocks.tbLoop (Model/Blocks/Leaf.lean:78) / GM.LineRec.tbLoop (Model/LineRec.lean:126): '*'",
  litCount "parser" "isThematicBreak" "==" 45 1
    "same: '-'",
  litCount "parser" "isThematicBreak" "==" 95 1
    "same: '_'",
  litCount "parser" "fencedCodeBlockParser.Open" "!=" 96 1
    "GM.Blocks.fencedOpen (Model/Blocks/Leaf.lean:280) / GM.LineRec.fenceOpen (Model/LineRec.lean:350): '`'",
  litCount "parser" "fencedCodeBlockParser.Open" "!=" 126 1
    "same: '~'",
  litCount "parser" "fencedCodeBlockParser.Open" "==" 96 1
    "GM.Blocks.fencedOpen (Model/Blocks/Leaf.lean:295) / GM.LineRec.fenceInfoBad (Model/LineRec.lean:333): no '`' in a backtick fence's info",
  litCount "parser" "atxHeadingParser.Open" "==" 35 4
    "GM.Blocks.atxOpen (Model/Blocks/Leaf.lean:114, :133) / GM.LineRec.atxOpen (Model/LineRec.lean:288): '#'",
  litCount "parser" "blockquoteParser.process" "!=" 62 1
    "GM.Blocks.blockquoteProcess (Model/Blocks/List.lean:19) / GM.LineRec.quoteProcess (Model/LineRec.lean:381): '>'",
  litCount "parser" "setextHeadingParser.Open" "==" 45 1
    "GM.Blocks.setextOpen (Model/Blocks/Leaf.lean:166): '-' gives level 2",
  litCount "parser" "listParser.Continue" "==" 45 1
    "GM.Blocks.listContinue (Model/Blocks/List.lean:186): a '-' line may be a thematic break",
  litCount "parser" "emphasisDelimiterProcessor.IsDelimiter" "==" 42 1
    "GM.Inl.scanDelimiter (Model/Inlines.lean:118): '*'",
  litCount "parser" "emphasisDelimiterProcessor.IsDelimiter" "==" 95 1
    "GM.Inl.scanDelimiter (Model/Inlines.lean:118): '_'",
  litCount "parser" "ScanDelimiter" "==" 95 1
    "GM.Inl.scanDelimiter (Model/Inlines.lean:128): '_' is intraword-restricted",
  litsAre "parser" "codeSpanParser.Parse"
    [("!=", 96), ("==", 96), ("==", 96), ("==", 96)]
    "GM.Inl.csScan / parseCodeSpan (Model/InlinesParsers.lean:36-37, :117): '`'",
  litsAre "parser" "isSpaceOrNewline"
    [("==", 10), ("==", 32)]
    "GM.Inl.isSpaceOrNewline (Model/InlinesParsers.lean:59)"
]

/-- whole-function fingerprints: ALL integer literals (comparisons, slice bounds, case labels, `%`, literal call arguments) of the functions the block-, inline-, link-reference-, attribute- and id-models mirror. Sensitive by design: any literal added, removed or changed in one of these functions is reported with the function name -/
def mirroredLiterals : List Check := [
  litsAre "parser" "isThematicBreak"
    [("==", 0), ("==", 42), ("==", 45), ("==", 95), (">", 2), (">", 3)]
    "GM.Blocks.isThematicBreak / tbLoop (Model/Blocks/Leaf.lean:74-85), GM.LineRec (Model/LineRec.lean:122-133)",
  litsAre "parser" "parseListItem"
    [("!=", 10), ("!=", 10), ("==", 0), ("==", 9), ("==", 10), ("==", 32), ("==", 41), ("==", 42), ("==", 43), ("==", 45), ("==", 46), (">", 3), (">", 9), ("arg:IndentWidth", 0)]
    "GM.Blocks.parseListItem (Model/Blocks/List.lean:70-90), GM.LineRec.parseListItem (Model/LineRec.lean:160-182)",
  litsAre "parser" "matchesListItem"
    [("!=", 0), ("<", 4)]
    "GM.Blocks.matchesListItem (Model/Blocks/List.lean:93), GM.LineRec.matchesListItem (Model/LineRec.lean:186)",
  litsAre "parser" "calcListOffset"
    [("<", 0), (">", 4)]
    "GM.Blocks.calcListOffset (Model/Blocks/List.lean:96-103), GM.LineRec.calcListOffset (Model/LineRec.lean:190-202)",
  litsAre "parser" "listParser.Open"
    [("!=", 1), ("<", 0), ("==", 0), ("==", 2), ("==", 2), (">", -1)]
    "GM.Blocks.listOpen (Model/Blocks/List.lean:125-150; list types 1/2 = bulletList/orderedList), GM.LineRec.listOpen (Model/LineRec.lean:210-228)",
  litsAre "parser" "listParser.Continue"
    [("!=", 0), ("<", 4), ("<", 4), ("==", 0), ("==", 0), ("==", 2), ("==", 45), ("arg:isThematicBreak", 0)]
    "GM.Blocks.listContinue (Model/Blocks/List.lean:160-200)",
  litsAre "parser" "listItemParser.Open"
    [("<", 0), ("==", 0), (">", 3)]
    "GM.Blocks.listItemOpen (Model/Blocks/List.lean:230-250), GM.LineRec.listItemOpen (Model/LineRec.lean:232-245)",
  litsAre "parser" "listItemParser.Continue"
    [("!=", 0), ("<", 4), ("==", 0)]
    "GM.Blocks.listItemContinue (Model/Blocks/List.lean:255-275)",
  litsAre "parser" "atxHeadingParser.Open"
    [("!=", 0), ("<", 0), ("==", 0), ("==", 35), ("==", 35), ("==", 35), ("==", 35), (">", 0), (">", 6)]
    "GM.Blocks.atxOpen (Model/Blocks/Leaf.lean:105-135), GM.LineRec.atxOpen (Model/LineRec.lean:285-300), GM.Attr.atxOpen (Model/Attribute.lean:445-470)",
  litsAre "parser" "matchesSetextHeadingBar"
    [("==", 0), (">", 0), (">", 0), (">", 3)]
    "GM.Blocks.matchesSetextHeadingBar (Model/Blocks/Leaf.lean:140-150), GM.LineRec.setextBar (Model/LineRec.lean:303-312)",
  litsAre "parser" "setextHeadingParser.Open"
    [("==", 45)]
    "GM.Blocks.setextOpen (Model/Blocks/Leaf.lean:155-170)",
  litsAre "parser" "fencedCodeBlockParser.Open"
    [("!=", 96), ("!=", 126), ("<", 0), ("<", 3), ("==", 96), (">", -1), ("arg:IndexByte", 96)]
    "GM.Blocks.fencedOpen (Model/Blocks/Leaf.lean:270-300), GM.LineRec.fenceOpen (Model/LineRec.lean:340-358)",
  litsAre "parser" "fencedCodeBlockParser.Continue"
    [("!=", 0), ("!=", 10), ("<", 0), ("<", 0), ("<", 4)]
    "GM.Blocks.fencedContinue (Model/Blocks/Leaf.lean:305-325), GM.LineRec.fenceClose (Model/LineRec.lean:360-366)",
  litsAre "parser" "blockquoteParser.process"
    [("!=", 62), ("==", 9), ("==", 9), ("==", 10), ("==", 32), (">", 3), ("arg:AdvanceAndSetPadding", 1)]
    "GM.Blocks.blockquoteProcess (Model/Blocks/List.lean:12-35), GM.LineRec.quoteProcess (Model/LineRec.lean:370-396)",
  litsAre "parser" "codeBlockParser.Open"
    [("!=", 0), ("<", 0), ("arg:IndentPosition", 4), ("arg:preserveLeadingTabInCodeBlock", 0)]
    "GM.Blocks.codeOpen (Model/Blocks/Leaf.lean:230-240), GM.LineRec.codeOpen (Model/LineRec.lean:400)",
  litsAre "parser" "codeBlockParser.Continue"
    [("!=", 0), ("<", 0), ("arg:IndentPosition", 4), ("arg:TrimLeftSpaceWidth", 4), ("arg:preserveLeadingTabInCodeBlock", 0)]
    "GM.Blocks.codeContinue (Model/Blocks/Leaf.lean:243-255), GM.LineRec.codeContinue (Model/LineRec.lean:405)",
  litsAre "parser" "parser.openBlocks"
    [("!=", 0), ("!=", 0), ("!=", 0), ("==", 3), ("==", 3), ("==", 10), (">", 3), ("arg:SetBlockIndent", -1), ("arg:SetBlockOffset", -1), ("slice-lo", 0)]
    "GM.Blocks.openBlocksLoop / tryParsers (Model/Blocks/Driver.lean:105-200), GM.LineRec.blockOffset / openLine (Model/LineRec.lean:410-445)",
  litsAre "parser" "parser.parseBlocks"
    [("!=", 0), ("!=", 0), ("!=", 0), ("!=", 0), ("!=", 0), ("!=", 1), ("!=", 2), ("==", 0), ("arg:closeBlocks", 0), ("arg:isBlankLine", 0), ("slice-hi", 0), ("slice-lo", 0)]
    "GM.Blocks.parseBlocks (Model/Blocks/Driver.lean:300-400)",
  litsAre "parser" "parser.parseBlock"
    [("!=", 0), ("!=", 0), ("!=", 0), ("!=", 0), ("!=", 10), ("!=", 13), ("%", 2), ("%", 2), ("==", 0), ("==", 0), ("==", 1), ("==", 1), ("==", 10), ("==", 10), ("==", 13), ("==", 13), ("==", 32), ("==", 32), ("==", 32), ("==", 32), ("==", 92), (">=", 2), (">=", 3), (">=", 3), (">=", 4)]
    "GM.Inl.classify / parserChar / eolText / endOfLine (Model/InlinesLoop.lean:51-150), GM.InlineLoop (Model/InlineLoop.lean)",
  litsAre "parser" "trailingBackslashes"
    [("==", 92), (">=", 0)]
    "GM.Inl.trailingBackslashes (Model/InlinesLoop.lean:51)",
  litsAre "parser" "linkParser.Parse"
    [("==", 33), ("==", 40), ("==", 91), ("==", 91), ("==", 91), (">", 1), (">", 998), (">", 999), ("arg:Advance", 1), ("arg:Advance", 1)]
    "GM.Inl.parseLink / parseLinkClose / linkShortcut (Model/InlinesParsers.lean:360-430)",
  litsAre "parser" "linkParser.parseReferenceLink"
    [("==", 0), ("==", 1), (">", 999), ("arg:Advance", 1), ("arg:At", 0), ("arg:FindClosure", 91), ("arg:FindClosure", 93)]
    "GM.Inl.parseReferenceLink (Model/InlinesParsers.lean:330-350)",
  litsAre "parser" "linkParser.parseLink"
    [("==", 0), ("==", 41), ("==", 41), ("==", 41), ("arg:Advance", 1), ("arg:Advance", 1), ("arg:Advance", 1), ("arg:Advance", 1)]
    "GM.Inl.parseInlineLink (Model/InlinesParsers.lean:290-330)",
  litsAre "parser" "parseLinkDestination"
    [("!=", 0), ("<", 0), ("==", 40), ("==", 41), ("==", 60), ("==", 60), ("==", 62), ("==", 92), ("==", 92), (">", 0), ("slice-lo", 1)]
    "GM.Inl.destPlain / parseLinkDestination (Model/InlinesParsers.lean:230-265)",
  litsAre "parser" "parseLinkTitle"
    [("!=", 34), ("!=", 39), ("!=", 40), ("==", 1), ("==", 40), ("arg:Advance", 1), ("arg:At", 0)]
    "GM.Inl.parseLinkTitle (Model/InlinesParsers.lean:275-290)",
  litsAre "parser" "ScanDelimiter"
    [("==", 95)]
    "GM.Inl.scanDelimiter (Model/Inlines.lean:110-135)",
  litsAre "parser" "Delimiter.CalcComsumption"
    [("!=", 0), ("%", 3), ("%", 3), ("==", 0), (">=", 2), (">=", 2)]
    "GM.Inl.Delim.calcConsumption (Model/Inlines.lean:138-144)",
  litsAre "parser" "ProcessDelimiters"
    [("==", 0), ("==", 0), (">", 0)]
    "GM.Inl.processDelimiters (Model/Inlines.lean)",
  litsAre "parser" "parseLinkReferenceDefinition"
    [("!=", 0), ("!=", 34), ("!=", 39), ("!=", 40), ("!=", 58), ("!=", 91), ("==", 0), ("==", 1), ("==", 1), ("==", 40), (">", 3), ("arg:Advance", 1), ("arg:Advance", 1), ("arg:At", 0), ("arg:At", 0), ("arg:FindClosure", 91), ("arg:FindClosure", 93), ("arg:IndentWidth", 0)]
    "GM.LinkRef.defHead / defAfterLabel / defAfterDest / defTail (Model/LinkRef.lean:50-125)",
  litsAre "parser" "linkReferenceParagraphTransformer.Transform"
    [("==", 0), ("==", 0), (">", -1), ("arg:SetSliced", 0)]
    "GM.LinkRef.transform (Model/LinkRef.lean:130-240)",
  litsAre "parser" "ParseAttributes"
    [("!=", 123), ("==", 44), ("==", 125), ("arg:Advance", 1), ("arg:Advance", 1), ("arg:Advance", 1), ("arg:append", 32)]
    "GM.Attr.pAttributes / pAttrsLoop / mergeClass (Model/Attribute.lean:215-250)",
  litsAre "parser" "parseAttribute"
    [("!=", 61), ("<=", 57), ("<=", 90), ("<=", 90), ("<=", 122), ("<=", 122), ("==", 0), ("==", 35), ("==", 35), ("==", 45), ("==", 45), ("==", 46), ("==", 46), ("==", 46), ("==", 58), ("==", 58), ("==", 58), ("==", 95), ("==", 95), ("==", 95), (">=", 48), (">=", 65), (">=", 65), (">=", 97), (">=", 97), ("arg:Advance", 1), ("arg:Advance", 1), ("slice-lo", 0)]
    "GM.Attr.pAttribute, isIdChar, isNameStart, isNameChar (Model/Attribute.lean:130-134, 255-275)",
  litsAre "parser" "parseAttributeValue"
    [("==", 43), ("==", 45), ("case", 34), ("case", 91), ("case", 123)]
    "GM.Attr.pValue (Model/Attribute.lean:280-297)",
  litsAre "parser" "parseAttributeArray"
    [("!=", 0), ("==", 44), ("==", 93), ("arg:Advance", 1), ("arg:Advance", 1), ("arg:Advance", 1)]
    "GM.Attr.pArrayLoop (Model/Attribute.lean:300-310)",
  litsAre "parser" "parseAttributeString"
    [("==", 34), ("==", 92), ("arg:Advance", 1), ("arg:WriteByte", 92), ("case", 34), ("case", 47), ("case", 92), ("case", 98), ("case", 102), ("case", 110), ("case", 114), ("case", 116)]
    "GM.Attr.strScan (Model/Attribute.lean:146-153)",
  litsAre "parser" "parseAttributeNumber"
    [("==", 0), ("==", 43), ("==", 43), ("==", 45), ("==", 45), ("==", 46), ("==", 69), ("==", 101), ("arg:Advance", 1), ("arg:Advance", 1), ("arg:Advance", 1), ("arg:Advance", 1), ("arg:Advance", 1), ("arg:ParseFloat", 64)]
    "GM.Attr.signEnd / fracEnd / hasExp / pNumber (Model/Attribute.lean:169-188)",
  litsAre "parser" "parseAttributeOthers"
    [("<=", 57), ("<=", 90), ("<=", 90), ("<=", 122), ("<=", 122), ("==", 45), ("==", 46), ("==", 58), ("==", 58), ("==", 95), ("==", 95), (">=", 48), (">=", 65), (">=", 65), (">=", 97), (">=", 97)]
    "GM.Attr.pOthers, isNameStart, isNameChar (Model/Attribute.lean:132-134, 195-205)",
  litsAre "parser" "parseLastLineAttributes"
    [("<", 0), ("==", 92), ("==", 123), ("==", 123), ("arg:Advance", 1), ("arg:Advance", 1), ("arg:Advance", 1)]
    "GM.Attr.lastScan (Model/Attribute.lean:352-356)",
  litsAre "parser" "ids.Generate"
    [("!=", 1), ("<=", 90), ("==", 0), ("==", 45), ("==", 95), (">=", 65), ("arg:append", 45)]
    "GM.Ids.slugAux / generate (Model/Ids.lean:36-75)",
  litsAre "util" "ResolveNumericReferences"
    [("<", 8), ("<=", 57), ("==", 35), ("==", 38), ("==", 59), ("==", 59), ("==", 88), ("==", 120), (">=", 48), ("arg:ParseUint", 0), ("arg:ParseUint", 16), ("arg:ParseUint", 32), ("arg:ParseUint", 32)]
    "GM.tryNumRef / resolveNumeric (Model/Util.lean:75-125)",
  litsAre "util" "ResolveEntityNames"
    [("==", 35), ("==", 38), ("==", 59)]
    "GM.tryEntity / resolveEntities (Model/Util.lean:130-165)",
  litsAre "util" "URLEscape"
    [("!=", 128), ("==", 0), ("==", 1), ("==", 32), ("==", 37), ("==", 99)]
    "GM.urlEscapeLoop / pctTriple (Model/Util.lean:185-245)",
  litsAre "util" "UnescapePunctuations"
    [("==", 92)]
    "GM.unescapePunct (Model/Util.lean:50)",
  litsAre "util" "DoFullUnicodeCaseFolding"
    [("<", 181), ("<=", 90), (">=", 65)]
    "GM.caseFold (Model/Util.lean:292)",
  litsAre "util" "IndentWidth"
    [("==", 9), ("==", 32)]
    "GM.indentWidthGo (Model/Util.lean:337), GM.Blocks.indentWidthGo (Model/Blocks/Basic.lean:31)",
  litsAre "util" "IndentPositionPadding"
    [("==", 0), ("==", 9), ("==", 32), (">", 0)]
    "GM.Blocks.indentPositionPadding / ippLoop (Model/Blocks/Basic.lean:41-50)",
  litsAre "util" "FirstNonSpacePosition"
    [("==", 9), ("==", 10), ("==", 32)]
    "GM.firstNonSpacePosition (Model/Util.lean:346)",
  litsAre "util" "FindClosure"
    [("!=", 0), ("==", 0), ("==", 0), ("==", 0), ("==", 0), ("==", 92), ("==", 96), ("==", 96), ("==", 96), ("==", 96)]
    "GM.Ext.findClosureBr (Model/ExtDecline.lean:108-115), GM.Inl.findClosure (Model/InlinesParsers.lean)",
  litsAre "html" "IsDangerousURL"
    [(">=", 11), ("slice-lo", 11)]
    "GM.isDangerousURL (Model/Util.lean:371-376)",
  litsAre "extension" "footnoteASTTransformer.Transform"
    [("<", 0), ("<=", 0), (">=", 0)]
    "GM.Footnote.transform / keepDefs / isRendered (Model/Footnote.lean:109-180)"
]

/-- package-level byte strings and integer constants for which a model has a definition of its own (the expected side IS that definition), and the limits of the renderer-side models (bufio buffer size, EOF byte, dangerous-URL prefix length) -/
def namedConstants : List Check := [
  bytesIs "parser.attrNameID" Attr.nameId "GM.Attr.nameId (Model/Attribute.lean:137)",
  bytesIs "parser.attrNameClass" Attr.nameClass "GM.Attr.nameClass (Model/Attribute.lean:138)",
  bytesIs "parser.bytesTrue" Attr.bytesTrue "GM.Attr.bytesTrue (Model/Attribute.lean:191)",
  bytesIs "parser.bytesFalse" Attr.bytesFalse "GM.Attr.bytesFalse (Model/Attribute.lean:192)",
  bytesIs "parser.bytesNull" Attr.bytesNull "GM.Attr.bytesNull (Model/Attribute.lean:193)",
  strCount "parser" "ids.Generate" Ids.headingDefault 1 "GM.Ids.headingDefault (Model/Ids.lean:48)",
  strCount "parser" "ids.Generate" Ids.idDefault 1 "GM.Ids.idDefault (Model/Ids.lean:49)",
  strCount "parser" "ids.Generate" (strBytes "%s-%d") 1 "GM.Ids.cand (Model/Ids.lean:57: base, `-`, decimal counter)",
  bytesIs "html.bDataImage" GM.bDataImage "GM.bDataImage (Model/Util.lean:364)",
  bytesIs "html.bJs" GM.bJs "GM.bJs (Model/Util.lean:365)",
  bytesIs "html.bVb" GM.bVb "GM.bVb (Model/Util.lean:366)",
  bytesIs "html.bFile" GM.bFile "GM.bFile (Model/Util.lean:367)",
  bytesIs "html.bData" GM.bData "GM.bData (Model/Util.lean:368)",
  { name := "byte constants html.bPng, bGif, bJpeg, bWebp, bSvg",
    ok := [bytesOf "html.bPng", bytesOf "html.bGif", bytesOf "html.bJpeg", bytesOf "html.bWebp", bytesOf "html.bSvg"] == GM.imageTypes.map some,
    code := toString ([bytesOf "html.bPng", bytesOf "html.bGif", bytesOf "html.bJpeg", bytesOf "html.bWebp", bytesOf "html.bSvg"].map (showOpt showBytes)),
    model := "GM.imageTypes (Model/Util.lean:369) has " ++ toString (GM.imageTypes.map showBytes) },
  litCount "html" "IsDangerousURL" ">=" 11 1
    "GM.isDangerousURL (Model/Util.lean:373)",
  litCount "html" "IsDangerousURL" "slice-lo" 11 1
    "GM.isDangerousURL (Model/Util.lean:374)",
  intIs "stdlib.bufio.defaultBufSize" 4096 "GM.Bufio.render (Model/Bufio.lean:174, `fresh 4096 u`; anchored by `bufio_anchor` below)",
  intIs "text.EOF" 255 "GM.Attr.peekAt (Model/Attribute.lean:71, `getD 255`)",
  intIs "parser.NoChildren" Ext.stNoChildren "GM.Ext.stNoChildren (Model/ExtDecline.lean:149)",
  intIs "parser.HasChildren" Ext.stHasChildren "GM.Ext.stHasChildren (Model/ExtDecline.lean:150)",
  intIs "parser.RequireParagraph" Ext.stRequireParagraph "GM.Ext.stRequireParagraph (Model/ExtDecline.lean:151)",
  intIs "parser.Continue" 2 "GM.Blocks.stContinueNoChildren / stContinueHasChildren (Model/Blocks/Leaf.lean:19-23)",
  intIs "parser.Close" 4 "GM.Blocks.stClose (Model/Blocks/Leaf.lean:19-23)",
  intIs "parser.lineBreakHard" Inl.lineBreakHard "GM.Inl.lineBreakHard (Model/InlinesLoop.lean:53)",
  intIs "parser.lineBreakSoft" Inl.lineBreakSoft "GM.Inl.lineBreakSoft (Model/InlinesLoop.lean:54)",
  intIs "parser.lineBreakVisible" Inl.lineBreakVisible "GM.Inl.lineBreakVisible (Model/InlinesLoop.lean:55)",
  intIs "parser.notList" 0 "GM.LineRec.ListTyp.code (Model/LineRec.lean:140)",
  intIs "parser.bulletList" 1 "GM.LineRec.ListTyp.code (Model/LineRec.lean:140)",
  intIs "parser.orderedList" 2 "GM.LineRec.ListTyp.code (Model/LineRec.lean:140)",
  intIs "parser.linkFindClosureOptions.Nesting" (if Inl.linkFindClosureOptions.nesting then 1 else 0) "GM.Inl.linkFindClosureOptions (Model/InlinesParsers.lean:268)",
  intIs "parser.linkFindClosureOptions.Newline" (if Inl.linkFindClosureOptions.newline then 1 else 0) "GM.Inl.linkFindClosureOptions (Model/InlinesParsers.lean:268)",
  intIs "parser.linkFindClosureOptions.Advance" (if Inl.linkFindClosureOptions.advance then 1 else 0) "GM.Inl.linkFindClosureOptions (Model/InlinesParsers.lean:268)",
  intIs "html.EastAsianLineBreaksNone" 0 "GM.HCfg.ea (Model/Render.lean:22), GM.Ext.softLineBreak (Model/ExtDecline.lean:275)",
  intIs "html.EastAsianLineBreaksSimple" 1 "same",
  intIs "html.EastAsianLineBreaksCSS3Draft" 2 "same",
  intIs "extension.TableCellAlignDefault" 0 "GM.RCfg.tableAlign (Model/Render.lean:75), GM.tableCellHead (:226-230)",
  intIs "extension.TableCellAlignAttribute" 1 "same",
  intIs "extension.TableCellAlignStyle" 2 "same",
  intIs "extension.TableCellAlignNone" 3 "same"
]

/-- every string / byte literal the node renderers of renderer/html and extension hand to a Write call, per renderer function (sorted multiset), and the literals the renderer model names -/
def renderedLiterals : List Check := [
  writesAre "extension" "DefinitionListHTMLRenderer.renderDefinitionDescription"
    ["</dd>\n", "<dd", ">", ">\n"]
    "GM.enter / GM.leave, the case of this node kind (Model/Render.lean:242-381)",
  writesAre "extension" "DefinitionListHTMLRenderer.renderDefinitionList"
    ["</dl>\n", "<dl", "<dl>\n", ">\n"]
    "GM.enter / GM.leave, the case of this node kind (Model/Render.lean:242-381)",
  writesAre "extension" "DefinitionListHTMLRenderer.renderDefinitionTerm"
    ["</dt>\n", "<dt", "<dt>", ">"]
    "GM.enter / GM.leave, the case of this node kind (Model/Render.lean:242-381)",
  writesAre "extension" "FootnoteHTMLRenderer.renderFootnote"
    ["\"", "</li>\n", "<li id=\"", ">\n", "fn:"]
    "GM.enter / GM.leave, the case of this node kind (Model/Render.lean:242-381)",
  writesAre "extension" "FootnoteHTMLRenderer.renderFootnoteBacklink"
    ["\" class=\"", "\" role=\"doc-backlink\">", "\" title=\"", "%v", "&#160;<a href=\"#", ":", "</a>", "fnref"]
    "GM.enter / GM.leave, the case of this node kind (Model/Render.lean:242-381)",
  writesAre "extension" "FootnoteHTMLRenderer.renderFootnoteLink"
    ["\" class=\"", "\" role=\"doc-noteref\">", "\" title=\"", "\"><a href=\"#", "%v", ":", "</a></sup>", "<sup id=\"", "fn:", "fnref"]
    "GM.enter / GM.leave, the case of this node kind (Model/Render.lean:242-381)",
  writesAre "extension" "FootnoteHTMLRenderer.renderFootnoteList"
    ["\n<hr />\n", "\n<hr>\n", "</div>\n", "</ol>\n", "<div class=\"footnotes\" role=\"doc-endnotes\"", "<ol>\n", ">"]
    "GM.enter / GM.leave, the case of this node kind (Model/Render.lean:242-381)",
  writesAre "extension" "StrikethroughHTMLRenderer.renderStrikethrough"
    ["</del>", "<del", "<del>", ">"]
    "GM.enter / GM.leave, the case of this node kind (Model/Render.lean:242-381)",
  writesAre "extension" "TableHTMLRenderer.renderTable"
    ["</table>\n", "<table", ">\n"]
    "GM.enter / GM.leave, the case of this node kind (Model/Render.lean:242-381)",
  writesAre "extension" "TableHTMLRenderer.renderTableCell"
    [" align=\"%s\"", "<%s", "</%s>\n", ">"]
    "GM.enter / GM.leave, the case of this node kind (Model/Render.lean:242-381)",
  writesAre "extension" "TableHTMLRenderer.renderTableHeader"
    ["</thead>\n", "</tr>\n", "<tbody>\n", "<thead", "<tr>\n", ">\n"]
    "GM.enter / GM.leave, the case of this node kind (Model/Render.lean:242-381)",
  writesAre "extension" "TableHTMLRenderer.renderTableRow"
    ["</tbody>\n", "</tr>\n", "<tr", ">\n"]
    "GM.enter / GM.leave, the case of this node kind (Model/Render.lean:242-381)",
  writesAre "extension" "TaskCheckBoxHTMLRenderer.renderTaskCheckBox"
    [" /> ", "<input checked=\"\" disabled=\"\" type=\"checkbox\"", "<input disabled=\"\" type=\"checkbox\"", "> "]
    "GM.enter / GM.leave, the case of this node kind (Model/Render.lean:242-381)",
  writesAre "html" "RenderAttributes"
    [" ", "\"", "=\""]
    "GM.enter / GM.leave, the case of this node kind (Model/Render.lean:242-381)",
  writesAre "html" "Renderer.renderAutoLink"
    ["\"", "\">", "</a>", "<a href=\"", ">", "mailto:"]
    "GM.enter / GM.leave, the case of this node kind (Model/Render.lean:242-381)",
  writesAre "html" "Renderer.renderBlockquote"
    ["</blockquote>\n", "<blockquote", "<blockquote>\n", ">"]
    "GM.enter / GM.leave, the case of this node kind (Model/Render.lean:242-381)",
  writesAre "html" "Renderer.renderCodeBlock"
    ["</code></pre>\n", "<pre><code>"]
    "GM.enter / GM.leave, the case of this node kind (Model/Render.lean:242-381)",
  writesAre "html" "Renderer.renderCodeSpan"
    [" ", "</code>", "<code", "<code>", ">"]
    "GM.enter / GM.leave, the case of this node kind (Model/Render.lean:242-381)",
  writesAre "html" "Renderer.renderEmphasis"
    ["<", "</", ">", ">"]
    "GM.enter / GM.leave, the case of this node kind (Model/Render.lean:242-381)",
  writesAre "html" "Renderer.renderFencedCodeBlock"
    [" class=\"language-", "\"", "</code></pre>\n", "<pre><code", ">"]
    "GM.enter / GM.leave, the case of this node kind (Model/Render.lean:242-381)",
  writesAre "html" "Renderer.renderHTMLBlock"
    ["<!-- raw HTML omitted -->\n", "<!-- raw HTML omitted -->\n"]
    "GM.enter / GM.leave, the case of this node kind (Model/Render.lean:242-381)",
  writesAre "html" "Renderer.renderHeading"
    ["0123456", "0123456", "</h", "<h", ">", ">\n"]
    "GM.enter / GM.leave, the case of this node kind (Model/Render.lean:242-381)",
  writesAre "html" "Renderer.renderImage"
    [" />", " title=\"", "\"", "\"", "\" alt=\"", "<img src=\"", ">"]
    "GM.enter / GM.leave, the case of this node kind (Model/Render.lean:242-381)",
  writesAre "html" "Renderer.renderLink"
    [" title=\"", "\"", "\"", "</a>", "<a href=\"", ">"]
    "GM.enter / GM.leave, the case of this node kind (Model/Render.lean:242-381)",
  writesAre "html" "Renderer.renderList"
    [" start=\"%d\"", "<", "</", ">\n", ">\n"]
    "GM.enter / GM.leave, the case of this node kind (Model/Render.lean:242-381)",
  writesAre "html" "Renderer.renderListItem"
    ["\n", "</li>\n", "<li", "<li>", ">"]
    "GM.enter / GM.leave, the case of this node kind (Model/Render.lean:242-381)",
  writesAre "html" "Renderer.renderParagraph"
    ["</p>\n", "<p", "<p>", ">"]
    "GM.enter / GM.leave, the case of this node kind (Model/Render.lean:242-381)",
  writesAre "html" "Renderer.renderRawHTML"
    ["<!-- raw HTML omitted -->"]
    "GM.enter / GM.leave, the case of this node kind (Model/Render.lean:242-381)",
  writesAre "html" "Renderer.renderText"
    ["\n", "\n", "<br />\n", "<br>\n"]
    "GM.enter / GM.leave, the case of this node kind (Model/Render.lean:242-381)",
  writesAre "html" "Renderer.renderTextBlock"
    ["\n"]
    "GM.enter / GM.leave, the case of this node kind (Model/Render.lean:242-381)",
  writesAre "html" "Renderer.renderTexts"
    ["\n"]
    "GM.enter / GM.leave, the case of this node kind (Model/Render.lean:242-381)",
  writesAre "html" "Renderer.renderThematicBreak"
    [" />\n", "<hr", ">\n"]
    "GM.enter / GM.leave, the case of this node kind (Model/Render.lean:242-381)",
  strCount "html" "Renderer.renderAutoLink" (strBytes "mailto:") 1 "GM.enter (.autoLink) (Model/Render.lean:273), GM.mailtoPrefixed (:128)",
  strsAre "html" "Renderer.renderEmphasis" ["em", "strong"] "GM.enter / GM.leave (.emphasis) (Model/Render.lean:281, :370)",
  strsAre "html" "Renderer.renderList" ["ol", "ul"] "GM.enter / GM.leave (.list) (Model/Render.lean:258, :365)",
  strsAre "extension" "TableHTMLRenderer.renderTableCell" ["align", "style", "style", "td", "td", "text-align:%s", "th"] "GM.tableCellHead (Model/Render.lean:223-233), GM.styleName / GM.alignAttrName (:157-158)",
  strCount "extension" "TableHTMLRenderer.renderTableCell" GM.styleName 2 "GM.styleName (Model/Render.lean:157)",
  strCount "extension" "TableHTMLRenderer.renderTableCell" GM.alignAttrName 1 "GM.alignAttrName (Model/Render.lean:158)",
  { name := "written literal of html.Renderer.renderRawHTML vs GM.omitted", ok := writesOf "html" "Renderer.renderRawHTML" == [GM.omitted],
    code := toString ((writesOf "html" "Renderer.renderRawHTML").map showBytes), model := "GM.omitted (Model/Render.lean:124) is " ++ showBytes GM.omitted },
  { name := "written literals of html.Renderer.renderHTMLBlock vs GM.omitted", ok := writesOf "html" "Renderer.renderHTMLBlock" == [GM.omitted ++ [10], GM.omitted ++ [10]],
    code := toString ((writesOf "html" "Renderer.renderHTMLBlock").map showBytes), model := "GM.enter / GM.leave (.htmlBlock) write GM.omitted ++ [10] (Model/Render.lean:256, :363)" },
  strsAre "extension" "NewFootnoteConfig" ["", "", "&#x21a9;&#xfe0e;", "footnote-backref", "footnote-ref"] "GM.FootCfg defaults (Model/Render.lean:30-35)",
  strCount "extension" "NewFootnoteConfig" ({} : FootCfg).linkClass 1 "GM.FootCfg.linkClass (Model/Render.lean:33)",
  strCount "extension" "NewFootnoteConfig" ({} : FootCfg).backlinkClass 1 "GM.FootCfg.backlinkClass (Model/Render.lean:34)",
  strCount "extension" "NewFootnoteConfig" ({} : FootCfg).backlinkHTML 1 "GM.FootCfg.backlinkHTML (Model/Render.lean:35)",
  strsAre "extension" "applyFootnoteTemplate" ["%%", "^^"] "GM.applyFootnoteTemplate (Model/Render.lean:103: `^^` -> index, `%%` -> reference count)",
  { name := "written literal `fnref` of extension.FootnoteHTMLRenderer.renderFootnoteLink / renderFootnoteBacklink vs GM.Footnote.fnref",
    ok := (writesOf "extension" "FootnoteHTMLRenderer.renderFootnoteLink").count Footnote.fnref == 1 && (writesOf "extension" "FootnoteHTMLRenderer.renderFootnoteBacklink").count Footnote.fnref == 1,
    code := toString ((writesOf "extension" "FootnoteHTMLRenderer.renderFootnoteLink").map showBytes), model := "GM.Footnote.fnref (Model/Footnote.lean:185) is " ++ showBytes Footnote.fnref },
  { name := "written literal `fn:` of extension.FootnoteHTMLRenderer.renderFootnoteLink / renderFootnote vs GM.Spec.Footnote.fnColon",
    ok := (writesOf "extension" "FootnoteHTMLRenderer.renderFootnoteLink").count Spec.Footnote.fnColon == 1 && (writesOf "extension" "FootnoteHTMLRenderer.renderFootnote").count Spec.Footnote.fnColon == 1,
    code := toString ((writesOf "extension" "FootnoteHTMLRenderer.renderFootnote").map showBytes), model := "GM.Spec.Footnote.fnColon (Spec/Footnote.lean:56) is " ++ showBytes Spec.Footnote.fnColon },
  litsAre "html" "Renderer.renderEmphasis"
    [("==", 2), ("arg:WriteByte", 60), ("arg:WriteByte", 62), ("arg:WriteByte", 62)]
    "GM.enter / GM.leave (.emphasis) (Model/Render.lean:281-282, :370)",
  litsAre "html" "Renderer.renderList"
    [("!=", 1), ("arg:WriteByte", 60)]
    "GM.enter / GM.leave (.list) (Model/Render.lean:258-260, :365)",
  litsAre "html" "Renderer.renderText"
    [("!=", 0), ("!=", 0), ("arg:WriteByte", 10), ("arg:WriteByte", 10)]
    "GM.enter (.text) (Model/Render.lean:300-307)",
  litsAre "extension" "TableHTMLRenderer.renderTableCell"
    [("==", 0), ("arg:AppendByte", 59), ("arg:WriteByte", 62), ("case", 1), ("case", 2)]
    "GM.tableCellHead (Model/Render.lean:223-233)",
  litsAre "extension" "FootnoteHTMLRenderer.renderFootnoteLink"
    [(">", 0), (">", 0), ("arg:WriteByte", 58)]
    "GM.enter (.footnoteLink), GM.fnrefId (Model/Render.lean:219, :330-336)",
  litsAre "extension" "FootnoteHTMLRenderer.renderFootnoteBacklink"
    [(">", 0), (">", 0), ("arg:WriteByte", 58)]
    "GM.enter (.footnoteBacklink), GM.fnrefId (Model/Render.lean:219, :338-344)"
]

/-- the names of all regular expressions compiled anywhere in the nine packages (a NEW expression is a new constant no model knows) -/
def regexpNames : List String :=
  ["extension.tableDelimCenter", "extension.tableDelimLeft", "extension.tableDelimNone",
   "extension.tableDelimRight", "extension.taskListRegexp", "extension.urlRegexp",
   "extension.wwwURLRegxp", "parser.closeTagRegexp", "parser.htmlBlockType1CloseRegexp",
   "parser.htmlBlockType1OpenRegexp", "parser.htmlBlockType2OpenRegexp", "parser.htmlBlockType3OpenRegexp",
   "parser.htmlBlockType4OpenRegexp", "parser.htmlBlockType5OpenRegexp", "parser.htmlBlockType6Regexp",
   "parser.htmlBlockType7Regexp", "parser.openTagRegexp", "util.emailDomainRegexp"]

/-- nothing in the regexp table is beyond gmgen's understanding, and the table holds exactly the known expressions -/
def regexpInventory : List Check := [
  { name := "regexp inventory (a regular expression was added, removed, renamed or is built from something gmgen cannot evaluate)",
    ok := Gen.Consts.regexps.map (·.name) == regexpNames && Gen.Consts.regexps.all (·.understood),
    code := toString ((Gen.Consts.regexps.filter fun r => !(regexpNames.contains r.name) || !r.understood).map (·.name)) ++
            " new or not understood, " ++ toString (regexpNames.filter fun n => !((Gen.Consts.regexps.map (·.name)).contains n)) ++ " gone",
    model := "every expression of the list GM.Spec.Consts.regexpNames is either hand-matched by a model or recorded as not modelled" },
  { name := "string-set inventory (package-level map[string]bool literals)",
    ok := Gen.Consts.stringSets.map (·.1) == ["parser.allowedBlockTags"] && Gen.Consts.stringSets.all (·.2.1),
    code := toString (Gen.Consts.stringSets.map (·.1)), model := "the models know the set parser.allowedBlockTags only" }
]

/-! ### anchors: the restated value IS the one the model uses (kernel-checked against the model's own definition) -/

/-- Model/Bufio.lean:174: `bufio.NewWriter` is modelled with a 4096-byte buffer -/
theorem bufio_anchor (u : Bufio.Under) (calls : List Bufio.Call) (ne : Option Nat) :
    Bufio.render (.plain u) calls ne = Bufio.renderOn (Bufio.fresh 4096 u) calls ne := rfl

/-- Model/Blocks/Html.lean:22-24: the tag test of HTML block types 6/7 looks names up in `allowedBlockTags` -/
theorem allowedTag_anchor (n : Bytes) : Blocks.isAllowedTag n = (Blocks.allowedBlockTags.map strBytes).contains n := rfl

/-! ### all groups; the report the diagnostic prints -/

def allGroups : List (String × List Check) := [
  ("html_block_regexps_tied", htmlBlockRegexps), ("html_block_tags_tied", htmlBlockTags),
  ("raw_html_regexps_tied", rawHtmlRegexps), ("autolink_regexps_tied", autolinkRegexps),
  ("table_regexps_tied", tableRegexps), ("extension_regexps_tied", extensionRegexps),
  ("regexp_inventory_complete", regexpInventory), ("limits_tied", limits), ("markers_tied", markers),
  ("named_constants_tied", namedConstants), ("rendered_literals_tied", renderedLiterals),
  ("mirrored_function_literals_tied", mirroredLiterals)]

/-- one line per constant whose value in the code is no longer the value the model embodies ([] = all tied) -/
def report : List String :=
  allGroups.flatMap fun (g, cs) => (cs.filter (!·.ok)).map fun c => s!"consts [{g}] {c.line}"

/-- (group, number of atomic obligations) -/
def sizes : List (String × Nat) := allGroups.map fun (g, cs) => (g, cs.length)

end GM.Spec.Consts
