/-
  GM.Spec.CMLink — a spec-side reference for INLINE links and images (CommonMark 0.31.2 section 6.3 "Links": link
  text, link destination in its two forms, link title in its three forms, the separating white space; 6.4 "Images";
  the appendix "look for link or image": bracket stack, active / inactive openers), written from the specification
  text and spec.json, NOT from goldmark's code.  Core Lean only, structural recursion only.

  Scope (`linkOnly` + block-level conditions): documents that consist of paragraphs only, over ASCII letters, digits,
  space, line ending, `[ ] ( ) < > " ' \ ! / . - # ? %` and the control bytes 0x01-0x08.  Of the constructs that bind
  more tightly than brackets only raw HTML open / closing tags can be formed over this alphabet (no `=` `:` `@`
  backtick `&` `*` `_`): they are recognised (6.6); `<!` and `<?` are outside the scope.

  Shape: one left-to-right scan (`scan`), one byte at a time, with look-ahead functions on the remaining bytes
  (`rawTag`, `inlineTail`) that report how many bytes they consumed; the scan then skips that many bytes.
-/
import GM.Spec.CMEmph
namespace GM.Spec.CMLink
open GM
open GM.Spec.CMEmph (isAsciiPunct isAlnum isDigit esc escByte)

/-! ### characters -/

def isLetter (c : UInt8) : Bool := (65 ≤ c && c ≤ 90) || (97 ≤ c && c ≤ 122)
/-- ASCII control characters (6.3: not allowed in a destination that is not in pointy brackets) -/
def isControl (c : UInt8) : Bool := c < 32 || c == 127

/-- the alphabet -/
def inAlphabet (c : UInt8) : Bool :=
  isAlnum c || c == 32 || c == 10 || c == 91 || c == 93 || c == 40 || c == 41 || c == 60 || c == 62
  || c == 34 || c == 39 || c == 92 || c == 33 || c == 47 || c == 46 || c == 45 || c == 35 || c == 63 || c == 37
  || (1 ≤ c && c ≤ 8)

/-- backslash escapes (2.4) resolved: a backslash before ASCII punctuation is dropped (`esc` = the previous
    character was an unescaped backslash) -/
def unescGo : Bool → Bytes → Bytes
  | false, [] => []
  | true, [] => [92]
  | false, c :: t => if c == 92 then unescGo true t else c :: unescGo false t
  | true, c :: t =>
    if isAsciiPunct c then c :: unescGo false t
    else 92 :: c :: unescGo false t

def unesc (b : Bytes) : Bytes := unescGo false b

/-! ### raw HTML tags (6.6) that can be formed over the alphabet: `<name (ws+ attrname)* ws* /? >`, `</name ws* >` -/

inductive TS where
  | start                       -- directly after `<`
  | cstart                      -- directly after `</`
  | name (closing : Bool)
  | ws (closing nl : Bool)      -- in white space; `nl`: a line ending was seen in this gap
  | attr
  | slash
deriving Repr, BEq, DecidableEq, Inhabited

def isTagNameChar (c : UInt8) : Bool := isAlnum c || c == 45
def isAttrStart (c : UInt8) : Bool := isLetter c || c == 95
def isAttrChar (c : UInt8) : Bool := isAlnum c || c == 95 || c == 46 || c == 45

/-- number of bytes after `<` up to and including the closing `>` of a tag, if the bytes start one -/
def tagGo : TS → Nat → Bytes → Option Nat
  | _, _, [] => none
  | s, n, c :: t =>
    match s with
    | .start => if c == 47 then tagGo .cstart (n + 1) t else if isLetter c then tagGo (.name false) (n + 1) t else none
    | .cstart => if isLetter c then tagGo (.name true) (n + 1) t else none
    | .name cl =>
      if isTagNameChar c then tagGo (.name cl) (n + 1) t
      else if c == 32 then tagGo (.ws cl false) (n + 1) t
      else if c == 10 then tagGo (.ws cl true) (n + 1) t
      else if c == 62 then some (n + 1)
      else if c == 47 && !cl then tagGo .slash (n + 1) t
      else none
    | .ws cl nl =>
      if c == 32 then tagGo (.ws cl nl) (n + 1) t
      else if c == 10 then (if nl then none else tagGo (.ws cl true) (n + 1) t)
      else if c == 62 then some (n + 1)
      else if cl then none
      else if c == 47 then tagGo .slash (n + 1) t
      else if isAttrStart c then tagGo .attr (n + 1) t
      else none
    | .attr =>
      if isAttrChar c then tagGo .attr (n + 1) t
      else if c == 32 then tagGo (.ws false false) (n + 1) t
      else if c == 10 then tagGo (.ws false true) (n + 1) t
      else if c == 62 then some (n + 1)
      else if c == 47 then tagGo .slash (n + 1) t
      else none
    | .slash => if c == 62 then some (n + 1) else none

def rawTag (t : Bytes) : Option Nat := tagGo .start 0 t

/-! ### the inside of `( … )` (6.3) -/

/-- spaces and up to one line ending -/
def skipSp : Bytes → Bytes
  | [] => []
  | c :: t => if c == 32 then skipSp t else c :: t

def skipSpnl (s : Bytes) : Bytes :=
  match skipSp s with
  | c :: t => if c == 10 then skipSp t else c :: t
  | [] => []

/-- Switches that make the reference REPRODUCE four confirmed deviations of goldmark's inline-link scanner (all
    `false` = the specification; used only to attribute a difference to a known deviation, never for the expected
    HTML): `ctl` an ASCII control character is accepted in a destination without brackets; `unbal` such a destination
    may end at white space with a parenthesis still open; `pointyLt` an unescaped `<` is accepted inside `<…>`;
    `noSep` a title may follow the destination without white space; `blankLabel` (reference links) `[ ]` after a link
    text is taken as the `[]` of a collapsed reference; `emptyTitle` see below. -/
structure Dev where
  ctl : Bool := false
  unbal : Bool := false
  pointyLt : Bool := false
  noSep : Bool := false
  blankLabel : Bool := false      -- brackets with only white space between them count as the `[]` of a collapsed reference
  /-- NOT a deviation: the one link reference definition of the document (step two): normalised label, destination, title -/
  ref : Option (Bytes × Bytes × Option Bytes) := none
  emptyTitle : Bool := false      -- attribution mode: an empty title is rendered as `title=""` and a line break in an image description as a line ending (goldmark) instead of being outside the scope
deriving Repr, BEq, DecidableEq, Inhabited

/-- the specification -/
def Dev.spec : Dev := {}

def consRaw (c : UInt8) : Option (Bytes × Bytes) → Option (Bytes × Bytes)
  | some (r, rest) => some (c :: r, rest)
  | none => none

/-- destination in pointy brackets, the bytes after `<`: "a sequence of zero or more characters between an opening
    < and a closing > that contains no line endings or unescaped < or > characters".  Returns the RAW content and
    the rest after `>`.  `esc` = the previous character was an unescaped backslash. -/
def pointy (dv : Dev) : Bool → Bytes → Option (Bytes × Bytes)
  | _, [] => none
  | esc, c :: t =>
    if esc && isAsciiPunct c then consRaw c (pointy dv false t)
    else if c == 62 then some ([], t)
    else if c == 10 || (c == 60 && !dv.pointyLt) then none
    else consRaw c (pointy dv (c == 92) t)

/-- destination without brackets: "a nonempty sequence of characters that does not start with <, does not include
    ASCII control characters or space character, and includes parentheses only if (a) they are backslash-escaped or
    (b) they are part of a balanced pair of unescaped parentheses".  `depth` = open parentheses.  Scans up to the
    first character that cannot belong to it; returns the RAW destination and the rest (starting with that
    character); `none` when a parenthesis is left open. -/
def bare (dv : Dev) : Nat → Bool → Bytes → Option (Bytes × Bytes)
  | depth, _, [] => if depth == 0 || dv.unbal then some ([], []) else none
  | depth, esc, c :: t =>
    if esc && isAsciiPunct c then consRaw c (bare dv depth false t)
    else if c == 32 || c == 10 || (isControl c && !dv.ctl) then
      (if depth == 0 || dv.unbal then some ([], c :: t) else none)
    else if c == 40 then consRaw c (bare dv (depth + 1) false t)
    else if c == 41 then
      (if depth == 0 then some ([], c :: t) else consRaw c (bare dv (depth - 1) false t))
    else consRaw c (bare dv depth (c == 92) t)

/-- title, the bytes after the opening `"` `'` or `(`; `cl` = the closing character; in the parenthesised form an
    unescaped `(` is not allowed either.  Returns the RAW content and the rest after the closing character. -/
def titleGo (cl : UInt8) : Bool → Bytes → Option (Bytes × Bytes)
  | _, [] => none
  | esc, c :: t =>
    if esc && isAsciiPunct c then consRaw c (titleGo cl false t)
    else if c == cl then some ([], t)
    else if cl == 41 && c == 40 then none
    else consRaw c (titleGo cl (c == 92) t)

def titleCloser (c : UInt8) : Option UInt8 :=
  if c == 34 then some 34 else if c == 39 then some 39 else if c == 40 then some 41 else none

/-- what an inline link's parenthesised part says -/
structure Tail where
  pointyForm : Bool
  rawDest : Bytes
  rawTitle : Option Bytes
  rest : Bytes                 -- what follows the closing `)`
deriving Repr, BEq, DecidableEq, Inhabited

/-- after the destination (`r1` = what follows it): optional title — only after white space — then `)` -/
def afterDest (dv : Dev) (pf : Bool) (dest r1 : Bytes) : Option Tail :=
  let r2 := skipSpnl r1
  match r2 with
  | [] => none
  | c :: t =>
    if c == 41 then some ⟨pf, dest, none, t⟩
    else if r2.length == r1.length && !dv.noSep then none   -- no white space between destination and what follows
    else match titleCloser c with
      | none => none
      | some cl =>
        match titleGo cl false t with
        | none => none
        | some (ti, r3) =>
          match skipSpnl r3 with
          | c' :: t' => if c' == 41 then some ⟨pf, dest, some ti, t'⟩ else none
          | [] => none

/-- the bytes after `]`: `(`, optional white space, optional destination, optional title, optional white space, `)` -/
def inlineTail (dv : Dev) : Bytes → Option Tail
  | [] => none
  | c :: t =>
    if c != 40 then none
    else match skipSpnl t with
      | [] => none
      | d :: t1 =>
        if d == 60 then
          match pointy dv false t1 with
          | none => none                             -- starts with `<` but is no pointy destination: no link
          | some (dest, r1) => afterDest dv true dest r1
        else match bare dv 0 false (d :: t1) with
          | none => none
          | some (dest, r1) => afterDest dv false dest r1

/-! ### the tree and the bracket stack (appendix "look for link or image") -/

inductive Inl where
  | text (b : Bytes)
  | soft
  | hard
  | html (b : Bytes)
  | link (image : Bool) (dest : Bytes) (title : Option Bytes) (kids : List Inl)
deriving Repr, Inhabited

structure BEnt where
  image : Bool
  active : Bool
  after : List Inl       -- the nodes after the bracket, in document order
  pos : Nat := 0         -- number of source bytes that followed the `[` (to cut the raw link text out of the source)
deriving Repr, Inhabited

structure Stack where
  bot : List Inl
  ents : List BEnt       -- most recent first
deriving Repr, Inhabited

def Stack.push (st : Stack) (n : Inl) : Stack :=
  match st.ents with
  | [] => { st with bot := st.bot ++ [n] }
  | e :: es => { st with ents := { e with after := e.after ++ [n] } :: es }

def openerText (image : Bool) : Inl := .text (if image then [33, 91] else [91])

/-- remove the top opener: it becomes literal text -/
def Stack.popText (st : Stack) : Stack :=
  match st.ents with
  | [] => st
  | e :: es =>
    let s1 : Stack := ⟨st.bot, es⟩
    let s2 := s1.push (openerText e.image)
    e.after.foldl (fun s n => s.push n) s2

def flattenEnts : List BEnt → List Inl
  | [] => []
  | e :: es => flattenEnts es ++ (openerText e.image :: e.after)

def Stack.flatten (st : Stack) : List Inl := st.bot ++ flattenEnts st.ents

/-- "set all `[` delimiters before the opening delimiter to inactive" -/
def deactivate (es : List BEnt) : List BEnt := es.map fun e => if e.image then e else { e with active := false }

/-! #### reference links (6.3), step two: one fixed definition `[a]: /u` -/

/-- the content of a link label, the bytes after `[`: up to the first `]` that is not backslash-escaped; an unescaped
    `[` is not allowed.  Returns the raw content and the rest after `]`. -/
def labelGo : Bool → Bytes → Option (Bytes × Bytes)
  | _, [] => none
  | esc, c :: t =>
    if esc && isAsciiPunct c then consRaw c (labelGo false t)
    else if c == 93 then some ([], t)
    else if c == 91 then none
    else consRaw c (labelGo (c == 92) t)

def isBlankLabel (l : Bytes) : Bool := l.all fun c => c == 32 || c == 10

/-- the raw text can be a link label: no unescaped bracket in it, at least one character that is not white space -/
def validLabel (raw : Bytes) : Bool := labelGo false (raw ++ [93]) == some (raw, []) && !isBlankLabel raw

/-- label normalisation: (ASCII) case fold, strip leading and trailing white space, collapse internal white space to
    one space.  `started`: a non-space character was seen; `pending`: white space since then. -/
def normGo : Bool → Bool → Bytes → Bytes
  | _, _, [] => []
  | started, pending, c :: t =>
    if c == 32 || c == 10 then normGo started started t
    else
      let lc := if 65 ≤ c && c ≤ 90 then c + 32 else c
      if pending then 32 :: lc :: normGo true false t else lc :: normGo true false t

def normLabel (raw : Bytes) : Bytes := normGo false false raw

/-- "matches" (6.3): the normalised labels are equal -/
def matchesDef (lab raw : Bytes) : Bool := normLabel raw == lab

/-- full, collapsed or shortcut reference at a `]` (`t` = what follows it, `raw` = the raw link text): the number of
    following bytes that belong to the link.  A full reference whose label is not defined is no link at all (a
    shortcut reference must not be followed by a link label); `[]` after a link text makes it a collapsed reference;
    brackets with only white space between them are not a link label. -/
def refTail (dv : Dev) (lab0 : Bytes) (t raw : Bytes) : Option Nat :=
  let shortcut : Option Nat := if validLabel raw && matchesDef lab0 raw then some 0 else none
  match t with
  | c :: t1 =>
    if c == 91 then
      match labelGo false t1 with
      | some (lab, _) =>
        if lab.isEmpty then (if validLabel raw && matchesDef lab0 raw then some 2 else none)
        else if isBlankLabel lab then
          (if dv.blankLabel then (if validLabel raw && matchesDef lab0 raw then some (lab.length + 2) else none) else shortcut)
        else if matchesDef lab0 lab then some (lab.length + 2) else none
      | none => shortcut
    else shortcut
  | [] => shortcut

def countSp : Bytes → Nat
  | [] => 0
  | c :: t => if c == 32 then countSp t + 1 else 0

/-- is there a link at this `]` (`t` = what follows, `pos` = number of source bytes that followed the opening
    bracket)?  An inline link first; otherwise, when the document has the definition, a reference link.  Returns
    destination, title and the number of following bytes that belong to the link. -/
def linkAt (dv : Dev) (src : Bytes) (pos : Nat) (t : Bytes) : Option (Bytes × Option Bytes × Nat) :=
  match inlineTail dv t with
  | some tl => some (unesc tl.rawDest, tl.rawTitle.map unesc, t.length - tl.rest.length)
  | none =>
    match dv.ref with
    | some (lab0, dest, title) =>
      let raw := (src.drop (src.length - pos)).take (pos - (t.length + 1))
      (refTail dv lab0 t raw).map fun k => (dest, title, k)
    | none => none

/-- one step at byte `c` with `t` following: the new stack and how many of the following bytes are consumed too -/
def stepAt (dv : Dev) (src : Bytes) (c : UInt8) (t : Bytes) (st : Stack) : Stack × Nat :=
  if c == 92 then
    match t with
    | d :: t' =>
      if d == 10 then (st.push .hard, 1 + countSp t')
      else if isAsciiPunct d then (st.push (.text [d]), 1)
      else (st.push (.text [92]), 0)
    | [] => (st.push (.text [92]), 0)
  else if c == 10 then (st.push .soft, countSp t)
  else if c == 32 then
    let n := countSp t
    match t.drop n with
    | d :: t' => if d == 10 then (st.push (if 1 ≤ n then .hard else .soft), n + 1 + countSp t') else (st.push (.text [32]), 0)
    | [] => (st.push (.text [32]), 0)
  else if c == 60 then
    match rawTag t with
    | some n => (st.push (.html (60 :: t.take n)), n)
    | none => (st.push (.text [60]), 0)
  else if c == 33 then
    match t with
    | d :: t' => if d == 91 then ({ st with ents := ⟨true, true, [], t'.length⟩ :: st.ents }, 1) else (st.push (.text [33]), 0)
    | [] => (st.push (.text [33]), 0)
  else if c == 91 then ({ st with ents := ⟨false, true, [], t.length⟩ :: st.ents }, 0)
  else if c == 93 then
    match st.ents with
    | [] => (st.push (.text [93]), 0)
    | e :: below =>
      if !e.active then (st.popText.push (.text [93]), 0)
      else match linkAt dv src e.pos t with
        | some (dest, title, k) =>
          let node := Inl.link e.image dest title e.after
          let below' := if e.image then below else deactivate below
          ((Stack.mk st.bot below').push node, k)
        | none => (st.popText.push (.text [93]), 0)
  else (st.push (.text [c]), 0)

def scan (dv : Dev) (src : Bytes) : Nat → Bytes → Stack → Stack
  | _, [], st => st
  | k + 1, _ :: t, st => scan dv src k t st
  | 0, c :: t, st => scan dv src (stepAt dv src c t st).2 t (stepAt dv src c t st).1

def parseD (dv : Dev) (inl : Bytes) : List Inl := (scan dv inl 0 inl ⟨[], []⟩).flatten

/-- the tree the specification prescribes for a paragraph's inline content -/
def parse (inl : Bytes) : List Inl := parseD Dev.spec inl

/-! ### rendering -/

def hexDig (n : Nat) : UInt8 := if n < 10 then UInt8.ofNat (48 + n) else UInt8.ofNat (55 + n)

/-- percent-encoding of a destination as the reference renderers do it, for the characters of the alphabet:
    letters, digits and `( ) ! / . - # ? % '` stay; everything else becomes `%XX` -/
def hrefByte (c : UInt8) : Bytes :=
  if isAlnum c || c == 40 || c == 41 || c == 33 || c == 47 || c == 46 || c == 45 || c == 35 || c == 63 || c == 37 || c == 39
  then [c] else [37, hexDig (c.toNat / 16), hexDig (c.toNat % 16)]

def href (d : Bytes) : Bytes := d.flatMap hrefByte

def sAOpen : Bytes := [60, 97, 32, 104, 114, 101, 102, 61, 34]                 -- <a href="
def sTitle : Bytes := [34, 32, 116, 105, 116, 108, 101, 61, 34]                -- " title="
def sAClose : Bytes := [60, 47, 97, 62]                                        -- </a>
def sImg : Bytes := [60, 105, 109, 103, 32, 115, 114, 99, 61, 34]              -- <img src="
def sAlt : Bytes := [34, 32, 97, 108, 116, 61, 34]                             -- " alt="
def sImgEnd : Bytes := [34, 32, 47, 62]                                        -- " />
def sBr : Bytes := [60, 98, 114, 32, 47, 62, 10]                               -- <br />\n

mutual
/-- the plain string content used as an image's `alt` -/
def plain : Inl → Bytes
  | .text b => b
  | .soft => [10]
  | .hard => [10]
  | .html _ => []
  | .link _ _ _ kids => plainL kids
def plainL : List Inl → Bytes
  | [] => []
  | n :: ns => plain n ++ plainL ns
end

def titleAttr (keepEmpty : Bool) : Option Bytes → Bytes
  | some t => if t.isEmpty && !keepEmpty then [] else sTitle ++ esc t
  | none => []

mutual
def renderK (ke : Bool) : Inl → Bytes
  | .text b => esc b
  | .soft => [10]
  | .hard => sBr
  | .html b => b
  | .link false d ti kids => sAOpen ++ href d ++ titleAttr ke ti ++ [34, 62] ++ renderKL ke kids ++ sAClose
  | .link true d ti kids => sImg ++ href d ++ sAlt ++ esc (plainL kids) ++ titleAttr ke ti ++ sImgEnd
def renderKL (ke : Bool) : List Inl → Bytes
  | [] => []
  | n :: ns => renderK ke n ++ renderKL ke ns
end

def render (n : Inl) : Bytes := renderK false n
def renderL (ns : List Inl) : Bytes := renderKL false ns

mutual
/-- an image description with a line break or raw HTML in it: the reference renderers disagree about `alt` -/
def altUnclear (inImg : Bool) : Inl → Bool
  | .text _ => false
  | .soft => inImg
  | .hard => inImg
  | .html _ => inImg
  | .link im _ _ kids => altUnclearL (inImg || im) kids
def altUnclearL (inImg : Bool) : List Inl → Bool
  | [] => false
  | n :: ns => altUnclear inImg n || altUnclearL inImg ns
end

mutual
/-- a link or image with an EMPTY title (`""`): the specification does not say how that is rendered (the reference
    renderers omit the attribute, goldmark writes `title=""`): outside the scope -/
def emptyTitle : Inl → Bool
  | .link _ _ ti kids => ti == some [] || emptyTitleL kids
  | _ => false
def emptyTitleL : List Inl → Bool
  | [] => false
  | n :: ns => emptyTitle n || emptyTitleL ns
end

/-! ### applicability and the document -/

/-- `<!` or `<?` somewhere: comments, declarations, processing instructions are outside the scope -/
def hasBangGo : Bool → Bytes → Bool
  | _, [] => false
  | lt, c :: t => (lt && (c == 33 || c == 63)) || hasBangGo (c == 60) t

def hasBang (b : Bytes) : Bool := hasBangGo false b

def linkOnly (inl : Bytes) : Bool := inl.all inAlphabet && !hasBang inl

/-- a line (leading spaces stripped) that starts with `<`: the start of an HTML block when it is the first line of a
    paragraph (types 6 / 7), and possibly of one that interrupts a paragraph (types 1-6) otherwise — inside the
    scope only as a continuation line whose tag name consists of the letter `a` only or that has no tag name -/
def htmlLine (cont : Bool) (l : Bytes) : Bool :=
  match l with
  | c :: rest =>
    if c != 60 then false
    else if !cont then true
    else
      let r := match rest with | d :: r' => if d == 47 then r' else rest | [] => rest
      let nm := r.takeWhile isLetter
      !(nm.all (· == 97))
  | [] => false

def paraOK : Bool → List Bytes → Bool
  | _, [] => true
  | cont, l :: ls => !htmlLine cont (CMEmph.stripL l) && paraOK true ls

def docGo (dv : Dev) : List (List Bytes) → Option Bytes
  | [] => some []
  | [] :: ps => docGo dv ps
  | p :: ps =>
    match CMEmph.paraContent false p, docGo dv ps with
    | some inl, some r =>
      let tree := parseD dv inl
      if linkOnly inl && paraOK false p && (dv.emptyTitle || (!altUnclearL false tree && !emptyTitleL tree)) then
        some (CMEmph.tagPO ++ renderKL dv.emptyTitle tree ++ CMEmph.tagPC ++ r)
      else none
    | _, _ => none

/-- the HTML the specification prescribes for `src`, or `none` when `src` is outside the scope -/
def linkDocD (dv : Dev) (src : Bytes) : Option Bytes := docGo dv (CMEmph.paragraphs (CMEmph.splitLines src))

def linkDoc (src : Bytes) : Option Bytes := linkDocD Dev.spec src

/-- the definition `[a]: /u` -/
def refAU : Option (Bytes × Bytes × Option Bytes) := some ([97], [47, 117], none)

def devOfMask (refA : Bool) (mask : Nat) : Dev :=
  { ctl := mask % 2 == 1, unbal := mask / 2 % 2 == 1, pointyLt := mask / 4 % 2 == 1, noSep := mask / 8 % 2 == 1,
    blankLabel := mask / 16 % 2 == 1, emptyTitle := true, ref := if refA then refAU else none }

/-- step two: the HTML prescribed for the document `body` + blank line + one link reference definition with the
    label `lab`, destination and title (given resolved) -/
def linkDocRefX (body lab dest : Bytes) (title : Option Bytes) : Option Bytes :=
  if isBlankLabel lab then none else linkDocD { ref := some (normLabel lab, dest, title) } body

/-- … + `[a]: /u` -/
def linkDocRef (body : Bytes) : Option Bytes := linkDocD { ref := refAU } body

/-! ### link reference definitions (4.7), one axis: `[a]: X` on one line, used by a shortcut reference `[a]` -/

/-- what follows the colon of a definition (no line ending in `x`): optional spaces, a destination (it cannot be
    omitted), and — separated by spaces — an optional title; "no further character may occur".  Returns the resolved
    destination and title. -/
def defTail (dv : Dev) (x : Bytes) : Option (Bytes × Option Bytes) :=
  let r0 := skipSp x
  let dest : Option (Bytes × Bytes) :=
    match r0 with
    | [] => none
    | d :: t1 =>
      if d == 60 then pointy dv false t1
      else match bare dv 0 false r0 with
        | some (raw, rest) => if raw.isEmpty then none else some (raw, rest)
        | none => none
  match dest with
  | none => none
  | some (raw, r1) =>
    let r2 := skipSp r1
    match r2 with
    | [] => some (unesc raw, none)
    | c :: t =>
      if r2.length == r1.length then none
      else match titleCloser c with
        | none => none
        | some cl =>
          match titleGo cl false t with
          | some (ti, r3) => if (skipSp r3).isEmpty then some (unesc raw, some (unesc ti)) else none
          | none => none

/-- the HTML prescribed for the document `[a]: X` + blank line + `[a]` (X without line ending, over the alphabet):
    a link when `[a]: X` is a link reference definition, two paragraphs of text otherwise -/
def defDocD (dv : Dev) (x : Bytes) : Option Bytes :=
  if x.any (· == 10) || !(x.all inAlphabet) || hasBang x then none
  else match defTail dv x with
    | some (d, ti) =>
      if ti == some [] && !dv.emptyTitle then none
      else some (CMEmph.tagPO ++ renderKL dv.emptyTitle [.link false d ti [.text [97]]] ++ CMEmph.tagPC)
    | none =>
      let inl := CMEmph.stripR ([91, 97, 93, 58, 32] ++ x)
      some (CMEmph.tagPO ++ renderKL dv.emptyTitle (parseD dv inl) ++ CMEmph.tagPC
            ++ CMEmph.tagPO ++ [91, 97, 93] ++ CMEmph.tagPC)

def defDoc (x : Bytes) : Option Bytes := defDocD Dev.spec x

/-- attribution: the first set of switches (single ones first) under which the reference reproduces `got`;
    `kind` 0 = a document, 1 = a document followed by `[a]: /u`, 2 = the definition axis `[a]: X` -/
def attributeDev (kind : Nat) (src got : Bytes) : Option Nat :=
  let bits (m : Nat) : Nat := m % 2 + m / 2 % 2 + m / 4 % 2 + m / 8 % 2 + m / 16 % 2
  let masks := [1, 2, 3, 4, 5].flatMap fun k => (List.range 32).filter fun m => bits m == k
  masks.find? fun m =>
    (if kind == 2 then defDocD (devOfMask false m) src else linkDocD (devOfMask (kind == 1) m) src) == some got

/-! ### the grammar of section 6.3 as independent predicates (used by the theorems in GM.Props.C02Link) -/

/-- white space between the components of an inline link: spaces and at most one line ending -/
def isSepWs (w : Bytes) : Bool := w.all (fun c => c == 32 || c == 10) && decide ((w.filter (· == 10)).length ≤ 1)

/-- first form, the content between `<` and `>`: no line ending, no unescaped `<` or `>` -/
def pointyOK : Bool → Bytes → Bool
  | _, [] => true
  | esc, c :: t =>
    if esc && isAsciiPunct c then pointyOK false t
    else c != 62 && c != 10 && c != 60 && pointyOK (c == 92) t

/-- second form: no space, no ASCII control character; the number of parentheses open at the end (`none`: an
    unescaped `)` without its `(`) -/
def bareDepth : Nat → Bool → Bytes → Option Nat
  | d, _, [] => some d
  | d, esc, c :: t =>
    if esc && isAsciiPunct c then bareDepth d false t
    else if c == 32 || isControl c then none
    else if c == 40 then bareDepth (d + 1) false t
    else if c == 41 then (if d == 0 then none else bareDepth (d - 1) false t)
    else bareDepth d (c == 92) t

/-- title content: the closing character (and, in the parenthesised form, `(`) only backslash-escaped -/
def titleOK (cl : UInt8) : Bool → Bytes → Bool
  | _, [] => true
  | esc, c :: t =>
    if esc && isAsciiPunct c then titleOK cl false t
    else c != cl && !(cl == 41 && c == 40) && titleOK cl (c == 92) t

/-- the escape state after a piece of text: `true` = it ends in an unescaped backslash -/
def escEnd : Bool → Bytes → Bool
  | e, [] => e
  | e, c :: t => if e && isAsciiPunct c then escEnd false t else escEnd (c == 92) t

def Tail.destSrc (tl : Tail) : Bytes := if tl.pointyForm then 60 :: (tl.rawDest ++ [62]) else tl.rawDest

/-- the destination satisfies the grammar of the form it was recognised in -/
def Tail.destOK (tl : Tail) : Bool :=
  if tl.pointyForm then pointyOK false tl.rawDest
  else bareDepth 0 false tl.rawDest == some 0 && tl.rawDest.head? != some 60

/-! ### the HTML as events; links inside links -/

inductive Ev where
  | openA (attrs : Bytes)     -- `<a href="…"[ title="…"]>`
  | closeA                    -- `</a>`
  | leaf (b : Bytes)          -- escaped text, a line ending, `<br />`, an `<img … />`; raw HTML is opaque
deriving Repr, BEq, DecidableEq, Inhabited

def Ev.bytes : Ev → Bytes
  | .openA a => sAOpen ++ a ++ [34, 62]
  | .closeA => sAClose
  | .leaf b => b

mutual
def events : Inl → List Ev
  | .text b => [.leaf (esc b)]
  | .soft => [.leaf [10]]
  | .hard => [.leaf sBr]
  | .html b => [.leaf b]
  | .link false d ti kids => .openA (href d ++ titleAttr false ti) :: (eventsL kids ++ [.closeA])
  | .link true d ti kids => [.leaf (sImg ++ href d ++ sAlt ++ esc (plainL kids) ++ titleAttr false ti ++ sImgEnd)]
def eventsL : List Inl → List Ev
  | [] => []
  | n :: ns => events n ++ eventsL ns
end

/-- `<a>` … `</a>` properly nested, nothing left open (`depth` = open elements) -/
def balGo : Nat → List Ev → Bool
  | d, [] => d == 0
  | d, .openA _ :: es => balGo (d + 1) es
  | 0, .closeA :: _ => false
  | d + 1, .closeA :: es => balGo d es
  | d, .leaf _ :: es => balGo d es

mutual
/-- a link (not an image) somewhere inside, at any depth (also inside image descriptions) -/
def hasLink : Inl → Bool
  | .link false _ _ _ => true
  | .link true _ _ kids => hasLinkL kids
  | _ => false
def hasLinkL : List Inl → Bool
  | [] => false
  | n :: ns => hasLink n || hasLinkL ns
end

mutual
/-- "Links may not contain other links, at any level of nesting": no link node has a link below it -/
def noNested : Inl → Bool
  | .link false _ _ kids => !hasLinkL kids && noNestedL kids
  | .link true _ _ kids => noNestedL kids
  | _ => true
def noNestedL : List Inl → Bool
  | [] => true
  | n :: ns => noNested n && noNestedL ns
end

end GM.Spec.CMLink
