/-
  GM.Spec.Cursor — what a reader is supposed to be (property C18): a cursor over the list of line views.

  A *line view* is `pad` virtual spaces followed by the bytes `src[start:stop)` of a line segment. The
  cursor stands at byte `p` of line number `ln`, with `pad` virtual spaces still in front of it.
  Every call is a *partial* function of the cursor: outside the documented preconditions it answers
  `Panic.pre` (and says nothing about the implementation). The three helpers that the Go code writes
  against the Reader interface (SkipSpaces, SkipBlankLines, ReadRune, FindClosure) mean: the same
  procedure carried out on the cursor. Core Lean only.

  `RCur` — source reader: the lines are the lines of the source (`lineEnd`, `lineStart`).
  `BCur` — block reader: the lines are the given segments.
-/
import GM.Model.Reader

namespace GM.Spec
open GM GM.Text

/-- the value of a segment: padding spaces, the bytes, and the forced newline -/
def segValue (src : Bytes) (t : Segment) : Bytes :=
  let v := spaces t.padding.toNat ++ sub src t.start.toNat t.stop.toNat
  if t.forceNewline && !v.isEmpty && v.getLast? != some 10 then v ++ [10] else v

/-- a segment that lies inside the source -/
def segInRange (src : Bytes) (t : Segment) : Prop :=
  0 ≤ t.start ∧ t.start ≤ t.stop ∧ t.stop ≤ src.length ∧ 0 ≤ t.padding

instance (src : Bytes) (t : Segment) : Decidable (segInRange src t) := by unfold segInRange; infer_instance

/-! ### source reader -/

structure RCur where
  ln : Int
  p : Nat
  pad : Nat
  deriving Repr

namespace RCur
variable (src : Bytes)

def seg (c : RCur) : Segment := { start := c.p, stop := lineEnd src c.p, padding := c.pad }

/-- the rest of the current line, virtual padding first; `none` at the end of the source -/
def view (c : RCur) : Option Bytes :=
  if c.p < src.length then some (spaces c.pad ++ sub src c.p (lineEnd src c.p)) else none

def peek (c : RCur) : UInt8 :=
  match view src c with
  | some (b :: _) => b
  | _ => 255

def peekLine (c : RCur) : (Option Bytes × Segment) × RCur :=
  ((view src c, seg src c), c)

/-- one byte of the view forward; the line number counts the newlines passed -/
def adv1 (c : RCur) : RCur :=
  if c.p < src.length then
    if c.pad ≠ 0 then { c with pad := c.pad - 1 }
    else { c with p := c.p + 1, ln := if src[c.p]? = some 10 then c.ln + 1 else c.ln }
  else c

def advN : Nat → RCur → RCur
  | 0, c => c
  | n + 1, c => advN n (adv1 src c)

/-- Advance(n), n ≥ 0: n bytes of the view forward, stopping at the end of the source -/
def advance (n : Int) (c : RCur) : Except Panic RCur :=
  if 0 ≤ n then .ok (advN src n.toNat c) else .error .pre

def advanceLine (c : RCur) : RCur := { ln := c.ln + 1, p := lineEnd src c.p, pad := 0 }

def position (c : RCur) : Int × Segment := (c.ln, seg src c)

/-- a position `Position` can have returned: start of the rest of some line of the source -/
def WFPos (s : Segment) : Prop :=
  0 ≤ s.start ∧ s.start ≤ src.length ∧ s.stop = lineEnd src s.start.toNat ∧ 0 ≤ s.padding ∧ s.forceNewline = false

instance (s : Segment) : Decidable (WFPos src s) := by unfold WFPos; infer_instance

def setPosition (line : Int) (s : Segment) (_ : RCur) : Except Panic RCur :=
  if WFPos src s then .ok { ln := line, p := s.start.toNat, pad := s.padding.toNat } else .error .pre

def setPadding (v : Int) (c : RCur) : Except Panic RCur :=
  if 0 ≤ v then .ok { c with pad := v.toNat } else .error .pre

/-- tab-expanded column of the cursor counted from the start of its line, minus the virtual padding;
    not specified at the end of the source -/
def lineOffset (c : RCur) : Except Panic (Int × RCur) :=
  if c.p < src.length then
    .ok ((colFrom (sub src (lineStart src c.p) c.p) 0 : Int) - c.pad, c)
  else .error .pre

def value (s : Segment) (c : RCur) : Except Panic (Bytes × RCur) :=
  if segInRange src s then .ok (segValue src s, c) else .error .pre

/-- the cursor as a Reader for the helpers -/
def ops : Ops RCur where
  peekLine := fun c => .ok (peekLine src c)
  advance := advance src
  advanceLine := fun c => .ok (advanceLine src c)
  position := position src
  setPosition := setPosition src

def step (c : RCur) : Op → Except Panic (Out × RCur)
  | .peek => .ok (.byte (peek src c), c)
  | .peekLine => let r := peekLine src c; .ok (.line r.1.1 r.1.2, r.2)
  | .advance n => do let c ← advance src n c; pure (.unit, c)
  | .advanceAndSetPadding n pad => do
      let c ← advance src n c
      if pad > c.pad then do let c ← setPadding pad c; pure (.unit, c) else pure (.unit, c)
  | .advanceLine => .ok (.unit, advanceLine src c)
  | .position => let r := position src c; .ok (.pos r.1 r.2, c)
  | .setPosition l s => do let c ← setPosition src l s c; pure (.unit, c)
  | .setPadding v => do let c ← setPadding v c; pure (.unit, c)
  | .lineOffset => do let (v, c) ← lineOffset src c; pure (.int v, c)
  | .value s => do let (v, c) ← value src s c; pure (.bytes v, c)
  | .skipSpaces => do let (r, c) ← skipSpaces (ops src) (loopFuel src) 0 c; pure (.skip r, c)
  | .skipBlankLines => do let (r, c) ← skipBlankLines (ops src) (loopFuel src) 0 c; pure (.skip r, c)
  | .readRune => do let (r, c) ← readRune (ops src) c; pure (.rune r, c)
  | .findClosure o cl opts => do let (r, c) ← findClosure (ops src) (loopFuel src) o cl opts c; pure (.closure r, c)
  | .precendingCharacter => .error .pre     -- not part of C18 (modelled and tied, not specified)
  | .resetPosition => .error .pre           -- reader.ResetPosition does not return to the start (status_C18.md)

def init : RCur := { ln := 0, p := 0, pad := 0 }

end RCur

/-! ### block reader -/

/-- WFSegs: the block's line segments lie in the source, are non-empty, increasing, with padding ≥ 0 and
    without ForceNewline; `lo` is the lower bound for the first start. -/
def WFSegsFrom (src : Bytes) : Int → List Segment → Prop
  | _, [] => True
  | lo, s :: rest => lo ≤ s.start ∧ s.start < s.stop ∧ s.stop ≤ src.length ∧ 0 ≤ s.padding ∧
      s.forceNewline = false ∧ WFSegsFrom src s.stop rest

def WFSegs (src : Bytes) (segs : List Segment) : Prop := segs ≠ [] ∧ WFSegsFrom src 0 segs

structure BCur where
  ln : Int
  p : Int
  pad : Int
  deriving Repr

namespace BCur
variable (src : Bytes) (segs : List Segment)

def k : Int := segs.length
def segOf (ln : Int) : Segment := if 0 ≤ ln then segs[ln.toNat]?.getD default else default
def lastStop : Int := match segs.getLast? with | some s => s.stop | none => 0
/-- the line the cursor's `stop` belongs to: its own, or the last one once it is past the end -/
def stopOf (c : BCur) : Int := if c.ln < k segs then (segOf segs c.ln).stop else lastStop segs

def seg (c : BCur) : Segment := { start := c.p, stop := stopOf segs c, padding := c.pad }

def live (c : BCur) : Bool := decide (c.ln < k segs) && decide (c.p < lastStop segs)

def view (c : BCur) : Option Bytes :=
  if live segs c then some (spaces c.pad.toNat ++ sub src c.p.toNat (stopOf segs c).toNat) else none

def peek (c : BCur) : UInt8 :=
  match view src segs c with
  | some (b :: _) => b
  | _ => 255

def peekLine (c : BCur) : (Option Bytes × Segment) × BCur := ((view src segs c, seg segs c), c)

/-- one byte of the view forward: padding first, then inside the line, then to the head of the next line
    view (with its padding); on the last line simply forward -/
def adv1 (c : BCur) : BCur :=
  if c.pad ≠ 0 then { c with pad := c.pad - 1 }
  else if c.p + 1 < stopOf segs c ∨ k segs ≤ c.ln + 1 then { c with p := c.p + 1 }
  else { ln := c.ln + 1, p := (segOf segs (c.ln + 1)).start, pad := (segOf segs (c.ln + 1)).padding }

def advN : Nat → BCur → BCur
  | 0, c => c
  | n + 1, c => advN n (adv1 segs c)

/-- total length of the views of the given lines -/
def viewsLen : List Segment → Int
  | [] => 0
  | s :: rest => s.padding + (s.stop - s.start) + viewsLen rest

/-- how many bytes of the whole view lie in front of the cursor -/
def remaining (c : BCur) : Int :=
  if live segs c then c.pad + (stopOf segs c - c.p) + viewsLen (segs.drop (c.ln.toNat + 1)) else 0

def advance (n : Int) (c : BCur) : Except Panic BCur :=
  if 0 ≤ n ∧ n ≤ remaining segs c then .ok (advN segs n.toNat c) else .error .pre

def advanceLine (c : BCur) : BCur :=
  if c.ln + 1 < k segs then { ln := c.ln + 1, p := (segOf segs (c.ln + 1)).start, pad := (segOf segs (c.ln + 1)).padding }
  else { c with ln := c.ln + 1 }

def position (c : BCur) : Int × Segment := (c.ln, seg segs c)

/-- a position of line `line` that `Position` can have returned -/
def WFPos (line : Int) (s : Segment) : Prop :=
  0 ≤ line ∧ 0 ≤ s.padding ∧ s.forceNewline = false ∧
  (if line < k segs then
      s.stop = (segOf segs line).stop ∧ (segOf segs line).start ≤ s.start ∧
      (s.start < s.stop ∨ (line + 1 = k segs ∧ s.start = s.stop))
   else s.stop = lastStop segs ∧ (segOf segs (k segs - 1)).start ≤ s.start ∧ s.start ≤ s.stop)

instance (line : Int) (s : Segment) : Decidable (WFPos segs line s) := by unfold WFPos; infer_instance

def setPosition (line : Int) (s : Segment) (_ : BCur) : Except Panic BCur :=
  if WFPos segs line s then .ok { ln := line, p := s.start, pad := s.padding } else .error .pre

def setPadding (v : Int) (c : BCur) : Except Panic BCur :=
  if 0 ≤ v then .ok { c with pad := v } else .error .pre

/-- column counted from the first byte of the current line *segment*, minus the padding; not specified
    once the cursor has left the last line -/
def lineOffset (c : BCur) : Except Panic (Int × BCur) :=
  if c.ln < k segs then
    .ok ((colFrom (sub src (segOf segs c.ln).start.toNat c.p.toNat) 0 : Int) - c.pad, c)
  else .error .pre

/-- `seg` starts in block line `j`: at or after that line's first byte and before the next line's -/
def valueLineAt (j : Nat) (s : Segment) : Prop :=
  ∃ l, segs[j]? = some l ∧ l.start ≤ s.start ∧ s.start ≤ s.stop ∧ (∀ n, segs[j + 1]? = some n → s.start < n.start)

/-- BlockReader.Value(seg) is the segment's own value when the segment lies inside one block line `j` and
    EITHER starts at the line's first byte and carries that line's padding OR starts inside the line and has
    no padding; no ForceNewline. (Since 96b5bf4 the line's padding is only put in front of its first byte.) -/
def valuePreAt (j : Nat) (s : Segment) : Prop :=
  ∃ l, segs[j]? = some l ∧ l.start ≤ s.start ∧ s.start ≤ s.stop ∧ s.stop ≤ l.stop ∧
    ((s.start = l.start ∧ s.padding = l.padding) ∨ (l.start < s.start ∧ s.padding = 0)) ∧
    s.forceNewline = false ∧ (∀ n, segs[j + 1]? = some n → s.start < n.start)

/-- what the later block lines contribute to `Value(seg)` when `seg` runs on past a line: each line its whole
    view (padding spaces, then its bytes) up to `stop`, ending with the first line that reaches `stop` -/
def valueRest (stop : Int) : List Segment → Bytes
  | [] => []
  | l :: rest =>
    l.concatPadding [] ++ sub src l.start.toNat (if stop < l.stop then stop else l.stop).toNat ++
      (if l.stop ≥ stop then [] else valueRest stop rest)

/-- the meaning of `BlockReader.Value(seg)` for a segment that starts in line `j` and may span further lines
    (what the inline parsers use for labels and titles that continue on later lines): the first line gives
    its padding only if `seg` starts at its first byte, then `src[seg.start : min(seg.stop, line.stop))`;
    every later line up to `seg.stop` gives its padding and its bytes -/
def blockValue (j : Nat) (s : Segment) : Bytes :=
  match segs[j]? with
  | none => []
  | some l =>
    (if s.start = l.start then l.concatPadding [] else []) ++
      sub src s.start.toNat (if s.stop < l.stop then s.stop else l.stop).toNat ++
      (if l.stop ≥ s.stop then [] else valueRest src s.stop (segs.drop (j + 1)))

/-- the cursor as a Reader for the helpers -/
def ops : Ops BCur where
  peekLine := fun c => .ok (peekLine src segs c)
  advance := advance segs
  advanceLine := fun c => .ok (advanceLine segs c)
  position := position segs
  setPosition := setPosition segs

def init : BCur := { ln := 0, p := (segOf segs 0).start, pad := (segOf segs 0).padding }

def step (c : BCur) : Op → Except Panic (Out × BCur)
  | .peek => .ok (.byte (peek src segs c), c)
  | .peekLine => let r := peekLine src segs c; .ok (.line r.1.1 r.1.2, r.2)
  | .advance n => do let c ← advance segs n c; pure (.unit, c)
  | .advanceAndSetPadding n pad => do
      let c ← advance segs n c
      if pad > c.pad then do let c ← setPadding pad c; pure (.unit, c) else pure (.unit, c)
  | .advanceLine => .ok (.unit, advanceLine segs c)
  | .position => let r := position segs c; .ok (.pos r.1 r.2, c)
  | .setPosition l s => do let c ← setPosition segs l s c; pure (.unit, c)
  | .setPadding v => do let c ← setPadding v c; pure (.unit, c)
  | .lineOffset => do let (v, c) ← lineOffset src segs c; pure (.int v, c)
  | .skipSpaces => do let (r, c) ← skipSpaces (ops src segs) (loopFuel src) 0 c; pure (.skip r, c)
  | .skipBlankLines => do let (r, c) ← skipBlankLines (ops src segs) (loopFuel src) 0 c; pure (.skip r, c)
  | .readRune => do let (r, c) ← readRune (ops src segs) c; pure (.rune r, c)
  | .findClosure o cl opts => do let (r, c) ← findClosure (ops src segs) (loopFuel src) o cl opts c; pure (.closure r, c)
  | .value _ => .error .pre                 -- see `blockReader_value_eq_segment_value` in GM.Props.C18
  | .precendingCharacter => .error .pre     -- not part of C18 (modelled and tied, not specified)
  | .resetPosition => .ok (.unit, init segs)

end BCur

end GM.Spec
