/-
  GM.Spec.Html — specification-side definitions about HTML text, written independently of goldmark's code.
-/
import GM.Model.Basic
namespace GM.Spec
open GM

/-- decode exactly the four references EscapeHTML produces (what an HTML parser does with them) -/
def htmlDecode4 : Bytes → Bytes
  | [] => []
  | 38 :: 113 :: 117 :: 111 :: 116 :: 59 :: r => 34 :: htmlDecode4 r
  | 38 :: 97 :: 109 :: 112 :: 59 :: r => 38 :: htmlDecode4 r
  | 38 :: 108 :: 116 :: 59 :: r => 60 :: htmlDecode4 r
  | 38 :: 103 :: 116 :: 59 :: r => 62 :: htmlDecode4 r
  | c :: r => c :: htmlDecode4 r

def startsWith (pre : Bytes) (s : Bytes) : Bool := s.take pre.length == pre

/-- every `&` starts one of `&quot; &amp; &lt; &gt;` -/
def ampsOK4 : Bytes → Bool
  | [] => true
  | c :: r =>
    (c != 38 || startsWith [113, 117, 111, 116, 59] r || startsWith [97, 109, 112, 59] r ||
      startsWith [108, 116, 59] r || startsWith [103, 116, 59] r) && ampsOK4 r

/-- no raw `<`, `>`, `"` -/
def noRawSpecial (b : Bytes) : Bool := b.all (fun c => c != 60 && c != 62 && c != 34)

end GM.Spec
