/-
  GM.Spec.Html — specification-side definitions about HTML text, written independently of goldmark's code:
  the four-reference decoder used by C19, and a strict deterministic tokenizer with the structural
  predicates of C03 (well-nestedness, vocabulary, inert text and attribute values, XML well-formedness).
-/
import GM.Model.Basic
namespace GM.Spec
open GM

/-- decode exactly the four references EscapeHTML produces (what an HTML parser does with them) -/
def htmlDecode4 : Bytes → Bytes
  | [] => []
  | 38 :: 113 :: 117 :: 111 :: 116 :: 59 :: r => 34 :: htmlDecode4 r
  | 38 :: 97 :: 109 :: 112 :: 59 :: r => 38 :: htmlDecode4 r
  | 38 :: 108 :: 116 :: 59 :: r => 60 :: htmlDecode4 r
  | 38 :: 103 :: 116 :: 59 :: r => 62 :: htmlDecode4 r
  | c :: r => c :: htmlDecode4 r

def startsWith (pre : Bytes) (s : Bytes) : Bool := s.take pre.length == pre

/-- every `&` starts one of `&quot; &amp; &lt; &gt;` -/
def ampsOK4 : Bytes → Bool
  | [] => true
  | c :: r =>
    (c != 38 || startsWith [113, 117, 111, 116, 59] r || startsWith [97, 109, 112, 59] r ||
      startsWith [108, 116, 59] r || startsWith [103, 116, 59] r) && ampsOK4 r

/-- no raw `<`, `>`, `"` -/
def noRawSpecial (b : Bytes) : Bool := b.all (fun c => c != 60 && c != 62 && c != 34)

/-! ### character references -/

def isDigitB (c : UInt8) : Bool := 48 ≤ c && c ≤ 57
def isHexB (c : UInt8) : Bool := isDigitB c || (97 ≤ c && c ≤ 102) || (65 ≤ c && c ≤ 70)
def isAlphaB (c : UInt8) : Bool := (97 ≤ c && c ≤ 122) || (65 ≤ c && c ≤ 90)
def isAlnumB (c : UInt8) : Bool := isAlphaB c || isDigitB c

/-- `p+ ;` at the head of the input -/
def runThenSemi (p : UInt8 → Bool) (s : Bytes) : Bool :=
  match s.dropWhile p with
  | 59 :: _ => !(s.takeWhile p).isEmpty
  | _ => false

/-- the bytes after an `&` spell a well-formed character reference: `name;`, `#digits;` or `#xhex;` -/
def refAfterAmp : Bytes → Bool
  | 35 :: 120 :: r => runThenSemi isHexB r
  | 35 :: 88 :: r => runThenSemi isHexB r
  | 35 :: r => runThenSemi isDigitB r
  | r => runThenSemi isAlnumB r

/-- every `&` starts a well-formed character reference -/
def ampsOK : Bytes → Bool
  | [] => true
  | c :: r => (c != 38 || refAfterAmp r) && ampsOK r

/-! ### tokens -/

inductive Tok where
  | startTag (name : Bytes) (attrs : List (Bytes × Bytes)) (selfClose : Bool)
  | endTag (name : Bytes)
  | text (b : Bytes)
  | comment            -- the one allowed comment, `<!-- raw HTML omitted -->`
deriving Repr, BEq, DecidableEq

def placeholder : Bytes := strBytes "<!-- raw HTML omitted -->"

def isTagNameB (c : UInt8) : Bool := (97 ≤ c && c ≤ 122) || isDigitB c
def isAttrStartB (c : UInt8) : Bool := isAlphaB c || c == 95 || c == 58
def isAttrNameB (c : UInt8) : Bool := isAlnumB c || c == 95 || c == 58 || c == 46 || c == 45

/-- ` name="value"` repeated, then `>` or ` />`. Returns attributes, self-close flag and the rest.
    `fuel` bounds the number of attributes (each consumes at least four bytes). -/
def lexAttrs : Nat → Bytes → Option (List (Bytes × Bytes) × Bool × Bytes)
  | _, 62 :: r => some ([], false, r)
  | _, 32 :: 47 :: 62 :: r => some ([], true, r)
  | fuel + 1, 32 :: c :: r =>
    if isAttrStartB c then
      let name := c :: r.takeWhile isAttrNameB
      match r.dropWhile isAttrNameB with
      | 61 :: 34 :: r2 =>
        let v := r2.takeWhile (· != 34)
        match r2.dropWhile (· != 34) with
        | 34 :: r3 =>
          match lexAttrs fuel r3 with
          | some (as, sc, rest) => some ((name, v) :: as, sc, rest)
          | none => none
        | _ => none
      | _ => none
    else none
  | _, _ => none

/-- one token from a non-empty input -/
def lexOne (s : Bytes) : Option (Tok × Bytes) :=
  match s with
  | [] => none
  | 60 :: r =>
    if startsWith placeholder s then some (.comment, s.drop placeholder.length)
    else match r with
      | 47 :: r1 =>
        let name := r1.takeWhile isTagNameB
        match r1.dropWhile isTagNameB with
        | 62 :: r2 => if name.isEmpty then none else some (.endTag name, r2)
        | _ => none
      | _ =>
        let name := r.takeWhile isTagNameB
        if name.isEmpty then none
        else match lexAttrs s.length (r.dropWhile isTagNameB) with
          | some (as, sc, rest) => some (.startTag name as sc, rest)
          | none => none
  | _ => some (.text (s.takeWhile (· != 60)), s.dropWhile (· != 60))

/-- the strict tokenizer; `none` = not in the language at all -/
def tokenizeFuel : Nat → Bytes → Option (List Tok)
  | _, [] => some []
  | 0, _ => none
  | fuel + 1, s =>
    match lexOne s with
    | some (t, rest) => if rest.length < s.length then (tokenizeFuel fuel rest).map (t :: ·) else none
    | none => none

def tokenize (s : Bytes) : Option (List Tok) := tokenizeFuel s.length s

/-! ### predicates on token lists -/

def voidTags : List Bytes := [strBytes "hr", strBytes "br", strBytes "img", strBytes "input"]

/-- stack discipline: every non-void start tag is closed by the matching end tag, in order; void elements
    have no end tag. Returns the remaining open stack. -/
def nestStep (stack : List Bytes) : Tok → Option (List Bytes)
  | .startTag n _ _ => if voidTags.contains n then some stack else some (n :: stack)
  | .endTag n =>
    match stack with
    | top :: rest => if top == n && !voidTags.contains n then some rest else none
    | [] => none
  | _ => some stack

def nestRun : List Bytes → List Tok → Option (List Bytes)
  | st, [] => some st
  | st, t :: ts => match nestStep st t with
    | some st' => nestRun st' ts
    | none => none

def wellNested (ts : List Tok) : Bool := nestRun [] ts == some []

/-- text and attribute values are inert: no raw `<` in text (by tokenization), no raw `"` in values (by
    tokenization), and every `&` in either begins a well-formed character reference -/
def inertTok : Tok → Bool
  | .text b => ampsOK b && !b.contains 60
  | .startTag _ as _ => as.all fun a => ampsOK a.2 && !a.2.contains 34
  | _ => true

def inert (ts : List Tok) : Bool := ts.all inertTok

/-- HTML5 serialisation: only void elements carry the self-closing slash (XHTML: all of them do) -/
def voidsOK (xhtml : Bool) : Tok → Bool
  | .startTag n _ sc => if voidTags.contains n then sc == xhtml else !sc
  | _ => true

/-- additionally needed for XML well-formedness: no `<` in attribute values, no duplicate attribute names -/
def xmlTok : Tok → Bool
  | .startTag _ as _ => as.all (fun a => !a.2.contains 60) && (as.map (·.1)).eraseDups.length == as.length
  | _ => true

/-- vocabulary check, parametrised by the allowed attribute names per tag -/
def vocabTok (allowed : Bytes → Option (List Bytes)) : Tok → Bool
  | .startTag n as _ =>
    match allowed n with
    | some names => as.all fun a => names.contains a.1 || startsWith (strBytes "data-") a.1
    | none => false
  | .endTag n => (allowed n).isSome
  | _ => true

end GM.Spec
