/-
  GM.Spec.ExtFacts — the obligations over the regenerated extension facts (GM.Gen.ExtFacts, written by
  harness/cmd/gmgen/gen_ext.go from extension/*.go and parser/*.go on every run):
    * which values each built-in extension's `Extend` hands to the parser and the renderer, with priorities;
    * the byte literals each parser type returns from `Trigger()`;
    * that `extension.GFM` is exactly Linkify, Table, Strikethrough, TaskList.
  The EXPECTED side below is written from the text of property C11 (which characters each extension's syntax
  needs), not from the code. A changed `Trigger()` or `Extend` makes a `decide` in Props/C11 stop checking.
-/
import GM.Gen.ExtFacts
namespace GM.Spec.Ext
open GM

/-- the concrete type a registered constructor/variable yields ("?" when gmgen did not understand it) -/
def typeOf (value : String) : String :=
  match Gen.ctorTypes.find? (·.1 == value) with
  | some p => p.2
  | none => "?"

/-- `Trigger()` of a type in package extension (none: no such method) -/
def triggerOf (pkg typ : String) : Option Gen.TriggerFact :=
  Gen.parserTriggers.find? fun t => t.pkg == pkg && t.typ == typ

/-- what one extension type registers: (target, kind, concrete type, priority), in source order -/
def registrations (ext : String) : List (String × String × String × Int) :=
  (Gen.extRegistrations.filter (·.ext == ext)).map fun r =>
    (r.target, r.kind, if r.kind == "option" then r.value else typeOf r.value, r.prio)

/-- the trigger bytes of all parsers of one kind ("inline" / "block") an extension registers; a parser whose
    trigger is nil or not understood contributes every byte (so that the ⊆ obligations fail) -/
def triggersOf (ext kind : String) : List UInt8 :=
  (Gen.extRegistrations.filter fun r => r.ext == ext && r.kind == kind).flatMap fun r =>
    match triggerOf "extension" (typeOf r.value) with
    | some t => if t.understood && !t.isNil then t.bytes else (List.range 256).map UInt8.ofNat
    | none => (List.range 256).map UInt8.ofNat

def subset (xs ys : List UInt8) : Bool := xs.all ys.contains

/-- everything gmgen emitted was understood -/
def allUnderstood : Bool :=
  Gen.parserTriggers.all (·.understood) &&
  Gen.ctorTypes.all (·.2 != "?") &&
  Gen.extRegistrations.all (fun r => r.value != "?" && r.target != "?") &&
  Gen.defaultParsers.all (·.value != "?")

/-! ### expected registrations (from the documentation of each extension / the property text) -/

def expectStrikethrough : List (String × String × String × Int) :=
  [("parser", "inline", "strikethroughParser", 500), ("renderer", "nodeRenderer", "StrikethroughHTMLRenderer", 500)]
def expectTaskList : List (String × String × String × Int) :=
  [("parser", "inline", "taskCheckBoxParser", 0), ("renderer", "nodeRenderer", "TaskCheckBoxHTMLRenderer", 500)]
def expectLinkify : List (String × String × String × Int) :=
  [("parser", "inline", "linkifyParser", 999)]
def expectTypographer : List (String × String × String × Int) :=
  [("parser", "inline", "typographerParser", 9999)]
def expectTable : List (String × String × String × Int) :=
  [("parser", "paragraphTransformer", "tableParagraphTransformer", 200), ("parser", "astTransformer", "tableASTTransformer", 0),
   ("renderer", "nodeRenderer", "TableHTMLRenderer", 500)]
def expectFootnote : List (String × String × String × Int) :=
  [("parser", "block", "footnoteBlockParser", 999), ("parser", "inline", "footnoteParser", 101),
   ("parser", "astTransformer", "footnoteASTTransformer", 999), ("renderer", "nodeRenderer", "FootnoteHTMLRenderer", 500)]
def expectDefinitionList : List (String × String × String × Int) :=
  [("parser", "block", "definitionListParser", 101), ("parser", "block", "definitionDescriptionParser", 102),
   ("renderer", "nodeRenderer", "DefinitionListHTMLRenderer", 500)]
def expectCJK : List (String × String × String × Int) :=
  [("renderer", "option", "html.WithEastAsianLineBreaks", 0), ("renderer", "option", "html.WithWriter", 0),
   ("parser", "option", "parser.WithEscapedSpace", 0)]

def registrationsAsExpected : Bool :=
  registrations "strikethrough" == expectStrikethrough && registrations "taskList" == expectTaskList &&
  registrations "linkify" == expectLinkify && registrations "typographer" == expectTypographer &&
  registrations "table" == expectTable && registrations "footnote" == expectFootnote &&
  registrations "definitionList" == expectDefinitionList && registrations "cjk" == expectCJK &&
  registrations "gfm" == []

/-- every registration belongs to one of the nine extension types -/
def noOtherExtension : Bool :=
  Gen.extRegistrations.all fun r =>
    ["strikethrough", "taskList", "linkify", "typographer", "table", "footnote", "definitionList", "cjk"].contains r.ext

/-! ### trigger bytes against the characters the property excludes -/

def tilde : UInt8 := 126
def lbracket : UInt8 := 91
def bang : UInt8 := 33
def colon : UInt8 := 58

/-- Typographer: the characters of the property (' " - . < >) … -/
def typographerChars : List UInt8 := [39, 34, 45, 46, 60, 62]
/-- … and the three further trigger bytes (, * [) at which its Parse declines at once (Ext.typoParse) -/
def typographerExtra : List UInt8 := [44, 42, 91]

/-- Linkify's trigger set as the decline model assumes it (`Ext.linkifyStrip`): NOT a subset of the property's
    characters (':' '@' 'w'), which is why Linkify needs the decline theorem -/
def linkifyTriggers : List UInt8 := [32, 42, 95, 126, 40]

def triggersAsExpected : Bool :=
  subset (triggersOf "strikethrough" "inline") [tilde] && triggersOf "strikethrough" "block" == [] &&
  subset (triggersOf "taskList" "inline") [lbracket] && triggersOf "taskList" "block" == [] &&
  subset (triggersOf "footnote" "inline") [bang, lbracket] && subset (triggersOf "footnote" "block") [lbracket] &&
  triggersOf "definitionList" "inline" == [] && subset (triggersOf "definitionList" "block") [colon] &&
  subset (triggersOf "typographer" "inline") (typographerChars ++ typographerExtra) && triggersOf "typographer" "block" == [] &&
  triggersOf "linkify" "inline" == linkifyTriggers && triggersOf "linkify" "block" == [] &&
  triggersOf "table" "inline" == [] && triggersOf "table" "block" == [] &&
  triggersOf "cjk" "inline" == [] && triggersOf "cjk" "block" == []

/-! ### GFM -/

/-- the types of the extensions `gfm.Extend` delegates to, in source order -/
def gfmMembers : List String :=
  (Gen.extendCalls.filter (·.1 == "gfm")).map fun c =>
    match Gen.extVars.find? (·.1 == c.2) with
    | some p => p.2
    | none => "?"

def gfmAsExpected : Bool :=
  gfmMembers == ["linkify", "table", "strikethrough", "taskList"] &&
  Gen.extendCalls.all (·.1 == "gfm") && registrations "gfm" == []

/-! ### the default inline parsers (what GM.Model.InlinesLoop.parsersFor hard-codes) -/

/-- the default inline parsers triggered by `c`, in priority order, as type names -/
def defaultInlineFor (c : UInt8) : List String :=
  ((Gen.defaultParsers.filter (·.kind == "inline")).filter fun r =>
      match triggerOf "parser" (typeOf r.value) with
      | some t => t.bytes.contains c
      | none => true).map fun r => typeOf r.value

def defaultInlineSorted : Bool :=
  let ps := (Gen.defaultParsers.filter (·.kind == "inline")).map (·.prio)
  (ps.zip ps.tail).all fun (a, b) => a < b

end GM.Spec.Ext
