/-
  GM.Spec.HardBreak — CommonMark 0.31.2 §6.7 (hard line breaks) / §6.8 (soft line breaks) / §2.4 (backslash
  escapes) read on ONE line of a paragraph, independently of the Go code. Core Lean only.

  `body` is the line without its final newline. Reading it BACKWARDS from the line ending (`body.reverse`):
  the line ending is a hard break iff it is preceded by two or more spaces, or by a backslash that is not itself
  escaped, i.e. by an odd run of backslashes (an even run is a sequence of escaped backslashes). A `\r` directly
  before the `\n` belongs to the line ending (`\r\n`).
-/
import GM.Model.Basic

namespace GM.Spec

/-- length of the run of backslashes at the head of the reversed line -/
def backslashRun (r : Bytes) : Nat := (r.takeWhile (· == 92)).length

/-- hard break, the line ending being directly after `r.reverse` -/
def hardBefore (r : Bytes) : Bool :=
  backslashRun r % 2 == 1 || (match r with | 32 :: 32 :: _ => true | _ => false)

/-- the line `body ++ "\n"` ends in a hard line break (`\n` or `\r\n` line ending) -/
def hardBreak (body : Bytes) : Bool :=
  hardBefore body.reverse || (match body.reverse with | 13 :: r => hardBefore r | _ => false)

end GM.Spec
