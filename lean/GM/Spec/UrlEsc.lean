/-
  GM.Spec.UrlEsc — specification-side predicates about URL text, written independently of goldmark's code.
-/
import GM.Model.Basic
namespace GM.Spec
open GM

/-- a byte that may appear raw inside an `href`/`src` value: not a space or control byte (≤ 0x20, 0x7f),
    not `"`, `<`, `>` -/
def urlCleanByte (c : UInt8) : Bool := c > 0x20 && c != 0x7f && c != 34 && c != 60 && c != 62

/-- no space, control, double-quote or angle-bracket byte -/
def urlBytesClean (b : Bytes) : Bool := b.all urlCleanByte

def isHexDigit (c : UInt8) : Bool := (48 ≤ c && c ≤ 57) || (65 ≤ c && c ≤ 70) || (97 ≤ c && c ≤ 102)

/-- the list starts with two hex digits -/
def twoHex : Bytes → Bool
  | a :: b :: _ => isHexDigit a && isHexDigit b
  | _ => false

/-- every `%` is followed by two hex digits -/
def pctOK : Bytes → Bool
  | [] => true
  | c :: r => (c != 37 || twoHex r) && pctOK r

/-- pure ASCII -/
def isAscii (b : Bytes) : Bool := b.all (· < 128)

end GM.Spec
