/-
  GM.Spec.UrlEsc — specification-side predicates about URL text, written independently of goldmark's code.
-/
import GM.Model.Basic
namespace GM.Spec
open GM

/-- a byte that may appear raw inside an `href`/`src` value: not a space or control byte (≤ 0x20, 0x7f),
    not `"`, `<`, `>` -/
def urlCleanByte (c : UInt8) : Bool := c > 0x20 && c != 0x7f && c != 34 && c != 60 && c != 62

/-- no space, control, double-quote or angle-bracket byte -/
def urlBytesClean (b : Bytes) : Bool := b.all urlCleanByte

def isHexDigit (c : UInt8) : Bool := (48 ≤ c && c ≤ 57) || (65 ≤ c && c ≤ 70) || (97 ≤ c && c ≤ 102)

/-- the list starts with two hex digits -/
def twoHex : Bytes → Bool
  | a :: b :: _ => isHexDigit a && isHexDigit b
  | _ => false

/-- every `%` is followed by two hex digits -/
def pctOK : Bytes → Bool
  | [] => true
  | c :: r => (c != 37 || twoHex r) && pctOK r

/-- pure ASCII -/
def isAscii (b : Bytes) : Bool := b.all (· < 128)

/-- value of a hex digit -/
def hexValue (c : UInt8) : UInt8 :=
  if 48 ≤ c && c ≤ 57 then c - 48 else if 65 ≤ c && c ≤ 70 then c - 55 else c - 87

/-- percent-decoding as a URL consumer does it: `%XX` (two hex digits) is the byte XX, everything else
    (including a `%` not followed by two hex digits) stands for itself -/
def pctDecode : Bytes → Bytes
  | [] => []
  | [c] => [c]
  | [c, d] => c :: pctDecode [d]
  | c :: a :: b :: r =>
    if c == 37 && isHexDigit a && isHexDigit b then (hexValue a * 16 + hexValue b) :: pctDecode r
    else c :: pctDecode (a :: b :: r)

end GM.Spec
