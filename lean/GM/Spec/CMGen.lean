/-
  GM.Spec.CMGen — deterministic generators for the C02 spec-side model: `gen seed size` (random annotated
  documents, well-formed by construction and re-checked with `wellFormed`) and `enumDoc i` (the exhaustive
  small scope: products of every choice axis over small trees of depth ≤ 2). Core Lean only.
-/
import GM.Spec.CommonMark
namespace GM.Spec.CM
open GM

/-! ## random generation -/

structure GS where
  s : UInt64
  ctr : Nat := 0
  defs : List RefDef := []

abbrev G := StateM GS

def nextU : G UInt64 := do
  let st ← get
  let s := st.s + 0x9E3779B97F4A7C15
  let z := (s ^^^ (s >>> 30)) * 0xBF58476D1CE4E5B9
  let z := (z ^^^ (z >>> 27)) * 0x94D049BB133111EB
  set { st with s := s }
  return z ^^^ (z >>> 31)

def below (n : Nat) : G Nat := do
  let u ← nextU
  return if n == 0 then 0 else u.toNat % n

def chance (p : Nat) : G Bool := do return (← below 100) < p

def pickL {α} [Inhabited α] (xs : List α) : G α := do
  let i ← below xs.length
  return xs.getD i default

def fresh : G Nat := do
  let st ← get
  set { st with ctr := st.ctr + 1 }
  return st.ctr

def genEsc : G Esc := do
  let r ← below 100
  if r < 55 then return .lit
  else if r < 67 then return .bs
  else if r < 77 then return .dec (← below 6)
  else if r < 88 then return .hex (← below 5) (← chance 50) (← chance 50)
  else return .named

def letters : List UInt8 := (strBytes "abcdefghijklmnopqrstuvwxyzABCDEFGHIJKLMNOPQRSTUVWXYZ")

def genLetter : G TChar := do return ⟨← pickL letters, .lit⟩

def genAnyChar : G TChar := do
  let r ← below 100
  if r < 50 then genLetter
  else if r < 65 then return ⟨32, .lit⟩
  else if r < 72 then return ⟨UInt8.ofNat (48 + (← below 10)), ← genEsc⟩
  else if r < 78 then return ⟨← pickL letters, ← genEsc⟩
  else
    -- any printable punctuation, any spelling
    let ps : List UInt8 := (List.range 95).map (fun i => UInt8.ofNat (32 + i)) |>.filter isAsciiPunct
    return ⟨← pickL ps, ← genEsc⟩

def genChars : Nat → G (List TChar)
  | 0 => return []
  | n + 1 => do
    let c ← genAnyChar
    let rest ← genChars n
    return c :: rest

/-- a run of text that starts and ends with a literal letter (safe next to every construct) -/
def genText (maxLen : Nat) : G Inline := do
  let n ← below (maxLen + 1)
  let a ← genLetter
  let mid ← genChars n
  let z ← genLetter
  return .text ([a] ++ mid ++ [z])

def genBytes (alphabet : List UInt8) : Nat → G Bytes
  | 0 => return []
  | n + 1 => do
    let c ← pickL alphabet
    let rest ← genBytes alphabet n
    return c :: rest

def printableAll : List UInt8 := (List.range 95).map fun i => UInt8.ofNat (32 + i)

def destAlphabet : List UInt8 :=
  strBytes "abcxyzABC019/:.-_~?=#%+@!$'*,;&()[]\\\"<>`^{}| " ++ strBytes "////aaaa...."

def genDest : G Bytes := do
  let r ← below 10
  if r == 0 then return []
  else if r < 5 then
    return strBytes "/" ++ (← genBytes (strBytes "abcdefgh/._-") (1 + (← below 8)))
  else genBytes destAlphabet (1 + (← below 10))

def genTitle : G (Option Bytes) := do
  if ← chance 50 then return none
  else return some (← genBytes (printableAll ++ strBytes "    aaaabbbb") (← below 12))

def genLinkCh (style : LinkStyle) : G LinkCh := do
  let an ← chance 30
  let tq ← below 3
  let lv ← below 9
  let sp ← below 2
  let en ← chance 30
  return { style := style, angle := an, titleQ := tq, labelVar := lv, sp := sp, ent := en }

def codeAlphabet : List UInt8 := strBytes "abc  ``*_<>&\"\\[]x1" 

def genCode : G Inline := do
  let n ← below 7
  let c ← genBytes codeAlphabet (n + 1)
  return .code c (← below 3) (← chance 30)

def genAutolink : G Inline := do
  if ← chance 30 then
    let loc ← genBytes (strBytes "abcXYZ019._+-") (1 + (← below 6))
    let d1 ← genBytes (strBytes "abcxyz09") (1 + (← below 5))
    let d2 ← genBytes (strBytes "comnetorg") (2 + (← below 2))
    return .autolink (loc ++ [64] ++ d1 ++ [46] ++ d2) true
  else
    let sch ← pickL (["http", "https", "ftp", "mailto", "a+b.c-d", "irc", "MAILTO", "x1"].map strBytes)
    let rest ← genBytes (strBytes "abc/.?=&#%-_~:@!$'()*+,;[]\\\"`^{}|") (← below 12)
    return .autolink (sch ++ [58] ++ rest) false

def rawSamples : List Bytes := ["<b>", "</b>", "<span class=\"x\">", "</span>", "<a href='q' title=\"*x*\">", "<br/>", "<br />",
  "<img src=x alt=y />", "<!-- c -->", "<!-- a*b_c -->", "<?php echo 1; ?>", "<x-y z>", "<i  a=\"]\" >", "</i >", "<u _a:b.c-d=1>"].map strBytes

def genRaw : G Inline := do return .rawHtml (← pickL rawSamples)

def labelWords : List Bytes := ["Foo", "bar", "BAZ", "q1", "Link", "ref"].map strBytes

def genLabel : G Bytes := do
  let w ← pickL labelWords
  let n ← fresh
  let base := w ++ decStr n
  if ← chance 40 then return base ++ [32] ++ (← pickL labelWords) else return base

def addDef (label dest : Bytes) (title : Option Bytes) : G Unit := do
  let lv ← below 9
  let an ← chance 30
  let tq ← below 3
  let tn ← chance 25
  let ind ← below 4
  let en ← chance 30
  let d : RefDef := ⟨label, dest, title, lv, an, tq, tn, ind, en⟩
  modify fun st => { st with defs := st.defs ++ [d] }

def genStyle : G LinkStyle := do
  let r ← below 10
  return if r < 4 then .inline else if r < 6 then .full else if r < 8 then .collapsed else .shortcut

/-- inline sequences: texts alternating with other constructs; `fuel` bounds the nesting -/
def padEnd : Inline → Inline
  | .text cs => .text (cs ++ [⟨32, .lit⟩])
  | x => x
def padStart : Inline → Inline
  | .text cs => .text (⟨32, .lit⟩ :: cs)
  | x => x

def genInlines : Nat → ICtx → Nat → (inEmph : Bool := false) → G (List Inline)
  | 0, _, _, _ => do return [← genText 6]
  | fuel + 1, cx, n, inEmph => do
    let mut out : List Inline := [← genText 6]
    for _ in [0:n] do
      let r ← below 100
      let x : Inline ←
        if r < 14 then pure (.emph (← chance 50) (← genInlines fuel cx (← below 2) true))
        else if r < 26 then pure (.strong (← chance 50) (← genInlines fuel cx (← below 2) true))
        else if r < 38 then genCode
        else if r < 58 && !cx.inLink && !cx.inImage then do
          let style ← genStyle
          let dest ← genDest
          let title ← genTitle
          let ch ← genLinkCh style
          match style with
          | .inline => pure (.link (← genInlines fuel { cx with inLink := true } (← below 2)) dest title [] ch)
          | .full =>
            let l ← genLabel
            addDef l dest title
            pure (.link (← genInlines fuel { cx with inLink := true } (← below 2)) dest title l ch)
          | _ =>
            let l ← genLabel
            addDef l dest title
            pure (.link [.text (l.map fun c => ⟨c, .lit⟩)] dest title l ch)
        else if r < 68 && !cx.inImage then do
          let style ← genStyle
          let dest ← genDest
          let title ← genTitle
          let ch ← genLinkCh style
          match style with
          | .inline => pure (.image (← genInlines fuel { cx with inImage := true } (← below 2)) dest title [] ch)
          | .full =>
            let l ← genLabel
            addDef l dest title
            pure (.image (← genInlines fuel { cx with inImage := true } (← below 2)) dest title l ch)
          | _ =>
            let l ← genLabel
            addDef l dest title
            pure (.image [.text (l.map fun c => ⟨c, .lit⟩)] dest title l ch)
        else if r < 76 && !cx.inLink && !cx.inImage then genAutolink
        else if r < 84 && !cx.inImage then genRaw
        else if r < 92 && !cx.noBreaks && !cx.inImage then pure (.hardBreak (← chance 50) (← below 3))
        else if !cx.noBreaks && !cx.inImage then pure .softBreak
        else genCode
      let t ← genText 6
      if inEmph && isEmphLike x then
        -- nested emphasis: a space (or, sometimes, punctuation) on both sides
        let sepc : TChar ← (do if ← chance 70 then pure ⟨32, .lit⟩ else pure ⟨← pickL (strBytes ".,;:!?()-"), ← genEsc⟩)
        let addEnd : Inline → Inline := fun i => match i with
          | .text cs => .text (cs ++ [sepc])
          | y => y
        let addStart : Inline → Inline := fun i => match i with
          | .text cs => .text (sepc :: cs)
          | y => y
        out := (out.dropLast ++ (match out.getLast? with | some l => [addEnd l] | none => [])) ++ [x, addStart t]
      else
        out := out ++ [x, t]
    -- sometimes let a construct begin / end the sequence (never inside emphasis: callers check wellFormed)
    return out

/-- paragraph-level sequence: may drop the leading / trailing text when what follows can start / end a line -/
def genParaInlines (cx : ICtx) (n : Nat) : G (List Inline) := do
  let xs ← genInlines 2 cx n
  let xs ← (do
    if (← chance 25) then
      match xs with
      | _ :: y :: rest => if startOK y && !isShortcut y then pure (y :: rest) else pure xs
      | _ => pure xs
    else pure xs)
  if (← chance 25) && xs.length ≥ 3 then
    let ys := xs.dropLast
    match ys.getLast? with
    | some l => if endOK l && !isBreak l then return ys else return xs
    | none => return xs
  else return xs

def genBCh : G BCh := do
  let i ← below 4
  let a ← chance 50
  let t ← below 12
  return { indent := i, abut := a, trail := t }

def lineAlphabet : List UInt8 := strBytes "abc xyz  <>&\"'`~*_#-+=1.)[]\\!" 

def genLine (nonblank : Bool) : G Bytes := do
  let lead ← (do if ← chance 30 then pure (spaces (1 + (← below 5))) else pure [])
  let n ← below 9
  let body ← genBytes lineAlphabet n
  if nonblank && !nonBlank body then return lead ++ [120] ++ body
  else if !nonBlank body then return []
  else return lead ++ body

def genLines (nonblank : Bool) : Nat → G (List Bytes)
  | 0 => return []
  | n + 1 => do
    let l ← genLine nonblank
    let rest ← genLines nonblank n
    return l :: rest

def htmlSamples : List (List Bytes) := [
  ["<div class=\"a\">", "*not emph* &amp; <b>", "</div>"], ["<table>", "  <tr><td>x</td></tr>", "</table>"], ["<p>x</p>"],
  ["</div>", "tail"], ["<DIV>", "x"], ["<hr/>"], ["<!-- c", "  more *x*", "done -->"], ["<!-- one --> after"],
  ["<pre>", "a  b", "  </pre> tail"], ["<script>", "x < y && z", "</script>"], ["<style>p{}</style>"], ["<textarea>", "a", "</TEXTAREA>"],
  ["<?php", "echo 1; ?>"], ["<!DOCTYPE html>"], ["<![CDATA[", "x ]]>"], ["<span class=\"x\">", "inner *x*", "</span>"], ["</ins>"],
  ["<a href=\"u\">", "t"], ["<x-y z='1' />  "]].map (·.map strBytes)

def genInfo : G Bytes := do
  let r ← below 4
  if r == 0 then return []
  else if r == 1 then return strBytes "go"
  else if r == 2 then return strBytes "c++ extra words"
  else return strBytes "x_1.y-z"

def fixFenceLines (fc : UInt8) (len : Nat) (ls : List Bytes) : List Bytes :=
  ls.map fun l => if fenceCloser fc len l then [120] ++ l else l

/-- blocks; `fuel` bounds the nesting. `avoidICode`: the position does not admit an indented chunk -/
def genBlock : Nat → Bool → G Block
  | 0, _ => do return .para (← genBCh) (← genParaInlines {} (← below 2)) (← below 4)
  | fuel + 1, avoidICode => do
    let r ← below 100
    if r < 22 then return .para (← genBCh) (← genParaInlines {} (← below 4)) (← below 8)
    else if r < 32 then
      let setext ← chance 35
      let level ← (do if setext then pure (1 + (← below 2)) else pure (1 + (← below 6)))
      return .heading (← genBCh) level setext (← below 4) (← below 6) (← genParaInlines { noBreaks := true } (← below 3))
    else if r < 38 then return .thematic (← genBCh) (← below 3) (← below 3) (← chance 40)
    else if r < 45 then
      if avoidICode then return .para (← genBCh) (← genParaInlines {} (← below 2)) (← below 4)
      else return .icode (← genLines true (1 + (← below 3)))
    else if r < 55 then
      let tilde ← chance 40
      let len ← below 3
      let lines ← genLines false (← below 4)
      let lines := if tilde then lines else lines
      return .fcode (← genBCh) tilde len (← below 3) (← below 4) (← genInfo) (← below 3)
        (fixFenceLines (if tilde then 126 else 96) (len + 3) lines)
    else if r < 67 then
      let n ← below 3
      let mut kids : List Block := []
      let mut prev := 0
      for _ in [0:n + 1] do
        let b ← genBlock fuel (prev == 5 || prev == 8 || prev == 9)
        kids := kids ++ [b]
        prev := kindOf b
      return .quote (← genBCh) (← chance 30) kids
    else if r < 92 then
      let tight ← chance 50
      let nItems ← below 3
      let mut items : List Block := []
      for _ in [0:nItems + 1] do
        let firstP := Block.para (← genBCh) (← genParaInlines {} (← below 2)) (← below 8)
        let cand ← genBlock fuel true
        let first := if (← chance 25) && firstInItemOK cand then cand else firstP
        let mut kids : List Block := [first]
        let mut prev := kindOf first
        let extra ← below 3
        for _ in [0:extra] do
          if tight then
            if prev == 7 || prev == 8 || prev == 9 || prev == 5 then pure ()
            else
              let b ← genBlock fuel true
              if canAbut prev b then
                kids := kids ++ [b]
                prev := kindOf b
          else
            let b ← genBlock fuel (prev == 5 || prev == 8 || prev == 9)
            kids := kids ++ [b]
            prev := kindOf b
        items := items ++ [.item kids]
      let items2 := if !tight && !looseWitness items then items ++ [.item [.para {} [.text [⟨122, .lit⟩]] 0]] else items
      if ← chance 55 then return .blist (← genBCh) (← below 3) (← below 4) tight items2
      else
        let start ← pickL [1, 1, 1, 0, 2, 7, 10, 99, 123456780]
        return .olist (← genBCh) start (← below 4) (← chance 50) (← below 4) tight items2
    else return .html (← pickL htmlSamples)

def genDocM (size : Nat) : G Doc := do
  let n := 1 + size / 3
  let mut bs : List Block := []
  let mut prev := 0
  for _ in [0:n] do
    let b ← genBlock (min 3 (1 + size / 4)) (prev == 5 || prev == 8 || prev == 9)
    bs := bs ++ [b]
    prev := kindOf b
  -- the collected reference definitions go somewhere at top level, possibly inside a block quote
  let st ← get
  let bs2 ← (do
    if st.defs.isEmpty then pure bs
    else
      let k ← below (st.defs.length + 1)
      let d1 := st.defs.take k
      let d2 := st.defs.drop k
      let wrapQ (ds : List RefDef) : G (List Block) := do
        if ds.isEmpty then pure []
        else if ← chance 25 then pure [Block.quote (← genBCh) (← chance 30) [.refdefs ds]]
        else pure [Block.refdefs ds]
      let b1 ← wrapQ d1
      let b2 ← wrapQ d2
      let pos ← below (bs.length + 1)
      pure (bs.take pos ++ b1 ++ bs.drop pos ++ b2))
  let fin ← chance 70
  let tm ← below 3
  let tq ← below 3
  let tl ← below 3
  return { blocks := bs2, finalNewline := fin, tabMode := tm, tabQuote := tq, tabQuoteD := tq, tabList := tl }

def genOnce (seed size : Nat) : Doc :=
  (genDocM size |>.run { s := UInt64.ofNat (seed * 2654435761 + size) }).1

def fallbackDoc : Doc := { blocks := [.para {} [.text [⟨97, .lit⟩]] 0] }

/-- `gen seed size`: the first well-formed document among a few derived seeds (the generators aim at
    well-formed trees by construction; `wellFormed` is the arbiter) -/
def gen (seed size : Nat) : Doc :=
  let rec go : Nat → Nat → Doc
    | 0, _ => fallbackDoc
    | k + 1, s =>
      let d := genOnce s size
      if wellFormed d then d else go k (s + 1000003)
  go 8 seed

end GM.Spec.CM
