/-
  GM.Spec.CMFrag — the FRAGMENT of CommonMark documents for which conformance of the goldmark model is PROVED
  (GM.Props.C02Frag.fragment_conforms), written from the CommonMark 0.31.2 text like GM.Spec.CommonMark, and
  related to that model by `embed` (`expectedF d = expected (embed d)` is proved, `spellF d = spell (embed d)`
  for non-empty documents without extra blank lines is proved too — GM.Proof.CMFragSpec). Core Lean only.

  A fragment document is a sequence of PARAGRAPHS (4.8). A paragraph is a non-empty sequence of lines; a line
  is a non-empty run of printable ASCII characters, each with one of the spellings the specification licenses
  (2.4 backslash escapes, 2.5 entity and numeric character references — `GM.Spec.CM.TChar`), such that
    * the first character is an ASCII letter written literally (so the line cannot start any other block: 4.1–4.6,
      5.1, 5.2 all need a first non-space character that is not a letter),
    * the last character is an ASCII letter or digit written literally (no trailing space or backslash: no hard
      line break 6.7, nothing for the paragraph's final white-space stripping 4.8 to remove),
    * no character is a literal `!` (it could start an image, 6.4); every character that could open or close an
      inline construct (`GM.Spec.CM.mustEscape`: backslash, ampersand, star, underscore, backtick, brackets,
      less-than, hash) is never written literally by `spellChar` anyway.
  Lines of one paragraph are joined by soft line breaks (6.8); paragraphs are separated by one or more blank
  lines (4.9); blank lines may precede the first paragraph and follow the last one; the source ends with a line
  ending.

  Prescribed HTML (4.8, 6.8, 6.9 and the reference renderer): every paragraph is `<p>` + its lines (characters
  HTML-escaped: `& < > "`) joined by a newline + `</p>` + newline.
-/
import GM.Spec.CommonMark
namespace GM.Spec.CMFrag
open GM GM.Spec.CM

/-- a line of text: characters with their spelling -/
abbrev FLine := List TChar

/-- one block of a fragment document -/
inductive FBlock where
  | para (lines : List FLine)
deriving Repr, Inhabited

/-- a block with the number of EXTRA blank lines in front of it (a block that is not the first one is always
    preceded by one blank line more) -/
structure FItem where
  gap : Nat := 0
  block : FBlock
deriving Repr, Inhabited

structure FDoc where
  items : List FItem
  /-- blank lines after the last block -/
  trail : Nat := 0
deriving Repr, Inhabited

/-! ### the fragment predicate (decidable) -/

/-- a character that may stand in a line -/
def charOK (t : TChar) : Bool := printable t.c && !(t.e == .lit && t.c == 33)

/-- first character: a literal letter -/
def firstOK (t : TChar) : Bool := isLetter t.c && t.e == .lit

/-- last character: a literal letter or digit -/
def lastOK (t : TChar) : Bool := isAlnumC t.c && t.e == .lit

def lineOK (l : FLine) : Bool :=
  match l.head?, l.getLast? with
  | some a, some z => firstOK a && lastOK z && l.all charOK
  | _, _ => false

def blockOK : FBlock → Bool
  | .para lines => !lines.isEmpty && lines.all lineOK

/-- `Frag d`: membership in the fragment -/
def fragB (d : FDoc) : Bool := d.items.all fun it => blockOK it.block

def Frag (d : FDoc) : Prop := fragB d = true

instance (d : FDoc) : Decidable (Frag d) := by unfold Frag; infer_instance

/-! ### Markdown source -/

def blanks (n : Nat) : Bytes := List.replicate n 10

/-- the source bytes of one line, with its line ending -/
def spellLine (l : FLine) : Bytes := escSpell l ++ [10]

def spellBlock : FBlock → Bytes
  | .para lines => lines.flatMap spellLine

/-- items from the `first`-th on -/
def spellItems (first : Bool) : List FItem → Bytes
  | [] => []
  | it :: rest => blanks (if first then it.gap else it.gap + 1) ++ spellBlock it.block ++ spellItems false rest

/-- the Markdown source of a fragment document -/
def spellF (d : FDoc) : Bytes := spellItems true d.items ++ blanks d.trail

/-! ### prescribed HTML -/

/-- lines joined by a newline -/
def joinNl : List Bytes → Bytes
  | [] => []
  | [l] => l
  | l :: rest => l ++ [10] ++ joinNl rest

def expBlock : FBlock → Bytes
  | .para lines => strBytes "<p>" ++ joinNl (lines.map fun l => escHtml (plain l)) ++ strBytes "</p>\n"

/-- the HTML the specification prescribes for a fragment document -/
def expectedF (d : FDoc) : Bytes := d.items.flatMap fun it => expBlock it.block

/-! ### the same document in the spec model GM.Spec.CommonMark -/

/-- text lines with soft breaks between them -/
def embedLines : List FLine → List Inline
  | [] => []
  | [l] => [.text l]
  | l :: rest => .text l :: .softBreak :: embedLines rest

def embedBlock : FBlock → Block
  | .para lines => .para {} (embedLines lines) 0

/-- the document of GM.Spec.CommonMark with the same blocks (its `spell` writes exactly one blank line between
    blocks, none in front and none behind) -/
def embed (d : FDoc) : Doc := { blocks := d.items.map fun it => embedBlock it.block }

/-- no extra blank lines anywhere: the documents whose source the spec model spells byte for byte -/
def noExtraBlanks (d : FDoc) : Bool := d.trail == 0 && d.items.all fun it => it.gap == 0

/-! ## stage 4: ATX headings and thematic breaks between the paragraphs

  Blocks are separated by at least one blank line (so a `---` line never stands directly under a paragraph, where
  it would be a setext heading underline, 4.3). An ATX heading (4.2) is 1–6 `#`, one space, a line of text as above
  (its last character is a literal letter or digit, so there is no closing sequence), prescribed HTML `<hN>`text`</hN>`.
  A thematic break (4.1) is three or more `*`, `-` or `_` without spaces, prescribed HTML `<hr />`. -/

inductive GBlock where
  | para (lines : List FLine)
  | heading (level : Nat) (text : FLine)
  | thematic (c : Nat) (n : Nat)                -- c % 3: 0 `*`, 1 `-`, 2 `_`; `n + 3` characters
deriving Repr, Inhabited

structure GItem where
  gap : Nat := 0
  block : GBlock
deriving Repr, Inhabited

structure GDoc where
  items : List GItem
  trail : Nat := 0
deriving Repr, Inhabited

def gblockOK : GBlock → Bool
  | .para lines => !lines.isEmpty && lines.all lineOK
  | .heading level text => decide (1 ≤ level) && decide (level ≤ 6) && lineOK text
  | .thematic _ _ => true

def gfragB (d : GDoc) : Bool := d.items.all fun it => gblockOK it.block

def GFrag (d : GDoc) : Prop := gfragB d = true

instance (d : GDoc) : Decidable (GFrag d) := by unfold GFrag; infer_instance

def spellGBlock : GBlock → Bytes
  | .para lines => lines.flatMap spellLine
  | .heading level text => List.replicate level 35 ++ [32] ++ escSpell text ++ [10]
  | .thematic c n => thematicLine c n false ++ [10]

def spellGItems (first : Bool) : List GItem → Bytes
  | [] => []
  | it :: rest => blanks (if first then it.gap else it.gap + 1) ++ spellGBlock it.block ++ spellGItems false rest

/-- the Markdown source of a stage-4 document -/
def spellG (d : GDoc) : Bytes := spellGItems true d.items ++ blanks d.trail

def expGBlock : GBlock → Bytes
  | .para lines => strBytes "<p>" ++ joinNl (lines.map fun l => escHtml (plain l)) ++ strBytes "</p>\n"
  | .heading level text =>
    strBytes "<h" ++ [UInt8.ofNat (48 + level)] ++ [62] ++ escHtml (plain text) ++ strBytes "</h" ++
      [UInt8.ofNat (48 + level)] ++ strBytes ">\n"
  | .thematic _ _ => strBytes "<hr />\n"

/-- the HTML the specification prescribes for a stage-4 document -/
def expectedG (d : GDoc) : Bytes := d.items.flatMap fun it => expGBlock it.block

def gembedBlock : GBlock → Block
  | .para lines => .para {} (embedLines lines) 0
  | .heading level text => .heading {} level false 0 0 [.text text]
  | .thematic c n => .thematic {} c n false

def gembed (d : GDoc) : Doc := { blocks := d.items.map fun it => gembedBlock it.block }

def gnoExtraBlanks (d : GDoc) : Bool := d.trail == 0 && d.items.all fun it => it.gap == 0

/-- a stage-1–3 document as a stage-4 document -/
def FDoc.toG (d : FDoc) : GDoc :=
  { items := d.items.map fun it => { gap := it.gap, block := match it.block with | .para ls => .para ls }, trail := d.trail }

/-! ## stage 5 (first part): fenced code blocks between the other blocks

  A fenced code block (4.5) is an opening fence of three or more backticks or tildes, directly followed by an
  optional info string (here: letters and digits only), the content lines, and a closing fence of the same
  characters and length, all without indentation and trailing spaces. A content line is any run of printable ASCII
  characters that is empty or starts with a character that is neither a space nor the fence character (so it cannot
  be a closing fence). Prescribed HTML: `<pre><code class="language-INFO">` (the attribute only when there is an
  info string), the content lines HTML-escaped, each with its line feed, `</code></pre>`. -/

inductive HBlock where
  | base (b : GBlock)
  | fcode (tilde : Bool) (n : Nat) (info : Bytes) (lines : List Bytes)
deriving Repr, Inhabited

structure HItem where
  gap : Nat := 0
  block : HBlock
deriving Repr, Inhabited

structure HDoc where
  items : List HItem
  trail : Nat := 0
deriving Repr, Inhabited

def fenceChar (tilde : Bool) : UInt8 := if tilde then 126 else 96

def codeLineOK (fc : UInt8) (l : Bytes) : Bool :=
  l.all printable && (match l.head? with | none => true | some c => c != 32 && c != fc)

def hblockOK : HBlock → Bool
  | .base b => gblockOK b
  | .fcode tilde _ info lines => info.all isAlnumC && lines.all (codeLineOK (fenceChar tilde))

def hfragB (d : HDoc) : Bool := d.items.all fun it => hblockOK it.block

def HFrag (d : HDoc) : Prop := hfragB d = true

instance (d : HDoc) : Decidable (HFrag d) := by unfold HFrag; infer_instance

def spellHBlock : HBlock → Bytes
  | .base b => spellGBlock b
  | .fcode tilde n info lines =>
    List.replicate (n + 3) (fenceChar tilde) ++ info ++ [10] ++ lines.flatMap (· ++ [10]) ++
      List.replicate (n + 3) (fenceChar tilde) ++ [10]

def spellHItems (first : Bool) : List HItem → Bytes
  | [] => []
  | it :: rest => blanks (if first then it.gap else it.gap + 1) ++ spellHBlock it.block ++ spellHItems false rest

/-- the Markdown source of a stage-5 document -/
def spellH (d : HDoc) : Bytes := spellHItems true d.items ++ blanks d.trail

def expHBlock : HBlock → Bytes
  | .base b => expGBlock b
  | .fcode _ _ info lines =>
    strBytes "<pre><code" ++ (if info.isEmpty then [] else strBytes " class=\"language-" ++ info ++ [34]) ++ [62] ++
      lines.flatMap (fun l => escHtml l ++ [10]) ++ strBytes "</code></pre>\n"

/-- the HTML the specification prescribes for a stage-5 document -/
def expectedH (d : HDoc) : Bytes := d.items.flatMap fun it => expHBlock it.block

def hembedBlock : HBlock → Block
  | .base b => gembedBlock b
  | .fcode tilde n info lines => .fcode {} tilde n 0 0 info 0 lines

def hembed (d : HDoc) : Doc := { blocks := d.items.map fun it => hembedBlock it.block }

def hnoExtraBlanks (d : HDoc) : Bool := d.trail == 0 && d.items.all fun it => it.gap == 0

/-! ## stage 6: blocks directly behind each other, where the specification allows it

  `sep` = the number of blank lines in front of a block (for the first block: leading blank lines). `sep = 0` for a
  later block means that it follows the previous block without a blank line. That is allowed (4.1, 4.2, 4.5: a
  thematic break, an ATX heading and a closed fenced code block end on their own line; 4.8 / 4.1 / 4.2 / 4.5: an ATX
  heading, a fenced code block and a thematic break can interrupt a paragraph) — except behind a paragraph for a
  further text line (it would be a continuation line, 4.8) and for a thematic break made of `-` (it would be a
  setext heading underline, 4.3). -/

structure KItem where
  sep : Nat := 0
  block : HBlock
deriving Repr, Inhabited

structure KDoc where
  items : List KItem
  trail : Nat := 0
deriving Repr, Inhabited

/-- may `b` follow `a` without a blank line? -/
def kabutOK (a b : HBlock) : Bool :=
  match a with
  | .base (.para _) =>
    (match b with
     | .base (.heading _ _) => true
     | .base (.thematic c _) => c % 3 != 1
     | .fcode _ _ _ _ => true
     | .base (.para _) => false)
  | _ => true

def ksepsOK : Option HBlock → List KItem → Bool
  | _, [] => true
  | none, it :: rest => ksepsOK (some it.block) rest
  | some a, it :: rest => (it.sep != 0 || kabutOK a it.block) && ksepsOK (some it.block) rest

def kfragB (d : KDoc) : Bool := (d.items.all fun it => hblockOK it.block) && ksepsOK none d.items

def KFrag (d : KDoc) : Prop := kfragB d = true

instance (d : KDoc) : Decidable (KFrag d) := by unfold KFrag; infer_instance

/-- the Markdown source of a stage-6 document -/
def spellK (d : KDoc) : Bytes := (d.items.flatMap fun it => blanks it.sep ++ spellHBlock it.block) ++ blanks d.trail

/-- the HTML the specification prescribes for a stage-6 document -/
def expectedK (d : KDoc) : Bytes := d.items.flatMap fun it => expHBlock it.block

/-- the block in the spec model, with the choice "no blank line in front" -/
def kembedBlock (abut : Bool) : HBlock → Block
  | .base (.para lines) => .para { abut := abut } (embedLines lines) 0
  | .base (.heading level text) => .heading { abut := abut } level false 0 0 [.text text]
  | .base (.thematic c n) => .thematic { abut := abut } c n false
  | .fcode tilde n info lines => .fcode { abut := abut } tilde n 0 0 info 0 lines

def kembed (d : KDoc) : Doc := { blocks := d.items.map fun it => kembedBlock (it.sep == 0) it.block }

/-- the documents whose source the spec model spells byte for byte: nothing in front, nothing behind, at most one
    blank line between two blocks -/
def knoExtraBlanks (d : KDoc) : Bool :=
  d.trail == 0 && (match d.items with
    | [] => true
    | it :: rest => it.sep == 0 && rest.all fun x => x.sep ≤ 1)

end GM.Spec.CMFrag
