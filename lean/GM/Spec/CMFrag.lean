/-
  GM.Spec.CMFrag — the FRAGMENT of CommonMark documents for which conformance of the goldmark model is PROVED
  (GM.Props.C02Frag.fragment_conforms), written from the CommonMark 0.31.2 text like GM.Spec.CommonMark, and
  related to that model by `embed` (`expectedF d = expected (embed d)` is proved, `spellF d = spell (embed d)`
  for non-empty documents without extra blank lines is proved too — GM.Proof.CMFragSpec). Core Lean only.

  A fragment document is a sequence of PARAGRAPHS (4.8). A paragraph is a non-empty sequence of lines; a line
  is a non-empty run of printable ASCII characters, each with one of the spellings the specification licenses
  (2.4 backslash escapes, 2.5 entity and numeric character references — `GM.Spec.CM.TChar`), such that
    * the first character is an ASCII letter written literally (so the line cannot start any other block: 4.1–4.6,
      5.1, 5.2 all need a first non-space character that is not a letter),
    * the last character is an ASCII letter or digit written literally (no trailing space or backslash: no hard
      line break 6.7, nothing for the paragraph's final white-space stripping 4.8 to remove),
    * no character is a literal `!` (it could start an image, 6.4); every character that could open or close an
      inline construct (`GM.Spec.CM.mustEscape`: backslash, ampersand, star, underscore, backtick, brackets,
      less-than, hash) is never written literally by `spellChar` anyway.
  Lines of one paragraph are joined by soft line breaks (6.8); paragraphs are separated by one or more blank
  lines (4.9); blank lines may precede the first paragraph and follow the last one; the source ends with a line
  ending.

  Prescribed HTML (4.8, 6.8, 6.9 and the reference renderer): every paragraph is `<p>` + its lines (characters
  HTML-escaped: `& < > "`) joined by a newline + `</p>` + newline.
-/
import GM.Spec.CommonMark
namespace GM.Spec.CMFrag
open GM GM.Spec.CM

/-- a line of text: characters with their spelling -/
abbrev FLine := List TChar

/-- one block of a fragment document -/
inductive FBlock where
  | para (lines : List FLine)
deriving Repr, Inhabited

/-- a block with the number of EXTRA blank lines in front of it (a block that is not the first one is always
    preceded by one blank line more) -/
structure FItem where
  gap : Nat := 0
  block : FBlock
deriving Repr, Inhabited

structure FDoc where
  items : List FItem
  /-- blank lines after the last block -/
  trail : Nat := 0
deriving Repr, Inhabited

/-! ### the fragment predicate (decidable) -/

/-- a character that may stand in a line -/
def charOK (t : TChar) : Bool := printable t.c && !(t.e == .lit && t.c == 33)

/-- first character: a literal letter -/
def firstOK (t : TChar) : Bool := isLetter t.c && t.e == .lit

/-- last character: a literal letter or digit -/
def lastOK (t : TChar) : Bool := isAlnumC t.c && t.e == .lit

def lineOK (l : FLine) : Bool :=
  match l.head?, l.getLast? with
  | some a, some z => firstOK a && lastOK z && l.all charOK
  | _, _ => false

def blockOK : FBlock → Bool
  | .para lines => !lines.isEmpty && lines.all lineOK

/-- `Frag d`: membership in the fragment -/
def fragB (d : FDoc) : Bool := d.items.all fun it => blockOK it.block

def Frag (d : FDoc) : Prop := fragB d = true

instance (d : FDoc) : Decidable (Frag d) := by unfold Frag; infer_instance

/-! ### Markdown source -/

def blanks (n : Nat) : Bytes := List.replicate n 10

/-- the source bytes of one line, with its line ending -/
def spellLine (l : FLine) : Bytes := escSpell l ++ [10]

def spellBlock : FBlock → Bytes
  | .para lines => lines.flatMap spellLine

/-- items from the `first`-th on -/
def spellItems (first : Bool) : List FItem → Bytes
  | [] => []
  | it :: rest => blanks (if first then it.gap else it.gap + 1) ++ spellBlock it.block ++ spellItems false rest

/-- the Markdown source of a fragment document -/
def spellF (d : FDoc) : Bytes := spellItems true d.items ++ blanks d.trail

/-! ### prescribed HTML -/

/-- lines joined by a newline -/
def joinNl : List Bytes → Bytes
  | [] => []
  | [l] => l
  | l :: rest => l ++ [10] ++ joinNl rest

def expBlock : FBlock → Bytes
  | .para lines => strBytes "<p>" ++ joinNl (lines.map fun l => escHtml (plain l)) ++ strBytes "</p>\n"

/-- the HTML the specification prescribes for a fragment document -/
def expectedF (d : FDoc) : Bytes := d.items.flatMap fun it => expBlock it.block

/-! ### the same document in the spec model GM.Spec.CommonMark -/

/-- text lines with soft breaks between them -/
def embedLines : List FLine → List Inline
  | [] => []
  | [l] => [.text l]
  | l :: rest => .text l :: .softBreak :: embedLines rest

def embedBlock : FBlock → Block
  | .para lines => .para {} (embedLines lines) 0

/-- the document of GM.Spec.CommonMark with the same blocks (its `spell` writes exactly one blank line between
    blocks, none in front and none behind) -/
def embed (d : FDoc) : Doc := { blocks := d.items.map fun it => embedBlock it.block }

/-- no extra blank lines anywhere: the documents whose source the spec model spells byte for byte -/
def noExtraBlanks (d : FDoc) : Bool := d.trail == 0 && d.items.all fun it => it.gap == 0

/-! ## stage 4: ATX headings and thematic breaks between the paragraphs

  Blocks are separated by at least one blank line (so a `---` line never stands directly under a paragraph, where
  it would be a setext heading underline, 4.3). An ATX heading (4.2) is 1–6 `#`, one space, a line of text as above
  (its last character is a literal letter or digit, so there is no closing sequence), prescribed HTML `<hN>`text`</hN>`.
  A thematic break (4.1) is three or more `*`, `-` or `_` without spaces, prescribed HTML `<hr />`. -/

inductive GBlock where
  | para (lines : List FLine)
  | heading (level : Nat) (text : FLine)
  | thematic (c : Nat) (n : Nat)                -- c % 3: 0 `*`, 1 `-`, 2 `_`; `n + 3` characters
deriving Repr, Inhabited

structure GItem where
  gap : Nat := 0
  block : GBlock
deriving Repr, Inhabited

structure GDoc where
  items : List GItem
  trail : Nat := 0
deriving Repr, Inhabited

def gblockOK : GBlock → Bool
  | .para lines => !lines.isEmpty && lines.all lineOK
  | .heading level text => decide (1 ≤ level) && decide (level ≤ 6) && lineOK text
  | .thematic _ _ => true

def gfragB (d : GDoc) : Bool := d.items.all fun it => gblockOK it.block

def GFrag (d : GDoc) : Prop := gfragB d = true

instance (d : GDoc) : Decidable (GFrag d) := by unfold GFrag; infer_instance

def spellGBlock : GBlock → Bytes
  | .para lines => lines.flatMap spellLine
  | .heading level text => List.replicate level 35 ++ [32] ++ escSpell text ++ [10]
  | .thematic c n => thematicLine c n false ++ [10]

def spellGItems (first : Bool) : List GItem → Bytes
  | [] => []
  | it :: rest => blanks (if first then it.gap else it.gap + 1) ++ spellGBlock it.block ++ spellGItems false rest

/-- the Markdown source of a stage-4 document -/
def spellG (d : GDoc) : Bytes := spellGItems true d.items ++ blanks d.trail

def expGBlock : GBlock → Bytes
  | .para lines => strBytes "<p>" ++ joinNl (lines.map fun l => escHtml (plain l)) ++ strBytes "</p>\n"
  | .heading level text =>
    strBytes "<h" ++ [UInt8.ofNat (48 + level)] ++ [62] ++ escHtml (plain text) ++ strBytes "</h" ++
      [UInt8.ofNat (48 + level)] ++ strBytes ">\n"
  | .thematic _ _ => strBytes "<hr />\n"

/-- the HTML the specification prescribes for a stage-4 document -/
def expectedG (d : GDoc) : Bytes := d.items.flatMap fun it => expGBlock it.block

def gembedBlock : GBlock → Block
  | .para lines => .para {} (embedLines lines) 0
  | .heading level text => .heading {} level false 0 0 [.text text]
  | .thematic c n => .thematic {} c n false

def gembed (d : GDoc) : Doc := { blocks := d.items.map fun it => gembedBlock it.block }

def gnoExtraBlanks (d : GDoc) : Bool := d.trail == 0 && d.items.all fun it => it.gap == 0

/-- a stage-1–3 document as a stage-4 document -/
def FDoc.toG (d : FDoc) : GDoc :=
  { items := d.items.map fun it => { gap := it.gap, block := match it.block with | .para ls => .para ls }, trail := d.trail }

/-! ## stage 5 (first part): fenced code blocks between the other blocks

  A fenced code block (4.5) is an opening fence of three or more backticks or tildes, directly followed by an
  optional info string (here: letters and digits only), the content lines, and a closing fence of the same
  characters and length, all without indentation and trailing spaces. A content line is any run of printable ASCII
  characters that is empty or starts with a character that is neither a space nor the fence character (so it cannot
  be a closing fence). Prescribed HTML: `<pre><code class="language-INFO">` (the attribute only when there is an
  info string), the content lines HTML-escaped, each with its line feed, `</code></pre>`. -/

inductive HBlock where
  | base (b : GBlock)
  | fcode (tilde : Bool) (n : Nat) (info : Bytes) (lines : List Bytes)
deriving Repr, Inhabited

structure HItem where
  gap : Nat := 0
  block : HBlock
deriving Repr, Inhabited

structure HDoc where
  items : List HItem
  trail : Nat := 0
deriving Repr, Inhabited

def fenceChar (tilde : Bool) : UInt8 := if tilde then 126 else 96

def codeLineOK (fc : UInt8) (l : Bytes) : Bool :=
  l.all printable && (match l.head? with | none => true | some c => c != 32 && c != fc)

def hblockOK : HBlock → Bool
  | .base b => gblockOK b
  | .fcode tilde _ info lines => info.all isAlnumC && lines.all (codeLineOK (fenceChar tilde))

def hfragB (d : HDoc) : Bool := d.items.all fun it => hblockOK it.block

def HFrag (d : HDoc) : Prop := hfragB d = true

instance (d : HDoc) : Decidable (HFrag d) := by unfold HFrag; infer_instance

def spellHBlock : HBlock → Bytes
  | .base b => spellGBlock b
  | .fcode tilde n info lines =>
    List.replicate (n + 3) (fenceChar tilde) ++ info ++ [10] ++ lines.flatMap (· ++ [10]) ++
      List.replicate (n + 3) (fenceChar tilde) ++ [10]

def spellHItems (first : Bool) : List HItem → Bytes
  | [] => []
  | it :: rest => blanks (if first then it.gap else it.gap + 1) ++ spellHBlock it.block ++ spellHItems false rest

/-- the Markdown source of a stage-5 document -/
def spellH (d : HDoc) : Bytes := spellHItems true d.items ++ blanks d.trail

def expHBlock : HBlock → Bytes
  | .base b => expGBlock b
  | .fcode _ _ info lines =>
    strBytes "<pre><code" ++ (if info.isEmpty then [] else strBytes " class=\"language-" ++ info ++ [34]) ++ [62] ++
      lines.flatMap (fun l => escHtml l ++ [10]) ++ strBytes "</code></pre>\n"

/-- the HTML the specification prescribes for a stage-5 document -/
def expectedH (d : HDoc) : Bytes := d.items.flatMap fun it => expHBlock it.block

def hembedBlock : HBlock → Block
  | .base b => gembedBlock b
  | .fcode tilde n info lines => .fcode {} tilde n 0 0 info 0 lines

def hembed (d : HDoc) : Doc := { blocks := d.items.map fun it => hembedBlock it.block }

def hnoExtraBlanks (d : HDoc) : Bool := d.trail == 0 && d.items.all fun it => it.gap == 0

/-! ## stage 6: blocks directly behind each other, where the specification allows it

  `sep` = the number of blank lines in front of a block (for the first block: leading blank lines). `sep = 0` for a
  later block means that it follows the previous block without a blank line. That is allowed (4.1, 4.2, 4.5: a
  thematic break, an ATX heading and a closed fenced code block end on their own line; 4.8 / 4.1 / 4.2 / 4.5: an ATX
  heading, a fenced code block and a thematic break can interrupt a paragraph) — except behind a paragraph for a
  further text line (it would be a continuation line, 4.8) and for a thematic break made of `-` (it would be a
  setext heading underline, 4.3). -/

structure KItem where
  sep : Nat := 0
  block : HBlock
deriving Repr, Inhabited

structure KDoc where
  items : List KItem
  trail : Nat := 0
deriving Repr, Inhabited

/-- may `b` follow `a` without a blank line? -/
def kabutOK (a b : HBlock) : Bool :=
  match a with
  | .base (.para _) =>
    (match b with
     | .base (.heading _ _) => true
     | .base (.thematic c _) => c % 3 != 1
     | .fcode _ _ _ _ => true
     | .base (.para _) => false)
  | _ => true

def ksepsOK : Option HBlock → List KItem → Bool
  | _, [] => true
  | none, it :: rest => ksepsOK (some it.block) rest
  | some a, it :: rest => (it.sep != 0 || kabutOK a it.block) && ksepsOK (some it.block) rest

def kfragB (d : KDoc) : Bool := (d.items.all fun it => hblockOK it.block) && ksepsOK none d.items

def KFrag (d : KDoc) : Prop := kfragB d = true

instance (d : KDoc) : Decidable (KFrag d) := by unfold KFrag; infer_instance

/-- the Markdown source of a stage-6 document -/
def spellK (d : KDoc) : Bytes := (d.items.flatMap fun it => blanks it.sep ++ spellHBlock it.block) ++ blanks d.trail

/-- the HTML the specification prescribes for a stage-6 document -/
def expectedK (d : KDoc) : Bytes := d.items.flatMap fun it => expHBlock it.block

/-- the block in the spec model, with the choice "no blank line in front" -/
def kembedBlock (abut : Bool) : HBlock → Block
  | .base (.para lines) => .para { abut := abut } (embedLines lines) 0
  | .base (.heading level text) => .heading { abut := abut } level false 0 0 [.text text]
  | .base (.thematic c n) => .thematic { abut := abut } c n false
  | .fcode tilde n info lines => .fcode { abut := abut } tilde n 0 0 info 0 lines

def kembed (d : KDoc) : Doc := { blocks := d.items.map fun it => kembedBlock (it.sep == 0) it.block }

/-- the documents whose source the spec model spells byte for byte: nothing in front, nothing behind, at most one
    blank line between two blocks -/
def knoExtraBlanks (d : KDoc) : Bool :=
  d.trail == 0 && (match d.items with
    | [] => true
    | it :: rest => it.sep == 0 && rest.all fun x => x.sep ≤ 1)

/-! ## stage 7: a missing final line feed

  The same documents, written WITHOUT the line feed of their last line (2.1: a line ends with a line ending or with
  the end of the file). The document must end with a block (`trail = 0`, at least one block). The prescribed HTML is
  unchanged. -/

def kfragEB (d : KDoc) : Bool := kfragB d && d.trail == 0 && !d.items.isEmpty

def KFragE (d : KDoc) : Prop := kfragEB d = true

instance (d : KDoc) : Decidable (KFragE d) := by unfold KFragE; infer_instance

/-- the Markdown source without the final line feed -/
def spellKE (d : KDoc) : Bytes := (spellK d).dropLast

/-- the spec-model document with the choice "no final line ending" -/
def kembedE (d : KDoc) : Doc := { kembed d with finalNewline := false }

/-! ## stage 8: code spans inside the text lines (documents of paragraphs only)

  A line is a sequence of ATOMS: runs of text as in stages 1–3 (every character in any licensed spelling) and code
  spans (6.1) in between. A code span is written with ONE backtick on each side; its content is a non-empty run of
  ASCII letters and digits (so: no backtick inside, no space to strip, nothing to escape). Text and code spans
  alternate, the line begins and ends with text: its first character is a literal letter, its last one a literal
  letter or digit (as in `lineOK`). No backtick is ever written literally inside text (`mustEscape`), so the only
  backtick strings of a line are the delimiters of its code spans, each of length one (a backslash-escaped backtick
  directly in front of an opening delimiter is consumed by the escape, 2.4, before the delimiter is looked at).
  Prescribed HTML: `<code>` + the content + `</code>` in place of the code span. -/

inductive RAtom where
  | txt (cs : List TChar)       -- text, every character in any licensed spelling
  | code (content : Bytes)      -- a code span
deriving Repr, Inhabited

abbrev RLine := List RAtom

/-- a paragraph with the number of EXTRA blank lines in front of it (as `FItem`) -/
structure RItem where
  gap : Nat := 0
  lines : List RLine
deriving Repr, Inhabited

structure RDoc where
  items : List RItem
  trail : Nat := 0
deriving Repr, Inhabited

def RAtom.isTxt : RAtom → Bool
  | .txt _ => true
  | .code _ => false

def ratomOK : RAtom → Bool
  | .txt cs => !cs.isEmpty && cs.all charOK
  | .code content => !content.isEmpty && content.all isAlnumC

/-- text and code spans alternate -/
def ralternating : List RAtom → Bool
  | a :: b :: rest => (a.isTxt != b.isTxt) && ralternating (b :: rest)
  | _ => true

/-- the first atom is text that begins with a literal letter -/
def rfirstOK (l : RLine) : Bool :=
  match l with
  | .txt (t :: _) :: _ => firstOK t
  | _ => false

/-- the last atom is text that ends with a literal letter or digit -/
def rlastOK (l : RLine) : Bool :=
  match l.getLast? with
  | some (.txt cs) => (match cs.getLast? with | some z => lastOK z | none => false)
  | _ => false

def rlineOK (l : RLine) : Bool := ralternating l && rfirstOK l && rlastOK l && l.all ratomOK

def ritemOK (it : RItem) : Bool := !it.lines.isEmpty && it.lines.all rlineOK

def rfragB (d : RDoc) : Bool := d.items.all ritemOK

def RFrag (d : RDoc) : Prop := rfragB d = true

instance (d : RDoc) : Decidable (RFrag d) := by unfold RFrag; infer_instance

def spellRAtom : RAtom → Bytes
  | .txt cs => escSpell cs
  | .code content => [96] ++ content ++ [96]

/-- the source bytes of one line, without its line ending -/
def spellRLine (l : RLine) : Bytes := l.flatMap spellRAtom

def spellRItems (first : Bool) : List RItem → Bytes
  | [] => []
  | it :: rest =>
    blanks (if first then it.gap else it.gap + 1) ++ it.lines.flatMap (fun l => spellRLine l ++ [10]) ++
      spellRItems false rest

/-- the Markdown source of a stage-8 document -/
def spellR (d : RDoc) : Bytes := spellRItems true d.items ++ blanks d.trail

def expRAtom : RAtom → Bytes
  | .txt cs => escHtml (plain cs)
  | .code content => strBytes "<code>" ++ escHtml content ++ strBytes "</code>"

def expRLine (l : RLine) : Bytes := l.flatMap expRAtom

def expRItem (it : RItem) : Bytes := strBytes "<p>" ++ joinNl (it.lines.map expRLine) ++ strBytes "</p>\n"

/-- the HTML the specification prescribes for a stage-8 document -/
def expectedR (d : RDoc) : Bytes := d.items.flatMap expRItem

def rembedAtom : RAtom → Inline
  | .txt cs => .text cs
  | .code content => .code content 0 false

/-- the atoms of the lines with soft breaks between the lines -/
def rembedLines : List RLine → List Inline
  | [] => []
  | [l] => l.map rembedAtom
  | l :: rest => l.map rembedAtom ++ .softBreak :: rembedLines rest

def rembed (d : RDoc) : Doc := { blocks := d.items.map fun it => .para {} (rembedLines it.lines) 0 }

def rnoExtraBlanks (d : RDoc) : Bool := d.trail == 0 && d.items.all fun it => it.gap == 0

/-! ## stage 9: hard line breaks written with a backslash (documents of paragraphs only)

  The documents of stages 1–3, where a line that is NOT the last line of its paragraph may be followed by a HARD LINE
  BREAK (6.7) written as one backslash directly in front of the line ending: `ab\` LF `cd`. The text of every line
  obeys the line conditions of stages 1–3 (`lineOK`): in particular its last character is a letter or digit written
  literally, so the backslash of the break follows a byte that is not a backslash (it cannot be read as the second
  half of a backslash escape, 2.4) and not a space. The last line of a paragraph is never hard (a backslash at the
  end of a paragraph is a literal backslash, 6.7).
  Prescribed HTML (6.7 and the reference renderer): `<br />` + newline in place of the newline behind a hard line. -/

/-- a line of text and whether a hard line break (a backslash) follows it -/
structure BLine where
  cs : List TChar
  hard : Bool := false
deriving Repr, Inhabited

/-- a paragraph with the number of EXTRA blank lines in front of it (as `FItem`) -/
structure BItem where
  gap : Nat := 0
  lines : List BLine
deriving Repr, Inhabited

structure BDoc where
  items : List BItem
  trail : Nat := 0
deriving Repr, Inhabited

/-- the last line of a paragraph is not hard -/
def blastSoft (ls : List BLine) : Bool :=
  match ls.getLast? with
  | some z => !z.hard
  | none => false

def bitemOK (it : BItem) : Bool := !it.lines.isEmpty && (it.lines.all fun x => lineOK x.cs) && blastSoft it.lines

def bfragB (d : BDoc) : Bool := d.items.all bitemOK

def BFrag (d : BDoc) : Prop := bfragB d = true

instance (d : BDoc) : Decidable (BFrag d) := by unfold BFrag; infer_instance

/-- the source bytes of one line, without its line ending: the backslash of the break directly behind the text -/
def spellBLine (x : BLine) : Bytes := if x.hard then escSpell x.cs ++ [92] else escSpell x.cs

def spellBItems (first : Bool) : List BItem → Bytes
  | [] => []
  | it :: rest =>
    blanks (if first then it.gap else it.gap + 1) ++ it.lines.flatMap (fun x => spellBLine x ++ [10]) ++
      spellBItems false rest

/-- the Markdown source of a stage-9 document -/
def spellBD (d : BDoc) : Bytes := spellBItems true d.items ++ blanks d.trail

/-- the HTML between `<p>` and `</p>`: `<br />` + newline behind a hard line, a newline behind another line that is
    not the last one -/
def expBLines : List BLine → Bytes
  | [] => []
  | [x] => escHtml (plain x.cs)
  | x :: rest => escHtml (plain x.cs) ++ (if x.hard then strBytes "<br />\n" else [10]) ++ expBLines rest

def expBItem (it : BItem) : Bytes := strBytes "<p>" ++ expBLines it.lines ++ strBytes "</p>\n"

/-- the HTML the specification prescribes for a stage-9 document -/
def expectedBD (d : BDoc) : Bytes := d.items.flatMap expBItem

/-- text lines with a hard break (backslash spelling) or a soft break between them -/
def bembedLines : List BLine → List Inline
  | [] => []
  | [x] => [.text x.cs]
  | x :: rest => .text x.cs :: (if x.hard then .hardBreak true 0 else .softBreak) :: bembedLines rest

def bembed (d : BDoc) : Doc := { blocks := d.items.map fun it => .para {} (bembedLines it.lines) 0 }

def bnoExtraBlanks (d : BDoc) : Bool := d.trail == 0 && d.items.all fun it => it.gap == 0

/-! ## stage 10: a whole stage-6 document inside ONE block quote

  Every line of a stage-6 document gets the block-quote marker `>` and one space in front (5.1: "a block quote marker
  consists of 0–3 spaces of indentation, plus the character `>` together with a following space"), the blank lines
  too (so no line is a lazy continuation line and the quote never ends before the end of the file). The document has
  at least one block, and its source contains none of the bytes that could start a list item (`-`, `*`, `+`, a digit),
  a link label (`[`), nor a tab or a carriage return. Prescribed HTML (5.1 and the reference renderer): `<blockquote>`,
  a line feed, the HTML of the contents, `</blockquote>`, a line feed. -/

/-- `"> "` in front of every line -/
def quoteLines : Bytes → Bool → Bytes
  | [], _ => []
  | c :: cs, atStart => (if atStart then [62, 32] else []) ++ c :: quoteLines cs (c == 10)

/-- bytes that could start a list item, a link label, or are tab / CR: excluded from quoted documents -/
def qcleanByte (c : UInt8) : Bool :=
  c != 45 && c != 42 && c != 43 && !(48 ≤ c && c ≤ 57) && c != 91 && c != 9 && c != 13

def qfragB (d : KDoc) : Bool := kfragB d && !d.items.isEmpty && (spellK d).all qcleanByte

def QFrag (d : KDoc) : Prop := qfragB d = true

instance (d : KDoc) : Decidable (QFrag d) := by unfold QFrag; infer_instance

/-- the Markdown source of a stage-10 document -/
def spellQ (d : KDoc) : Bytes := quoteLines (spellK d) true

/-- the HTML the specification prescribes for a stage-10 document -/
def expectedQ (d : KDoc) : Bytes := strBytes "<blockquote>\n" ++ expectedK d ++ strBytes "</blockquote>\n"

/-- the spec-model document: one block quote (marker followed by a space) around the stage-6 blocks -/
def qembed (d : KDoc) : Doc := { blocks := [.quote {} false (kembed d).blocks] }

/-! ## stage 10 without the final line feed

  The quoted documents of stage 10 whose contents are a stage-7 document: `"> "` in front of every line of a stage-6
  document that ends with a block, and the line feed of the last line left out. Prescribed HTML unchanged. -/

/-- the Markdown source of a stage-10 document without the final line feed -/
def spellQE (d : KDoc) : Bytes := quoteLines (spellKE d) true

def qfragEB (d : KDoc) : Bool := kfragEB d && (spellK d).all qcleanByte

def QFragE (d : KDoc) : Prop := qfragEB d = true

instance (d : KDoc) : Decidable (QFragE d) := by unfold QFragE; infer_instance

/-! ## stage 11: simple emphasis next to code spans (documents of paragraphs only)

  The lines of stage 8 with two further kinds of atoms between the runs of text: emphasis `*c*` and strong emphasis
  `**c**` (6.2), always written with `*`; the content `c` is a non-empty run of ASCII letters and digits. A delimiter
  run that is followed by a letter or digit is left-flanking whatever precedes it, one that is preceded by a letter or
  digit is right-flanking whatever follows it; for `*` that suffices to open / to close emphasis (6.2 rules 1, 3, 5,
  7). Text atoms and the other atoms alternate and the line begins and ends with text, so two delimiter runs never
  touch, and a `*` is never written literally inside text (`mustEscape`): the only delimiter runs of a line are those
  of its atoms, each closing run matched by the run of the same length directly in front of it (the lengths add up to
  2 or 4, never to a multiple of 3: 6.2 rules 9, 10).
  Prescribed HTML: `<em>` + content + `</em>`, `<strong>` + content + `</strong>`. -/

inductive EAtomS where
  | txt (cs : List TChar)       -- text, every character in any licensed spelling
  | code (content : Bytes)      -- a code span
  | em (content : Bytes)        -- `*content*`
  | strong (content : Bytes)    -- `**content**`
deriving Repr, Inhabited

abbrev ELine := List EAtomS

/-- a paragraph with the number of EXTRA blank lines in front of it (as `FItem`) -/
structure EItem where
  gap : Nat := 0
  lines : List ELine
deriving Repr, Inhabited

structure EDoc where
  items : List EItem
  trail : Nat := 0
deriving Repr, Inhabited

def EAtomS.isTxt : EAtomS → Bool
  | .txt _ => true
  | _ => false

def eatomOKS : EAtomS → Bool
  | .txt cs => !cs.isEmpty && cs.all charOK
  | .code content => !content.isEmpty && content.all isAlnumC
  | .em content => !content.isEmpty && content.all isAlnumC
  | .strong content => !content.isEmpty && content.all isAlnumC

/-- text atoms and the other atoms alternate -/
def ealternatingS : List EAtomS → Bool
  | a :: b :: rest => (a.isTxt != b.isTxt) && ealternatingS (b :: rest)
  | _ => true

/-- the first atom is text that begins with a literal letter -/
def efirstOKS (l : ELine) : Bool :=
  match l with
  | .txt (t :: _) :: _ => firstOK t
  | _ => false

/-- the last atom is text that ends with a literal letter or digit -/
def elastOKS (l : ELine) : Bool :=
  match l.getLast? with
  | some (.txt cs) => (match cs.getLast? with | some z => lastOK z | none => false)
  | _ => false

def elineOKS (l : ELine) : Bool := ealternatingS l && efirstOKS l && elastOKS l && l.all eatomOKS

def eitemOKS (it : EItem) : Bool := !it.lines.isEmpty && it.lines.all elineOKS

def efragB (d : EDoc) : Bool := d.items.all eitemOKS

def EFrag (d : EDoc) : Prop := efragB d = true

instance (d : EDoc) : Decidable (EFrag d) := by unfold EFrag; infer_instance

def spellEAtom : EAtomS → Bytes
  | .txt cs => escSpell cs
  | .code content => [96] ++ content ++ [96]
  | .em content => [42] ++ content ++ [42]
  | .strong content => [42, 42] ++ content ++ [42, 42]

/-- the source bytes of one line, without its line ending -/
def spellELine (l : ELine) : Bytes := l.flatMap spellEAtom

def spellEItems (first : Bool) : List EItem → Bytes
  | [] => []
  | it :: rest =>
    blanks (if first then it.gap else it.gap + 1) ++ it.lines.flatMap (fun l => spellELine l ++ [10]) ++
      spellEItems false rest

/-- the Markdown source of a stage-11 document -/
def spellE (d : EDoc) : Bytes := spellEItems true d.items ++ blanks d.trail

def expEAtom : EAtomS → Bytes
  | .txt cs => escHtml (plain cs)
  | .code content => strBytes "<code>" ++ escHtml content ++ strBytes "</code>"
  | .em content => strBytes "<em>" ++ escHtml content ++ strBytes "</em>"
  | .strong content => strBytes "<strong>" ++ escHtml content ++ strBytes "</strong>"

def expELine (l : ELine) : Bytes := l.flatMap expEAtom

def expEItem (it : EItem) : Bytes := strBytes "<p>" ++ joinNl (it.lines.map expELine) ++ strBytes "</p>\n"

/-- the HTML the specification prescribes for a stage-11 document -/
def expectedE (d : EDoc) : Bytes := d.items.flatMap expEItem

/-- bytes as characters written literally -/
def elits (b : Bytes) : List TChar := b.map fun c => ⟨c, .lit⟩

def eembedAtom : EAtomS → Inline
  | .txt cs => .text cs
  | .code content => .code content 0 false
  | .em content => .emph false [.text (elits content)]
  | .strong content => .strong false [.text (elits content)]

/-- the atoms of the lines with soft breaks between the lines -/
def eembedLines : List ELine → List Inline
  | [] => []
  | [l] => l.map eembedAtom
  | l :: rest => l.map eembedAtom ++ .softBreak :: eembedLines rest

def eembed (d : EDoc) : Doc := { blocks := d.items.map fun it => .para {} (eembedLines it.lines) 0 }

def enoExtraBlanks (d : EDoc) : Bool := d.trail == 0 && d.items.all fun it => it.gap == 0

/-! ## stage 13: the union — the blocks of stages 6 / 7 with the lines of stages 9 and 11

  The block structure of stage 6 (paragraphs, ATX headings, thematic breaks, fenced code blocks; `sep` blank lines in
  front of a block, none where the specification lets a block follow directly), where every paragraph line and every
  heading text is a line of stage 11 (text, code spans, `*x*`, `**x**`; it begins with a literal letter and ends with a
  literal letter or digit — so a heading text has no closing sequence of `#` and no trailing space), and a paragraph
  line that is not the last one of its paragraph may be followed by a backslash hard line break as in stage 9 (the
  byte in front of the backslash is a letter or digit written literally). The union also has the INDENTED CODE BLOCKS
  of stage 12 (`UBlockS.icode`, with the rules of stage 12: not directly behind a paragraph; never behind another
  indented code block, whatever the separation). Written with the final line feed (`spellU`, `UFrag`) or without it
  (`spellUE`, `UFragE`: the document ends with a block that is not an indented code block — that case is stage 12's
  `IFragE`). -/

/-- a paragraph line and whether a hard line break (a backslash) follows it -/
structure ULineS where
  atoms : ELine
  hard : Bool := false
deriving Repr, Inhabited

inductive UBlockS where
  | para (lines : List ULineS)
  | heading (level : Nat) (text : ELine)
  | thematic (c n : Nat)                 -- c % 3: 0 `*`, 1 `-`, 2 `_`; `n + 3` characters
  | fcode (tilde : Bool) (n : Nat) (info : Bytes) (lines : List Bytes)
  | icode (lines : List Bytes)           -- an indented code block (stage 12): four spaces in front of every line
deriving Repr, Inhabited

/-- a block with the number of blank lines in front of it (as `KItem`) -/
structure UItem where
  sep : Nat := 0
  block : UBlockS
deriving Repr, Inhabited

structure UDocS where
  items : List UItem
  trail : Nat := 0
deriving Repr, Inhabited

/-- the last line of a paragraph is not hard -/
def ulastSoftS (ls : List ULineS) : Bool :=
  match ls.getLast? with
  | some z => !z.hard
  | none => false

/-- a line of an indented code block (stage 12): printable, not empty, not starting with a space -/
def icLineOK (l : Bytes) : Bool := l.all printable && (match l.head? with | none => false | some c => c != 32)

def UBlockS.isIc : UBlockS → Bool
  | .icode _ => true
  | _ => false

def ublockOKS : UBlockS → Bool
  | .icode lines => !lines.isEmpty && lines.all icLineOK
  | .para lines => !lines.isEmpty && (lines.all fun x => elineOKS x.atoms) && ulastSoftS lines
  | .heading level text => decide (1 ≤ level) && decide (level ≤ 6) && elineOKS text
  | .thematic _ _ => true
  | .fcode tilde _ info lines => info.all isAlnumC && lines.all (codeLineOK (fenceChar tilde))

/-- may `b` follow `a` without a blank line? (as `kabutOK` / `iabutOK`: an indented code block cannot interrupt a
    paragraph) -/
def uabutOK (a b : UBlockS) : Bool :=
  match a with
  | .para _ =>
    (match b with
     | .heading _ _ => true
     | .thematic c _ => c % 3 != 1
     | .fcode _ _ _ _ => true
     | .para _ => false
     | .icode _ => false)
  | _ => true

/-- as `isepsOK`: an indented code block never follows an indented code block, whatever the separation (two indented
    chunks separated only by blank lines are ONE code block) -/
def usepsOK : Option UBlockS → List UItem → Bool
  | _, [] => true
  | none, it :: rest => usepsOK (some it.block) rest
  | some a, it :: rest =>
    (it.sep != 0 || uabutOK a it.block) && !(a.isIc && it.block.isIc) && usepsOK (some it.block) rest

def ufragB (d : UDocS) : Bool := (d.items.all fun it => ublockOKS it.block) && usepsOK none d.items

def UFrag (d : UDocS) : Prop := ufragB d = true

instance (d : UDocS) : Decidable (UFrag d) := by unfold UFrag; infer_instance

/-- the last block is not an indented code block -/
def ulastNotIc (d : UDocS) : Bool :=
  match d.items.getLast? with
  | some it => !it.block.isIc
  | none => true

def ufragEB (d : UDocS) : Bool := ufragB d && d.trail == 0 && !d.items.isEmpty && ulastNotIc d

def UFragE (d : UDocS) : Prop := ufragEB d = true

instance (d : UDocS) : Decidable (UFragE d) := by unfold UFragE; infer_instance

/-- the source bytes of one paragraph line, without its line ending: the backslash of the break directly behind it -/
def spellULine (x : ULineS) : Bytes := if x.hard then spellELine x.atoms ++ [92] else spellELine x.atoms

def spellUBlock : UBlockS → Bytes
  | .para lines => lines.flatMap fun x => spellULine x ++ [10]
  | .heading level text => List.replicate level 35 ++ [32] ++ spellELine text ++ [10]
  | .thematic c n => thematicLine c n false ++ [10]
  | .fcode tilde n info lines =>
    List.replicate (n + 3) (fenceChar tilde) ++ info ++ [10] ++ lines.flatMap (· ++ [10]) ++
      List.replicate (n + 3) (fenceChar tilde) ++ [10]
  | .icode lines => lines.flatMap fun l => [32, 32, 32, 32] ++ l ++ [10]

/-- the Markdown source of a stage-13 document -/
def spellU (d : UDocS) : Bytes := (d.items.flatMap fun it => blanks it.sep ++ spellUBlock it.block) ++ blanks d.trail

/-- the Markdown source without the final line feed -/
def spellUE (d : UDocS) : Bytes := (spellU d).dropLast

/-- the HTML between `<p>` and `</p>`: `<br />` + newline behind a hard line, a newline behind another line that is
    not the last one -/
def expULines : List ULineS → Bytes
  | [] => []
  | [x] => expELine x.atoms
  | x :: rest => expELine x.atoms ++ (if x.hard then strBytes "<br />\n" else [10]) ++ expULines rest

def expUBlock : UBlockS → Bytes
  | .para lines => strBytes "<p>" ++ expULines lines ++ strBytes "</p>\n"
  | .heading level text =>
    strBytes "<h" ++ [UInt8.ofNat (48 + level)] ++ [62] ++ expELine text ++ strBytes "</h" ++
      [UInt8.ofNat (48 + level)] ++ strBytes ">\n"
  | .thematic _ _ => strBytes "<hr />\n"
  | .fcode _ _ info lines =>
    strBytes "<pre><code" ++ (if info.isEmpty then [] else strBytes " class=\"language-" ++ info ++ [34]) ++ [62] ++
      lines.flatMap (fun l => escHtml l ++ [10]) ++ strBytes "</code></pre>\n"
  | .icode lines => strBytes "<pre><code>" ++ lines.flatMap (fun l => escHtml l ++ [10]) ++ strBytes "</code></pre>\n"

/-- the HTML the specification prescribes for a stage-13 document -/
def expectedU (d : UDocS) : Bytes := d.items.flatMap fun it => expUBlock it.block

/-- the atoms of the lines with a hard break (backslash spelling) or a soft break between the lines -/
def uembedLines : List ULineS → List Inline
  | [] => []
  | [x] => x.atoms.map eembedAtom
  | x :: rest => x.atoms.map eembedAtom ++ (if x.hard then .hardBreak true 0 else .softBreak) :: uembedLines rest

/-- the block in the spec model, with the choice "no blank line in front" -/
def uembedBlock (abut : Bool) : UBlockS → Block
  | .para lines => .para { abut := abut } (uembedLines lines) 0
  | .heading level text => .heading { abut := abut } level false 0 0 (text.map eembedAtom)
  | .thematic c n => .thematic { abut := abut } c n false
  | .fcode tilde n info lines => .fcode { abut := abut } tilde n 0 0 info 0 lines
  | .icode lines => .icode lines

def uembed (d : UDocS) : Doc := { blocks := d.items.map fun it => uembedBlock (it.sep == 0) it.block }

/-- the spec-model document with the choice "no final line ending" -/
def uembedE (d : UDocS) : Doc := { uembed d with finalNewline := false }

/-- the documents whose source the spec model spells byte for byte (as `inoExtraBlanks`): nothing in front, nothing
    behind, at most one blank line between two blocks and exactly one in front of and behind every indented code block -/
def unoExtraBlanksFrom : Option UBlockS → List UItem → Bool
  | _, [] => true
  | none, it :: rest => it.sep == 0 && unoExtraBlanksFrom (some it.block) rest
  | some a, it :: rest =>
    it.sep ≤ 1 && (!(a.isIc || it.block.isIc) || it.sep == 1) && unoExtraBlanksFrom (some it.block) rest

def unoExtraBlanks (d : UDocS) : Bool := d.trail == 0 && unoExtraBlanksFrom none d.items

/-! ## stage 14: a stage-6 document inside `k + 1` nested block quotes

  The stage-10 construction applied `k + 1` times: every line of a stage-6 document (the blank lines too) gets
  `k + 1` block-quote markers, each followed by one space, in front (`> > > text`; 5.1: a block quote's contents are
  again a sequence of blocks, so a line of a quote inside a quote begins with one marker per quote). The fragment
  predicate is the one of stage 10 (`QFrag`), for every `k`. Prescribed HTML: `k + 1` nested `<blockquote>`, line
  feed, …, `</blockquote>`, line feed, around the HTML of the contents. -/

/-- `"> "` in front of every line, `k` times -/
def quoteLinesN : Nat → Bytes → Bytes
  | 0, s => s
  | k + 1, s => quoteLines (quoteLinesN k s) true

/-- the Markdown source of a stage-14 document: `k + 1` quotes -/
def spellNQ (k : Nat) (d : KDoc) : Bytes := quoteLinesN (k + 1) (spellK d)

/-- `k` nested `<blockquote>` elements around `h` -/
def wrapQ : Nat → Bytes → Bytes
  | 0, h => h
  | k + 1, h => strBytes "<blockquote>\n" ++ wrapQ k h ++ strBytes "</blockquote>\n"

/-- the HTML the specification prescribes for a stage-14 document -/
def expectedNQ (k : Nat) (d : KDoc) : Bytes := wrapQ (k + 1) (expectedK d)

/-- `k` nested block quotes (marker followed by a space) around the blocks -/
def nestQuote : Nat → List Block → List Block
  | 0, bs => bs
  | k + 1, bs => [.quote {} false (nestQuote k bs)]

/-- the spec-model document: `k + 1` nested block quotes around the stage-6 blocks -/
def nqembed (k : Nat) (d : KDoc) : Doc := { blocks := nestQuote (k + 1) (kembed d).blocks }

/-! ## stage 15: a stage-13 (union) document inside ONE block quote

  The stage-10 construction applied to the union fragment of stage 13: every line of a stage-13 document (the blank
  lines too) gets the block-quote marker `>` and one space in front. The document has at least one block and its
  source contains none of the bytes `qcleanByte` excludes: `-`, `+`, a digit, `[`, tab, carriage return — and `*`
  (byte 42): the class of the block-quote simulation excludes every byte that could start a list item. So the emphasis
  atoms `*x*` / `**x**` of stage 11 CANNOT occur in a quoted union document (a member has only text and code-span
  atoms; an escaped `\*` is excluded too, a `*` written as `&ast;` is not), and a thematic break is written with `_`.
  What remains of the union: code spans in paragraph lines and in heading texts, backslash hard line breaks behind
  paragraph lines (the backslash is then the last byte of a quoted line), all four block kinds, blocks directly behind
  each other. Prescribed HTML (5.1): `<blockquote>`, a line feed, the HTML of the contents, `</blockquote>`, a line
  feed. A quoted union document has NO indented code block (the block-quote simulation does not cover them). -/

def uqfragB (d : UDocS) : Bool :=
  ufragB d && !d.items.isEmpty && (spellU d).all qcleanByte && d.items.all fun it => !it.block.isIc

def UQFrag (d : UDocS) : Prop := uqfragB d = true

instance (d : UDocS) : Decidable (UQFrag d) := by unfold UQFrag; infer_instance

/-- the Markdown source of a stage-15 document -/
def spellUQ (d : UDocS) : Bytes := quoteLines (spellU d) true

/-- the HTML the specification prescribes for a stage-15 document -/
def expectedUQ (d : UDocS) : Bytes := strBytes "<blockquote>\n" ++ expectedU d ++ strBytes "</blockquote>\n"

/-- the spec-model document: one block quote (marker followed by a space) around the stage-13 blocks -/
def uqembed (d : UDocS) : Doc := { blocks := [.quote {} false (uembed d).blocks] }

/-! ## stage 16: inline links inside the text lines (documents of paragraphs only)

  A line is a sequence of ATOMS: runs of text as in stages 1–3 (every character in any licensed spelling) and INLINE
  LINKS (6.3) in between, written `[text](dest)`: the link text is a non-empty run of ASCII letters and digits, the
  destination a non-empty run of ASCII letters, digits and `/`, written without angle brackets; there is no title and no
  white space inside the parentheses. Text and links alternate, the line begins and ends with text: its first character
  is a literal letter, its last one a literal letter or digit (as in `lineOK`). A bracket is never written literally
  inside text (`mustEscape`: `\[`, `\]` or a reference), so the only brackets that can open or close a link text are
  those of the link atoms; a link text contains no bracket, so links do not nest. The byte `!` directly in front of `[`
  would make the link an image (6.4): `charOK` already excludes the `!` that is written literally, and every other
  spelling of `!` (`\!`, `&excl;`, `&#33;`, …) is text whose `!` cannot begin an image (2.4: a backslash-escaped
  character loses its meaning; 2.5: a character reference cannot stand for a structural character), so no further
  condition is needed. There are no link reference definitions, so `[text]` alone is never a link.
  Prescribed HTML: `<a href="` + dest + `">` + text + `</a>` in place of the link (destinations of letters, digits and
  `/` need neither percent-encoding nor HTML escaping). -/

inductive LAtomS where
  | txt (cs : List TChar)       -- text, every character in any licensed spelling
  | link (text dest : Bytes)    -- an inline link `[text](dest)`
deriving Repr, Inhabited

abbrev LLine := List LAtomS

/-- a paragraph with the number of EXTRA blank lines in front of it (as `FItem`) -/
structure LItem where
  gap : Nat := 0
  lines : List LLine
deriving Repr, Inhabited

structure LDoc where
  items : List LItem
  trail : Nat := 0
deriving Repr, Inhabited

def LAtomS.isTxt : LAtomS → Bool
  | .txt _ => true
  | .link _ _ => false

/-- a byte of a destination: a letter, a digit or `/` -/
def isDestC (c : UInt8) : Bool := isAlnumC c || c == 47

def latomOKS : LAtomS → Bool
  | .txt cs => !cs.isEmpty && cs.all charOK
  | .link text dest => !text.isEmpty && text.all isAlnumC && !dest.isEmpty && dest.all isDestC

/-- text atoms and links alternate -/
def lalternatingS : List LAtomS → Bool
  | a :: b :: rest => (a.isTxt != b.isTxt) && lalternatingS (b :: rest)
  | _ => true

/-- the first atom is text that begins with a literal letter -/
def lfirstOKS (l : LLine) : Bool :=
  match l with
  | .txt (t :: _) :: _ => firstOK t
  | _ => false

/-- the last atom is text that ends with a literal letter or digit -/
def llastOKS (l : LLine) : Bool :=
  match l.getLast? with
  | some (.txt cs) => (match cs.getLast? with | some z => lastOK z | none => false)
  | _ => false

def llineOKS (l : LLine) : Bool := lalternatingS l && lfirstOKS l && llastOKS l && l.all latomOKS

def litemOKS (it : LItem) : Bool := !it.lines.isEmpty && it.lines.all llineOKS

def lfragB (d : LDoc) : Bool := d.items.all litemOKS

def LFrag (d : LDoc) : Prop := lfragB d = true

instance (d : LDoc) : Decidable (LFrag d) := by unfold LFrag; infer_instance

def spellLAtom : LAtomS → Bytes
  | .txt cs => escSpell cs
  | .link text dest => [91] ++ text ++ [93, 40] ++ dest ++ [41]

/-- the source bytes of one line, without its line ending -/
def spellLLine (l : LLine) : Bytes := l.flatMap spellLAtom

def spellLItems (first : Bool) : List LItem → Bytes
  | [] => []
  | it :: rest =>
    blanks (if first then it.gap else it.gap + 1) ++ it.lines.flatMap (fun l => spellLLine l ++ [10]) ++
      spellLItems false rest

/-- the Markdown source of a stage-16 document -/
def spellL (d : LDoc) : Bytes := spellLItems true d.items ++ blanks d.trail

def expLAtom : LAtomS → Bytes
  | .txt cs => escHtml (plain cs)
  | .link text dest => strBytes "<a href=\"" ++ dest ++ strBytes "\">" ++ text ++ strBytes "</a>"

def expLLine (l : LLine) : Bytes := l.flatMap expLAtom

def expLItem (it : LItem) : Bytes := strBytes "<p>" ++ joinNl (it.lines.map expLLine) ++ strBytes "</p>\n"

/-- the HTML the specification prescribes for a stage-16 document -/
def expectedL (d : LDoc) : Bytes := d.items.flatMap expLItem

/-- a link of GM.Spec.CommonMark: inline form (`LinkCh` default: no angle brackets, no inner space), no title, the label
    unused; its text as one text node of literally written characters -/
def lembedAtom : LAtomS → Inline
  | .txt cs => .text cs
  | .link text dest => .link [.text (elits text)] dest none [] {}

/-- the atoms of the lines with soft breaks between the lines -/
def lembedLines : List LLine → List Inline
  | [] => []
  | [l] => l.map lembedAtom
  | l :: rest => l.map lembedAtom ++ .softBreak :: lembedLines rest

def lembed (d : LDoc) : Doc := { blocks := d.items.map fun it => .para {} (lembedLines it.lines) 0 }

def lnoExtraBlanks (d : LDoc) : Bool := d.trail == 0 && d.items.all fun it => it.gap == 0

/-! ## stage 17: images inside the text lines (documents of paragraphs only)

  The lines of stage 16 with IMAGES (6.4) in place of the links: `![alt](dest)`, the image description a non-empty run
  of ASCII letters and digits, the destination a non-empty run of ASCII letters, digits and `/`, no title. Text and
  images alternate, the line begins and ends with text (first character a literal letter, last one a literal letter or
  digit). The `!` of an image is the only `!` written as a bare byte (`charOK` excludes the literal spelling inside text);
  a text atom in front of an image may end in `\!` or `&excl;`: that is the text `!` followed by the image. A backslash
  in front of the image's `!` is always the second byte of `\\` (2.4), never an escape of the `!`.
  Prescribed HTML: `<img src="` + dest + `" alt="` + alt + `" />`. -/

inductive ImgAtomS where
  | txt (cs : List TChar)       -- text, every character in any licensed spelling
  | img (alt dest : Bytes)      -- an image `![alt](dest)`
deriving Repr, Inhabited

abbrev ImgLine := List ImgAtomS

/-- a paragraph with the number of EXTRA blank lines in front of it (as `FItem`) -/
structure ImgItem where
  gap : Nat := 0
  lines : List ImgLine
deriving Repr, Inhabited

structure ImgDoc where
  items : List ImgItem
  trail : Nat := 0
deriving Repr, Inhabited

def ImgAtomS.isTxt : ImgAtomS → Bool
  | .txt _ => true
  | .img _ _ => false

def imgatomOKS : ImgAtomS → Bool
  | .txt cs => !cs.isEmpty && cs.all charOK
  | .img alt dest => !alt.isEmpty && alt.all isAlnumC && !dest.isEmpty && dest.all isDestC

/-- text atoms and images alternate -/
def imgalternatingS : List ImgAtomS → Bool
  | a :: b :: rest => (a.isTxt != b.isTxt) && imgalternatingS (b :: rest)
  | _ => true

/-- the first atom is text that begins with a literal letter -/
def imgfirstOKS (l : ImgLine) : Bool :=
  match l with
  | .txt (t :: _) :: _ => firstOK t
  | _ => false

/-- the last atom is text that ends with a literal letter or digit -/
def imglastOKS (l : ImgLine) : Bool :=
  match l.getLast? with
  | some (.txt cs) => (match cs.getLast? with | some z => lastOK z | none => false)
  | _ => false

def imglineOKS (l : ImgLine) : Bool := imgalternatingS l && imgfirstOKS l && imglastOKS l && l.all imgatomOKS

def imgitemOKS (it : ImgItem) : Bool := !it.lines.isEmpty && it.lines.all imglineOKS

def imgfragB (d : ImgDoc) : Bool := d.items.all imgitemOKS

def ImgFrag (d : ImgDoc) : Prop := imgfragB d = true

instance (d : ImgDoc) : Decidable (ImgFrag d) := by unfold ImgFrag; infer_instance

def spellImgAtom : ImgAtomS → Bytes
  | .txt cs => escSpell cs
  | .img alt dest => [33, 91] ++ alt ++ [93, 40] ++ dest ++ [41]

/-- the source bytes of one line, without its line ending -/
def spellImgLine (l : ImgLine) : Bytes := l.flatMap spellImgAtom

def spellImgItems (first : Bool) : List ImgItem → Bytes
  | [] => []
  | it :: rest =>
    blanks (if first then it.gap else it.gap + 1) ++ it.lines.flatMap (fun l => spellImgLine l ++ [10]) ++
      spellImgItems false rest

/-- the Markdown source of a stage-17 document -/
def spellImg (d : ImgDoc) : Bytes := spellImgItems true d.items ++ blanks d.trail

def expImgAtom : ImgAtomS → Bytes
  | .txt cs => escHtml (plain cs)
  | .img alt dest => strBytes "<img src=\"" ++ dest ++ strBytes "\" alt=\"" ++ alt ++ strBytes "\" />"

def expImgLine (l : ImgLine) : Bytes := l.flatMap expImgAtom

def expImgItem (it : ImgItem) : Bytes := strBytes "<p>" ++ joinNl (it.lines.map expImgLine) ++ strBytes "</p>\n"

/-- the HTML the specification prescribes for a stage-17 document -/
def expectedImg (d : ImgDoc) : Bytes := d.items.flatMap expImgItem

/-- an image of GM.Spec.CommonMark: inline form, no title, the label unused; its description as one text node of
    literally written characters -/
def imgembedAtom : ImgAtomS → Inline
  | .txt cs => .text cs
  | .img alt dest => .image [.text (elits alt)] dest none [] {}

/-- the atoms of the lines with soft breaks between the lines -/
def imgembedLines : List ImgLine → List Inline
  | [] => []
  | [l] => l.map imgembedAtom
  | l :: rest => l.map imgembedAtom ++ .softBreak :: imgembedLines rest

def imgembed (d : ImgDoc) : Doc := { blocks := d.items.map fun it => .para {} (imgembedLines it.lines) 0 }

def imgnoExtraBlanks (d : ImgDoc) : Bool := d.trail == 0 && d.items.all fun it => it.gap == 0

/-! ## stage 18: URI autolinks inside the text lines (documents of paragraphs only)

  The lines of stage 16 with AUTOLINKS (6.5) in place of the links: `<scheme:rest>`, the scheme 2–32 ASCII letters (6.5:
  a letter followed by 1–31 letters, digits, `+`, `.`, `-`), the rest a non-empty run of ASCII letters, digits, `/` and
  `.` (no space, `<` or `>`). Text and autolinks alternate, the line begins and ends with text (first character a
  literal letter, last one a literal letter or digit). A `<` is never written literally inside text (`mustEscape`), so
  the only `<` that can open an autolink or raw HTML are those of the autolink atoms; `<scheme:rest>` is no HTML tag
  (6.6: a tag name is followed by white space, `/` or `>`, not by `:`).
  Prescribed HTML: `<a href="` + scheme:rest + `">` + scheme:rest + `</a>` (nothing to percent-encode or to escape). -/

inductive AAtomS where
  | txt (cs : List TChar)           -- text, every character in any licensed spelling
  | auto (scheme rest : Bytes)      -- an autolink `<scheme:rest>`
deriving Repr, Inhabited

abbrev ALine := List AAtomS

/-- a paragraph with the number of EXTRA blank lines in front of it (as `FItem`) -/
structure AItem where
  gap : Nat := 0
  lines : List ALine
deriving Repr, Inhabited

structure ADoc where
  items : List AItem
  trail : Nat := 0
deriving Repr, Inhabited

def AAtomS.isTxt : AAtomS → Bool
  | .txt _ => true
  | .auto _ _ => false

/-- a byte behind the colon of an autolink: a letter, a digit, `/` or `.` -/
def isAutoC (c : UInt8) : Bool := isAlnumC c || c == 47 || c == 46

/-- the absolute URI of an autolink -/
def autoUri (scheme rest : Bytes) : Bytes := scheme ++ [58] ++ rest

def aatomOKS : AAtomS → Bool
  | .txt cs => !cs.isEmpty && cs.all charOK
  | .auto scheme rest =>
    decide (2 ≤ scheme.length) && decide (scheme.length ≤ 32) && scheme.all isLetter && !rest.isEmpty && rest.all isAutoC

/-- text atoms and autolinks alternate -/
def aalternatingS : List AAtomS → Bool
  | a :: b :: rest => (a.isTxt != b.isTxt) && aalternatingS (b :: rest)
  | _ => true

/-- the first atom is text that begins with a literal letter -/
def afirstOKS (l : ALine) : Bool :=
  match l with
  | .txt (t :: _) :: _ => firstOK t
  | _ => false

/-- the last atom is text that ends with a literal letter or digit -/
def alastOKS (l : ALine) : Bool :=
  match l.getLast? with
  | some (.txt cs) => (match cs.getLast? with | some z => lastOK z | none => false)
  | _ => false

def alineOKS (l : ALine) : Bool := aalternatingS l && afirstOKS l && alastOKS l && l.all aatomOKS

def aitemOKS (it : AItem) : Bool := !it.lines.isEmpty && it.lines.all alineOKS

def afragB (d : ADoc) : Bool := d.items.all aitemOKS

def AFrag (d : ADoc) : Prop := afragB d = true

instance (d : ADoc) : Decidable (AFrag d) := by unfold AFrag; infer_instance

def spellAAtom : AAtomS → Bytes
  | .txt cs => escSpell cs
  | .auto scheme rest => [60] ++ autoUri scheme rest ++ [62]

/-- the source bytes of one line, without its line ending -/
def spellALine (l : ALine) : Bytes := l.flatMap spellAAtom

def spellAItems (first : Bool) : List AItem → Bytes
  | [] => []
  | it :: rest =>
    blanks (if first then it.gap else it.gap + 1) ++ it.lines.flatMap (fun l => spellALine l ++ [10]) ++
      spellAItems false rest

/-- the Markdown source of a stage-18 document -/
def spellAD (d : ADoc) : Bytes := spellAItems true d.items ++ blanks d.trail

def expAAtom : AAtomS → Bytes
  | .txt cs => escHtml (plain cs)
  | .auto scheme rest =>
    strBytes "<a href=\"" ++ autoUri scheme rest ++ strBytes "\">" ++ autoUri scheme rest ++ strBytes "</a>"

def expALine (l : ALine) : Bytes := l.flatMap expAAtom

def expAItem (it : AItem) : Bytes := strBytes "<p>" ++ joinNl (it.lines.map expALine) ++ strBytes "</p>\n"

/-- the HTML the specification prescribes for a stage-18 document -/
def expectedAD (d : ADoc) : Bytes := d.items.flatMap expAItem

/-- a URI autolink of GM.Spec.CommonMark (`email := false`) -/
def aembedAtom : AAtomS → Inline
  | .txt cs => .text cs
  | .auto scheme rest => .autolink (autoUri scheme rest) false

/-- the atoms of the lines with soft breaks between the lines -/
def aembedLines : List ALine → List Inline
  | [] => []
  | [l] => l.map aembedAtom
  | l :: rest => l.map aembedAtom ++ .softBreak :: aembedLines rest

def aembed (d : ADoc) : Doc := { blocks := d.items.map fun it => .para {} (aembedLines it.lines) 0 }

def anoExtraBlanks (d : ADoc) : Bool := d.trail == 0 && d.items.all fun it => it.gap == 0

/-! ## stage 12: indented code blocks

  An indented code block (4.4) here: one or more lines, each indented by exactly four spaces and followed by a run of
  printable ASCII characters that is not empty and does not start with a space — so no line of the block is blank and
  the content of every line is what follows the four spaces. "An indented code block cannot interrupt a paragraph"
  (4.4): directly under a paragraph such a line would be a continuation line (4.8), so behind a paragraph a blank line
  is required; any block may follow the last line of an indented code block directly ("The code block continues until
  it reaches a line that is not indented or blank"); blank lines behind it are not part of its content ("Blank lines
  preceding or following an indented code block are not included in it"). Two indented chunks separated only by blank
  lines are ONE code block in CommonMark, so an indented code block never follows an indented code block in this
  fragment. Prescribed HTML: `<pre><code>`, the lines HTML-escaped, each with its line feed, `</code></pre>`. -/

inductive IBlock where
  | h (b : HBlock)
  | icode (lines : List Bytes)
deriving Repr, Inhabited

structure IItem where
  sep : Nat := 0
  block : IBlock
deriving Repr, Inhabited

structure IDoc where
  items : List IItem
  trail : Nat := 0
deriving Repr, Inhabited

def iblockOK : IBlock → Bool
  | .h b => hblockOK b
  | .icode lines => !lines.isEmpty && lines.all icLineOK

def IBlock.isIc : IBlock → Bool
  | .icode _ => true
  | _ => false

def IBlock.isPara : IBlock → Bool
  | .h (.base (.para _)) => true
  | _ => false

/-- may `b` follow `a` without a blank line? -/
def iabutOK (a b : IBlock) : Bool :=
  match a, b with
  | .h a, .h b => kabutOK a b
  | a, .icode _ => !a.isPara
  | .icode _, .h _ => true

def isepsOK : Option IBlock → List IItem → Bool
  | _, [] => true
  | none, it :: rest => isepsOK (some it.block) rest
  | some a, it :: rest =>
    (it.sep != 0 || iabutOK a it.block) && !(a.isIc && it.block.isIc) && isepsOK (some it.block) rest

def ifragB (d : IDoc) : Bool := (d.items.all fun it => iblockOK it.block) && isepsOK none d.items

def IFrag (d : IDoc) : Prop := ifragB d = true

instance (d : IDoc) : Decidable (IFrag d) := by unfold IFrag; infer_instance

def spellIBlock : IBlock → Bytes
  | .h b => spellHBlock b
  | .icode lines => lines.flatMap fun l => [32, 32, 32, 32] ++ l ++ [10]

/-- the Markdown source of a stage-12 document -/
def spellIc (d : IDoc) : Bytes := (d.items.flatMap fun it => blanks it.sep ++ spellIBlock it.block) ++ blanks d.trail

def expIBlock : IBlock → Bytes
  | .h b => expHBlock b
  | .icode lines => strBytes "<pre><code>" ++ lines.flatMap (fun l => escHtml l ++ [10]) ++ strBytes "</code></pre>\n"

/-- the HTML the specification prescribes for a stage-12 document -/
def expectedI (d : IDoc) : Bytes := d.items.flatMap fun it => expIBlock it.block

/-- the block in the spec model (an indented code block has no choices there: the spec model always writes a blank
    line in front of it and behind it) -/
def iembedBlock (abut : Bool) : IBlock → Block
  | .h b => kembedBlock abut b
  | .icode lines => .icode lines

def iembed (d : IDoc) : Doc := { blocks := d.items.map fun it => iembedBlock (it.sep == 0) it.block }

/-- the documents whose source the spec model spells byte for byte: nothing in front, nothing behind, at most one blank
    line between two blocks and exactly one in front of and behind every indented code block (the spec model has no
    `abut` choice for `Block.icode`) -/
def inoExtraBlanksFrom : Option IBlock → List IItem → Bool
  | _, [] => true
  | none, it :: rest => it.sep == 0 && inoExtraBlanksFrom (some it.block) rest
  | some a, it :: rest =>
    it.sep ≤ 1 && (!(a.isIc || it.block.isIc) || it.sep == 1) && inoExtraBlanksFrom (some it.block) rest

def inoExtraBlanks (d : IDoc) : Bool := d.trail == 0 && inoExtraBlanksFrom none d.items

/-- stage 12 without the final line feed (2.1: a line ends with a line ending or with the end of the file): the document
    must end with a block; the prescribed HTML is unchanged -/
def ifragEB (d : IDoc) : Bool := ifragB d && d.trail == 0 && !d.items.isEmpty

def IFragE (d : IDoc) : Prop := ifragEB d = true

instance (d : IDoc) : Decidable (IFragE d) := by unfold IFragE; infer_instance

def spellIcE (d : IDoc) : Bytes := (spellIc d).dropLast

def iembedE (d : IDoc) : Doc := { iembed d with finalNewline := false }

/-- a stage-6 document as a stage-12 document -/
def KDoc.toI (d : KDoc) : IDoc := { items := d.items.map fun it => { sep := it.sep, block := .h it.block }, trail := d.trail }


/-! ## stage 19: raw inline HTML tags inside the text lines (documents of paragraphs only)

  The lines of stage 16 with RAW HTML TAGS (6.6) in place of the links: an open tag `<name>` or a closing tag `</name>`,
  the tag name an ASCII letter followed by ASCII letters and digits (6.6: "a tag name consists of an ASCII letter
  followed by zero or more ASCII letters, digits, or hyphens"), no attributes, no white space, no `/` before `>`. Text
  and tags alternate, the line begins and ends with text (first character a literal letter, last one a literal letter
  or digit): a tag never begins a line, so no HTML block (4.6) starts, whatever the tag name is (`div`, `pre`, `script`
  included: start conditions 1, 6, 7 look at the beginning of a line). A `<` is never written literally inside text
  (`mustEscape`), so the only `<` of a line are those of its tags; `<name>` contains no `:` and no `@`, so it is no
  autolink (6.5). Prescribed HTML: the bytes of the tag, unchanged (6.6: "rendered as HTML without escaping"). -/

inductive H19AtomS where
  | txt (cs : List TChar)     -- text, every character in any licensed spelling
  | open (name : Bytes)       -- an open tag `<name>`
  | close (name : Bytes)      -- a closing tag `</name>`
deriving Repr, Inhabited

abbrev H19Line := List H19AtomS

/-- a paragraph with the number of EXTRA blank lines in front of it (as `FItem`) -/
structure H19Item where
  gap : Nat := 0
  lines : List H19Line
deriving Repr, Inhabited

structure H19Doc where
  items : List H19Item
  trail : Nat := 0
deriving Repr, Inhabited

def H19AtomS.isTxt : H19AtomS → Bool
  | .txt _ => true
  | _ => false

/-- a tag name: an ASCII letter followed by ASCII letters and digits -/
def tagNameOK19 (n : Bytes) : Bool :=
  match n with
  | c :: rest => isLetter c && rest.all isAlnumC
  | [] => false

def h19atomOKS : H19AtomS → Bool
  | .txt cs => !cs.isEmpty && cs.all charOK
  | .open n => tagNameOK19 n
  | .close n => tagNameOK19 n

/-- text atoms and tags alternate -/
def h19alternatingS : List H19AtomS → Bool
  | a :: b :: rest => (a.isTxt != b.isTxt) && h19alternatingS (b :: rest)
  | _ => true

/-- the first atom is text that begins with a literal letter -/
def h19firstOKS (l : H19Line) : Bool :=
  match l with
  | .txt (t :: _) :: _ => firstOK t
  | _ => false

/-- the last atom is text that ends with a literal letter or digit -/
def h19lastOKS (l : H19Line) : Bool :=
  match l.getLast? with
  | some (.txt cs) => (match cs.getLast? with | some z => lastOK z | none => false)
  | _ => false

def h19lineOKS (l : H19Line) : Bool := h19alternatingS l && h19firstOKS l && h19lastOKS l && l.all h19atomOKS

def h19itemOKS (it : H19Item) : Bool := !it.lines.isEmpty && it.lines.all h19lineOKS

def h19fragB (d : H19Doc) : Bool := d.items.all h19itemOKS

def H19Frag (d : H19Doc) : Prop := h19fragB d = true

instance (d : H19Doc) : Decidable (H19Frag d) := by unfold H19Frag; infer_instance

/-- the bytes of a tag -/
def tagBytes19 : H19AtomS → Bytes
  | .txt _ => []
  | .open n => [60] ++ n ++ [62]
  | .close n => [60, 47] ++ n ++ [62]

def spellH19Atom : H19AtomS → Bytes
  | .txt cs => escSpell cs
  | a => tagBytes19 a

/-- the source bytes of one line, without its line ending -/
def spellH19Line (l : H19Line) : Bytes := l.flatMap spellH19Atom

def spellH19Items (first : Bool) : List H19Item → Bytes
  | [] => []
  | it :: rest =>
    blanks (if first then it.gap else it.gap + 1) ++ it.lines.flatMap (fun l => spellH19Line l ++ [10]) ++
      spellH19Items false rest

/-- the Markdown source of a stage-19 document -/
def spellH19 (d : H19Doc) : Bytes := spellH19Items true d.items ++ blanks d.trail

def expH19Atom : H19AtomS → Bytes
  | .txt cs => escHtml (plain cs)
  | a => tagBytes19 a

def expH19Line (l : H19Line) : Bytes := l.flatMap expH19Atom

def expH19Item (it : H19Item) : Bytes := strBytes "<p>" ++ joinNl (it.lines.map expH19Line) ++ strBytes "</p>\n"

/-- the HTML the specification prescribes for a stage-19 document -/
def expectedH19 (d : H19Doc) : Bytes := d.items.flatMap expH19Item

/-- raw inline HTML of GM.Spec.CommonMark: the bytes of the tag -/
def h19embedAtom : H19AtomS → Inline
  | .txt cs => .text cs
  | a => .rawHtml (tagBytes19 a)

/-- the atoms of the lines with soft breaks between the lines -/
def h19embedLines : List H19Line → List Inline
  | [] => []
  | [l] => l.map h19embedAtom
  | l :: rest => l.map h19embedAtom ++ .softBreak :: h19embedLines rest

def h19embed (d : H19Doc) : Doc := { blocks := d.items.map fun it => .para {} (h19embedLines it.lines) 0 }

def h19noExtraBlanks (d : H19Doc) : Bool := d.trail == 0 && d.items.all fun it => it.gap == 0

/-! ## stage 20: underscore emphasis between the runs of text (documents of paragraphs only)

  Lines of text atoms alternating with emphasis `_c_` and strong emphasis `__c__` (6.2), always written with `_`; the
  content `c` is a non-empty run of ASCII letters and digits. A `_` run that is followed by a letter or digit is
  left-flanking; it can open emphasis only if it is not also right-flanking, i.e. only if the SOURCE character in
  front of it is white space or punctuation (6.2 rules 2, 6). Likewise the closing run can close only if the source
  character behind it is white space or punctuation (rules 4, 8). So: the last source byte of the text in front of an
  emphasis atom and the first source byte of the text behind it must not be a letter or digit (`unbeforeOK`,
  `unafterOK` — the byte, not the character: `&#65;_x_` has `;` in front of the run, and a letter or digit has a
  letter or digit as source byte exactly when it is written literally). Otherwise the line conditions of stage 11.
  Prescribed HTML: `<em>` + content + `</em>`, `<strong>` + content + `</strong>`. -/

inductive UnAtomS where
  | txt (cs : List TChar)       -- text, every character in any licensed spelling
  | em (content : Bytes)        -- `_content_`
  | strong (content : Bytes)    -- `__content__`
deriving Repr, Inhabited

abbrev UnLine := List UnAtomS

/-- a paragraph with the number of EXTRA blank lines in front of it (as `FItem`) -/
structure UnItem where
  gap : Nat := 0
  lines : List UnLine
deriving Repr, Inhabited

structure UnDoc where
  items : List UnItem
  trail : Nat := 0
deriving Repr, Inhabited

def UnAtomS.isTxt : UnAtomS → Bool
  | .txt _ => true
  | _ => false

def unatomOKS : UnAtomS → Bool
  | .txt cs => !cs.isEmpty && cs.all charOK
  | .em content => !content.isEmpty && content.all isAlnumC
  | .strong content => !content.isEmpty && content.all isAlnumC

/-- text atoms and emphasis atoms alternate -/
def unalternatingS : List UnAtomS → Bool
  | a :: b :: rest => (a.isTxt != b.isTxt) && unalternatingS (b :: rest)
  | _ => true

/-- the character in front of an opening `_` run: its last source byte is white space or punctuation -/
def unbeforeOK (t : TChar) : Bool := !isAlnumC (srcLast t)

/-- the character behind a closing `_` run: its first source byte is white space or punctuation -/
def unafterOK (t : TChar) : Bool := !isAlnumC (srcFirst t)

/-- two neighbouring atoms: text in front of an emphasis atom ends, text behind an emphasis atom begins with such a
    character -/
def unpairOK : UnAtomS → UnAtomS → Bool
  | .txt cs, .em _ => (match cs.getLast? with | some t => unbeforeOK t | none => false)
  | .txt cs, .strong _ => (match cs.getLast? with | some t => unbeforeOK t | none => false)
  | .em _, .txt cs => (match cs.head? with | some t => unafterOK t | none => false)
  | .strong _, .txt cs => (match cs.head? with | some t => unafterOK t | none => false)
  | _, _ => true

def unneighOK : List UnAtomS → Bool
  | a :: b :: rest => unpairOK a b && unneighOK (b :: rest)
  | _ => true

/-- the first atom is text that begins with a literal letter -/
def unfirstOKS (l : UnLine) : Bool :=
  match l with
  | .txt (t :: _) :: _ => firstOK t
  | _ => false

/-- the last atom is text that ends with a literal letter or digit -/
def unlastOKS (l : UnLine) : Bool :=
  match l.getLast? with
  | some (.txt cs) => (match cs.getLast? with | some z => lastOK z | none => false)
  | _ => false

def unlineOKS (l : UnLine) : Bool :=
  unalternatingS l && unfirstOKS l && unlastOKS l && l.all unatomOKS && unneighOK l

def unitemOKS (it : UnItem) : Bool := !it.lines.isEmpty && it.lines.all unlineOKS

def unfragB (d : UnDoc) : Bool := d.items.all unitemOKS

def UnFrag (d : UnDoc) : Prop := unfragB d = true

instance (d : UnDoc) : Decidable (UnFrag d) := by unfold UnFrag; infer_instance

def spellUnAtom : UnAtomS → Bytes
  | .txt cs => escSpell cs
  | .em content => [95] ++ content ++ [95]
  | .strong content => [95, 95] ++ content ++ [95, 95]

/-- the source bytes of one line, without its line ending -/
def spellUnLine (l : UnLine) : Bytes := l.flatMap spellUnAtom

def spellUnItems (first : Bool) : List UnItem → Bytes
  | [] => []
  | it :: rest =>
    blanks (if first then it.gap else it.gap + 1) ++ it.lines.flatMap (fun l => spellUnLine l ++ [10]) ++
      spellUnItems false rest

/-- the Markdown source of a stage-20 document -/
def spellUn (d : UnDoc) : Bytes := spellUnItems true d.items ++ blanks d.trail

def expUnAtom : UnAtomS → Bytes
  | .txt cs => escHtml (plain cs)
  | .em content => strBytes "<em>" ++ escHtml content ++ strBytes "</em>"
  | .strong content => strBytes "<strong>" ++ escHtml content ++ strBytes "</strong>"

def expUnLine (l : UnLine) : Bytes := l.flatMap expUnAtom

def expUnItem (it : UnItem) : Bytes := strBytes "<p>" ++ joinNl (it.lines.map expUnLine) ++ strBytes "</p>\n"

/-- the HTML the specification prescribes for a stage-20 document -/
def expectedUn (d : UnDoc) : Bytes := d.items.flatMap expUnItem

/-- the spec-model inline, with the choice "underscore" -/
def unembedAtom : UnAtomS → Inline
  | .txt cs => .text cs
  | .em content => .emph true [.text (elits content)]
  | .strong content => .strong true [.text (elits content)]

/-- the atoms of the lines with soft breaks between the lines -/
def unembedLines : List UnLine → List Inline
  | [] => []
  | [l] => l.map unembedAtom
  | l :: rest => l.map unembedAtom ++ .softBreak :: unembedLines rest

def unembed (d : UnDoc) : Doc := { blocks := d.items.map fun it => .para {} (unembedLines it.lines) 0 }

def unnoExtraBlanks (d : UnDoc) : Bool := d.trail == 0 && d.items.all fun it => it.gap == 0

/-! ## stage 21: the union fragment (stage 13, with indented code blocks) with ALL inline atoms in its rich lines

  The block structure of stage 13 (paragraphs, ATX headings, thematic breaks, fenced code blocks, indented code blocks;
  the rules of `uabutOK` / `usepsOK`), where a paragraph line / a heading text is a line of text atoms alternating with
  ANY of the other atoms of the stages: code spans (8), `*x*` / `**x**` (11), `_x_` / `__x__` (20), inline links
  `[t](d)` (16), images `![t](d)` (17), URI autolinks `<s:r>` (18), raw inline tags `<n>` / `</n>` (19). The line begins
  and ends with text as in stage 11 (`elineOKS`); around an UNDERSCORE emphasis atom the source bytes of the neighbouring
  text are white space or punctuation as in stage 20 (`unbeforeOK` / `unafterOK`). A paragraph line that is not the last
  may end with a backslash hard break (stage 9). -/

inductive FAtomS where
  | txt (cs : List TChar)              -- text, every character in any licensed spelling
  | code (content : Bytes)             -- a code span
  | em (content : Bytes)               -- `*content*`
  | strong (content : Bytes)           -- `**content**`
  | uem (content : Bytes)              -- `_content_`
  | ustrong (content : Bytes)          -- `__content__`
  | link (text dest : Bytes)           -- `[text](dest)`
  | img (alt dest : Bytes)             -- `![alt](dest)`
  | auto (scheme rest : Bytes)         -- `<scheme:rest>`
  | otag (name : Bytes)                -- `<name>`
  | ctag (name : Bytes)                -- `</name>`
deriving Repr, Inhabited

abbrev FLineA21 := List FAtomS

def FAtomS.isTxt : FAtomS → Bool
  | .txt _ => true
  | _ => false

/-- underscore emphasis: its neighbours matter -/
def FAtomS.isUnder : FAtomS → Bool
  | .uem _ => true
  | .ustrong _ => true
  | _ => false

def f21atomOKS : FAtomS → Bool
  | .txt cs => !cs.isEmpty && cs.all charOK
  | .code content => !content.isEmpty && content.all isAlnumC
  | .em content => !content.isEmpty && content.all isAlnumC
  | .strong content => !content.isEmpty && content.all isAlnumC
  | .uem content => !content.isEmpty && content.all isAlnumC
  | .ustrong content => !content.isEmpty && content.all isAlnumC
  | .link text dest => !text.isEmpty && text.all isAlnumC && !dest.isEmpty && dest.all isDestC
  | .img alt dest => !alt.isEmpty && alt.all isAlnumC && !dest.isEmpty && dest.all isDestC
  | .auto scheme rest =>
    decide (2 ≤ scheme.length) && decide (scheme.length ≤ 32) && scheme.all isLetter && !rest.isEmpty && rest.all isAutoC
  | .otag n => tagNameOK19 n
  | .ctag n => tagNameOK19 n

/-- text atoms and the other atoms alternate -/
def f21alternatingS : List FAtomS → Bool
  | a :: b :: rest => (a.isTxt != b.isTxt) && f21alternatingS (b :: rest)
  | _ => true

/-- two neighbouring atoms (as `unpairOK`): text in front of an underscore emphasis atom ends, text behind one begins
    with a character whose outer source byte is white space or punctuation -/
def f21pairOK (a b : FAtomS) : Bool :=
  (match a with
   | .txt cs => !b.isUnder || (match cs.getLast? with | some t => unbeforeOK t | none => false)
   | _ => true) &&
  (match b with
   | .txt cs => !a.isUnder || (match cs.head? with | some t => unafterOK t | none => false)
   | _ => true)

def f21neighOK : List FAtomS → Bool
  | a :: b :: rest => f21pairOK a b && f21neighOK (b :: rest)
  | _ => true

/-- the first atom is text that begins with a literal letter -/
def f21firstOKS (l : List FAtomS) : Bool :=
  match l with
  | .txt (t :: _) :: _ => firstOK t
  | _ => false

/-- the last atom is text that ends with a literal letter or digit -/
def f21lastOKS (l : List FAtomS) : Bool :=
  match l.getLast? with
  | some (.txt cs) => (match cs.getLast? with | some z => lastOK z | none => false)
  | _ => false

def f21lineOKS (l : List FAtomS) : Bool :=
  f21alternatingS l && f21firstOKS l && f21lastOKS l && l.all f21atomOKS && f21neighOK l

/-- a paragraph line and whether a hard line break (a backslash) follows it -/
structure FLineS21 where
  atoms : List FAtomS
  hard : Bool := false
deriving Repr, Inhabited

inductive FBlockS21 where
  | para (lines : List FLineS21)
  | heading (level : Nat) (text : List FAtomS)
  | thematic (c n : Nat)
  | fcode (tilde : Bool) (n : Nat) (info : Bytes) (lines : List Bytes)
  | icode (lines : List Bytes)
deriving Repr, Inhabited

structure F21Item where
  sep : Nat := 0
  block : FBlockS21
deriving Repr, Inhabited

structure F21Doc where
  items : List F21Item
  trail : Nat := 0
deriving Repr, Inhabited

def f21lastSoftS (ls : List FLineS21) : Bool :=
  match ls.getLast? with
  | some z => !z.hard
  | none => false

def FBlockS21.isIc : FBlockS21 → Bool
  | .icode _ => true
  | _ => false

def FAtomS.isEmph : FAtomS → Bool
  | .em _ => true
  | .strong _ => true
  | .uem _ => true
  | .ustrong _ => true
  | _ => false

def FAtomS.isLinkImg : FAtomS → Bool
  | .link _ _ => true
  | .img _ _ => true
  | _ => false

/-- a former restriction of the stage-21 theorem on the lines of one paragraph (no hard break; not both emphasis atoms and
    link / image atoms in one paragraph): LIFTED — the inline proof covers the full mix — so the function is constantly
    `true` and `f21blockOKS` coincides with `f21blockOKW`; kept as the one place where a restriction would go. -/
def f21restrS (_lines : List FLineS21) : Bool := true

/-- the blocks without the restriction `f21restrS` -/
def f21blockOKW : FBlockS21 → Bool
  | .icode lines => !lines.isEmpty && lines.all icLineOK
  | .para lines => !lines.isEmpty && (lines.all fun x => f21lineOKS x.atoms) && f21lastSoftS lines
  | .heading level text => decide (1 ≤ level) && decide (level ≤ 6) && f21lineOKS text
  | .thematic _ _ => true
  | .fcode tilde _ info lines => info.all isAlnumC && lines.all (codeLineOK (fenceChar tilde))

def f21blockOKS : FBlockS21 → Bool
  | .icode lines => !lines.isEmpty && lines.all icLineOK
  | .para lines =>
    !lines.isEmpty && (lines.all fun x => f21lineOKS x.atoms) && f21lastSoftS lines && f21restrS lines
  | .heading level text =>
    decide (1 ≤ level) && decide (level ≤ 6) && f21lineOKS text && f21restrS [{ atoms := text, hard := false }]
  | .thematic _ _ => true
  | .fcode tilde _ info lines => info.all isAlnumC && lines.all (codeLineOK (fenceChar tilde))

/-- may `b` follow `a` without a blank line? (as `uabutOK`) -/
def f21abutOK (a b : FBlockS21) : Bool :=
  match a with
  | .para _ =>
    (match b with
     | .heading _ _ => true
     | .thematic c _ => c % 3 != 1
     | .fcode _ _ _ _ => true
     | .para _ => false
     | .icode _ => false)
  | _ => true

/-- as `usepsOK` -/
def f21sepsOK : Option FBlockS21 → List F21Item → Bool
  | _, [] => true
  | none, it :: rest => f21sepsOK (some it.block) rest
  | some a, it :: rest =>
    (it.sep != 0 || f21abutOK a it.block) && !(a.isIc && it.block.isIc) && f21sepsOK (some it.block) rest

def f21fragB (d : F21Doc) : Bool := (d.items.all fun it => f21blockOKS it.block) && f21sepsOK none d.items

/-- the fragment without the restriction `f21restrS` (what the tie also compares with goldmark) -/
def f21fragWB (d : F21Doc) : Bool := (d.items.all fun it => f21blockOKW it.block) && f21sepsOK none d.items

def F21Frag (d : F21Doc) : Prop := f21fragB d = true

instance (d : F21Doc) : Decidable (F21Frag d) := by unfold F21Frag; infer_instance

/-- the last block is not an indented code block -/
def f21lastNotIc (d : F21Doc) : Bool :=
  match d.items.getLast? with
  | some it => !it.block.isIc
  | none => true

def f21fragEB (d : F21Doc) : Bool := f21fragB d && d.trail == 0 && !d.items.isEmpty && f21lastNotIc d

def F21FragE (d : F21Doc) : Prop := f21fragEB d = true

instance (d : F21Doc) : Decidable (F21FragE d) := by unfold F21FragE; infer_instance

def spellFAtom : FAtomS → Bytes
  | .txt cs => escSpell cs
  | .code content => [96] ++ content ++ [96]
  | .em content => [42] ++ content ++ [42]
  | .strong content => [42, 42] ++ content ++ [42, 42]
  | .uem content => [95] ++ content ++ [95]
  | .ustrong content => [95, 95] ++ content ++ [95, 95]
  | .link text dest => [91] ++ text ++ [93, 40] ++ dest ++ [41]
  | .img alt dest => [33, 91] ++ alt ++ [93, 40] ++ dest ++ [41]
  | .auto scheme rest => [60] ++ autoUri scheme rest ++ [62]
  | .otag n => [60] ++ n ++ [62]
  | .ctag n => [60, 47] ++ n ++ [62]

/-- the source bytes of one rich line, without its line ending -/
def spellFLineA (l : List FAtomS) : Bytes := l.flatMap spellFAtom

def spellFLine21 (x : FLineS21) : Bytes := if x.hard then spellFLineA x.atoms ++ [92] else spellFLineA x.atoms

def spellFBlock21 : FBlockS21 → Bytes
  | .para lines => lines.flatMap fun x => spellFLine21 x ++ [10]
  | .heading level text => List.replicate level 35 ++ [32] ++ spellFLineA text ++ [10]
  | .thematic c n => thematicLine c n false ++ [10]
  | .fcode tilde n info lines =>
    List.replicate (n + 3) (fenceChar tilde) ++ info ++ [10] ++ lines.flatMap (· ++ [10]) ++
      List.replicate (n + 3) (fenceChar tilde) ++ [10]
  | .icode lines => lines.flatMap fun l => [32, 32, 32, 32] ++ l ++ [10]

/-- the Markdown source of a stage-21 document -/
def spellF21 (d : F21Doc) : Bytes :=
  (d.items.flatMap fun it => blanks it.sep ++ spellFBlock21 it.block) ++ blanks d.trail

/-- the Markdown source without the final line feed -/
def spellF21E (d : F21Doc) : Bytes := (spellF21 d).dropLast

def expFAtom : FAtomS → Bytes
  | .txt cs => escHtml (plain cs)
  | .code content => strBytes "<code>" ++ escHtml content ++ strBytes "</code>"
  | .em content => strBytes "<em>" ++ escHtml content ++ strBytes "</em>"
  | .strong content => strBytes "<strong>" ++ escHtml content ++ strBytes "</strong>"
  | .uem content => strBytes "<em>" ++ escHtml content ++ strBytes "</em>"
  | .ustrong content => strBytes "<strong>" ++ escHtml content ++ strBytes "</strong>"
  | .link text dest => strBytes "<a href=\"" ++ dest ++ strBytes "\">" ++ text ++ strBytes "</a>"
  | .img alt dest => strBytes "<img src=\"" ++ dest ++ strBytes "\" alt=\"" ++ alt ++ strBytes "\" />"
  | .auto scheme rest =>
    strBytes "<a href=\"" ++ autoUri scheme rest ++ strBytes "\">" ++ autoUri scheme rest ++ strBytes "</a>"
  | .otag n => [60] ++ n ++ [62]
  | .ctag n => [60, 47] ++ n ++ [62]

def expFLineA (l : List FAtomS) : Bytes := l.flatMap expFAtom

/-- the HTML between `<p>` and `</p>` (as `expULines`) -/
def expFLines21 : List FLineS21 → Bytes
  | [] => []
  | [x] => expFLineA x.atoms
  | x :: rest => expFLineA x.atoms ++ (if x.hard then strBytes "<br />\n" else [10]) ++ expFLines21 rest

def expFBlock21 : FBlockS21 → Bytes
  | .para lines => strBytes "<p>" ++ expFLines21 lines ++ strBytes "</p>\n"
  | .heading level text =>
    strBytes "<h" ++ [UInt8.ofNat (48 + level)] ++ [62] ++ expFLineA text ++ strBytes "</h" ++
      [UInt8.ofNat (48 + level)] ++ strBytes ">\n"
  | .thematic _ _ => strBytes "<hr />\n"
  | .fcode _ _ info lines =>
    strBytes "<pre><code" ++ (if info.isEmpty then [] else strBytes " class=\"language-" ++ info ++ [34]) ++ [62] ++
      lines.flatMap (fun l => escHtml l ++ [10]) ++ strBytes "</code></pre>\n"
  | .icode lines => strBytes "<pre><code>" ++ lines.flatMap (fun l => escHtml l ++ [10]) ++ strBytes "</code></pre>\n"

/-- the HTML the specification prescribes for a stage-21 document -/
def expectedF21 (d : F21Doc) : Bytes := d.items.flatMap fun it => expFBlock21 it.block

/-- the spec-model inline of an atom (emphasis with the delimiter it is written with) -/
def f21embedAtom : FAtomS → Inline
  | .txt cs => .text cs
  | .code content => .code content 0 false
  | .em content => .emph false [.text (elits content)]
  | .strong content => .strong false [.text (elits content)]
  | .uem content => .emph true [.text (elits content)]
  | .ustrong content => .strong true [.text (elits content)]
  | .link text dest => .link [.text (elits text)] dest none [] {}
  | .img alt dest => .image [.text (elits alt)] dest none [] {}
  | .auto scheme rest => .autolink (autoUri scheme rest) false
  | .otag n => .rawHtml ([60] ++ n ++ [62])
  | .ctag n => .rawHtml ([60, 47] ++ n ++ [62])

def f21embedLines : List FLineS21 → List Inline
  | [] => []
  | [x] => x.atoms.map f21embedAtom
  | x :: rest => x.atoms.map f21embedAtom ++ (if x.hard then .hardBreak true 0 else .softBreak) :: f21embedLines rest

def f21embedBlock (abut : Bool) : FBlockS21 → Block
  | .para lines => .para { abut := abut } (f21embedLines lines) 0
  | .heading level text => .heading { abut := abut } level false 0 0 (text.map f21embedAtom)
  | .thematic c n => .thematic { abut := abut } c n false
  | .fcode tilde n info lines => .fcode { abut := abut } tilde n 0 0 info 0 lines
  | .icode lines => .icode lines

def f21embed (d : F21Doc) : Doc := { blocks := d.items.map fun it => f21embedBlock (it.sep == 0) it.block }

/-- the spec-model document with the choice "no final line ending" -/
def f21embedE (d : F21Doc) : Doc := { f21embed d with finalNewline := false }

/-- as `unoExtraBlanks` -/
def f21noExtraBlanksFrom : Option FBlockS21 → List F21Item → Bool
  | _, [] => true
  | none, it :: rest => it.sep == 0 && f21noExtraBlanksFrom (some it.block) rest
  | some a, it :: rest =>
    it.sep ≤ 1 && (!(a.isIc || it.block.isIc) || it.sep == 1) && f21noExtraBlanksFrom (some it.block) rest

def f21noExtraBlanks (d : F21Doc) : Bool := d.trail == 0 && f21noExtraBlanksFrom none d.items

/-! ### stage 22: the WIDER class of quoted contents (block-quote simulation with lists and blank lines)

  The contents of the (nested) block quotes of stages 10 / 14 / 15 may now contain `-`, `*`, `+` and digits: the
  source must contain no tab, no carriage return and no `[` (`gqcleanByte`), and NO LINE may have `-` or `=` as its
  last byte that is not white space (`noBarEnd`: no rest of a line is a setext heading underline). Spelling and
  prescribed HTML are unchanged: `spellNQ k d` / `expectedNQ k d`, `quoteLinesN (k + 1) (spellU d)` /
  `wrapQ (k + 1) (expectedU d)`. -/

def gqcleanByte (c : UInt8) : Bool := c != 9 && c != 13 && c != 91

/-- the byte may end a line: it is neither `-` nor `=` -/
def gqEndOK (l : UInt8) : Bool := l != 45 && l != 61

/-- `noBarEnd` with the last byte of the current line that is not white space (space, tab, carriage return) as state;
    `0` at the start of a line -/
def noBarEndGo : Bytes → UInt8 → Bool
  | [], l => gqEndOK l
  | c :: cs, l =>
    if c == 10 then gqEndOK l && noBarEndGo cs 0
    else noBarEndGo cs (if c == 32 || c == 9 || c == 13 then l else c)

/-- no line of the source (lines are separated by the byte 10) has `-` or `=` as its last byte that is not white space -/
def noBarEnd (s : Bytes) : Bool := noBarEndGo s 0

def gqfragB (d : KDoc) : Bool :=
  kfragB d && !d.items.isEmpty && (spellK d).all gqcleanByte && noBarEnd (spellK d)

def GQFrag (d : KDoc) : Prop := gqfragB d = true

instance (d : KDoc) : Decidable (GQFrag d) := by unfold GQFrag; infer_instance

def guqfragB (d : UDocS) : Bool :=
  ufragB d && !d.items.isEmpty && (d.items.all fun it => !it.block.isIc) && (spellU d).all gqcleanByte &&
    noBarEnd (spellU d)

def GUQFrag (d : UDocS) : Prop := guqfragB d = true

instance (d : UDocS) : Decidable (GUQFrag d) := by unfold GUQFrag; infer_instance

/-! ### stage 23: a stage-21 document (all inline atoms) inside `k + 1` nested block quotes, the wider class of stage 22

  Spelling `quoteLinesN (k + 1) (spellF21 d)`, prescribed HTML `wrapQ (k + 1) (expectedF21 d)`. `gqcleanByte` excludes `[`,
  so link and image atoms cannot occur; autolinks, raw tags, code spans, `*` / `_` emphasis can. No indented code block. -/

def gf21qfragB (d : F21Doc) : Bool :=
  f21fragB d && !d.items.isEmpty && (d.items.all fun it => !it.block.isIc) && (spellF21 d).all gqcleanByte &&
    noBarEnd (spellF21 d)

def GF21QFrag (d : F21Doc) : Prop := gf21qfragB d = true

instance (d : F21Doc) : Decidable (GF21QFrag d) := by unfold GF21QFrag; infer_instance

end GM.Spec.CMFrag
