/-
  GM.Spec.FilterSet — what a program of BytesFilter operations means, written without looking at the
  implementation: every filter is a plain list of keys. `new` creates one from its arguments, `add`
  appends a key to one filter, `extend` creates a new filter from a snapshot of the parent's keys plus
  the extra ones. (Operations on a filter id that does not exist do nothing, as in the model; the Go API
  cannot express them.)
-/
import GM.Model.Filter
namespace GM.Spec.FilterSet
open GM GM.Filter

def specStep (S : List (List Bytes)) : Op → List (List Bytes)
  | .new es => S ++ [es]
  | .add f b => if f < S.length then S.set f (S.getD f [] ++ [b]) else S
  | .extend f bs => if f < S.length then S ++ [S.getD f [] ++ bs] else S
  | .extendString f s => if f < S.length then S ++ [S.getD f [] ++ splitComma s] else S
  | .newString s => S ++ [splitComma s]

/-- the key list of every filter after a program -/
def specRun (ops : List Op) : List (List Bytes) := ops.foldl specStep []

end GM.Spec.FilterSet
