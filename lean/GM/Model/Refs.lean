/-
  GM.Model.Refs — the link reference map of a parse context (parser/parser.go:352-362): AddReference keys
  the map by util.ToLinkReference(label) and keeps the FIRST definition of a key; link.go:193,284 look a
  reference up by util.ToLinkReference(label as written at the use). Core Lean only.
-/
import GM.Model.Util

namespace GM.Refs
open GM

/-- parseContext.AddReference -/
def addRef {α : Type} (m : List (Bytes × α)) (d : Bytes × α) : List (Bytes × α) :=
  if (m.lookup (toLinkReference d.1)).isSome then m else m ++ [(toLinkReference d.1, d.2)]

/-- the map after the block phase has seen the definitions `ds` in document order -/
def build {α : Type} (ds : List (Bytes × α)) : List (Bytes × α) := ds.foldl addRef []

/-- pc.Reference(util.ToLinkReference(label)) -/
def lookupRef {α : Type} (m : List (Bytes × α)) (label : Bytes) : Option α := m.lookup (toLinkReference label)

/-- two-phase parse of the reference-relevant part of a document: first every definition (block phase,
    document order), then every use (inline phase) is resolved against the finished map -/
def resolveUses {α : Type} (defs : List (Bytes × α)) (uses : List Bytes) : List (Option α) :=
  uses.map (lookupRef (build defs))

end GM.Refs
