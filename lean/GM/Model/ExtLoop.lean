/-
  GM.Model.ExtLoop — the built-in extensions' inline parsers as parsers of the inline driver model
  (GM.Model.InlineLoop): trigger bytes from the REGENERATED facts (GM.Spec.ExtFacts over GM.Gen.ExtFacts), script =
  the decline model of GM.Model.ExtDecline applied to the line the reader shows at the consulted position.
  Tied to the real parsers running inside the real (*parser).parseBlock by op `loop` of component `extdecline`.
  Core Lean only.
-/
import GM.Model.InlineLoop
import GM.Model.ExtDecline
import GM.Spec.ExtFacts

namespace GM.ExtLoop
open GM GM.InlineLoop

/-- what `block.PeekLine()` shows a parser consulted with the reader at `(line, pos)`: `source[pos : line.Stop]`
    (padding 0) -/
def peekAt (b : Block) (line pos : Nat) : Bytes :=
  match b.lines[line]? with
  | some s => slice b.src pos s.stop
  | none => []

/-- an extension parser's observable answer as a script result. An accepting parser that also flushes a byte into
    the parent (Linkify) is outside the abstract loop (parsers there do not touch the parent); a panic / an
    unmodelled answer cannot occur on the lines the theorems speak about. They are mapped to "decline" to keep the
    script total; the tie (op `loop`) runs only documents on which they do not occur. -/
def toRes (id : Nat) : Ext.IRes → Res
  | .nil m => .decline m
  | .node _ a _ => .accept a id
  | _ => .decline 0

/-- an extension's inline parser inside the loop model: regenerated triggers + decline model -/
def extParser (b : Block) (id : Nat) (triggers : Bytes) (parse : Nat → Nat → Bytes → Ext.IRes) : Parser :=
  ⟨id, triggers, fun l p => toRes id (parse l p (peekAt b l p))⟩

/-- the instances compared with the real parsers by op `loop` -/
def extOf (name : String) (b : Block) : Option Parser :=
  match name with
  | "linkify" => some (extParser b 0 (Spec.Ext.triggersOf "linkify" "inline") fun _ _ => Ext.linkifyParse false)
  | "typographer" => some (extParser b 0 (Spec.Ext.triggersOf "typographer" "inline") fun _ _ => Ext.typoParse)
  | "footnote" => some (extParser b 0 (Spec.Ext.triggersOf "footnote" "inline") fun _ _ => Ext.footnoteParse none)
  | _ => none

end GM.ExtLoop
