/-
  GM.Model.LinkRef — parser/link_ref.go, statement by statement: `parseLinkReferenceDefinition` (56-171) over the
  block reader model, `linkReferenceParagraphTransformer.Transform` (16-54) over the block-phase state
  (GM.Model.Blocks.Basic: node store + parse context), `pc.AddReference` = GM.Refs.addRef (parser.go:352-357,
  first definition of a normalised key wins). Core Lean only.

  The destination scanner is the one of the inline phase (`parseLinkDestination`, link.go:333-372 =
  GM.Inl.parseLinkDestination); the title is read with `FindClosure` directly (link_ref.go:132-148), not with
  `parseLinkTitle`.

  Outcomes. Go run-time panics are explicit (`index`: `line[pos]`; `slice`: `Segments.Sliced/SetSliced`;
  `nil`: `node.Parent().ReplaceChild` on a parentless paragraph). `Panic.loop` = a fuelled loop ran out of fuel
  (GM.Props.Convert.transform_never_loops: it does not). `Panic.pre` is answered in four places that are NOT Go code:
    * `transformLoop`: the progress monitor — a successful definition must leave the block reader at a larger byte
      offset (it consumed at least its `[`); the Go loop would spin otherwise;
    * `removeLoop`: `SetSliced(0, hi)` with `len < hi ≤ cap` would re-expose stale elements of the backing array,
      which the list model does not keep (never the case when the removed ranges are adjacent from line 0 on);
    * `finishLines`: contract monitor (3) — the removed ranges are adjacent from line 0 on and end inside the paragraph;
    * `guardedTransform` (the entry point the composition GM.Model.Convert uses): the run-time check of the hypothesis
      of the termination theorem (well-formed lines), see there.
-/
import GM.Model.Blocks.Basic
import GM.Model.InlinesParsers
import GM.Model.Refs

namespace GM.LinkRef
open GM GM.Text GM.Blocks

abbrev RefMap := List (Bytes × (Bytes × Option Bytes))

/-- the value of a `*Segments` FindClosure returned (link_ref.go:82-90 / 140-148): one segment → `block.Value`
    of it (non-nil); otherwise the concatenation, which is nil when nothing was appended -/
def closureValue (rd : BlockReader) (segs : List Segment) : Except Panic (Option Bytes) := do
  let v ← GM.Inl.segsValue rd segs
  if segs.length == 1 then pure (some v) else pure (if v.isEmpty then none else some v)

/-- what `parseLinkReferenceDefinition` has done when it returns: `(start, end)` (−1, −1 = no definition), the block
    reader, the reference map -/
abbrev DefRes := Except Panic ((Int × Int) × BlockReader × RefMap)

def noDef (rd : BlockReader) (refs : RefMap) : DefRes := .ok ((-1, -1), rd, refs)

/-- `pc.AddReference(NewReference(label, destination, title))` -/
def addReference (refs : RefMap) (label dest : Bytes) (title : Option Bytes) : RefMap :=
  GM.Refs.addRef refs (label, (dest, title))

/-- link_ref.go:57-75: SkipSpaces, PeekLine, the indentation test and `line[pos] != '['`.
    `none` = `return -1, -1`; `some (startLine, pos)` = the opening bracket is at `line[pos]` -/
def defHead (rd : BlockReader) : Except Panic (Option (Int × Int) × BlockReader) := do
  let (_, rd) ← skipSpaces blockOps (GM.Inl.rdFuel rd) 0 rd
  let ((line, _), rd) ← rd.peekLine
  match line with
  | none => pure (none, rd)
  | some line =>
    let startLine := rd.position.1
    let (width, pos) := indentWidthI line 0
    if width > 3 then pure (none, rd)
    else
      let pos := if width != 0 then pos + 1 else pos
      if (← idx line pos) != 91 then pure (none, rd)
      else pure (some (startLine, pos), rd)

/-- link_ref.go:117-125 / 143-150 (since 0539a73): what follows the destination's line is not a title but paragraph
    text: `block.SetPosition(endLine, endPos); block.AdvanceLine()`, the definition is registered WITHOUT a title and
    ends behind the destination's line -/
def defNoTitle (rd : BlockReader) (refs : RefMap) (startLine endLine : Int) (endPos : Segment) (label destination : Bytes) :
    DefRes := do
  let rd ← rd.setPosition endLine endPos
  let rd ← rd.advanceLine
  pure ((startLine, endLine + 1), rd, addReference refs label destination none)

/-- link_ref.go:127-159: a closing title delimiter has been found -/
def defTitled (rd : BlockReader) (refs : RefMap) (startLine endLine : Int) (endPos : Segment) (isNewLine : Bool)
    (label destination : Bytes) (segs : List Segment) : DefRes := do
  let title ← closureValue rd segs
  let ((line, _), rd) ← rd.peekLine
  let restNotBlank := match line with | none => false | some l => !isBlank l
  if restNotBlank then
    -- a title must be followed by the end of the line
    if !isNewLine then noDef rd refs
    else defNoTitle rd refs startLine endLine endPos label destination
  else
    let endLine := rd.position.1
    pure ((startLine, endLine + 1), rd, addReference refs label destination title)

/-- link_ref.go:93-159: behind the destination -/
def defAfterDest (rd : BlockReader) (refs : RefMap) (startLine : Int) (label destination : Bytes) : DefRes := do
  let ((line, _), rd) ← rd.peekLine
  let isNewLine := match line with | none => true | some l => isBlank l
  let (endLine, endPos) := rd.position
  let ((_, spaces, _), rd) ← skipSpaces blockOps (GM.Inl.rdFuel rd) 0 rd
  let opener ← rd.peek
  if opener != 34 && opener != 39 && opener != 40 then
    if !isNewLine then noDef rd refs
    else pure ((startLine, endLine + 1), rd, addReference refs label destination none)
  else if spaces == 0 then noDef rd refs
  else
    let rd ← rd.advance 1
    let closer : UInt8 := if opener == 40 then 41 else opener
    let ((segs, found), rd) ← findClosure blockOps (GM.Inl.rdFuel rd) opener closer GM.Inl.linkFindClosureOptions rd
    if !found then
      if !isNewLine then noDef rd refs
      else defNoTitle rd refs startLine endLine endPos label destination
    else defTitled rd refs startLine endLine endPos isNewLine label destination (segs.getD [])

/-- link_ref.go:91-105: behind the label -/
def defAfterLabel (rd : BlockReader) (refs : RefMap) (startLine : Int) (label : Bytes) : DefRes := do
  if isBlank label then noDef rd refs
  else if (← rd.peek) != 58 then noDef rd refs
  else
    let rd ← rd.advance 1
    let (_, rd) ← skipSpaces blockOps (GM.Inl.rdFuel rd) 0 rd
    let (destination, rd) ← GM.Inl.parseLinkDestination rd
    match destination with
    | none => noDef rd refs
    | some destination => defAfterDest rd refs startLine label destination

/-- link_ref.go:73-90: from `block.Advance(pos + 1)` on -/
def defTail (rd : BlockReader) (refs : RefMap) (startLine pos : Int) : DefRes := do
  let rd ← rd.advance (pos + 1)
  let ((segs, found), rd) ← findClosure blockOps (GM.Inl.rdFuel rd) 91 93 GM.Inl.linkFindClosureOptions rd
  if !found then noDef rd refs
  else
    let label := (← closureValue rd (segs.getD [])).getD []
    defAfterLabel rd refs startLine label

/-- parser.parseLinkReferenceDefinition (link_ref.go:56-171) -/
def parseLinkReferenceDefinition (rd : BlockReader) (refs : RefMap) : DefRes := do
  let (h, rd) ← defHead rd
  match h with
  | none => noDef rd refs
  | some (startLine, pos) => defTail rd refs startLine pos

/-- progress measure of the `for` loop of Transform: bytes of the source behind the reader's offset -/
def offsetMeasure (rd : BlockReader) : Nat := ((rd.source.length : Int) - rd.pos.start).toNat

/-- the `for { … }` of Transform (link_ref.go:20-31): the removed line ranges and the reference map.
    `fuel` bounds the number of definitions. PROGRESS MONITOR (not Go code): after a definition the reader must
    be at a larger byte offset, otherwise `pre`. -/
def transformLoop : Nat → BlockReader → RefMap → List (Int × Int) → Except Panic (List (Int × Int) × RefMap)
  | 0, _, _, _ => .error .loop
  | fuel + 1, rd, refs, removes => do
    let ((s, e), rd', refs) ← parseLinkReferenceDefinition rd refs
    if s > -1 then
      if !(offsetMeasure rd' < offsetMeasure rd) then throw .pre       -- progress monitor
      transformLoop fuel rd' refs (removes ++ [(s, e)])
    else pure (removes, refs)

/-- `Segments.Sliced(lo, hi)` / `s.values[lo:hi]` for `hi ≤ len` -/
def slicedSegs (l : List Segment) (lo hi : Int) : Except Panic (List Segment) :=
  if 0 ≤ lo ∧ lo ≤ hi ∧ hi ≤ l.length then .ok ((l.drop lo.toNat).take (hi - lo).toNat) else .error .slice

/-- the second loop of Transform (link_ref.go:33-42) on the value of `lines` -/
def removeLoop : List (Int × Int) → Int → List Segment → Except Panic (List Segment)
  | [], _, lines => pure lines
  | (r0, r1) :: rest, offset, lines =>
    if lines.length == 0 then pure lines                       -- `break`
    else do
      let s ← slicedSegs lines (r1 - offset) lines.length
      -- `lines.SetSliced(0, hi)` is checked against the CAPACITY in Go; beyond the length it would re-expose stale
      -- elements, which the model does not keep
      if r0 - offset > lines.length then throw .pre
      let kept ← slicedSegs lines 0 (r0 - offset)
      removeLoop rest r1 (kept ++ s)

/-- fuel of `transformLoop`: every definition consumes at least one byte -/
def transformFuel (rd : BlockReader) : Nat := offsetMeasure rd + 1

/-- link_ref.go:17-31: the block reader over the paragraph's lines and the first loop -/
def transformScan (src : Bytes) (lines : List Segment) (refs : RefMap) : Except Panic (List (Int × Int) × RefMap) := do
  let block ← BlockReader.new src lines
  transformLoop (transformFuel block) block refs []

/-- the removed ranges start at `off` and are adjacent: `(off, e₁), (e₁, e₂), …`, each non-empty -/
def adjacentB : Int → List (Int × Int) → Bool
  | _, [] => true
  | off, (r0, r1) :: rest => r0 == off && decide (off < r1) && adjacentB r1 rest

/-- the end of the last range -/
def lastEndOf : Int → List (Int × Int) → Int
  | off, [] => off
  | _, (_, r1) :: rest => lastEndOf r1 rest

/-- the second loop of Transform behind CONTRACT MONITOR (3) (not Go code): every definition starts on the line where the
    previous one ended (the first on line 0), is not empty, and the last one ends inside the paragraph — what makes the
    `offset` arithmetic of the loop remove exactly an initial segment of the lines. Since /repo 0539a73 the scan only
    produces such ranges (the reader continues at the start of the line behind a definition); before it the monitor
    fires on findings R4 / R5. `pre` otherwise; the tie shows that it never fires. -/
def finishLines (removes : List (Int × Int)) (lines : List Segment) : Except Panic (List Segment) :=
  if !(adjacentB 0 removes && decide (lastEndOf 0 removes ≤ lines.length)) then .error .pre
  else removeLoop removes 0 lines

/-- link_ref.go:30-50: remove the lines of the definitions; an empty paragraph is replaced by an empty TextBlock -/
def transformFinish (node : Nat) (n : Node) (removes : List (Int × Int)) (refs : RefMap) : M Unit := do
  modPc fun pc => { pc with refs := refs }
  let lines ← liftE (finishLines removes n.lines)
  -- `lines` is the paragraph's own *Segments: it has been changed in place
  modNode node fun n => { n with lines := lines }
  if lines.length == 0 then
    let t ← newNode { kind := .textBlock, blankPrev := n.blankPrev }
    match n.parent with
    | none => throw .nil                                       -- node.Parent().ReplaceChild on a nil interface
    | some p => replaceChild p node t
  -- else `node.SetLines(lines)`: the same object

/-- linkReferenceParagraphTransformer.Transform (link_ref.go:16-54) -/
def transform (node : Nat) : M Unit := do
  let n ← getNode node
  let src ← source
  let refs := (← getPc).refs
  let (removes, refs) ← liftE (transformScan src n.lines refs)
  transformFinish node n removes refs

/-! ### the run-time check of the termination theorem's hypothesis -/

/-- `WFSegsFrom src lo segs` (GM.Spec.Cursor) as a Boolean: every line is non-empty, inside the source, starts at or
    behind the previous line's stop, has a non-negative padding and no ForceNewline -/
def wfSegsFromB (src : Bytes) : Int → List Segment → Bool
  | _, [] => true
  | lo, s :: rest =>
    decide (lo ≤ s.start) && decide (s.start < s.stop) && decide (s.stop ≤ src.length) && decide (0 ≤ s.padding) &&
      !s.forceNewline && wfSegsFromB src s.stop rest

/-- `WFSegs src segs` as a Boolean -/
def wfSegsB (src : Bytes) (segs : List Segment) : Bool := !segs.isEmpty && wfSegsFromB src 0 segs

/-- all paddings are 0 -/
def pad0B (segs : List Segment) : Bool := segs.all fun s => s.padding == 0

/-- `WF0 src segs` (GM.Proof.InlinesReader) as a Boolean -/
def wf0B (src : Bytes) (segs : List Segment) : Bool := wfSegsB src segs && pad0B segs

/-- `Transform` behind the run-time check of what GM.Props.Convert.transform_never_loops assumes of the paragraph's
    lines: they are well-formed (`WFSegs`: non-empty, inside the source, increasing, paddings ≥ 0, no ForceNewline —
    what the block phase is observed to produce, GM.Blocks.allLinesOK). `pre` otherwise. Virtual padding (continuation
    lines behind a partly consumed tab inside a container) is allowed. A paragraph without lines (not producible by the
    paragraph parser) is passed on: the scan ends at its first `PeekLine`. -/
def guardedTransform (node : Nat) : M Unit := do
  let n ← getNode node
  let src ← source
  if n.lines.length != 0 && !wfSegsB src n.lines then throw .pre
  transform node

end GM.LinkRef
