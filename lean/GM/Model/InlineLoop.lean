/-
  GM.Model.InlineLoop — the per-block inline driver `(*parser).parseBlock` (parser/parser.go:1152-1269),
  the block reader operations it uses (text/reader.go:316-335, 422-482: Reset, PeekLine, Advance, AdvanceLine,
  Position, SetPosition), `ast.MergeOrAppendTextSegment` (ast/inline.go:204-212) and
  `Segment.TrimRightSpace` (text/segment.go:97-104), parametrised by ABSTRACT inline parsers.

  A parser is: its trigger bytes + a script from the reader position `(line, pos.Start)` to
  `decline moved` (returns nil after having moved the reader by `moved` bytes; the loop restores the position)
  or `accept n id` (advances the reader by `n` bytes and returns the node `id`).
  The list of parsers is given in the order of the sorted configuration (priority order; C20's business).

  Not modelled (outside the abstraction): Segment.Padding (the block's lines and reader positions have padding 0
  – checked by the harness on every block it compares), `ProcessDelimiters`/`CloseBlock` (no-ops without
  delimiter/close-blocker parsers), `parent.IsRaw()` blocks (skipped by the code), Text.IsRaw (never set on
  nodes the loop creates; a parser-created node is an opaque id here).
  Core Lean only.
-/
import GM.Model.ByteClass

namespace GM.InlineLoop

/-- a line of the block: `text.Segment{Start, Stop}` (Padding 0) -/
structure Seg where
  start : Nat
  stop : Nat
deriving DecidableEq, Repr, Inhabited

structure Block where
  src : Bytes
  lines : List Seg

/-- `blockReader.last` (reader.go:322-325): Stop of the last segment -/
def Block.last (b : Block) : Nat :=
  match b.lines.getLast? with
  | some s => s.stop
  | none => 0

/-- `blockReader{line, pos}` (padding 0; head/lineOffset are not read by the loop) -/
structure Reader where
  line : Nat
  start : Nat
  stop : Nat
deriving DecidableEq, Repr, Inhabited

/-- `SetPosition(line, invalid)` (reader.go:466-482) -/
def setLine (b : Block) (r : Reader) (l : Nat) : Reader :=
  match b.lines[l]? with
  | some s => ⟨l, s.start, s.stop⟩
  | none => { r with line := l }

/-- `AdvanceLine` (reader.go:457-460) -/
def advanceLine (b : Block) (r : Reader) : Reader := setLine b r (r.line + 1)

/-- `Reset` + `ResetPosition`: line −1, then AdvanceLine. With no lines the position stays invalid (−1,−1):
    `PeekLine` answers nil because `line < segmentsLength` fails; the model keeps (0,0) there. -/
def resetReader (b : Block) : Reader := setLine b ⟨0, 0, 0⟩ 0

/-- one iteration of the slow loop of `Advance` (reader.go:437-447), padding 0 -/
def advance1 (b : Block) (r : Reader) : Reader :=
  if r.start + 1 ≥ r.stop ∧ r.stop < b.last then advanceLine b r else { r with start := r.start + 1 }

def advanceSlow (b : Block) : Nat → Reader → Reader
  | 0, r => r
  | n + 1, r => advanceSlow b n (advance1 b r)

/-- `Advance(n)` (reader.go:429-448) -/
def advance (b : Block) (r : Reader) (n : Nat) : Reader :=
  if n < r.stop - r.start then { r with start := r.start + n } else advanceSlow b n r

/-- `buffer[start:stop]` when it does not panic -/
def slice (src : Bytes) (start stop : Nat) : Bytes := (src.drop start).take (stop - start)

inductive Peek
  | none                     -- PeekLine returned nil
  | panic                    -- `buffer[Start:Stop]` out of range (Segment.Value)
  | line (l : Bytes)

/-- `PeekLine` (reader.go:422-427) + `Segment.Value` (segment.go:57-71, Padding 0, ForceNewline false) -/
def peekLine (b : Block) (r : Reader) : Peek :=
  if r.line < b.lines.length ∧ r.start < b.last then
    if r.start ≤ r.stop ∧ r.stop ≤ b.src.length then .line (slice b.src r.start r.stop) else .panic
  else .none

/-! ### children -/

inductive Child
  | text (start stop : Nat) (soft hard : Bool)
  | node (id : Nat)
deriving DecidableEq, Repr, Inhabited

/-- `ast.MergeOrAppendTextSegment(parent, [s,e))`; `kids` is the child list REVERSED (head = LastChild) -/
def mergeOrAppend : List Child → Nat → Nat → List Child
  | .text a b soft hard :: k, s, e =>
    if b == s && !soft then .text a e soft hard :: k else .text s e false false :: .text a b soft hard :: k
  | k, s, e => .text s e false false :: k

/-- Stop of `Segment{a,b}.TrimRightSpace(src)` (the Start stays): walk left over `util.IsSpace` bytes;
    an all-space (or empty) segment becomes `[a,a)`. -/
def trimStop (src : Bytes) (a : Nat) : Nat → Nat
  | 0 => a
  | b + 1 => if b < a then a else if isSpace (src.getD b 0) then trimStop src a b else b + 1

/-! ### parsers -/

inductive Res
  | decline (moved : Nat)
  | accept (n : Nat) (id : Nat)
deriving Repr

structure Parser where
  id : Nat
  triggers : Bytes
  script : Nat → Nat → Res

/-- `p.inlineParsers[c]` as built by `addInlineParser` (parser.go:778-793) from the sorted configuration:
    one entry per occurrence of `c` in `Trigger()`; `[]` stands for nil. -/
def table (ps : List Parser) (c : UInt8) : List Parser :=
  ps.flatMap fun p => (p.triggers.filter (· == c)).map fun _ => p

/-- one `ip.Parse` call: who, where (reader line / pos.Start), with which table index `pc`, at which index `i` of
    the peeked line, for which byte `c`, with which value of `escaped` -/
structure Call where
  id : Nat
  line : Nat
  pos : Nat
  pc : UInt8
  i : Nat
  c : UInt8
  escaped : Bool
deriving DecidableEq, Repr

/-- parser.go:1213-1219: the parsers of the table entry in order; a nil result is followed by
    `block.SetPosition(savedLine, savedPosition)`, so the next parser (and the loop) see `saved` again whatever
    `moved` was; the first non-nil result ends the consultation. -/
def tryParsers (b : Block) (saved : Reader) (pc : UInt8) (i : Nat) (c : UInt8) (esc : Bool) :
    List Parser → List Call → Option (Reader × Nat) × List Call
  | [], log => (none, log)
  | p :: ps, log =>
    let log := ⟨p.id, saved.line, saved.start, pc, i, c, esc⟩ :: log
    match p.script saved.line saved.start with
    | .accept n id => (some (advance b saved n, id), log)
    | .decline _moved => tryParsers b saved pc i c esc ps log

/-! ### the loop -/

structure Params where
  parsers : List Parser
  escapedSpace : Bool

structure St where
  rd : Reader
  kids : List Child        -- reversed
  escaped : Bool
  log : List Call          -- reversed

structure Flags where
  hard : Bool
  soft : Bool
  visible : Bool
deriving DecidableEq, Repr

/-- `trailingBackslashes` (parser.go:1137-1143) -/
def trailingBackslashes (l : Bytes) : Nat := (l.reverse.takeWhile (· == 92)).length

/-- parser.go:1165-1189: `lineLength` and `lineBreakFlags` of a (non-empty) peeked line -/
def classify (line : Bytes) : Nat × Flags :=
  let L := line.length
  let ix (k : Nat) : UInt8 := line.getD (L - k) 0
  let hasNL := ix 1 == 10
  if hasNL && decide (L ≥ 2) && trailingBackslashes (line.take (L - 1)) % 2 == 1 then (L - 2, ⟨true, false, true⟩)
  else if hasNL && decide (L ≥ 3) && ix 2 == 13 && trailingBackslashes (line.take (L - 2)) % 2 == 1 then
    (L - 3, ⟨true, false, true⟩)
  else if decide (L ≥ 3) && ix 3 == 32 && ix 2 == 32 && hasNL then (L - 3, ⟨true, false, false⟩)
  else if decide (L ≥ 4) && ix 4 == 32 && ix 3 == 32 && ix 2 == 13 && hasNL then (L - 4, ⟨true, false, false⟩)
  else if hasNL then (L, ⟨false, true, false⟩)
  else (L, ⟨false, false, false⟩)

inductive ScanRes
  | hit (st : St)                       -- a parser returned a node: `goto retry`
  | eol (st : St) (sp : Nat) (n : Nat)  -- the byte loop ended (or hit '\n'); `sp` = startPosition.Start

inductive StepRes
  | hit (st : St)                        -- a parser returned a node
  | cont (n sp : Nat) (st : St)          -- next byte

/-- the body of the byte loop for the byte `c = line[i]` (parser.go:1197-1239): trigger test, flush, consultation,
    then the `escaped` bookkeeping (all three branches do `n++`) -/
def step (P : Params) (b : Block) (c : UInt8) (i n sp : Nat) (st : St) : StepRes :=
  let isSp := isSpace c && c != 13 && c != 10
  let isPu := isPunct c
  let trig := (isPu && !st.escaped) || (isSp && !(st.escaped && P.escapedSpace)) || i == 0
  let pc : UInt8 := if isSp || (i == 0 && !isPu) then 32 else c
  let ips := table P.parsers pc
  let esc' := !st.escaped && c == 92
  if trig && !ips.isEmpty then
    let rd := advance b st.rd n
    let kids := if i != 0 then mergeOrAppend st.kids sp rd.start else st.kids
    let sp := if i != 0 then rd.start else sp
    match tryParsers b rd pc i c st.escaped ips st.log with
    | (some (rd', id), log) => .hit { st with rd := rd', kids := .node id :: kids, log := log }
    | (none, log) => .cont 1 sp { st with rd := rd, kids := kids, log := log, escaped := esc' }
  else .cont (n + 1) sp { st with escaped := esc' }

/-- the byte loop parser.go:1192-1240 over `line[i:lineLength]`; `n` pending bytes, `sp` = startPosition.Start -/
def scan (P : Params) (b : Block) : List UInt8 → (i n sp : Nat) → St → ScanRes
  | [], _, n, sp, st => .eol st sp n
  | c :: cs, i, n, sp, st =>
    if c == 10 then .eol st sp n else
    match step P b c i n sp st with
    | .hit st' => .hit st'
    | .cont n' sp' st' => scan P b cs (i + 1) n' sp' st'

/-- repair 8b9b792 (parser.go:1249-1255): the previous Text is trimmed too if it ends where the all-space piece
    starts and carries no flag (`!t.IsRaw()` holds for every Text the loop creates) -/
def repairPrev (src : Bytes) (kids : List Child) (sp : Nat) : List Child :=
  match kids with
  | .text a t false false :: k => if t == sp then .text a (trimStop src a t) false false :: k else kids
  | _ => kids

/-- parser.go:1243-1258: the Text for the end of the line; `kids` reversed. -/
def eolKids (src : Bytes) (fl : Flags) (kids : List Child) (sp cur : Nat) : List Child :=
  if fl.hard && fl.visible then .text sp cur fl.soft fl.hard :: kids
  else
    let e := trimStop src sp cur
    if sp ≥ e then .text sp sp fl.soft fl.hard :: repairPrev src kids sp
    else .text sp e fl.soft fl.hard :: kids

/-- parser.go:1241-1262 after the byte loop: advance the pending bytes, `continue` when that changed the line,
    else append the Text and `AdvanceLine`. Either way the next pass begins at the TOP of the `for` loop, where
    `escaped = false` (parser.go:1160, repair 24c9f23; a `goto retry` — `ScanRes.hit` — keeps the flag) -/
def eol (b : Block) (fl : Flags) (l : Nat) (st : St) (sp n : Nat) : St :=
  let rd := if n != 0 then advance b st.rd n else st.rd
  if l != rd.line then { st with rd := rd, escaped := false }
  else { st with rd := advanceLine b rd, kids := eolKids b.src fl st.kids sp rd.start, escaped := false }

inductive Pass
  | done                      -- PeekLine returned nil: the loop ends
  | panic (kind : String)
  | next (st : St)            -- `goto retry` / next iteration

/-- one pass through `retry:` (parser.go:1159-1262) -/
def pass (P : Params) (b : Block) (st : St) : Pass :=
  match peekLine b st.rd with
  | .none => .done
  | .panic => .panic "slice"
  | .line line =>
    if line.isEmpty then .panic "index" else     -- line[lineLength-1] with lineLength 0
    match scan P b (line.take (classify line).1) 0 0 st.rd.start st with
    | .hit st' => .next st'
    | .eol st' sp n => .next (eol b (classify line).2 st.rd.line st' sp n)

inductive Out
  | done (st : St)
  | panic (kind : String) (st : St)
  | fuelOut (st : St)

/-- the `for { retry: … }` loop of parseBlock; one unit of fuel per pass through `retry:` -/
def loop (P : Params) (b : Block) : Nat → St → Out
  | 0, st => .fuelOut st
  | fuel + 1, st =>
    match pass P b st with
    | .done => .done st
    | .panic k => .panic k st
    | .next st' => loop P b fuel st'

def initSt (b : Block) : St := ⟨resetReader b, [], false, []⟩

/-- passes through `retry:` never exceed this when the parsers make progress (Proof.InlineLoop.fuel_suffices) -/
def fuelFor (b : Block) : Nat := (b.lines.length + 1) * (b.src.length + 2) + 1

def run (P : Params) (b : Block) : Out := loop P b (fuelFor b) (initSt b)

/-! ### observation: the resolved text -/

inductive Item
  | byte (c : UInt8)
  | brk (soft hard : Bool)
  | node (id : Nat)
deriving DecidableEq, Repr

def itemsOf (src : Bytes) : Child → List Item
  | .text a b soft hard => (slice src a b).map .byte ++ (if soft || hard then [.brk soft hard] else [])
  | .node id => [.node id]

/-- what a renderer sees of the (reversed) child list: the bytes of the text segments, the break flags, the
    other nodes — independent of how the text is cut into Text nodes -/
def resolve (src : Bytes) (kids : List Child) : List Item := kids.reverse.flatMap (itemsOf src)

def Out.st : Out → St
  | .done st | .panic _ st | .fuelOut st => st

end GM.InlineLoop
