/-
  GM.Model.Table — hand-written model of the GFM table extension, as far as it decides the *shape* of a table:

    extension/table.go   isTableDelim (124-134), the four delimiter regexps (136-139),
                         tableParagraphTransformer.Transform (152-182), parseRow (184-247),
                         parseDelimiter (249-279), renderTable/Header/Row/Cell (373-525: which tags, in which
                         order, keyed on sibling position; the alignment attribute of a cell)
    extension/ast/table.go   Alignment, NewTableCell (AlignNone, no line), NewTableHeader (moves the cells)
    text/segment.go      Value, TrimLeftSpace, TrimRightSpace

  The model mirrors the Go code branch by branch: the two nested loops of parseRow are two functions
  (`scanCell`, `rowLoop`) over the same indices `pos`, `closure`, `limit`, `i` (well-founded recursion on
  `limit - closure` / `limit - pos`, decrease proved). Core Lean only.

  Domain: every line segment of the paragraph lies inside the source (`Seg.valid`; the block parser only creates
  such segments) and has `ForceNewline = false` (only code blocks set it). The paragraph has a parent (the
  parser never calls a ParagraphTransformer on a detached paragraph; `node.Parent()` would be nil).
-/
import GM.Model.Util

namespace GM.Table

/-- extension/ast.Alignment -/
inductive Align where
  | left | right | center | none
deriving DecidableEq, Repr, Inhabited

/-- text.Segment (ForceNewline is false throughout, see header). -/
structure Seg where
  start : Nat
  stop : Nat
  padding : Nat := 0
deriving DecidableEq, Repr, Inhabited

/-- Go `buffer[a:b]` (for `a ≤ b ≤ len`). -/
def slice (src : Bytes) (a b : Nat) : Bytes := (src.drop a).take (b - a)

def Seg.valid (src : Bytes) (s : Seg) : Bool := s.start ≤ s.stop && s.stop ≤ src.length

/-- Segment.Value: padding spaces, then the bytes. -/
def Seg.value (src : Bytes) (s : Seg) : Bytes := List.replicate s.padding 32 ++ slice src s.start s.stop

/-- Segment.TrimLeftSpace: drops the padding too. -/
def Seg.trimLeft (src : Bytes) (s : Seg) : Seg :=
  { start := s.start + trimLeftSpaceLength (slice src s.start s.stop), stop := s.stop, padding := 0 }

/-- Segment.TrimRightSpace: an all-space segment collapses to (start,start) without padding. -/
def Seg.trimRight (src : Bytes) (s : Seg) : Seg :=
  let v := slice src s.start s.stop
  let l := trimRightSpaceLength v
  if l == v.length then { start := s.start, stop := s.start, padding := 0 }
  else { start := s.start, stop := s.stop - l, padding := s.padding }

/-! ### delimiter row -/

/-- isTableDelim (table.go:124-134) -/
def isTableDelim (bs : Bytes) : Bool :=
  if (indentWidth bs 0).1 > 3 then false
  else bs.all fun b => isSpace b || b == 45 || b == 124 || b == 58

/-- RE2's `\s` = `[\t\n\f\r ]` (not the same set as util.IsSpace: it has \f). -/
def reSpace (c : UInt8) : Bool := c == 9 || c == 10 || c == 12 || c == 13 || c == 32

/-- `\s*` at the start (greedy; the next atom is never a space, so no backtracking is needed) -/
def skipWs (s : Bytes) : Bytes := s.dropWhile reSpace
/-- one literal byte -/
def eat (c : UInt8) : Bytes → Option Bytes
  | x :: xs => if x == c then some xs else none
  | [] => none
/-- `\-+` (greedy; what follows is never a `-`) -/
def dashes1 : Bytes → Option Bytes
  | x :: xs => if x == 45 then some (xs.dropWhile (· == 45)) else none
  | [] => none
/-- `\s*$` -/
def endWs (s : Bytes) : Bool := s.all reSpace

/-- `^\s*\:\-+\s*$` -/
def tableDelimLeft (col : Bytes) : Bool :=
  match eat 58 (skipWs col) with
  | some r => match dashes1 r with
    | some r2 => endWs r2
    | none => false
  | none => false
/-- `^\s*\-+\:\s*$` -/
def tableDelimRight (col : Bytes) : Bool :=
  match dashes1 (skipWs col) with
  | some r => match eat 58 r with
    | some r2 => endWs r2
    | none => false
  | none => false
/-- `^\s*\:\-+\:\s*$` -/
def tableDelimCenter (col : Bytes) : Bool :=
  match eat 58 (skipWs col) with
  | some r => match dashes1 r with
    | some r2 => match eat 58 r2 with
      | some r3 => endWs r3
      | none => false
    | none => false
  | none => false
/-- `^\s*\-+\s*$` -/
def tableDelimNone (col : Bytes) : Bool :=
  match dashes1 (skipWs col) with
  | some r => endWs r
  | none => false

/-- the if/else-if chain of parseDelimiter's loop body (table.go:265-275) -/
def classify (col : Bytes) : Option Align :=
  if tableDelimLeft col then some .left
  else if tableDelimRight col then some .right
  else if tableDelimCenter col then some .center
  else if tableDelimNone col then some .none
  else Option.none

/-- `bytes.Split(line, "|")`: never empty. -/
def splitPipe : Bytes → List Bytes
  | [] => [[]]
  | c :: cs =>
    if c == 124 then [] :: splitPipe cs
    else match splitPipe cs with
      | h :: t => (c :: h) :: t
      | [] => [[c]]

def classifyAll : List Bytes → Option (List Align)
  | [] => some []
  | c :: cs => match classify c with
    | Option.none => Option.none
    | some a => match classifyAll cs with
      | Option.none => Option.none
      | some as => some (a :: as)

/-- parseDelimiter (table.go:249-279). `none` = Go's nil slice: not a delimiter line, some column fails all
    four regexps, or no column is left (`alignments` is never appended to). -/
def parseDelimiter (line : Bytes) : Option (List Align) :=
  if !isTableDelim line then Option.none
  else
    let cols := splitPipe line
    let cols := if isBlank (cols.headD []) then cols.tail else cols            -- cols[0] exists: Split is never empty
    let cols := if !cols.isEmpty && isBlank (cols.getLastD []) then cols.dropLast else cols
    match classifyAll cols with
    | Option.none => Option.none
    | some [] => Option.none
    | some al => some al

/-! ### rows -/

/-- ast.TableCell as far as shape goes: its alignment, its single line (none = `NewTableCell()` padding
    cell without a line), and the escaped-pipe positions recorded for it in the parser context. -/
structure Cell where
  align : Align
  seg : Option Seg
  esc : List Nat := []
deriving DecidableEq, Repr, Inhabited

/-- the padding cell `ast.NewTableCell()`: AlignNone, no line -/
def padCell : Cell := { align := .none, seg := Option.none, esc := [] }

/-- inner loop of parseRow (table.go:215-235): advance `closure` to the next unescaped `|` or to `limit`.
    Returns (closure, hasBacktick is not needed afterwards, escaped-pipe positions). -/
def scanCell (line : Bytes) (limit segStart : Nat) (closure : Nat) (hasBacktick : Bool) (esc : List Nat) :
    Nat × List Nat :=
  if closure < limit then
    let c := line.getD closure 0
    let hasBacktick := hasBacktick || c == 96
    if c == 124 then
      if closure == 0 || line.getD (closure - 1) 0 != 92 then (closure, esc)
      else scanCell line limit segStart (closure + 1) hasBacktick
             (if hasBacktick then esc ++ [segStart + closure - 1] else esc)
    else scanCell line limit segStart (closure + 1) hasBacktick esc
  else (closure, esc)
termination_by limit - closure

theorem scanCell_ge (line : Bytes) (limit segStart closure : Nat) (hb : Bool) (esc : List Nat) :
    closure ≤ (scanCell line limit segStart closure hb esc).1 := by
  fun_induction scanCell line limit segStart closure hb esc <;> simp_all <;> omega

/-- the cell's line: `NewSegment(segment.Start+pos, segment.Start+closure)` trimmed on both sides -/
def cellSeg (src : Bytes) (segStart pos closure : Nat) : Seg :=
  (Seg.trimLeft src { start := segStart + pos, stop := segStart + closure }).trimRight src

/-- outer loop of parseRow (table.go:200-245) including the padding loop that follows it.
    `i` counts the cells made so far. -/
def rowLoop (src line : Bytes) (limit segStart : Nat) (aligns : List Align) (isHeader : Bool)
    (pos i : Nat) : List Cell :=
  if h : pos < limit then
    if aligns.length ≤ i && !isHeader then []                        -- `return row` (excess cells dropped)
    else
      let alignment := aligns.getD i .none                            -- AlignNone when i >= len(alignments)
      let r := scanCell line limit segStart pos false []
      { align := alignment, seg := some (cellSeg src segStart pos r.1), esc := r.2 }
        :: rowLoop src line limit segStart aligns isHeader (r.1 + 1) (i + 1)
  else if isHeader then []                                            -- `for ; !isHeader && i < len(alignments); i++`
  else List.replicate (aligns.length - i) padCell
termination_by limit - pos
decreasing_by
  have := scanCell_ge line limit segStart pos false []
  omega

/-- parseRow (table.go:184-247): the row's cells. -/
def parseRow (src : Bytes) (segment : Seg) (aligns : List Align) (isHeader : Bool) : List Cell :=
  let segment := (segment.trimLeft src).trimRight src
  let line := segment.value src
  let pos := if line.head? == some 124 then 1 else 0
  let limit := if line.getLast? == some 124 then line.length - 1 else line.length
  rowLoop src line limit segment.start aligns isHeader pos 0

/-! ### Transform -/

structure Table where
  aligns : List Align
  header : List Cell
  rows : List (List Cell)
deriving DecidableEq, Repr

/-- What Transform leaves behind: the paragraph's remaining lines (`[]` = paragraph removed from its parent
    when a table was made) and the table inserted after it, if any. -/
structure Result where
  para : List Seg
  table : Option Table
deriving DecidableEq, Repr

/-- `last.Stop = last.Stop - 1` on the last remaining paragraph line (Go ints: may become Start-1; Nat
    subtraction agrees because every valid non-empty line has stop ≥ 1 — checked by the tie). -/
def trimLastNewline : List Seg → List Seg
  | [] => []
  | [s] => [{ s with stop := s.stop - 1 }]
  | s :: rest => s :: trimLastNewline rest

/-- the `for i := 1; i < lines.Len(); i++` loop of Transform (table.go:157-181): `before` = lines[0..i-1),
    `prev` = lines[i-1], `cur :: rest` = lines[i..]. After a table is made `lines.Len()` is `i-1`, so the loop
    stops; a failed header guard returns at once. -/
def findTable (src : Bytes) (all : List Seg) : List Seg → Seg → List Seg → Result
  | _, _, [] => { para := all, table := Option.none }
  | before, prev, cur :: rest =>
    match parseDelimiter (cur.value src) with
    | Option.none => findTable src all (before ++ [prev]) cur rest
    | some aligns =>
      let header := parseRow src prev aligns true
      if aligns.length != header.length then { para := all, table := Option.none }
      else
        { para := trimLastNewline before,
          table := some { aligns := aligns, header := header,
                          rows := rest.map fun l => parseRow src l aligns false } }

/-- tableParagraphTransformer.Transform (table.go:152-182) -/
def transform (src : Bytes) (lines : List Seg) : Result :=
  match lines with
  | [] => { para := lines, table := Option.none }          -- lines.Len() < 2
  | first :: rest => findTable src lines [] first rest

/-! ### rendering skeleton -/

inductive AlignMethod where
  | style | attribute | nothing
deriving DecidableEq, Repr

/-- The tokens the four render functions write, with everything but the table structure abstracted:
    `cellOpen isTh a` is `<th…>`/`<td…>` where `a` is the alignment that becomes visible as an attribute
    (`none` = no alignment attribute), `content` stands for whatever the cell's inline children render. -/
inductive Tok where
  | tableOpen | tableClose | theadOpen | theadClose | tbodyOpen | tbodyClose | trOpen | trClose
  | cellOpen (th : Bool) (a : Align) | cellClose (th : Bool) | content (seg : Option Seg)
deriving DecidableEq, Repr

/-- a child of the Table node: a TableHeader or a TableRow, with its cells -/
structure RowNode where
  isHeader : Bool
  cells : List Cell
deriving DecidableEq, Repr

/-- renderTableCell (478-525): tag by parent kind, alignment attribute unless AlignNone / method none -/
def renderCell (m : AlignMethod) (parentIsHeader : Bool) (c : Cell) : List Tok :=
  [Tok.cellOpen parentIsHeader (if m == .nothing then .none else c.align), Tok.content c.seg,
   Tok.cellClose parentIsHeader]

/-- renderTableHeader (396-413) / renderTableRow (424-439) for the child `n` whose following siblings are
    `next`: `<tbody>` is opened by the header iff it has a next sibling, `</tbody>` is written by whichever
    row is the parent's last child. -/
def renderRowNode (m : AlignMethod) (n : RowNode) (hasNext : Bool) : List Tok :=
  if n.isHeader then
    [Tok.theadOpen, Tok.trOpen] ++ n.cells.flatMap (renderCell m true) ++ [Tok.trClose, Tok.theadClose]
      ++ (if hasNext then [Tok.tbodyOpen] else [])
  else
    [Tok.trOpen] ++ n.cells.flatMap (renderCell m false) ++ [Tok.trClose]
      ++ (if hasNext then [] else [Tok.tbodyClose])

def renderChildren (m : AlignMethod) : List RowNode → List Tok
  | [] => []
  | n :: rest => renderRowNode m n (!rest.isEmpty) ++ renderChildren m rest

/-- renderTable (373-385) around its children, for an arbitrary child list -/
def renderNodes (m : AlignMethod) (children : List RowNode) : List Tok :=
  [Tok.tableOpen] ++ renderChildren m children ++ [Tok.tableClose]

/-- children of the Table node built by Transform: `NewTableHeader(header)` first, then the rows -/
def Table.children (t : Table) : List RowNode :=
  { isHeader := true, cells := t.header } :: t.rows.map fun r => { isHeader := false, cells := r }

def renderSkeleton (m : AlignMethod) (t : Table) : List Tok := renderNodes m t.children

end GM.Table
