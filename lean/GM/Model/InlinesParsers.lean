/-
  GM.Model.InlinesParsers — the inline phase of one block, part 2: the default inline parsers
  (parser.DefaultInlineParsers, parser.go:604-612) transcribed statement by statement over the block reader
  model: code_span.go:23-84, emphasis.go:39-50, link.go:51-449, auto_link.go:24-43 with
  util.FindEmailIndex / FindURLIndex (util.go:750-806, the e-mail domain regexp hand-matched),
  raw_html.go:27-150 with `Reader.Match` (reader.go:539-548) for the two tag regexps hand-matched. Core Lean only.
-/
import GM.Model.Inlines

namespace GM.Inl
open GM GM.Text

/-- what a parser sees and changes: the block reader, `parent`'s children (with them the two context lists),
    the id counter for delimiter/label nodes, the `linkBottom` stack (top = head) -/
structure St where
  rd : BlockReader
  kids : List Node := []
  nextId : Nat := 0
  bottoms : List Bottom := []

/-- a parser's answer: the node it returns (`none` = nil) and the state it leaves -/
abbrev PRes := Except Panic (Option Node × St)

/-- fuel for the reader helper loops (SkipSpaces, FindClosure) and the rune stream: they consume at least one
    byte or one line per round -/
def rdFuel (rd : BlockReader) : Nat :=
  loopFuel rd.source + rd.segments.foldl (fun a s => a + s.padding.toNat + 1) 0

/-! ### code spans (code_span.go) -/

/-- the scan of one line for a closing run of exactly `opener` back-ticks (code_span.go:41-57): the index just
    behind the run. After a run of another length the `for`'s `i++` skips one more byte. -/
def csScan (opener : Nat) : Bytes → Nat → Option Nat
  | [], _ => none
  | c :: rest, i =>
    if c == 96 then
      let closure := (spanB (· == 96) rest).1.length + 1
      if closure == opener then some (i + closure)
      else
        match h : (spanB (· == 96) rest).2 with
        | [] => none
        | _ :: rest' => csScan opener rest' (i + closure + 1)
    else csScan opener rest (i + 1)
termination_by l => l.length
decreasing_by
  all_goals simp_wf
  · have := spanB_len (· == 96) rest
    rw [h] at this; simp at this; omega

/-- CodeSpan.IsBlank (ast/inline.go:309-317) -/
def csIsBlank (src : Bytes) : List Node → Except Panic Bool
  | [] => .ok true
  | .text seg _ _ _ :: rest =>
    match seg.value src with
    | .ok v => if !isBlank v then .ok false else csIsBlank src rest
    | .error e => .error e
  | _ :: _ => .error .assert

def isSpaceOrNewline (c : UInt8) : Bool := c == 32 || c == 10

/-- `!segment.IsEmpty() && isSpaceOrNewline(source[i])` -/
def csEdge (src : Bytes) (seg : Segment) (i : Int) : Except Panic Bool :=
  if seg.isEmpty then .ok false else
    match getByte src i with
    | .ok c => .ok (isSpaceOrNewline c)
    | .error e => .error e

/-- code_span.go:61-80: strip one space/newline at both ends unless the span is blank -/
def csTrim (src : Bytes) (kids : List Node) : Except Panic (List Node) := do
  if ← csIsBlank src kids then return kids
  let first ← match kids.head? with
    | some (.text seg _ _ _) => pure seg
    | some _ => throw .assert
    | none => throw .nil
  let last ← match kids.getLast? with
    | some (.text seg _ _ _) => pure seg
    | some _ => throw .assert
    | none => throw .nil
  let a ← csEdge src first first.start
  let b ← csEdge src last (last.stop - 1)
  if !(a && b) then return kids
  let kids : List Node := match kids with
    | .text seg s h r :: rest => .text (seg.withStart (seg.start + 1)) s h r :: rest
    | k => k
  match kids.getLast? with
  | some (.text seg s h r) => return kids.dropLast ++ [.text (seg.withStop (seg.stop - 1)) s h r]
  | _ => return kids

/-- the line loop of codeSpanParser.Parse (code_span.go:34-59); one unit of fuel per line -/
def csLoop (opener : Nat) (l : Int) (pos startSegment : Segment) :
    Nat → BlockReader → List Node → Except Panic (Sum Node (List Node) × BlockReader)
  | 0, _, _ => .error .loop
  | fuel + 1, rd, kids => do
    let ((line, segment), rd) ← rd.peekLine
    match line with
    | none =>
      let rd ← rd.setPosition l pos
      pure (.inl (textOf (startSegment.withStop (startSegment.start + opener))), rd)
    | some line =>
      match csScan opener line 0 with
      | some i =>
        let seg := segment.withStop (segment.start + i - opener)
        let kids := if !seg.isEmpty then kids ++ [rawTextOf seg] else kids
        let rd ← rd.advance i
        pure (.inr kids, rd)
      | none =>
        let rd ← rd.advanceLine
        csLoop opener l pos startSegment fuel rd (kids ++ [rawTextOf segment])

/-- a parser that touches neither the children of `parent` nor the context: (node, reader afterwards) -/
abbrev RRes := Except Panic (Option Node × BlockReader)

/-- codeSpanParser.Parse -/
def parseCodeSpan (rd : BlockReader) : RRes := do
  let ((line, startSegment), rd) ← rd.peekLine
  let line := line.getD []
  let opener := (line.takeWhile (· == 96)).length
  let rd ← rd.advance opener
  let (l, pos) := rd.position
  let (res, rd) ← csLoop opener l pos startSegment (rd.segments.length + 2) rd []
  match res with
  | .inl t => pure (some t, rd)
  | .inr kids =>
    let kids ← csTrim rd.source kids
    pure (some (.codeSpan kids), rd)

/-! ### emphasis (emphasis.go) -/

/-- emphasisParser.Parse; `pc.PushDelimiter(node)` is implicit (the node is appended by the caller);
    `id` = the id the new delimiter gets -/
def parseEmphasis (env : Env) (id : Nat) (rd : BlockReader) : RRes := do
  let before ← rd.precendingCharacter
  let ((line, segment), rd) ← rd.peekLine
  let d ← scanDelimiter env (line.getD []) before
  match d with
  | none => pure (none, rd)
  | some d =>
    let d := { d with seg := segment.withStop (segment.start + d.origLength) }
    let rd ← rd.advance d.origLength
    pure (some (.delim id d), rd)

/-! ### links (link.go) -/

/-- the last `.label` child and what surrounds it -/
def splitFirstLabel : List Node → Option (List Node × (Nat × Segment × Bool) × List Node)
  | [] => none
  | .label id seg im :: rest => some ([], (id, seg, im), rest)
  | n :: rest =>
    match splitFirstLabel rest with
    | some (pre, x, post) => some (n :: pre, x, post)
    | none => none

def splitLastLabel (kids : List Node) : Option (List Node × (Nat × Segment × Bool) × List Node) :=
  match splitFirstLabel kids.reverse with
  | some (postR, x, preR) => some (preR.reverse, x, postR.reverse)
  | none => none

/- linkParser.containsLink (link.go:212-225) on one node and its descendants / on a sibling list -/
mutual
def containsLink : Node → Bool
  | .link false _ _ _ => true
  | .link true _ _ kids => containsLinkL kids
  | .emphasis _ kids => containsLinkL kids
  | .codeSpan kids => containsLinkL kids
  | _ => false
def containsLinkL : List Node → Bool
  | [] => false
  | n :: rest => containsLink n || containsLinkL rest
end

/-- pushLinkBottom (link.go:400-412): `b := pc.LastDelimiter()` goes on the stack, as a typed nil if absent -/
def pushBottom (st : St) : St :=
  let b : Bottom := match splitLastDelim st.kids with
    | some (_, id, _, _) => .id id
    | none => .tnil
  { st with bottoms := b :: st.bottoms }

/-- popLinkBottom (link.go:414-435) -/
def popBottom (st : St) : Bottom × St :=
  match st.bottoms with
  | [] => (.nil, st)
  | b :: rest => (b, { st with bottoms := rest })

/-- processLinkLabelOpen (link.go:227-236) -/
def labelOpen (st : St) (pos : Int) (isImage : Bool) : PRes := do
  let start := if isImage then pos - 1 else pos
  let rd ← st.rd.advance 1
  pure (some (.label st.nextId { start := start, stop := pos + 1 } isImage),
        { st with rd := rd, nextId := st.nextId + 1 })

/- a link-label bookkeeping node occurs in the subtree / in one of the subtrees -/
mutual
def hasLabel : Node → Bool
  | .label .. => true
  | .emphasis _ ks => hasLabelL ks
  | .link _ _ _ ks => hasLabelL ks
  | .codeSpan ks => hasLabelL ks
  | _ => false
def hasLabelL : List Node → Bool
  | [] => false
  | n :: rest => hasLabel n || hasLabelL rest
end

/-- linkParser.processLinkLabel (link.go:238-247): the children behind `last` — the last label among the
    children — become the link's children; answers them and the state whose last child is the label.
    Modelling invariants, answered with `pre` when broken (the Go code would then do something the child-list
    representation cannot express): `last` is a child of `parent` before and after ProcessDelimiters; no other
    open label lies behind it at any depth (labels are only wrapped by the final ProcessDelimiters(nil); this
    also makes sure that the label found afterwards is `last` itself); no delimiter that is still listed lies
    behind it afterwards (it would move into the link). -/
def processLinkLabel (st : St) : Except Panic (List Node × St) :=
  let st := popBottom st
  match splitLastLabel st.2.kids with
  | none => .error .pre
  | some (_, _, post0) =>
    if hasLabelL post0 then .error .pre else
    match processDelimiters st.1 st.2.kids with
    | .error e => .error e
    | .ok kids =>
      match splitLastLabel kids with
      | none => .error .pre
      | some (pre, (lid, lseg, im), post) =>
        if post.any Node.isDelim || hasLabelL post then .error .pre
        else .ok (post, { st.2 with kids := pre ++ [.label lid lseg im] })

/-- `<…>` destination (link.go:336-349): the index of the closing `>`, scanning from index `i` -/
def destAngle : Bytes → Nat → Option Nat
  | [], _ => none
  | c :: rest, i =>
    if c == 92 then
      match rest with
      | d :: rest' => if isPunct d then destAngle rest' (i + 2) else destAngle (d :: rest') (i + 1)
      | [] => none
    else if c == 62 then some i
    else if c == 60 then none          -- link.go:346 (repair 5e850d1): an unescaped `<` can not be part of a `<…>` destination
    else destAngle rest (i + 1)
termination_by l => l.length

/-- plain destination (link.go:351-371): the index where the scan stops -/
def destPlain : Bytes → Nat → Int → Nat
  | [], i, _ => i
  | c :: rest, i, opened =>
    if c == 92 then
      match rest with
      | d :: rest' => if isPunct d then destPlain rest' (i + 2) opened else destPlain (d :: rest') (i + 1) opened
      | [] => i + 1
    else if c == 40 then destPlain rest (i + 1) (opened + 1)
    else if c == 41 then (if opened - 1 < 0 then i else destPlain rest (i + 1) (opened - 1))
    else if isSpace c then i
    else destPlain rest (i + 1) opened
termination_by l => l.length

/-- the value of `opened` when the scan of `destPlain` stops (the same loop, link.go:353-371; kept apart from the index so that
    the lemmas about the index stay as they are) -/
def destOpened : Bytes → Int → Int
  | [], opened => opened
  | c :: rest, opened =>
    if c == 92 then
      match rest with
      | d :: rest' => if isPunct d then destOpened rest' opened else destOpened (d :: rest') opened
      | [] => opened
    else if c == 40 then destOpened rest (opened + 1)
    else if c == 41 then (if opened - 1 < 0 then opened - 1 else destOpened rest (opened - 1))
    else if isSpace c then opened
    else destOpened rest opened
termination_by l => l.length

/-- parseLinkDestination (link.go:333-376) -/
def parseLinkDestination (rd : BlockReader) : Except Panic (Option Bytes × BlockReader) := do
  let (_, rd) ← skipSpaces blockOps (rdFuel rd) 0 rd
  let ((line, _), rd) ← rd.peekLine
  let line := line.getD []
  if (← rd.peek) == 60 then
    match destAngle (line.drop 1) 1 with
    | some i =>
      let rd ← rd.advance (i + 1)
      pure (some ((line.drop 1).take (i - 1)), rd)
    | none => pure (none, rd)
  else
    let i := destPlain line 0 0
    -- link.go:370 (repair ce3b6c4): an unescaped `(` still open when the scan stops: rejected, the reader is not advanced
    if destOpened line 0 > 0 then pure (none, rd)
    else
      let rd ← rd.advance i
      pure (if i != 0 then some (line.take i) else none, rd)

def linkFindClosureOptions : FindClosureOptions := { codeSpan := false, nesting := false, newline := true, advance := true }

/-- the bytes of the segments FindClosure returned (link.go:264-273, 387-395) -/
def segsValue (rd : BlockReader) : List Segment → Except Panic Bytes
  | [] => .ok []
  | s :: rest => do
    let v ← rd.valueOp s
    let w ← segsValue rd rest
    pure (v ++ w)

/-- parseLinkTitle (link.go:374-398): `none` = not ok; the title itself may be nil (`some none`) -/
def parseLinkTitle (rd : BlockReader) : Except Panic (Option (Option Bytes) × BlockReader) := do
  let (_, rd) ← skipSpaces blockOps (rdFuel rd) 0 rd
  let opener ← rd.peek
  if opener != 34 && opener != 39 && opener != 40 then return (none, rd)
  let closer : UInt8 := if opener == 40 then 41 else opener
  let rd ← rd.advance 1
  let ((segs, found), rd) ← findClosure blockOps (rdFuel rd) opener closer linkFindClosureOptions rd
  if found then
    let segs := segs.getD []
    let v ← segsValue rd segs
    if segs.length == 1 then pure (some (some v), rd)
    else pure (some (if v.isEmpty then none else some v), rd)
  else pure (none, rd)

/-- what a successful link parse yields before the node is built -/
structure LinkInfo where
  dest : Bytes
  title : Option Bytes
  kids : List Node

/-- linkParser.parseLink (link.go:296-331) -/
def parseLinkInline (st : St) : Except Panic (Option LinkInfo × St) := do
  let rd ← st.rd.advance 1
  let (_, rd) ← skipSpaces blockOps (rdFuel rd) 0 rd
  let finish (rd : BlockReader) (dest : Bytes) (title : Option Bytes) : Except Panic (Option LinkInfo × St) := do
    let (kids, st) ← processLinkLabel { st with rd := rd }
    pure (some { dest := dest, title := title, kids := kids }, st)
  if (← rd.peek) == 41 then
    let rd ← rd.advance 1
    finish rd [] none
  else
    let (dest, rd) ← parseLinkDestination rd
    match dest with
    | none => pure (none, { st with rd := rd })
    | some dest =>
      let ((_, spaces, _), rd) ← skipSpaces blockOps (rdFuel rd) 0 rd
      if (← rd.peek) == 41 then
        let rd ← rd.advance 1
        finish rd dest none
      else if spaces == 0 then pure (none, { st with rd := rd })   -- link.go:313 (repair 8c83fd9): a title needs white space in front
      else
        let (title, rd) ← parseLinkTitle rd
        match title with
        | none => pure (none, { st with rd := rd })
        | some title =>
          let (_, rd) ← skipSpaces blockOps (rdFuel rd) 0 rd
          if (← rd.peek) == 41 then
            let rd ← rd.advance 1
            finish rd dest title
          else pure (none, { st with rd := rd })

/-- `pc.Reference(util.ToLinkReference(label))` -/
def lookupRef (env : Env) (label : Bytes) : Option (Bytes × Option Bytes) :=
  env.refs.lookup (toLinkReference label)

/-- linkParser.parseReferenceLink (link.go:255-294): (link, hasValue) -/
def parseReferenceLink (env : Env) (st : St) (lseg : Segment) :
    Except Panic ((Option LinkInfo × Bool) × St) := do
  let orgpos := st.rd.position.2
  let rd ← st.rd.advance 1
  let ((segs, found), rd) ← findClosure blockOps (rdFuel rd) 91 93 linkFindClosureOptions rd
  let st := { st with rd := rd }
  if !found then return ((none, false), st)
  let maybeReference ← segsValue rd (segs.getD [])
  -- link.go:274-281 (repair fb85ad2): only an EMPTY second pair of brackets is a collapsed reference; brackets with
  -- only white space between them are no label at all (`return nil, false`: the caller tries a shortcut reference)
  if !maybeReference.isEmpty && isBlank maybeReference then return ((none, false), st)
  let maybeReference ←
    if maybeReference.isEmpty then rd.valueOp { start := lseg.stop, stop := orgpos.start - 1 }
    else pure maybeReference
  if maybeReference.length > 999 then return ((none, true), st)
  match lookupRef env maybeReference with
  | none => return ((none, true), st)
  | some (dest, title) =>
    let (kids, st) ← processLinkLabel st
    pure ((some { dest := dest, title := title, kids := kids }, true), st)

/-- every failure path of the `]` branch: `MergeOrReplaceTextSegment(last.Parent(), last, last.Segment)`,
    `popLinkBottom`, `return nil`; `pre`/`post` = the siblings in front of / behind the label `last` -/
def linkFail (pre : List Node) (lseg : Segment) (post : List Node) (st : St) : PRes :=
  .ok (none, { (popBottom st).2 with kids := mergeOrAppend pre lseg ++ post })

/-- link.go:204-209: `last.Parent().RemoveChild(last.Parent(), last)` (the label is the last child after
    processLinkLabel) and the Link / Image node -/
def linkDone (isImage : Bool) (info : LinkInfo) (st : St) : PRes :=
  .ok (some (.link isImage info.dest info.title info.kids), { st with kids := st.kids.dropLast })

/-- link.go:176-203 "maybe shortcut reference link" -/
def linkShortcut (env : Env) (st : St) (lseg segment : Segment) (l : Int) (pos : Segment)
    (isImage : Bool) (pre post : List Node) : PRes := do
  let rd ← st.rd.setPosition l pos
  let st := { st with rd := rd }
  let maybeReference ← rd.valueOp { start := lseg.stop, stop := segment.start }
  if maybeReference.length > 999 then linkFail pre lseg post st
  else
    match lookupRef env maybeReference with
    | none => linkFail pre lseg post st
    | some (dest, title) => do
      let (kids, st) ← processLinkLabel st
      linkDone isImage { dest := dest, title := title, kids := kids } st

/-- link.go:165-174: `(` → inline link, `[` → reference link: (link, hasValue, state) -/
def linkTry (env : Env) (st : St) (lseg : Segment) (c : UInt8) :
    Except Panic (Option LinkInfo × Bool × St) :=
  if c == 40 then
    match parseLinkInline st with
    | .ok (link, st) => .ok (link, false, st)
    | .error e => .error e
  else if c == 91 then
    match parseReferenceLink env st lseg with
    | .ok ((link, hasValue), st) => .ok (link, hasValue, st)
    | .error e => .error e
  else .ok (none, false, st)

/-- linkLabelStateLength(tlist) after removeLinkLabelState(pc, last) (link.go:51-56, 75-108): `pre` holds the
    labels still listed; 0 when `last` was the head of the list -/
def labelLen (pre : List Node) : Int :=
  match splitFirstLabel pre, splitLastLabel pre with
  | some (_, (_, hseg, _), _), some (_, (_, pseg, _), _) => pseg.stop - hseg.start
  | _, _ => 0

/-- the `]` branch of linkParser.Parse (link.go:140-210); `segment` = the position PeekLine gave at `]` -/
def parseLinkClose (env : Env) (st : St) (segment : Segment) : PRes :=
  match splitLastLabel st.kids with
  | none => .ok (none, st)                                           -- `tlist == nil`
  | some (pre, (_, lseg, isImage), post) => do
    let rd ← st.rd.advance 1
    let st := { st with rd := rd }
    if labelLen pre > 998 then linkFail pre lseg post st
    else if !isImage && containsLinkL post then linkFail pre lseg post st
    else do
      let c ← rd.peek
      let (l, pos) := rd.position
      let (link, hasValue, st) ← linkTry env st lseg c
      match link with
      | some info => linkDone isImage info st
      | none =>
        if hasValue then linkFail pre lseg post st
        else linkShortcut env st lseg segment l pos isImage pre post

/-- linkParser.Parse (link.go:124-210) -/
def parseLink (env : Env) (st : St) : PRes := do
  let ((line, segment), rd) ← st.rd.peekLine
  let st := { st with rd := rd }
  match line.getD [] with
  | [] => throw .index                                                -- `line[0]`
  | c :: rest =>
    if c == 33 then
      match rest with
      | 91 :: _ =>
        let rd ← st.rd.advance 1
        labelOpen (pushBottom { st with rd := rd }) (segment.start + 1) true
      | _ => pure (none, st)
    else if c == 91 then labelOpen (pushBottom st) segment.start false
    else parseLinkClose env st segment

/- the walk of linkParser.CloseBlock (link.go:437-449) over the whole tree: every label still on the list
   (= every label left in the tree) is replaced by a Text of its segment -/
mutual
def closeLabels : Node → Node
  | .label _ seg _ => textOf seg
  | .emphasis lv kids => .emphasis lv (closeLabelsL kids)
  | .link im d t kids => .link im d t (closeLabelsL kids)
  | .codeSpan kids => .codeSpan (closeLabelsL kids)
  | n => n
def closeLabelsL : List Node → List Node
  | [] => []
  | n :: rest => closeLabels n :: closeLabelsL rest
end

/-! ### autolinks (auto_link.go, util.go:750-806) -/

/-- one label of the e-mail domain regexp `[a-zA-Z0-9](?:[a-zA-Z0-9-]{0,61}[a-zA-Z0-9])?`: its length.
    Greedy with backtracking: the longest `k ≤ 61` such that `k` bytes of `[a-zA-Z0-9-]` are followed by an
    alphanumeric. `run` = the maximal `[a-zA-Z0-9-]` run behind the first byte. -/
def domBestK (run : Bytes) : Nat → Nat
  | 0 => if (match run[0]? with | some c => isAlnum c | none => false) then 2 else 1
  | k + 1 => if (match run[k + 1]? with | some c => isAlnum c | none => false) then k + 3 else domBestK run k

def domLabel : Bytes → Option Nat
  | [] => none
  | c :: rest =>
    if isAlnum c then
      let run := rest.takeWhile (fun c => isAlnum c || c == 45)
      if run.isEmpty then some 1 else some (domBestK run (min 61 (run.length - 1)))
    else none

/-- `(?:\.label)*`: the number of bytes matched; `fuel` ≥ length -/
def domRest : Nat → Bytes → Nat
  | 0, _ => 0
  | fuel + 1, 46 :: rest =>
    match domLabel rest with
    | some n => 1 + n + domRest fuel (rest.drop n)
    | none => 0
  | _ + 1, _ => 0

/-- `emailDomainRegexp.FindSubmatchIndex(b)`: the end of the match -/
def matchEmailDomain (b : Bytes) : Option Nat :=
  match domLabel b with
  | some n => some (n + domRest b.length (b.drop n))
  | none => none

/-- util.FindEmailIndex -/
def findEmailIndex (b : Bytes) : Int :=
  let i := (b.takeWhile (fun c => emailTbl c % 2 == 1)).length
  if i == 0 then -1
  else if b[i]? != some 64 then -1
  else if i + 1 ≥ b.length then -1
  else match matchEmailDomain (b.drop (i + 1)) with
    | none => -1
    | some n => (i + 1 + n : Nat)

/-- util.FindURLIndex -/
def findURLIndex (b : Bytes) : Int :=
  match b with
  | [] => -1
  | c :: rest =>
    if urlTbl c % 8 != 7 then -1 else
    let i := 1 + (rest.takeWhile (fun c => urlTbl c / 4 % 2 == 1)).length
    if i == 1 || i > 32 || i ≥ b.length then -1
    else if b[i]? != some 58 then -1
    else ((i + 1 + ((b.drop (i + 1)).takeWhile (fun c => urlTbl c % 2 == 1)).length : Nat) : Int)

/-- autoLinkParser.Parse -/
def parseAutoLink (rd : BlockReader) : RRes := do
  let ((line, segment), rd) ← rd.peekLine
  let line := line.getD []
  if line.isEmpty then throw .slice                                   -- `line[1:]`
  let b := line.drop 1
  let e := findEmailIndex b
  let (stop, email) := if e < 0 then (findURLIndex b, false) else (e, true)
  if stop < 0 then return (none, rd)
  let stop := stop + 1
  if stop ≥ line.length || line[stop.toNat]? != some 62 then return (none, rd)
  let rd ← rd.advance (stop + 1)
  pure (some (.autoLink email { start := segment.start + 1, stop := segment.start + stop }), rd)

/-! ### raw HTML (raw_html.go) -/

/-- bytes.Index -/
def bytesIndex (pat : Bytes) : Bytes → Nat → Option Nat
  | [], i => if pat.isEmpty then some i else none
  | c :: rest, i => if pat.isPrefixOf (c :: rest) then some i else bytesIndex pat rest (i + 1)

def isTagWS (c : UInt8) : Bool := c == 13 || c == 10 || c == 32 || c == 9
def isTagNameChar (c : UInt8) : Bool := isAlnum c || c == 45
def isAttrNameStart (c : UInt8) : Bool := isAlpha c || c == 95 || c == 58
def isAttrNameChar (c : UInt8) : Bool := isAlnum c || c == 58 || c == 46 || c == 95 || c == 45
def isUnquotedChar (c : UInt8) : Bool :=
  !(c == 34 || c == 39 || c == 61 || c == 60 || c == 62 || c == 96 || c ≤ 32)

/-- `(?:[ \t]|(?:\r\n|\n){0,1})*` matches the whole run: a CR only in front of an LF -/
def spOK : Bytes → Bool
  | [] => true
  | 13 :: 10 :: rest => spOK rest
  | c :: rest => (c == 32 || c == 9 || c == 10) && spOK rest

/-- the attribute value alternatives `[^"'=<>`\x00-\x20]+|'[^']*'|"[^"]*"`: what is left behind the value -/
def attrValue : Bytes → Option Bytes
  | [] => none
  | c :: rest =>
    if c == 34 || c == 39 then
      match (spanB (· != c) rest).2 with
      | _ :: after => some after
      | [] => none
    else if isUnquotedChar c then some (rest.dropWhile isUnquotedChar)
    else none

theorem attrValue_len {s r : Bytes} (h : attrValue s = some r) : r.length < s.length := by
  cases s with
  | nil => simp [attrValue] at h
  | cons c rest =>
    simp only [attrValue] at h
    split at h
    · split at h
      · rename_i x after heq
        simp at h; subst h
        have := spanB_len (· != c) rest
        rw [heq] at this; simp at this; simp; omega
      · simp at h
    · split at h
      · simp at h; subst h
        have := length_dropWhile_le isUnquotedChar rest
        simp; omega
      · simp at h

/-- `attribute* spaceOrOneNewline* /?>` behind the tag name: what is left behind the closing `>`.
    The regexp is ambiguous only in ways that do not change where a match ends (see notes/status_inlines.md). -/
def tagAttrs (s : Bytes) : Option Bytes :=
  match hr : (spanB isTagWS s).2 with
  | [] => none
  | c :: r' =>
    let w := (spanB isTagWS s).1
    if isAttrNameStart c && !w.isEmpty then
      let r2 := r'.dropWhile isAttrNameChar
      match h3 : (spanB isTagWS r2).2 with
      | 61 :: r4 =>
        match h5 : attrValue (r4.dropWhile isTagWS) with
        | some r6 => tagAttrs r6
        | none => none
      | _ => tagAttrs r2
    else if c == 47 then
      match r' with
      | 62 :: r'' => if spOK w then some r'' else none
      | _ => none
    else if c == 62 then (if spOK w then some r' else none)
    else none
termination_by s.length
decreasing_by
  all_goals simp_wf
  · have a1 := spanB_len isTagWS s
    rw [hr] at a1
    have a2 := length_dropWhile_le isAttrNameChar r'
    have a3 := spanB_len isTagWS (r'.dropWhile isAttrNameChar)
    rw [h3] at a3
    have a4 := length_dropWhile_le isTagWS r4
    have a5 := attrValue_len h5
    simp at a1 a3
    omega
  · have a1 := spanB_len isTagWS s
    rw [hr] at a1
    have a2 := length_dropWhile_le isAttrNameChar r'
    simp at a1
    omega

/-- openTagRegexp `^<([A-Za-z][A-Za-z0-9-]*)attribute*spaceOrOneNewline*/?>`: the length of the match -/
def matchOpenTag (s : Bytes) : Option Nat :=
  match s with
  | 60 :: c :: rest =>
    if isAlpha c then
      match tagAttrs (rest.dropWhile isTagNameChar) with
      | some r => some (s.length - r.length)
      | none => none
    else none
  | _ => none

/-- closeTagRegexp `^</([A-Za-z][A-Za-z0-9-]*)spaceOrOneNewline*>` -/
def matchCloseTag (s : Bytes) : Option Nat :=
  match s with
  | 60 :: 47 :: c :: rest =>
    if isAlpha c then
      let r := rest.dropWhile isTagNameChar
      match (spanB isTagWS r).2 with
      | 62 :: r' => if spOK (spanB isTagWS r).1 then some (s.length - r'.length) else none
      | _ => none
    else none
  | _ => none

/-- what `reg.FindReaderSubmatchIndex(r)` can read (reader.go:579-590 readRuneReader): the bytes from the
    reader position on, line after line (padding as spaces), up to the first byte sequence that does not decode
    to a rune other than U+FFFD -/
def runeStream : Nat → BlockReader → Bytes → Except Panic Bytes
  | 0, _, _ => .error .loop
  | fuel + 1, rd, acc => do
    let ((line, _), rd) ← rd.peekLine
    match line with
    | none => pure acc.reverse
    | some l =>
      let (rn, size) := decodeRune l
      if rn == runeError then pure acc.reverse
      else
        let rd ← rd.advance size
        runeStream fuel rd ((l.take size).reverse ++ acc)

/-- the segment loop of parseMultiLineRegexp (raw_html.go:128-147) -/
def rhSegments (sline : Int) (ssegment : Segment) (eline : Int) (esegment : Segment) :
    Nat → BlockReader → List Segment → Except Panic (List Segment × BlockReader)
  | 0, _, _ => .error .loop
  | fuel + 1, rd, acc => do
    let ((line, segment), rd) ← rd.peekLine
    match line with
    | none => pure (acc, rd)
    | some _ =>
      let l := rd.position.1
      let start := if l == sline then ssegment.start else segment.start
      let stop := if l == eline then esegment.start else segment.stop
      let acc := acc ++ [{ start := start, stop := stop }]
      if l == eline then
        let rd ← rd.advance (stop - start)
        pure (acc, rd)
      else
        let rd ← rd.advanceLine
        rhSegments sline ssegment eline esegment fuel rd acc

/-- rawHTMLParser.parseMultiLineRegexp with `block.Match(reg)` (reader.go:539-548) -/
def parseTag (matcher : Bytes → Option Nat) (rd : BlockReader) : RRes := do
  let (sline, ssegment) := rd.position
  let stream ← runeStream (rdFuel rd) rd []
  let rd ← rd.setPosition sline ssegment                              -- matchReader's own restore
  match matcher stream with
  | none => pure (none, rd)
  | some n =>
    let rd ← rd.advance n
    let (eline, esegment) := rd.position
    let rd ← rd.setPosition sline ssegment
    let (segs, rd) ← rhSegments sline ssegment eline esegment (rd.segments.length + 2) rd []
    pure (some (.rawHTML segs), rd)

/-- the loop shared by parseComment (raw_html.go:82-98) and parseUntil (raw_html.go:104-117): `offset` bytes of the first
    line are skipped before the search -/
def rhUntil (closer : Bytes) (savedLine : Int) (savedSegment : Segment) :
    Nat → Nat → BlockReader → List Segment → Except Panic (Option (List Segment) × BlockReader)
  | 0, _, _, _ => .error .loop
  | fuel + 1, offset, rd, acc => do
    let ((line, segment), rd) ← rd.peekLine
    match line with
    | none =>
      let rd ← rd.setPosition savedLine savedSegment
      pure (none, rd)
    | some line =>
      match bytesIndex closer (line.drop offset) 0 with
      | some index =>
        let n : Nat := offset + index + closer.length
        let rd ← rd.advance n
        pure (some (acc ++ [segment.withStop (segment.start + n)]), rd)
      | none =>
        let rd ← rd.advanceLine
        rhUntil closer savedLine savedSegment fuel 0 rd (acc ++ [segment])

def bOpenComment : Bytes := [60, 33, 45, 45]
def bEmptyComment1 : Bytes := [60, 33, 45, 45, 62]
def bEmptyComment2 : Bytes := [60, 33, 45, 45, 45, 62]
def bCloseComment : Bytes := [45, 45, 62]
def bOpenPI : Bytes := [60, 63]
def bClosePI : Bytes := [63, 62]
def bOpenCDATA : Bytes := [60, 33, 91, 67, 68, 65, 84, 65, 91]
def bCloseCDATA : Bytes := [93, 93, 62]

/-- rawHTMLParser.Parse -/
def parseRawHTML (rd : BlockReader) : RRes := do
  let ((line, segment), rd) ← rd.peekLine
  let line := line.getD []
  let at1 := line[1]?
  let at2 := line[2]?
  let untilP (closer : Bytes) (offset : Nat) : RRes := do
    let (savedLine, savedSegment) := rd.position
    let (res, rd) ← rhUntil closer savedLine savedSegment (rd.segments.length + 2) offset rd []
    match res with
    | some segs => pure (some (.rawHTML segs), rd)
    | none => pure (none, rd)
  if (match at1 with | some c => isAlnum c | none => false) then parseTag matchOpenTag rd
  else if at1 == some 47 && (match at2 with | some c => isAlnum c | none => false) then parseTag matchCloseTag rd
  else if bOpenComment.isPrefixOf line then
    if bEmptyComment1.isPrefixOf line then
      let rd ← rd.advance 5
      pure (some (.rawHTML [segment.withStop (segment.start + 5)]), rd)
    else if bEmptyComment2.isPrefixOf line then
      let rd ← rd.advance 6
      pure (some (.rawHTML [segment.withStop (segment.start + 6)]), rd)
    else untilP bCloseComment 4
  else if bOpenPI.isPrefixOf line then untilP bClosePI 0
  else if at1 == some 33 && (match at2 with | some c => decide (65 ≤ c ∧ c ≤ 90) | none => false) then untilP [62] 0
  else if bOpenCDATA.isPrefixOf line then untilP bCloseCDATA 0
  else pure (none, rd)

end GM.Inl
