/-
  GM.Model.Segment — text/segment.go:11-163 (`Segment` and its methods). Core Lean only.

  Go `int`s are `Int`; a byte slice is a `Bytes`. Go panics are explicit (`Except Panic`).
  Assumption (stated in notes/status_C18.md and enforced by the harness): `cap(buffer) = len(buffer)`.
  Go slices `buffer[a:b]` up to the capacity; the model slices up to the length.
-/
import GM.Model.Util

namespace GM.Text
open GM

/-- The kinds of run-time panic the harness distinguishes, plus two outcomes that are not Go panics:
    `loop` — a loop of the Go code does not terminate (the model ran out of fuel);
    `pre`  — used by the *specification* only: the call is outside the documented preconditions. -/
inductive Panic | index | slice | nil | assert | explicit | loop | pre
  deriving DecidableEq, Repr

def Panic.str : Panic → String
  | .index => "panic:index" | .slice => "panic:slice" | .nil => "panic:nil" | .assert => "panic:assert"
  | .explicit => "panic:explicit" | .loop => "loop" | .pre => "pre"

/-- text.Segment (segment.go:12-36) -/
structure Segment where
  start : Int
  stop : Int
  padding : Int := 0
  forceNewline : Bool := false
  deriving DecidableEq, Repr, Inhabited

/-- `buffer[i]` -/
def getByte (src : Bytes) (i : Int) : Except Panic UInt8 :=
  if i < 0 then .error .index else
    match src[i.toNat]? with
    | some b => .ok b
    | none => .error .index

/-- the bytes `src[a:b]` for in-range arguments -/
def sub (src : Bytes) (a b : Nat) : Bytes := (src.drop a).take (b - a)

/-- `buffer[a:b]` (cap = len) -/
def sliceB (src : Bytes) (a b : Int) : Except Panic Bytes :=
  if 0 ≤ a ∧ a ≤ b ∧ b ≤ src.length then .ok (sub src a.toNat b.toNat) else .error .slice

/-- `bytes.Repeat(space, n)` for n ≥ 0 -/
def spaces (n : Nat) : Bytes := List.replicate n 32

/-- segment.go:66 `t.ForceNewline && len(result) > 0 && result[len(result)-1] != '\n'` -/
def needsNewline (t : Segment) (result : Bytes) : Bool :=
  t.forceNewline && !result.isEmpty && result.getLast? != some 10

/-- Segment.Value (segment.go:57-71). Since 8e80f0e the forced newline is appended to a slice whose
    capacity is cut to its length, so the buffer is never written. -/
def Segment.value (t : Segment) (buf : Bytes) : Except Panic Bytes :=
  if t.padding == 0 then do
    let r ← sliceB buf t.start t.stop
    if needsNewline t r then pure (r ++ [10]) else pure r
  else do
    if t.padding + t.stop - t.start + 1 < 0 then throw .explicit   -- makeslice: cap out of range
    if t.padding < 0 then throw .explicit                             -- bytes: negative Repeat count
    let r ← sliceB buf t.start t.stop
    let res := spaces t.padding.toNat ++ r
    if needsNewline t res then pure (res ++ [10]) else pure res

/-- Segment.Len (segment.go:73-75) -/
def Segment.len (t : Segment) : Int := t.stop - t.start + t.padding

/-- Segment.Between (segment.go:78-87) -/
def Segment.between (t other : Segment) : Except Panic Segment :=
  if t.stop != other.stop then .error .explicit
  else .ok { start := t.start, stop := other.start, padding := t.padding - other.padding }

/-- Segment.IsEmpty (segment.go:90-92) -/
def Segment.isEmpty (t : Segment) : Bool := t.start ≥ t.stop && t.padding == 0

/-- Segment.TrimRightSpace (segment.go:96-103) -/
def Segment.trimRightSpace (t : Segment) (buf : Bytes) : Except Panic Segment := do
  let v ← sliceB buf t.start t.stop
  let l := trimRightSpaceLength v
  if l == v.length then pure { start := t.start, stop := t.start }
  else pure { start := t.start, stop := t.stop - l, padding := t.padding }

/-- Segment.TrimLeftSpace (segment.go:107-111) -/
def Segment.trimLeftSpace (t : Segment) (buf : Bytes) : Except Panic Segment := do
  let v ← sliceB buf t.start t.stop
  pure { start := t.start + trimLeftSpaceLength v, stop := t.stop }

/-- the padding loop of TrimLeftSpaceWidth (segment.go:117-122): (width, padding) afterwards -/
def tlswPad (width padding : Int) : Int × Int :=
  if width ≤ 0 then (width, padding)
  else if padding < 0 then (0, padding - width)          -- never reaches 0: decremented `width` times
  else if width ≤ padding then (0, padding - width)
  else (width - padding, 0)

/-- the text loop of TrimLeftSpaceWidth (segment.go:128-140): (start, width) afterwards -/
def tlswLoop (stop : Int) : Bytes → Int → Int → Int × Int
  | [], start, width => (start, width)
  | c :: cs, start, width =>
    if start ≥ stop - 1 || width ≤ 0 then (start, width)
    else if c == 32 then tlswLoop stop cs (start + 1) (width - 1)
    else if c == 9 then tlswLoop stop cs (start + 1) (width - 4)
    else (start, width)

/-- Segment.TrimLeftSpaceWidth (segment.go:115-145) -/
def Segment.trimLeftSpaceWidth (t : Segment) (width : Int) (buf : Bytes) : Except Panic Segment := do
  let (width, padding) := tlswPad width t.padding
  if width == 0 then pure { start := t.start, stop := t.stop, padding := padding }
  else
    let text ← sliceB buf t.start t.stop
    let (start, width) := tlswLoop t.stop text t.start width
    let padding := if width < 0 then width * -1 else padding
    pure { start := start, stop := t.stop, padding := padding }

/-- Segment.WithStart / WithStop (segment.go:148-155): note that ForceNewline is dropped -/
def Segment.withStart (t : Segment) (v : Int) : Segment := { start := v, stop := t.stop, padding := t.padding }
def Segment.withStop (t : Segment) (v : Int) : Segment := { start := t.start, stop := v, padding := t.padding }

/-- Segment.ConcatPadding (segment.go:158-163) -/
def Segment.concatPadding (t : Segment) (v : Bytes) : Bytes :=
  if t.padding > 0 then v ++ spaces t.padding.toNat else v

end GM.Text
