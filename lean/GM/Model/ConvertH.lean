/-
  GM.Model.ConvertH — `goldmark.New(goldmark.WithParserOptions(parser.WithAutoHeadingID()),
  goldmark.WithRendererOptions(…)).Convert(source, w)`: the default pipeline of GM.Model.Convert with the parser option
  AutoHeadingID (parser/atx_heading.go:31-49: `HeadingConfig.AutoHeadingID` of BOTH heading parsers), NO `WithAttribute()`.

  What the option adds to the default pipeline (everything else is GM.Convert / GM.Blocks unchanged):

    atx_heading.go:171-189   atxHeadingParser.Close: `if b.Attribute {…}` (off);  `if b.AutoHeadingID { id, ok :=
    setext_headings.go:106-119                     node.AttributeString("id"); if !ok { generateAutoHeadingID(…) } else
                                                   { if v, ok := id.([]byte); ok { pc.IDs().Put(v) } } }`
                                                   (in the setext parser: behind the tree surgery of Close)        `autoIdClose`
    atx_heading.go:199-208   generateAutoHeadingID: `line` = nil, or `Lines().At(Len()-1).Value(source)` (the heading's
                             LAST line, paddings materialised, not trimmed — `Generate` trims);
                             `pc.IDs().Generate(line, KindHeading)`; `node.SetAttribute("id", id)`                 `generateAutoHeadingID`
    parser.go:65-118, 234-252, 868-871  the `ids` table of the parse Context (one per Parse)                       GM.Ids (C15), field `HS.ids`
    ast/ast.go:414-427, 384-398  `SetAttribute` / `Attribute` (lookup by name)                                    GM.Attr.setAttribute, `attrLookup`
    renderer/html/html.go:311-327  renderHeading: `if n.Attributes() != nil { RenderAttributes(w, node,
                             HeadingAttributeFilter) }`                                                            GM.render (`enter`, `.heading`) on `attrs`

  The block nodes of GM.Blocks have no attribute field and the parse context of GM.Blocks has no id table, so the state
  the option adds lives in a second state layer: `HS` (id table, attributes by node, a ghost log of the table
  operations) under `MH = StateT HS M`. The block-phase driver is GM.Model.Blocks.DriverT copied into `MH`
  (`closeLoopH` … `runH`): every call of an `M` function is `up (…)`; the ONLY difference is `bpCloseH` where DriverT calls
  `bpClose` (parser.go:906 `blocks[i].Parser.Close`, parser.go:987 `lastBlock.Parser.Close`).
  GM.Proof.ConvertHSim proves that erasing the second layer gives DriverT back (`runH_sim`), hence
  `convertH false = convertCore` (GM.Props.C15E2E.converth_off_is_core).

  Without the attribute parser nothing but `generateAutoHeadingID` ever writes an attribute: the `M` functions cannot
  reach `HS` (by typing), so the lookup in `autoIdClose` can only find the `id` an earlier `Close` of the SAME node put
  there (`GM.Props.C15E2E.attributes_are_generated_ids`).

  Core Lean only.
-/
import GM.Model.Convert
import GM.Model.Ids
import GM.Model.Attribute

namespace GM.ConvertH
open GM GM.Text GM.Blocks GM.Convert

/-- one `Generate` call of a heading parser (ghost): the node, the text handed over, the id returned -/
structure GenEv where
  node : Nat
  text : Bytes
  id : Bytes
  deriving Repr, DecidableEq

/-- what AutoHeadingID adds to the parse state -/
structure HS where
  /-- `parseContext.ids` (parser.go:225, 240): created by `NewContext`, i.e. once per `Parse` -/
  ids : Ids.Tbl := []
  /-- `BaseNode.attributes` of the block nodes, by node; absent = nil -/
  attrs : List (Nat × List Attr.PAttr) := []
  /-- ghost: the table operations so far, oldest first -/
  ops : List Ids.Op := []
  /-- ghost: the `Generate` calls so far, oldest first -/
  gens : List GenEv := []

abbrev MH := StateT HS M

/-- an `M` computation inside `MH` (it cannot see `HS`) -/
abbrev up {α} (x : M α) : MH α := StateT.lift x

def getH : MH HS := StateT.get
def setH (h : HS) : MH Unit := StateT.set h

/-- `node.Attributes()` (nil = none) -/
def nodeAttrs (h : HS) (node : Nat) : Option (List Attr.PAttr) := h.attrs.lookup node

/-- `node.Attribute(name)` (ast.go:384-393): the first attribute with that name -/
def attrLookup (as : List Attr.PAttr) (name : Bytes) : Option Attr.Val :=
  match as.find? (fun a => a.1 == name) with
  | some a => some a.2
  | none => none

/-- the attribute store after `node.SetAttribute(name, value)` (ast.go:414-427) -/
def setNodeAttr : List (Nat × List Attr.PAttr) → Nat → Attr.PAttr → List (Nat × List Attr.PAttr)
  | [], node, a => [(node, Attr.setAttribute [] a)]
  | (n, as) :: rest, node, a =>
    if n == node then (n, Attr.setAttribute as a) :: rest else (n, as) :: setNodeAttr rest node a

/-- generateAutoHeadingID (atx_heading.go:199-208) -/
def generateAutoHeadingID (node : Nat) : MH Unit := do
  let n ← up (getNode node)
  let line ← match n.lines.getLast? with                 -- `lastIndex > -1`
    | some seg => do
      let src ← up source
      up (liftE (seg.value src))                          -- lastLine.Value(reader.Source())
    | none => pure []                                     -- `var line []byte`
  let h ← getH
  match Ids.generate h.ids line true with                 -- pc.IDs().Generate(line, ast.KindHeading)
  | none => throw .loop                                   -- the probing loop out of fuel (GM.Props.C15.generate_terminates: never)
  | some (id, tbl) =>
    setH { ids := tbl,
           attrs := setNodeAttr h.attrs node (Attr.nameId, .bytes id),      -- node.SetAttribute(attrNameID, headingID)
           ops := h.ops ++ [.gen line true],
           gens := h.gens ++ [{ node := node, text := line, id := id }] }

/-- the `if b.AutoHeadingID { … }` block that ends Close of both heading parsers
    (atx_heading.go:179-188, setext_headings.go:110-119) -/
def autoIdClose (node : Nat) : MH Unit := do
  let h ← getH
  match attrLookup ((nodeAttrs h node).getD []) Attr.nameId with      -- node.AttributeString("id")
  | none => generateAutoHeadingID node
  | some (.bytes v) => setH { h with ids := Ids.put h.ids v, ops := h.ops ++ [.put v] }   -- pc.IDs().Put(v)
  | some _ => pure ()

/-- the two parsers built with the HeadingConfig (parser.go:581-594: NewSetextHeadingParser, NewATXHeadingParser) -/
def BP.isHeadingParser : BP → Bool
  | .atx => true
  | .setext => true
  | _ => false

/-- `bp.Close(node, reader, pc)` with the option: GM.Blocks.bpClose followed by the AutoHeadingID block -/
def bpCloseH (autoId : Bool) (bp : BP) (node : Nat) : MH Unit := do
  up (bpClose bp node)
  if autoId && BP.isHeadingParser bp then autoIdClose node

/-! ### the block-phase driver (GM.Model.Blocks.DriverT in `MH`) -/

/-- GM.Blocks.closeLoopT -/
def closeLoopH (autoId : Bool) (pts : List PT) (blocks : List Block) (to : Int) : Nat → MH Unit
  | 0 => pure ()
  | k + 1 => do
    let b ← up (liftE (blockAt blocks (to + k)))
    let n ← up (getNode b.node)
    if n.kind == .paragraph && n.parent.isSome then
      let _ ← up (transformParagraph pts b.node)
    if (← up (getNode b.node)).parent.isSome then bpCloseH autoId b.bp b.node
    closeLoopH autoId pts blocks to k

/-- GM.Blocks.closeBlocksT -/
def closeBlocksH (autoId : Bool) (pts : List PT) (frm to : Int) : MH Unit := do
  let blocks := (← up getPc).opened
  closeLoopH autoId pts blocks to (frm - to + 1).toNat
  let len : Int := blocks.length
  let blocks' ←
    if frm == len - 1 then up (liftE (closeBlocks.slice' blocks 0 to))
    else do
      let a ← up (liftE (closeBlocks.slice' blocks 0 to))
      let b ← up (liftE (closeBlocks.slice' blocks (frm + 1) len))
      pure (a ++ b)
  up (modPc fun pc => { pc with opened := blocks' })

/-- GM.Blocks.requireParaT -/
def requireParaH (autoId : Bool) (pts : List PT) (parent : Nat) (last : Option Nat) (lastBlock : Option Block) :
    MH Bool := do
  if last == (← up (getNode parent)).children.getLast? then
    match lastBlock with
    | none => throw .nil
    | some lb =>
      bpCloseH autoId lb.bp lb.node
      let blocks := (← up getPc).opened
      if blocks.length == 0 then throw .slice
      up (modPc fun pc => { pc with opened := blocks.dropLast })
      if (← up (getNode lb.node)).kind != .paragraph then throw .assert
      up (transformParagraph pts lb.node)
  else pure false

/-- GM.Blocks.tryParsersT -/
def tryParsersH (autoId : Bool) (pts : List PT) (parent : Nat) (blankLine : Bool) (continuable : Bool) (w : Int) :
    List BP → OpenResult → Option Block → MH (TryOutcomeT × OpenResult × Option Block)
  | [], result, lastBlock => pure (.done, result, lastBlock)
  | bp :: bps, result, lastBlock => do
    if continuable && result == .noBlocksOpened && !bp.canInterruptParagraph then
      return ← tryParsersH autoId pts parent blankLine continuable w bps result lastBlock
    if w > 3 && !bp.canAcceptIndentedLine then
      return ← tryParsersH autoId pts parent blankLine continuable w bps result lastBlock
    let lastBlock ← up lastOpenedBlock
    let last := lastBlock.map (·.node)
    let (node, state) ← up (bpOpen bp parent)
    match node with
    | none => tryParsersH autoId pts parent blankLine continuable w bps result lastBlock
    | some node =>
      let transformed ← if state.requirePara then requireParaH autoId pts parent last lastBlock else pure false
      if transformed then return (.retryTransformed, result, lastBlock)
      up (modNode node fun n => { n with blankPrev := blankLine })
      match last with
      | some l =>
        if (← up (getNode l)).parent.isNone then
          let lastPos : Int := ((← up getPc).opened.length : Int) - 1
          closeBlocksH autoId pts lastPos lastPos
      | none => pure ()
      up (appendChild parent node)
      up (modPc fun pc => { pc with opened := pc.opened ++ [{ node := node, bp := bp }] })
      if state.hasChildren then return (.retry node, .newBlocksOpened, lastBlock)
      return (.done, .newBlocksOpened, lastBlock)

/-- GM.Blocks.retryStepT (with its two contract monitors) -/
def retryStepH (autoId : Bool) (pts : List PT) (blankLine tdone continuable : Bool) (parent : Nat) (w : Int)
    (bps : List BP) (result : OpenResult) (lastBlock : Option Block)
    (again : Bool → Bool → Nat → OpenResult → Option Block → MH OpenResult) : MH OpenResult := do
  let before := retryMeasure (← up get)
  let (outcome, result, lastBlock) ← tryParsersH autoId pts parent blankLine continuable w bps result lastBlock
  match outcome with
  | .retry parent' =>
    let after := retryMeasure (← up get)
    if !(after < before) then throw .pre
    again tdone continuable parent' result lastBlock
  | .retryTransformed =>
    let after := retryMeasure (← up get)
    if tdone || !(after ≤ before) then throw .pre
    again true false parent result lastBlock
  | .done => up (toContinuable continuable result lastBlock)

/-- GM.Blocks.openBlocksLoopT -/
def openBlocksLoopH (autoId : Bool) (pts : List PT) (blankLine : Bool) :
    Nat → Bool → Bool → Nat → OpenResult → Option Block → MH OpenResult
  | 0, _, _, _, _, _ => throw .loop
  | fuel + 1, tdone, continuable, parent, result, lastBlock => do
    let (line, _) ← up peekLine
    let lineB := line.getD []
    let len : Int := lineB.length
    let (w, pos) := indentWidthI lineB (← up lineOffset)
    up (modPc fun pc =>
      if pos ≥ len then { pc with blockOffset := -1, blockIndent := -1 }
      else { pc with blockOffset := pos, blockIndent := w })
    if line.isNone then return ← up (toContinuable continuable result lastBlock)
    if (← up (liftE (idx lineB 0))) == 10 then return ← up (toContinuable continuable result lastBlock)
    let bps ←
      if pos < len then do
        let c ← up (liftE (idx lineB pos))
        pure ((triggered c).getD freeParsers)
      else pure freeParsers
    retryStepH autoId pts blankLine tdone continuable parent w bps result lastBlock
      (openBlocksLoopH autoId pts blankLine fuel)

/-- GM.Blocks.openBlocksT -/
def openBlocksH (autoId : Bool) (pts : List PT) (parent : Nat) (blankLine : Bool) : MH OpenResult := do
  let lastBlock ← up lastOpenedBlock
  let continuable ← match lastBlock with
    | some lb => do pure ((← up (getNode lb.node)).kind == .paragraph)
    | none => pure false
  openBlocksLoopH autoId pts blankLine (retryFuel (← up source)) false continuable parent .noBlocksOpened lastBlock

/-- GM.Blocks.lineLoopT -/
def lineLoopH (autoId : Bool) (pts : List PT) (parent : Nat) (openedBlocks : List Block) (lastIndex : Int) :
    List Block → Int → List LineStat → MH (LineOutcome × List LineStat)
  | [], _, blankLines => pure (.next, blankLines)
  | be :: rest, i, blankLines => do
    let (line, _) ← up peekLine
    match line with
    | none =>
      closeBlocksH autoId pts lastIndex 0
      up advanceLine
      return (.eof, blankLines)
    | some line =>
      let (lineNum, _) ← up position
      let blankLines := blankLines ++ [{ lineNum := lineNum, level := i, isBlank := isBlank line }]
      let beNode ← up (getNode be.node)
      let mut fallThrough := true
      if beNode.kind != .paragraph then
        let state ← up (bpContinue be.bp be.node)
        if state.cont then
          if state.hasChildren && i == lastIndex then
            let blank := isBlankLine (lineNum - 1) i blankLines
            let _ ← openBlocksH autoId pts be.node blank
            return (.next, blankLines)
          fallThrough := false
      if !fallThrough then
        lineLoopH autoId pts parent openedBlocks lastIndex rest (i + 1) blankLines
      else
        let blank := isBlankLine (lineNum - 1) i blankLines
        let thisParent ←
          if i != 0 then do
            let b ← up (liftE (blockAt openedBlocks (i - 1)))
            pure b.node
          else pure parent
        let lastNode ← up (liftE (blockAt openedBlocks lastIndex))
        let result ← openBlocksH autoId pts thisParent blank
        if result != .paragraphContinuation then
          let now := slotAfter openedBlocks (← up getPc).opened lastIndex.toNat
          let lastIndex := if now.map (·.node) != some lastNode.node then lastIndex - 1 else lastIndex
          closeBlocksH autoId pts lastIndex i
        return (.next, blankLines)

/-- GM.Blocks.linesLoopT -/
def linesLoopH (autoId : Bool) (pts : List PT) (parent : Nat) : Nat → List LineStat → MH (Bool × List LineStat)
  | 0, _ => throw .loop
  | fuel + 1, blankLines => do
    let openedBlocks := (← up getPc).opened
    let l := openedBlocks.length
    if l == 0 then return (false, blankLines)
    let (outcome, blankLines) ← lineLoopH autoId pts parent openedBlocks ((l : Int) - 1) openedBlocks 0 blankLines
    match outcome with
    | .eof => return (true, blankLines)
    | .next =>
      up advanceLine
      linesLoopH autoId pts parent fuel blankLines

/-- GM.Blocks.blocksLoopT -/
def blocksLoopH (autoId : Bool) (pts : List PT) (parent : Nat) : Nat → List LineStat → MH Unit
  | 0, _ => throw .loop
  | fuel + 1, blankLines => do
    let (_, lines, ok) ← up skipBlankLinesR
    if !ok then return
    let (lineNum, _) ← up position
    let nOpened := (← up getPc).opened.length
    let blankLines := if lines != 0 then blankStats lineNum lines nOpened else blankLines
    let blank := isBlankLine (lineNum - 1) 0 blankLines
    if (← openBlocksH autoId pts parent blank) != .newBlocksOpened then return
    up advanceLine
    let (ret, blankLines) ← linesLoopH autoId pts parent fuel blankLines
    if ret then return
    blocksLoopH autoId pts parent fuel blankLines

/-- GM.Blocks.parseBlocksT -/
def parseBlocksH (autoId : Bool) (pts : List PT) (parent : Nat) : MH Unit := do
  up (modPc fun pc => { pc with opened := [] })
  blocksLoopH autoId pts parent (linesFuel (← up source)) []

/-- the block phase of `parser.Parse` with the option: the final two-layer state. `NewContext()` creates the id table
    (`newIDs()`, parser.go:240): `HS` starts empty on every document. -/
def runH (autoId : Bool) (pts : List PT) (src : Bytes) : Except Panic (HS × St) :=
  (parseBlocksH autoId pts 0 {} (initSt src)).map fun r => (r.1.2, r.2)

def blockPhaseH (autoId guard : Bool) (src : Bytes) : Except Panic (HS × St) :=
  runH autoId (paragraphTransformers guard) src

/-! ### the renderer's view of the tree -/

/-- the block tree with node identities (GM.Blocks.Tree forgets them) -/
inductive TreeH
  | node (id : Nat) (n : Blocks.Node) (children : List TreeH)

/-- GM.Blocks.treeOf, keeping the node ids -/
def treeOfH (nodes : List Blocks.Node) : Nat → Nat → TreeH
  | 0, id => .node id (nodes.getD id default) []
  | fuel + 1, id =>
    let n := nodes.getD id default
    .node id n (n.children.map (treeOfH nodes fuel))

/-- `Node.Attributes()` as html.RenderAttributes reads it -/
def treeAttrs (h : HS) (id : Nat) : Option (List GM.Attr) :=
  match nodeAttrs h id with
  | none => none
  | some as => some (as.map Attr.toTreeAttr)

mutual
/-- GM.Convert.docTree with the attributes of the block nodes -/
def docTreeH (h : HS) (guard : Bool) (env : GM.Inl.Env) (src : Bytes) : TreeH → Except Err GM.Node
  | .node id n cs => do
    let bs ← docTreesH h guard env src cs
    let kids ← inlinePhase guard env src n
    let is ← liftErr .value (inlineTrees src kids)
    let k ← liftErr .value (blockKind src n)
    pure (.mk k (treeAttrs h id) (bs ++ is))
def docTreesH (h : HS) (guard : Bool) (env : GM.Inl.Env) (src : Bytes) : List TreeH → Except Err (List GM.Node)
  | [] => pure []
  | t :: rest => do
    let x ← docTreeH h guard env src t
    let xs ← docTreesH h guard env src rest
    pure (x :: xs)
end

/-- the block tree the block phase leaves (node 0 is the Document) -/
def finalTree (st : St) : TreeH := treeOfH st.nodes st.nodes.length 0

/-- parser.Parse with the option: the document as the renderer sees it -/
def parseDocH (autoId guard : Bool) (uc : List (Nat × (Bool × Bool))) (src : Bytes) : Except Err GM.Node := do
  let (h, st) ← liftErr .blocks (blockPhaseH autoId guard src)
  let env : GM.Inl.Env := { refs := st.pc.refs, uc := uc }
  docTreeH h guard env src (finalTree st)

def convertHWith (autoId guard : Bool) (uc : List (Nat × (Bool × Bool))) (o : ROpts) (src : Bytes) : Except Err Bytes := do
  let t ← parseDocH autoId guard uc src
  renderDoc o t

/-- the model of `goldmark.New(WithParserOptions(WithAutoHeadingID()), WithRendererOptions(…)).Convert` (`autoId = true`);
    `autoId = false` is GM.Convert.convertCore. Guarded like `convertCore`. -/
def convertH (autoId : Bool) (uc : List (Nat × (Bool × Bool))) (o : ROpts) (src : Bytes) : Except Err Bytes :=
  convertHWith autoId true uc o src

/-! ### what the theorems speak about -/

mutual
/-- the node ids of the Heading nodes of a block tree, in document order -/
def headingIds : TreeH → List Nat
  | .node id n cs => (if n.kind == .heading then [id] else []) ++ headingIdsL cs
def headingIdsL : List TreeH → List Nat
  | [] => []
  | t :: rest => headingIds t ++ headingIdsL rest
end

def isHeadingKind : GM.Kind → Bool
  | .heading _ => true
  | _ => false

mutual
/-- the attribute lists of the Heading nodes of a renderer tree, in document order -/
def headingAttrs : GM.Node → List (Option (List GM.Attr))
  | .mk k a cs => (if isHeadingKind k then [a] else []) ++ headingAttrsL cs
def headingAttrsL : List GM.Node → List (Option (List GM.Attr))
  | [] => []
  | t :: rest => headingAttrs t ++ headingAttrsL rest
end

/-- WELL-FORMEDNESS HYPOTHESIS (a) of the end-to-end theorems (decidable; evaluated by the tie on every document): every
    Heading node of the final block tree has been handed to `Close` with the option on (it has an attribute entry). A fact
    about the block driver (every node appended to the tree is pushed on `openedBlocks`, every opened block is closed before
    `parseBlocks` returns), not about the option. -/
def headingsClosedB (h : HS) (t : TreeH) : Bool :=
  (headingIds t).all (fun i => (nodeAttrs h i).isSome)

/-- WELL-FORMEDNESS HYPOTHESIS (b): the final block tree does not contain a Heading node twice (child lists are
    duplicate-free, a node has one parent: AST well-formedness) -/
def headingsOnceB (t : TreeH) : Bool := decide (headingIds t).Nodup

/-- hypothesis (a) for the block phase of `src` (true when the block phase does not return: nothing is rendered) -/
def headingsClosedOK (guard : Bool) (src : Bytes) : Bool :=
  match blockPhaseH true guard src with
  | .ok (h, st) => headingsClosedB h (finalTree st)
  | .error _ => true

/-- hypothesis (b) for the block phase of `src` -/
def headingsOnceOK (guard : Bool) (src : Bytes) : Bool :=
  match blockPhaseH true guard src with
  | .ok (_, st) => headingsOnceB (finalTree st)
  | .error _ => true

end GM.ConvertH
