/-
  GM.Model.ConvertXRect — C17 in the encoding of the node store (GM.Model.ExtTableX): `rectT` of the block tree that
  `treeOf` reads out of the store the block phase ends in. A Table node has no lines; its children are one TableHeader and
  TableRows; every row has as many children as the header, all of them TableCells. GM.Proof.ConvertXRect: `rectT` of that
  tree gives `rectB` of the tree `convertX` renders. Evaluated by the driver (`convertx rect`). Core Lean only.
-/
import GM.Model.ConvertX

namespace GM.ConvertX
open GM GM.Text GM.Convert

/-! ### rectangularity of the block tree read out of the store -/

def isCellT (src : Bytes) : GM.Blocks.Tree → Bool
  | .node n _ => GM.TableX.isCellNode src n

/-- a child of a Table node in the store: decodes as TableHeader (`hdr`) / TableRow, `cols` children, all decode as TableCells -/
def rowT (src : Bytes) (hdr : Bool) (cols : Nat) : GM.Blocks.Tree → Bool
  | .node n cs =>
    (match GM.TableX.kindOf src n with
      | some .tableHeader => hdr
      | some .tableRow => !hdr
      | _ => false) && cs.length == cols && cs.all (isCellT src)

def tableT (src : Bytes) : List GM.Blocks.Tree → Bool
  | [] => false
  | .node hn hcs :: rows =>
    decide (1 ≤ hcs.length) && rowT src true hcs.length (.node hn hcs) && rows.all (rowT src false hcs.length)

def isTableN (src : Bytes) (n : GM.Blocks.Node) : Bool :=
  match GM.TableX.kindOf src n with
  | some .table => true
  | _ => false

mutual
/-- every node of the block tree that decodes as a Table has no lines and rectangular children -/
def rectT (src : Bytes) : GM.Blocks.Tree → Bool
  | .node n cs => (if isTableN src n then n.lines.isEmpty && tableT src cs else true) && rectTs src cs
def rectTs (src : Bytes) : List GM.Blocks.Tree → Bool
  | [] => true
  | t :: rest => rectT src t && rectTs src rest
end

/-- `rectT` of the store the guarded block phase ends in (the Lean-defined C17 oracle on the store) -/
def storeRect (c : XCfg) (src : Bytes) : Except Err Bool := do
  let st ← liftErr .blocks (blockPhaseX c true src)
  pure (rectT src (GM.Blocks.treeOf st.nodes st.nodes.length 0))

end GM.ConvertX
