/-
  GM.Model.Instance — the life cycle of a Markdown / Parser / Renderer object as far as its persistent
  state goes (markdown.go, parser.go:632-866, renderer.go:96-156): options are collected into a pending
  configuration; the first use freezes it under a sync.Once; every later call reads the frozen
  configuration and creates its own per-document state (Context, Reader, BlockReader, bufio.Writer).
  That persistent state is *only* this is what the regenerated facts of GM.Spec.StateFacts establish.
  Core Lean only.
-/
namespace GM.Instance

structure Inst (Cfg : Type) where
  pending : Cfg
  frozen : Option Cfg

/-- what a call on the instance is: `conv cfg src` is the (unmodelled) pure conversion with a frozen configuration -/
def use {Cfg Src Out : Type} (conv : Cfg → Src → Out) (i : Inst Cfg) (src : Src) : Inst Cfg × Out :=
  match i.frozen with
  | some c => (i, conv c src)
  | none => ({ i with frozen := some i.pending }, conv i.pending src)

/-- a history of earlier calls -/
def runHist {Cfg Src Out : Type} (conv : Cfg → Src → Out) (i : Inst Cfg) : List Src → Inst Cfg
  | [] => i
  | s :: rest => runHist conv (use conv i s).1 rest

/-- markdown.Convert = Parser.Parse then Renderer.Render (markdown.go:115-119) -/
def convert {P R Src Ast Out : Type} (parse : P → Src → Ast) (render : R → Src → Ast → Out)
    (pr : P × R) (src : Src) : Out := render pr.2 src (parse pr.1 src)

end GM.Instance
