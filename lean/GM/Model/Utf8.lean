/-
  GM.Model.Utf8 — Go's unicode/utf8 as goldmark uses it: DecodeRune, EncodeRune, RuneStart, ValidRune, Valid.
  Runes are `Nat`; RuneError is 0xFFFD. Modelled from the package documentation and validated by
  differential runs against the real library (harness component `utf8`).
-/
import GM.Model.Basic

namespace GM

def runeError : Nat := 0xFFFD

def isCont (b : UInt8) : Bool := 0x80 ≤ b && b ≤ 0xBF
def runeStart (b : UInt8) : Bool := !isCont b

def validRune (r : Nat) : Bool := r < 0xD800 || (0xDFFF < r && r ≤ 0x10FFFF)

/-- `utf8.DecodeRune`: (rune, width). `(runeError, 0)` on empty input, `(runeError, 1)` on an invalid encoding. -/
def decodeRune : Bytes → Nat × Nat
  | [] => (runeError, 0)
  | b0 :: rest =>
    if b0 < 0x80 then (b0.toNat, 1)
    else if b0 < 0xC2 then (runeError, 1)
    else if b0 < 0xE0 then
      match rest with
      | b1 :: _ => if isCont b1 then ((b0.toNat - 0xC0) * 64 + (b1.toNat - 0x80), 2) else (runeError, 1)
      | _ => (runeError, 1)
    else if b0 < 0xF0 then
      match rest with
      | b1 :: b2 :: _ =>
        let lo : UInt8 := if b0 == 0xE0 then 0xA0 else 0x80
        let hi : UInt8 := if b0 == 0xED then 0x9F else 0xBF
        if lo ≤ b1 && b1 ≤ hi && isCont b2 then
          ((b0.toNat - 0xE0) * 4096 + (b1.toNat - 0x80) * 64 + (b2.toNat - 0x80), 3)
        else (runeError, 1)
      | _ => (runeError, 1)
    else if b0 < 0xF5 then
      match rest with
      | b1 :: b2 :: b3 :: _ =>
        let lo : UInt8 := if b0 == 0xF0 then 0x90 else 0x80
        let hi : UInt8 := if b0 == 0xF4 then 0x8F else 0xBF
        if lo ≤ b1 && b1 ≤ hi && isCont b2 && isCont b3 then
          ((b0.toNat - 0xF0) * 262144 + (b1.toNat - 0x80) * 4096 + (b2.toNat - 0x80) * 64 + (b3.toNat - 0x80), 4)
        else (runeError, 1)
      | _ => (runeError, 1)
    else (runeError, 1)

/-- `utf8.EncodeRune` (invalid runes are written as U+FFFD, as Go does). -/
def encodeRune (r : Nat) : Bytes :=
  if !validRune r then [0xEF, 0xBF, 0xBD]
  else if r < 0x80 then [UInt8.ofNat r]
  else if r < 0x800 then [UInt8.ofNat (0xC0 + r / 64), UInt8.ofNat (0x80 + r % 64)]
  else if r < 0x10000 then
    [UInt8.ofNat (0xE0 + r / 4096), UInt8.ofNat (0x80 + r / 64 % 64), UInt8.ofNat (0x80 + r % 64)]
  else
    [UInt8.ofNat (0xF0 + r / 262144), UInt8.ofNat (0x80 + r / 4096 % 64), UInt8.ofNat (0x80 + r / 64 % 64),
     UInt8.ofNat (0x80 + r % 64)]

/-- util.ToValidRune -/
def toValidRune (r : Nat) : Nat := if r == 0 || !validRune r then 0xFFFD else r

/-! ### UTF-8 validity as a DFA (so that validity of concatenations is `List.foldl_append`) -/

inductive U8St | s0 | c1 | c2 | c3 | e0 | ed | f0 | f4 | bad
  deriving DecidableEq, Repr

def u8step : U8St → UInt8 → U8St
  | .s0, b =>
    if b < 0x80 then .s0 else if b < 0xC2 then .bad else if b < 0xE0 then .c1
    else if b == 0xE0 then .e0 else if b == 0xED then .ed else if b < 0xF0 then .c2
    else if b == 0xF0 then .f0 else if b < 0xF4 then .c3 else if b == 0xF4 then .f4 else .bad
  | .c1, b => if isCont b then .s0 else .bad
  | .c2, b => if isCont b then .c1 else .bad
  | .c3, b => if isCont b then .c2 else .bad
  | .e0, b => if 0xA0 ≤ b && b ≤ 0xBF then .c1 else .bad
  | .ed, b => if 0x80 ≤ b && b ≤ 0x9F then .c1 else .bad
  | .f0, b => if 0x90 ≤ b && b ≤ 0xBF then .c2 else .bad
  | .f4, b => if 0x80 ≤ b && b ≤ 0x8F then .c2 else .bad
  | .bad, _ => .bad

def u8run (st : U8St) (b : Bytes) : U8St := b.foldl u8step st

/-- `utf8.Valid` -/
def validUtf8 (b : Bytes) : Bool := u8run .s0 b == .s0

end GM
