/-
  GM.Model.Render — renderer/renderer.go (option propagation, kind dispatch, walk) + every node renderer of
  renderer/html/html.go and of extension/{table,footnote,strikethrough,tasklist,definition_list}.go,
  mirrored branch by branch, including the *scattered* option conditionals and the *per-renderer copies* of
  html.Config that are filled by option propagation. Attribute allow-lists come from GM.Gen.RenderFacts
  (regenerated from /repo). Core Lean only.

  Go panics are explicit: `renderPanics t` says whether (and how) rendering `t` panics; `render` is only
  meaningful when it returns `none` (the driver prints `panic:<kind>` otherwise).
-/
import GM.Model.Tree
import GM.Model.Writer
import GM.Gen.RenderFacts

namespace GM

/-! ### configuration -/

/-- html.Config (one copy per node renderer) -/
structure HCfg where
  hardWraps : Bool := false
  ea : Nat := 0               -- EastAsianLineBreaks: 0 none, 1 simple, 2 css3draft
  xhtml : Bool := false
  unsafe_ : Bool := false
  escSpace : Bool := false    -- Writer = NewWriter(WithEscapedSpace())
deriving Repr, BEq, DecidableEq

/-- extension.FootnoteConfig minus the embedded html.Config -/
structure FootCfg where
  idPrefix : Option Bytes := none
  linkTitle : Bytes := []
  backlinkTitle : Bytes := []
  linkClass : Bytes := strBytes "footnote-ref"
  backlinkClass : Bytes := strBytes "footnote-backref"
  backlinkHTML : Bytes := strBytes "&#x21a9;&#xfe0e;"
deriving Repr, BEq, DecidableEq

/-- renderer.Config.Options as far as the built-in renderers read it. The three boolean options can only
    ever be stored with value `true`. -/
structure Opts where
  hardWraps : Bool := false
  xhtml : Bool := false
  unsafe_ : Bool := false
  ea : Option Nat := none
  writerEsc : Option Bool := none
  tableAlign : Option Nat := none
deriving Repr, BEq, DecidableEq

/-- (*html.Config).SetOption for every entry of the options map -/
def HCfg.setOpts (c : HCfg) (o : Opts) : HCfg :=
  { hardWraps := if o.hardWraps then true else c.hardWraps
    xhtml := if o.xhtml then true else c.xhtml
    unsafe_ := if o.unsafe_ then true else c.unsafe_
    ea := match o.ea with | some e => e | none => c.ea
    escSpace := match o.writerEsc with | some e => e | none => c.escSpace }

/-- which extension node renderers are registered -/
structure Exts where
  table : Bool := false
  strike : Bool := false
  task : Bool := false
  dl : Bool := false
  foot : Bool := false
deriving Repr, BEq, DecidableEq

/-- the state of all node renderers after `renderer.Render`'s one-time initialisation -/
structure RCfg where
  core : HCfg := {}
  task : HCfg := {}
  strike : HCfg := {}
  dl : HCfg := {}
  foot : HCfg := {}
  footc : FootCfg := {}
  table : HCfg := {}
  tableAlign : Nat := 0       -- 0 Default, 1 Attribute, 2 Style, 3 None
  exts : Exts := {}
deriving Repr, BEq, DecidableEq

/-- renderer.go:137-148: every SetOptioner receives every option -/
def RCfg.propagate (r : RCfg) (o : Opts) : RCfg :=
  { r with
    core := r.core.setOpts o, task := r.task.setOpts o, strike := r.strike.setOpts o, dl := r.dl.setOpts o,
    foot := r.foot.setOpts o, table := r.table.setOpts o,
    tableAlign := match o.tableAlign with | some a => a | none => r.tableAlign }

/-- a Markdown built with default-constructed node renderers and the given global options -/
def mkRCfg (o : Opts) (e : Exts) : RCfg := ({ exts := e } : RCfg).propagate o

/-! ### small helpers -/

def decBytes (n : Nat) : Bytes := (Nat.toDigits 10 n).map fun c => UInt8.ofNat c.toNat

def hasBytesPrefix (s pre : Bytes) : Bool := s.take pre.length == pre

/-- bytes.Replace(b, [a,a], rep, -1) -/
def replace2 (a : UInt8) (rep : Bytes) : Bytes → Bytes
  | x :: y :: rest => if x == a && y == a then rep ++ replace2 a rep rest else x :: replace2 a rep (y :: rest)
  | l => l

/-- extension.applyFootnoteTemplate (its `fast` path returns `b` exactly when neither pattern occurs, in which
    case both replacements are the identity) -/
def applyFootnoteTemplate (b : Bytes) (index refCount : Nat) : Bytes :=
  replace2 37 (decBytes refCount) (replace2 94 (decBytes index) b)

/-- html.RenderAttributes for one attribute -/
def renderAttr (filter : List Bytes) (a : Attr) : Bytes :=
  if filter.contains a.name || hasBytesPrefix a.name Gen.dataPrefix then
    [32] ++ a.name ++ [61, 34] ++ escapeHTML (a.value.getD []) ++ [34]
  else []

def renderAttrList (filter : List Bytes) (as : List Attr) : Bytes := as.flatMap (renderAttr filter)

/-- `if n.Attributes() != nil { RenderAttributes(w, n, filter) }` -/
def renderAttrs (filter : List Bytes) : Option (List Attr) → Bytes
  | none => []
  | some as => renderAttrList filter as

/-- `<tag` + attributes + `>` when attributes are present, `<tag>` otherwise, with an optional suffix for each -/
def openTag (tag : Bytes) (filter : List Bytes) (attrs : Option (List Attr)) (sufAttr sufPlain : Bytes) : Bytes :=
  match attrs with
  | some as => [60] ++ tag ++ renderAttrList filter as ++ [62] ++ sufAttr
  | none => [60] ++ tag ++ [62] ++ sufPlain

def omitted : Bytes := strBytes "<!-- raw HTML omitted -->"

/-- `!bytes.HasPrefix(bytes.ToLower(url), "mailto:")`: bytes.ToLower maps U+0130 (C4 B0) to `i`, the only non-ASCII
    rune whose lower case is a letter of "mailto:" -/
def mailtoPrefixed : Bytes → Bytes → Bool
  | _, [] => true
  | [], _ :: _ => false
  | c :: cs, p :: ps =>
    if lowerAscii c == p then mailtoPrefixed cs ps
    else if p == 105 && c == 0xC4 then
      match cs with
      | 0xB0 :: cs' => mailtoPrefixed cs' ps
      | _ => false
    else false

/-- the URL written into href/src: empty when dangerous and not Unsafe -/
def urlOut (unsafe_ : Bool) (dest : Bytes) : Bytes :=
  if unsafe_ || !isDangerousURL dest then escapeHTML dest else []

def alignName : Nat → Bytes
  | 0 => strBytes "left" | 1 => strBytes "right" | 2 => strBytes "center" | _ => strBytes "none"

def findAttr (name : Bytes) : Option (List Attr) → Option Attr
  | none => none
  | some as => as.find? (·.name == name)

/-- ast.BaseNode.SetAttribute -/
def setAttr (name : Bytes) (v : Bytes) : Option (List Attr) → List Attr
  | none => [⟨name, some v⟩]
  | some as =>
    if as.any (·.name == name) then as.map (fun a => if a.name == name then ⟨name, some v⟩ else a)
    else as ++ [⟨name, some v⟩]

def styleName : Bytes := strBytes "style"
def alignAttrName : Bytes := strBytes "align"

def renderStringOut (esc : Bool) (v : Bytes) (raw code : Bool) : Bytes :=
  if code then v else if raw then rawWrite v else write esc v

/-! ### renderTexts (image alt text) -/

mutual
def altText (esc : Bool) : Node → Bytes
  | .mk (.string v raw code) _ _ => renderStringOut esc v raw code
  | .mk (.text v soft hard raw _) _ _ =>
    (if raw then rawWrite v else write esc v) ++ (if hard || soft then [10] else [])
  | .mk _ _ cs => altTexts esc cs
def altTexts (esc : Bool) : List Node → Bytes
  | [] => []
  | c :: rest => altText esc c ++ altTexts esc rest
end

/-! ### html.firstTextRune: is there a non-empty Text/String in document order below (or at) the node? -/

mutual
def nodeHasText : Node → Bool
  | .mk (.text v ..) _ cs => !v.isEmpty || nodesHaveText cs
  | .mk (.string v ..) _ cs => !v.isEmpty || nodesHaveText cs
  | .mk _ _ cs => nodesHaveText cs
def nodesHaveText : List Node → Bool
  | [] => false
  | c :: rest => nodeHasText c || nodesHaveText rest
end

def hasFirstText : Option Node → Bool
  | none => false
  | some n => nodeHasText n

/-- renderCodeSpan's loop over its (Text) children -/
def codeSpanBody : List Node → Bytes
  | [] => []
  | .mk (.text v ..) _ _ :: rest =>
    (if v.getLast? == some 10 then rawWrite v.dropLast ++ rawWrite [32] else rawWrite v) ++ codeSpanBody rest
  | _ :: rest => codeSpanBody rest      -- Go: failed type assertion (see renderPanics)

/-! ### which renderer function handles a kind -/

/-- false: no function registered for this kind (the node is skipped, its children are rendered) -/
def handled (e : Exts) : Kind → Bool
  | .other => false
  | .table | .tableHeader | .tableRow | .tableCell _ => e.table
  | .strikethrough => e.strike
  | .taskCheckBox _ => e.task
  | .definitionList | .definitionTerm | .definitionDescription _ => e.dl
  | .footnoteLink .. | .footnoteBacklink .. | .footnote _ | .footnoteList => e.foot
  | _ => true

/-- does the entering call return WalkSkipChildren? -/
def skipsChildren : Kind → Bool
  | .codeSpan | .image .. | .rawHTML _ => true
  | _ => false

def footIdPrefix (rc : RCfg) : Bytes := rc.footc.idPrefix.getD []

def fnrefId (rc : RCfg) (index refIndex : Nat) : Bytes :=
  footIdPrefix rc ++ strBytes "fnref" ++ (if refIndex > 0 then decBytes refIndex else []) ++ [58] ++ decBytes index

/-- the effective attributes of a table cell and the text written before them (table.go:486-519) -/
def tableCellHead (rc : RCfg) (align : Nat) (attrs : Option (List Attr)) : Bytes × Option (List Attr) :=
  if align == 3 then ([], attrs)
  else
    let amethod :=
      if rc.tableAlign == 0 then (if rc.table.xhtml then 1 else 2) else rc.tableAlign
    if amethod == 1 then
      ((if (findAttr alignAttrName attrs).isSome then [] else
          strBytes " align=\"" ++ alignName align ++ [34]), attrs)
    else if amethod == 2 then
      let style := strBytes "text-align:" ++ alignName align
      let v := match findAttr styleName attrs with
        | some a => (a.value.getD []) ++ [59] ++ style
        | none => style
      ([], some (setAttr styleName v attrs))
    else ([], attrs)

/-! ### the node renderer functions -/

/-- output of the renderer function when entering a node.
    `parentIsHeader`: the parent is a TableHeader; `next`: the next sibling. -/
def enter (rc : RCfg) (parentIsHeader : Bool) (next : Option Node) (k : Kind) (attrs : Option (List Attr))
    (cs : List Node) : Bytes :=
  if !handled rc.exts k then [] else
  match k with
  | .document => []
  | .heading level => strBytes "<h" ++ [UInt8.ofNat (48 + level)] ++ renderAttrs Gen.HeadingAttributeFilter attrs ++ [62]
  | .blockquote => openTag (strBytes "blockquote") Gen.BlockquoteAttributeFilter attrs [] [10]
  | .codeBlock lines => strBytes "<pre><code>" ++ lines.flatMap rawWrite
  | .fencedCodeBlock info lines =>
    strBytes "<pre><code" ++
      (match info with
       | some i => strBytes " class=\"language-" ++ write rc.core.escSpace (i.takeWhile (· != 32)) ++ [34]
       | none => []) ++ [62] ++ lines.flatMap rawWrite
  | .htmlBlock lines _ =>
    if rc.core.unsafe_ then lines.flatMap secureWrite else omitted ++ [10]
  | .list ordered start =>
    [60] ++ (if ordered then strBytes "ol" else strBytes "ul") ++
      (if ordered && start != 1 then strBytes " start=\"" ++ decBytes start ++ [34] else []) ++
      renderAttrs Gen.ListAttributeFilter attrs ++ [62, 10]
  | .listItem =>
    openTag (strBytes "li") Gen.ListItemAttributeFilter attrs [] [] ++
      (match cs with
       | c :: _ => if c.kind.isTextBlock then [] else [10]
       | [] => [])
  | .paragraph => openTag (strBytes "p") Gen.ParagraphAttributeFilter attrs [] []
  | .textBlock => []
  | .thematicBreak =>
    strBytes "<hr" ++ renderAttrs Gen.ThematicAttributeFilter attrs ++
      (if rc.core.xhtml then strBytes " />\n" else strBytes ">\n")
  | .autoLink email url label =>
    strBytes "<a href=\"" ++
      (if email && !mailtoPrefixed url (strBytes "mailto:") then strBytes "mailto:" else []) ++
      urlOut rc.core.unsafe_ (urlEscape url false) ++
      (match attrs with
       | some as => [34] ++ renderAttrList Gen.LinkAttributeFilter as ++ [62]
       | none => [34, 62]) ++
      escapeHTML label ++ strBytes "</a>"
  | .codeSpan => openTag (strBytes "code") Gen.CodeAttributeFilter attrs [] [] ++ codeSpanBody cs
  | .emphasis level =>
    [60] ++ (if level == 2 then strBytes "strong" else strBytes "em") ++
      renderAttrs Gen.EmphasisAttributeFilter attrs ++ [62]
  | .link dest title =>
    strBytes "<a href=\"" ++ urlOut rc.core.unsafe_ (urlEscape dest true) ++ [34] ++
      (match title with
       | some t => strBytes " title=\"" ++ write rc.core.escSpace t ++ [34]
       | none => []) ++
      renderAttrs Gen.LinkAttributeFilter attrs ++ [62]
  | .image dest title =>
    strBytes "<img src=\"" ++ urlOut rc.core.unsafe_ (urlEscape dest true) ++ strBytes "\" alt=\"" ++
      altTexts rc.core.escSpace cs ++ [34] ++
      (match title with
       | some t => strBytes " title=\"" ++ write rc.core.escSpace t ++ [34]
       | none => []) ++
      renderAttrs Gen.ImageAttributeFilter attrs ++
      (if rc.core.xhtml then strBytes " />" else [62])
  | .rawHTML segs => if rc.core.unsafe_ then segs.flatten else omitted
  | .text v soft hard raw cjk =>
    if raw then rawWrite v
    else
      write rc.core.escSpace v ++
      (if hard || (soft && rc.core.hardWraps) then
         (if rc.core.xhtml then strBytes "<br />\n" else strBytes "<br>\n")
       else if soft then
         (if rc.core.ea != 0 && !v.isEmpty then
            (if !hasFirstText next || cjk then [10] else [])
          else [10])
       else [])
  | .string v raw code => renderStringOut rc.core.escSpace v raw code
  | .table => strBytes "<table" ++ renderAttrs Gen.TableAttributeFilter attrs ++ [62, 10]
  | .tableHeader =>
    strBytes "<thead" ++ renderAttrs Gen.TableHeaderAttributeFilter attrs ++ strBytes ">\n<tr>\n"
  | .tableRow => strBytes "<tr" ++ renderAttrs Gen.TableRowAttributeFilter attrs ++ [62, 10]
  | .tableCell align =>
    let tag := if parentIsHeader then strBytes "th" else strBytes "td"
    let hd := tableCellHead rc align attrs
    [60] ++ tag ++ hd.1 ++
      renderAttrs (if parentIsHeader then Gen.TableThCellAttributeFilter else Gen.TableTdCellAttributeFilter) hd.2 ++ [62]
  | .strikethrough => openTag (strBytes "del") Gen.StrikethroughAttributeFilter attrs [] []
  | .taskCheckBox checked =>
    (if checked then strBytes "<input checked=\"\" disabled=\"\" type=\"checkbox\""
     else strBytes "<input disabled=\"\" type=\"checkbox\"") ++
      (if rc.task.xhtml then strBytes " /> " else strBytes "> ")
  | .definitionList => openTag (strBytes "dl") Gen.DefinitionListAttributeFilter attrs [10] [10]
  | .definitionTerm => openTag (strBytes "dt") Gen.DefinitionTermAttributeFilter attrs [] []
  | .definitionDescription tight =>
    strBytes "<dd" ++ renderAttrs Gen.DefinitionDescriptionAttributeFilter attrs ++
      (if tight then [62] else [62, 10])
  | .footnoteLink index refCount refIndex =>
    strBytes "<sup id=\"" ++ fnrefId rc index refIndex ++ strBytes "\"><a href=\"#" ++ footIdPrefix rc ++
      strBytes "fn:" ++ decBytes index ++ strBytes "\" class=\"" ++
      applyFootnoteTemplate rc.footc.linkClass index refCount ++
      (if rc.footc.linkTitle.length > 0 then
         strBytes "\" title=\"" ++ escapeHTML (applyFootnoteTemplate rc.footc.linkTitle index refCount)
       else []) ++
      strBytes "\" role=\"doc-noteref\">" ++ decBytes index ++ strBytes "</a></sup>"
  | .footnoteBacklink index refCount refIndex =>
    strBytes "&#160;<a href=\"#" ++ fnrefId rc index refIndex ++ strBytes "\" class=\"" ++
      applyFootnoteTemplate rc.footc.backlinkClass index refCount ++
      (if rc.footc.backlinkTitle.length > 0 then
         strBytes "\" title=\"" ++ escapeHTML (applyFootnoteTemplate rc.footc.backlinkTitle index refCount)
       else []) ++
      strBytes "\" role=\"doc-backlink\">" ++ applyFootnoteTemplate rc.footc.backlinkHTML index refCount ++
      strBytes "</a>"
  | .footnote index =>
    strBytes "<li id=\"" ++ footIdPrefix rc ++ strBytes "fn:" ++ decBytes index ++ [34] ++
      renderAttrs Gen.ListItemAttributeFilter attrs ++ [62, 10]
  | .footnoteList =>
    strBytes "<div class=\"footnotes\" role=\"doc-endnotes\"" ++ renderAttrs Gen.GlobalAttributeFilter attrs ++ [62] ++
      (if rc.foot.xhtml then strBytes "\n<hr />\n" else strBytes "\n<hr>\n") ++ strBytes "<ol>\n"
  | .other => []

/-- output of the renderer function when leaving a node -/
def leave (rc : RCfg) (parentIsHeader : Bool) (next : Option Node) (k : Kind) (cs : List Node) : Bytes :=
  if !handled rc.exts k then [] else
  match k with
  | .heading level => strBytes "</h" ++ [UInt8.ofNat (48 + level)] ++ [62, 10]
  | .blockquote => strBytes "</blockquote>\n"
  | .codeBlock _ => strBytes "</code></pre>\n"
  | .fencedCodeBlock _ _ => strBytes "</code></pre>\n"
  | .htmlBlock _ closure =>
    (match closure with
     | some c => if rc.core.unsafe_ then secureWrite c else omitted ++ [10]
     | none => [])
  | .list ordered _ => strBytes "</" ++ (if ordered then strBytes "ol" else strBytes "ul") ++ [62, 10]
  | .listItem => strBytes "</li>\n"
  | .paragraph => strBytes "</p>\n"
  | .textBlock => if next.isSome && !cs.isEmpty then [10] else []
  | .codeSpan => strBytes "</code>"
  | .emphasis level => strBytes "</" ++ (if level == 2 then strBytes "strong" else strBytes "em") ++ [62]
  | .link _ _ => strBytes "</a>"
  | .table => strBytes "</table>\n"
  | .tableHeader => strBytes "</tr>\n</thead>\n" ++ (if next.isSome then strBytes "<tbody>\n" else [])
  | .tableRow => strBytes "</tr>\n" ++ (if next.isSome then [] else strBytes "</tbody>\n")
  | .tableCell _ => strBytes "</" ++ (if parentIsHeader then strBytes "th" else strBytes "td") ++ [62, 10]
  | .strikethrough => strBytes "</del>"
  | .definitionList => strBytes "</dl>\n"
  | .definitionTerm => strBytes "</dt>\n"
  | .definitionDescription _ => strBytes "</dd>\n"
  | .footnote _ => strBytes "</li>\n"
  | .footnoteList => strBytes "</ol>\n</div>\n"
  | _ => []

/-! ### the walk -/

mutual
/-- ast.Walk with the renderer's dispatching walker, on one node -/
def renderNode (rc : RCfg) (parentIsHeader : Bool) (next : Option Node) : Node → Bytes
  | .mk k attrs cs =>
    enter rc parentIsHeader next k attrs cs ++
      (if handled rc.exts k && skipsChildren k then [] else renderNodes rc k.isTableHeader cs) ++
      leave rc parentIsHeader next k cs
def renderNodes (rc : RCfg) (parentIsHeader : Bool) : List Node → Bytes
  | [] => []
  | c :: rest => renderNode rc parentIsHeader rest.head? c ++ renderNodes rc parentIsHeader rest
end

/-- renderer.Render of a root node -/
def render (rc : RCfg) (t : Node) : Bytes := renderNode rc false none t

/-! ### panics -/

inductive PanicKind | index | assert
deriving Repr, DecidableEq

def codeSpanChildrenText : List Node → Bool
  | [] => true
  | c :: rest => c.kind.isText && codeSpanChildrenText rest

/-- the panic (if any) raised by the renderer function of this node itself -/
def nodePanic (rc : RCfg) (k : Kind) (attrs : Option (List Attr)) (cs : List Node) : Option PanicKind :=
  if !handled rc.exts k then none else
  match k with
  | .heading level => if level > 6 then some .index else none           -- "0123456"[n.Level]
  | .codeSpan => if codeSpanChildrenText cs then none else some .assert  -- c.(*ast.Text)
  | .tableCell align =>
    -- v.([]byte) on the style attribute
    if align != 3 &&
       (if rc.tableAlign == 0 then (if rc.table.xhtml then 1 else 2) else rc.tableAlign) == 2 then
      match findAttr styleName attrs with
      | some a => if a.value.isNone then some .assert else none
      | none => none
    else none
  | _ => none

mutual
def renderPanicsNode (rc : RCfg) : Node → Option PanicKind
  | .mk k attrs cs =>
    match nodePanic rc k attrs cs with
    | some p => some p
    | none => if handled rc.exts k && skipsChildren k then none else renderPanicsNodes rc cs
def renderPanicsNodes (rc : RCfg) : List Node → Option PanicKind
  | [] => none
  | c :: rest =>
    match renderPanicsNode rc c with
    | some p => some p
    | none => renderPanicsNodes rc rest
end

def renderPanics (rc : RCfg) (t : Node) : Option PanicKind := renderPanicsNode rc t

end GM
