/-
  GM.Model.ExtStrike — the ACCEPT path of extension.Strikethrough (extension/strikethrough.go) on the concrete inline
  model, and what it needs of the delimiter machinery:

    strikethrough.go:13-27   strikethroughDelimiterProcessor  IsDelimiter (`~`), CanOpenCloser (`opener.Char == closer.Char`),
                             OnMatch (`ast.NewStrikethrough()`, whatever `consumes` is)
    strikethrough.go:46-57   (*strikethroughParser).Parse
    parser/delimiter.go:114-151   ScanDelimiter over an arbitrary `IsDelimiter` (`scanDelimiterP`)
    parser/delimiter.go:157-246   ProcessDelimiters with `opener.Processor.OnMatch(consume)` dispatched on the opener's
                                  processor (`closerStepG`, `closerLoopG`, `processDelimitersG`)
    parser/link.go:124-331   the link parser over that ProcessDelimiters (`parseLinkG pd`: the definitions of
                             GM.Model.InlinesParsers with `processDelimiters` replaced by the parameter `pd`)

  The processor of a delimiter is determined by its `Char`: `*`/`_` delimiters are only made by the emphasis parser,
  `~` delimiters only by this parser; `CanOpenCloser` of both processors is `opener.Char == closer.Char`, so a match
  always pairs two delimiters of one processor and GM.Inl.findOpener is already the search for both.

  ENCODING. GM.Inl.Node (GM.Model.Inlines, not editable in this package) has no Strikethrough constructor. A Strikethrough
  node with children `ks`, made by a match that consumed `consume` (1 or 2) tildes, is represented as
  `.emphasis (-2 - consume) ks` (level −3 or −4): the emphasis processor only ever builds levels 1 and 2 (`consume ≥ 1` is
  checked in closerStep), and every function of the inline model that walks the tree treats `.emphasis _ ks` exactly as Go's
  generic child walk treats any node with children (containsLink, hasLabel, closeLabels). GM.ConvertX.inlineTreeX decodes
  the two levels into the renderer's `.strikethrough`. (Keeping `consume` in the representation makes the generalised
  ProcessDelimiters the default one up to a relabelling of levels: GM.Proof.ConvertXRelv.)

  With the flag `strike = false` every definition here is the one of GM.Model.Inlines / InlinesParsers
  (GM.Proof.ConvertX: `processDelimitersG_false`, `parseLinkG_default`). Core Lean only.
-/
import GM.Model.InlinesLoopX

namespace GM.Inl
open GM GM.Text

/-- the representation of `ast.NewStrikethrough()` with the given children, made by a match of `consume` tildes -/
def strikeNode (consume : Int) (kids : List Node) : Node := .emphasis (-2 - consume) kids

/-- ScanDelimiter(line, before, 1, processor) for a processor with the given `IsDelimiter` (delimiter.go:114-151) -/
def scanDelimiterP (isDelim : UInt8 → Bool) (env : Env) (line : Bytes) (before : Nat) : Except Panic (Option Delim) :=
  match line with
  | [] => .error .index                                            -- `c := line[0]`
  | c :: rest =>
    if !isDelim c then .ok none else
    let j := (rest.takeWhile (· == c)).length + 1
    let after : Nat := if j == line.length then 32 else toRune line j
    let bP := isPunctRune env before
    let bW := isSpaceRune env before
    let aP := isPunctRune env after
    let aW := isSpaceRune env after
    let isLeft := !aW && (!aP || bW || bP)
    let isRight := !bW && (!bP || aW || aP)
    let (canOpen, canClose) :=
      if c == 95 then (isLeft && (!isRight || bP), isRight && (!isLeft || aP)) else (isLeft, isRight)
    .ok (some { seg := { start := 0, stop := 0 }, canOpen := canOpen, canClose := canClose, length := j,
                origLength := j, char := c })

/-- emphasisDelimiterProcessor.IsDelimiter (emphasis.go:11-13) -/
def isEmphasisDelim (c : UInt8) : Bool := c == 42 || c == 95
/-- strikethroughDelimiterProcessor.IsDelimiter (strikethrough.go:16-18) -/
def isStrikeDelim (c : UInt8) : Bool := c == 126

/-- (*strikethroughParser).Parse (strikethrough.go:46-57); `pc.PushDelimiter(node)` is implicit (the node is appended
    by the caller), the new delimiter gets the id `st.nextId` -/
def parseStrike (env : Env) (st : St) : PRes := do
  let before ← st.rd.precendingCharacter
  let ((line, segment), rd) ← st.rd.peekLine
  let d ← scanDelimiterP isStrikeDelim env (line.getD []) before
  match d with
  | none => pure (none, { st with rd := rd })
  | some d =>
    if d.origLength > 2 || before == 126 then pure (none, { st with rd := rd })
    else
      let d := { d with seg := segment.withStop (segment.start + d.origLength) }
      let rd ← rd.advance d.origLength
      pure (some (.delim st.nextId d), { st with rd := rd, nextId := st.nextId + 1 })

/-- extension.NewStrikethroughParser(): Trigger() = {'~'} -/
def strikeParser : XParser := { triggers := [126], parse := parseStrike }

/-! ### ProcessDelimiters with both processors -/

/-- `opener.Processor.OnMatch(consume)` with the moved children: the processor is the one of the opener's `Char`;
    `strike` = the strikethrough parser is registered (without it no `~` delimiter exists) -/
def onMatch (strike : Bool) (od : Delim) (consume : Int) (kids : List Node) : Node :=
  if strike && isStrikeDelim od.char then strikeNode consume kids else .emphasis consume kids

/-- GM.Inl.closerStep with `OnMatch` dispatched on the opener's processor -/
def closerStepG (strike : Bool) (bottom : Bottom) (pre : List Node) (cid : Nat) (cd : Delim) (post : List Node) : CStep :=
  if cd.length < 1 then .bad else
  if !cd.canClose then advanceCloser (pre ++ [.delim cid cd]) post
  else
    match findOpener bottom cd pre.reverse [] false with
    | (none, maybeOpener) =>
      advanceCloser (if !maybeOpener && !cd.canOpen then removeDelim pre cd else pre ++ [.delim cid cd]) post
    | (some (p1, oid, od, mid, consume), _) =>
      if consume < 1 then .bad else
      let od' := od.consume consume
      let cd' := cd.consume consume
      let node := onMatch strike od consume (clearInner [] mid)
      let pre' := (if od'.length == 0 then p1 else p1 ++ [.delim oid od']) ++ [node]
      if cd'.length == 0 then advanceCloser pre' post
      else .next pre' cid cd' post

theorem closerStepG_dec {strike : Bool} {bottom : Bottom} {pre post pre' post' : List Node} {cid cid' : Nat}
    {cd cd' : Delim} (h : closerStepG strike bottom pre cid cd post = .next pre' cid' cd' post') :
    Prod.Lex (· < ·) (· < ·) (post'.length, cd'.length.toNat) (post.length, cd.length.toNat) := by
  unfold closerStepG at h
  split at h
  · simp at h
  · split at h
    · exact Prod.Lex.left _ _ (advanceCloser_dec h)
    · split at h
      · exact Prod.Lex.left _ _ (advanceCloser_dec h)
      · split at h
        · simp at h
        · simp only at h
          split at h
          · exact Prod.Lex.left _ _ (advanceCloser_dec h)
          · simp at h
            obtain ⟨_, _, rfl, rfl⟩ := h
            apply Prod.Lex.right
            simp only [Delim.consume]
            omega

/-- the `for closer != nil` loop (delimiter.go:183-243) -/
def closerLoopG (strike : Bool) (bottom : Bottom) (pre : List Node) (cid : Nat) (cd : Delim) (post : List Node) :
    Except Panic (List Node) :=
  match h : closerStepG strike bottom pre cid cd post with
  | .done kids => .ok kids
  | .bad => .error .pre
  | .next pre' cid' cd' post' => closerLoopG strike bottom pre' cid' cd' post'
termination_by (post.length, cd.length.toNat)
decreasing_by exact closerStepG_dec h

/-- ProcessDelimiters(bottom, pc) on `parent`'s children, both processors -/
def processDelimitersG (strike : Bool) (bottom : Bottom) (kids : List Node) : Except Panic (List Node) :=
  match splitLastDelim kids with
  | none => .ok kids
  | some (preL, lastId, _, _) =>
    let closer : Option Nat :=
      match bottom with
      | .nil => (splitFirstDelim kids).map (·.2.1)
      | b => if b == .id lastId then none else firstCloserAfter b preL.reverse none
    match closer with
    | none => .ok (clearDelimiters bottom kids)
    | some cid =>
      match splitAtDelim cid kids with
      | none => .error .pre
      | some (pre, cd, post) =>
        match closerLoopG strike bottom pre cid cd post with
        | .ok kids' => .ok (clearDelimiters bottom kids')
        | .error e => .error e

/-! ### the link parser over a given ProcessDelimiters (link.go; GM.Model.InlinesParsers with `pd` for `processDelimiters`) -/

abbrev PD := Bottom → List Node → Except Panic (List Node)

/-- linkParser.processLinkLabel (link.go:238-247), as GM.Inl.processLinkLabel -/
def processLinkLabelG (pd : PD) (st : St) : Except Panic (List Node × St) :=
  let st := popBottom st
  match splitLastLabel st.2.kids with
  | none => .error .pre
  | some (_, _, post0) =>
    if hasLabelL post0 then .error .pre else
    match pd st.1 st.2.kids with
    | .error e => .error e
    | .ok kids =>
      match splitLastLabel kids with
      | none => .error .pre
      | some (pre, (lid, lseg, im), post) =>
        if post.any Node.isDelim || hasLabelL post then .error .pre
        else .ok (post, { st.2 with kids := pre ++ [.label lid lseg im] })

/-- linkParser.parseLink (link.go:296-331), as GM.Inl.parseLinkInline -/
def parseLinkInlineG (pd : PD) (st : St) : Except Panic (Option LinkInfo × St) := do
  let rd ← st.rd.advance 1
  let (_, rd) ← skipSpaces blockOps (rdFuel rd) 0 rd
  let finish (rd : BlockReader) (dest : Bytes) (title : Option Bytes) : Except Panic (Option LinkInfo × St) := do
    let (kids, st) ← processLinkLabelG pd { st with rd := rd }
    pure (some { dest := dest, title := title, kids := kids }, st)
  if (← rd.peek) == 41 then
    let rd ← rd.advance 1
    finish rd [] none
  else
    let (dest, rd) ← parseLinkDestination rd
    match dest with
    | none => pure (none, { st with rd := rd })
    | some dest =>
      let ((_, spaces, _), rd) ← skipSpaces blockOps (rdFuel rd) 0 rd
      if (← rd.peek) == 41 then
        let rd ← rd.advance 1
        finish rd dest none
      else if spaces == 0 then pure (none, { st with rd := rd })   -- link.go:313 (repair 8c83fd9): a title needs white space in front
      else
        let (title, rd) ← parseLinkTitle rd
        match title with
        | none => pure (none, { st with rd := rd })
        | some title =>
          let (_, rd) ← skipSpaces blockOps (rdFuel rd) 0 rd
          if (← rd.peek) == 41 then
            let rd ← rd.advance 1
            finish rd dest title
          else pure (none, { st with rd := rd })

/-- linkParser.parseReferenceLink (link.go:255-294), as GM.Inl.parseReferenceLink -/
def parseReferenceLinkG (pd : PD) (env : Env) (st : St) (lseg : Segment) :
    Except Panic ((Option LinkInfo × Bool) × St) := do
  let orgpos := st.rd.position.2
  let rd ← st.rd.advance 1
  let ((segs, found), rd) ← findClosure blockOps (rdFuel rd) 91 93 linkFindClosureOptions rd
  let st := { st with rd := rd }
  if !found then return ((none, false), st)
  let maybeReference ← segsValue rd (segs.getD [])
  -- link.go:274-281 (repair fb85ad2): only an EMPTY second pair of brackets is a collapsed reference; brackets with
  -- only white space between them are no label at all (`return nil, false`: the caller tries a shortcut reference)
  if !maybeReference.isEmpty && isBlank maybeReference then return ((none, false), st)
  let maybeReference ←
    if maybeReference.isEmpty then rd.valueOp { start := lseg.stop, stop := orgpos.start - 1 }
    else pure maybeReference
  if maybeReference.length > 999 then return ((none, true), st)
  match lookupRef env maybeReference with
  | none => return ((none, true), st)
  | some (dest, title) =>
    let (kids, st) ← processLinkLabelG pd st
    pure ((some { dest := dest, title := title, kids := kids }, true), st)

/-- link.go:176-203, as GM.Inl.linkShortcut -/
def linkShortcutG (pd : PD) (env : Env) (st : St) (lseg segment : Segment) (l : Int) (pos : Segment)
    (isImage : Bool) (pre post : List Node) : PRes := do
  let rd ← st.rd.setPosition l pos
  let st := { st with rd := rd }
  let maybeReference ← rd.valueOp { start := lseg.stop, stop := segment.start }
  if maybeReference.length > 999 then linkFail pre lseg post st
  else
    match lookupRef env maybeReference with
    | none => linkFail pre lseg post st
    | some (dest, title) => do
      let (kids, st) ← processLinkLabelG pd st
      linkDone isImage { dest := dest, title := title, kids := kids } st

/-- link.go:165-174, as GM.Inl.linkTry -/
def linkTryG (pd : PD) (env : Env) (st : St) (lseg : Segment) (c : UInt8) :
    Except Panic (Option LinkInfo × Bool × St) :=
  if c == 40 then
    match parseLinkInlineG pd st with
    | .ok (link, st) => .ok (link, false, st)
    | .error e => .error e
  else if c == 91 then
    match parseReferenceLinkG pd env st lseg with
    | .ok ((link, hasValue), st) => .ok (link, hasValue, st)
    | .error e => .error e
  else .ok (none, false, st)

/-- the `]` branch of linkParser.Parse (link.go:140-210), as GM.Inl.parseLinkClose -/
def parseLinkCloseG (pd : PD) (env : Env) (st : St) (segment : Segment) : PRes :=
  match splitLastLabel st.kids with
  | none => .ok (none, st)
  | some (pre, (_, lseg, isImage), post) => do
    let rd ← st.rd.advance 1
    let st := { st with rd := rd }
    if labelLen pre > 998 then linkFail pre lseg post st
    else if !isImage && containsLinkL post then linkFail pre lseg post st
    else do
      let c ← rd.peek
      let (l, pos) := rd.position
      let (link, hasValue, st) ← linkTryG pd env st lseg c
      match link with
      | some info => linkDone isImage info st
      | none =>
        if hasValue then linkFail pre lseg post st
        else linkShortcutG pd env st lseg segment l pos isImage pre post

/-- linkParser.Parse (link.go:124-210), as GM.Inl.parseLink -/
def parseLinkG (pd : PD) (env : Env) (st : St) : PRes := do
  let ((line, segment), rd) ← st.rd.peekLine
  let st := { st with rd := rd }
  match line.getD [] with
  | [] => throw .index
  | c :: rest =>
    if c == 33 then
      match rest with
      | 91 :: _ =>
        let rd ← st.rd.advance 1
        labelOpen (pushBottom { st with rd := rd }) (segment.start + 1) true
      | _ => pure (none, st)
    else if c == 91 then labelOpen (pushBottom st) segment.start false
    else parseLinkCloseG pd env st segment

end GM.Inl
