/-
  GM.Model.Footnote — executable model of the footnote extension's numbering and cross-linking
  (extension/footnote.go, extension/ast/footnote.go). Core Lean only.

  Abstraction of one parse:
  * `labels`: the `Ref` of every `ast.Footnote` in the order the block parser's `Close` appended them to the
    one `FootnoteList` (footnote.go:87-98).
  * `evs`: one `Event` per call of `footnoteParser.Parse` that reaches the list lookup (footnote.go:147-165),
    in call order (= inline-phase order), with the label between `[^` and `]`, whether the resulting node ends
    up under an `ast.Image` (`dropped`: `renderImage` writes only the text of its descendants,
    renderer/html/html.go:608-634, 708-725), and the definition whose body contains it (`host`).
  No definition at all (`list == nil`, footnote.go:151, 210) behaves like `labels = []`: no link is created
  and nothing is rendered.
-/
import GM.Model.Basic
import GM.Spec.Footnote

namespace GM.Footnote
open GM GM.Spec.Footnote

/-! ### strconv.Itoa / fmt.Sprintf("%v", int) -/

def digitChar : Nat → UInt8
  | 0 => 48 | 1 => 49 | 2 => 50 | 3 => 51 | 4 => 52
  | 5 => 53 | 6 => 54 | 7 => 55 | 8 => 56 | _ => 57

/-- decimal digits, least significant first; `fuel` bounds the number of digits (`revDigits_val` in
    GM.Proof.Footnote shows `n + 1` is enough: the value of the result is `n`). -/
def revDigits : Nat → Nat → Bytes
  | 0, _ => []
  | f + 1, n => if n < 10 then [digitChar n] else digitChar (n % 10) :: revDigits f (n / 10)

def dec (n : Nat) : Bytes := (revDigits (n + 1) n).reverse

def itoa : Int → Bytes
  | .ofNat n => dec n
  | .negSucc n => 45 :: dec (n + 1)

/-! ### data -/

/-- one successful-or-not lookup of a reference `[^label]` during the inline phase -/
structure Event where
  label : Bytes
  /-- the created link sits under an Image node and is therefore not rendered -/
  dropped : Bool
  /-- position (in `labels`) of the footnote definition whose body contains the reference -/
  host : Option Nat
deriving DecidableEq, Repr

/-- ast.Footnote: `Ref`, `Index` (−1 until first referenced, ast/footnote.go:103-108) -/
structure Def where
  label : Bytes
  index : Int
deriving DecidableEq, Repr

/-- ast.FootnoteLink and ast.FootnoteBacklink carry the same three fields -/
structure Link where
  index : Int
  refCount : Nat
  refIndex : Nat
deriving DecidableEq, Repr

def initDefs (labels : List Bytes) : List Def := labels.map fun l => { label := l, index := -1 }

/-! ### inline phase: footnote.go:147-183 -/

/-- The loop footnote.go:154-165 over the list's children with `count = list.Count`: returns the updated
    children, the updated `list.Count`, and the local `index` (0 when no label matches). -/
def lookup (value : Bytes) (count : Nat) : List Def → List Def × Nat × Int
  | [] => ([], count, 0)
  | d :: ds =>
    if d.label = value then
      if d.index < 0 then
        ({ d with index := ((count + 1 : Nat) : Int) } :: ds, count + 1, ((count + 1 : Nat) : Int))
      else (d :: ds, count, d.index)
    else
      let r := lookup value count ds
      (d :: r.1, r.2.1, r.2.2)

/-- parser state the footnote code reads and writes during the inline phase: the list's children, `list.Count`,
    and the slice stored under `footnoteLinkListKey` (each link with the event that created it and its `Index`) -/
structure PState where
  defs : List Def
  count : Nat
  links : List (Event × Int)
deriving Repr

/-- one `Parse` call that got as far as the list lookup (footnote.go:147-183). `index == 0` returns nil: no
    node, nothing appended (footnote.go:166-168); otherwise the new link is appended to the slice. -/
def parseRef (s : PState) (e : Event) : PState :=
  let r := lookup e.label s.count s.defs
  if r.2.2 = 0 then { s with defs := r.1, count := r.2.1 }
  else { defs := r.1, count := r.2.1, links := s.links ++ [(e, r.2.2)] }

/-- all `Parse` calls in order, starting from the block phase's result -/
def inlinePhase (labels : List Bytes) (evs : List Event) : PState :=
  evs.foldl parseRef { defs := initDefs labels, count := 0, links := [] }

/-! ### Transform: footnote.go:197-283 (after repair 97633bf) -/

/-- `footnoteLinkIsRendered` (footnote.go:273-287) on the link created by event `e`, given the list's children
    after the inline phase: walking up, an Image ancestor gives false; the first Footnote ancestor (the host)
    decides by `Index >= 0`; reaching the document gives true. A host position outside the list cannot arise
    (the host *is* a child of the list); the model answers false for it, like for any unreachable link. -/
def isRendered (defs : List Def) (e : Event) : Bool :=
  !e.dropped && match e.host with
    | none => true
    | some h => match defs[h]? with
      | some d => decide (0 ≤ d.index)
      | none => false

/-- `counter[i]` after the counting loop (footnote.go:223-227); absent keys read as 0 -/
def counter (idxs : List Int) (i : Int) : Nat := (idxs.filter fun j => decide (0 ≤ j) && j == i).length

/-- numbering loop (footnote.go:228-236) over the rendered links: `seen` are the indices of the links already
    visited, so `refCounter[i]` is `seen.count i` -/
def numberLinks (all : List Int) : List Int → List (Event × Int) → List (Event × Link)
  | _, [] => []
  | seen, (e, i) :: rest =>
    (e, { index := i, refCount := counter all i, refIndex := seen.count i }) :: numberLinks all (i :: seen) rest

/-- footnote.go:249-255: back-links with RefIndex 0 … refCount−1 (none when refCount is 0) -/
def backlinks (index : Int) (refCount : Nat) : List Link :=
  (List.range refCount).map fun i => { index := index, refCount := refCount, refIndex := i }

/-- a footnote kept in the list, with its back-links -/
structure FNode where
  src : Nat
  index : Int
  backs : List Link
deriving DecidableEq, Repr

/-- loop footnote.go:238-258 (`pos` = position of the child in block-phase order): children with
    `Index < 0` are removed, the others get their back-links -/
def keepDefs (idxs : List Int) : Nat → List Def → List FNode
  | _, [] => []
  | pos, d :: ds =>
    if d.index < 0 then keepDefs idxs (pos + 1) ds
    else { src := pos, index := d.index, backs := backlinks d.index (counter idxs d.index) } ::
      keepDefs idxs (pos + 1) ds

/-- ast.BaseNode.SortChildren (ast/ast.go:258-288) with the comparator of footnote.go:259-264
    (−1 if `n1.Index < n2.Index`, else 1): each child is put in front when the sorted list is empty or its
    head is not smaller, otherwise after the last leading element that is smaller. -/
def insertSorted (x : FNode) : List FNode → List FNode
  | [] => [x]
  | h :: t => if h.index < x.index then h :: insertSorted x t else x :: h :: t

def sortChildren (l : List FNode) : List FNode := l.foldl (fun acc x => insertSorted x acc) []

/-- fields of *all* FootnoteLink nodes in creation order after Transform: the filtered-out ones keep the
    constructor's `RefCount = 0`, `RefIndex = 0` (ast/footnote.go:37-43); `numbered` are the rendered ones -/
def allLinkFields (defs : List Def) : List (Event × Int) → List (Event × Link) → List (Event × Link)
  | [], _ => []
  | (e, i) :: rest, numbered =>
    if isRendered defs e then
      match numbered with
      | n :: ns => n :: allLinkFields defs rest ns
      | [] => []
    else (e, { index := i, refCount := 0, refIndex := 0 }) :: allLinkFields defs rest numbered

/-- State after `Transform`. `links` are the links that passed `footnoteLinkIsRendered`, numbered;
    `listed = false` when `list.Count <= 0` removed the whole list (footnote.go:265-268). -/
structure Transformed where
  links : List (Event × Link)
  created : List (Event × Int)
  defs : List Def
  nodes : List FNode
  listed : Bool
deriving Repr

def transform (labels : List Bytes) (evs : List Event) : Transformed :=
  let s := inlinePhase labels evs
  let rendered := s.links.filter fun p => isRendered s.defs p.1
  let idxs := rendered.map (·.2)
  { links := numberLinks idxs [] rendered
    created := s.links
    defs := s.defs
    nodes := sortChildren (keepDefs idxs 0 s.defs)
    listed := decide (0 < s.count) }

/-! ### rendering: footnote.go:543-619, 642-650 -/

/-- `fnref` -/
def fnref : Bytes := [102, 110, 114, 101, 102]

/-- id of a FootnoteLink / href target of a FootnoteBacklink: `<prefix>fnref[<RefIndex>]:<Index>` -/
def linkId (pre : Bytes) (l : Link) : Bytes :=
  pre ++ fnref ++ (if l.refIndex > 0 then dec l.refIndex else []) ++ [58] ++ itoa l.index

/-- id of a Footnote item / href target of a FootnoteLink: `<prefix>fn:<Index>` -/
def itemId (pre : Bytes) (i : Int) : Bytes := pre ++ fnColon ++ itoa i

def renderRef (pre : Bytes) (l : Link) : Ref :=
  { id := linkId pre l, href := itemId pre l.index, text := itoa l.index }

def renderItem (pre : Bytes) (n : FNode) : Item :=
  { src := n.src, id := itemId pre n.index, backs := n.backs.map (linkId pre) }

/-- links rendered in the document body, in order -/
def bodyLinks (links : List (Event × Link)) : List (Event × Link) :=
  links.filter fun p => !p.1.dropped && p.1.host.isNone

/-- links rendered inside the body of the kept footnote `n`, in order -/
def hostedLinks (links : List (Event × Link)) (n : FNode) : List (Event × Link) :=
  links.filter fun p => !p.1.dropped && p.1.host == some n.src

/-- The rendered links in output order: the document body first, then (the list having been moved to the
    end of the document, footnote.go:269) the bodies of the kept footnotes in their sorted order. -/
def renderedLinks (t : Transformed) : List (Event × Link) :=
  if t.listed then bodyLinks t.links ++ t.nodes.flatMap (hostedLinks t.links)
  else bodyLinks t.links

def render (pre : Bytes) (labels : List Bytes) (evs : List Event) : Output :=
  let t := transform labels evs
  { items := if t.listed then t.nodes.map (renderItem pre) else []
    refs := (renderedLinks t).map fun p => renderRef pre p.2 }

/-- The event's link is reached by the renderer: not under an Image, and not inside a footnote that
    `Transform` removes (never referenced) — or whose whole list is removed. (Before repair 97633bf this was
    the proviso of the theorem; now it only describes which references appear.) -/
def Event.visible (t : Transformed) (e : Event) : Bool :=
  !e.dropped && match e.host with
    | none => true
    | some h => t.listed && t.nodes.any fun n => n.src == h

/-- every reference event of the document is visible -/
def allVisible (labels : List Bytes) (evs : List Event) : Bool :=
  evs.all fun e => e.visible (transform labels evs)

end GM.Footnote
