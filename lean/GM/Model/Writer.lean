/-
  GM.Model.Writer — renderer/html/html.go: defaultWriter.RawWrite / SecureWrite / Write and escapeRune,
  in "rest of input" style (Go accumulates the pending range [n,i) and RawWrites it at the next event;
  RawWrite is a monoid homomorphism, so eager emission is equivalent). Core Lean only.
-/
import GM.Model.Util

namespace GM

/-- defaultWriter.RawWrite: every byte through util.EscapeHTMLByte -/
def rawWrite (v : Bytes) : Bytes := escapeHTML v

def replacementChar : Bytes := [0xEF, 0xBF, 0xBD]

/-- defaultWriter.SecureWrite: NUL becomes U+FFFD, everything else verbatim -/
def secureWrite (v : Bytes) : Bytes := v.flatMap fun c => if c == 0 then replacementChar else [c]

/-- html.escapeRune applied to `rune(v)` where `v` is the uint64 from ParseUint(…, 32) (error ignored) -/
def escapeRune (v : Nat) : Bytes :=
  if v < 256 then
    if (htmlEsc (UInt8.ofNat v)).isEmpty then encodeRune (toValidRune v) else htmlEsc (UInt8.ofNat v)
  else encodeRune (runeOfUint32 v)

/-- strconv.ParseUint(s, 10, 32) on a non-empty digit string, error ignored (saturating) -/
def parseUintDec (ds : Bytes) : Nat := min (digitsVal 10 ds) 4294967295

/-- After `&` in Writer.Write: `#x<1-6 hex>;`, `#<1-7 dec>;` or `<alnum>+;` naming an HTML5 entity.
    Returns the bytes written and the rest of the input. -/
def tryRefW (rest : Bytes) : Option (Bytes × Bytes) :=
  match rest with
  | 35 :: r1 =>
    match r1 with
    | [] => none
    | nc :: r2 =>
      if nc == 120 || nc == 88 then
        match (spanB isHex r2).2 with
        | 59 :: r4 =>
          if !(spanB isHex r2).1.isEmpty && (spanB isHex r2).1.length < 7 then
            some (escapeRune (parseUintHex (spanB isHex r2).1), r4)
          else none
        | _ => none
      else if isNumeric nc then
        match (spanB isNumeric (nc :: r2)).2 with
        | 59 :: r4 =>
          if (spanB isNumeric (nc :: r2)).1.length < 8 then
            some (escapeRune (parseUintDec (spanB isNumeric (nc :: r2)).1), r4)
          else none
        | _ => none
      else none
  | _ =>
    match (spanB isAlnum rest).2 with
    | 59 :: r4 =>
      if (spanB isAlnum rest).1.isEmpty then none
      else (lookupEntity (spanB isAlnum rest).1).map (fun cs => (rawWrite cs, r4))
    | _ => none

theorem tryRefW_len {rest out r : Bytes} (h : tryRefW rest = some (out, r)) : r.length < rest.length := by
  unfold tryRefW at h
  split at h
  · rename_i r1
    split at h
    · cases h
    · rename_i nc r2
      split at h
      · split at h
        · rename_i r4 heq
          have := spanB_len isHex r2
          split at h
          · cases h; simp [heq] at this; simp; omega
          · cases h
        · cases h
      · split at h
        · split at h
          · rename_i r4 heq
            have := spanB_len isNumeric (nc :: r2)
            split at h
            · cases h; simp [heq] at this; simp; omega
            · cases h
          · cases h
        · cases h
  · split at h
    · rename_i r4 heq
      have := spanB_len isAlnum rest
      split at h
      · cases h
      · simp [Option.map] at h
        split at h
        · cases h; simp [heq] at this; omega
        · cases h
    · cases h

/-- defaultWriter.Write. `esc` = a backslash has just been read and not yet written. -/
def writeGo (escSpace : Bool) : Bool → Bytes → Bytes
  | esc, [] => if esc then [92] else []
  | esc, c :: cs =>
    if esc && isPunct c then escByte c ++ writeGo escSpace false cs
    else if esc && escSpace && c == 32 then writeGo escSpace false cs
    else
      (if esc then ([92] : Bytes) else []) ++
      (if c == 0 then replacementChar ++ writeGo escSpace false cs
       else if c == 38 then
         match h : tryRefW cs with
         | some (out, rest) => out ++ writeGo escSpace false rest
         | none => escByte 38 ++ writeGo escSpace false cs
       else if c == 92 then writeGo escSpace true cs
       else escByte c ++ writeGo escSpace false cs)
termination_by _ l => l.length
decreasing_by
  all_goals simp_wf
  all_goals (try omega)
  all_goals (have := tryRefW_len h; omega)

def write (escSpace : Bool) (v : Bytes) : Bytes := writeGo escSpace false v

end GM
