/-
  GM.Model.Tree — the abstract AST the renderer model works on: what the Go dumper (harness) emits for a
  parsed or hand-built goldmark tree. Text is *resolved* (segment values as bytes). Core Lean only.
-/
import GM.Model.Basic

namespace GM

/-- one attribute; `value = none` when the Go value is neither `[]byte` nor `string`
    (RenderAttributes then writes an empty value) -/
structure Attr where
  name : Bytes
  value : Option Bytes
deriving Repr, BEq, DecidableEq

inductive Kind where
  | document
  | heading (level : Nat)
  | blockquote
  | codeBlock (lines : List Bytes)
  | fencedCodeBlock (info : Option Bytes) (lines : List Bytes)
  | htmlBlock (lines : List Bytes) (closure : Option Bytes)
  | list (ordered : Bool) (start : Nat)
  | listItem
  | paragraph
  | textBlock
  | thematicBreak
  | autoLink (email : Bool) (url label : Bytes)
  | codeSpan
  | emphasis (level : Nat)
  | image (dest : Bytes) (title : Option Bytes)
  | link (dest : Bytes) (title : Option Bytes)
  | rawHTML (segs : List Bytes)
  /-- `cjk` is the decision of `EastAsianLineBreaks.softLineBreak(lastRune, siblingFirstRune)` as computed by the
      real functions for this node and the first character of its next sibling's text (a parameter of the model; unicode tables are not modelled) -/
  | text (value : Bytes) (soft hard raw : Bool) (cjk : Bool)
  | string (value : Bytes) (raw code : Bool)
  | table
  | tableHeader
  | tableRow
  | tableCell (align : Nat)            -- 0 left 1 right 2 center 3 none
  | strikethrough
  | taskCheckBox (checked : Bool)
  | definitionList
  | definitionTerm
  | definitionDescription (tight : Bool)
  | footnoteLink (index refCount refIndex : Nat)
  | footnoteBacklink (index refCount refIndex : Nat)
  | footnote (index : Nat)
  | footnoteList
  | other                               -- a kind for which no renderer function is registered
deriving Repr, BEq, DecidableEq

inductive Node where
  | mk (kind : Kind) (attrs : Option (List Attr)) (children : List Node)
deriving Repr

namespace Node
def kind : Node → Kind | .mk k _ _ => k
def attrs : Node → Option (List Attr) | .mk _ a _ => a
def children : Node → List Node | .mk _ _ c => c
end Node

def Kind.isText : Kind → Bool | .text .. => true | _ => false
def Kind.isTextBlock : Kind → Bool | .textBlock => true | _ => false
def Kind.isTableHeader : Kind → Bool | .tableHeader => true | _ => false

end GM
