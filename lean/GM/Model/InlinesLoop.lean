/-
  GM.Model.InlinesLoop — the inline phase of one block, part 3: `(*parser).parseBlock`
  (parser/parser.go:1152-1269) with the default inline parsers plugged in (parser.go:604-612, trigger table as
  built by addInlineParser, parser.go:778-793), `ProcessDelimiters(nil, pc)` and the link parser's CloseBlock.
  Core Lean only.
-/
import GM.Model.InlinesParsers

namespace GM.Inl
open GM GM.Text

/-- the default inline parsers -/
inductive Ip | codeSpan | link | autoLink | rawHTML | emphasis
  deriving DecidableEq, Repr

/-- `p.inlineParsers[c]` for parser.DefaultInlineParsers(): priorities 100 code span (`` ` ``), 200 link
    (`!`, `[`, `]`), 300 autolink (`<`), 400 raw HTML (`<`), 500 emphasis (`*`, `_`); `[]` = nil -/
def parsersFor (c : UInt8) : List Ip :=
  if c == 96 then [.codeSpan]
  else if c == 33 || c == 91 || c == 93 then [.link]
  else if c == 60 then [.autoLink, .rawHTML]
  else if c == 42 || c == 95 then [.emphasis]
  else []

/-- lift a parser that only moves the reader -/
def liftR (st : St) (r : RRes) : PRes :=
  match r with
  | .ok (n, rd) => .ok (n, { st with rd := rd })
  | .error e => .error e

def Ip.parse (env : Env) : Ip → St → PRes
  | .codeSpan, st => liftR st (parseCodeSpan st.rd)
  | .link, st => parseLink env st
  | .autoLink, st => liftR st (parseAutoLink st.rd)
  | .rawHTML, st => liftR st (parseRawHTML st.rd)
  | .emphasis, st => liftR { st with nextId := st.nextId + 1 } (parseEmphasis env st.nextId st.rd)

/-- parser.go:1213-1219: the parsers of the table entry in order; after a nil result the reader is put back to
    the saved position (the context keeps whatever the parser did to it) -/
def tryParsers (env : Env) (savedLine : Int) (savedPosition : Segment) : List Ip → St → PRes
  | [], st => pure (none, st)
  | ip :: ips, st => do
    let (node, st) ← ip.parse env st
    match node with
    | some n => pure (some n, st)
    | none =>
      let rd ← st.rd.setPosition savedLine savedPosition
      tryParsers env savedLine savedPosition ips { st with rd := rd }

/-- trailingBackslashes (parser.go:1137-1143) -/
def trailingBackslashes (l : Bytes) : Nat := (l.reverse.takeWhile (· == 92)).length

def lineBreakHard : Nat := 1
def lineBreakSoft : Nat := 2
def lineBreakVisible : Nat := 4

/-- parser.go:1164-1189: (lineLength, lineBreakFlags) of a non-empty line -/
def classify (line : Bytes) : Nat × Nat :=
  let L := line.length
  let ix (k : Nat) : Option UInt8 := line[L - k]?
  let hasNewLine := ix 1 == some 10
  if hasNewLine && decide (L ≥ 2) && trailingBackslashes (line.take (L - 1)) % 2 == 1 then (L - 2, 5)
  else if hasNewLine && decide (L ≥ 3) && ix 2 == some 13 && trailingBackslashes (line.take (L - 2)) % 2 == 1 then
    (L - 3, 5)
  else if decide (L ≥ 3) && ix 3 == some 32 && ix 2 == some 32 && hasNewLine then (L - 3, 1)
  else if decide (L ≥ 4) && ix 4 == some 32 && ix 3 == some 32 && ix 2 == some 13 && hasNewLine then (L - 4, 1)
  else if hasNewLine then (L, 2)
  else (L, 0)

/-- the scan state of one line -/
structure Scan where
  st : St
  n : Int                    -- bytes seen but not yet advanced over
  sp : Segment               -- startPosition
  escaped : Bool

inductive ScanRes
  | hit (st : St) (escaped : Bool)        -- a parser returned a node (already appended): `goto retry`
  | eol (s : Scan)                        -- the byte loop ended

/-- parser.go:1222-1236: the tail of the loop body (`escaped` bookkeeping, `n++`) -/
def bump (c : UInt8) (s : Scan) : Scan :=
  if s.escaped then { s with escaped := false, n := s.n + 1 }
  else if c == 92 then { s with escaped := true, n := s.n + 1 }
  else { s with escaped := false, n := s.n + 1 }

/-- parser.go:1200-1221, a trigger byte with a non-nil table entry: flush the pending bytes, merge the text
    in front into the last child (not at i = 0), consult the parsers. `inl` = a parser returned a node (it is
    appended: `goto retry`), `inr` = all returned nil (the loop goes on with `n = 0`). -/
def trigger (env : Env) (ips : List Ip) (i : Nat) (s : Scan) : Except Panic (Sum St Scan) := do
  let rd ← s.st.rd.advance s.n
  let saved := rd.position                                            -- savedLine, savedPosition
  let ks ←                                                            -- (children, startPosition)
    (if i != 0 then (s.sp.between saved.2).map (fun seg => (mergeOrAppend s.st.kids seg, saved.2))
     else pure (s.st.kids, s.sp))
  let r ← tryParsers env saved.1 saved.2 ips { s.st with rd := rd, kids := ks.1 }
  match r.1 with
  | some nd => pure (.inl { r.2 with kids := r.2.kids ++ [nd] })
  | none => pure (.inr { s with st := r.2, n := 0, sp := ks.2 })

/-- parser.go:1197-1198 -/
def isTrigger (env : Env) (c : UInt8) (i : Nat) (escaped : Bool) : Bool :=
  let isSp := isSpace c && c != 13 && c != 10
  (isPunct c && !escaped) || (isSp && !(escaped && env.escapedSpace)) || i == 0

/-- parser.go:1199-1202 -/
def parserChar (c : UInt8) (i : Nat) : UInt8 :=
  let isSp := isSpace c && c != 13 && c != 10
  if isSp || (i == 0 && !isPunct c) then 32 else c

/-- the byte loop parser.go:1192-1240 over `line[i:lineLength]` -/
def scan (env : Env) : Bytes → Nat → Scan → Except Panic ScanRes
  | [], _, s => pure (.eol s)
  | c :: cs, i, s =>
    if c == 10 then pure (.eol s)
    else if isTrigger env c i s.escaped && !(parsersFor (parserChar c i)).isEmpty then
      match trigger env (parsersFor (parserChar c i)) i s with
      | .ok (.inl st) => pure (.hit st s.escaped)
      | .ok (.inr s') => scan env cs (i + 1) (bump c s')
      | .error e => .error e
    else scan env cs (i + 1) (bump c s)

/-- parser.go:1246-1257: the Text for the rest of the line and the children it is appended to. Unless the
    break is a visible hard break (backslash) the text is right-trimmed; when nothing is left of it the
    preceding plain Text that ends where it starts is trimmed too (repair 8b9b792). -/
def eolText (src : Bytes) (flags : Nat) (diff : Segment) (kids : List Node) : Except Panic (Segment × List Node) :=
  if flags % 2 == 1 && flags / 4 % 2 == 1 then pure (diff, kids)
  else do
    let seg ← diff.trimRightSpace src
    if seg.isEmpty then
      match kids.getLast? with
      | some (.text tseg false false false) =>
        if tseg.stop == diff.start then do
          let tseg' ← tseg.trimRightSpace src
          pure (seg, kids.dropLast ++ [.text tseg' false false false])
        else pure (seg, kids)
      | _ => pure (seg, kids)
    else pure (seg, kids)

/-- parser.go:1241-1262: after the byte loop. When the reader has left the line: `continue`. -/
def endOfLine (flags : Nat) (l : Int) (s : Scan) : Except Panic St := do
  let rd ← (if s.n != 0 then s.st.rd.advance s.n else pure s.st.rd)
  let cur := rd.position                                              -- currentL, currentPosition
  if l != cur.1 then pure { s.st with rd := rd }
  else do
    let diff ← s.sp.between cur.2
    let tk ← eolText rd.source flags diff s.st.kids
    let rd ← rd.advanceLine
    pure { s.st with rd := rd, kids := tk.2 ++ [.text tk.1 (flags / 2 % 2 == 1) (flags % 2 == 1) false] }

/-- the `for { retry: … }` loop; one unit of fuel per pass through `retry:`. The flag `escaped` is kept across a
    `goto retry` (`.hit`) and cleared at the top of the `for` loop (`.eol`; parser.go:1160, repair 24c9f23) -/
def lineLoop (env : Env) : Nat → Bool → St → Except Panic St
  | 0, _, _ => .error .loop
  | fuel + 1, escaped, st => do
    let pl ← st.rd.peekLine
    let st := { st with rd := pl.2 }
    match pl.1.1 with
    | none => pure st
    | some line =>
      if line.isEmpty then throw .index                               -- `line[lineLength-1]`
      else do
        let cl := classify line                                       -- lineLength, lineBreakFlags
        let p := st.rd.position                                       -- l, startPosition
        let r ← scan env (line.take cl.1) 0 { st := st, n := 0, sp := p.2, escaped := escaped }
        match r with
        | .hit st escaped => lineLoop env fuel escaped st
        | .eol s => do
          let st ← endOfLine cl.2 p.1 s
          lineLoop env fuel false st

/-- passes through `retry:`: every pass ends with a parser that consumed at least one byte, with AdvanceLine,
    or with the reader on a later line -/
def blockFuel (src : Bytes) (segs : List Segment) : Nat :=
  2 * src.length + 2 * segs.length + segs.foldl (fun a s => a + s.padding.toNat) 0 + 8

/-- parseBlock for a non-raw parent with lines `segs`, from an empty context: the children of `parent` -/
def parseBlock (env : Env) (src : Bytes) (segs : List Segment) : Except Panic (List Node) := do
  let rd ← BlockReader.new src segs
  let st ← lineLoop env (blockFuel src segs) false { rd := rd }
  let kids ← processDelimiters .nil st.kids
  pure (closeLabelsL kids)

end GM.Inl
