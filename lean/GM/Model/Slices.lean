/-
  GM.Model.Slices — Go byte slices with capacity over a heap of arrays, so that the in-place behaviour of
  `append` (it stores into the backing array whenever len+n <= cap) is part of the model; on top of it
  util.CopyOnWriteBuffer (util/util.go:15-95) and text.Segment.Value (text/segment.go:57-70).
  Every in-place store is logged with the id of the array it hits. Core Lean only.
-/
import GM.Model.Basic

namespace GM.Slices
open GM

/-- a slice header: backing array, offset, length, capacity (off + cap <= size of the array) -/
structure Slice where
  arr : Nat
  off : Nat
  len : Nat
  cap : Nat
deriving Repr, DecidableEq

structure Heap where
  arrs : List Bytes        -- array id = index; every array is fully allocated (zero filled)
  stores : List Nat        -- ids of the arrays hit by a store, most recent first
deriving Repr

def Heap.read (h : Heap) (s : Slice) : Bytes := ((h.arrs.getD s.arr []).drop s.off).take s.len

/-- `make([]byte, len, cap)` with the first `len` cells set from `init` (models make+copy) -/
def alloc (h : Heap) (init : Bytes) (cap : Nat) : Heap × Slice :=
  let cap' := max cap init.length
  ({ h with arrs := h.arrs ++ [init ++ List.replicate (cap' - init.length) 0] },
   { arr := h.arrs.length, off := 0, len := init.length, cap := cap' })

/-- overwrite `v` at position `pos` of an array (the caller guarantees it fits) -/
def writeAt (a : Bytes) (pos : Nat) (v : Bytes) : Bytes := a.take pos ++ v ++ a.drop (pos + v.length)

/-- Go's `append(s, v...)`: in place when it fits into the capacity, otherwise a fresh array
    (`grow` = the capacity Go picks, any value >= the needed length) -/
def append (grow : Nat → Nat) (h : Heap) (s : Slice) (v : Bytes) : Heap × Slice :=
  if v.isEmpty then (h, s)
  else if s.len + v.length ≤ s.cap then
    ({ arrs := h.arrs.set s.arr (writeAt (h.arrs.getD s.arr []) (s.off + s.len) v), stores := s.arr :: h.stores },
     { s with len := s.len + v.length })
  else
    alloc h (h.read s ++ v) (grow (s.len + v.length))

/-- `s[:len(s):len(s)]` -/
def Slice.clip (s : Slice) : Slice := { s with cap := s.len }

/-! ### util.CopyOnWriteBuffer -/

structure Cow where
  buf : Slice
  copied : Bool
deriving Repr

inductive CowOp where
  | write (v : Bytes)        -- Write / WriteString / WriteByte: first use starts from an EMPTY fresh buffer
  | append (v : Bytes)       -- Append / AppendString / AppendByte: first use copies the original
deriving Repr

def newCow (s : Slice) : Cow := { buf := s, copied := false }

def cowStep (grow : Nat → Nat) (hc : Heap × Cow) : CowOp → Heap × Cow
  | .write v =>
    let (h, c) := hc
    if !c.copied then
      let (h1, b) := alloc h [] (c.buf.len + 20)
      let (h2, b') := append grow h1 b v
      (h2, { buf := b', copied := true })
    else
      let (h2, b') := append grow h c.buf v
      (h2, { c with buf := b' })
  | .append v =>
    let (h, c) := hc
    if !c.copied then
      let (h1, b) := alloc h (h.read c.buf) (c.buf.len + 20)
      let (h2, b') := append grow h1 b v
      (h2, { buf := b', copied := true })
    else
      let (h2, b') := append grow h c.buf v
      (h2, { c with buf := b' })

def cowRun (grow : Nat → Nat) (h : Heap) (s : Slice) (ops : List CowOp) : Heap × Cow :=
  ops.foldl (cowStep grow) (h, newCow s)

/-! ### text.Segment.Value -/

/-- Segment.Value as repaired (8e80f0e): the forced newline is appended to a capacity-clipped slice -/
def segValue (grow : Nat → Nat) (h : Heap) (src : Slice) (start stop padding : Nat) (forceNewline : Bool) : Heap × Slice :=
  let r0 : Heap × Slice :=
    if padding == 0 then (h, { src with off := src.off + start, len := stop - start, cap := src.cap - start })
    else
      let (h1, b) := alloc h (List.replicate padding 32) (padding + stop - start + 1)
      append grow h1 b (h.read { src with off := src.off + start, len := stop - start })
  if forceNewline && r0.2.len > 0 && (r0.1.read r0.2).getLast? != some 10 then
    append grow r0.1 r0.2.clip [10]
  else r0

/-- Segment.Value before the repair: plain `append(result, '\n')` -/
def segValueOld (grow : Nat → Nat) (h : Heap) (src : Slice) (start stop padding : Nat) (forceNewline : Bool) : Heap × Slice :=
  let r0 : Heap × Slice :=
    if padding == 0 then (h, { src with off := src.off + start, len := stop - start, cap := src.cap - start })
    else
      let (h1, b) := alloc h (List.replicate padding 32) (padding + stop - start + 1)
      append grow h1 b (h.read { src with off := src.off + start, len := stop - start })
  if forceNewline && r0.2.len > 0 && (r0.1.read r0.2).getLast? != some 10 then
    append grow r0.1 r0.2 [10]
  else r0

end GM.Slices
