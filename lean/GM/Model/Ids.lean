/-
  GM.Model.Ids — model of parser/parser.go:65-118 (`ids.Generate`, `ids.Put`) and of the way the id table is
  created once per `Context` (parser/parser.go:234-252), i.e. once per parsed document. Core Lean only.

  Go (`Generate(value, kind)`):
    value = TrimRightSpace(TrimLeftSpace(value))
    for i < len(value): v = value[i]; l = UTF8Len(v); i += l; if l != 1 {continue}
        alnum -> append lower-cased; space/'-'/'_' -> append '-'; everything else dropped
    empty -> "heading" (kind == KindHeading) or "id"
    not in table -> insert, return
    for i := 1; ; i++ { c = result + "-" + decimal(i); not in table -> insert, return c }
  The table is a `map[string]bool` of which only key presence is ever read; it is modelled as the list of
  inserted keys (newest first).
-/
import GM.Model.Basic
import GM.Model.ByteClass
import GM.Model.Util

namespace GM.Ids

abbrev Tbl := List Bytes

/-- decimal digits of `n`, most significant first, accumulated in front of `acc` (`%d`). -/
def decAux : Nat → Nat → Bytes → Bytes
  | 0, _, acc => acc
  | fuel + 1, n, acc =>
    if n < 10 then UInt8.ofNat (48 + n) :: acc
    else decAux fuel (n / 10) (UInt8.ofNat (48 + n % 10) :: acc)

/-- `fmt.Sprintf("%d", n)` for a non-negative int. (`n + 1` is more fuel than `n` has digits.) -/
def dec (n : Nat) : Bytes := decAux (n + 1) n []

/-- the slug loop of `Generate` (after trimming). `skip` = how many of the next bytes the index `i` jumps over:
    a byte whose `utf8lenTable` entry `l` is not 1 is dropped together with the `l-1` bytes after it
    (`l` is 2, 3, 4, or 99 for an invalid leading byte). -/
def slugAux : Nat → Bytes → Bytes
  | _, [] => []
  | skip + 1, _ :: rest => slugAux skip rest
  | 0, v :: rest =>
    if utf8len v != 1 then slugAux (utf8len v - 1) rest
    else if isAlnum v then
      (if 65 ≤ v && v ≤ 90 then v + 32 else v) :: slugAux 0 rest
    else if isSpace v || v == 45 || v == 95 then 45 :: slugAux 0 rest
    else slugAux 0 rest

def slug (v : Bytes) : Bytes := slugAux 0 v

def headingDefault : Bytes := [104, 101, 97, 100, 105, 110, 103]   -- "heading"
def idDefault : Bytes := [105, 100]                                  -- "id"

/-- the candidate id before the table is consulted. -/
def base (value : Bytes) (isHeading : Bool) : Bytes :=
  let s := slug (trimRightSpace (trimLeftSpace value))
  if s.isEmpty then (if isHeading then headingDefault else idDefault) else s

/-- `fmt.Sprintf("%s-%d", result, i)` -/
def cand (b : Bytes) (i : Nat) : Bytes := b ++ 45 :: dec i

/-- the probing loop `for i := 1; ; i++`, given `fuel` iterations; `none` = fuel exhausted
    (never happens with the fuel `generate` supplies: `Proof.Ids.probe_some`). -/
def probe (used : Tbl) (b : Bytes) : Nat → Nat → Option Bytes
  | 0, _ => none
  | fuel + 1, i =>
    if used.contains (cand b i) then probe used b fuel (i + 1) else some (cand b i)

/-- `ids.Generate`: the returned id and the table afterwards. -/
def generate (used : Tbl) (value : Bytes) (isHeading : Bool) : Option (Bytes × Tbl) :=
  let b := base value isHeading
  if used.contains b then
    match probe used b (used.length + 1) 1 with
    | some c => some (c, c :: used)
    | none => none
  else some (b, b :: used)

/-- `ids.Put` -/
def put (used : Tbl) (value : Bytes) : Tbl := value :: used

inductive Op
  | gen (value : Bytes) (isHeading : Bool)
  | put (value : Bytes)

/-- run a sequence of operations on a table; the list of ids returned by the `Generate` calls, in order. -/
def run : Tbl → List Op → Option (List Bytes)
  | _, [] => some []
  | used, .put v :: ops => run (put used v) ops
  | used, .gen v h :: ops =>
    match generate used v h with
    | none => none
    | some (id, used') => (run used' ops).map (id :: ·)

/-- what the heading parsers do for a document whose headings (in closing order) have the given last-line
    texts, with auto heading ids on and no attribute syntax: one `Generate(text, KindHeading)` each,
    on a table created for this document (`NewContext` → `newIDs()`). -/
def docIds (texts : List Bytes) : Option (List Bytes) := run [] (texts.map fun t => .gen t true)

/-- a conversion history on one `Markdown` instance: `Parse` makes a new `Context` (hence a new table) per
    document, nothing is carried over. -/
def convertAll (docs : List (List Bytes)) : List (Option (List Bytes)) := docs.map docIds

end GM.Ids
