/-
  GM.Model.AstHeap — ast.BaseNode's link fields as a pointer heap and the mutation API / Walk of
  /repo/ast/ast.go transcribed statement by statement (ast.go:179-371 mutators, :483-527 Walk).

  * The heap is a record of field functions (DESIGN Appendix E): writing one field leaves the others
    definitionally untouched. Node ids are `Nat`; Go's `nil` Node is `none`.
  * Every place where Go would dereference a nil Node is an explicit `Fault.nilDeref`
    (`v.Parent()` in ensureIsolated/RemoveChild, `last.SetNextSibling` in AppendChild,
    `insertee.NextSibling()` in InsertAfter). After a panic the sequence ends (no heap is returned).
  * Loops (RemoveChildren, SortChildren's three loops, walkHelper's recursion and child loop) take fuel;
    running out is the distinct outcome `Fault.fuel` (it would mean a Go loop that does not terminate);
    `GM.Props.C13.fuel_suffices` shows it cannot happen on heaps that represent a forest.
  * The receiver `n` and the argument `self` are the same node (every call site in goldmark passes the
    receiver as `self`); all concrete node types embed BaseNode and none overrides these methods.
  Core Lean only.
-/
import GM.Spec.Forest

namespace GM.AstHeap
open GM.Spec
open GM.Spec.Forest (Op)

/-- BaseNode fields firstChild/lastChild/parent/next/prev/childCount (ast.go:179-187), field-wise -/
structure Heap where
  parent : Nat → Option Nat
  first : Nat → Option Nat
  last : Nat → Option Nat
  next : Nat → Option Nat
  prev : Nat → Option Nat
  count : Nat → Int

/-- freshly allocated nodes: all links nil, childCount 0 -/
def Heap.empty : Heap := ⟨fun _ => none, fun _ => none, fun _ => none, fun _ => none, fun _ => none, fun _ => 0⟩

def set {α : Type} (f : Nat → α) (i : Nat) (v : α) : Nat → α := fun j => if j = i then v else f j

@[simp] theorem set_apply {α : Type} (f : Nat → α) (i : Nat) (v : α) (j : Nat) :
    set f i v j = if j = i then v else f j := rfl

inductive Fault where
  | nilDeref   -- Go: "invalid memory address or nil pointer dereference"
  | fuel       -- a loop of the model ran out of fuel (Go would not terminate)
deriving DecidableEq, Repr

/-! ### observers (ast.go:195-198, 210-218, 290-308) -/
def hasChildren (h : Heap) (n : Nat) : Bool := (h.first n).isSome   -- n.firstChild != nil
def childCount (h : Heap) (n : Nat) : Int := h.count n
def firstChild (h : Heap) (n : Nat) : Option Nat := h.first n
def lastChild (h : Heap) (n : Nat) : Option Nat := h.last n
def nextSibling (h : Heap) (n : Nat) : Option Nat := h.next n
def previousSibling (h : Heap) (n : Nat) : Option Nat := h.prev n
def parentNode (h : Heap) (n : Nat) : Option Nat := h.parent n

/-! ### RemoveChild (ast.go:221-241), `v` non-nil -/
def removeChildN (h : Heap) (self v : Nat) : Heap :=
  if h.parent v ≠ some self then h            -- if v.Parent() != self { return }
  else
    let h := { h with count := set h.count self (h.count self - 1) }   -- n.childCount--
    let prev := h.prev v
    let next := h.next v
    let h := match prev with
      | some a => { h with next := set h.next a next }       -- prev.SetNextSibling(next)
      | none => { h with first := set h.first self next }    -- n.firstChild = next
    let h := match next with
      | some b => { h with prev := set h.prev b prev }       -- next.SetPreviousSibling(prev)
      | none => { h with last := set h.last self prev }      -- n.lastChild = prev
    let h := { h with parent := set h.parent v none }        -- v.SetParent(nil)
    let h := { h with prev := set h.prev v none }            -- v.SetPreviousSibling(nil)
    { h with next := set h.next v none }                     -- v.SetNextSibling(nil)

/-- RemoveChild with a possibly nil `v`: `v.Parent()` on nil panics -/
def removeChild (h : Heap) (self : Nat) (v : Option Nat) : Except Fault Heap :=
  match v with
  | none => .error .nilDeref
  | some v => .ok (removeChildN h self v)

/-! ### ensureIsolated (ast.go:189-193) -/
def ensureIsolatedN (h : Heap) (v : Nat) : Heap :=
  match h.parent v with
  | some p => removeChildN h p v      -- p.RemoveChild(p, v)
  | none => h

def ensureIsolated (h : Heap) (v : Option Nat) : Except Fault Heap :=
  match v with
  | none => .error .nilDeref          -- v.Parent() on nil
  | some v => .ok (ensureIsolatedN h v)

/-! ### RemoveChildren (ast.go:244-255) -/
def removeChildrenLoop : Nat → Heap → Option Nat → Except Fault Heap
  | _, h, none => .ok h
  | 0, _, some _ => .error .fuel
  | fuel + 1, h, some c =>
    let h := { h with parent := set h.parent c none }   -- c.SetParent(nil)
    let h := { h with prev := set h.prev c none }       -- c.SetPreviousSibling(nil)
    let next := h.next c                                -- next := c.NextSibling()
    let h := { h with next := set h.next c none }       -- c.SetNextSibling(nil)
    removeChildrenLoop fuel h next                      -- c = next

def removeChildren (fuel : Nat) (h : Heap) (self : Nat) : Except Fault Heap :=
  match removeChildrenLoop fuel h (h.first self) with
  | .error e => .error e
  | .ok h =>
    let h := { h with first := set h.first self none }   -- n.firstChild = nil
    let h := { h with last := set h.last self none }     -- n.lastChild = nil
    .ok { h with count := set h.count self 0 }           -- n.childCount = 0

/-! ### AppendChild (ast.go:316-330) -/
def appendChildN (h : Heap) (self v : Nat) : Except Fault Heap :=
  let h := ensureIsolatedN h v
  let h? : Except Fault Heap :=
    match h.first self with
    | none =>
      let h := { h with first := set h.first self (some v) }   -- n.firstChild = v
      let h := { h with next := set h.next v none }            -- v.SetNextSibling(nil)
      .ok { h with prev := set h.prev v none }                 -- v.SetPreviousSibling(nil)
    | some _ =>
      match h.last self with                                   -- last := n.lastChild
      | none => .error .nilDeref                               -- last.SetNextSibling(v) on nil
      | some last =>
        let h := { h with next := set h.next last (some v) }   -- last.SetNextSibling(v)
        .ok { h with prev := set h.prev v (some last) }        -- v.SetPreviousSibling(last)
  match h? with
  | .error e => .error e
  | .ok h =>
    let h := { h with parent := set h.parent v (some self) }   -- v.SetParent(self)
    let h := { h with last := set h.last self (some v) }       -- n.lastChild = v
    .ok { h with count := set h.count self (h.count self + 1) } -- n.childCount++

def appendChild (h : Heap) (self : Nat) (v : Option Nat) : Except Fault Heap :=
  match v with
  | none => .error .nilDeref          -- ensureIsolated(nil)
  | some v => appendChildN h self v

/-! ### InsertBefore (ast.go:352-371) -/
def insertBeforeN (h : Heap) (self : Nat) (v1 : Option Nat) (ins : Nat) : Except Fault Heap :=
  match v1 with
  | none => appendChildN h self ins                       -- v1 == nil
  | some v1 =>
    if h.parent v1 ≠ some self then appendChildN h self ins   -- v1.Parent() != self
    else
      let h := ensureIsolatedN h ins
      let h := { h with count := set h.count self (h.count self + 1) }   -- n.childCount++
      let prev := h.prev v1                                              -- c := v1; prev := c.PreviousSibling()
      let h := match prev with
        | some a =>
          let h := { h with next := set h.next a (some ins) }            -- prev.SetNextSibling(insertee)
          { h with prev := set h.prev ins (some a) }                     -- insertee.SetPreviousSibling(prev)
        | none =>
          let h := { h with first := set h.first self (some ins) }       -- n.firstChild = insertee
          { h with prev := set h.prev ins none }                         -- insertee.SetPreviousSibling(nil)
      let h := { h with next := set h.next ins (some v1) }               -- insertee.SetNextSibling(c)
      let h := { h with prev := set h.prev v1 (some ins) }               -- c.SetPreviousSibling(insertee)
      .ok { h with parent := set h.parent ins (some self) }              -- insertee.SetParent(self)

def insertBefore (h : Heap) (self : Nat) (v1 ins : Option Nat) : Except Fault Heap :=
  match ins with
  | none => .error .nilDeref   -- both paths reach ensureIsolated(nil) before any write
  | some ins => insertBeforeN h self v1 ins

/-! ### InsertAfter (ast.go:339-349) -/
def insertAfter (h : Heap) (self : Nat) (v1 ins : Option Nat) : Except Fault Heap :=
  match v1 with
  | none => appendChild h self ins                 -- v1 == nil
  | some v1 =>
    let next := h.next v1                          -- next := v1.NextSibling()
    if next = ins then                             -- if next == insertee
      match ins with
      | none => .error .nilDeref                   -- insertee.NextSibling() on nil
      | some i => insertBefore h self (h.next i) ins
    else insertBefore h self next ins

/-! ### ReplaceChild (ast.go:333-336) -/
def replaceChild (h : Heap) (self : Nat) (v1 ins : Option Nat) : Except Fault Heap :=
  match insertBefore h self v1 ins with            -- n.InsertBefore(self, v1, insertee)
  | .error e => .error e
  | .ok h => removeChild h self v1                 -- n.RemoveChild(self, v1): v1 == nil panics here

/-! ### SortChildren (ast.go:258-288) -/

/-- `for c.NextSibling() != nil && comparator(c.NextSibling(), current) < 0 { c = c.NextSibling() }` -/
def sortInner (h : Heap) (cmp : Nat → Nat → Int) (current : Nat) : Nat → Nat → Except Fault Nat
  | 0, _ => .error .fuel
  | fuel + 1, c =>
    match h.next c with
    | none => .ok c
    | some nx => if cmp nx current < 0 then sortInner h cmp current fuel nx else .ok c

/-- the outer `for current != nil` loop; state = (heap, sorted) -/
def sortOuter (fuel0 : Nat) (cmp : Nat → Nat → Int) : Nat → Heap → Option Nat → Option Nat → Except Fault (Heap × Option Nat)
  | _, h, sorted, none => .ok (h, sorted)
  | 0, _, _, some _ => .error .fuel
  | fuel + 1, h, sorted, some current =>
    let next := h.next current                                   -- next := current.NextSibling()
    let prepend : Bool := match sorted with
      | none => true
      | some s => cmp s current ≥ 0
    if prepend then
      let h := { h with next := set h.next current sorted }      -- current.SetNextSibling(sorted)
      let h := match sorted with
        | some s => { h with prev := set h.prev s (some current) }   -- sorted.SetPreviousSibling(current)
        | none => h
      let h := { h with prev := set h.prev current none }        -- sorted = current; sorted.SetPreviousSibling(nil)
      sortOuter fuel0 cmp fuel h (some current) next
    else
      match sorted with
      | none => .error .nilDeref    -- unreachable: prepend is true when sorted == nil
      | some s =>
        match sortInner h cmp current fuel0 s with               -- c := sorted; for … { c = c.NextSibling() }
        | .error e => .error e
        | .ok c =>
          let cn := h.next c
          let h := { h with next := set h.next current cn }      -- current.SetNextSibling(c.NextSibling())
          let h := { h with prev := set h.prev current (some c) } -- current.SetPreviousSibling(c)
          let h := match h.next c with
            | some d => { h with prev := set h.prev d (some current) }  -- c.NextSibling().SetPreviousSibling(current)
            | none => h
          let h := { h with next := set h.next c (some current) } -- c.SetNextSibling(current)
          sortOuter fuel0 cmp fuel h sorted next

/-- `for c := n.firstChild; c != nil; c = c.NextSibling() { n.lastChild = c }` -/
def sortLast (self : Nat) : Nat → Heap → Option Nat → Except Fault Heap
  | _, h, none => .ok h
  | 0, _, some _ => .error .fuel
  | fuel + 1, h, some c =>
    let h := { h with last := set h.last self (some c) }
    sortLast self fuel h (h.next c)

def sortChildren (fuel : Nat) (h : Heap) (self : Nat) (cmp : Nat → Nat → Int) : Except Fault Heap :=
  match sortOuter fuel cmp fuel h none (h.first self) with
  | .error e => .error e
  | .ok (h, sorted) =>
    let h := { h with first := set h.first self sorted }         -- n.firstChild = sorted
    sortLast self fuel h (h.first self)

/-! ### one API call / call sequences -/
def step (fuel : Nat) (h : Heap) : Op → Except Fault Heap
  | .append p c => appendChild h p c
  | .insertBefore p v c => insertBefore h p v c
  | .insertAfter p v c => insertAfter h p v c
  | .replace p v c => replaceChild h p v c
  | .remove p c => removeChild h p c
  | .removeChildren p => removeChildren fuel h p
  | .sort p cmp => sortChildren fuel h p cmp

def run (fuel : Nat) (h : Heap) : List Op → Except Fault Heap
  | [] => .ok h
  | op :: ops =>
    match step fuel h op with
    | .error e => .error e
    | .ok h => run fuel h ops

/-- all intermediate heaps (for the driver): the heap after each op, and the fault that ended the run -/
def runTrace (fuel : Nat) (h : Heap) : List Op → List Heap × Option Fault
  | [] => ([], none)
  | op :: ops =>
    match step fuel h op with
    | .error e => ([], some e)
    | .ok h => let r := runTrace fuel h ops; (h :: r.1, r.2)

/-! ### Walk / walkHelper (ast.go:505-527) with a scripted walker -/

/-- result of walkHelper: returned status, whether the returned error is non-nil, visitor calls made -/
structure WalkRes where
  status : Status
  err : Bool
  events : List Event

mutual
def walkNode (h : Heap) (s : Script) : Nat → Nat → Except Fault WalkRes
  | 0, _ => .error .fuel
  | fuel + 1, n =>
    let r := s n true                                      -- status, err := walker(n, true)
    if r.2 || r.1 == .stop then .ok ⟨r.1, r.2, [(n, true)]⟩  -- return status, err
    else
      let kids : Except Fault WalkRes :=
        if r.1 != .skip then walkKids h s fuel (h.first n)  -- for c := n.FirstChild(); …
        else .ok ⟨.cont, false, []⟩
      match kids with
      | .error e => .error e
      | .ok k =>
        if k.status == .stop then .ok ⟨.stop, k.err, (n, true) :: k.events⟩   -- return WalkStop, err
        else
          let r2 := s n false                              -- status, err = walker(n, false)
          let ev := (n, true) :: k.events ++ [(n, false)]
          if r2.2 || r2.1 == .stop then .ok ⟨.stop, r2.2, ev⟩
          else .ok ⟨.cont, false, ev⟩
/-- the child loop; `status = stop` in the result means "the loop returned WalkStop, err" -/
def walkKids (h : Heap) (s : Script) : Nat → Option Nat → Except Fault WalkRes
  | _, none => .ok ⟨.cont, false, []⟩
  | 0, some _ => .error .fuel
  | fuel + 1, some c =>
    match walkNode h s fuel c with
    | .error e => .error e
    | .ok r =>
      if r.err || r.status == .stop then .ok ⟨.stop, r.err, r.events⟩
      else
        match walkKids h s fuel (h.next c) with            -- c = c.NextSibling()
        | .error e => .error e
        | .ok r2 => .ok ⟨r2.status, r2.err, r.events ++ r2.events⟩
end

/-- ast.Walk: the error and the sequence of visitor calls -/
def walk (fuel : Nat) (h : Heap) (s : Script) (n : Nat) : Except Fault WalkOut :=
  match walkNode h s fuel n with
  | .error e => .error e
  | .ok r => .ok ⟨r.events, r.status == .stop || r.err, r.err⟩

end GM.AstHeap
