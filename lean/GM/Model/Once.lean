/-
  GM.Model.Once — the lazy-initialisation protocol shared by parser.Parse (parser.go:841-866),
  renderer.Render (renderer.go:136-156) and util.LookUpHTML5EntityByName (html5entities.go:9-33):
  N callers race on `once.Do(init)`, then only read what `init` built.

  Small-step interleaving semantics. `sync.Once`'s documented contract is the synchronisation rule:
  exactly one caller runs `f`; no call of `Do` returns before that run of `f` has completed.
  What this model cannot exhibit: the Go memory model itself, and code that writes shared state outside
  the closures the fact extractor found (see GM.Gen.StateFacts and Props/C07.facts_*). Core Lean only.
-/
namespace GM.Once

/-- program counter of one caller -/
inductive Pc where
  | start                 -- about to call once.Do
  | blocked               -- inside Do, waiting for the running initialiser
  | init (k : Nat)        -- running `f`: has performed k of the `nInit` writes to the shared table
  | ready                 -- Do has returned
  | reading (k : Nat)     -- has performed k of its reads of the shared table
  | done (result : Nat)   -- returned
deriving DecidableEq, Repr

inductive OnceSt | notStarted | running | finished
deriving DecidableEq, Repr

structure Sys where
  once : OnceSt
  /-- the shared table: cell i holds `some v` once the initialiser wrote it -/
  table : List (Option Nat)
  pcs : List Pc
deriving Repr

/-- parameters: what `init` writes (the frozen configuration) and how many reads a call performs -/
structure Params where
  cfg : List Nat            -- value written to cell i
  nReads : Nat
  /-- result of a call with input `x` computed from the table it read -/
  compute : List (Option Nat) → Nat → Nat

def initial (p : Params) (n : Nat) : Sys :=
  { once := .notStarted, table := List.replicate p.cfg.length none, pcs := List.replicate n .start }

/-- one step of caller `i`, currently at `pc` (with input `x i`); `none` when the caller cannot move -/
def stepPc (p : Params) (x : Nat → Nat) (s : Sys) (i : Nat) : Pc → Option Sys
  | .start =>
    match s.once with
    | .notStarted => some { s with once := .running, pcs := s.pcs.set i (.init 0) }
    | .running => some { s with pcs := s.pcs.set i .blocked }
    | .finished => some { s with pcs := s.pcs.set i .ready }
  | .blocked =>
    if s.once = .finished then some { s with pcs := s.pcs.set i .ready } else none
  | .init k =>
    if k < p.cfg.length then
      some { s with table := s.table.set k (some (p.cfg.getD k 0)), pcs := s.pcs.set i (.init (k + 1)) }
    else some { s with once := .finished, pcs := s.pcs.set i .ready }
  | .ready => some { s with pcs := s.pcs.set i (.reading 0) }
  | .reading k =>
    if k < p.nReads then some { s with pcs := s.pcs.set i (.reading (k + 1)) }
    else some { s with pcs := s.pcs.set i (.done (p.compute s.table (x i))) }
  | .done _ => none

def step (p : Params) (x : Nat → Nat) (s : Sys) (i : Nat) : Option Sys :=
  match s.pcs[i]? with
  | none => none
  | some pc => stepPc p x s i pc

/-- run a schedule (callers that cannot move are skipped) -/
def run (p : Params) (x : Nat → Nat) (s : Sys) : List Nat → Sys
  | [] => s
  | i :: rest => run p x ((step p x s i).getD s) rest

/-- the next step of a caller in this pc writes the shared table -/
def writesNext (p : Params) : Pc → Bool
  | .init k => k < p.cfg.length
  | _ => false

/-- the next step of a caller in this pc reads the shared table -/
def readsNext : Pc → Bool
  | .reading _ => true
  | _ => false

/-- two different callers are about to access the shared table and at least one of them writes: a data race -/
def conflict (p : Params) (s : Sys) : Prop :=
  ∃ (i j : Nat) (a b : Pc), i ≠ j ∧ s.pcs[i]? = some a ∧ s.pcs[j]? = some b ∧
    writesNext p a = true ∧ (writesNext p b = true ∨ readsNext b = true)

/-- the fully built table -/
def built (p : Params) : List (Option Nat) := p.cfg.map some

end GM.Once
