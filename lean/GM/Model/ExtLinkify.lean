/-
  GM.Model.ExtLinkify — the ACCEPT path of extension.Linkify (extension/linkify.go) on the concrete inline model, default
  LinkifyConfig (AllowedProtocols nil, the two default URL regexps, util.FindEmailIndex for e-mail):

    linkify.go:14   wwwURLRegxp  ^www\.[-a-zA-Z0-9@:%._\+~#=]{1,256}\.[a-z]+(?:[/#?][-a-zA-Z0-9@:%_\+.~#!?&/=\(\);,'">\^{}\[\]`]*)?
    linkify.go:16   urlRegexp    ^(?:http|https|ftp)://[-a-zA-Z0-9@:%._\+~#=]{1,256}\.[a-z]+(?::\d+)?(?:[/#?][-a-zA-Z0-9@:%_+.~#$!?&/=\(\);,'">\^{}\[\]`]*)?
                    hand-matched (`matchURL`, `matchWWW`: the end offset of the match, none = no match). RE2 finds the
                    leftmost match and among those the one a backtracking matcher would find first: the bounded class run
                    `{1,256}` is greedy and gives back bytes until `\.[a-z]` follows — the LARGEST k ≤ 256 with k class bytes
                    followed by '.' and a lower-case letter (`domainK`) —, then `[a-z]+`, the optional port and the optional
                    path are greedy and never give back (what follows them is optional or the end of the expression). The
                    source text of the two expressions is tied statically by GM.Props.Consts (`extension_regexps_tied`), the
                    matchers differentially by component `convertx` (whole documents) on URL alphabets.
    linkify.go:170-296  (*linkifyParser).Parse: `pc.IsInLinkLabel()` (the link-label list is non-empty: a `.label` among
                    `parent`'s children), the stripped first byte, the protocol guards, `www.` (which sets Protocol = "http"
                    as soon as the URL expression has not matched — also when the www expression then fails and the e-mail path
                    accepts), the three trailing-character rules (`.`, `)` balance, `;` entity), the e-mail path
                    (util.FindEmailIndex = GM.Inl.findEmailIndex, as GM.Ext.linkifyEmail), the flush of the stripped byte
                    (`MergeOrAppendTextSegment(parent, segment.WithStop(segment.Start+1))`), the trailing punctuation walk,
                    Advance, the AutoLink node. Index / slice panics explicit.

  ENCODING. GM.Inl.Node.autoLink has no Protocol field: `Protocol = "http"` is recorded as `forceNewline = true` on the node's
  segment (no inline parser of the default set builds such a segment) and decoded by GM.ConvertX.inlineTreeL. Core Lean only.
-/
import GM.Model.InlinesLoopX
import GM.Model.ExtDecline

namespace GM.Inl
open GM GM.Text

/-- `[-a-zA-Z0-9@:%._\+~#=]` -/
def lkDomainByte (c : UInt8) : Bool :=
  c == 45 || isAlnum c || c == 64 || c == 58 || c == 37 || c == 46 || c == 95 || c == 43 || c == 126 || c == 35 || c == 61

/-- `[-a-zA-Z0-9@:%_+.~#$!?&/=\(\);,'">\^{}\[\]`]` (`dollar`: the URL expression has `$`, the www expression has not) -/
def lkPathByte (dollar : Bool) (c : UInt8) : Bool :=
  c == 45 || isAlnum c || c == 64 || c == 58 || c == 37 || c == 95 || c == 43 || c == 46 || c == 126 || c == 35 ||
  (dollar && c == 36) || c == 33 || c == 63 || c == 38 || c == 47 || c == 61 || c == 40 || c == 41 || c == 59 || c == 44 ||
  c == 39 || c == 34 || c == 62 || c == 94 || c == 123 || c == 125 || c == 91 || c == 93 || c == 96

def lkLower (c : UInt8) : Bool := 97 ≤ c && c ≤ 122
def lkDigit (c : UInt8) : Bool := 48 ≤ c && c ≤ 57

/-- the largest `k` from `lim` down to 1 with `s[k] = '.'` and `s[k+1]` a lower-case letter -/
def domainSearch (s : Bytes) : Nat → Option Nat
  | 0 => none
  | k + 1 =>
    if s.getD (k + 1) 0 == 46 && decide (k + 2 < s.length) && lkLower (s.getD (k + 2) 0) then some (k + 1)
    else domainSearch s k

/-- `[class]{1,256}\.[a-z]+` at the start of `s`: the offset behind the letters -/
def matchDomain (s : Bytes) : Option Nat :=
  let run := (s.takeWhile lkDomainByte).length
  match domainSearch s (min 256 run) with
  | none => none
  | some k => some (k + 1 + ((s.drop (k + 1)).takeWhile lkLower).length)

/-- `(?::\d+)?` at offset `e` -/
def matchPort (s : Bytes) (e : Nat) : Nat :=
  if s.getD e 0 == 58 && decide (e < s.length) then
    let ds := ((s.drop (e + 1)).takeWhile lkDigit).length
    if ds == 0 then e else e + 1 + ds
  else e

/-- `(?:[/#?][class]*)?` at offset `e` -/
def matchPath (dollar : Bool) (s : Bytes) (e : Nat) : Nat :=
  if decide (e < s.length) && (s.getD e 0 == 47 || s.getD e 0 == 35 || s.getD e 0 == 63) then
    e + 1 + ((s.drop (e + 1)).takeWhile (lkPathByte dollar)).length
  else e

def lkHTTP : Bytes := [104, 116, 116, 112, 58, 47, 47]             -- "http://"
def lkHTTPS : Bytes := [104, 116, 116, 112, 115, 58, 47, 47]       -- "https://"
def lkFTP : Bytes := [102, 116, 112, 58, 47, 47]                   -- "ftp://"

/-- urlRegexp.FindSubmatchIndex(line): m[1] -/
def matchURL (line : Bytes) : Option Nat :=
  let pre : Option Nat :=
    if lkHTTP.isPrefixOf line then some 7 else if lkHTTPS.isPrefixOf line then some 8
    else if lkFTP.isPrefixOf line then some 6 else none
  match pre with
  | none => none
  | some p =>
    match matchDomain (line.drop p) with
    | none => none
    | some d =>
      let rest := line.drop p
      some (p + matchPath true rest (matchPort rest d))

/-- wwwURLRegxp.FindSubmatchIndex(line): m[1] -/
def matchWWW (line : Bytes) : Option Nat :=
  if GM.Ext.domainWWW.isPrefixOf line then
    match matchDomain (line.drop 4) with
    | none => none
    | some d => some (4 + matchPath false (line.drop 4) d)
  else none

/-- linkify.go:214-223: the `)` rule: `closing` over `line[0:m1]` -/
def lkClosing (line : Bytes) (m1 : Nat) : Int :=
  (line.take m1).foldl (fun a c => if c == 41 then a + 1 else if c == 40 then a - 1 else a) 0

/-- linkify.go:224-236: the `;` rule: the index the walk over alphanumerics stops at, from `m1 - 2` down (−1 = below 0) -/
def lkEntityWalk (line : Bytes) : Nat → Int
  | 0 => if isAlnum (line.getD 0 0) then -1 else 0
  | i + 1 => if isAlnum (line.getD (i + 1) 0) then lkEntityWalk line i else (i + 1 : Nat)

/-- linkify.go:208-237: the trailing-character rules of a URL match `[0, m1)` (`m1 ≥ 1`) -/
def lkURLEnd (line : Bytes) (m1 : Nat) : Except Panic Nat :=
  let last := line.getD (m1 - 1) 0
  if last == 46 then .ok (m1 - 1)
  else if last == 41 then
    let closing := lkClosing line m1
    .ok (if closing > 0 then m1 - closing.toNat else m1)
  else if last == 59 then
    if m1 < 2 then .ok m1                                             -- `i = m1-2 < m0`: the loop does not run, `i == m1-2`
    else
      let i := lkEntityWalk line (m1 - 2)
      if i == ((m1 - 2 : Nat) : Int) then .ok m1
      else if i < 0 then .error .index                                -- `line[-1]`
      else if line.getD i.toNat 0 == 38 then .ok i.toNat else .ok m1
  else .ok m1

/-- `len(line) > 0 && util.IsPunct(line[0])` -/
def lkHeadPunct : Bytes → Bool
  | d :: _ => isPunct d
  | [] => false

/-- linkify.go:238-266: the e-mail path on `line`: `m1`, or none = `return nil` -/
def lkEmailEnd (line : Bytes) : Except Panic (Option Nat) :=
  if lkHeadPunct line then .ok none
  else
    let stop := findEmailIndex line
    if stop < 0 then .ok none
    else
      let stop := stop.toNat
      match GM.Ext.indexByte 64 line 0 with
      | none => .error .slice                                         -- `line[-1:stop-1]`
      | some at_ =>
        if at_ > stop - 1 then .error .slice
        else if (GM.Ext.indexByte 46 ((line.drop at_).take (stop - 1 - at_)) 0).isNone then .ok none
        else
          let m1 := if line.getD (stop - 1) 0 == 46 then stop - 1 else stop
          if m1 < line.length && (line.getD m1 0 == 45 || line.getD m1 0 == 95) then .ok none
          else .ok (some m1)

/-- linkify.go:267-288: flush the stripped byte, walk back over trailing punctuation, Advance, the AutoLink node.
    `ln` = the line behind the stripped byte, `m1` = the end of the match in it -/
def linkifyFinish (st : St) (segment : Segment) (strip : Bool) (ln : Bytes) (proto email : Bool) (m1 : Nat) : PRes := do
  let start := if strip then segment.start + 1 else segment.start
  let kids := if strip then mergeOrAppend st.kids (segment.withStop (segment.start + 1)) else st.kids
  let i := if m1 == 0 then 0 else GM.Ext.linkifyTrailing ln (m1 - 1) + 1
  let rd ← st.rd.advance (((if strip then 1 else 0) + i : Nat) : Int)
  pure (some (.autoLink email { start := start, stop := start + i, forceNewline := proto }),
        { st with rd := rd, kids := kids })

/-- (*linkifyParser).Parse -/
def parseLinkify (_env : Env) (st : St) : PRes :=
  if st.kids.any Node.isLabel then .ok (none, st)                     -- `pc.IsInLinkLabel()`
  else do
    let ((line, segment), rd) ← st.rd.peekLine
    let st := { st with rd := rd }
    match line.getD [] with
    | [] => throw .index                                               -- `c := line[0]`
    | c :: rest =>
      let strip := GM.Ext.linkifyStrip c
      let ln := if strip then rest else c :: rest
      let mURL := matchURL ln
      let wwwTried := mURL.isNone && GM.Ext.domainWWW.isPrefixOf ln     -- Protocol = "http"
      let m := if mURL.isSome then mURL else if wwwTried then matchWWW ln else none
      match m with
      | some m1 => do
        let m1' ← lkURLEnd ln m1
        linkifyFinish st segment strip ln wwwTried false m1'
      | none => do
        match ← lkEmailEnd ln with
        | none => pure (none, st)
        | some m1 => linkifyFinish st segment strip ln wwwTried true m1

/-- extension.NewLinkifyParser(): Trigger() = {' ', '*', '_', '~', '('} -/
def linkifyParser : XParser := { triggers := [32, 42, 95, 126, 40], parse := parseLinkify }

end GM.Inl
